/- C02 — Delivered messages are authentic and untampered; C19 — nonces are never reused;
C15 (handler part) — sessions expire and the session cache is bounded.  Handler model. -/
import Discv5Model.Proofs.HandlerCrypto
namespace Discv5.H
open Cr

/-- Whatever is handed to the application as a request or response of `na` in reaction to a
message datagram is the plaintext of an AEAD term sealed under the current or previous decryption
key of the session held for `na`, with the datagram's own nonce and its own associated data. -/
theorem delivered_was_sealed (c : Cfg) (s : HState) (src : Addr) (srcId nonce : Nat) (ct : Ct) (o : Out)
    (ho : o ∈ (step c s (.dgram src (.message srcId nonce ct))).2)
    (hd : (∃ rid b, o = .request { id := srcId, addr := src } rid b) ∨
          (∃ na rid rb, o = .response na rid rb) ∨ (∃ r a d, o = .established r a d)) :
    ∃ key ctr pt sess stamp, ct = .enc key nonce ctr pt true ∧
      ({ id := srcId, addr := src }, sess, stamp) ∈ s.sessions ∧
      (key = sess.keys.dec ∨ ∃ old, sess.oldKeys = some old ∧ key = old.dec) := by
  have h := handleMessage_out c { id := srcId, addr := src } nonce ct
    (fun o => ((∃ rid b, o = .request { id := srcId, addr := src } rid b) ∨
          (∃ na rid rb, o = .response na rid rb) ∨ (∃ r a d, o = .established r a d)) →
          SealedFor s { id := srcId, addr := src } nonce ct) (s, [])
    (by rintro rid e (⟨_, _, h⟩ | ⟨_, _, _, h⟩ | ⟨_, _, _, h⟩) <;> cases h)
    (by rintro l (⟨_, _, h⟩ | ⟨_, _, _, h⟩ | ⟨_, _, _, h⟩) <;> cases h)
    (by rintro (⟨_, _, h⟩ | ⟨_, _, _, h⟩ | ⟨_, _, _, h⟩) <;> cases h)
    (fun hs => ⟨fun _ _ _ => hs, fun _ _ _ => hs, fun _ _ _ _ => hs, fun _ _ _ _ => hs⟩)
    (by intro o ho; cases ho)
  exact h o ho hd

/-- Tampering (bad tag/ciphertext = `garbage`, wrong associated data, a nonce differing from the
header's) never leads to a delivery. -/
theorem tamper_rejected (c : Cfg) (s : HState) (src : Addr) (srcId nonce : Nat) (ct : Ct)
    (h : ct = .garbage ∨ ∃ k n ctr pt ok, ct = .enc k n ctr pt ok ∧ (ok = false ∨ n ≠ nonce)) :
    ∀ o ∈ (step c s (.dgram src (.message srcId nonce ct))).2,
      (∀ na rid b, o ≠ .request na rid b) ∧ (∀ na rid rb, o ≠ .response na rid rb) ∧
      (∀ r a d, o ≠ .established r a d) := by
  have hns : ¬ SealedFor s { id := srcId, addr := src } nonce ct := by
    rintro ⟨key, ctr, pt, sess, stamp, rfl, -, -⟩
    rcases h with h | ⟨k, n, ctr', pt', ok, h, h'⟩
    · cases h
    · cases h; rcases h' with h' | h'
      · cases h'
      · exact h' rfl
  exact handleMessage_out c { id := srcId, addr := src } nonce ct
    (fun o => (∀ na rid b, o ≠ .request na rid b) ∧ (∀ na rid rb, o ≠ .response na rid rb) ∧
      (∀ r a d, o ≠ .established r a d)) (s, [])
    (by intros; simp) (by intros; simp) (by simp)
    (fun hs => absurd hs hns)
    (by intro o ho; cases ho)

/-- Attribution follows the session: every delivered request or response names exactly the node
address (claimed source id, source address) under which the decrypting session is stored. -/
theorem delivery_attributed_to_session_key (c : Cfg) (s : HState) (src : Addr) (srcId nonce : Nat)
    (ct : Ct) (na : NA) (rid : Nat) :
    ((∃ b, Out.request na rid b ∈ (step c s (.dgram src (.message srcId nonce ct))).2) ∨
     (∃ rb, Out.response na rid rb ∈ (step c s (.dgram src (.message srcId nonce ct))).2)) →
    na = { id := srcId, addr := src } := by
  have h := handleMessage_out c { id := srcId, addr := src } nonce ct
    (fun o => ∀ na' rid', ((∃ b, o = .request na' rid' b) ∨ (∃ rb, o = .response na' rid' rb)) →
      na' = { id := srcId, addr := src }) (s, [])
    (by rintro _ _ _ _ (⟨_, h⟩ | ⟨_, h⟩) <;> cases h)
    (by rintro _ _ _ (⟨_, h⟩ | ⟨_, h⟩) <;> cases h)
    (by rintro _ _ (⟨_, h⟩ | ⟨_, h⟩) <;> cases h)
    (fun _ => ⟨(by rintro _ _ _ _ (⟨_, h⟩ | ⟨_, h⟩) <;> cases h <;> rfl),
      (by rintro _ _ _ _ (⟨_, h⟩ | ⟨_, h⟩) <;> cases h <;> rfl),
      (by rintro _ _ _ _ _ (⟨_, h⟩ | ⟨_, h⟩) <;> cases h),
      (by rintro _ _ _ _ _ (⟨_, h⟩ | ⟨_, h⟩) <;> cases h)⟩)
    (by intro o ho; cases ho)
  rintro (⟨b, hb⟩ | ⟨rb, hb⟩)
  · exact h _ hb na rid (Or.inl ⟨b, rfl⟩)
  · exact h _ hb na rid (Or.inr ⟨rb, rfl⟩)

/-- The two directions of a session never share a key (a node cannot be fed its own ciphertexts). -/
theorem keys_directional (c : Cfg) (evs : List Ev) :
    ∀ e ∈ (run c evs).sessions, e.2.1.keys.enc ≠ e.2.1.keys.dec ∧
      ∀ old, e.2.1.oldKeys = some old → old.enc ≠ old.dec := by
  intro e he
  have h := (run_B c evs).2 e he
  exact ⟨fun heq => h.1 (by rw [heq]), fun old ho heq => h.2 old ho (by rw [heq])⟩

/-! ### C19 -/

/-- Under one key a node never seals two different message packets with the same counter prefix:
two sealed message packets it sends under the same key and the same counter are the same packet
(a retransmission).  Holds for every naming of the random nonce parts. -/
theorem counter_nonces_distinct (c : Cfg) (evs : List Ev) (hw : ContactsWF evs) :
    ∀ a ∈ sentSealed (outputs c evs), ∀ b ∈ sentSealed (outputs c evs),
      a.1 = b.1 → a.2.1 = b.2.1 → a.2.2 = b.2.2 := by
  have h0 : CI c [] ({} : HState).sessions ({} : HState).challenges ({} : HState).active
      ({} : HState).fresh.eph ({} : HState).fresh.cd [] :=
    { nodup := List.Pairwise.nil
      disj := fun _ h => by cases h
      bound := fun _ h => by cases h
      oldS := fun _ h => by cases h
      oldH := fun _ h => by cases h
      res := fun _ h => by cases h
      chOk := fun _ h => by cases h
      chDist := List.Pairwise.nil
      self := fun _ h => by cases h
      actOk := fun _ h => by cases h }
  exact trace_C c evs {} [] h0

/-- The counter of a session only grows, and every sealed message carries the counter value
reached when it was made. -/
theorem encrypt_advances_counter (c : Cfg) (sess : Session) (pt : Msg) (st : HState × List Out) :
    ((encryptMessage c sess pt).run st).1.1.counter = sess.counter + 1 ∧
    ∃ n, ((encryptMessage c sess pt).run st).1.2 =
      .message c.localId n (.enc sess.keys.enc n (sess.counter + 1) pt true) := by
  exact ⟨rfl, _, rfl⟩

/-! ### C15 (handler part) -/

/-- The session cache never exceeds its capacity. -/
theorem sessions_bounded (c : Cfg) (evs : List Ev) (hc : 1 ≤ c.sessionCap) :
    (run c evs).sessions.length ≤ c.sessionCap := (run_B c evs).1

/-- A session idle for longer than the timeout is never used again: the accessor through which
every use goes reports it absent and drops it. -/
theorem expired_session_absent (c : Cfg) (na : NA) (st : HState × List Out) (sess : Session) (stamp : Nat)
    (hf : st.1.sessions.find? (·.1 == na) = some (na, sess, stamp)) (hx : stamp + c.sessionTtl < st.1.rt) :
    ((sessGetMut c na).run st).1 = none ∧
    ((sessGetMut c na).run st).2.1.sessions.all (·.1 != na) = true := by
  show wp (sessGetMut c na) (fun r st' => r = none ∧ st'.1.sessions.all (·.1 != na) = true) st
  rw [wp_sessGetMut]
  refine ⟨fun h => (by rw [hf] at h; cases h), fun x sess' stamp' hf' => ⟨fun _ => ⟨rfl, ?_⟩, fun h => absurd ?_ h⟩⟩
  · simp [List.all_filter]
  · rw [hf] at hf'
    simp only [Option.some.injEq, Prod.mk.injEq] at hf'
    obtain ⟨-, rfl, rfl⟩ := hf'
    exact hx

/-- … so the next request to that peer starts a fresh handshake (a random packet, not a message
sealed under the old keys), and a message from that peer is answered with a who-are-you query. -/
theorem expired_session_not_used (c : Cfg) (s : HState) (na : NA) (sess : Session) (stamp : Nat)
    (hf : s.sessions.find? (·.1 == na) = some (na, sess, stamp)) (hx : stamp + c.sessionTtl < s.rt)
    (hl : c.listen.contains na.addr = false) :
    (∀ r rid body o, o ∈ (step c s (.appRequest { na := na, record := r } rid body)).2 →
        ∀ dst src n k n' ctr pt ok, o ≠ .send dst (.message src n (.enc k n' ctr pt ok))) ∧
    (∀ nonce ct, (step c s (.dgram na.addr (.message na.id nonce ct))).2 = [.wru na nonce]) := by
  constructor
  · intro r rid body
    have h : wp (stepM c (.appRequest { na := na, record := r } rid body))
        (fun _ => AllOut NotSealedSend) (s, []) := by
      unfold stepM
      rw [wp_bind]
      refine wp_mono (sendRequest_expired c s na sess stamp r rid body false hf hx hl NotSealedSend (by intro _ _; unfold NotSealedSend; simp)) (fun a st' h' => ?_)
      cases a with
      | none => exact h'
      | some e => simp only []; cr_wpsimp; exact AllOut.snoc h' (by unfold NotSealedSend; simp)
    exact h
  · intro nonce ct
    show wp (handleMessage c na nonce ct) (fun _ st' => st'.2 = [.wru na nonce]) (s, [])
    unfold handleMessage
    rw [wp_bind, wp_sessGetMut]
    refine ⟨fun h => (by rw [hf] at h; cases h), fun x sess' stamp' hf' => ⟨fun _ => rfl, fun h => absurd ?_ h⟩⟩
    rw [hf] at hf'
    simp only [Option.some.injEq, Prod.mk.injEq] at hf'
    obtain ⟨-, rfl, rfl⟩ := hf'
    exact hx

/-- When the cache is full the least recently used session (the head) is the one dropped. -/
theorem eviction_is_lru (c : Cfg) (na : NA) (sess : Session) (st : HState × List Out)
    (hn : st.1.sessions.all (·.1 != na) = true) (hfull : st.1.sessions.length = c.sessionCap)
    (hc : 1 ≤ c.sessionCap) :
    ((sessInsert c na sess).run st).2.1.sessions = st.1.sessions.drop 1 ++ [(na, sess, st.1.rt)] := by
  have hfil : st.1.sessions.filter (·.1 != na) = st.1.sessions := by
    rw [List.filter_eq_self]; simpa [List.all_eq_true] using hn
  show (if (st.1.sessions.filter (·.1 != na) ++ [(na, sess, st.1.rt)]).length > c.sessionCap
    then (st.1.sessions.filter (·.1 != na) ++ [(na, sess, st.1.rt)]).drop 1
    else st.1.sessions.filter (·.1 != na) ++ [(na, sess, st.1.rt)]) = _
  rw [hfil, if_pos (by simp [hfull])]
  cases h : st.1.sessions with
  | nil => simp [h] at hfull; omega
  | cons x xs => simp


/-! ### Non-vacuity -/
namespace C02Ex

def exCfg : Cfg :=
  { localId := 1, localSeq := 1, localRec := { id := 1, seq := 1, udp4 := some 10, udp6 := none },
    requestRetries := 1, requestTimeout := 1000, sessionTtl := 10, sessionCap := 4, listen := [],
    findnode0 := 0 }
def exAddr : Addr := { v6 := false, n := 20 }
def exNA : NA := { id := 2, addr := exAddr }
def exKeys : Keys :=
  { enc := { eph := 1000001, cd := 7, ini := 1, rcp := 2, toRcp := true },
    dec := { eph := 1000001, cd := 7, ini := 1, rcp := 2, toRcp := false } }
def exSess : Session := { keys := exKeys }
def exState : HState := { sessions := [(exNA, exSess, 0)] }
def exCt (ok : Bool) : Ct := .enc exKeys.dec 55 3 (.request 7 3) ok


/-- A sealed message under the session's decryption key, with the right nonce and associated data, IS
delivered (the hypotheses of `delivered_was_sealed` are inhabited). -/
example : Out.request exNA 7 3 ∈ (step exCfg exState (.dgram exAddr (.message 2 55 (exCt true)))).2 := by decide

/-- The same message presented with the wrong associated data is not delivered (a WHOAREYOU goes out). -/
example : (step exCfg exState (.dgram exAddr (.message 2 55 (exCt false)))).2 = [.wru exNA 55] := by decide

/-- A concrete expired session: the hypotheses of `expired_session_not_used` hold. -/
example : ({ exState with rt := 100 } : HState).sessions.find? (·.1 == exNA) = some (exNA, exSess, 0) ∧
    0 + exCfg.sessionTtl < ({ exState with rt := 100 } : HState).rt ∧
    exCfg.listen.contains exNA.addr = false := by decide

/-- … and `expired_session_not_used` applies to it: even a correctly sealed message is answered with
WHOAREYOU once the session has expired. -/
example : (step exCfg { exState with rt := 100 } (.dgram exAddr (.message 2 55 (exCt true)))).2 = [.wru exNA 55] :=
  (expired_session_not_used exCfg { exState with rt := 100 } exNA exSess 0 (by decide) (by decide) (by decide)).2 55 _

def exEvs : List Ev :=
  [ .appRequest { na := exNA, record := some { id := 2, seq := 1, udp4 := some 20, udp6 := none } } 5 1,
    .dgram exAddr (.whoareyou 1000001 77 0),
    .appRequest { na := exNA, record := none } 6 1,
    .appResponse exNA 9 (.other 0) ]

/-- A history with a handshake and two sealed messages under the same key: counters 1 and 2. -/
example : (sentSealed (outputs exCfg exEvs)).map (fun x => (x.1, x.2.1)) =
    [({ eph := 1000001, cd := 77, ini := 1, rcp := 2, toRcp := true }, 1),
     ({ eph := 1000001, cd := 77, ini := 1, rcp := 2, toRcp := true }, 2)] := by decide +kernel

def exCfg2 : Cfg := { exCfg with requestRetries := 2 }
/-- With a retry left, the request timer retransmits the stored packet: the same (key, counter) appears
twice in the history — the case `counter_nonces_distinct` identifies as "the same packet". -/
example : (sentSealed (outputs exCfg2 (exEvs ++ [.adv 1000]))).map (fun x => (x.1, x.2.1)) =
    [({ eph := 1000001, cd := 77, ini := 1, rcp := 2, toRcp := true }, 1),
     ({ eph := 1000001, cd := 77, ini := 1, rcp := 2, toRcp := true }, 2),
     ({ eph := 1000001, cd := 77, ini := 1, rcp := 2, toRcp := true }, 1)] := by decide +kernel

end C02Ex

end Discv5.H

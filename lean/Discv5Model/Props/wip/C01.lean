/- C01 — Handshake proves node identity; C03 — handshakes answer only fresh, outstanding
challenges (handler model, symbolic cryptography). -/
import Discv5Model.Proofs.HandlerIdentity
namespace Discv5.H
open HI
set_option linter.unusedSimpArgs false

/-- What an accepted handshake proves (pure function): the chosen record belongs to the claimed
id, the signature was made by that id's key over exactly this challenge, this ephemeral key and
this node's id, and the session keys are the ones derived from them. -/
theorem establish_binds_identity (c : Cfg) (remoteId : Id) (ch : Challenge) (sig : Sig) (eph : Nat)
    (record : Option Rec) (sess : Session) (r : Rec)
    (h : establishFromChallenge c remoteId ch sig eph record = some (some (sess, r))) :
    r.id = remoteId ∧ sig.signer = remoteId ∧ sig.cd = ch.cd ∧ sig.eph = eph ∧ sig.dst = c.localId ∧
    sess.keys.dec = { eph := eph, cd := ch.cd, ini := remoteId, rcp := c.localId, toRcp := true } ∧
    sess.keys.enc = { eph := eph, cd := ch.cd, ini := remoteId, rcp := c.localId, toRcp := false } ∧
    (r = record.getD r ∨ ch.remoteRec = some r) := by
  obtain ⟨h1, h2, h3, h4, h5, h6, h7⟩ := establish_ok c remoteId ch sig eph record sess r h
  subst h6
  exact ⟨h1, h2, h3, h4, h5, rfl, rfl, h7⟩

/-- Every session held for a node id `x` is justified: this node dialled `x` itself, or a
handshake carrying a signature by `x`'s key, addressed to this node, was received. -/
theorem session_needs_proof (c : Cfg) (evs : List Ev) (hw : ContactsWF evs) :
    ∀ e ∈ (run c evs).sessions,
      e.1.id ∈ dialled evs ∨
      ∃ p ∈ handshakeSigs evs, p.2.signer = e.1.id ∧ p.2.dst = c.localId ∧ p.1 = e.1 :=
  fun e he => (invA c evs hw).1.sess e he

/-- No forgery: if no received handshake carries a signature made with `x`'s key and this node
never dialled `x`, then nothing is ever attributed to `x` — no session, no established /
unverifiable report, no request or response — whatever records, sequence numbers or source
addresses the datagrams present. -/
theorem no_forgery (c : Cfg) (evs : List Ev) (x : Id) (hw : ContactsWF evs)
    (hs : ∀ p ∈ handshakeSigs evs, p.2.signer ≠ x) (hd : x ∉ dialled evs) :
    (∀ e ∈ (run c evs).sessions, e.1.id ≠ x) ∧ ∀ o ∈ outputs c evs, attributesTo x o = false := by
  have bad : ∀ na : NA, Good c evs na → na.id ≠ x := by
    intro na hg hx
    rcases hg with h | ⟨p, hp, h1, -, -⟩
    · exact hd (hx ▸ h)
    · exact hs p hp (h1.trans hx)
  refine ⟨fun e he => bad _ ((invA c evs hw).1.sess e he), ?_⟩
  intro o ho
  cases hb : attributesTo x o with
  | false => rfl
  | true =>
    obtain ⟨na, hn, hid⟩ := (invA c evs hw).2 o ho x hb
    exact absurd hid (bad na hn)

/-- Initiator side: the session created when this node answers a WHOAREYOU for its own request to
`na` has keys derived from an ECDH with `na.id`'s static key (only its holder can use them). -/
theorem initiator_keys_bound (c : Cfg) (s : HState) (src : Addr) (nonce cd enrSeq : Nat)
    (e : NA × Session × Nat) (he : e ∈ (step c s (.dgram src (.whoareyou nonce cd enrSeq))).1.sessions)
    (hnew : e ∉ s.sessions) (hk : e.2.1.keys.enc.ini = c.localId) :
    e.2.1.keys.enc.rcp = e.1.id ∧ e.2.1.keys.dec.rcp = e.1.id ∧ e.2.1.keys.enc.cd = cd := by
  sorry

/-! ### C03 -/

/-- A handshake from a node address for which no challenge is outstanding changes nothing. -/
theorem handshake_needs_challenge (c : Cfg) (s : HState) (src : Addr) (srcId nonce : Nat) (sig : Sig)
    (eph : Nat) (record : Option Rec) (ct : Ct)
    (h : s.challenges.any (·.1 == { id := srcId, addr := src }) = false) :
    step c s (.dgram src (.handshake srcId nonce sig eph record ct)) = (s, []) := by
  have hf : s.challenges.find? (fun x => x.1 == ({ id := srcId, addr := src } : NA)) = none := by
    rw [List.find?_eq_none]
    intro x hx
    have := List.any_eq_false.1 h x hx
    simpa using this
  have key : wp (handleAuthMessage c { id := srcId, addr := src } nonce sig eph record ct)
      (fun _ st' => st' = (s, [])) (s, []) := by
    unfold handleAuthMessage
    simp only [wp_bind, wp_getS, hf, wp_pure]
  exact key

/-- The id-nonces (challenge data) of all WHOAREYOU packets this node ever sends are pairwise
distinct. -/
theorem issued_challenges_distinct (c : Cfg) (evs : List Ev) : (sentCds (outputs c evs)).Nodup := by
  sorry

/-- A handshake whose signature is not over the currently outstanding challenge for that node
address (a replay of an earlier handshake, or one signed over an expired / foreign challenge)
never creates or re-keys a session. -/
theorem stale_handshake_rejected (c : Cfg) (s : HState) (src : Addr) (srcId nonce : Nat) (sig : Sig)
    (eph : Nat) (record : Option Rec) (ct : Ct)
    (h : ∀ e ∈ s.challenges, e.1 = { id := srcId, addr := src } → e.2.1.cd ≠ sig.cd) :
    (step c s (.dgram src (.handshake srcId nonce sig eph record ct))).1.sessions.map (fun e => (e.1, e.2.1.keys)) =
      (s.sessions.filter (fun e => (step c s (.dgram src (.handshake srcId nonce sig eph record ct))).1.sessions.any (·.1 == e.1))).map
        (fun e => (e.1, e.2.1.keys)) := by
  sorry

/-- Acceptance consumes the challenge: after a handshake was processed, either it was rejected for
its signature (the challenge stays, nothing else changed) or no challenge for that node address
remains. -/
theorem challenge_consumed (c : Cfg) (s : HState) (src : Addr) (srcId nonce : Nat) (sig : Sig)
    (eph : Nat) (record : Option Rec) (ct : Ct) :
    let s' := (step c s (.dgram src (.handshake srcId nonce sig eph record ct))).1
    s'.challenges.any (·.1 == { id := srcId, addr := src }) = false ∨
      (s'.sessions = s.sessions ∧ s'.active = s.active) := by
  sorry

/-- A WHOAREYOU is acted on only if it echoes the nonce of a request in flight to the address it
came from: otherwise no output is produced and sessions, challenges and queued requests are
unchanged. -/
theorem whoareyou_needs_request (c : Cfg) (s : HState) (src : Addr) (nonce cd enrSeq : Nat)
    (h : ∀ call ∈ s.active, ¬ (call.pkt.nonce = nonce ∧ call.contact.na.addr = src)) :
    (step c s (.dgram src (.whoareyou nonce cd enrSeq))).2 = [] ∧
    (step c s (.dgram src (.whoareyou nonce cd enrSeq))).1.sessions = s.sessions ∧
    (step c s (.dgram src (.whoareyou nonce cd enrSeq))).1.pending = s.pending := by
  have key : wp (handleChallenge c src nonce cd enrSeq)
      (fun _ st' => st'.2 = [] ∧ st'.1.sessions = s.sessions ∧ st'.1.pending = s.pending) (s, []) := by
    unfold handleChallenge activeRemoveByNonce
    simp only [wp_bind, wp_getS]
    rcases hf : s.active.find? (fun x => x.pkt.nonce == nonce) with _ | call0
    · simp only [hf, wp_pure]; refine ⟨?_, ?_, ?_⟩ <;> first | rfl | trivial
    · simp only [hf, wp_bind, wp_setS, wp_pure, wp_ite]
      have hn : call0.pkt.nonce = nonce := by simpa using List.find?_some hf
      have hne : ((callNA call0).addr != src) = true := by
        have := h call0 (List.mem_of_find?_eq_some hf)
        simp only [not_and] at this
        simpa [callNA] using this hn
      rw [if_pos hne]
      unfold activeInsert
      simp only [wp_modS]
      refine ⟨?_, ?_, ?_⟩ <;> first | rfl | trivial
  exact key

/-- A request is answered with at most one handshake: a second WHOAREYOU for a request whose
handshake was already sent produces no datagram at all. -/
theorem one_handshake_per_request (c : Cfg) (s : HState) (src : Addr) (nonce cd enrSeq : Nat)
    (call : Call) (hc : s.active.find? (·.pkt.nonce == nonce) = some call)
    (ha : call.contact.na.addr = src) (hs : call.hsSent = true) :
    ∀ o ∈ (step c s (.dgram src (.whoareyou nonce cd enrSeq))).2, ∀ na p, o ≠ .send na p := by
  have key : wp (handleChallenge c src nonce cd enrSeq) (fun _ st' => NoSend st') (s, []) := by
    unfold handleChallenge activeRemoveByNonce
    simp only [wp_bind, wp_getS, hc, wp_setS, wp_pure, wp_ite]
    have hne : ¬ ((callNA call).addr != src) = true := by simp [callNA, ha]
    rw [if_neg hne, if_pos hs]
    unfold removeExpected failRequest
    simp only [wp_modS, wp_bind, wp_ite, wp_emit]
    have h0 : NoSend ({ s with active := s.active.erase call }, []) := fun o ho => by cases ho
    split
    · rw [failSession_true]
      unfold removeExpiredSessions sessRemove
      simp only [wp_bind, wp_getS, wp_setS, wp_ite, wp_emit, wp_pure, wp_modS]
      split
      · refine wp_mono (tail_failSession noSend_tail c _ _ _ ?_) (fun _ _ h => h)
        intro o ho
        simp at ho
        rcases ho with rfl | rfl <;> (intro _ _ hh; cases hh)
      · refine wp_mono (tail_failSession noSend_tail c _ _ _ ?_) (fun _ _ h => h)
        intro o ho
        simp at ho
        subst ho; intro _ _ hh; cases hh
    · rw [failSession_true]
      unfold removeExpiredSessions sessRemove
      simp only [wp_bind, wp_getS, wp_setS, wp_ite, wp_emit, wp_pure, wp_modS]
      split
      · refine wp_mono (tail_failSession noSend_tail c _ _ _ ?_) (fun _ _ h => h)
        intro o ho
        simp at ho
        subst ho; intro _ _ hh; cases hh
      · refine wp_mono (tail_failSession noSend_tail c _ _ _ ?_) (fun _ _ h => h)
        intro o ho
        simp at ho
  exact key

end Discv5.H

/-
C12 — Routing-table admission and update policy.

Statements about the service steps of `Model/Service.lean` on the routing-table model.
The last conjunct of the property ("in single-stack operation an incoming session admits a node
only if the UDP address in its record equals the address its packets came from") is enforced by
the *handler* (`verify_enr` before `HandlerOut::Established`), not by the service: the service
part modelled here is that a session admits a record only if it is contactable in the IP mode and
passes the table filter.  WORK IN PROGRESS: statements marked `sorry` await their proofs.
-/
import Discv5Model.Model.Service
import Discv5Model.Model.KBucketSpec

namespace Discv5.Props.C12
open Discv5.KB Discv5.Svc

/-- What the policy demands of a value filed under `key`. -/
def RecOk (m : IpMode) (localId key : Nat) (r : Rec) : Prop :=
  contactable m r = true ∧ r.passesFilter = true ∧ r.id = key ∧ key ≠ localId

/-- Every stored and every pending value is contactable in the node's IP mode, passes the
configured table filter, is filed under its own node id, and is not the local node. -/
def TablePolicy (s : Svc) : Prop :=
  ∀ b ∈ s.table.buckets,
    (∀ n ∈ b.nodes, RecOk s.cfg.ipMode s.localRec.id n.key n.value) ∧
    (∀ p, b.pending = some p → RecOk s.cfg.ipMode s.localRec.id p.node.key p.node.value)

/-- The vote sub-step re-signs the *local* record: it keeps its node id. -/
def OracleSane (s : Svc) (o : Oracle) : Prop :=
  ∀ r a, o.newLocal = some (r, a) → r.id = s.localRec.id

/-- The structural part the policy rests on (C07) and the tie between table and local record. -/
def Wf (s : Svc) : Prop :=
  TInv s.cfg.kb s.table ∧ s.table.localKey = s.localRec.id

/-- **table_policy_inv.**  The policy is an invariant of every service step (handler events,
user API calls, query-pool emissions), for every oracle outcome of the vote sub-step. -/
theorem table_policy_inv (s : Svc) (o : Oracle) (i : Svc.Input) (hw : Wf s) (ho : OracleSane s o)
    (h : TablePolicy s) : TablePolicy (s.step o i).1 := by
  sorry

/-- `Wf` is preserved as well (so the invariant can be iterated along any run). -/
theorem wf_step (s : Svc) (o : Oracle) (i : Svc.Input) (hw : Wf s) (ho : OracleSane s o) :
    Wf (s.step o i).1 := by
  sorry

/-- The freshly started service satisfies the invariant. -/
theorem table_policy_init (cfg : Svc.Cfg) (r : Rec) : TablePolicy (Svc.init cfg r) := by
  intro b hb
  have hb' : b = {} := by
    simp only [Svc.init, Table.init] at hb
    exact List.eq_of_mem_replicate hb
  subst hb'
  refine ⟨?_, ?_⟩
  · intro n hn
    simp at hn
  · intro p hp
    simp at hp

/-- Inputs that may enlarge the key set of the table: an established session or an explicit add. -/
def admits : Svc.Input → Bool
  | .established .. => true
  | .addEnr _ => true
  | _ => false

/-- The node id an admitting input is about. -/
def admittedId : Svc.Input → Option Nat
  | .established r _ _ => some r.id
  | .addEnr r => some r.id
  | _ => none

/-- **admission_only_by_session_or_add.**  A step makes a node id a (stored or pending) table
entry only if it is an established session or an explicit add — and then only the id of that
record; never merely because a record appeared in a NODES response. -/
theorem admission_only_by_session_or_add (s : Svc) (o : Oracle) (i : Svc.Input) (hw : Wf s) (k : Nat)
    (hnew : k ∈ (s.step o i).1.table.allKeys) (hold : k ∉ s.table.allKeys) :
    admits i = true ∧ admittedId i = some k := by
  sorry

/-- A session (or add) admits a record only if it is contactable in the IP mode and passes the
table filter. -/
theorem admission_needs_policy (s : Svc) (o : Oracle) (i : Svc.Input) (hw : Wf s) (k : Nat)
    (hnew : k ∈ (s.step o i).1.table.allKeys) (hold : k ∉ s.table.allKeys) :
    ∃ r, (admittedId i = some r.id ∧ r.id = k) ∧ contactable s.cfg.ipMode r = true ∧ r.passesFilter = true := by
  sorry

/-- The value stored (or pending) under a key. -/
def valueOf (t : Table Rec) (key : Nat) : Option Rec :=
  match lookup t key with
  | .present v _ => some v
  | .pending v _ => some v
  | _ => none

/-- **network_update_rule.**  In a step that is not an established session / explicit add (i.e.
everything learnt from the network: NODES responses, failures with partial results, PING/PONG, …)
a stored value changes only to a record for the same id with a strictly higher sequence number
that is contactable and passes the filter; otherwise it stays or the entry disappears. -/
theorem network_update_rule (s : Svc) (o : Oracle) (i : Svc.Input) (hw : Wf s) (hnet : admits i = false)
    (k : Nat) (v v' : Rec) (h1 : valueOf s.table k = some v)
    (h2 : valueOf (s.step o i).1.table k = some v') :
    v' = v ∨ (v'.id = k ∧ v.seq < v'.seq ∧ contactable s.cfg.ipMode v' = true ∧ v'.passesFilter = true) := by
  sorry

/-- The same rule on the `discovered` loop itself, for one record. -/
theorem discovered_one_rule (s : Svc) (source : Nat) (r : Rec) (hw : Wf s) (k : Nat) (v v' : Rec)
    (h1 : valueOf s.table k = some v) (h2 : valueOf (s.discoveredOne source r).1.table k = some v') :
    v' = v ∨ (v' = r ∧ r.id = k ∧ v.seq < r.seq ∧ contactable s.cfg.ipMode r = true ∧ r.passesFilter = true) := by
  sorry

/-- Non-vacuity: a contactable record in IPv4 mode; a mapped IPv6 address is not contactable. -/
def recV4 : Rec :=
  { id := 1, seq := 1, udp4 := some 655369000, udp6 := none, udp6Mapped := false, size := 134, passesFilter := true }

def recMapped : Rec :=
  { id := 1, seq := 1, udp4 := none, udp6 := some 7, udp6Mapped := true, size := 134, passesFilter := true }

example : contactable .ip4 recV4 = true := by decide

example : contactable .dual recMapped = false := by decide

end Discv5.Props.C12

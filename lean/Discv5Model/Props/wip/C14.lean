/-
C14 — Served FINDNODE and PING answers are correct and fit a datagram.

Statements about `sendNodesResponse` / `handleRequest` of `Model/Service.lean` and the RLP length
function `nodesRespLen` stated there.  WORK IN PROGRESS: statements marked `sorry` await proofs.
-/
import Discv5Model.Model.Service
import Discv5Model.Model.KBucketSpec

namespace Discv5.Props.C14
open Discv5.KB Discv5.Svc

/-- The record lists of the NODES packets among the emitted messages. -/
def packetsOf (outs : List Out) : List (List Rec) :=
  outs.filterMap fun
    | .response _ _ _ (.nodes _ recs) => some recs
    | _ => none

/-- The table part of an answer: `nodes_by_distances` over the sorted, de-duplicated non-zero
distances with the configured maximum, minus the requester. -/
def tablePart (s : Svc) (requester : Nat) (ds : List Nat) : List Rec :=
  ((s.table.nodesByDistances s.cfg.kb s.now ((Svc.dedupAdj (Svc.sortNat ds)).filter (· != 0))
      s.cfg.maxNodesResponse).2.filter (fun n => n.key != requester)).map (·.value)

/-- **served_records.**  The records of all packets together are: the node's own record iff
distance 0 was requested, followed by its table entries at the requested distances
(`nodes_by_distances`, whose exactness is C08) without the requester's entry. -/
theorem served_records (s : Svc) (requester : Nat) (addr : Addr) (rid : Bytes) (ds : List Nat) :
    (packetsOf (s.sendNodesResponse requester addr rid ds).2).flatten =
      (if ds.contains 0 then [s.localRec] else []) ++ tablePart s requester ds := by
  sorry

/-- At most the configured maximum of table entries, plus the own record. -/
theorem served_count (s : Svc) (requester : Nat) (ds : List Nat) (hmax : 1 ≤ s.cfg.maxNodesResponse) :
    (s.nodesToSend requester ds).2.length ≤ s.cfg.maxNodesResponse + 1 := by
  sorry

/-- The requester's own entry is never returned. -/
theorem requester_absent (s : Svc) (requester : Nat) (ds : List Nat) :
    ∀ n ∈ (s.table.nodesByDistances s.cfg.kb s.now ((Svc.dedupAdj (Svc.sortNat ds)).filter (· != 0))
      s.cfg.maxNodesResponse).2, n.value ∈ tablePart s requester ds → n.key ≠ requester ∨
        ∃ m ∈ (s.table.nodesByDistances s.cfg.kb s.now ((Svc.dedupAdj (Svc.sortNat ds)).filter (· != 0))
          s.cfg.maxNodesResponse).2, m.key ≠ requester ∧ m.value = n.value := by
  sorry

/-- The split keeps every record, in order. -/
theorem split_flatten (recs : List Rec) : (Svc.splitPackets recs).flatten = recs := by
  sorry

/-- **split_sound** (sizes).  If every record is smaller than the limit, the record sizes of every
packet sum to less than `1280 − 104`. -/
theorem split_sound (recs : List Rec) (hsz : ∀ r ∈ recs, r.size < 1280 - 104) :
    ∀ p ∈ Svc.splitPackets recs, (p.map (·.size)).sum < 1280 - 104 := by
  sorry

/-- **split_sound** (framing).  Every message emitted for a FINDNODE is a NODES response to the
requester's node address carrying the request's id, and `total` equals the number of packets. -/
theorem split_framing (s : Svc) (requester : Nat) (addr : Addr) (rid : Bytes) (ds : List Nat) :
    ∀ o ∈ (s.sendNodesResponse requester addr rid ds).2,
      ∃ recs, o = .response requester addr rid
        (.nodes (s.sendNodesResponse requester addr rid ds).2.length recs) := by
  sorry

/-- At least one packet is always sent (an empty answer is one packet with `total = 1`). -/
theorem answered (s : Svc) (requester : Nat) (addr : Addr) (rid : Bytes) (ds : List Nat) :
    1 ≤ (s.sendNodesResponse requester addr rid ds).2.length := by
  sorry

/-- **fits_datagram** (arithmetic core).  A NODES response whose record sizes sum to less than
`1280 − 104`, with a request id of at most 8 bytes and a one-byte `total` (≤ 127), encodes — as a
message packet: 16 masking IV + 23 static header + 32 auth-data + ciphertext + 16 tag — to at most
1280 bytes on the wire. -/
theorem fits_datagram (rid : Bytes) (total : Nat) (sizes : List Nat) (hrid : rid.length ≤ 8)
    (htotal : total ≤ 127) (hsum : sizes.sum < 1280 - 104) :
    16 + 23 + 32 + nodesRespLen rid total sizes + 16 ≤ 1280 := by
  sorry

/-- `datagramLen` is the sum spelled out in `fits_datagram`. -/
theorem datagramLen_eq (n : Nat) : datagramLen n = 16 + 23 + 32 + n + 16 := by
  unfold datagramLen Consts.IV_LENGTH Consts.STATIC_HEADER_LENGTH
  omega

/-- **fits_datagram** (end to end).  With every record (stored ones and the own one) at most 300
bytes, a request id of at most 8 bytes and a configured maximum of at most 125 records, every
packet answering a FINDNODE fits a datagram. -/
theorem served_fits_datagram (s : Svc) (requester : Nat) (addr : Addr) (rid : Bytes) (ds : List Nat)
    (hrid : rid.length ≤ 8) (hmax : 1 ≤ s.cfg.maxNodesResponse ∧ s.cfg.maxNodesResponse ≤ 125)
    (hown : s.localRec.size ≤ 300)
    (htab : ∀ b ∈ s.table.buckets, ∀ n ∈ b.nodes, n.value.size ≤ 300) :
    ∀ total recs, Out.response requester addr rid (.nodes total recs) ∈
        (s.sendNodesResponse requester addr rid ds).2 →
      datagramLen (nodesRespLen rid total (recs.map (·.size))) ≤ 1280 := by
  sorry

def isResponse : Out → Bool
  | .response .. => true
  | _ => false

/-- **pong_exact.**  A PING observed from a non-zero source port is answered with exactly one
response: a PONG to the observed node address with the request's id, the current local sequence
number and exactly the observed IP and port. -/
theorem pong_exact (s : Svc) (peer : Nat) (addr : Addr) (rid : Bytes) (enrSeq : Nat)
    (hport : addr.port ≠ 0) :
    (s.handleRequest peer addr rid (.ping enrSeq)).2.filter isResponse =
      [.response peer addr rid (.pong s.localRec.seq addr)] := by
  sorry

/-- A PING from source port 0 gets no PONG. -/
theorem pong_port_zero (s : Svc) (peer : Nat) (addr : Addr) (rid : Bytes) (enrSeq : Nat)
    (hport : addr.port = 0) :
    (s.handleRequest peer addr rid (.ping enrSeq)).2.filter isResponse = [] := by
  sorry

/-- Non-vacuity / worst case of the arithmetic: 1175 bytes of records, 8-byte id → 1279 bytes. -/
example : 16 + 23 + 32 + nodesRespLen [200, 1, 2, 3, 4, 5, 6, 7] 5 [300, 300, 300, 275] + 16 = 1279 := by
  decide

end Discv5.Props.C14

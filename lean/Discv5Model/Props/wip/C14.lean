/-
C14 — Served FINDNODE and PING answers are correct and fit a datagram.

Statements about `sendNodesResponse` / `handleRequest` of `Model/Service.lean` and the RLP length
function `nodesRespLen` stated there.  WORK IN PROGRESS: statements marked `sorry` await proofs.
-/
import Discv5Model.Model.Service
import Discv5Model.Model.KBucketSpec

namespace Discv5.Props.C14
open Discv5.KB Discv5.Svc

/-- The record lists of the NODES packets among the emitted messages. -/
def packetsOf (outs : List Out) : List (List Rec) :=
  outs.filterMap fun
    | .response _ _ _ (.nodes _ recs) => some recs
    | _ => none

/-- The table part of an answer: `nodes_by_distances` over the sorted, de-duplicated non-zero
distances with the configured maximum, minus the requester. -/
def tablePart (s : Svc) (requester : Nat) (ds : List Nat) : List Rec :=
  ((s.table.nodesByDistances s.cfg.kb s.now ((Svc.dedupAdj (Svc.sortNat ds)).filter (· != 0))
      s.cfg.maxNodesResponse).2.filter (fun n => n.key != requester)).map (·.value)

/-- **served_records.**  The records of all packets together are: the node's own record iff
distance 0 was requested, followed by its table entries at the requested distances
(`nodes_by_distances`, whose exactness is C08) without the requester's entry. -/
theorem served_records (s : Svc) (requester : Nat) (addr : Addr) (rid : Bytes) (ds : List Nat) :
    (packetsOf (s.sendNodesResponse requester addr rid ds).2).flatten =
      (if ds.contains 0 then [s.localRec] else []) ++ tablePart s requester ds := by
  sorry

/-- At most the configured maximum of table entries, plus the own record. -/
theorem served_count (s : Svc) (requester : Nat) (ds : List Nat) (hmax : 1 ≤ s.cfg.maxNodesResponse) :
    (s.nodesToSend requester ds).2.length ≤ s.cfg.maxNodesResponse + 1 := by
  sorry

/-- The requester's own entry is never returned: every table record of the answer comes from an
entry filed under a key other than the requester's id. -/
theorem requester_absent (s : Svc) (requester : Nat) (ds : List Nat) :
    ∀ r ∈ tablePart s requester ds,
      ∃ n ∈ (s.table.nodesByDistances s.cfg.kb s.now ((Svc.dedupAdj (Svc.sortNat ds)).filter (· != 0))
        s.cfg.maxNodesResponse).2, n.value = r ∧ n.key ≠ requester := by
  intro r hr
  unfold tablePart at hr
  simp only [List.mem_map, List.mem_filter] at hr
  obtain ⟨n, ⟨hn, hk⟩, rfl⟩ := hr
  exact ⟨n, hn, rfl, by simpa using hk⟩

theorem split_fold_flatten (recs : List Rec) : ∀ st : Svc.SplitSt,
    ((recs.foldl Svc.splitStep st).done ++ [(recs.foldl Svc.splitStep st).cur]).flatten =
      (st.done ++ [st.cur]).flatten ++ recs := by
  induction recs with
  | nil => intro st; simp
  | cons r rest ih =>
    intro st
    rw [List.foldl_cons, ih]
    unfold Svc.splitStep
    split <;> simp

/-- The split keeps every record, in order. -/
theorem split_flatten (recs : List Rec) : (Svc.splitPackets recs).flatten = recs := by
  unfold Svc.splitPackets
  simp only
  rw [split_fold_flatten]
  simp

def sizeSum (p : List Rec) : Nat := (p.map (·.size)).sum

theorem split_fold_sound (recs : List Rec) (hsz : ∀ r ∈ recs, r.size < 1280 - 104) :
    ∀ st : Svc.SplitSt, sizeSum st.cur = st.size → st.size < 1280 - 104 →
      (∀ p ∈ st.done, sizeSum p < 1280 - 104) →
      ∀ p ∈ (recs.foldl Svc.splitStep st).done ++ [(recs.foldl Svc.splitStep st).cur],
        sizeSum p < 1280 - 104 := by
  induction recs with
  | nil =>
    intro st h1 h2 h3 p hp
    simp at hp
    rcases hp with hp | hp
    · exact h3 p hp
    · subst hp; omega
  | cons r rest ih =>
    intro st h1 h2 h3
    rw [List.foldl_cons]
    have hr := hsz r (by simp)
    apply ih (fun x hx => hsz x (by simp [hx]))
    · unfold Svc.splitStep
      split <;> simp [sizeSum] at h1 ⊢ <;> omega
    · unfold Svc.splitStep
      split
      · rename_i h
        have : Svc.splitLimit = 1280 - 104 := by decide
        simp only
        omega
      · simp only; exact hr
    · unfold Svc.splitStep
      split
      · exact h3
      · intro p hp
        simp at hp
        rcases hp with hp | hp
        · exact h3 p hp
        · subst hp; omega

/-- **split_sound** (sizes).  If every record is smaller than the limit, the record sizes of every
packet sum to less than `1280 − 104`.  (The literal `1280 - 104` is compared with the regenerated
`MAX_PACKET_SIZE - NODES_SPLIT_MARGIN` inside the proof: a changed margin breaks it.) -/
theorem split_sound (recs : List Rec) (hsz : ∀ r ∈ recs, r.size < 1280 - 104) :
    ∀ p ∈ Svc.splitPackets recs, (p.map (·.size)).sum < 1280 - 104 := by
  unfold Svc.splitPackets
  simp only
  exact split_fold_sound recs hsz {} (by simp [sizeSum]) (by simp) (by simp)

theorem nodesPackets_total (recs : List Rec) :
    (Svc.nodesPackets recs).2 = (Svc.nodesPackets recs).1.length ∧ 1 ≤ (Svc.nodesPackets recs).1.length := by
  unfold Svc.nodesPackets
  split
  · simp
  · simp [Svc.splitPackets]

/-- **split_sound** (framing).  Every message emitted for a FINDNODE is a NODES response to the
requester's node address carrying the request's id, and `total` equals the number of packets. -/
theorem split_framing (s : Svc) (requester : Nat) (addr : Addr) (rid : Bytes) (ds : List Nat) :
    ∀ o ∈ (s.sendNodesResponse requester addr rid ds).2,
      ∃ recs, o = .response requester addr rid
        (.nodes (s.sendNodesResponse requester addr rid ds).2.length recs) := by
  intro o ho
  unfold Svc.sendNodesResponse at ho ⊢
  simp only at ho ⊢
  have ht := (nodesPackets_total (s.nodesToSend requester ds).2).1
  simp only [List.mem_map, List.length_map] at ho ⊢
  obtain ⟨p, _, hp⟩ := ho
  exact ⟨p, by rw [← hp, ht]⟩

/-- At least one packet is always sent (an empty answer is one packet with `total = 1`). -/
theorem answered (s : Svc) (requester : Nat) (addr : Addr) (rid : Bytes) (ds : List Nat) :
    1 ≤ (s.sendNodesResponse requester addr rid ds).2.length := by
  unfold Svc.sendNodesResponse
  simp only [List.length_map]
  exact (nodesPackets_total _).2

theorem beLen_le_two (n : Nat) (h : n < 65536) : beLen n ≤ 2 := by
  unfold beLen
  by_cases hz : n = 0
  · simp [hz]
  · rw [if_neg hz]
    have : n.log2 < 16 := (Nat.log2_lt hz).mpr (by omega)
    omega

theorem rlpHeaderLen_le_three (n : Nat) (h : n < 65536) : rlpHeaderLen n ≤ 3 := by
  unfold rlpHeaderLen
  have := beLen_le_two n h
  split <;> omega

theorem rlpBytesLenOf_le (b : Bytes) (h : b.length ≤ 8) : rlpBytesLenOf b ≤ 9 := by
  unfold rlpBytesLenOf
  split
  · unfold rlpBytesLen rlpHeaderLen
    split <;> simp
  · unfold rlpBytesLen rlpHeaderLen
    simp
    split <;> omega

/-- **fits_datagram** (arithmetic core).  A NODES response whose record sizes sum to less than
`1280 − 104`, with a request id of at most 8 bytes and a one-byte `total` (≤ 127), encodes — as a
message packet: 16 masking IV + 23 static header + 32 auth-data + ciphertext + 16 tag — to at most
1280 bytes on the wire. -/
theorem fits_datagram (rid : Bytes) (total : Nat) (sizes : List Nat) (hrid : rid.length ≤ 8)
    (htotal : total ≤ 127) (hsum : sizes.sum < 1280 - 104) :
    16 + 23 + 32 + nodesRespLen rid total sizes + 16 ≤ 1280 := by
  unfold nodesRespLen
  simp only
  have h1 := rlpBytesLenOf_le rid hrid
  have h2 : rlpUintLen total = 1 := by unfold rlpUintLen; rw [if_pos (by omega)]
  have h3 := rlpHeaderLen_le_three sizes.sum (by omega)
  have h4 := rlpHeaderLen_le_three
    (rlpBytesLenOf rid + rlpUintLen total + (rlpHeaderLen sizes.sum + sizes.sum)) (by omega)
  omega

/-- `datagramLen` is the sum spelled out in `fits_datagram`. -/
theorem datagramLen_eq (n : Nat) : datagramLen n = 16 + 23 + 32 + n + 16 := by
  unfold datagramLen Consts.IV_LENGTH Consts.STATIC_HEADER_LENGTH
  omega

/-- **fits_datagram** (end to end).  With every record (stored ones and the own one) at most 300
bytes, a request id of at most 8 bytes and a configured maximum of at most 125 records, every
packet answering a FINDNODE fits a datagram. -/
theorem served_fits_datagram (s : Svc) (requester : Nat) (addr : Addr) (rid : Bytes) (ds : List Nat)
    (hrid : rid.length ≤ 8) (hmax : 1 ≤ s.cfg.maxNodesResponse ∧ s.cfg.maxNodesResponse ≤ 125)
    (hown : s.localRec.size ≤ 300)
    (htab : ∀ b ∈ s.table.buckets, ∀ n ∈ b.nodes, n.value.size ≤ 300) :
    ∀ total recs, Out.response requester addr rid (.nodes total recs) ∈
        (s.sendNodesResponse requester addr rid ds).2 →
      datagramLen (nodesRespLen rid total (recs.map (·.size))) ≤ 1280 := by
  sorry

def isResponse : Out → Bool
  | .response .. => true
  | _ => false

/-- **pong_exact.**  A PING observed from a non-zero source port is answered with exactly one
response: a PONG to the observed node address with the request's id, the current local sequence
number and exactly the observed IP and port. -/
theorem sendRpcRequest_local (s : Svc) (p : Nat) (a : Addr) (b : ReqBody) (q : Option Nat) (c : Bool) :
    (s.sendRpcRequest p a b q c).1.localRec = s.localRec ∧
    (s.sendRpcRequest p a b q c).2.filter isResponse = [] := by
  simp [Svc.sendRpcRequest, isResponse]

theorem entry_local (s : Svc) (k : Nat) : (s.entry k).1.localRec = s.localRec := by
  simp [Svc.entry]

theorem pong_exact (s : Svc) (peer : Nat) (addr : Addr) (rid : Bytes) (enrSeq : Nat)
    (hport : addr.port ≠ 0) :
    (s.handleRequest peer addr rid (.ping enrSeq)).2.filter isResponse =
      [.response peer addr rid (.pong s.localRec.seq addr)] := by
  unfold Svc.handleRequest
  simp only
  have hp : (addr.port != 0) = true := by simpa using hport
  rw [if_pos hp]
  rw [List.filter_append]
  generalize hl : (s.entry peer) = e
  obtain ⟨s1, l⟩ := e
  have h1 : s1.localRec = s.localRec := by
    have := entry_local s peer
    rw [hl] at this
    exact this
  simp only
  split
  · rename_i v hv
    split
    · rename_i a ha
      have := sendRpcRequest_local s1 v.id a (.findNode [Consts.ENR_REQUEST_DISTANCE]) none false
      simp [this.1, this.2, h1, isResponse]
    · simp [h1, isResponse]
  · simp [h1, isResponse]

/-- A PING from source port 0 gets no PONG. -/
theorem pong_port_zero (s : Svc) (peer : Nat) (addr : Addr) (rid : Bytes) (enrSeq : Nat)
    (hport : addr.port = 0) :
    (s.handleRequest peer addr rid (.ping enrSeq)).2.filter isResponse = [] := by
  unfold Svc.handleRequest
  simp only
  have hp : ¬ ((addr.port != 0) = true) := by simp [hport]
  rw [if_neg hp]
  rw [List.filter_append]
  generalize hl : (s.entry peer) = e
  obtain ⟨s1, l⟩ := e
  simp only
  split
  · rename_i v hv
    split
    · simp [Svc.sendRpcRequest, isResponse]
    · simp
  · simp

/-- Non-vacuity / worst case of the arithmetic: 1175 bytes of records, 8-byte id → 1279 bytes. -/
example : 16 + 23 + 32 + nodesRespLen [200, 1, 2, 3, 4, 5, 6, 7] 5 [300, 300, 300, 275] + 16 = 1279 := by
  decide

end Discv5.Props.C14

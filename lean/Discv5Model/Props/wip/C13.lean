/- C13 — Filter exemptions track outstanding exchanges exactly (handler model). -/
import Discv5Model.Model.HandlerSpec
namespace Discv5.H

/-- Every step preserves the accounting invariant. -/
theorem step_exemptAcc (c : Cfg) (s : HState) (e : Ev) (h : ExemptAcc s) : ExemptAcc (step c s e).1 := by
  sorry

/-- For every event history and every address: the number of exemptions equals the number of
outstanding items (active requests + active challenges) towards it; no zero entries. -/
theorem exemption_accounting (c : Cfg) (evs : List Ev) : ExemptAcc (run c evs) := by
  sorry

/-- When every request completed or failed and every challenge was answered or expired, no
exemption remains — whatever the remote side sent. -/
theorem drained (c : Cfg) (evs : List Ev) (h1 : (run c evs).active = [])
    (h2 : (run c evs).challenges = []) : (run c evs).exempt = [] := by
  sorry

end Discv5.H

/- C02 — Delivered messages are authentic and untampered; C19 — nonces are never reused;
C15 (handler part) — sessions expire and the session cache is bounded.  Handler model. -/
import Discv5Model.Model.HandlerSpec
namespace Discv5.H

/-- Whatever is handed to the application as a request or response of `na` in reaction to a
message datagram is the plaintext of an AEAD term sealed under the current or previous decryption
key of the session held for `na`, with the datagram's own nonce and its own associated data. -/
theorem delivered_was_sealed (c : Cfg) (s : HState) (src : Addr) (srcId nonce : Nat) (ct : Ct) (o : Out)
    (ho : o ∈ (step c s (.dgram src (.message srcId nonce ct))).2)
    (hd : (∃ rid b, o = .request { id := srcId, addr := src } rid b) ∨
          (∃ na rid rb, o = .response na rid rb) ∨ (∃ r a d, o = .established r a d)) :
    ∃ key ctr pt sess stamp, ct = .enc key nonce ctr pt true ∧
      ({ id := srcId, addr := src }, sess, stamp) ∈ s.sessions ∧
      (key = sess.keys.dec ∨ ∃ old, sess.oldKeys = some old ∧ key = old.dec) := by
  sorry

/-- Tampering (bad tag/ciphertext = `garbage`, wrong associated data, a nonce differing from the
header's) never leads to a delivery. -/
theorem tamper_rejected (c : Cfg) (s : HState) (src : Addr) (srcId nonce : Nat) (ct : Ct)
    (h : ct = .garbage ∨ ∃ k n ctr pt ok, ct = .enc k n ctr pt ok ∧ (ok = false ∨ n ≠ nonce)) :
    ∀ o ∈ (step c s (.dgram src (.message srcId nonce ct))).2,
      (∀ na rid b, o ≠ .request na rid b) ∧ (∀ na rid rb, o ≠ .response na rid rb) ∧
      (∀ r a d, o ≠ .established r a d) := by
  sorry

/-- Attribution follows the session: every delivered request or response names exactly the node
address (claimed source id, source address) under which the decrypting session is stored. -/
theorem delivery_attributed_to_session_key (c : Cfg) (s : HState) (src : Addr) (srcId nonce : Nat)
    (ct : Ct) (na : NA) (rid : Nat) :
    ((∃ b, Out.request na rid b ∈ (step c s (.dgram src (.message srcId nonce ct))).2) ∨
     (∃ rb, Out.response na rid rb ∈ (step c s (.dgram src (.message srcId nonce ct))).2)) →
    na = { id := srcId, addr := src } := by
  sorry

/-- The two directions of a session never share a key (a node cannot be fed its own ciphertexts). -/
theorem keys_directional (c : Cfg) (evs : List Ev) :
    ∀ e ∈ (run c evs).sessions, e.2.1.keys.enc ≠ e.2.1.keys.dec ∧
      ∀ old, e.2.1.oldKeys = some old → old.enc ≠ old.dec := by
  sorry

/-! ### C19 -/

/-- Under one key a node never seals two different message packets with the same counter prefix:
two sealed message packets it sends under the same key and the same counter are the same packet
(a retransmission).  Holds for every naming of the random nonce parts. -/
theorem counter_nonces_distinct (c : Cfg) (evs : List Ev) (hw : ContactsWF evs) :
    ∀ a ∈ sentSealed (outputs c evs), ∀ b ∈ sentSealed (outputs c evs),
      a.1 = b.1 → a.2.1 = b.2.1 → a.2.2 = b.2.2 := by
  sorry

/-- The counter of a session only grows, and every sealed message carries the counter value
reached when it was made. -/
theorem encrypt_advances_counter (c : Cfg) (sess : Session) (pt : Msg) (st : HState × List Out) :
    ((encryptMessage c sess pt).run st).1.1.counter = sess.counter + 1 ∧
    ∃ n, ((encryptMessage c sess pt).run st).1.2 =
      .message c.localId n (.enc sess.keys.enc n (sess.counter + 1) pt true) := by
  sorry

/-! ### C15 (handler part) -/

/-- The session cache never exceeds its capacity. -/
theorem sessions_bounded (c : Cfg) (evs : List Ev) (hc : 1 ≤ c.sessionCap) :
    (run c evs).sessions.length ≤ c.sessionCap := by
  sorry

/-- A session idle for longer than the timeout is never used again: the accessor through which
every use goes reports it absent and drops it. -/
theorem expired_session_absent (c : Cfg) (na : NA) (st : HState × List Out) (sess : Session) (stamp : Nat)
    (hf : st.1.sessions.find? (·.1 == na) = some (na, sess, stamp)) (hx : stamp + c.sessionTtl < st.1.rt) :
    ((sessGetMut c na).run st).1 = none ∧
    ((sessGetMut c na).run st).2.1.sessions.all (·.1 != na) = true := by
  sorry

/-- … so the next request to that peer starts a fresh handshake (a random packet, not a message
sealed under the old keys), and a message from that peer is answered with a who-are-you query. -/
theorem expired_session_not_used (c : Cfg) (s : HState) (na : NA) (sess : Session) (stamp : Nat)
    (hf : s.sessions.find? (·.1 == na) = some (na, sess, stamp)) (hx : stamp + c.sessionTtl < s.rt)
    (hl : c.listen.contains na.addr = false) :
    (∀ r rid body o, o ∈ (step c s (.appRequest { na := na, record := r } rid body)).2 →
        ∀ dst src n k n' ctr pt ok, o ≠ .send dst (.message src n (.enc k n' ctr pt ok))) ∧
    (∀ nonce ct, (step c s (.dgram na.addr (.message na.id nonce ct))).2 = [.wru na nonce]) := by
  sorry

/-- When the cache is full the least recently used session (the head) is the one dropped. -/
theorem eviction_is_lru (c : Cfg) (na : NA) (sess : Session) (st : HState × List Out)
    (hn : st.1.sessions.all (·.1 != na) = true) (hfull : st.1.sessions.length = c.sessionCap)
    (hc : 1 ≤ c.sessionCap) :
    ((sessInsert c na sess).run st).2.1.sessions = st.1.sessions.drop 1 ++ [(na, sess, st.1.rt)] := by
  sorry

end Discv5.H

/-
C12 (continued) — the `discovered` loop at every intermediate point, and what a session report
stores.

`Props/C12.lean` states the update rule for a whole service step (`network_update_rule`) and for one
iteration of the `discovered` loop (`discovered_one_rule`).  This file adds

* A  (`seq_never_decreases_inside_discovered`): inside one `discovered` call, between any two points
  of the loop, the sequence number stored under a key never goes backwards, and a changed value is
  a record of the part of the list processed in between;
* A' (`discovered_seq_monotone`): the same for the whole call;
* A'' (`two_records_higher_first*`): one answer carrying two records of one node, both newer than
  the stored one, the higher first;
* B  (`session_report_stores_reported_record`): a session report (`Established`, either direction)
  that changes the entry of the reported node stores exactly the reported record.

Proofs: `Proofs/ServiceDiscovered.lean`.
-/
import Discv5Model.Model.Service
import Discv5Model.Model.KBucketSpec
import Discv5Model.Proofs.ServicePolicy
import Discv5Model.Proofs.ServiceDiscovered
import Discv5Model.Props.C12

namespace Discv5.Props.C12Discovered
open Discv5.KB Discv5.Svc Discv5.Svc.Svc Discv5.Props.C12

/-! ### The loop composes; it keeps well-formedness and the configuration -/

/-- **discovered_loop_append.**  Running the loop over `pre ++ post` ends in the same state as
running it over `pre` and then, from the state reached, over `post` (whatever accumulators the
second run starts with: they do not influence the state). -/
theorem discovered_loop_append (s : Svc) (source : Nat) (pre post kept0 kept1 : List Rec)
    (outs0 outs1 : List Out) :
    (discoveredLoop s source (pre ++ post) kept0 outs0).1 =
      (discoveredLoop (discoveredLoop s source pre kept0 outs0).1 source post kept1 outs1).1 :=
  discoveredLoop_append_fst source pre post s kept0 kept1 outs0 outs1

/-- The same with the accumulators: the loop over `pre ++ post` is literally the loop over `post`
started from the state, kept records and outputs the loop over `pre` produced. -/
theorem discovered_loop_append_full (s : Svc) (source : Nat) (pre post kept0 : List Rec)
    (outs0 : List Out) :
    discoveredLoop s source (pre ++ post) kept0 outs0 =
      discoveredLoop (discoveredLoop s source pre kept0 outs0).1 source post
        (discoveredLoop s source pre kept0 outs0).2.1 (discoveredLoop s source pre kept0 outs0).2.2 :=
  discoveredLoop_append source post pre s kept0 outs0

/-- One iteration of the loop keeps the configuration and well-formedness (`Wf`). -/
theorem discoveredOne_wf (s : Svc) (source : Nat) (r : Rec) (hw : Wf s) :
    (s.discoveredOne source r).1.cfg = s.cfg ∧ Wf (s.discoveredOne source r).1 :=
  ⟨discoveredOne_cfg s source r, discoveredOne_tinv s source r hw.1,
    by rw [discoveredOne_localKey, discoveredOne_localId]; exact hw.2⟩

/-- The loop (over any list, from any accumulators) keeps the configuration and well-formedness. -/
theorem discoveredLoop_wf (s : Svc) (source : Nat) (recs kept : List Rec) (outs : List Out)
    (hw : Wf s) :
    (discoveredLoop s source recs kept outs).1.cfg = s.cfg ∧
      Wf (discoveredLoop s source recs kept outs).1 :=
  ⟨discoveredLoop_cfg s source recs kept outs, discoveredLoop_tinv s source recs kept outs hw.1,
    by rw [discoveredLoop_localKey, discoveredLoop_localId]; exact hw.2⟩

/-- The loop never creates an entry: a key with a value after the loop had one before. -/
theorem discoveredLoop_creates_no_entry (s : Svc) (source : Nat) (recs kept : List Rec)
    (outs : List Out) (hw : Wf s) (k : Nat) (v' : Rec)
    (h : valueOf (discoveredLoop s source recs kept outs).1.table k = some v') :
    ∃ v, valueOf s.table k = some v :=
  discoveredLoop_no_new s source recs kept outs hw.1 h

/-! ### A — sequence numbers never go backwards inside one `discovered` call -/

/-- **seq_never_decreases_inside_discovered.**  Split the record list of one `discovered` call at
any point: `pre` has been processed (state `s1`), `post` is processed next (state `s2`).  If key `k`
has the value `v1` at the split point and `v2` after `post`, then `v1.seq ≤ v2.seq`; and either the
value is unchanged or `v2` is one of the records of `post`, is a record for `k`, has a strictly
higher sequence number than `v1`, is contactable in the node's IP mode and passes the table filter.
Taking `pre = []` this is the rule for the loop from its start; taking `post = [r]` it is the rule
for a single iteration in the middle of the loop. -/
theorem seq_never_decreases_inside_discovered (s : Svc) (hw : Wf s) (source : Nat)
    (pre post kept0 kept1 : List Rec) (outs0 outs1 : List Out) (k : Nat) (v1 v2 : Rec)
    (h1 : valueOf (discoveredLoop s source pre kept0 outs0).1.table k = some v1)
    (h2 : valueOf (discoveredLoop (discoveredLoop s source pre kept0 outs0).1 source post
            kept1 outs1).1.table k = some v2) :
    v1.seq ≤ v2.seq ∧
      (v2 = v1 ∨ (v2 ∈ post ∧ v2.id = k ∧ v1.seq < v2.seq ∧ contactable s.cfg.ipMode v2 = true ∧
        v2.passesFilter = true)) := by
  obtain ⟨hc, hw1⟩ := discoveredLoop_wf s source pre kept0 outs0 hw
  have h := discoveredLoop_update source k post _ kept1 outs1 hw1.1 v1 v2 h1 h2
  rw [hc] at h
  refine ⟨?_, h⟩
  rcases h with rfl | ⟨_, _, hlt, _, _⟩
  · exact Nat.le_refl _
  · exact Nat.le_of_lt hlt

/-- The same, with the second state written as the loop over the whole list `pre ++ post`. -/
theorem seq_never_decreases_inside_discovered' (s : Svc) (hw : Wf s) (source : Nat)
    (pre post kept0 : List Rec) (outs0 : List Out) (k : Nat) (v1 v2 : Rec)
    (h1 : valueOf (discoveredLoop s source pre kept0 outs0).1.table k = some v1)
    (h2 : valueOf (discoveredLoop s source (pre ++ post) kept0 outs0).1.table k = some v2) :
    v1.seq ≤ v2.seq ∧
      (v2 = v1 ∨ (v2 ∈ post ∧ v2.id = k ∧ v1.seq < v2.seq ∧ contactable s.cfg.ipMode v2 = true ∧
        v2.passesFilter = true)) := by
  rw [discovered_loop_append s source pre post kept0 [] outs0 []] at h2
  exact seq_never_decreases_inside_discovered s hw source pre post kept0 [] outs0 [] k v1 v2 h1 h2

/-- **discovered_seq_monotone** (A').  Over a whole `discovered` call: if key `k` had the value `v`
before and has the value `v'` after, then `v.seq ≤ v'.seq`, and `v'` is `v` or one of the records of
the call (then a record for `k` with a strictly higher sequence number, contactable, passing the
filter). -/
theorem discovered_seq_monotone (s : Svc) (hw : Wf s) (source : Nat) (recs : List Rec)
    (query : Option Nat) (k : Nat) (v v' : Rec) (h1 : valueOf s.table k = some v)
    (h2 : valueOf (s.discovered source recs query).1.table k = some v') :
    v.seq ≤ v'.seq ∧ (v' = v ∨ v' ∈ recs) ∧
      (v' = v ∨ (v' ∈ recs ∧ v'.id = k ∧ v.seq < v'.seq ∧ contactable s.cfg.ipMode v' = true ∧
        v'.passesFilter = true)) := by
  rw [discovered_table] at h2
  have h := seq_never_decreases_inside_discovered s hw source [] recs [] [] [] [] k v v' h1 h2
  refine ⟨h.1, ?_, h.2⟩
  rcases h.2 with e | ⟨hm, _⟩
  · exact Or.inl e
  · exact Or.inr hm

/-! ### A'' — two records of one node in one answer, the higher sequence number first -/

/-- The `update_node` call the loop body issues for an acceptable, newer record `r` does not fail
(it fails if the table filter or the bucket filter refuses the new value). -/
def UpdateAccepted (s : Svc) (r : Rec) : Prop :=
  ((s.entry r.id).1.table.updateNode s.cfg.kb s.now r.id r none).2.isFailed = false

/-- **two_records_higher_first** (general form).  One answer carries `[r7, r6]`, two records of node
`k` with `r6.seq < r7.seq`, both newer than the stored value `v`; afterwards the entry still exists
with value `v'`.  Then `v.seq ≤ v'.seq`, and the final value is `r7` **unless the first iteration did
not store `r7`** (the value after the first iteration is still `v`); only in that case can the final
value be `v` or — if `r6` is contactable and passes the filter — the lower record `r6`.
(`v' = r6` does happen in the model, see the example `lower_record_wins` below: `r7` is refused
(not contactable / refused by a filter) while the entry is *pending*, which `remove` does not
touch.) -/
theorem two_records_higher_first (s : Svc) (hw : Wf s) (source : Nat) (query : Option Nat) (k : Nat)
    (r7 r6 v v' : Rec) (h7 : r7.id = k) (h6 : r6.id = k) (hlt : r6.seq < r7.seq)
    (h1 : valueOf s.table k = some v) (hv : v.seq < r6.seq)
    (h2 : valueOf (s.discovered source [r7, r6] query).1.table k = some v') :
    v.seq ≤ v'.seq ∧
      (v' = r7 ∨
        (valueOf (s.discoveredOne source r7).1.table k = some v ∧
          (v' = v ∨ (v' = r6 ∧ contactable s.cfg.ipMode r6 = true ∧ r6.passesFilter = true)))) := by
  refine ⟨(discovered_seq_monotone s hw source _ query k v v' h1 h2).1, ?_⟩
  rw [discovered_table] at h2
  -- the state after the first iteration
  have e1 : (discoveredLoop s source [r7] [] []).1 = (s.discoveredOne source r7).1 := rfl
  have h2' : valueOf (discoveredLoop (discoveredLoop s source [r7] [] []).1 source [r6] [] []).1.table k
      = some v' := by
    rw [← discovered_loop_append s source [r7] [r6] [] [] [] []]; exact h2
  obtain ⟨hc1, hw1⟩ := discoveredLoop_wf s source [r7] [] [] hw
  obtain ⟨w, hw'⟩ := discoveredLoop_creates_no_entry _ source [r6] [] [] hw1 k v' h2'
  have hA := (seq_never_decreases_inside_discovered s hw source [r7] [r6] [] [] [] [] k w v' hw' h2').2
  rw [e1] at hw'
  rcases discovered_one_rule s source r7 hw k v w h1 hw' with rfl | ⟨rfl, _, _, _, _⟩
  · -- the first iteration left `v`
    refine Or.inr ⟨hw', ?_⟩
    rcases hA with e | ⟨hm, _, _, hc, hf⟩
    · exact Or.inl e
    · rw [List.mem_singleton] at hm
      subst hm
      exact Or.inr ⟨rfl, hc, hf⟩
  · -- the first iteration stored `r7`: the lower record cannot replace it
    rcases hA with e | ⟨hm, _, hlt', _, _⟩
    · exact Or.inl e
    · rw [List.mem_singleton] at hm
      subst hm
      exact absurd hlt' (Nat.lt_asymm hlt)

/-- **two_records_higher_first_stored** (A'', the scenario).  If moreover `r7` is acceptable —
contactable in the IP mode, passes the table filter, and the table update issued for it does not
fail — then the final value is exactly `r7`: the lower record arriving second never replaces the
higher one. -/
theorem two_records_higher_first_stored (s : Svc) (hw : Wf s) (source : Nat) (query : Option Nat)
    (k : Nat) (r7 r6 v v' : Rec) (h7 : r7.id = k) (h6 : r6.id = k) (hlt : r6.seq < r7.seq)
    (h1 : valueOf s.table k = some v) (hv : v.seq < r6.seq)
    (hc7 : contactable s.cfg.ipMode r7 = true) (hf7 : r7.passesFilter = true)
    (hu7 : UpdateAccepted s r7)
    (h2 : valueOf (s.discovered source [r7, r6] query).1.table k = some v') :
    v' = r7 := by
  rcases (two_records_higher_first s hw source query k r7 r6 v v' h7 h6 hlt h1 hv h2).2 with
    e | ⟨hs, _⟩
  · exact e
  · subst h7
    have : v = r7 :=
      discoveredOne_stores s source r7 hw.1 hw.2 hf7 hc7 hu7 v h1 (Nat.lt_trans hv hlt) v hs
    subst this
    exact absurd (Nat.lt_trans hv hlt) (Nat.lt_irrefl _)

/-- Contrapositive reading: if the lower record `r6` ends up stored, the higher record `r7` was
refused — not contactable, refused by the table filter, or its table update failed. -/
theorem lower_record_stored_only_if_higher_refused (s : Svc) (hw : Wf s) (source : Nat)
    (query : Option Nat) (k : Nat) (r7 r6 v : Rec) (h7 : r7.id = k) (h6 : r6.id = k)
    (hlt : r6.seq < r7.seq) (h1 : valueOf s.table k = some v) (hv : v.seq < r6.seq)
    (h2 : valueOf (s.discovered source [r7, r6] query).1.table k = some r6) :
    contactable s.cfg.ipMode r7 = false ∨ r7.passesFilter = false ∨ ¬ UpdateAccepted s r7 := by
  cases hc7 : contactable s.cfg.ipMode r7 with
  | false => exact Or.inl rfl
  | true =>
    cases hf7 : r7.passesFilter with
    | false => exact Or.inr (Or.inl rfl)
    | true =>
      refine Or.inr (Or.inr fun hu7 => ?_)
      have := two_records_higher_first_stored s hw source query k r7 r6 v r6 h7 h6 hlt h1 hv
        hc7 hf7 hu7 h2
      rw [this] at hlt
      exact Nat.lt_irrefl _ hlt

/-! ### B — a session report stores the reported record -/

/-- **admitting_step_stores_admitted_record.**  In a step that carries an admitted record `r` (an
established session or an explicit add), every value the table holds afterwards is the value it
held before under that key, or is `r` filed under `r.id`. -/
theorem admitting_step_stores_admitted_record (s : Svc) (o : Oracle) (i : Svc.Input) (hw : Wf s)
    (r : Rec) (hr : admRec i = some r) (k : Nat) (v' : Rec)
    (h2 : valueOf (s.step o i).1.table k = some v') :
    valueOf s.table k = some v' ∨ (k = r.id ∧ v' = r) :=
  step_admit_update s o i hw.1 r hr k v' h2

/-- **session_report_stores_reported_record** (B).  A session report for record `r` (either
direction) that admits or changes the entry of `r.id` — the value under `r.id` after the step is
`v'` and differs from what was there before (another value, or no entry) — stores exactly the
reported record: `v' = r`. -/
theorem session_report_stores_reported_record (s : Svc) (o : Oracle) (r : Rec) (addr : Addr)
    (incoming : Bool) (hw : Wf s) (v' : Rec)
    (h2 : valueOf (s.step o (.established r addr incoming)).1.table r.id = some v')
    (hch : valueOf s.table r.id ≠ valueOf (s.step o (.established r addr incoming)).1.table r.id) :
    v' = r := by
  rcases admitting_step_stores_admitted_record s o _ hw r rfl r.id v' h2 with h | ⟨_, h⟩
  · rw [h2] at hch; exact absurd h hch
  · exact h

/-- B for an incoming session. -/
theorem incoming_session_stores_reported_record (s : Svc) (o : Oracle) (r : Rec) (addr : Addr)
    (hw : Wf s) (v' : Rec)
    (h2 : valueOf (s.step o (.established r addr true)).1.table r.id = some v')
    (hch : valueOf s.table r.id ≠ valueOf (s.step o (.established r addr true)).1.table r.id) :
    v' = r :=
  session_report_stores_reported_record s o r addr true hw v' h2 hch

/-- B for an outgoing session. -/
theorem outgoing_session_stores_reported_record (s : Svc) (o : Oracle) (r : Rec) (addr : Addr)
    (hw : Wf s) (v' : Rec)
    (h2 : valueOf (s.step o (.established r addr false)).1.table r.id = some v')
    (hch : valueOf s.table r.id ≠ valueOf (s.step o (.established r addr false)).1.table r.id) :
    v' = r :=
  session_report_stores_reported_record s o r addr false hw v' h2 hch

/-- A session report changes no other entry's value: a value that differs from the one before the
step sits under `r.id` (and is `r`). -/
theorem session_report_changes_only_reported_id (s : Svc) (o : Oracle) (r : Rec) (addr : Addr)
    (incoming : Bool) (hw : Wf s) (k : Nat) (v' : Rec)
    (h2 : valueOf (s.step o (.established r addr incoming)).1.table k = some v')
    (hch : valueOf s.table k ≠ some v') : k = r.id ∧ v' = r := by
  rcases admitting_step_stores_admitted_record s o _ hw r rfl k v' h2 with h | h
  · exact absurd h hch
  · exact h

/-- The same for an explicit add (`Discv5::add_enr`). -/
theorem add_stores_added_record (s : Svc) (o : Oracle) (r : Rec) (hw : Wf s) (v' : Rec)
    (h2 : valueOf (s.step o (.addEnr r)).1.table r.id = some v')
    (hch : valueOf s.table r.id ≠ valueOf (s.step o (.addEnr r)).1.table r.id) : v' = r := by
  rcases admitting_step_stores_admitted_record s o _ hw r rfl r.id v' h2 with h | ⟨_, h⟩
  · rw [h2] at hch; exact absurd h hch
  · exact h

/-! ### Non-vacuity on concrete runs

`ex1` (from `Props/C12.lean`): local node 0 in IPv4 mode with one stored node, 1 ↦ `recV4` (seq 1). -/

/-- two newer records of node 1 -/
def rec7 : Rec := { recV4 with seq := 7, sig := 70 }
def rec6 : Rec := { recV4 with seq := 6, sig := 60 }

/-- A'' instantiated: an answer `[rec7, rec6]` (from any source, here node 1 itself) leaves `rec7`;
all hypotheses of `two_records_higher_first_stored` hold of `ex1`. -/
example (v' : Rec) (h : valueOf (ex1.discovered 1 [rec7, rec6] none).1.table 1 = some v') :
    v' = rec7 :=
  two_records_higher_first_stored ex1 ex1_wf 1 none 1 rec7 rec6 recV4 v' rfl rfl (by decide)
    (by decide +kernel) (by decide) (by decide) rfl (by unfold UpdateAccepted; decide +kernel) h

/-- … and the entry does exist afterwards (the hypothesis `h` above is satisfiable); in the opposite
order the result is the same record. -/
example : valueOf ex1.table 1 = some recV4 ∧
    valueOf (ex1.discovered 1 [rec7, rec6] none).1.table 1 = some rec7 ∧
    valueOf (ex1.discovered 1 [rec6, rec7] none).1.table 1 = some rec7 := by
  decide +kernel

/-- A at an intermediate point: after `[rec6]` the value is `rec6`, after `[rec6] ++ [rec7]` it is
`rec7` (the premises of `seq_never_decreases_inside_discovered'` hold with `pre = [rec6]`,
`post = [rec7]`, and its conclusion is what happened). -/
example : valueOf (discoveredLoop ex1 1 [rec6] [] []).1.table 1 = some rec6 ∧
    valueOf (discoveredLoop ex1 1 ([rec6] ++ [rec7]) [] []).1.table 1 = some rec7 ∧
    rec6.seq < rec7.seq := by
  decide +kernel

/-- B instantiated: a second session report for node 1 carrying `recNew` replaces `recV4` by exactly
`recNew` (incoming and outgoing). -/
example : valueOf ex1.table 1 = some recV4 ∧
    valueOf (ex1.step {} (.established recNew exAddr true)).1.table 1 = some recNew ∧
    valueOf (ex1.step {} (.established recNew exAddr false)).1.table 1 = some recNew := by
  decide +kernel

example (v' : Rec) (h : valueOf (ex1.step {} (.established recNew exAddr true)).1.table 1 = some v') :
    v' = recNew :=
  incoming_session_stores_reported_record ex1 {} recNew exAddr ex1_wf v' h
    (by decide +kernel)

/-! #### The lower record can win when the higher one is refused (why A'' needs its hypotheses)

Bucket 5 of local node 0 is filled with 16 disconnected nodes (ids 32..47, explicit adds); a session
with node 48 then makes node 48 the *pending* node of that bucket (value `mk 48`, seq 1).  An answer
`[p7bad, p6]` for node 48 follows: `p7bad` (seq 7) is not contactable in IPv4 mode, so the loop asks
to remove the older entry — which does nothing for a pending entry (`bucket.remove` only finds
stored nodes) — and `p6` (seq 6) then replaces the pending value.  The entry ends with the lower of
the two sequence numbers. -/

def mk (id : Nat) : Rec := { recV4 with id := id }

def adds : List (Oracle × Svc.Input) :=
  (List.range 16).map fun j => ({}, Svc.Input.addEnr (mk (32 + j)))

def full0 : Svc := (ex0.run adds).1

def full1 : Svc := (full0.step {} (.established (mk 48) exAddr false)).1

def p7bad : Rec := { mk 48 with seq := 7, udp4 := none }

def p6 : Rec := { mk 48 with seq := 6, sig := 60 }

/-- the entry under `key` is the pending node of its bucket -/
def isPending (t : Table Rec) (key : Nat) : Bool :=
  match lookup t key with
  | .pending _ _ => true
  | _ => false

theorem full0_wf : Wf full0 :=
  (table_policy_run adds ex0 ⟨init_tinv _ _, rfl⟩
    (fun p hp r a h => by
      simp only [adds, List.mem_map] at hp
      obtain ⟨j, _, rfl⟩ := hp
      cases h)
    (table_policy_init _ _)).1

theorem full1_wf : Wf full1 := wf_step full0 {} _ full0_wf (fun _ _ h => by cases h)

/-- **lower_record_wins.**  In the well-formed state `full1` node 48 is the pending node of a full
bucket with value `mk 48` (seq 1); the answer `[p7bad, p6]` (seq 7 first, then seq 6, both for node
48, both newer than the stored value; `p7bad` not contactable) leaves `p6`, the record with the
*lower* sequence number. -/
theorem lower_record_wins :
    isPending full1.table 48 = true ∧
    valueOf full1.table 48 = some (mk 48) ∧ p7bad.id = 48 ∧ p6.id = 48 ∧
    p6.seq < p7bad.seq ∧ (mk 48).seq < p6.seq ∧ contactable full1.cfg.ipMode p7bad = false ∧
    valueOf (full1.discovered 1 [p7bad, p6] none).1.table 48 = some p6 := by
  decide +kernel

/-- The general form `two_records_higher_first` applies to it (its second disjunct is the case). -/
example : valueOf (full1.discoveredOne 1 p7bad).1.table 48 = some (mk 48) := by
  have h := lower_record_wins
  rcases (two_records_higher_first full1 full1_wf 1 none 48 p7bad p6 (mk 48) p6 rfl rfl
    h.2.2.2.2.1 h.2.1 h.2.2.2.2.2.1 h.2.2.2.2.2.2.2).2 with e | ⟨hs, _⟩
  · exact absurd e (by decide)
  · exact hs

end Discv5.Props.C12Discovered

/- C02 (attribution part) — an undecryptable packet ends the session it was received under, and a
response is credited only to a request outstanding to the very node address it came from.
Handler model. -/
import Discv5Model.Proofs.HandlerAttribution
namespace Discv5.H
open Cr AT

/-! ### A. An undecryptable packet ends the session -/

/-- `sessGetMut` hands out a session for `na` exactly when the cache holds an entry for `na` whose
stamp has not outlived the session timeout (this is what "a live session for `na`" means in the
theorems below). -/
theorem live_session_iff (c : Cfg) (s : HState) (os : List Out) (na : NA) (sess : Session) :
    ((sessGetMut c na).run (s, os)).1 = some sess ↔
      ∃ stamp, s.sessions.find? (·.1 == na) = some (na, sess, stamp) ∧ ¬ stamp + c.sessionTtl < s.rt :=
  sessGetMut_some_iff c na (s, os) sess

/-- A packet is undecryptable for a session exactly when it is not an AEAD term sealed, with the
packet's own nonce and associated data, under the current or the previous decryption key. -/
theorem undecryptable_iff (sess : Session) (nonce : Nat) (ct : Ct) :
    (decryptMessage sess nonce ct).2 = none ↔
      ¬ ∃ key ctr pt, ct = .enc key nonce ctr pt true ∧
        (key = sess.keys.dec ∨ ∃ old, sess.oldKeys = some old ∧ key = old.dec) := by
  constructor
  · rintro h ⟨key, ctr, pt, rfl, hk⟩
    revert h
    unfold decryptMessage
    rcases hk with rfl | ⟨old, ho, rfl⟩
    · simp
    · by_cases hk : old.dec = sess.keys.dec
      · simp [hk]
      · simp [ho, hk]
  · intro h
    cases hm : (decryptMessage sess nonce ct).2 with
    | none => rfl
    | some m =>
      obtain ⟨key, ctr, hct, hk⟩ := decrypt_some hm
      exact absurd ⟨key, ctr, m, hct, hk⟩ h

/-- An undecryptable packet is not a "use" that keeps a session alive — it ends it.  If
`handleMessage` for a packet claiming to come from `na` finds a live session for `na` and the
packet does not decrypt under it, then afterwards the session cache has no entry for `na` at all
(although the lookup had just refreshed the entry), and the only outputs of the call are failure
reports for the requests that were outstanding to `na`, expiry reports, and at most one
who-are-you query to `na` for this packet. -/
theorem undecryptable_ends_session (c : Cfg) (s : HState) (os : List Out) (na : NA) (nonce : Nat)
    (ct : Ct) (sess : Session)
    (hs : ((sessGetMut c na).run (s, os)).1 = some sess)
    (hd : (decryptMessage sess nonce ct).2 = none) :
    (∀ e ∈ ((handleMessage c na nonce ct).run (s, os)).2.1.sessions, e.1 ≠ na) ∧
    ∃ new, ((handleMessage c na nonce ct).run (s, os)).2.2 = os ++ new ∧
      ∀ o ∈ new, (∃ rid e, o = .failed rid e) ∨ (∃ l, o = .expired l) ∨ o = .wru na nonce :=
  handleMessage_undecryptable c na nonce ct (s, os) sess hs hd

/-- … in particular nothing is delivered by that call: no request, no response, no
"session established". -/
theorem undecryptable_delivers_nothing (c : Cfg) (s : HState) (os : List Out) (na : NA) (nonce : Nat)
    (ct : Ct) (sess : Session)
    (hs : ((sessGetMut c na).run (s, os)).1 = some sess)
    (hd : (decryptMessage sess nonce ct).2 = none) :
    ∃ new, ((handleMessage c na nonce ct).run (s, os)).2.2 = os ++ new ∧
      ∀ o ∈ new, (∀ na' rid b, o ≠ .request na' rid b) ∧ (∀ na' rid rb, o ≠ .response na' rid rb) ∧
        (∀ r a d, o ≠ .established r a d) := by
  obtain ⟨-, new, h1, h2⟩ := undecryptable_ends_session c s os na nonce ct sess hs hd
  refine ⟨new, h1, fun o ho => ?_⟩
  rcases h2 o ho with ⟨_, _, rfl⟩ | ⟨_, rfl⟩ | rfl <;>
    exact ⟨fun _ _ _ h => (nomatch h), fun _ _ _ h => (nomatch h), fun _ _ _ h => (nomatch h)⟩

/-- The same at the level of one handler step: a message datagram from `(srcId, src)` that does not
decrypt under the live session held for `(srcId, src)` leaves no session for that node address, and
the step reports only request failures, expiries and a who-are-you query. -/
theorem undecryptable_datagram_ends_session (c : Cfg) (s : HState) (src : Addr) (srcId nonce : Nat)
    (ct : Ct) (sess : Session)
    (hs : ((sessGetMut c { id := srcId, addr := src }).run (s, [])).1 = some sess)
    (hd : (decryptMessage sess nonce ct).2 = none) :
    (∀ e ∈ (step c s (.dgram src (.message srcId nonce ct))).1.sessions,
        e.1 ≠ { id := srcId, addr := src }) ∧
    (∀ o ∈ (step c s (.dgram src (.message srcId nonce ct))).2,
        (∃ rid e, o = .failed rid e) ∨ (∃ l, o = .expired l) ∨
          o = .wru { id := srcId, addr := src } nonce) := by
  obtain ⟨h1, h2⟩ := handleMessage_undecryptable c { id := srcId, addr := src } nonce ct (s, []) sess hs hd
  exact ⟨h1, h2.all⟩

/-- … and along a history: after such a datagram the reached state holds no session for its
sender. -/
theorem undecryptable_datagram_ends_session_run (c : Cfg) (evs : List Ev) (src : Addr)
    (srcId nonce : Nat) (ct : Ct) (sess : Session)
    (hs : ((sessGetMut c { id := srcId, addr := src }).run (run c evs, [])).1 = some sess)
    (hd : (decryptMessage sess nonce ct).2 = none) :
    ∀ e ∈ (run c (evs ++ [.dgram src (.message srcId nonce ct)])).sessions,
      e.1 ≠ { id := srcId, addr := src } := by
  rw [RQ.run_snoc]
  exact (undecryptable_datagram_ends_session c (run c evs) src srcId nonce ct sess hs hd).1

/-! ### B. A response is credited only to a request outstanding to its sender -/

/-- `handleResponse c na rid rb` — a response `rid` arrived from node address `na` — reports a
response only as `response na rid rb`, and only if an active request with id `rid` to exactly
`na` exists.  A request with the same id that is outstanding to another node address is never
matched. -/
theorem response_attributed_handleResponse (c : Cfg) (s : HState) (os : List Out) (na : NA)
    (rid : Nat) (rb : RespBody) :
    ∃ new, ((handleResponse c na rid rb).run (s, os)).2.2 = os ++ new ∧
      ∀ na' rid' rb', Out.response na' rid' rb' ∈ new →
        na' = na ∧ rid' = rid ∧ rb' = rb ∧ ∃ cl ∈ s.active, callNA cl = na ∧ cl.rid = rid :=
  (handleResponse_ext c na rid rb os
    (fun o => ∀ na' rid' rb', o = .response na' rid' rb' →
      na' = na ∧ rid' = rid ∧ rb' = rb ∧ ∃ cl ∈ s.active, callNA cl = na ∧ cl.rid = rid) (s, os)
    (by rintro hc _ _ _ h; cases h; exact ⟨rfl, rfl, rfl, hc⟩) (Ext.refl _ _)).imp
    (fun _ h => ⟨h.1, fun _ _ _ hm => h.2 _ hm _ _ _ rfl⟩)

/-- The same for a whole message packet: whatever `handleMessage c na nonce ct` reports as a
response is attributed to `na`, the node address the packet came from, and its request id is that
of a request that was active to exactly `na` when the packet arrived. -/
theorem response_attributed_handleMessage (c : Cfg) (s : HState) (os : List Out) (na : NA)
    (nonce : Nat) (ct : Ct) :
    ∃ new, ((handleMessage c na nonce ct).run (s, os)).2.2 = os ++ new ∧
      ∀ na' rid rb, Out.response na' rid rb ∈ new →
        na' = na ∧ ∃ cl ∈ s.active, callNA cl = na ∧ cl.rid = rid :=
  (handleMessage_ext c na nonce ct os
    (fun o => ∀ na' rid rb, o = .response na' rid rb →
      na' = na ∧ ∃ cl ∈ s.active, callNA cl = na ∧ cl.rid = rid) (s, os)
    (by rintro _ _ _ _ _ h; cases h) (by rintro _ _ _ _ h; cases h) (by rintro _ _ _ h; cases h)
    (by rintro _ _ _ _ _ h; cases h) (by rintro _ _ _ _ _ _ h; cases h)
    (by rintro _ _ _ _ _ _ h; cases h)
    (by rintro _ _ hc _ _ _ h; cases h; exact ⟨rfl, hc⟩) (Ext.refl _ _)).imp
    (fun _ h => ⟨h.1, fun _ _ _ hm => h.2 _ hm _ _ _ rfl⟩)

/-- One handler step on a message datagram: a reported response names the datagram's sender
`(srcId, src)` and the id of a request that was active to exactly that node address before the
step. -/
theorem response_attributed (c : Cfg) (s : HState) (src : Addr) (srcId nonce : Nat) (ct : Ct)
    (na' : NA) (rid : Nat) (rb : RespBody)
    (h : Out.response na' rid rb ∈ (step c s (.dgram src (.message srcId nonce ct))).2) :
    na' = { id := srcId, addr := src } ∧
      ∃ cl ∈ s.active, callNA cl = { id := srcId, addr := src } ∧ cl.rid = rid := by
  obtain ⟨new, h1, h2⟩ := response_attributed_handleMessage c s [] { id := srcId, addr := src } nonce ct
  refine h2 na' rid rb ?_
  have h' : Out.response na' rid rb ∈
      ((handleMessage c { id := srcId, addr := src } nonce ct).run (s, [])).2.2 := h
  rw [h1] at h'
  simpa using h'

/-- Contrapositive: a request id that is outstanding only to other node addresses is never
answered by a message datagram from `(srcId, src)`. -/
theorem foreign_request_not_matched (c : Cfg) (s : HState) (src : Addr) (srcId nonce : Nat) (ct : Ct)
    (rid : Nat)
    (hforeign : ∀ cl ∈ s.active, cl.rid = rid → callNA cl ≠ { id := srcId, addr := src }) :
    ∀ na' rb, Out.response na' rid rb ∉ (step c s (.dgram src (.message srcId nonce ct))).2 := by
  intro na' rb h
  obtain ⟨-, cl, hcl, h1, h2⟩ := response_attributed c s src srcId nonce ct na' rid rb h
  exact hforeign cl hcl h2 h1

/-- Request `rid` is outstanding to `na`: it is the id of an active request to `na`, or of a
request for contact `na` that is queued until a session exists. -/
def OutstandingTo (s : HState) (na : NA) (rid : Nat) : Prop :=
  (∃ cl ∈ s.active, callNA cl = na ∧ cl.rid = rid) ∨
  (∃ e ∈ s.pending, ∃ pr ∈ e.2, pr.contact.na = na ∧ pr.rid = rid)

/-- A handshake datagram also carries a message.  A response reported in that step names the
datagram's sender `(srcId, src)`, and its id is that of a request that, before the step, was
active to that node address or queued for it (queued requests are sent out when the handshake
completes the session, just before the carried message is handled). -/
theorem response_attributed_handshake (c : Cfg) (s : HState) (src : Addr) (srcId nonce : Nat)
    (sig : Sig) (eph : Nat) (record : Option Rec) (ct : Ct) (na' : NA) (rid : Nat) (rb : RespBody)
    (h : Out.response na' rid rb ∈
      (step c s (.dgram src (.handshake srcId nonce sig eph record ct))).2) :
    na' = { id := srcId, addr := src } ∧ OutstandingTo s { id := srcId, addr := src } rid := by
  have hw := handleAuthMessage_ext c { id := srcId, addr := src } nonce sig eph record ct []
    (fun o => ∀ na' rid rb, o = .response na' rid rb →
      na' = { id := srcId, addr := src } ∧ OutstandingTo s { id := srcId, addr := src } rid)
    (OutstandingTo s { id := srcId, addr := src }) (s, [])
    (fun o ho _ _ _ h => absurd h (ho _ _ _))
    (by rintro _ _ hc _ _ _ h; cases h; exact ⟨rfl, hc⟩) (Ext.refl _ _)
    ⟨fun cl hcl hna => Or.inl ⟨cl, hcl, hna, rfl⟩,
     fun e he pr hpr hna => Or.inr ⟨e, he, pr, hpr, hna, rfl⟩⟩
  exact hw.all _ h _ _ _ rfl

/-- Whatever the event: if a handler step reports a response for `(na', rid)`, then the event was
a message or handshake datagram whose sender is exactly `na'`, and request `rid` was outstanding to
exactly `na'` before the step.  No other event, and no datagram from another node address, makes
the handler credit a response to `na'`. -/
theorem response_attributed_step (c : Cfg) (s : HState) (ev : Ev) (na' : NA) (rid : Nat)
    (rb : RespBody) (h : Out.response na' rid rb ∈ (step c s ev).2) :
    OutstandingTo s na' rid ∧
    ((∃ src srcId nonce ct, ev = .dgram src (.message srcId nonce ct) ∧
        na' = { id := srcId, addr := src }) ∨
     (∃ src srcId nonce sig eph r ct, ev = .dgram src (.handshake srcId nonce sig eph r ct) ∧
        na' = { id := srcId, addr := src })) := by
  by_cases hm : ∃ src srcId nonce ct, ev = .dgram src (.message srcId nonce ct)
  · obtain ⟨src, srcId, nonce, ct, rfl⟩ := hm
    obtain ⟨h1, h2⟩ := response_attributed c s src srcId nonce ct na' rid rb h
    exact ⟨Or.inl (h1 ▸ h2), Or.inl ⟨src, srcId, nonce, ct, rfl, h1⟩⟩
  · by_cases hh : ∃ src srcId nonce sig eph r ct, ev = .dgram src (.handshake srcId nonce sig eph r ct)
    · obtain ⟨src, srcId, nonce, sig, eph, r, ct, rfl⟩ := hh
      obtain ⟨h1, h2⟩ := response_attributed_handshake c s src srcId nonce sig eph r ct na' rid rb h
      exact ⟨h1 ▸ h2, Or.inr ⟨src, srcId, nonce, sig, eph, r, ct, rfl, h1⟩⟩
    · have hn := (N_stepM (os0 := []) (P := fun o => ∀ na rid rb, o ≠ .response na rid rb)
        (fun _ ho => ho) c ev
        (fun src srcId nonce ct he => hm ⟨src, srcId, nonce, ct, he⟩)
        (fun src srcId nonce sig eph r ct he => hh ⟨src, srcId, nonce, sig, eph, r, ct, he⟩)).out
        (s, []) (Ext.refl _ _)
      exact absurd rfl (Ext.all hn _ h na' rid rb)

/-! ### Non-vacuity -/
namespace C02AttrEx

def exCfg : Cfg :=
  { localId := 1, localSeq := 1, localRec := { id := 1, seq := 1, udp4 := some 10, udp6 := none },
    requestRetries := 1, requestTimeout := 1000, sessionTtl := 10, sessionCap := 4, listen := [],
    findnode0 := 0 }
def exAddr : Addr := { v6 := false, n := 20 }
def exAddrB : Addr := { v6 := false, n := 30 }
/-- the peer the session is held with -/
def exNA : NA := { id := 2, addr := exAddr }
/-- the same node id seen at another address: a different node address -/
def exNB : NA := { id := 2, addr := exAddrB }
def exKeys : Keys :=
  { enc := { eph := 1000001, cd := 7, ini := 1, rcp := 2, toRcp := true },
    dec := { eph := 1000001, cd := 7, ini := 1, rcp := 2, toRcp := false } }
def exSess : Session := { keys := exKeys }
/-- an active (already sent) request with id 7 to `na` -/
def exCall (na : NA) : Call :=
  { contact := { na := na, record := none }, pkt := .message 1 1000009 .garbage, rid := 7,
    internal := false, body := 3, initiating := false, deadline := 1000 }
/-- a live session with `exNA`, and request 7 outstanding to `na` -/
def exState (na : NA) : HState := { sessions := [(exNA, exSess, 0)], active := [exCall na] }
/-- a response to request 7, correctly sealed under the session with `exNA` -/
def exResp : Ct := .enc exKeys.dec 55 3 (.response 7 (.other 0)) true

/-- The hypotheses of `undecryptable_ends_session` / `undecryptable_datagram_ends_session` are
satisfiable: a live session, and a packet that does not decrypt under it. -/
example : ((sessGetMut exCfg exNA).run (exState exNA, [])).1 = some exSess ∧
    (decryptMessage exSess 55 .garbage).2 = none := by decide

/-- … and on that state the step indeed drops the session, fails the outstanding request and asks
who-are-you. -/
example : (step exCfg (exState exNA) (.dgram exAddr (.message 2 55 .garbage))).1.sessions = [] ∧
    (step exCfg (exState exNA) (.dgram exAddr (.message 2 55 .garbage))).2 =
      [.failed 7 .invalidRemotePacket, .wru exNA 55] := by decide

/-- A response from `exNA` to a request outstanding to `exNA` is reported (the hypothesis of
`response_attributed` is satisfiable) … -/
example : (step exCfg (exState exNA) (.dgram exAddr (.message 2 55 exResp))).2 =
    [.response exNA 7 (.other 0)] := by decide

/-- … while the same, correctly sealed, response from `exNA` is not matched against request 7 when
that request is outstanding to the other node address `exNB` (`foreign_request_not_matched`): nothing
is reported and the request stays active. -/
example : (step exCfg (exState exNB) (.dgram exAddr (.message 2 55 exResp))).2 = [] ∧
    (step exCfg (exState exNB) (.dgram exAddr (.message 2 55 exResp))).1.active = [exCall exNB] := by
  decide

def exRec : Rec := { id := 2, seq := 1, udp4 := some 20, udp6 := none }
/-- no session yet: a who-are-you challenge to `exNA` is open and request 7 is queued for `exNA` -/
def exStateH : HState :=
  { challenges := [(exNA, { cd := 7, remoteRec := some exRec }, 1000, 0)],
    pending := [(exNA, [{ contact := { na := exNA, record := some exRec }, rid := 7, internal := false,
                          body := 3 }])] }
/-- the key under which the handshake's initiator seals its messages -/
def exHsKey : Key := { eph := 99, cd := 7, ini := 2, rcp := 1, toRcp := true }

/-- The second alternative of `OutstandingTo` in `response_attributed_handshake` is needed: a
handshake datagram completes the session, the queued request 7 is sent, and the message carried by
the same datagram is then accepted as the response to it — no request was active before the step. -/
example : Out.response exNA 7 (.other 0) ∈
      (step exCfg exStateH (.dgram exAddr (.handshake 2 55 { signer := 2, cd := 7, eph := 99, dst := 1 }
        99 none (.enc exHsKey 55 0 (.response 7 (.other 0)) true)))).2 ∧
    exStateH.active = [] := by decide +kernel

end C02AttrEx

end Discv5.H

/-
C15 (what is a *use* of a session) — handler model.

The session cache is an LRU cache with a time-to-live: an entry lives as long as it is *used* at
least once per `session_timeout`, and a use makes it the most recently used entry.  This file pins
down which handler actions are uses of a session and which are not.

A. A request that runs out of retries is failed with `timeout` — and that is all: the session list
   is left exactly as it is (no entry removed, re-stamped, moved or changed), for the peer of the
   request and for everybody else.  `fail_session(…, remove_session = false)` does not even sweep
   expired entries.
   At the level of one handler step the literal reading "a step that reports a timeout leaves the
   session list as it is" is FALSE: one `adv` step fires *all* due timers, and a challenge timer that
   is due in the same step releases the requests queued behind it, which use (re-stamp, bump the
   counter of) the sessions they are sent under — counterexample at the end of part A.  True is:
   the list is unchanged if no challenge timer is due in the step
   (`timeout_step_keeps_sessions_partial`); and in every case no live session is lost, created or
   re-keyed in such a step (`timeout_step_keeps_live_sessions`, `timeout_step_live_session_survives`).
B. The application's response (`HandlerIn::Response`, event `appResponse`) is put on the wire exactly
   when there is a live session for the destination: then exactly one packet goes out, sealed under
   the session's encryption key with the response as plaintext; otherwise nothing at all is output.
C. Answering is a use: in the live case the entry of the destination is afterwards the last (most
   recently used) entry, stamped with the current real-time clock — the cache's `get_mut`.
D. A request that is merely queued because a WHOAREYOU challenge to its destination is outstanding
   does not touch the session list at all (the test for the challenge comes first and
   short-circuits the session lookup), and nothing is sent.

"A live session for `na`" always means: `sessGetMut c na` returns a session, i.e. the list holds an
entry for `na` whose stamp has not outlived the session timeout (`live_session_iff'`).
Lemmas: `Proofs/HandlerSessionUse.lean`.
-/
import Discv5Model.Proofs.HandlerSessionUse

namespace Discv5.H
open SU HL

/-- `sessGetMut` hands out a session for `na` exactly when the first entry of the list for `na` has a
stamp that has not outlived the session timeout. -/
theorem live_session_iff' (c : Cfg) (s : HState) (os : List Out) (na : NA) (sess : Session) :
    ((sessGetMut c na).run (s, os)).1 = some sess ↔
      ∃ stamp, s.sessions.find? (·.1 == na) = some (na, sess, stamp) ∧ ¬ stamp + c.sessionTtl < s.rt :=
  AT.sessGetMut_some_iff c na (s, os) sess

/-! ### A. A request timeout leaves the session alone -/

/-- When the timer of a request fires — whether the request is retransmitted or given up — the
session list, the open challenges and both clocks are afterwards exactly what they were: same
entries, same sessions, same stamps, same order. -/
theorem request_timeout_leaves_sessions (c : Cfg) (call : Call) (s : HState) (os : List Out) :
    ((handleRequestTimeout c call).run (s, os)).2.1.sessions = s.sessions ∧
    ((handleRequestTimeout c call).run (s, os)).2.1.challenges = s.challenges ∧
    ((handleRequestTimeout c call).run (s, os)).2.1.rt = s.rt ∧
    ((handleRequestTimeout c call).run (s, os)).2.1.now = s.now := by
  obtain ⟨h1, h2, h3, h4, -⟩ := handleRequestTimeout_frame c call (s, os)
  exact ⟨h1, h2, h3, h4⟩

/-- A request that has used up its retries: it is reported as `failed … timeout` (unless it is an
internal request of the handler itself), and so are — with the same error — the other requests of
the same peer, queued (`rest1`) or active (`rest2`).  Those requests are forgotten; nothing is
sent; and the session list is exactly the one before.  In particular the session with the peer, if
there is one, is neither removed nor refreshed, and `fail_session` does not sweep expired entries
here (`remove_session = false`). -/
theorem request_timeout_exhausted (c : Cfg) (call : Call) (s : HState) (os : List Out)
    (h : call.retries ≥ c.requestRetries) :
    ((handleRequestTimeout c call).run (s, os)).2.1.sessions = s.sessions ∧
    ((handleRequestTimeout c call).run (s, os)).2.1.active =
      s.active.filter (fun x => callNA x != callNA call) ∧
    ((handleRequestTimeout c call).run (s, os)).2.1.pending =
      s.pending.filter (·.1 != callNA call) ∧
    ∃ rest1 rest2,
      ((handleRequestTimeout c call).run (s, os)).2.2 =
        os ++ (if call.internal then [] else [Out.failed call.rid .timeout]) ++ rest1 ++ rest2 ∧
      (∀ o, o ∈ rest1 ↔ ∃ pr ∈ queuedFor s (callNA call), pr.internal = false ∧ o = .failed pr.rid .timeout) ∧
      (∀ o, o ∈ rest2 ↔ ∃ cl ∈ s.active, callNA cl = callNA call ∧ cl.internal = false ∧
        o = .failed cl.rid .timeout) := by
  obtain ⟨ex, hx⟩ := handleRequestTimeout_exhausted_run c call (s, os) h
  rw [hx]
  refine ⟨rfl, rfl, rfl, _, _, rfl, fun o => mem_pendOuts, fun o => ?_⟩
  rw [mem_callOuts]
  constructor
  · rintro ⟨cl, hcl, hi, ho⟩
    obtain ⟨h1, h2⟩ := List.mem_filter.1 hcl
    exact ⟨cl, h1, by simpa using h2, hi, ho⟩
  · rintro ⟨cl, hcl, hna, hi, ho⟩
    exact ⟨cl, List.mem_filter.2 ⟨hcl, by simpa using hna⟩, hi, ho⟩

/-- … read as the task is worded: the timer of an (external) request that has used up its retries
reports `failed rid timeout`, every output of the call is such a report, and every entry of the
session list — for the call's own node address as for all other keys — is still there afterwards,
with the same session and the same stamp. -/
theorem request_timeout_reports_and_keeps_entries (c : Cfg) (call : Call) (s : HState) (os : List Out)
    (h : call.retries ≥ c.requestRetries) (hext : call.internal = false) :
    (∃ new, ((handleRequestTimeout c call).run (s, os)).2.2 = os ++ Out.failed call.rid .timeout :: new ∧
      ∀ o ∈ new, ∃ rid, o = .failed rid .timeout) ∧
    (∀ e, e ∈ ((handleRequestTimeout c call).run (s, os)).2.1.sessions ↔ e ∈ s.sessions) := by
  obtain ⟨hs, -, -, rest1, rest2, ho, h1, h2⟩ := request_timeout_exhausted c call s os h
  refine ⟨⟨rest1 ++ rest2, ?_, fun o hm => ?_⟩, fun e => by rw [hs]⟩
  · rw [ho, hext]; simp
  · rcases List.mem_append.1 hm with hm | hm
    · obtain ⟨pr, -, -, rfl⟩ := (h1 o).1 hm; exact ⟨_, rfl⟩
    · obtain ⟨cl, -, -, -, rfl⟩ := (h2 o).1 hm; exact ⟨_, rfl⟩

/-- One timer step (`adv dt`) in which no *challenge* timer is due (every outstanding WHOAREYOU
expires after the end of the step): whatever request timers fire — retransmissions and timeouts —
the session list after the step is the list before it. -/
theorem timer_step_keeps_sessions (c : Cfg) (s : HState) (dt : Nat)
    (hch : ∀ e ∈ s.challenges, s.now + dt < e.2.2.1) :
    (step c s (.adv dt)).1.sessions = s.sessions :=
  (step_adv_no_challenge c s dt hch).1

/-- The step-level corollary, in the form that is true: if the outputs of a handler step contain
`failed rid timeout`, then the step is a timer step `adv dt`, and — provided no challenge timer is due
within it — the session list after the step is the list before it.
What is missing for the unconditional statement: a challenge timer due in the same `adv` step
releases the requests queued behind that challenge (`send_pending_requests`), and sending them is a
use of the sessions they are sent under (see the counterexample below and
`timeout_step_keeps_live_sessions` for what holds without the proviso). -/
theorem timeout_step_keeps_sessions_partial (c : Cfg) (s : HState) (ev : Ev) (rid : Nat)
    (h : Out.failed rid .timeout ∈ (step c s ev).2) :
    ∃ dt, ev = .adv dt ∧
      ((∀ e ∈ s.challenges, s.now + dt < e.2.2.1) → (step c s ev).1.sessions = s.sessions) := by
  obtain ⟨dt, rfl⟩ := RQ.timeout_only_from_timer' c s ev rid h
  exact ⟨dt, rfl, timer_step_keeps_sessions c s dt⟩

/-- Without any proviso: a step that reports a timeout (it is a timer step) does not move the
real-time clock, loses no live session — every node address for which `sessGetMut` would hand out a
session before the step still gets one after it — and creates or re-keys none: every entry after
the step carries, for its address, the keys of an entry from before the step. -/
theorem timeout_step_keeps_live_sessions (c : Cfg) (s : HState) (ev : Ev) (rid : Nat)
    (h : Out.failed rid .timeout ∈ (step c s ev).2) :
    (step c s ev).1.rt = s.rt ∧
    (∀ na, (∃ sess, ((sessGetMut c na).run (s, [])).1 = some sess) →
      ∃ sess', ((sessGetMut c na).run ((step c s ev).1, [])).1 = some sess') ∧
    (∀ e' ∈ (step c s ev).1.sessions,
      ∃ e ∈ s.sessions, e.1 = e'.1 ∧ e.2.1.keys = e'.2.1.keys ∧ e.2.1.oldKeys = e'.2.1.oldKeys) := by
  obtain ⟨dt, rfl⟩ := RQ.timeout_only_from_timer' c s ev rid h
  obtain ⟨hrt, hlive⟩ := step_adv_keeps_live c s dt
  refine ⟨hrt, fun na hn => ?_, step_adv_no_new_session c s dt⟩
  have := hlive na ((liveIn_iff c s [] na).2 hn)
  rw [← hrt] at this
  exact (liveIn_iff c _ [] na).1 this

/-- … and when the list holds one entry per node address (as it does in every reachable state,
`timeout_step_live_session_survives_run`): the live session with `na` is after the step still live
and still the same session — same keys, same previous keys; only its message counter, its stamp
and its place in the list may have changed (by requests released in the same step). -/
theorem timeout_step_live_session_survives (c : Cfg) (s : HState) (ev : Ev) (rid : Nat) (na : NA)
    (sess : Session) (hnd : (s.sessions.map (·.1)).Nodup)
    (h : Out.failed rid .timeout ∈ (step c s ev).2)
    (hs : ((sessGetMut c na).run (s, [])).1 = some sess) :
    ∃ sess', ((sessGetMut c na).run ((step c s ev).1, [])).1 = some sess' ∧
      sess'.keys = sess.keys ∧ sess'.oldKeys = sess.oldKeys := by
  obtain ⟨-, hlive, hkeys⟩ := timeout_step_keeps_live_sessions c s ev rid h
  obtain ⟨sess', hs'⟩ := hlive na ⟨sess, hs⟩
  refine ⟨sess', hs', ?_⟩
  obtain ⟨stamp, hf, -⟩ := (live_session_iff' c s [] na sess).1 hs
  obtain ⟨stamp', hf', -⟩ := (live_session_iff' c _ [] na sess').1 hs'
  obtain ⟨e, he, hk, h1, h2⟩ := hkeys _ (List.mem_of_find?_eq_some hf')
  have hpw : s.sessions.Pairwise (fun a b => a.1 ≠ b.1) := List.pairwise_map.1 hnd
  have : e = (na, sess, stamp) := Cr.entry_unique hpw he (List.mem_of_find?_eq_some hf) hk
  subst this
  exact ⟨h1.symm, h2.symm⟩

/-- The same along a history. -/
theorem timeout_step_live_session_survives_run (c : Cfg) (evs : List Ev) (ev : Ev) (rid : Nat) (na : NA)
    (sess : Session) (h : Out.failed rid .timeout ∈ (step c (run c evs) ev).2)
    (hs : ((sessGetMut c na).run (run c evs, [])).1 = some sess) :
    ∃ sess', ((sessGetMut c na).run (run c (evs ++ [ev]), [])).1 = some sess' ∧
      sess'.keys = sess.keys ∧ sess'.oldKeys = sess.oldKeys := by
  rw [RQ.run_snoc]
  exact timeout_step_live_session_survives c (run c evs) ev rid na sess (HI.invE c evs) h hs

/-! ### B. A response goes out exactly when there is a live session -/

/-- The application's response event is the model's `send_response`. -/
theorem appResponse_is_sendResponse (c : Cfg) (na : NA) (rid : Nat) (rb : RespBody) :
    stepM c (.appResponse na rid rb) = sendResponse c na rid rb := rfl

/-- A live session for `na`: the response is put on the wire — exactly one output is appended, a
datagram to `na`; it is a message packet under a fresh nonce whose ciphertext is sealed under the
*encryption key of that session*, with the session's next message counter and the response itself
as plaintext.  Besides, the nonce counter is bumped and the session entry is refreshed (part C);
nothing else changes. -/
theorem response_sent_under_live_session (c : Cfg) (s : HState) (os : List Out) (na : NA) (rid : Nat)
    (rb : RespBody) (sess : Session) (h : ((sessGetMut c na).run (s, os)).1 = some sess) :
    (sendResponse c na rid rb).run (s, os) =
      ((), ({ s with
              sessions := s.sessions.filter (·.1 != na) ++ [(na, { sess with counter := sess.counter + 1 }, s.rt)],
              fresh := { s.fresh with nonce := s.fresh.nonce + 1 } },
        os ++ [.send na (.message c.localId (mkName c (s.fresh.nonce + 1))
          (.enc sess.keys.enc (mkName c (s.fresh.nonce + 1)) (sess.counter + 1) (.response rid rb) true))])) :=
  sendResponse_live_run c na rid rb (s, os) sess h

/-- No live session for `na` (none at all, or one that has outlived the session timeout): the
response is dropped — no output whatsoever — and the only change of the state is that a stale entry
for `na`, if there was one, is gone. -/
theorem response_dropped_without_session (c : Cfg) (s : HState) (os : List Out) (na : NA) (rid : Nat)
    (rb : RespBody) (h : ((sessGetMut c na).run (s, os)).1 = none) :
    (sendResponse c na rid rb).run (s, os) =
      ((), ({ s with sessions := s.sessions.filter (·.1 != na) }, os)) :=
  sendResponse_none_run' c na rid rb (s, os) h

/-- One handler step, live session: the outputs of the step are exactly that one sealed packet. -/
theorem response_step_live (c : Cfg) (s : HState) (na : NA) (rid : Nat) (rb : RespBody) (sess : Session)
    (h : ((sessGetMut c na).run (s, [])).1 = some sess) :
    (step c s (.appResponse na rid rb)).2 =
      [.send na (.message c.localId (mkName c (s.fresh.nonce + 1))
        (.enc sess.keys.enc (mkName c (s.fresh.nonce + 1)) (sess.counter + 1) (.response rid rb) true))] := by
  rw [RQ.step_eq, appResponse_is_sendResponse, response_sent_under_live_session c s [] na rid rb sess h]
  rfl

/-- One handler step, no live session: the step has no outputs. -/
theorem response_step_no_session (c : Cfg) (s : HState) (na : NA) (rid : Nat) (rb : RespBody)
    (h : ((sessGetMut c na).run (s, [])).1 = none) :
    (step c s (.appResponse na rid rb)).2 = [] ∧
    (step c s (.appResponse na rid rb)).1 = { s with sessions := s.sessions.filter (·.1 != na) } := by
  rw [RQ.step_eq, appResponse_is_sendResponse, response_dropped_without_session c s [] na rid rb h]
  exact ⟨rfl, rfl⟩

/-- Both directions in one: the step for the application's response sends something — indeed
outputs anything at all — if and only if there is a live session for the destination. -/
theorem response_sent_iff_live_session (c : Cfg) (s : HState) (na : NA) (rid : Nat) (rb : RespBody) :
    ((∃ p, Out.send na p ∈ (step c s (.appResponse na rid rb)).2) ↔
      ∃ sess, ((sessGetMut c na).run (s, [])).1 = some sess) ∧
    ((step c s (.appResponse na rid rb)).2 ≠ [] ↔
      ∃ sess, ((sessGetMut c na).run (s, [])).1 = some sess) := by
  cases hs : ((sessGetMut c na).run (s, [])).1 with
  | none =>
    rw [(response_step_no_session c s na rid rb hs).1]
    refine ⟨⟨?_, ?_⟩, ⟨fun h => absurd rfl h, ?_⟩⟩
    · rintro ⟨_, h⟩; cases h
    · rintro ⟨_, h⟩; cases h
    · rintro ⟨_, h⟩; cases h
  | some sess =>
    rw [response_step_live c s na rid rb sess hs]
    refine ⟨⟨fun _ => ⟨sess, rfl⟩, fun _ => ⟨_, List.mem_singleton.2 rfl⟩⟩, ⟨fun _ => ⟨sess, rfl⟩, ?_⟩⟩
    intro _ h; cases h

/-! ### C. Answering is a use of the session -/

/-- In the live case the session list after the step is: all entries of the other node addresses, in
their old order and with their old stamps, followed by the entry of `na` — the session with its
message counter bumped — stamped with the current real-time clock. -/
theorem answering_refreshes_session (c : Cfg) (s : HState) (na : NA) (rid : Nat) (rb : RespBody)
    (sess : Session) (h : ((sessGetMut c na).run (s, [])).1 = some sess) :
    (step c s (.appResponse na rid rb)).1.sessions =
      s.sessions.filter (·.1 != na) ++ [(na, { sess with counter := sess.counter + 1 }, s.rt)] := by
  rw [RQ.step_eq, appResponse_is_sendResponse, response_sent_under_live_session c s [] na rid rb sess h]

/-- … so the entry of `na` is the most recently used one: it sits at the back of the list, with
stamp `s.rt`, and it is the only entry for `na`. -/
theorem answering_makes_most_recently_used (c : Cfg) (s : HState) (na : NA) (rid : Nat) (rb : RespBody)
    (sess : Session) (h : ((sessGetMut c na).run (s, [])).1 = some sess) :
    (step c s (.appResponse na rid rb)).1.sessions.getLast? =
      some (na, { sess with counter := sess.counter + 1 }, s.rt) ∧
    (∀ e ∈ (step c s (.appResponse na rid rb)).1.sessions.dropLast, e.1 ≠ na) := by
  rw [answering_refreshes_session c s na rid rb sess h]
  refine ⟨by simp, ?_⟩
  rw [List.dropLast_concat]
  exact AT.gone_filter na s.sessions

/-- The same in the vocabulary of the cache model (`Model/Lru.lean`, `Props/C15Handler.lean`): on the
session cache the step for the application's response is `LruTimeCache::get_mut` at the real-time
clock, the handed-out reference being used to bump the message counter — with or without a live
session (without one, `get_mut` hands out nothing and at most drops the stale entry). -/
theorem answering_is_get_mut (c : Cfg) (s : HState) (na : NA) (rid : Nat) (rb : RespBody) :
    toCache c (step c s (.appResponse na rid rb)).1 =
      (Lru.getMutWith (toCache c s) s.rt na (fun v => { v with counter := v.counter + 1 })).1 := by
  rw [RQ.step_eq, appResponse_is_sendResponse]
  exact sendResponse_refines c na rid rb s []

/-! ### D. A request that is only queued does not touch the session -/

/-- `send_request` first refuses requests to the node's own socket, then tests for an outstanding
WHOAREYOU challenge to the destination, and only if there is none looks at the session
(`is_awaiting_session`, a `get_mut` of the cache).  In the situation "not to self, challenge
outstanding" the call returns without error, appends the request to the pending queue and changes
nothing else — the session list, order and stamps included, is untouched — and outputs nothing. -/
theorem queued_request_exact (c : Cfg) (contact : Contact) (rid : Nat) (internal : Bool) (body : Nat)
    (s : HState) (os : List Out) (hself : c.listen.contains contact.na.addr = false)
    (hch : s.challenges.any (·.1 == contact.na) = true) :
    (sendRequest c contact rid internal body).run (s, os) =
      (none, ({ s with pending := pushPending s.pending contact rid internal body }, os)) :=
  sendRequest_challenge_run c contact rid internal body (s, os) hself hch

/-- … spelled out: same session list, no output, and the queue kept for the destination is the old
one with the request appended. -/
theorem queued_request_leaves_sessions (c : Cfg) (contact : Contact) (rid : Nat) (internal : Bool)
    (body : Nat) (s : HState) (os : List Out) (hself : c.listen.contains contact.na.addr = false)
    (hch : s.challenges.any (·.1 == contact.na) = true) :
    ((sendRequest c contact rid internal body).run (s, os)).1 = none ∧
    ((sendRequest c contact rid internal body).run (s, os)).2.1.sessions = s.sessions ∧
    ((sendRequest c contact rid internal body).run (s, os)).2.2 = os ∧
    queuedFor ((sendRequest c contact rid internal body).run (s, os)).2.1 contact.na =
      queuedFor s contact.na ++ [{ contact := contact, rid := rid, internal := internal, body := body }] := by
  rw [queued_request_exact c contact rid internal body s os hself hch]
  exact ⟨rfl, rfl, rfl, queuedFor_pushPending s contact rid internal body⟩

/-- One handler step for the application's request in that situation: no outputs (nothing is sent,
nothing is reported), and the state differs only in the pending queue. -/
theorem queued_request_step (c : Cfg) (contact : Contact) (rid body : Nat) (s : HState)
    (hself : c.listen.contains contact.na.addr = false)
    (hch : s.challenges.any (·.1 == contact.na) = true) :
    (step c s (.appRequest contact rid body)).2 = [] ∧
    (step c s (.appRequest contact rid body)).1 =
      { s with pending := pushPending s.pending contact rid false body } ∧
    (step c s (.appRequest contact rid body)).1.sessions = s.sessions := by
  have h : (stepM c (.appRequest contact rid body)).run (s, []) =
      ((), ({ s with pending := pushPending s.pending contact rid false body }, [])) := by
    simp only [stepM, run_bind, queued_request_exact c contact rid false body s [] hself hch, run_pure]
  rw [RQ.step_eq, h]
  exact ⟨rfl, rfl, rfl⟩

/-! ### Non-vacuity, and the counterexample of part A -/
namespace C15UseEx

/-- One transmission per request, 10 ms request timeout, 1000 ms session timeout. -/
def uCfg : Cfg where
  localId := 1
  localSeq := 1
  localRec := { id := 1, seq := 1, udp4 := some 100, udp6 := none }
  requestRetries := 1
  requestTimeout := 10
  sessionTtl := 1000
  sessionCap := 8
  listen := [⟨false, 100⟩]
  findnode0 := 0

def uB : NA := { id := 2, addr := ⟨false, 7⟩ }
def uC : NA := { id := 3, addr := ⟨false, 8⟩ }
def uRecB : Rec := { id := 2, seq := 1, udp4 := some 7, udp6 := none }
def uCtB : Contact := { na := uB, record := some uRecB }
def uCtC : Contact := { na := uC, record := some { id := 3, seq := 1, udp4 := some 8, udp6 := none } }
/-- the keys of the session the handshake below creates with B -/
def uKeys : Keys :=
  { enc := { eph := 1000001, cd := 500, ini := 1, rcp := 2, toRcp := true },
    dec := { eph := 1000001, cd := 500, ini := 1, rcp := 2, toRcp := false } }

/-- A request to B, B challenges it, the handshake packet goes out: a session with B (stamp 0), and
request 7 is still unanswered (timer at 10). -/
def uOne : List Ev := [.appRequest uCtB 7 5, .dgram uB.addr (.whoareyou 1000001 500 0)]

example : (run uCfg uOne).sessions = [(uB, { keys := uKeys }, 0)] ∧ (run uCfg uOne).challenges = [] ∧
    (run uCfg uOne).active.map (fun cl => (cl.rid, cl.retries, cl.deadline)) = [(7, 1, 10)] := by
  decide +kernel

/-- A. Request 7 to B times out (hypothesis of `timeout_step_keeps_sessions_partial`, no challenge is
open): the failure is reported and the session with B — the very peer that did not answer — is still
there, same stamp. -/
example : (step uCfg (run uCfg uOne) (.adv 10)).2 = [.failed 7 .timeout] ∧
    (step uCfg (run uCfg uOne) (.adv 10)).1.sessions = [(uB, { keys := uKeys }, 0)] := by
  decide +kernel

/-- The hypotheses of `request_timeout_exhausted` / `request_timeout_reports_and_keeps_entries` on the
call whose timer fires there. -/
def uCall : Call :=
  { contact := uCtB, pkt := .message 1 1000009 .garbage, rid := 7, internal := false, body := 5,
    initiating := false, deadline := 10 }
example : uCall.retries ≥ uCfg.requestRetries ∧ uCall.internal = false ∧
    ((handleRequestTimeout uCfg uCall).run ({ sessions := [(uB, { keys := uKeys }, 0)] }, [])).2.2 =
      [.failed 7 .timeout] := by decide

/-- The response of B to request 7 arrives; 3 ms (real time) later the application asks for a
WHOAREYOU to B, then issues request 8 to B — queued behind that challenge — and request 9 to C. -/
def uPre : List Ev :=
  uOne ++ [.dgram uB.addr (.message 2 55 (.enc uKeys.dec 55 1 (.response 7 (.other 0)) true)),
    .rtAdv 3, .appWru uB 77 (some uRecB), .appRequest uCtB 8 5, .appRequest uCtC 9 5]

/-- **Counterexample** to "a step that reports a timeout leaves the session list as it is": at time
10 request 9 (to C) times out *and* the challenge to B expires; the latter releases request 8, which
is sent under the session with B.  The step reports `failed 9 timeout`, and the entry of B has
changed: stamp 0 → 3, message counter 0 → 1.  (The proviso of `timeout_step_keeps_sessions_partial`
fails: the challenge's deadline 10 is within the step.)  The session itself — its keys — is the same
and still live, as `timeout_step_live_session_survives` says. -/
example : Out.failed 9 .timeout ∈ (step uCfg (run uCfg uPre) (.adv 10)).2 ∧
    (run uCfg uPre).sessions = [(uB, { keys := uKeys }, 0)] ∧
    (step uCfg (run uCfg uPre) (.adv 10)).1.sessions = [(uB, { keys := uKeys, counter := 1 }, 3)] ∧
    (run uCfg uPre).challenges.map (fun e => (e.1, e.2.2.1)) = [(uB, 10)] := by
  decide +kernel

/-- B. A live session with B (hypothesis of `response_sent_under_live_session` / `response_step_live`):
the response goes out sealed under the session's encryption key … -/
example : ((sessGetMut uCfg uB).run (run uCfg uOne, [])).1 = some { keys := uKeys } ∧
    (step uCfg (run uCfg uOne) (.appResponse uB 4 (.other 0))).2 =
      [.send uB (.message 1 1000003 (.enc uKeys.enc 1000003 1 (.response 4 (.other 0)) true))] := by
  decide +kernel

/-- … no session with C (hypothesis of `response_dropped_without_session`): nothing happens; and
1001 ms after its last use the session with B is no longer live either: the response is dropped and
the stale entry is gone. -/
example : ((sessGetMut uCfg uC).run (run uCfg uOne, [])).1 = none ∧
    (step uCfg (run uCfg uOne) (.appResponse uC 4 (.other 0))).2 = [] ∧
    ((sessGetMut uCfg uB).run (run uCfg (uOne ++ [.rtAdv 1001]), [])).1 = none ∧
    (step uCfg (run uCfg (uOne ++ [.rtAdv 1001])) (.appResponse uB 4 (.other 0))).2 = [] ∧
    (step uCfg (run uCfg (uOne ++ [.rtAdv 1001])) (.appResponse uB 4 (.other 0))).1.sessions = [] := by
  decide +kernel

/-- C. Two sessions, B used at 0 and C used at 2; at real time 5 a response to B is sent: B moves
behind C and is stamped 5. -/
def uTwo : HState :=
  { sessions := [(uB, { keys := uKeys }, 0), (uC, { keys := uKeys }, 2)], rt := 5 }
example : (step uCfg uTwo (.appResponse uB 4 (.other 0))).1.sessions.map (fun e => (e.1, e.2.2)) =
    [(uC, 2), (uB, 5)] := by decide

/-- D. A challenge to B is open and the list holds a *stale* entry for B (last use 2000 ms ago).  A
request to B (hypotheses of `queued_request_exact`) is queued, nothing is sent, and the session list
is not even looked at: the stale entry is still there … -/
def uStale : HState :=
  { sessions := [(uB, { keys := uKeys }, 0)], rt := 2000,
    challenges := [(uB, { cd := 9, remoteRec := some uRecB }, 10, 0)] }
example : uCfg.listen.contains uCtB.na.addr = false ∧ uStale.challenges.any (·.1 == uCtB.na) = true ∧
    (step uCfg uStale (.appRequest uCtB 8 5)).2 = [] ∧
    (step uCfg uStale (.appRequest uCtB 8 5)).1.sessions = uStale.sessions ∧
    (step uCfg uStale (.appRequest uCtB 8 5)).1.pending.map (fun e => (e.1, e.2.map (·.rid))) = [(uB, [8])] := by
  decide

/-- … whereas without the open challenge the same request does go through the session lookup, which
drops the stale entry, and a handshake is started with a random packet. -/
example : (step uCfg { uStale with challenges := [] } (.appRequest uCtB 8 5)).1.sessions = [] ∧
    (step uCfg { uStale with challenges := [] } (.appRequest uCtB 8 5)).2 =
      [.send uB (.message 1 1000001 .garbage)] := by decide

end C15UseEx

end Discv5.H

/-
C07 — Routing-table structural invariants.
Property theorems only (helper lemmas live in `Proofs/KBucketLemmas.lean`).  The numbers 16 and
256 are the literals of the property statement; the model uses the regenerated constants.
All theorems hold for every bucket filter, table filter, incoming limit, pending timeout, `now`.
-/
import Discv5Model.Proofs.KBucketLemmas

namespace Discv5.KB

variable {V : Type} [DecidableEq V]

/-- The empty table satisfies the invariant. -/
theorem init_inv (c : Cfg V) (localKey : Nat) : TInv c (Table.init localKey : Table V) := by
  sorry

/-- Every table operation preserves the invariant (for every `now`, every argument). -/
theorem step_inv (c : Cfg V) (t : Table V) (op : Op V) (h : TInv c t) : TInv c (t.step c op) := by
  sorry

/-- After any sequence of routing-table operations and any passage of time the invariant holds:
no bucket holds more than 16 nodes; `first_connected_pos` is consistent; disconnected nodes
precede connected ones, each group ordered by last status report; no id twice per bucket
(pending slot included); connected incoming nodes within the limit; every node in the bucket of
its log2 distance. -/
theorem reachable_inv (c : Cfg V) (localKey : Nat) (ops : List (Op V)) :
    TInv c (ops.foldl (Table.step c) (Table.init localKey)) := by
  sorry

/-- No node id occurs twice in the whole table (pending slots included) and the local id is
never stored. -/
theorem global_unique (c : Cfg V) (t : Table V) (h : TInv c t) :
    t.allKeys.Nodup ∧ t.localKey ∉ t.allKeys := by
  sorry

/-- The `unreachable!()` arms are unreachable: under the invariant no operation panics. -/
theorem no_panic (c : Cfg V) (t : Table V) (h : TInv c t) (now key : Nat) (v : V) (st : Status)
    (s : Option Bool) (conn : Bool) (dir : Option Bool) :
    (t.insertOrUpdate c now key v st).2 ≠ .panic ∧ (t.updateNode c now key v s).2 ≠ .panic ∧
    (t.updateNodeStatus c now key conn dir).2 ≠ .panic := by
  sorry

/-- Pending semantics, part 1: a pending node enters a full bucket only after its timeout, and
only by evicting the first node of the bucket (the least-recently-active one), which is
disconnected. -/
theorem pending_enters_full_bucket (c : Cfg V) (tick now : Nat) (b : Bucket V) (p : Pending V)
    (a : Applied) (hinv : BInv c tick b) (hp : b.pending = some p) (hfull : b.nodes.length = 16)
    (ha : (b.applyPending c now tick).2 = some a) :
    p.replace ≤ now ∧ a.inserted = p.node.key ∧
    ∃ n0 rest, b.nodes = n0 :: rest ∧ n0.st.conn = false ∧ a.evicted = some n0.key ∧
      (∀ n ∈ rest, n ∈ (b.applyPending c now tick).1.nodes) ∧
      (∃ n ∈ (b.applyPending c now tick).1.nodes, n.key = p.node.key) ∧
      n0.key ∉ (b.applyPending c now tick).1.nodes.map (·.key) := by
  sorry

/-- Pending semantics, part 2: before the timeout nothing changes. -/
theorem pending_waits (c : Cfg V) (tick now : Nat) (b : Bucket V) (p : Pending V)
    (hp : b.pending = some p) (hnot : now < p.replace) :
    b.applyPending c now tick = (b, none) := by
  sorry

/-- Pending semantics, part 3: the pending node is discarded if the least-recently-active node
(position 0) reports a connection first. -/
theorem pending_discarded_on_reconnect (c : Cfg V) (tick now : Nat) (b : Bucket V) (n0 : Node V)
    (rest : List (Node V)) (dir : Option Bool) (hn : b.nodes = n0 :: rest)
    (hinv : BInv c tick b) :
    (b.updateStatus c now tick n0.key true dir).1.pending = none := by
  sorry

end Discv5.KB

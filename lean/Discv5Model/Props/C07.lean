/-
C07 — Routing-table structural invariants.
Property theorems only (helper lemmas live in `Proofs/KBucketLemmas.lean`).  The numbers 16 and
256 are the literals of the property statement; the model uses the regenerated constants.
All theorems hold for every bucket filter, table filter, incoming limit, pending timeout, `now`.
-/
import Discv5Model.Proofs.KBucketLemmas

namespace Discv5.KB

variable {V : Type} [DecidableEq V]
set_option linter.unusedSectionVars false

/-- The empty table satisfies the invariant. -/
theorem init_inv (c : Cfg V) (localKey : Nat) : TInv c (Table.init localKey : Table V) := by
  exact init_tinv c localKey

/-- Every table operation preserves the invariant (for every `now`, every argument). -/
theorem step_inv (c : Cfg V) (t : Table V) (op : Op V) (h : TInv c t) : TInv c (t.step c op) := by
  exact step_tinv c t op h

/-- After any sequence of routing-table operations and any passage of time the invariant holds:
no bucket holds more than 16 nodes; `first_connected_pos` is consistent; disconnected nodes
precede connected ones, each group ordered by last status report; no id twice per bucket
(pending slot included); connected incoming nodes within the limit; every node in the bucket of
its log2 distance. -/
theorem reachable_inv (c : Cfg V) (localKey : Nat) (ops : List (Op V)) :
    TInv c (ops.foldl (Table.step c) (Table.init localKey)) := by
  exact foldl_step_tinv c ops _ (init_tinv c localKey)

/-- No node id occurs twice in the whole table (pending slots included) and the local id is
never stored. -/
theorem global_unique (c : Cfg V) (t : Table V) (h : TInv c t) :
    t.allKeys.Nodup ∧ t.localKey ∉ t.allKeys := by
  exact tinv_global_unique h

/-- The `unreachable!()` arms are unreachable: under the invariant no operation panics. -/
theorem no_panic (c : Cfg V) (t : Table V) (h : TInv c t) (now key : Nat) (v : V) (st : Status)
    (s : Option Bool) (conn : Bool) (dir : Option Bool) :
    (t.insertOrUpdate c now key v st).2 ≠ .panic ∧ (t.updateNode c now key v s).2 ≠ .panic ∧
    (t.updateNodeStatus c now key conn dir).2 ≠ .panic := by
  exact ⟨insertOrUpdate_ne_panic h, updateNode_ne_panic h, updateNodeStatus_ne_panic h⟩

/-- Pending semantics, part 1: a pending node enters a full bucket only after its timeout, and
only by evicting the first node of the bucket (the least-recently-active one), which is
disconnected. -/
theorem pending_enters_full_bucket (c : Cfg V) (tick now : Nat) (b : Bucket V) (p : Pending V)
    (a : Applied) (hinv : BInv c tick b) (hp : b.pending = some p) (hfull : b.nodes.length = 16)
    (ha : (b.applyPending c now tick).2 = some a) :
    p.replace ≤ now ∧ a.inserted = p.node.key ∧
    ∃ n0 rest, b.nodes = n0 :: rest ∧ n0.st.conn = false ∧ a.evicted = some n0.key ∧
      (∀ n ∈ rest, n ∈ (b.applyPending c now tick).1.nodes) ∧
      (∃ n ∈ (b.applyPending c now tick).1.nodes, n.key = p.node.key) ∧
      n0.key ∉ (b.applyPending c now tick).1.nodes.map (·.key) := by
  rcases applyPending_cases c now tick b with ⟨hr, _⟩ | ⟨p', _, _, hr⟩ |
    ⟨p', n0, rest, hp', hrep, _, hnodes, h0, _, h2, _, hshape⟩ | ⟨p', _, _, hnf, _, _⟩
  · rw [hr] at ha; cases ha
  · rw [hr] at ha; cases ha
  · rw [hp] at hp'
    cases hp'
    rw [h2] at ha
    cases ha
    have hperm := hshape.perm
    have hfresh := hinv.pendingFresh p hp
    have hnd := hinv.keysNodup
    rw [hnodes] at hfresh hnd
    simp only [List.map_cons, List.mem_cons, not_or, List.nodup_cons] at hfresh hnd
    refine ⟨hrep, rfl, n0, rest, hnodes, h0, rfl, ?_, ?_, ?_⟩
    · intro n hn
      exact hperm.mem_iff.2 (List.mem_cons_of_mem _ hn)
    · exact ⟨_, hperm.mem_iff.2 (List.mem_cons_self ..), rfl⟩
    · rw [(hperm.map (·.key)).mem_iff]
      simp only [List.map_cons, List.mem_cons, not_or]
      exact ⟨fun e => hfresh.1 e.symm, hnd.1⟩
  · have := isFull_false_iff.1 hnf
    omega

/-- Pending semantics, part 2: before the timeout nothing changes. -/
theorem pending_waits (c : Cfg V) (tick now : Nat) (b : Bucket V) (p : Pending V)
    (hp : b.pending = some p) (hnot : now < p.replace) :
    b.applyPending c now tick = (b, none) := by
  unfold Bucket.applyPending
  rw [hp]
  simp only
  rw [if_neg (by omega)]

/-- Pending semantics, part 3: the pending node is discarded if the least-recently-active node
(position 0) reports a connection first. -/
theorem pending_discarded_on_reconnect (c : Cfg V) (tick now : Nat) (b : Bucket V) (n0 : Node V)
    (rest : List (Node V)) (dir : Option Bool) (hn : b.nodes = n0 :: rest)
    (hinv : BInv c tick b) :
    (b.updateStatus c now tick n0.key true dir).1.pending = none := by
  exact updateStatus_head_pending hn hinv

/-- Writing a bucket back unchanged changes nothing. -/
theorem setBucket_bucket_self (t : Table V) (i : Nat) : t.setBucket i (t.bucket i) = t := by
  cases t with
  | mk lk bs ap tk =>
    simp only [Table.setBucket, Table.bucket, Table.mk.injEq, true_and, and_true]
    by_cases h : i < bs.length
    · rw [List.getD_eq_getElem?_getD, List.getElem?_eq_getElem h]
      simp
    · rw [List.set_eq_of_length_le (by omega)]

/-- Pending semantics, part 4: removing a key that is not stored is a read.  `KBucketsTable::remove`
of an id that is not among the bucket's nodes (never inserted, removed before, or the parked
candidate's own id) does to the table exactly what looking the key up does (`entry`: the bucket's
pending node is applied if - and only if - it is due) and reports `false`; in particular it does not
touch the pending node's deadline. -/
theorem remove_of_absent_key_is_a_read (c : Cfg V) (now : Nat) (t : Table V) (key : Nat)
    (h : ∀ i, bucketIndex t.bump.localKey key = some i →
      ((Table.applyAt c now t.bump i).bucket i).position key = none) :
    t.remove c now key = (t.entryTouch c now key, false) := by
  unfold Table.remove Table.entryTouch
  simp only
  cases hi : bucketIndex t.bump.localKey key with
  | none => rfl
  | some i =>
    simp only
    have hp := h i hi
    simp only [Bucket.remove, hp, setBucket_bucket_self]

/-! ### Non-vacuity: concrete reachable data satisfying the hypotheses -/

/-- limits 8 / 60, both filters accept everything -/
def c07Cfg : Cfg Nat :=
  { maxIncoming := 8, pendingTimeout := 60, bucketFilter := fun _ _ => true,
    tableFilter := fun _ _ => true }

/-- local id 0; sixteen disconnected nodes with ids 32 … 47 (all at log2 distance 5) fill bucket 5,
then a connected incoming node with id 48 arrives at time 1 and becomes pending. -/
def c07Ops : List (Op Nat) :=
  (List.range 16).map (fun k => Op.insertOrUpdate 0 (32 + k) k ⟨false, false⟩) ++
    [Op.insertOrUpdate 1 48 99 ⟨true, true⟩]

def c07Table : Table Nat := c07Ops.foldl (Table.step c07Cfg) (Table.init 0)

/-- The hypothesis of `global_unique` / `no_panic` holds for a table with 17 ids. -/
example : TInv c07Cfg c07Table ∧ c07Table.allKeys.length = 17 :=
  ⟨reachable_inv c07Cfg 0 c07Ops, by decide +kernel⟩

/-- All hypotheses of `pending_enters_full_bucket` hold at time 100: id 48 replaces id 32. -/
example : ∃ (p : Pending Nat) (a : Applied), BInv c07Cfg c07Table.tick (c07Table.bucket 5) ∧
    (c07Table.bucket 5).pending = some p ∧ (c07Table.bucket 5).nodes.length = 16 ∧
    ((c07Table.bucket 5).applyPending c07Cfg 100 c07Table.tick).2 = some a ∧
    a = ⟨48, some 32⟩ := by
  obtain ⟨p, hp⟩ := Option.isSome_iff_exists.1
    (by decide +kernel : (c07Table.bucket 5).pending.isSome = true)
  exact ⟨p, ⟨48, some 32⟩, (reachable_inv c07Cfg 0 c07Ops).buckets 5 (by decide), hp,
    by decide +kernel, by decide +kernel, rfl⟩

/-- The hypotheses of `pending_waits` hold at time 10 (the pending node may enter at 61). -/
example : ∃ p, (c07Table.bucket 5).pending = some p ∧ 10 < p.replace := by
  have h : (c07Table.bucket 5).pending.map (·.replace) = some 61 := by decide +kernel
  cases hp : (c07Table.bucket 5).pending with
  | none => rw [hp] at h; cases h
  | some p =>
    rw [hp] at h
    simp only [Option.map_some, Option.some.injEq] at h
    exact ⟨p, rfl, by omega⟩

/-- The hypotheses of `pending_discarded_on_reconnect` hold with a pending node present. -/
example : ∃ n0 rest, (c07Table.bucket 5).nodes = n0 :: rest ∧
    BInv c07Cfg c07Table.tick (c07Table.bucket 5) ∧ (c07Table.bucket 5).pending.isSome = true := by
  have hl : (c07Table.bucket 5).nodes.length = 16 := by decide +kernel
  cases hn : (c07Table.bucket 5).nodes with
  | nil => rw [hn] at hl; cases hl
  | cons n0 rest =>
    exact ⟨n0, rest, rfl, (reachable_inv c07Cfg 0 c07Ops).buckets 5 (by decide), by decide +kernel⟩


/-- `remove_of_absent_key_is_a_read` on the table above: id 49 belongs to the full bucket 5 and is not stored;
removing it at time 2 reports `false`, keeps all sixteen nodes and leaves the parked node 48 parked. -/
example : (c07Table.remove c07Cfg 2 49).2 = false ∧
    ((c07Table.remove c07Cfg 2 49).1.bucket 5).nodes.length = 16 ∧
    (((c07Table.remove c07Cfg 2 49).1.bucket 5).pending.map (·.node.key)) = some 48 ∧
    (((c07Table.remove c07Cfg 2 49).1.bucket 5).pending.map (·.replace)) =
      ((c07Table.bucket 5).pending.map (·.replace)) := by
  decide +kernel

end Discv5.KB

/-
C08 — Closest-node and distance lookups are exact.
Property theorems only (helper lemmas live in `Proofs/ClosestLemmas.lean`).
-/
import Discv5Model.Proofs.ClosestLemmas
import Discv5Model.Proofs.KBucketLemmas

namespace Discv5.KB

variable {V : Type} [DecidableEq V]

/-- The closest-buckets iterator visits every bucket exactly once, for every distance. -/
theorem bucketOrder_perm (d : Nat) (h : d < 2 ^ 256) : (bucketOrder d).Perm (List.range 256) := by
  rw [bucketOrder_eq_closed d h]
  exact closedOrder_perm d h

/-- Iterating by closeness yields nodes in strictly increasing XOR distance to the target. -/
theorem closest_sorted (c : Cfg V) (now : Nat) (t : Table V) (target : Nat) (h : TInv c t)
    (hl : t.localKey < 2 ^ 256) (ht : target < 2 ^ 256) :
    (t.closest c now target).2.Pairwise (fun a b => (a.key ^^^ target) < (b.key ^^^ target)) := by
  exact closest_sorted_aux c now t target (applyAt_inv c now) h hl ht

/-- … and yields every stored node exactly once (the table after the lazily applied pending
nodes). -/
theorem closest_complete (c : Cfg V) (now : Nat) (t : Table V) (target : Nat) (h : TInv c t)
    (hl : t.localKey < 2 ^ 256) (ht : target < 2 ^ 256) :
    (t.closest c now target).2.Perm (t.closest c now target).1.allNodes := by
  exact closest_complete_aux c now t target (applyAt_inv c now) h hl ht

/-- … i.e. exactly the sorted full scan. -/
theorem closest_eq_sorted_scan (c : Cfg V) (now : Nat) (t : Table V) (target : Nat) (h : TInv c t)
    (hl : t.localKey < 2 ^ 256) (ht : target < 2 ^ 256) :
    (t.closest c now target).2.map (·.key) =
      ((t.closest c now target).1.allNodes.map (·.key)).mergeSort
        (fun a b => decide ((a ^^^ target) ≤ (b ^^^ target))) := by
  exact closest_eq_sorted_scan_aux c now t target (applyAt_inv c now) h hl ht

/-- The predicate variant yields the same sequence with correct match flags. -/
theorem closestPred_spec (c : Cfg V) (now : Nat) (t : Table V) (target : Nat) (pred : V → Bool) :
    (t.closestPred c now target pred).2.map (·.1) = (t.closest c now target).2 ∧
    ∀ x ∈ (t.closestPred c now target pred).2, x.2 = pred x.1.value := by
  rw [closestPred_snd]
  constructor
  · rw [List.map_map]
    exact List.map_id _
  · intro x hx
    rw [List.mem_map] at hx
    obtain ⟨n, _, rfl⟩ := hx
    rfl

/-- A lookup by distinct log2 distances returns only nodes at those distances, nothing for
distances outside 1..256, all of them when they are fewer than the cap and exactly `maxNodes`
otherwise. -/
theorem nodesByDistances_exact (c : Cfg V) (now : Nat) (t : Table V) (ds : List Nat) (maxNodes : Nat)
    (h : TInv c t) (hd : ds.Nodup) (hm : 1 ≤ maxNodes) :
    let r := t.nodesByDistances c now ds maxNodes
    let want := (ds.filter (fun d => 1 ≤ d ∧ d ≤ 256)).flatMap (fun d => (r.1.bucket (d - 1)).nodes)
    (∀ n ∈ r.2, ∃ d ∈ ds, 1 ≤ d ∧ d ≤ 256 ∧ bucketIndex t.localKey n.key = some (d - 1)) ∧
    r.2 = want.take maxNodes ∧ (r.2.map (·.key)).Nodup := by
  exact nodesByDistances_aux c now t ds maxNodes (applyAt_inv c now) h hd hm

end Discv5.KB

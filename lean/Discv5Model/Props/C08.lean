/-
C08 — Closest-node and distance lookups are exact.
Property theorems only (helper lemmas live in `Proofs/ClosestLemmas.lean`; that the lazily applied
pending nodes preserve the table invariant is `applyAt_inv` of `Proofs/KBucketLemmas.lean`).
-/
import Discv5Model.Proofs.ClosestLemmas
import Discv5Model.Proofs.KBucketLemmas

namespace Discv5.KB

variable {V : Type} [DecidableEq V]

/-- The closest-buckets iterator visits every bucket exactly once, for every distance. -/
theorem bucketOrder_perm (d : Nat) (h : d < 2 ^ 256) : (bucketOrder d).Perm (List.range 256) := by
  rw [bucketOrder_eq_closed d h]
  exact closedOrder_perm d h

/-- Iterating by closeness yields nodes in strictly increasing XOR distance to the target. -/
theorem closest_sorted (c : Cfg V) (now : Nat) (t : Table V) (target : Nat) (h : TInv c t)
    (hl : t.localKey < 2 ^ 256) (ht : target < 2 ^ 256) :
    (t.closest c now target).2.Pairwise (fun a b => (a.key ^^^ target) < (b.key ^^^ target)) := by
  exact closest_sorted_aux c now t target (applyAt_inv c now) h hl ht

/-- … and yields every stored node exactly once (the table after the lazily applied pending
nodes). -/
theorem closest_complete (c : Cfg V) (now : Nat) (t : Table V) (target : Nat) (h : TInv c t)
    (hl : t.localKey < 2 ^ 256) (ht : target < 2 ^ 256) :
    (t.closest c now target).2.Perm (t.closest c now target).1.allNodes := by
  exact closest_complete_aux c now t target (applyAt_inv c now) h hl ht

/-- … i.e. exactly the sorted full scan. -/
theorem closest_eq_sorted_scan (c : Cfg V) (now : Nat) (t : Table V) (target : Nat) (h : TInv c t)
    (hl : t.localKey < 2 ^ 256) (ht : target < 2 ^ 256) :
    (t.closest c now target).2.map (·.key) =
      ((t.closest c now target).1.allNodes.map (·.key)).mergeSort
        (fun a b => decide ((a ^^^ target) ≤ (b ^^^ target))) := by
  exact closest_eq_sorted_scan_aux c now t target (applyAt_inv c now) h hl ht

omit [DecidableEq V] in
/-- The predicate variant yields the same sequence with correct match flags. -/
theorem closestPred_spec (c : Cfg V) (now : Nat) (t : Table V) (target : Nat) (pred : V → Bool) :
    (t.closestPred c now target pred).2.map (·.1) = (t.closest c now target).2 ∧
    ∀ x ∈ (t.closestPred c now target pred).2, x.2 = pred x.1.value := by
  rw [closestPred_snd]
  constructor
  · rw [List.map_map]
    exact List.map_id _
  · intro x hx
    rw [List.mem_map] at hx
    obtain ⟨n, _, rfl⟩ := hx
    rfl

/-- A lookup by distinct log2 distances returns only nodes at those distances, nothing for
distances outside 1..256, all of them when they are fewer than the cap and exactly `maxNodes`
otherwise. -/
theorem nodesByDistances_exact (c : Cfg V) (now : Nat) (t : Table V) (ds : List Nat) (maxNodes : Nat)
    (h : TInv c t) (hd : ds.Nodup) (hm : 1 ≤ maxNodes) :
    let r := t.nodesByDistances c now ds maxNodes
    let want := (ds.filter (fun d => 1 ≤ d ∧ d ≤ 256)).flatMap (fun d => (r.1.bucket (d - 1)).nodes)
    (∀ n ∈ r.2, ∃ d ∈ ds, 1 ≤ d ∧ d ≤ 256 ∧ bucketIndex t.localKey n.key = some (d - 1)) ∧
    r.2 = want.take maxNodes ∧ (r.2.map (·.key)).Nodup := by
  exact nodesByDistances_aux c now t ds maxNodes (applyAt_inv c now) h hd hm

/-! ### Non-vacuity: the hypotheses are satisfiable by a non-empty table, and the iterator order
is the expected one on a concrete distance (start at the top bit, zoom in over the set bits,
zoom out over the clear bits). -/


example : (bucketOrder 0b1010).take 6 = [3, 1, 0, 2, 4, 5] := by decide

/-- A connected outgoing node. -/
def c08Node (key : Nat) : Node Nat :=
  { key := key, value := 10 * key, st := { conn := true, incoming := false } }

/-- Local id 8 with the nodes 9 (distance 1, bucket 0) and 3 (distance 11, bucket 3). -/
def c08Table : Table Nat :=
  ((Table.init 8).setBucket 0 { nodes := [c08Node 9], fcp := some 0 }).setBucket 3
    { nodes := [c08Node 3], fcp := some 0 }

theorem c08Bucket_binv (c : Cfg Nat) (tick key : Nat) :
    BInv c tick { nodes := [c08Node key], fcp := some 0 } :=
  { len := by simp
    split := ⟨[], [c08Node key], rfl, by simp, by simp [c08Node], by simp, by simp, by simp⟩
    keysNodup := by simp
    pendingFresh := by simp
    incoming := by simp [c08Node]
    stampsLe := by simp [c08Node] }

theorem c08Table_tinv (c : Cfg Nat) : TInv c c08Table := by
  unfold c08Table
  refine TInv.setBucket (TInv.setBucket (init_tinv c 8) (c08Bucket_binv c _ 9) ?_)
    (c08Bucket_binv c _ 3) ?_
  · refine ⟨?_, by simp⟩
    simp only [List.mem_singleton, forall_eq]
    show bucketIndex 8 9 = some 0
    decide
  · refine ⟨?_, by simp⟩
    simp only [List.mem_singleton, forall_eq]
    show bucketIndex 8 3 = some 3
    decide

example (c : Cfg Nat) (now : Nat) :
    (c08Table.closest c now 2).2.Pairwise (fun a b => (a.key ^^^ 2) < (b.key ^^^ 2)) :=
  closest_sorted c now c08Table 2 (c08Table_tinv c) (by decide) (by decide)

example (c : Cfg Nat) (now : Nat) :
    let r := c08Table.nodesByDistances c now [4, 300, 1, 0] 1
    r.2 = ((([4, 300, 1, 0] : List Nat).filter (fun d => 1 ≤ d ∧ d ≤ 256)).flatMap
      (fun d => (r.1.bucket (d - 1)).nodes)).take 1 :=
  (nodesByDistances_exact c now c08Table [4, 300, 1, 0] 1 (c08Table_tinv c) (by decide)
    (by decide)).2.1

end Discv5.KB

/-
C05 — Packet wire codec is exact, total and strict.
Property theorems only (helper lemmas live in `Proofs/PacketLemmas.lean`).  Numbers are the
literals of the property statement (63, 1280, 16, 23, …); the model uses the constants
regenerated from /repo/src, so a changed source constant breaks these proofs.
All theorems hold for every keystream family `ks` and every record decoder `recDec`.
-/
import Discv5Model.Proofs.PacketLemmas

namespace Discv5.Packet

/-- Round trip: for every well-formed packet and destination id, decoding the encoded datagram
with that id returns the same packet and the same authenticated bytes. -/
theorem decode_encode (ks : KS) (recDec : Bytes → Option Bytes) (proto : Proto) (dst : Bytes)
    (p : Packet) (h : WF recDec proto p) :
    decode ks recDec proto dst (encode ks proto dst p) = .ok (p, authenticatedData proto p) := by
  have hk : Kind.decode recDec p.kind.flag p.kind.encode = .ok p.kind := by
    apply kind_decode_encode
    have := h.kind
    cases hkk : p.kind with
    | message src => simpa [hkk] using this
    | whoareyou idn seq => rw [hkk] at this; exact ⟨this.1, this.2.1⟩
    | handshake src sig eph record => simpa [hkk] using this
  have hm : (!p.message.isEmpty && p.kind.isWhoareyou) = false := by
    have := h.kind
    cases hkk : p.kind with
    | message src => simp [Kind.isWhoareyou]
    | whoareyou idn seq => rw [hkk] at this; simp [this.2.2]
    | handshake src sig eph record => simp [Kind.isWhoareyou]
  unfold encode headerBytes
  simp only []
  rw [decode_parts ks recDec proto dst p.iv p.nonce p.kind.encode p.message p.kind.flag
    h.iv h.nonce h.pid h.ver h.authFits h.sizeLo h.sizeHi, hk, Res.ok_bind, hm]
  simp [authenticatedData, headerBytes]

/-- Layout: the datagram is `IV ‖ mask(protocol-id ‖ version ‖ flag ‖ nonce ‖ authdata-size ‖
authdata) ‖ message`, the header masked by the keystream selected by the first 16 bytes of the
destination id and the IV (discv5.1 wire format). -/
theorem encode_layout (ks : KS) (proto : Proto) (dst : Bytes) (p : Packet) :
    encode ks proto dst p =
      p.iv ++ xorStream (ks (dst.take 16) p.iv) 0
        (proto.pid ++ proto.ver ++ [p.kind.flag] ++ p.nonce ++ beBytes 2 p.kind.encode.length
          ++ p.kind.encode) ++ p.message := rfl

/-- Layout of the auth-data of the three kinds. -/
theorem authdata_layout :
    (∀ src, (Kind.message src).encode = src) ∧
    (∀ idn seq, (Kind.whoareyou idn seq).encode = idn ++ beBytes 8 seq) ∧
    (∀ src sig eph r, (Kind.handshake src sig eph r).encode =
        src ++ [UInt8.ofNat (sig.length % 256)] ++ [UInt8.ofNat (eph.length % 256)] ++ sig ++ eph
          ++ r.getD []) := by
  refine ⟨fun _ => rfl, fun _ _ => rfl, fun _ _ _ _ => ?_⟩
  simp [Kind.encode, beBytes]

/-- Index safety: `Packet::decode` never panics, for every byte string, keystream, record
decoder, protocol identity and local id. -/
theorem decode_never_panics (ks : KS) (recDec : Bytes → Option Bytes) (proto : Proto)
    (localId data : Bytes) : decode ks recDec proto localId data ≠ .panic := by
  by_cases hmax : data.length ≤ 1280
  · by_cases hmin : 63 ≤ data.length
    · rw [decode_eq_decodeT _ _ _ _ _ hmax hmin]
      unfold decodeT
      simp only []
      split
      · simp
      · split
        · simp
        · split
          · simp
          · split
            · split <;> simp
            · simp
            · rename_i hk; exact absurd hk (kindDecode_never_panics _ _ _)
    · unfold decode
      simp only [Consts.MAX_PACKET_SIZE, Consts.MIN_PACKET_SIZE]
      rw [if_neg (by omega), if_pos (by omega)]; simp
  · unfold decode
    simp only [Consts.MAX_PACKET_SIZE]
    rw [if_pos (by omega)]; simp

/-- Strictness.  If `decode` accepts `data` then: its length is within `[63, 1280]`; the
unmasked static header carries exactly the configured protocol id and version; the kind byte is
that of the returned kind (so it is 0, 1 or 2); the auth-data size fits the datagram and is
consistent with the kind (`= 32`, `= 24`, `≥ 34 + sig + key`); and a WHOAREYOU has no body. -/
theorem decode_strict (ks : KS) (recDec : Bytes → Option Bytes) (proto : Proto)
    (localId data : Bytes) (p : Packet) (ad : Bytes)
    (h : decode ks recDec proto localId data = .ok (p, ad)) :
    63 ≤ data.length ∧ data.length ≤ 1280 ∧
    ∃ sh auth : Bytes,
      sh = xorStream (ks (localId.take 16) (data.take 16)) 0 ((data.drop 16).take 23) ∧
      auth = xorStream (ks (localId.take 16) (data.take 16)) 23 ((data.drop 39).take auth.length) ∧
      ad = data.take 16 ++ sh ++ auth ∧
      sh.take 6 = proto.pid ∧ (sh.drop 6).take 2 = proto.ver ∧
      sh.getD 8 0 = p.kind.flag ∧ p.kind.flag.toNat ≤ 2 ∧
      beNat (sh.drop 21) = auth.length ∧
      data.length = 39 + auth.length + p.message.length ∧
      p.kind.AuthConsistent auth ∧ (p.kind.isWhoareyou = true → p.message = []) := by
  by_cases hmax : data.length ≤ 1280
  · by_cases hmin : 63 ≤ data.length
    · refine ⟨hmin, hmax, ?_⟩
      rw [decode_eq_decodeT _ _ _ _ _ hmax hmin] at h
      unfold decodeT at h
      simp only [] at h
      split at h
      · simp at h
      · rename_i hpid
        split at h
        · simp at h
        · rename_i hver
          split at h
          · simp at h
          · rename_i hsz
            split at h
            · rename_i kind hk
              split at h
              · simp at h
              · rename_i hw
                simp only [Res.ok.injEq, Prod.mk.injEq] at h
                obtain ⟨hp, had⟩ := h
                have hn : beNat (List.drop 21 (xorStream (ks (List.take 16 localId) (List.take 16 data)) 0
                    (List.take 23 (List.drop 16 data)))) ≤ data.length - 39 := by omega
                refine ⟨_, _, rfl, ?_, had.symm, by simpa using hpid, by simpa using hver, ?_⟩
                · simp only [xorStream_length, List.length_take, List.length_drop]
                  rw [Nat.min_eq_left hn]
                · have hlenA : (xorStream (ks (List.take 16 localId) (List.take 16 data)) 23
                      (List.take (beNat (List.drop 21 (xorStream (ks (List.take 16 localId)
                        (List.take 16 data)) 0 (List.take 23 (List.drop 16 data)))))
                        (List.drop 39 data))).length = beNat (List.drop 21 (xorStream
                        (ks (List.take 16 localId) (List.take 16 data)) 0
                        (List.take 23 (List.drop 16 data)))) := by
                    simp only [xorStream_length, List.length_take, List.length_drop]
                    exact Nat.min_eq_left hn
                  subst hp
                  simp only [hlenA]
                  have inv := kind_decode_inv _ _ _ _ hk
                  refine ⟨inv.1, inv.2.1, trivial, ?_, ?_, ?_⟩
                  · simp only [List.length_drop]; omega
                  · exact inv.2.2
                  · intro hw'
                    simpa [hw'] using hw
            · simp at h
            · simp at h
    · unfold decode at h
      simp only [Consts.MAX_PACKET_SIZE, Consts.MIN_PACKET_SIZE] at h
      rw [if_neg (by omega), if_pos (by omega)] at h; simp at h
  · unfold decode at h
    simp only [Consts.MAX_PACKET_SIZE] at h
    rw [if_pos (by omega)] at h; simp at h

/-- A datagram masked for another node id is not accepted -- unless the two AES-CTR keystreams
agree on the 8 bytes covering protocol id and version. -/
theorem decode_other_id (ks : KS) (recDec : Bytes → Option Bytes) (proto : Proto)
    (dst dst' : Bytes) (p q : Packet) (ad : Bytes) (h : WF recDec proto p)
    (hd : decode ks recDec proto dst' (encode ks proto dst p) = .ok (q, ad)) :
    ∀ i, i < 8 → ks (dst'.take 16) p.iv i = ks (dst.take 16) p.iv i := by
  obtain ⟨_, _, sh, auth, hsh, _, _, hpid, hver, _⟩ := decode_strict _ _ _ _ _ _ _ hd
  intro i hi
  generalize hS : proto.pid ++ proto.ver ++ [p.kind.flag] ++ p.nonce ++
    beBytes 2 p.kind.encode.length = S at *
  have hSl : S.length = 23 := by subst hS; simp [h.pid, h.ver, h.nonce]
  have henc : encode ks proto dst p =
      p.iv ++ (xorStream (ks (dst.take 16) p.iv) 0 S ++
        (xorStream (ks (dst.take 16) p.iv) 23 p.kind.encode ++ p.message)) := by
    rw [encode_layout, hS, xorStream_append, hSl]; simp
  have e1 : List.take 16 (encode ks proto dst p) = p.iv := by
    rw [henc]; exact List.take_left' h.iv
  have e2 : List.take 23 (List.drop 16 (encode ks proto dst p)) =
      xorStream (ks (dst.take 16) p.iv) 0 S := by
    rw [henc, List.drop_left' h.iv]; exact List.take_left' (by simp [hSl])
  rw [e1, e2] at hsh
  -- the first 8 bytes of S and of sh are pid ++ ver
  have hS8 : ∀ j, j < 8 → S[j]? = (proto.pid ++ proto.ver)[j]? := by
    intro j hj
    subst hS
    simp only [List.append_assoc]
    rw [← List.append_assoc]
    exact List.getElem?_append_left (by simp [h.pid, h.ver]; omega)
  have hsh8 : ∀ j, j < 8 → sh[j]? = (proto.pid ++ proto.ver)[j]? := by
    intro j hj
    have hshl : sh.length = 23 := by rw [hsh]; simp [hSl]
    have : sh = sh.take 6 ++ ((sh.drop 6).take 2 ++ (sh.drop 6).drop 2) := by
      rw [List.take_append_drop, List.take_append_drop]
    rw [this, hpid, hver, ← List.append_assoc]
    exact List.getElem?_append_left (by simp [h.pid, h.ver]; omega)
  have key := hsh8 i hi
  rw [← hS8 i hi, hsh, xorStream_getElem?, xorStream_getElem?] at key
  have hi' : i < S.length := by omega
  rw [List.getElem?_eq_getElem hi'] at key
  simp only [Option.map_some, Nat.zero_add, Option.some.injEq] at key
  exact xor_cancel_mid _ _ _ key

/-! ### Non-vacuity: concrete packets of each kind satisfy `WF`, with a record decoder that
accepts exactly one record. -/

private def exProto : Proto := { pid := [100, 105, 115, 99, 118, 53], ver := [0, 1] }
private def exRec : Bytes := [0xc1, 0x80]
private def exRecDec : Bytes → Option Bytes := fun b => if b = exRec then some exRec else none

example : WF exRecDec exProto
    { iv := List.replicate 16 7, nonce := List.replicate 12 9,
      kind := .message (List.replicate 32 1), message := [1, 2, 3] } := by
  constructor <;> simp [exProto, Kind.encode]

example : WF exRecDec exProto
    { iv := List.replicate 16 7, nonce := List.replicate 12 9,
      kind := .whoareyou (List.replicate 16 3) 5, message := [] } := by
  constructor <;> simp [exProto, Kind.encode]

example : WF exRecDec exProto
    { iv := List.replicate 16 7, nonce := List.replicate 12 9,
      kind := .handshake (List.replicate 32 1) (List.replicate 64 2) (List.replicate 33 4)
        (some exRec), message := [1] } := by
  constructor <;> simp [exProto, Kind.encode, exRec, exRecDec]

end Discv5.Packet

/-
C17 — External address is updated only by a clear majority.
Property theorems only (helper lemmas live in `Proofs/IpVoteLemmas.lean`).

Model: `Model/IpVote.lean` (`IpVote::{new, insert, majority}` with vote expiry and the single pass
over the hash map; `handle_ip_vote_from_pong` / `require_more_ip_votes` and the record update as
`pongStep`).  All theorems about `majority` / `pongStep` hold for EVERY hash-map visiting order
(`IsShuffle`: any permutation, chosen anew at every call), every clock reading, every minimum, and
are stated for an arbitrary threshold function `thr : Nat → Nat` with exactly the hypothesis they
need (`∀ n, thr n ≤ n` for completeness / order-independence, nothing for the safety direction);
`thrF64`, the bit-exact integer mirror of the binary64 expression
`((max_count as f64) * (1.0 - 0.3)).round() as usize`, satisfies it (`threshold_le`).
The numbers of the property statement (margin 0.3 = 3/10, the binary64 constant of `1.0 - 0.3`,
minimum ≥ 2) are spelled as literals here; the model uses the constants regenerated from
/repo/src, so a changed source constant breaks these proofs.
-/
import Discv5Model.Proofs.IpVoteLemmas

namespace Discv5.IpVote

/-! ## The threshold -/

/-- The regenerated margin literal is `0.3` (= 3/10) and the minuend of the threshold expression
is `1.0`. -/
theorem margin_literal : Consts.CLEAR_MAJORITY_TENTHS = 3 ∧ Consts.THR_MINUEND = 1 := ⟨rfl, rfl⟩

/-- The binary64 value of `1.0 - 0.3` computed by the mirror is `12610078956637388 / 2^54`
= `0x16666666666666 / 2^53`, i.e. the double `0x3FE6666666666666` (0.69999999999999996, not 0.7). -/
theorem threshold_mirror_constant : marginC = (12610078956637388, 54) := by decide

example : 12610078956637388 = 2 * 0x16666666666666 := by decide

/-- The mirrored threshold never exceeds its argument (so a tie never wins): for every `n`,
including those beyond 2^53 where `n as f64` itself rounds. -/
theorem threshold_le (n : Nat) : thrF64 n ≤ n := thrF64_le n

/-- The margin is 30 %: for every count below 2^49 the mirrored threshold is `0.7 · n` rounded to
an integer at distance at most one half (`|10·thr n − 7·n| ≤ 5`; at exact halves binary64 may go
either way, see `threshold_not_naive`). -/
theorem threshold_is_seventy_percent (n : Nat) (h : n < 2 ^ 49) :
    7 * n ≤ 10 * thrF64 n + 5 ∧ 10 * thrF64 n ≤ 7 * n + 5 := by
  unfold thrF64
  rw [threshold_mirror_constant]
  exact thrWith_seventy n h

/-- The mirrored threshold is NOT `⌊(7n+5)/10⌋`: it first differs at n = 45 (31.499999999999996
rounds to 31, the exact 31.5 would round to 32). -/
theorem threshold_not_naive : thrF64 45 = 31 ∧ (7 * 45 + 5) / 10 = 32 ∧ thrF64 85 = 59 ∧ thrF64 10 = 7 := by
  decide

/-- `IpVote::new` refuses (panics on) a minimum below 2. -/
theorem new_requires_two {α : Type} (m d : Nat) : (IpVote.new? (α := α) m d).isSome ↔ 2 ≤ m := by
  unfold IpVote.new?
  by_cases h : m < 2
  · rw [if_pos h]; simp; omega
  · rw [if_neg h]; simp; omega

variable {α : Type} [DecidableEq α]

/-! ## `majority` -/

/-- `majority_spec`.  For every visiting order of the two hash maps, `majority()` returns
`some a` for a family iff `a` is the clear majority of that family's unexpired votes exactly as
the code decides it: `count a ≥ minimum`, and every other address `b` has `count b < thr (count a)`
(`0 < thr (count a)` is that same condition for addresses nobody voted for).  `count` is over the
entries whose expiry is after `now`; the map holds one (the latest) entry per voter. -/
theorem majority_spec (thr : Nat → Nat) (hthr : ∀ n, thr n ≤ n) (s : IpVote α) (now : Nat)
    (sh4 sh6 : List (Entry α) → List (Entry α)) (h4 : IsShuffle sh4) (h6 : IsShuffle sh6) (a : α) :
    ((s.majority thr now sh4 sh6).2.1 = some a ↔
        (s.minimum ≤ countOf now s.v4 a ∧ 0 < thr (countOf now s.v4 a) ∧
          ∀ b, b ≠ a → countOf now s.v4 b < thr (countOf now s.v4 a))) ∧
    ((s.majority thr now sh4 sh6).2.2 = some a ↔
        (s.minimum ≤ countOf now s.v6 a ∧ 0 < thr (countOf now s.v6 a) ∧
          ∀ b, b ≠ a → countOf now s.v6 b < thr (countOf now s.v6 a))) := by
  unfold IpVote.majority
  simp only []
  constructor
  · rw [mostFrequent_spec thr hthr]
    exact clearMajority_congr (fun b => countOf_perm now (h4 _) b) a
  · rw [mostFrequent_spec thr hthr]
    exact clearMajority_congr (fun b => countOf_perm now (h6 _) b) a

/-- `majority_spec` for the threshold the code computes (`thrF64`, margin 0.3). -/
theorem majority_spec_f64 (s : IpVote α) (now : Nat)
    (sh4 sh6 : List (Entry α) → List (Entry α)) (h4 : IsShuffle sh4) (h6 : IsShuffle sh6) (a : α) :
    ((s.majority thrF64 now sh4 sh6).2.1 = some a ↔
        (s.minimum ≤ countOf now s.v4 a ∧ 0 < thrF64 (countOf now s.v4 a) ∧
          ∀ b, b ≠ a → countOf now s.v4 b < thrF64 (countOf now s.v4 a))) ∧
    ((s.majority thrF64 now sh4 sh6).2.2 = some a ↔
        (s.minimum ≤ countOf now s.v6 a ∧ 0 < thrF64 (countOf now s.v6 a) ∧
          ∀ b, b ≠ a → countOf now s.v6 b < thrF64 (countOf now s.v6 a))) :=
  majority_spec thrF64 threshold_le s now sh4 sh6 h4 h6 a

/-- Safety half of `majority_spec`, for ANY threshold function (nothing assumed about `thr`):
whatever `majority()` returns has at least `minimum` unexpired votes and every rival is strictly
below `thr` of the winner's count. -/
theorem majority_sound (thr : Nat → Nat) (s : IpVote α) (now : Nat)
    (sh4 sh6 : List (Entry α) → List (Entry α)) (h4 : IsShuffle sh4) (h6 : IsShuffle sh6) (a : α) :
    ((s.majority thr now sh4 sh6).2.1 = some a →
        (s.minimum ≤ countOf now s.v4 a ∧ ∀ b, b ≠ a → countOf now s.v4 b < thr (countOf now s.v4 a))) ∧
    ((s.majority thr now sh4 sh6).2.2 = some a →
        (s.minimum ≤ countOf now s.v6 a ∧ ∀ b, b ≠ a → countOf now s.v6 b < thr (countOf now s.v6 a))) := by
  unfold IpVote.majority
  simp only []
  constructor
  · intro h
    have := (clearMajority_congr (fun b => countOf_perm now (h4 s.v4) b) a).1 (mostFrequent_sound _ _ _ _ a h)
    exact ⟨this.1, this.2.2⟩
  · intro h
    have := (clearMajority_congr (fun b => countOf_perm now (h6 s.v6) b) a).1 (mostFrequent_sound _ _ _ _ a h)
    exact ⟨this.1, this.2.2⟩

/-- `majority_order_independent`.  Two runs of `majority()` on the same state with different
hash-map visiting orders return the same pair of results, and leave the same maps up to order
(exactly the unexpired entries). -/
theorem majority_order_independent (thr : Nat → Nat) (hthr : ∀ n, thr n ≤ n) (s : IpVote α) (now : Nat)
    (sh4 sh6 sh4' sh6' : List (Entry α) → List (Entry α))
    (h4 : IsShuffle sh4) (h6 : IsShuffle sh6) (h4' : IsShuffle sh4') (h6' : IsShuffle sh6') :
    (s.majority thr now sh4 sh6).2 = (s.majority thr now sh4' sh6').2 ∧
    ((s.majority thr now sh4 sh6).1.v4).Perm (s.majority thr now sh4' sh6').1.v4 ∧
    ((s.majority thr now sh4 sh6).1.v6).Perm (s.majority thr now sh4' sh6').1.v6 ∧
    ((s.majority thr now sh4 sh6).1.v4).Perm (s.v4.filter (fun e => decide (now < e.expiry))) ∧
    ((s.majority thr now sh4 sh6).1.v6).Perm (s.v6.filter (fun e => decide (now < e.expiry))) := by
  have p4 : (sh4 s.v4).Perm (sh4' s.v4) := (h4 _).trans (h4' _).symm
  have p6 : (sh6 s.v6).Perm (sh6' s.v6) := (h6 _).trans (h6' _).symm
  have m4 := mostFrequent_perm thr hthr s.minimum now p4
  have m6 := mostFrequent_perm thr hthr s.minimum now p6
  unfold IpVote.majority
  simp only []
  refine ⟨by rw [m4.1, m6.1], m4.2, m6.2, ?_, ?_⟩
  · rw [mostFrequent_updated]; exact (h4 _).filter _
  · rw [mostFrequent_updated]; exact (h6 _).filter _

/-- The hypothesis `thr n ≤ n` of the theorems above is needed: with a threshold above the count
a tie is won by whichever address the hash map happens to yield first (2 votes each, `thr n = n+1`). -/
example :
    let l : List (Entry Nat) := [⟨1, 1, 9⟩, ⟨2, 1, 9⟩, ⟨3, 2, 9⟩, ⟨4, 2, 9⟩]
    (mostFrequent (fun n => n + 1) 2 0 l).2 = some 1 ∧
    (mostFrequent (fun n => n + 1) 2 0 l.reverse).2 = some 2 ∧
    (mostFrequent thrF64 2 0 l).2 = none ∧ (mostFrequent thrF64 2 0 l.reverse).2 = none := by
  decide

/-! ## The service step -/

/-- `update_needs_majority`.  If a PONG step changes the IPv4 (IPv6) socket of the local record,
then the new value `a` is, at that moment (`p.tMaj`, the clock read by `majority()`), a clear
majority of the IPv4 (IPv6) votes the step leaves in the collection: at least `minimum` entries
for `a`, every rival strictly below `thr (count a)`; the old value was different; the sequence
number grew by exactly one and exactly the event `SocketUpdated(a)` was emitted.  Holds for ANY
`thr`, any connection direction of the voter (`connOut`), any visiting orders. -/
theorem update_needs_majority (thr : Nat → Nat) (s : Svc α) (p : Pong α) :
    ((pongStep thr s p).1.enr.ip4 ≠ s.enr.ip4 →
      ∃ a v', (pongStep thr s p).1.enr.ip4 = some a ∧ (pongStep thr s p).1.votes = some v' ∧
        v'.minimum ≤ countOf p.tMaj v'.v4 a ∧
        (∀ b, b ≠ a → countOf p.tMaj v'.v4 b < thr (countOf p.tMaj v'.v4 a)) ∧
        (pongStep thr s p).1.enr.seq = s.enr.seq + 1 ∧
        (pongStep thr s p).2 = [Ev.socketUpdated (.v4 a)]) ∧
    ((pongStep thr s p).1.enr.ip6 ≠ s.enr.ip6 →
      ∃ a v', (pongStep thr s p).1.enr.ip6 = some a ∧ (pongStep thr s p).1.votes = some v' ∧
        v'.minimum ≤ countOf p.tMaj v'.v6 a ∧
        (∀ b, b ≠ a → countOf p.tMaj v'.v6 b < thr (countOf p.tMaj v'.v6 a)) ∧
        (pongStep thr s p).1.enr.seq = s.enr.seq + 1 ∧
        (pongStep thr s p).2 = [Ev.socketUpdated (.v6 a)]) := by
  constructor
  · intro hne
    rcases pongStep_cases thr s p with ⟨he, _⟩ | ⟨a, v', h1, h2, _, h4, h5⟩ | ⟨a, v', _, _, _, h4, _⟩
    · rw [he] at hne; exact absurd rfl hne
    · exact ⟨a, v', by rw [h4], h1, h2.1, h2.2.2, by rw [h4], h5⟩
    · rw [h4] at hne; exact absurd rfl hne
  · intro hne
    rcases pongStep_cases thr s p with ⟨he, _⟩ | ⟨a, v', _, _, _, h4, _⟩ | ⟨a, v', h1, h2, _, h4, h5⟩
    · rw [he] at hne; exact absurd rfl hne
    · rw [h4] at hne; exact absurd rfl hne
    · exact ⟨a, v', by rw [h4], h1, h2.1, h2.2.2, by rw [h4], h5⟩

/-- The collection `majority()` leaves behind holds only unexpired entries, so the counts in
`update_needs_majority` are plain counts of the entries of the map. -/
theorem majority_leaves_unexpired (thr : Nat → Nat) (s : IpVote α) (now : Nat)
    (sh4 sh6 : List (Entry α) → List (Entry α)) :
    (∀ e, e ∈ (s.majority thr now sh4 sh6).1.v4 → now < e.expiry) ∧
    (∀ e, e ∈ (s.majority thr now sh4 sh6).1.v6 → now < e.expiry) := by
  unfold IpVote.majority
  simp only []
  rw [mostFrequent_updated, mostFrequent_updated]
  constructor <;> intro e he <;> simpa using (List.mem_filter.1 he).2

/-- One vote per voter, latest wins — along every history from a fresh service, with every
visiting order, each family's collection has at most one entry per voter, and each entry is a
vote that voter really cast in a PONG of the history for exactly that address. -/
theorem one_vote_per_voter (thr : Nat → Nat) (minimum : Nat) (s0 : Svc α) (hfresh : s0.Fresh minimum)
    (hist : List (Pong α)) (hvalid : ∀ q, q ∈ hist → q.Valid) (v : IpVote α)
    (hv : (runPongs thr s0 hist).1.votes = some v) :
    KeysNodup v.v4 ∧ KeysNodup v.v6 ∧ v.minimum = minimum ∧
    (∀ e, e ∈ v.v4 → ∃ q, q ∈ hist ∧ q.voter = e.voter ∧ q.sock = Sock.v4 e.vote) ∧
    (∀ e, e ∈ v.v6 → ∃ q, q ∈ hist ∧ q.voter = e.voter ∧ q.sock = Sock.v6 e.vote) := by
  have := runPongs_ok thr minimum hist [] s0 (fresh_ok hfresh) hvalid v hv
  rw [List.nil_append] at this
  exact ⟨this.k4, this.k6, this.hmin, this.b4, this.b6⟩

omit [DecidableEq α] in
/-- `insert` replaces the voter's previous vote: after `insert`, the voter has exactly one entry
in the family of the new vote and it carries the new address. -/
theorem latest_vote_wins (s : IpVote α) (now voter : Nat) (a : α) :
    (∀ e, e ∈ (s.insert now voter (.v4 a)).v4 → e.voter = voter → e.vote = a ∧ e.expiry = now + s.duration) ∧
    (∀ e, e ∈ (s.insert now voter (.v6 a)).v6 → e.voter = voter → e.vote = a ∧ e.expiry = now + s.duration) := by
  constructor <;>
  · intro e he hv
    simp only [IpVote.insert, mapInsert, List.mem_append, List.mem_filter, List.mem_singleton] at he
    rcases he with ⟨_, h⟩ | h
    · simp [hv] at h
    · subst h; exact ⟨rfl, rfl⟩

/-- `few_liars`.  Take any history of PONGs from a freshly started service with configured
minimum `minimum` (voters of any connection direction, any addresses of both families, voters
changing their votes, any clock readings, any visiting orders, any `thr`).  If all the peers that
ever voted for the IPv4 (IPv6) address `a` fit in a list `liars` shorter than `minimum`, the
record's IPv4 (IPv6) socket is `a` after the history only if it was `a` before it: fewer liars
than the minimum can never move it (the statement applies to every prefix of the history). -/
theorem few_liars (thr : Nat → Nat) (minimum : Nat) (s0 : Svc α) (hfresh : s0.Fresh minimum)
    (hist : List (Pong α)) (hvalid : ∀ q, q ∈ hist → q.Valid) (a : α) (liars : List Nat)
    (hfew : liars.length < minimum) :
    ((∀ q, q ∈ hist → q.sock = Sock.v4 a → q.voter ∈ liars) →
      (runPongs thr s0 hist).1.enr.ip4 = some a → s0.enr.ip4 = some a) ∧
    ((∀ q, q ∈ hist → q.sock = Sock.v6 a → q.voter ∈ liars) →
      (runPongs thr s0 hist).1.enr.ip6 = some a → s0.enr.ip6 = some a) := by
  constructor
  · intro hl
    exact runPongs_few_liars4 thr minimum a liars hfew hist [] s0 (fresh_ok hfresh) hvalid
      (by simpa using hl)
  · intro hl
    exact runPongs_few_liars6 thr minimum a liars hfew hist [] s0 (fresh_ok hfresh) hvalid
      (by simpa using hl)

/-- `seq_increases`.  Every step that changes the record strictly increases its sequence number
(by one) and announces the change with exactly one `SocketUpdated` event carrying the new socket;
a step that does not change the record emits nothing. -/
theorem seq_increases (thr : Nat → Nat) (s : Svc α) (p : Pong α) :
    ((pongStep thr s p).1.enr = s.enr ∧ (pongStep thr s p).2 = []) ∨
    (s.enr.seq < (pongStep thr s p).1.enr.seq ∧ (pongStep thr s p).1.enr.seq = s.enr.seq + 1 ∧
      ((∃ a, (pongStep thr s p).2 = [Ev.socketUpdated (.v4 a)] ∧ (pongStep thr s p).1.enr.ip4 = some a ∧
            s.enr.ip4 ≠ some a ∧ (pongStep thr s p).1.enr.ip6 = s.enr.ip6) ∨
       (∃ a, (pongStep thr s p).2 = [Ev.socketUpdated (.v6 a)] ∧ (pongStep thr s p).1.enr.ip6 = some a ∧
            s.enr.ip6 ≠ some a ∧ (pongStep thr s p).1.enr.ip4 = s.enr.ip4))) := by
  rcases pongStep_cases thr s p with h | ⟨a, v', _, _, h3, h4, h5⟩ | ⟨a, v', _, _, h3, h4, h5⟩
  · left; exact h
  · right
    refine ⟨by rw [h4]; exact Nat.lt_succ_self _, by rw [h4], Or.inl ⟨a, h5, by rw [h4], h3, by rw [h4]⟩⟩
  · right
    refine ⟨by rw [h4]; exact Nat.lt_succ_self _, by rw [h4], Or.inr ⟨a, h5, by rw [h4], h3, by rw [h4]⟩⟩

/-- Along every history the sequence number has grown by exactly the number of `SocketUpdated`
events emitted: every change is announced and increments the sequence number, nothing else does. -/
theorem seq_counts_events (thr : Nat → Nat) (s : Svc α) (hist : List (Pong α)) :
    (runPongs thr s hist).1.enr.seq = s.enr.seq + (runPongs thr s hist).2.length :=
  runPongs_seq thr hist s

/-! ## Non-vacuity -/

/-- A concrete winner: 5 voters for address 1, one for address 2, minimum 3, threshold of the
code: `thrF64 5 = 4 > 1`. -/
example :
    let s : IpVote Nat :=
      { v4 := [⟨1, 1, 9⟩, ⟨2, 1, 9⟩, ⟨3, 2, 9⟩, ⟨4, 1, 9⟩, ⟨5, 1, 9⟩, ⟨6, 1, 9⟩, ⟨7, 3, 2⟩], v6 := [], minimum := 3, duration := 10 }
    (s.majority thrF64 5 id List.reverse).2 = (some 1, none) ∧ countOf 5 s.v4 1 = 5 ∧
      countOf 5 s.v4 2 = 1 ∧ countOf 5 s.v4 3 = 0 ∧ thrF64 5 = 4 := by decide

/-- At the margin: 10 against 7 is not clear (`thrF64 10 = 7`), 10 against 6 is. -/
example :
    let mk (n m : Nat) : List (Entry Nat) :=
      (List.range n).map (fun i => ⟨i, 1, 9⟩) ++ (List.range m).map (fun i => ⟨100 + i, 2, 9⟩)
    (mostFrequent thrF64 2 0 (mk 10 7)).2 = none ∧ (mostFrequent thrF64 2 0 (mk 10 6)).2 = some 1 := by
  decide

/-- A history that really changes the record: three outgoing peers vote for address 7 (minimum
2), the second PONG moves the IPv4 socket from none to 7, sequence number 1 → 2, one event; a
later lone vote for address 8 changes nothing. -/
example :
    let s0 : Svc Nat := { votes := IpVote.new? 2 100, enr := { ip4 := none, ip6 := none, seq := 1 }, dual := false }
    let pong (voter a t : Nat) : Pong Nat :=
      { voter := voter, sock := .v4 a, countable := true, connOut := true, setOk := true,
        tClear := t, tIns := t, tMaj := t, sh4 := List.reverse, sh6 := id }
    let r := runPongs thrF64 s0 [pong 1 7 0, pong 2 7 1, pong 3 7 2, pong 4 8 3]
    r.1.enr.ip4 = some 7 ∧ r.1.enr.seq = 2 ∧ r.2 = [Ev.socketUpdated (.v4 7)] ∧ s0.Fresh 2 := by
  refine ⟨by decide, by decide, by decide, ?_⟩
  intro v hv
  simp only [IpVote.new?] at hv
  cases hv
  exact ⟨rfl, rfl, rfl⟩

/-- `List.reverse` and `id` are visiting orders. -/
example : IsShuffle (List.reverse : List (Entry Nat) → _) ∧ IsShuffle (id : List (Entry Nat) → _) :=
  ⟨fun l => List.reverse_perm l, fun l => List.Perm.refl l⟩

end Discv5.IpVote

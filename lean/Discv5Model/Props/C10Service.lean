/-
C10 at the level of the service: what the caller of `find_node` / `find_node_predicate` receives.

`Model/Lookup.lean` turns the ids of `into_result()` into records (untrusted records of the lookup
first, then the routing table).  Here: the ids of the records handed over are, in order, ids of
`into_result()` of a state the lookup reached (`result_ids`), hence
* `result_in_increasing_distance`: the records come in strictly increasing XOR distance to the lookup's
  target, no node twice;
* `result_nodes_answered`: every node among them was handed out by the lookup's `next` and then
  answered it (`on_success`) - the soundness clause of C10 - for the history of calls the lookup's
  state is the end of.
Hypothesis `Keyed`: every record of the routing table is filed under its own node id - part of the
table policy of C12, which holds along every run (`keyed_of_policy`, `lookups_keep_table_policy`).
-/
import Discv5Model.Proofs.LookupResult
import Discv5Model.Props.C09Service
import Discv5Model.Props.C10

namespace Discv5.Props.C10Service

open Discv5.KB
open Discv5.Svc
open Discv5.Svc.Svc
open Discv5.Lookup
open Discv5.Props.C09Service (LInv)

/-- The target of the lookup a step is about: the running one, or the one the step starts. -/
def stepTarget (k : LSvc) : LInput → Option Nat
  | .svc _ _ => k.q.map (·.target)
  | .lookup t _ => some t

/-- The service state a step's lookup activity starts from. -/
def stepBase (k : LSvc) : LInput → Svc
  | .svc o inp => (k.svc.step o inp).1
  | .lookup t _ => k.svc.startQuery t

theorem applyEffect_target (c : LCfg) (q : Q) (e : QEffect) : (applyEffect c q e).target = q.target := by
  cases e with
  | success src kept => exact (Query.onSuccess_const q src _).2.2
  | failure p => exact (Query.onFailure_const q p).2.2

/-- **The ids of a handed-over result are ids of `into_result()`**, in the same order (ids for which
no record is found are left out), of a state the lookup reached from its constructor, with the
lookup's target. -/
theorem result_ids (c : LCfg) (now : Nat) (k : LSvc) (i : LInput) (found : List Rec)
    (hinv : LInv c k) (hk : Keyed (stepBase k i))
    (h : (k.step c now i).2.2 = some found) (hne : found ≠ []) :
    ∃ q' t, stepTarget k i = some t ∧ IsHistory c q' ∧ q'.target = t ∧
      (found.map (·.id)).Sublist (Query.intoResult q') := by
  cases i with
  | svc o inp =>
    rw [step_svc] at h
    cases hkq : k.q with
    | none =>
      exfalso
      rw [hkq] at h
      simp [pump] at h
    | some q0 =>
      rw [hkq] at h
      have hq0 := hinv q0 hkq
      cases he : effectOf k.svc inp with
      | none =>
        rw [he] at h
        simp only [pump] at h
        obtain ⟨q', h1, h2, _, h4⟩ := pumpLoop_result_ids c now _ _ q0 [] found hq0 hk h
        exact ⟨q', q0.target, by simp [stepTarget, hkq], h1, h2, h4⟩
      | some e =>
        rw [he] at h
        simp only [pump] at h
        obtain ⟨q', h1, h2, _, h4⟩ := pumpLoop_result_ids c now _ _ (applyEffect c q0 e) [] found
          (hq0.applyEffect e) hk h
        exact ⟨q', q0.target, by simp [stepTarget, hkq], h1, by rw [h2, applyEffect_target], h4⟩
  | lookup target n =>
    cases hr : k.q.isSome with
    | true => rw [step_lookup_running c now k target n hr] at h; cases h
    | false =>
      cases hs : (k.svc.startQuery target).query with
      | none =>
        rw [step_lookup_empty c now k target n hr hs] at h
        cases h
        exact absurd rfl hne
      | some qq =>
        rw [step_lookup_start c now k target n qq hr hs] at h
        simp only [pump] at h
        have hnew : IsHistory c (newQ c target n qq) := by
          cases n with
          | none => exact IsHistory.init c .closest _ _ _
          | some m => exact IsHistory.init c .predicate _ _ _
        have ht : (newQ c target n qq).target = target := by cases n <;> rfl
        obtain ⟨q', h1, h2, _, h4⟩ := pumpLoop_result_ids c now _ _ (newQ c target n qq) [] found hnew hk h
        exact ⟨q', target, rfl, h1, by rw [h2, ht], h4⟩

/-- **Increasing distance.**  The records a lookup hands over come in strictly increasing XOR
distance to its target (so no node occurs twice). -/
theorem result_in_increasing_distance (c : LCfg) (now : Nat) (k : LSvc) (i : LInput) (found : List Rec)
    (hinv : LInv c k) (hk : Keyed (stepBase k i))
    (h : (k.step c now i).2.2 = some found) (hne : found ≠ []) :
    ∃ t, stepTarget k i = some t ∧
      (found.map (·.id)).Pairwise (fun a b => a ^^^ t < b ^^^ t) := by
  obtain ⟨q', t, ht, hq', hqt, hsub⟩ := result_ids c now k i found hinv hk h hne
  refine ⟨t, ht, ?_⟩
  obtain ⟨v, n, target, known, evs, rfl⟩ := hq'
  have hs := (Query.result_sorted_distinct v (qcfg c n) target known evs).1
  have hc := (Query.runQ_init_const v (qcfg c n) target known evs).2.2
  rw [hc] at hqt
  rw [← hqt]
  exact List.Pairwise.sublist hsub hs

/-- **Soundness.**  Every node of a handed-over result was selected by the lookup (`next` handed it
out) and answered afterwards (`on_success` was called for it), in the history of calls the lookup's
final state is the end of. -/
theorem result_nodes_answered (c : LCfg) (now : Nat) (k : LSvc) (i : LInput) (found : List Rec)
    (hinv : LInv c k) (hk : Keyed (stepBase k i))
    (h : (k.step c now i).2.2 = some found) (hne : found ≠ []) (r : Rec) (hr : r ∈ found) :
    ∃ v n target known evs pre tnow mid closer post,
      evs = pre ++ .next tnow :: (mid ++ .success r.id closer :: post) ∧
      (Query.next (Query.runQ (Query.withConfig v (qcfg c n) target known) pre) tnow).2 = .waiting (some r.id) := by
  obtain ⟨q', t, _, hq', _, hsub⟩ := result_ids c now k i found hinv hk h hne
  obtain ⟨v, n, target, known, evs, rfl⟩ := hq'
  have hmem : r.id ∈ Query.intoResult (Query.runQ (Query.withConfig v (qcfg c n) target known) evs) :=
    hsub.subset (List.mem_map_of_mem hr)
  obtain ⟨pre, tnow, mid, closer, post, h1, h2⟩ := Query.result_sound v (qcfg c n) target known evs r.id hmem
  exact ⟨v, n, target, known, evs, pre, tnow, mid, closer, post, h1, h2⟩

end Discv5.Props.C10Service

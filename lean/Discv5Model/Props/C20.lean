/-
C20 — Every TALK request is answered exactly once.

Statements about the `TalkRequest` life cycle of `Model/Service.lean` (`respond` takes the sender,
`Drop` sends the empty answer only if the sender is still there).  Rust's ownership discipline
(`respond(self)` consumes the object and is followed by its `Drop`; an object not responded to
is dropped once) is the grammar `TalkUse`.
-/
import Discv5Model.Model.Service

namespace Discv5.Props.C20
open Discv5.Svc

/-- The payload the application asked for: its own if it responds, empty if it only drops. -/
def payloadOf : TalkUse → Bytes
  | .respond p => p
  | .dropOnly => []

/-- While the node is running (`chanOpen = true`), whatever the application does with a freshly
delivered request object (respond, or just drop it), exactly one TALKRESP is sent: to the node
address the request came from, with the request's id, carrying the application's payload or the
empty payload — and never a second one. -/
theorem exactly_one (t : TalkReq) (h : t.sender = true) (u : TalkUse) :
    (t.life true u).2 = [.response t.peer t.addr t.rid (.talk (payloadOf u))] := by
  cases u <;> simp [TalkReq.life, TalkReq.respond, TalkReq.drop, payloadOf, h]

/-- `respond` on a running node reports success. -/
theorem respond_ok (t : TalkReq) (h : t.sender = true) (p : Bytes) :
    (t.life true (.respond p)).1 = some .ok := by
  simp [TalkReq.life, TalkReq.respond, h]

/-- After shutdown (`chanOpen = false`) responding to or dropping a request object sends nothing,
`respond` returns the error value `ChannelClosed`, and no use of the object panics. -/
theorem after_shutdown (t : TalkReq) (h : t.sender = true) (u : TalkUse) :
    (t.life false u).2 = [] ∧ (t.life false u).1 ≠ some .panic ∧
      (∀ p, u = .respond p → (t.life false u).1 = some .channelClosed) := by
  cases u <;> simp [TalkReq.life, TalkReq.respond, TalkReq.drop, h]

/-- No state of a request object raises: even for an object whose sender is gone, dropping it is
silent (this is what `Drop` sees after `respond`). -/
theorem drop_after_respond_silent (t : TalkReq) (p : Bytes) (chanOpen : Bool) :
    ((t.respond p chanOpen).1).drop chanOpen = [] := by
  unfold TalkReq.respond
  by_cases hs : t.sender = true <;> by_cases hc : chanOpen = true <;> simp [TalkReq.drop, hs, hc]

/-- Non-vacuity: a delivered request object. -/
example : ({ rid := [1, 2], peer := 7, addr := { v6 := false, sock := 655369000 } } : TalkReq).sender = true := rfl

end Discv5.Props.C20

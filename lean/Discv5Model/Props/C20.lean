/-
C20 — Every TALK request is answered exactly once.

Statements about the `TalkRequest` life cycle of `Model/Service.lean` (`respond` takes the sender,
`Drop` sends the empty answer only if the sender is still there).  Rust's ownership discipline
(`respond(self)` consumes the object and is followed by its `Drop`; an object not responded to
is dropped once) is the grammar `TalkUse`.
-/
import Discv5Model.Model.Service
import Discv5Model.Model.Talk
import Discv5Model.Proofs.TalkLemmas

namespace Discv5.Props.C20
open Discv5.Svc Discv5.Talk

/-- While the node is running (`chanOpen = true`), whatever the application does with a freshly
delivered request object (respond, or just drop it), exactly one TALKRESP is sent: to the node
address the request came from, with the request's id, carrying the application's payload or the
empty payload — and never a second one. -/
theorem exactly_one (t : TalkReq) (h : t.sender = true) (u : TalkUse) :
    (t.life true u).2 = [.response t.peer t.addr t.rid (.talk (payloadOf u))] := by
  cases u <;> simp [TalkReq.life, TalkReq.respond, TalkReq.drop, payloadOf, h]

/-- `respond` on a running node reports success. -/
theorem respond_ok (t : TalkReq) (h : t.sender = true) (p : Bytes) :
    (t.life true (.respond p)).1 = some .ok := by
  simp [TalkReq.life, TalkReq.respond, h]

/-- After shutdown (`chanOpen = false`) responding to or dropping a request object sends nothing,
`respond` returns the error value `ChannelClosed`, and no use of the object panics. -/
theorem after_shutdown (t : TalkReq) (h : t.sender = true) (u : TalkUse) :
    (t.life false u).2 = [] ∧ (t.life false u).1 ≠ some .panic ∧
      (∀ p, u = .respond p → (t.life false u).1 = some .channelClosed) := by
  cases u <;> simp [TalkReq.life, TalkReq.respond, TalkReq.drop, h]

/-- No state of a request object raises: even for an object whose sender is gone, dropping it is
silent (this is what `Drop` sees after `respond`). -/
theorem drop_after_respond_silent (t : TalkReq) (p : Bytes) (chanOpen : Bool) :
    ((t.respond p chanOpen).1).drop chanOpen = [] := by
  unfold TalkReq.respond
  by_cases hs : t.sender = true <;> by_cases hc : chanOpen = true <;> simp [TalkReq.drop, hs, hc]

/-! ### Histories: concurrently held request objects (`Model/Talk.lean`)

The application holds any number of request objects and consumes them (respond / drop) in any
order, or never; the service shuts down at any point.  Outputs are tagged with the number of the
object that caused them, so the statements below do not depend on request ids being distinct. -/

/-- The object created for a TALKREQ carries the request's id and the node address (peer id and
socket address) the request came from, and its sender. -/
theorem delivered_object (w : World) (h : w.running = true) (rid : Bytes) (peer : Nat) (addr : Addr) :
    (w.step (.deliver rid peer addr)).1.reqs[w.reqs.length]? =
      some (some { rid := rid, peer := peer, addr := addr, sender := true }) := by
  simp [World.step, h]

/-- Never a second response: over every history and for every object, at most one TALKRESP is
ever caused by it. -/
theorem never_two (ops : List Op) (i : Nat) :
    (outputsOf i ((World.run {} ops).2.2)).length ≤ 1 := by
  have h := winv_run {} [] winv_init ops
  simp only [List.nil_append] at h
  have hi := h i
  cases e : (World.run {} ops).1.reqs[i]? with
  | none => simp [hi.2.2 e]
  | some o =>
    cases o with
    | none => exact hi.2.1 e
    | some t => simp [(hi.1 t e).2]

/-- An object the application still holds has not been answered yet (nothing is sent on its
behalf before the application acts), and it still has its sender. -/
theorem held_unanswered (ops : List Op) (i : Nat) (t : TalkReq)
    (h : (World.run {} ops).1.reqs[i]? = some (some t)) :
    outputsOf i ((World.run {} ops).2.2) = [] ∧ t.sender = true := by
  have hw := winv_run {} [] winv_init ops
  simp only [List.nil_append] at hw
  exact ⟨((hw i).1 t h).2, ((hw i).1 t h).1⟩

/-- Exactly one: if, after any history `pre`, the node is running and the application consumes the
object `i` it holds (responding with a payload, or dropping it), then over the *whole* history -
whatever came before and whatever comes after - the responses caused by that object are exactly one
TALKRESP with the request's id, to the node address it came from, carrying the application's
payload (empty if dropped). -/
theorem answered_exactly_once (pre post : List Op) (i : Nat) (u : TalkUse) (t : TalkReq)
    (hrun : (World.run {} pre).1.running = true)
    (hheld : (World.run {} pre).1.reqs[i]? = some (some t)) :
    outputsOf i ((World.run {} (pre ++ .use i u :: post)).2.2) =
      [.response t.peer t.addr t.rid (.talk (payloadOf u))] := by
  obtain ⟨hnone, hs⟩ := held_unanswered pre i t hheld
  have hilt : i < (World.run {} pre).1.reqs.length := by
    rcases List.getElem?_eq_some_iff.mp hheld with ⟨hlt, _⟩; exact hlt
  rw [run_append]
  simp only [World.run, outputsOf_append, hnone, List.nil_append]
  rw [step_use_hit _ i u t hheld]
  simp only
  have hc : ({ (World.run {} pre).1 with reqs := (World.run {} pre).1.reqs.set i none } : World).reqs[i]? =
      some none := by simp [hilt]
  rw [(consumed_stays _ i hc post).2, outputsOf_tag_same, life_outputs t hs, hrun]
  simp

/-- After shutdown: from any state in which the service has stopped, whatever the application does
with the objects it holds (and whatever else happens), nothing is sent any more. -/
theorem after_shutdown_silent (pre post : List Op)
    (hstop : (World.run {} pre).1.running = false) :
    (World.run {} (pre ++ post)).2.2 = (World.run {} pre).2.2 := by
  rw [run_append]
  simp [(stopped_stays _ hstop post).2]

/-- No use of any object in any history panics (`sender.take().unwrap()` is never reached with an
empty sender), and responding after shutdown yields the error value. -/
theorem never_panics (ops : List Op) : TalkResult.panic ∉ (World.run {} ops).2.1 := by
  suffices H : ∀ (w : World) (outs : List (Nat × Out)), WInv w outs →
      TalkResult.panic ∉ (w.run ops).2.1 from H {} [] winv_init
  induction ops with
  | nil => intro w outs _; simp [World.run]
  | cons op rest ih =>
    intro w outs hw
    have hrest := ih (w.step op).1 _ (winv_step w outs hw op)
    simp only [World.run, List.mem_append, not_or]
    refine ⟨?_, hrest⟩
    cases op with
    | shutdown => simp [World.step]
    | deliver rid peer addr => by_cases hr : w.running = true <;> simp [World.step, hr]
    | use j u =>
      by_cases hhit : ∃ t, w.reqs[j]? = some (some t)
      · obtain ⟨t, hj⟩ := hhit
        have hs := ((hw j).1 t hj).1
        rw [step_use_hit w j u t hj]
        cases u <;> cases w.running <;>
          simp [TalkReq.life, TalkReq.respond, hs]
      · have hm : ∀ t, w.reqs[j]? ≠ some (some t) := fun t ht => hhit ⟨t, ht⟩
        rw [step_use_miss w j u hm]
        simp

/-- Non-vacuity of the history theorems: three requests held concurrently (two with the same id
from different peers), answered out of order, one dropped, one consumed after shutdown. -/
example :
    let a : Addr := { v6 := false, sock := 655369000 }
    let ops : List Op := [.deliver [1] 7 a, .deliver [1] 8 a, .deliver [2] 7 a,
      .use 1 (.respond [9, 9]), .use 0 .dropOnly, .shutdown, .use 2 (.respond [5])]
    (World.run {} ops).2.2 = [(1, .response 8 a [1] (.talk [9, 9])), (0, .response 7 a [1] (.talk []))] ∧
    (World.run {} ops).2.1 = [.ok, .channelClosed] := by
  decide

/-- Non-vacuity: a delivered request object. -/
example : ({ rid := [1, 2], peer := 7, addr := { v6 := false, sock := 655369000 } } : TalkReq).sender = true := rfl

end Discv5.Props.C20

/- C04 — Every request gets exactly one outcome (handler model). -/
import Discv5Model.Proofs.HandlerRequests
namespace Discv5.H
open RQ

/-- External request ids are tracked at most once (no duplicates among active + queued). -/
theorem tracked_nodup (c : Cfg) (evs : List Ev) (h : AppDiscipline c evs) :
    (trackedExt (run c evs)).Nodup :=
  tracked_nodup' c evs h

/-- A request that is not tracked is silent: no response and no failure is reported for it (unless
this very step submits it). -/
theorem untracked_silent (c : Cfg) (evs : List Ev) (e : Ev) (rid : Nat)
    (h : AppDiscipline c (evs ++ [e])) (hr : rid < 1000000) (hn : rid ∉ trackedExt (run c evs))
    (hs : ∀ ct b, e ≠ .appRequest ct rid b) :
    ∀ o ∈ (step c (run c evs) e).2, aboutRid rid o = false :=
  untracked_silent' c evs e rid h hr hn hs

/-- A failure report ends the tracking of that request, and is reported once in that step. -/
theorem failure_untracks (c : Cfg) (evs : List Ev) (e : Ev) (rid : Nat) (er : Err)
    (h : AppDiscipline c (evs ++ [e])) (hr : rid < 1000000) (hf : Out.failed rid er ∈ (step c (run c evs) e).2) :
    rid ∉ trackedExt (run c (evs ++ [e])) ∧
    ((step c (run c evs) e).2.filter (isFailure rid)).length = 1 :=
  -- (`hr` is not needed: the bound follows from the id discipline alone)
  (fun _ => failure_untracks' c evs e rid er h hf) hr

/-- Never two failures: over a whole history at most one failure is reported per request. -/
theorem at_most_one_failure (c : Cfg) (evs : List Ev) (h : AppDiscipline c evs) (rid : Nat)
    (hr : rid < 1000000) :
    ((outputs c evs).filter (isFailure rid)).length ≤ 1 :=
  -- (`hr` is not needed: the bound follows from the id discipline alone)
  (fun _ => at_most_one_failure' c evs h rid) hr

/-- Never both: after a failure was reported for a request nothing more is reported for it. -/
theorem nothing_after_failure (c : Cfg) (evs rest : List Ev) (rid : Nat) (er : Err)
    (h : AppDiscipline c (evs ++ rest)) (hr : rid < 1000000) (hf : Out.failed rid er ∈ outputs c evs) :
    ∀ o ∈ (trace c (run c evs) rest).flatten, aboutRid rid o = false :=
  nothing_after_failure' c evs rest rid er h hr hf

/-- Never neither, part 1: every submitted request is still tracked or something was reported. -/
theorem every_request_accounted (c : Cfg) (evs : List Ev) (h : AppDiscipline c evs) (rid : Nat)
    (hr : rid ∈ appRids evs) :
    rid ∈ trackedExt (run c evs) ∨ ∃ o ∈ outputs c evs, aboutRid rid o = true :=
  every_request_accounted' c evs h rid hr

/-- Never neither, part 2 (invariant): a queued request always has a live timer behind it. -/
theorem pending_has_releaser (c : Cfg) (evs : List Ev) : PendingHasReleaser (run c evs) :=
  pending_has_releaser' c evs

/-- Never neither, part 3: once all timers have fired (no active request, no active challenge)
nothing is queued any more, hence every submitted request has had an outcome. -/
theorem quiescent_complete (c : Cfg) (evs : List Ev) (h : AppDiscipline c evs)
    (h1 : (run c evs).active = []) (h2 : (run c evs).challenges = []) :
    (∀ e ∈ (run c evs).pending, e.2 = []) ∧
    ∀ rid ∈ appRids evs, ∃ o ∈ outputs c evs, aboutRid rid o = true :=
  quiescent_complete' c evs h h1 h2

/-- A request call is put on the wire at most `request_retries` times with the same packet:
the retry counter never exceeds the configured number. -/
theorem retries_bounded (c : Cfg) (evs : List Ev) (hr : 1 ≤ c.requestRetries) :
    ∀ call ∈ (run c evs).active, call.retries ≤ c.requestRetries :=
  retries_bounded' c evs hr

/-- A timeout is only ever reported while time passes (a timer firing), never in reaction to a
datagram or an application call. -/
theorem timeout_only_from_timer (c : Cfg) (s : HState) (e : Ev) (rid : Nat)
    (h : Out.failed rid .timeout ∈ (step c s e).2) : ∃ dt, e = .adv dt :=
  timeout_only_from_timer' c s e rid h

/-! ### Non-vacuity -/

/-- A node with a single transmission per request (`request_retries = 1`) and a 10 ms timeout. -/
private def c04Cfg : Cfg where
  localId := 1
  localSeq := 1
  localRec := { id := 1, seq := 1, udp4 := some 100, udp6 := none }
  requestRetries := 1
  requestTimeout := 10
  sessionTtl := 1000
  sessionCap := 8
  listen := [⟨false, 100⟩]
  findnode0 := 0

private def c04Peer : NA := { id := 2, addr := ⟨false, 7⟩ }
private def c04Contact : Contact :=
  { na := c04Peer, record := some { id := 2, seq := 1, udp4 := some 7, udp6 := none } }

/-- Request 7 is submitted and never answered. -/
private def c04Timeout : List Ev := [.appRequest c04Contact 7 5, .adv 10]

/-- Request 7 is submitted, the peer challenges (WHOAREYOU), the handshake is sent, and the peer
answers under the new session key. -/
private def c04Answered : List Ev :=
  [.appRequest c04Contact 7 5,
   .dgram c04Peer.addr (.whoareyou 1000001 500 0),
   .dgram c04Peer.addr (.message 2 99
     (.enc { eph := 1000001, cd := 500, ini := 1, rcp := 2, toRcp := false } 99 1
       (.response 7 (.other 0)) true))]

/-- A history obeying the discipline in which a request fails by timeout … -/
example : AppDiscipline c04Cfg c04Timeout := ⟨by decide, by decide, by decide⟩
example : Out.failed 7 .timeout ∈ outputs c04Cfg c04Timeout := by decide +kernel
/-- … after which it is no longer tracked and the node is quiescent. -/
example : trackedExt (run c04Cfg c04Timeout) = [] ∧ (run c04Cfg c04Timeout).active = [] ∧
    (run c04Cfg c04Timeout).challenges = [] := by decide +kernel

/-- A quiescent state with a completed (answered) request. -/
example : AppDiscipline c04Cfg c04Answered := ⟨by decide, by decide, by decide⟩
example : (run c04Cfg c04Answered).active = [] ∧ (run c04Cfg c04Answered).challenges = [] ∧
    Out.response c04Peer 7 (.other 0) ∈ outputs c04Cfg c04Answered := by decide +kernel
/-- While the request is in flight it is tracked (the hypotheses of `untracked_silent` etc. are
not trivially true). -/
example : trackedExt (run c04Cfg [.appRequest c04Contact 7 5]) = [7] := by decide +kernel

end Discv5.H

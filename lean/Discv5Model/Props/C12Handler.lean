/-
C12 (handler half) — which record an incoming session is reported with.

`Session::establish_from_challenge` chooses between the record attached to the handshake and the
record the application supplied with its WHOAREYOU answer; `Handler::verify_enr` compares the
chosen record with the observed source.  The service admits whoever is reported `Established`, so
these two functions are the handler's part of "a record learnt from the network replaces a stored
one only if it is for the same id with a strictly higher sequence number" and of "an incoming
session admits a node only if the UDP address in its record equals the address its packets came
from".
-/
import Discv5Model.Model.Handler

namespace Discv5.Props.C12H
open Discv5.H

/-- The record a handshake is accepted with is the attached one or the known one — never anything
else —, it carries the claimed id, it is not older than the known record, and the attached record
is used only if no record is known or it is strictly newer than the known one. -/
theorem chosen_record (c : Cfg) (remoteId : Id) (ch : Challenge) (sig : Sig) (eph : Nat)
    (record : Option Rec) (sess : Session) (r : Rec)
    (h : establishFromChallenge c remoteId ch sig eph record = some (some (sess, r))) :
    (record = some r ∨ ch.remoteRec = some r) ∧ r.id = remoteId ∧
    (∀ k, ch.remoteRec = some k → k.seq ≤ r.seq) ∧
    (∀ k, ch.remoteRec = some k → r ≠ k → k.seq < r.seq) := by
  unfold establishFromChallenge at h
  cases record with
  | none =>
    cases hk : ch.remoteRec with
    | none => simp [hk] at h
    | some k =>
      simp only [hk] at h
      split at h
      · simp at h
      · split at h
        · simp at h
        · simp only [Option.some.injEq, Prod.mk.injEq] at h
          obtain ⟨_, rfl⟩ := h
          rename_i hid _hsig _
          refine ⟨Or.inr rfl, by simpa using hid, ?_, ?_⟩
          · intro k' hk'; cases hk'; exact Nat.le_refl _
          · intro k' hk' hne; cases hk'; exact absurd rfl hne
  | some n =>
    cases hk : ch.remoteRec with
    | none =>
      simp only [hk] at h
      split at h
      · simp at h
      · split at h
        · simp at h
        · simp only [Option.some.injEq, Prod.mk.injEq] at h
          obtain ⟨_, rfl⟩ := h
          rename_i hid _hsig _
          exact ⟨Or.inl rfl, (by simpa using hid), (fun k' hk' => by cases hk'), (fun k' hk' => by cases hk')⟩
    | some k =>
      simp only [hk] at h
      by_cases hnew : n.seq > k.seq
      · simp only [hnew, if_true] at h
        split at h
        · simp at h
        · split at h
          · simp at h
          · simp only [Option.some.injEq, Prod.mk.injEq] at h
            obtain ⟨_, rfl⟩ := h
            rename_i hid _hsig _
            refine ⟨Or.inl rfl, by simpa using hid, ?_, ?_⟩
            · intro k' hk'; cases hk'; exact Nat.le_of_lt hnew
            · intro k' hk' _; cases hk'; exact hnew
      · simp only [hnew, if_false] at h
        split at h
        · simp at h
        · split at h
          · simp at h
          · simp only [Option.some.injEq, Prod.mk.injEq] at h
            obtain ⟨_, rfl⟩ := h
            rename_i hid _hsig _
            refine ⟨Or.inr rfl, by simpa using hid, ?_, ?_⟩
            · intro k' hk'; cases hk'; exact Nat.le_refl _
            · intro k' hk' hne; cases hk'; exact absurd rfl hne

/-- `verify_enr`: a record is accepted for a node address exactly if it carries that node's id and
its UDP socket of the observed address family, when it has one, is the observed socket. -/
theorem verifyEnr_spec (r : Rec) (na : NA) :
    verifyEnr r na = true ↔
      r.id = na.id ∧
      (na.addr.v6 = false → ∀ a, r.udp4 = some a → a = na.addr.n) ∧
      (na.addr.v6 = true → ∀ a, r.udp6 = some a → a = na.addr.n) := by
  unfold verifyEnr
  cases hv : na.addr.v6 <;> cases h4 : r.udp4 <;> cases h6 : r.udp6 <;> simp

/-- Non-vacuity: a handshake carrying seq 3 against a known seq 5 is accepted with the known record;
carrying seq 7 with the attached one. -/
example :
    let c : Cfg := { localId := 1, localSeq := 1, localRec := { id := 1, seq := 1, udp4 := some 1, udp6 := none },
                     requestRetries := 1, requestTimeout := 10, sessionTtl := 10, sessionCap := 4, listen := [], findnode0 := 2 }
    let known : Rec := { id := 2, seq := 5, udp4 := some 2, udp6 := none }
    let ch : Challenge := { cd := 9, remoteRec := some known }
    let sig : Sig := { signer := 2, cd := 9, eph := 4, dst := 1 }
    ((establishFromChallenge c 2 ch sig 4 (some { known with seq := 3 })).map (·.map (·.2.seq))) = some (some 5) ∧
    ((establishFromChallenge c 2 ch sig 4 (some { known with seq := 7 })).map (·.map (·.2.seq))) = some (some 7) := by
  decide

end Discv5.Props.C12H

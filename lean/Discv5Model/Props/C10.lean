/-
C10 — Query results are sound, ordered and complete.

Property theorems only (helper lemmas: `Proofs/QueryLemmas.lean`; model: `Model/Query.lean`).
As in C09, every theorem holds for both variants (`closest` = `FindNodeQuery`, `predicate` =
`PredicateQuery`), every configuration, target and initial candidate list, and every history of
`next` / `on_success` / `on_failure` calls with arbitrary arguments.

"Answered" is what the code implements: a peer's `on_success` is accepted while the peer is
`Waiting` or `Unresponsive` (a late answer after the peer timeout still counts; in the predicate
variant even after an `on_failure` that arrived when the peer was already `Unresponsive`), i.e.
after the peer was handed out by `next`.
-/
import Discv5Model.Proofs.QueryLemmas

namespace Discv5.Query

/-- `result_sound`: every peer in the result was handed out by `next` at some point of the history
and `on_success` was called for it at a later point. -/
theorem result_sound (v : Variant) (cfg : Config) (target : Nat) (known : List (Nat × Bool))
    (evs : List Ev) (k : Nat) (hk : k ∈ intoResult (runQ (withConfig v cfg target known) evs)) :
    ∃ pre now mid closer post,
      evs = pre ++ .next now :: (mid ++ .success k closer :: post) ∧
      (next (runQ (withConfig v cfg target known) pre) now).2 = .waiting (some k) := by
  have h := linv_reach v cfg target known evs
  obtain ⟨e, he, hes, _, hek⟩ := mem_intoResult hk
  rw [← runL_init_q] at he
  have hans : k ∈ (runL (Led.init v cfg target known) evs).answered := by
    rw [← hek]; exact h.ans e he hes
  rcases answered_spec _ evs k hans with h0 | ⟨pre1, closer, post1, he1, hem⟩
  · cases h0
  · rcases emitted_spec _ pre1 k hem with h0 | ⟨pre, now, post2, he2, hn⟩
    · cases h0
    · refine ⟨pre, now, post2, closer, post1, ?_, ?_⟩
      · rw [he1, he2]; simp
      · rw [runL_init_q] at hn; exact hn

/-- `result_sorted_distinct`: the result is strictly increasing in XOR distance to the target and
has at most `num_results` entries. -/
theorem result_sorted_distinct (v : Variant) (cfg : Config) (target : Nat) (known : List (Nat × Bool))
    (evs : List Ev) :
    (intoResult (runQ (withConfig v cfg target known) evs)).Pairwise
        (fun a b => a ^^^ target < b ^^^ target) ∧
    (intoResult (runQ (withConfig v cfg target known) evs)).length ≤ cfg.numResults := by
  have h := linv_reach v cfg target known evs
  have hc := runQ_init_const v cfg target known evs
  constructor
  · have := intoResult_sorted (q := runQ (withConfig v cfg target known) evs)
      (by rw [← runL_init_q]; exact h.sorted) (by rw [← runL_init_q]; exact h.distOk)
    rw [hc.2.2] at this
    exact this
  · rw [intoResult_length, hc.1]; exact Nat.min_le_left _ _

/-- Strictly increasing distances: in particular no node occurs twice in the result. -/
theorem result_nodup (v : Variant) (cfg : Config) (target : Nat) (known : List (Nat × Bool))
    (evs : List Ev) : (intoResult (runQ (withConfig v cfg target known) evs)).Nodup := by
  refine List.Pairwise.imp ?_ (result_sorted_distinct v cfg target known evs).1
  intro a b hab heq
  rw [heq] at hab
  exact Nat.lt_irrefl _ hab

/-- `result_predicate`: a predicate lookup returns only nodes that were reported to it with a
record satisfying the predicate — as one of the first `num_results` initial candidates with
`predicate_match = true`, or in the `closer_peers` of an `on_success` call with the predicate true
on the record.  (The flag with which a node *first* entered the candidate map is the one that
counts; this theorem states that some report with a true flag exists.) -/
theorem result_predicate (cfg : Config) (target : Nat) (known : List (Nat × Bool))
    (evs : List Ev) (k : Nat)
    (hk : k ∈ intoResult (runQ (withConfig .predicate cfg target known) evs)) :
    (k, true) ∈ known.take cfg.numResults ∨
      ∃ pre p closer post, evs = pre ++ .success p closer :: post ∧ (k, true) ∈ closer := by
  have h := linv_reach .predicate cfg target known evs
  obtain ⟨e, he, _, hcnt, hek⟩ := mem_intoResult hk
  rw [(runQ_init_const .predicate cfg target known evs).2.1] at hcnt
  have hpm : e.pmatch = true := hcnt
  rw [← runL_init_q] at he
  have := h.rep e he
  rw [hek, hpm] at this
  exact reported_spec _ evs _ this

/-- `complete_when_short`: in every state in which the query is finished (progress `Finished`,
which only `next` sets — see `complete_when_short_next`), if the result has fewer than
`num_results` entries then no candidate is `NotContacted`: every candidate the query learned of
was contacted. -/
theorem complete_when_short (v : Variant) (cfg : Config) (target : Nat) (known : List (Nat × Bool))
    (evs : List Ev)
    (hfin : (runQ (withConfig v cfg target known) evs).progress = .finished)
    (hshort : (intoResult (runQ (withConfig v cfg target known) evs)).length < cfg.numResults) :
    ∀ e ∈ (runQ (withConfig v cfg target known) evs).peers, e.state ≠ .notContacted := by
  have h := (linv_reach v cfg target known evs).fin
  rw [runL_init_q] at h
  rcases h hfin with h1 | h1
  · exact h1
  · exfalso
    rw [intoResult_length] at hshort
    rw [(runQ_init_const v cfg target known evs).1] at h1 hshort
    omega

/-- `complete_when_short`, as seen by the caller: if a `next` call returns `Finished` (this is not
the pool's timeout cut-off) and the result taken afterwards has fewer than `num_results` entries,
then no candidate is `NotContacted`. -/
theorem complete_when_short_next (v : Variant) (cfg : Config) (target : Nat) (known : List (Nat × Bool))
    (evs : List Ev) (now : Nat)
    (hfin : (next (runQ (withConfig v cfg target known) evs) now).2 = .finished)
    (hshort : (intoResult (next (runQ (withConfig v cfg target known) evs) now).1).length < cfg.numResults) :
    ∀ e ∈ (next (runQ (withConfig v cfg target known) evs) now).1.peers, e.state ≠ .notContacted := by
  have hrun : runQ (withConfig v cfg target known) (evs ++ [.next now])
      = (next (runQ (withConfig v cfg target known) evs) now).1 := by
    rw [runQ_append]; rfl
  have := complete_when_short v cfg target known (evs ++ [.next now])
    (by rw [hrun]; exact (next_finished _ _).mp hfin) (by rw [hrun]; exact hshort)
  rw [hrun] at this
  exact this

/-- Once a query is finished nothing changes any more: later events and polls leave the state (and
hence the result) as it is. -/
theorem finished_is_final (q : Q) (hfin : q.progress = .finished) (ev : Ev) : (stepQ q ev).1 = q := by
  have hf : q.progress.isFinished = true := by rw [hfin]; rfl
  cases ev with
  | next now => simp [stepQ, next, hf]
  | success p closer => simp [stepQ, onSuccess, hf]
  | failure p => simp [stepQ, onFailure, hf]

/-! ### non-vacuity: concrete histories -/

private def exCfg : Config := ⟨2, 3, 10⟩
private def exKnown : List (Nat × Bool) := [(5, true), (3, true), (9, false), (12, true)]
private def exEvs : List Ev :=
  [.next 0, .next 0, .next 0, .success 3 [(1, true), (5, true), (0, false)], .next 1, .failure 5, .next 2,
   .success 1 [], .next 20, .success 0 [(2, true)], .next 21, .next 40, .success 9 [], .next 41]

/-- A full result: the three closest answering peers, including the target itself (distance 0),
one of them (0) answered after its peer timeout had passed. -/
example : intoResult (runQ (withConfig .closest exCfg 0 exKnown) exEvs) = [0, 1, 3] := by decide
/-- The predicate variant drops peer 0 (reported with a non-matching record) and, still short of
`num_results`, goes on to contact every remaining candidate before it finishes. -/
example : intoResult (runQ (withConfig .predicate exCfg 0 exKnown) exEvs) = [1, 3] := by decide
example : (runQ (withConfig .predicate exCfg 0 exKnown) exEvs).progress = .finished := by decide
/-- A finished query with a short (empty) result: the hypotheses of `complete_when_short` hold. -/
example : (next (runQ (withConfig .closest ⟨1, 3, 10⟩ 0 [(5, true)]) [.next 0, .failure 5]) 1).2 = .finished ∧
    (intoResult (next (runQ (withConfig .closest ⟨1, 3, 10⟩ 0 [(5, true)]) [.next 0, .failure 5]) 1).1).length < 3 := by
  decide

end Discv5.Query

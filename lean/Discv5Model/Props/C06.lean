/-
C06 — RPC message codec is exact, total and strict.
Property theorems only (helper lemmas live in `Proofs/RpcLemmas.lean`, `Proofs/RlpLemmas.lean`).
Numbers are the literals of the property statement (8, 256, 4, 16, 65535, message types 1…6); the
model uses the constants regenerated from /repo/src, so a changed source constant breaks these
proofs.  All theorems hold for every record decoder `recDec` (only `decode_never_panics` needs the
assumption `OracleSound`: a decoded record is re-encoded to at least one and at most as many bytes
as the item it was read from, which is how `payload.advance(enr.size())` stays in range).
-/
import Discv5Model.Proofs.RpcLemmas

namespace Discv5.Rpc
open Discv5.Rlp

/-- Round trip.  For every well-formed message of the six types (id of 0..8 bytes, `enr_seq` and
`total` below 2^64, any list of distances each ≤ 256, any list of canonical valid records,
arbitrary protocol / request / response bytes, port 1..65535, an IPv4 address or an IPv6 address
that is `::1` or not IPv4-mapped or IPv4-compatible) decoding the encoded bytes yields the same message. -/
theorem decode_encode (recDec : Bytes → Option Bytes) (m : Message) (h : WF recDec m) :
    decode recDec (encode m) = .ok m := by
  obtain ⟨id, body⟩ := m
  rw [decode_encode_eq recDec id body h.size, if_neg (by have := h.id; dsimp only at this; omega)]
  exact decodeBody_tail recDec id body h.body (tail_size id body h.size)

/-- Layout: the bytes are the message-type byte followed by one RLP list holding the request id
and the fields in the order of the discv5 wire specification:
PING `[id, enr-seq]` (1), PONG `[id, enr-seq, ip, port]` (2), FINDNODE `[id, [distances…]]` (3),
NODES `[id, total, [records…]]` (4), TALKREQ `[id, protocol, request]` (5), TALKRESP `[id,
response]` (6). -/
theorem encode_layout (id : Bytes) :
    (∀ s, encode ⟨id, .ping s⟩ = 1 :: rlpList (encodeBytes id ++ encodeUint s)) ∧
    (∀ s ip port, encode ⟨id, .pong s ip port⟩ =
      2 :: rlpList (encodeBytes id ++ encodeUint s ++ encodeBytes ip.octets ++ encodeUint port)) ∧
    (∀ ds, encode ⟨id, .findNode ds⟩ =
      3 :: rlpList (encodeBytes id ++ rlpList ((ds.map encodeUint).flatten))) ∧
    (∀ total rs, encode ⟨id, .nodes total rs⟩ =
      4 :: rlpList (encodeBytes id ++ encodeUint total ++ rlpList rs.flatten)) ∧
    (∀ p r, encode ⟨id, .talkReq p r⟩ = 5 :: rlpList (encodeBytes id ++ encodeBytes p ++ encodeBytes r)) ∧
    (∀ r, encode ⟨id, .talkResp r⟩ = 6 :: rlpList (encodeBytes id ++ encodeBytes r)) := by
  refine ⟨fun s => ?_, fun s ip port => ?_, fun ds => ?_, fun total rs => ?_, fun p r => ?_,
    fun r => ?_⟩
  · rw [encode_eq]; rfl
  · rw [encode_eq]; simp [frame, rlpList, Body.tail, msgType_pong]
  · rw [encode_eq]
    show frame 3 (encodeBytes id ++ encodeU64List ds) = _
    unfold encodeU64List
    rw [← flatten_encodeUint_length]
    rfl
  · rw [encode_eq]; simp [frame, rlpList, Body.tail, msgType_nodes, nodesField]
  · rw [encode_eq]; simp [frame, rlpList, Body.tail, msgType_talkReq]
  · rw [encode_eq]; rfl

/-- Layout of the items: an integer below 2^64 is the byte string of its minimal big-endian
representation (no leading zero, zero = empty string); a byte string is itself when it is a
single byte below `0x80`, otherwise `header ‖ bytes`; a header is `base + len` for `len < 56`
and `base' + |len| ‖ len` (minimal big-endian) otherwise. -/
theorem item_layout :
    (∀ x, x < 2 ^ 64 → encodeUint x = encodeBytes (beMin x)) ∧
    (∀ b : Bytes, encodeBytes b =
      if b.length = 1 ∧ (∀ x ∈ b, x.toNat < 0x80) then b else encodeHeader false b.length ++ b) ∧
    (∀ list len, len < 56 →
      encodeHeader list len = [UInt8.ofNat ((if list then 0xC0 else 0x80) + len)]) ∧
    (∀ list len, 56 ≤ len → encodeHeader list len =
      UInt8.ofNat ((if list then 0xF7 else 0xB7) + (beMin len).length) :: beMin len) := by
  refine ⟨encodeUint_eq, encodeBytes_eq, fun list len h => ?_, fun list len h => ?_⟩
  · unfold encodeHeader; rw [if_pos h]
  · unfold encodeHeader; rw [if_neg (by omega)]

/-- Totality: `Message::decode` terminates without panicking on every byte string (every slice,
index and `advance` is in range), for every record decoder whose re-encoding of an accepted record
is non-empty and not longer than the item it was read from. -/
theorem decode_never_panics (recDec : Bytes → Option Bytes) (horacle : OracleSound recDec)
    (b : Bytes) : decode recDec b ≠ .panic :=
  decode_ne_panic recDec horacle b

/-- Trailing bytes are rejected: no accepted byte string stays accepted when bytes are appended. -/
theorem reject_trailing (recDec : Bytes → Option Bytes) (b t : Bytes) (m : Message)
    (h : decode recDec b = .ok m) (ht : t ≠ []) : decode recDec (b ++ t) = .err .extraData := by
  obtain ⟨ty, p, hd, payload, idB, rest, rfl, hp, hh, hl, hlen, _⟩ := decode_inv recDec b m h
  have htl : 0 < t.length := List.length_pos_iff.mpr ht
  rw [List.cons_append, decode_cons recDec ty (p ++ t) (by simp; omega),
    Header.decode_append p t hd payload hh, Res.ok_bind]
  simp only [hl, Bool.not_true, Bool.false_eq_true, if_false]
  rw [if_pos (by simp; omega)]

/-- Missing bytes are rejected: every strict prefix of an accepted byte string is rejected. -/
theorem reject_truncated (recDec : Bytes → Option Bytes) (b : Bytes) (m : Message) (n : Nat)
    (h : decode recDec b = .ok m) (hn : n < b.length) :
    ∃ e, decode recDec (b.take n) = .err e := by
  obtain ⟨ty, p, hd, payload, idB, rest, rfl, hp, hh, hl, hlen, _⟩ := decode_inv recDec b m h
  by_cases h3 : n < 3
  · exact ⟨_, decode_short recDec _ (by simp; omega)⟩
  · obtain ⟨k, rfl⟩ : ∃ k, n = k + 1 := ⟨n - 1, by omega⟩
    simp only [List.length_cons] at hn
    rw [List.take_succ_cons, decode_cons recDec ty (p.take k) (by simp; omega)]
    cases hq : Header.decode (p.take k) with
    | panic => exact absurd hq (Header.decode_ne_panic _)
    | err e => exact ⟨e, rfl⟩
    | ok x =>
      obtain ⟨h', r'⟩ := x
      have happ := Header.decode_append (p.take k) (p.drop k) h' r' hq
      rw [List.take_append_drop, hh] at happ
      simp only [Res.ok.injEq, Prod.mk.injEq] at happ
      obtain ⟨rfl, rfl⟩ := happ
      refine ⟨.extraData, ?_⟩
      rw [Res.ok_bind]
      simp only [hl, Bool.not_true, Bool.false_eq_true, if_false]
      rw [if_pos (by simp at hlen; omega)]

/-- Request ids longer than 8 bytes are rejected: every accepted message has an id of at most 8
bytes. -/
theorem reject_long_id (recDec : Bytes → Option Bytes) (b : Bytes) (m : Message)
    (h : decode recDec b = .ok m) : m.id.length ≤ 8 := by
  obtain ⟨ty, p, hd, payload, idB, rest, _, _, _, _, _, _, hid, hbody⟩ := decode_inv recDec b m h
  rw [(decodeBody_sound recDec ty idB rest m hbody).1]; exact hid

/-- … and the encoding of any message whose id has more than 8 bytes is rejected. -/
theorem reject_long_id_encoded (recDec : Bytes → Option Bytes) (id : Bytes) (body : Body)
    (hid : 8 < id.length) (hsize : (encode ⟨id, body⟩).length < 2 ^ 64) :
    decode recDec (encode ⟨id, body⟩) = .err .invalidIdLength := by
  rw [decode_encode_eq recDec id body hsize, if_pos hid]

/-- FINDNODE distances above 256 are rejected: every accepted FINDNODE holds only distances
≤ 256. -/
theorem reject_distance_gt_256 (recDec : Bytes → Option Bytes) (b id : Bytes) (ds : List Nat)
    (h : decode recDec b = .ok ⟨id, .findNode ds⟩) : ∀ d ∈ ds, d ≤ 256 := by
  obtain ⟨ty, p, hd, payload, idB, rest, _, _, _, _, _, _, _, hbody⟩ := decode_inv recDec b _ h
  exact (decodeBody_sound recDec ty idB rest _ hbody).2

/-- … and the encoding of a FINDNODE with a distance above 256 is rejected. -/
theorem reject_distance_gt_256_encoded (recDec : Bytes → Option Bytes) (id : Bytes)
    (ds : List Nat) (hid : id.length ≤ 8) (hds : ∀ d ∈ ds, d < 2 ^ 64) (d : Nat) (hd : d ∈ ds)
    (hbig : 256 < d) (hsize : (encode ⟨id, .findNode ds⟩).length < 2 ^ 64) :
    decode recDec (encode ⟨id, .findNode ds⟩) = .err .badDistance := by
  rw [decode_encode_eq recDec id _ hsize, if_neg (by omega), msgType_findNode, Body.tail,
    decodeBody_findNode_raw recDec id ds hds (tail_size id _ hsize), if_pos]
  simp only [List.any_eq_true, decide_eq_true_eq]
  exact ⟨d, hd, hbig⟩

/-- A zero port is rejected: the port of every accepted PONG is in 1..65535. -/
theorem reject_zero_port (recDec : Bytes → Option Bytes) (b id : Bytes) (s : Nat) (ip : Ip)
    (port : Nat) (h : decode recDec b = .ok ⟨id, .pong s ip port⟩) : 1 ≤ port ∧ port ≤ 65535 := by
  obtain ⟨ty, p, hd, payload, idB, rest, _, _, _, _, _, _, _, hbody⟩ := decode_inv recDec b _ h
  have := (decodeBody_sound recDec ty idB rest _ hbody).2
  exact ⟨this.2.2.1, this.2.2.2⟩

/-- … and the encoding of a PONG with port 0 (and otherwise valid fields) is rejected. -/
theorem reject_zero_port_encoded (recDec : Bytes → Option Bytes) (id : Bytes) (s : Nat) (ip : Ip)
    (hid : id.length ≤ 8) (hs : s < 2 ^ 64) (hip : ip.octets.length = 4 ∨ ip.octets.length = 16)
    (hsize : (encode ⟨id, .pong s ip 0⟩).length < 2 ^ 64) :
    decode recDec (encode ⟨id, .pong s ip 0⟩) = .err .zeroPort := by
  obtain ⟨ip', hip'⟩ := ipOfBytes_total ip.octets hip
  have h16 : (16 : Nat) < 2 ^ 64 := by decide
  rw [decode_encode_eq recDec id _ hsize, if_neg (by omega), msgType_pong, Body.tail,
    decodeBody_pong_raw recDec id s ip.octets 0 hs (by omega) (by omega), hip', Res.ok_bind]
  rfl

/-- An IP field that has neither 4 nor 16 bytes is rejected: the address of every accepted PONG
has 4 (IPv4) or 16 (IPv6) octets. -/
theorem reject_bad_ip_len (recDec : Bytes → Option Bytes) (b id : Bytes) (s : Nat) (ip : Ip)
    (port : Nat) (h : decode recDec b = .ok ⟨id, .pong s ip port⟩) : IpLenOk ip := by
  obtain ⟨ty, p, hd, payload, idB, rest, _, _, _, _, _, _, _, hbody⟩ := decode_inv recDec b _ h
  exact (decodeBody_sound recDec ty idB rest _ hbody).2.2.1

/-- … and the encoding of a PONG whose IP field has another length is rejected. -/
theorem reject_bad_ip_len_encoded (recDec : Bytes → Option Bytes) (id : Bytes) (s : Nat) (ip : Ip)
    (port : Nat) (hid : id.length ≤ 8) (hs : s < 2 ^ 64) (hp : port ≤ 65535)
    (h4 : ip.octets.length ≠ 4) (h16 : ip.octets.length ≠ 16)
    (hsize : (encode ⟨id, .pong s ip port⟩).length < 2 ^ 64) :
    decode recDec (encode ⟨id, .pong s ip port⟩) = .err .badIpLength := by
  have ho := encodeBytes_length_ge ip.octets
  have ht := tail_size id _ hsize
  simp only [Body.tail, List.length_append] at ht
  rw [decode_encode_eq recDec id _ hsize, if_neg (by omega), msgType_pong, Body.tail,
    decodeBody_pong_raw recDec id s ip.octets port hs (by omega) hp, ipOfBytes_bad _ h4 h16]
  rfl

/-- Records that are not valid signed records are rejected: every record of an accepted NODES
message is an answer of the record decoder (`Enr::decode` verified it). -/
theorem reject_invalid_record (recDec : Bytes → Option Bytes) (b id : Bytes) (total : Nat)
    (rs : List Bytes) (h : decode recDec b = .ok ⟨id, .nodes total rs⟩) :
    ∀ r ∈ rs, ∃ item, recDec item = some r := by
  obtain ⟨ty, p, hd, payload, idB, rest, _, _, _, _, _, _, _, hbody⟩ := decode_inv recDec b _ h
  exact (decodeBody_sound recDec ty idB rest _ hbody).2.2

/-- … and the encoding of a NODES message that holds, behind any number of valid records, a list
item the record decoder refuses is rejected. -/
theorem reject_invalid_record_encoded (recDec : Bytes → Option Bytes) (id : Bytes) (total : Nat)
    (pre post : List Bytes) (c : Bytes) (hid : id.length ≤ 8) (ht : total < 2 ^ 64)
    (hpre : ∀ r ∈ pre, RecordWF recDec r) (hbad : recDec (rlpList c) = none)
    (hsize : (encode ⟨id, .nodes total (pre ++ rlpList c :: post)⟩).length < 2 ^ 64) :
    decode recDec (encode ⟨id, .nodes total (pre ++ rlpList c :: post)⟩) = .err .invalidEnr := by
  have hts := tail_size id _ hsize
  simp only [Body.tail, nodesField, List.length_append] at hts
  have hfl : (pre ++ rlpList c :: post).flatten =
      pre.flatten ++ (encodeHeader true c.length ++ c) ++ post.flatten := by
    simp [rlpList]
  have hlen : (pre.flatten ++ (encodeHeader true c.length ++ c) ++ post.flatten).length < 2 ^ 64 := by
    rw [← hfl]; omega
  rw [decode_encode_eq recDec id _ hsize, if_neg (by omega), msgType_nodes, Body.tail, nodesField,
    decodeBody_nodes_frame recDec id total _ ht (by rw [hfl]; exact hlen), hfl,
    nodesLoop_reject recDec pre c post.flatten _ hpre hbad hlen (Nat.le_refl _)]
  rfl

/-! ### Non-vacuity: concrete messages of each type satisfy `WF`, with a record decoder that
accepts exactly one record; the hypotheses of the rejection theorems are satisfiable. -/

private def exRec : Bytes := [0xc1, 0x80]
private def exRecDec : Bytes → Option Bytes := fun b => if b = exRec then some exRec else none

example : OracleSound exRecDec := by
  intro item r h
  unfold exRecDec at h
  split at h
  · rename_i hi
    simp only [Option.some.injEq] at h
    subst h hi
    simp [exRec]
  · simp at h

example : RecordWF exRecDec exRec := ⟨by simp [exRecDec], [0x80], by decide⟩

/-- Evaluates the length of a concrete encoding (minimal big-endian bytes included). -/
macro "enc_size" : tactic =>
  `(tactic| simp [encode, frame, Body.fields, Body.msgType, encodeBytes, encodeUint, encodeHeader,
      encodeU64List, uintLength, Ip.octets, beMin_pos, beMin_zero, exRec, rlpList])

example : WF exRecDec ⟨[1], .ping 1⟩ := ⟨by decide, by simp [BodyWF], by enc_size⟩

example : WF exRecDec ⟨[1, 2, 3, 4, 5, 6, 7, 8], .pong (2 ^ 64 - 1) (.v4 [127, 0, 0, 1]) 65535⟩ :=
  ⟨by decide, by simp [BodyWF, IpWF], by enc_size⟩

example : WF exRecDec ⟨[], .pong 0
    (.v6 [0x20, 0x01, 0x0d, 0xb8, 0, 0, 0, 0, 0, 0, 0, 0, 0, 0, 0, 1]) 1⟩ :=
  ⟨by decide, ⟨by decide, ⟨by decide, Or.inr (by decide)⟩, by decide, by decide⟩, by enc_size⟩

example : WF exRecDec ⟨[0x80], .pong 5 (.v6 [0, 0, 0, 0, 0, 0, 0, 0, 0, 0, 0, 0, 0, 0, 0, 1]) 9000⟩ :=
  ⟨by decide, ⟨by decide, ⟨by decide, Or.inl (by decide)⟩, by decide, by decide⟩, by enc_size⟩

example : WF exRecDec ⟨[1], .findNode [0, 255, 256]⟩ :=
  ⟨by decide, by simp [BodyWF], by enc_size⟩

theorem exRecs_wf : ∀ r ∈ [exRec, exRec], RecordWF exRecDec r := by
  intro r hr
  have : r = exRec := by simpa using hr
  subst this
  exact ⟨by simp [exRecDec], [0x80], by decide⟩

example : WF exRecDec ⟨[1], .nodes 1 [exRec, exRec]⟩ :=
  ⟨by decide, ⟨by decide, exRecs_wf⟩, by enc_size⟩

example : WF exRecDec ⟨[1], .talkReq [0x75, 0x74, 0x70] [1, 0, 0xa0]⟩ :=
  ⟨by decide, trivial, by enc_size⟩

example : WF exRecDec ⟨[1], .talkResp []⟩ := ⟨by decide, trivial, by enc_size⟩

/-- The rejection theorems are not vacuous: their hypotheses are satisfiable. -/
example : decode exRecDec (encode ⟨[1, 2, 3, 4, 5, 6, 7, 8, 9], .ping 1⟩) = .err .invalidIdLength :=
  reject_long_id_encoded _ _ _ (by decide) (by enc_size)

example : decode exRecDec (encode ⟨[1], .findNode [3, 257]⟩) = .err .badDistance :=
  reject_distance_gt_256_encoded _ _ _ (by decide) (by simp) 257 (by simp) (by decide) (by enc_size)

example : decode exRecDec (encode ⟨[1], .pong 1 (.v4 [10, 0, 0, 1]) 0⟩) = .err .zeroPort :=
  reject_zero_port_encoded _ _ _ _ (by decide) (by decide) (Or.inl (by decide)) (by enc_size)

example : decode exRecDec (encode ⟨[1], .pong 1 (.v4 [10, 0, 1]) 30303⟩) = .err .badIpLength :=
  reject_bad_ip_len_encoded _ _ _ _ _ (by decide) (by decide) (by decide) (by decide) (by decide)
    (by enc_size)

example : decode exRecDec (encode ⟨[1], .nodes 1 ([exRec] ++ rlpList [1, 2] :: [])⟩) =
    .err .invalidEnr :=
  reject_invalid_record_encoded exRecDec [1] 1 [exRec] [] [1, 2] (by decide) (by decide)
    (fun r hr => exRecs_wf r (by simp at hr; simp [hr])) (by decide) (by enc_size)

end Discv5.Rpc

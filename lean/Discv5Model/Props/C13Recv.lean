/-
C13 (receive path) — exemptions are per socket address.

`RecvHandler::handle_inbound` (`src/socket/recv.rs`) lets a datagram skip the packet filter exactly
when its own source socket address is in `expected_responses`.  `Model/Filter.lean` (`Recv`) is
the model; the limiter engine runs the real `handle_inbound` against it (receive-path profile).
-/
import Discv5Model.Model.Filter
import Discv5Model.Props.C18

namespace Discv5.Props.C13R
open Discv5.Filter Discv5.Limiter

/-- A source is exempt exactly while its own socket address is registered: registering another
port of the same host, or another host, does not exempt it; releasing it ends the exemption. -/
theorem permitted_iff_registered (r : Recv) (ip : Ip) (port : Nat) :
    r.permitted ip port = true ↔ (ip, port) ∈ r.expected := by
  simp [Recv.permitted]

theorem expect_then_permitted (r : Recv) (ip : Ip) (port : Nat) :
    (r.expect ip port).permitted ip port = true := by
  simp [Recv.permitted, Recv.expect, expectAddr]

theorem release_then_not_permitted (r : Recv) (ip : Ip) (port : Nat) :
    (r.release ip port).permitted ip port = false := by
  simp [Recv.permitted, Recv.release, releaseAddr]

theorem other_address_unaffected (r : Recv) (ip ip' : Ip) (port port' : Nat)
    (h : (ip', port') ≠ (ip, port)) :
    (r.expect ip' port').permitted ip port = r.permitted ip port ∧
    (r.release ip' port').permitted ip port = r.permitted ip port := by
  have h' : ((ip, port) == (ip', port')) = false := by
    simp only [beq_eq_false_iff_ne, ne_eq]; exact fun e => h e.symm
  constructor
  · simp only [Recv.permitted, Recv.expect, expectAddr, List.contains_cons, h', Bool.false_or]
    by_cases hm : (ip, port) ∈ r.expected
    · have : (ip, port) ∈ r.expected.filter (· != (ip', port')) := by
        simp [List.mem_filter, hm, bne, h']
      simp [List.contains_iff_mem, hm, this]
    · have : (ip, port) ∉ r.expected.filter (· != (ip', port')) := by
        simp [List.mem_filter, hm]
      simp [List.contains_iff_mem, hm, this]
  · simp only [Recv.permitted, Recv.release, releaseAddr]
    by_cases hm : (ip, port) ∈ r.expected
    · have : (ip, port) ∈ r.expected.filter (· != (ip', port')) := by
        simp [List.mem_filter, hm, bne, h']
      simp [List.contains_iff_mem, hm, this]
    · have : (ip, port) ∉ r.expected.filter (· != (ip', port')) := by
        simp [List.mem_filter, hm]
      simp [List.contains_iff_mem, hm, this]

/-- An awaited datagram is never dropped and is not charged to any quota or list. -/
theorem awaited_passes (r : Recv) (now : Nat) (ip : Ip) (port : Nat) (d : Decoded)
    (h : (ip, port) ∈ r.expected) :
    (r.inbound now ip port d).2 ≠ .dropped ∧ (r.inbound now ip port d).1.filter = r.filter ∧
    (r.inbound now ip port d).1.pb = r.pb := by
  have hp : r.permitted ip port = true := (permitted_iff_registered r ip port).mpr h
  have := exempt_bypasses r.filter r.pb now ip d
  simp only [Recv.inbound, hp]
  exact ⟨this.2.2, this.1, this.2.1⟩

/-- A datagram from a banned (and not permitted) host passes only on an exemption of its own socket
address: with only other addresses registered - another port of the same host included - it is
dropped. -/
theorem banned_host_needs_own_exemption (r : Recv) (now : Nat) (ip : Ip) (port : Nat) (d : Decoded)
    (hn : (ip, port) ∉ r.expected) (hperm : r.pb.permitIps ip = false)
    (hban : (r.pb.banIps ip).isSome = true) :
    (r.inbound now ip port d).2 = .dropped := by
  have hp : r.permitted ip port = false := by
    cases hq : r.permitted ip port with
    | false => rfl
    | true => exact absurd ((permitted_iff_registered r ip port).mp hq) hn
  have hb := (banned_dropped r.filter r.pb now ip 0).1 hperm hban
  simp [Recv.inbound, hp, handleInbound, hb]

/-- Non-vacuity: port 1000 of host 7 is awaited, host 7 is banned; a datagram from port 1000 passes,
one from port 1001 is dropped. -/
example :
    let pb : PermitBan := { PermitBan.empty with banIps := fun i => if i = 7 then some none else none }
    let f : Filter := Filter.new true none none none none
    let r : Recv := ({ filter := f, pb := pb } : Recv).expect 7 1000
    (r.inbound 0 7 1000 (.src 3)).2 = .inbound ∧ (r.inbound 0 7 1001 (.src 3)).2 = .dropped := by
  decide

end Discv5.Props.C13R

/-
C17, the two address families side by side: a PONG changes the record's socket of the family it
reports and leaves the other one alone (`pong_touches_its_own_family_only`); hence a family whose votes
the connectivity state does not admit keeps its socket through any history of PONGs
(`uncounted_family_keeps_its_socket`).  Together with `Props/C17Connectivity.lean` (after a failed
connectivity test the socket of that family is absent and its votes are not admitted for six hours):
the revoked socket stays absent for those six hours as far as PONGs are concerned.  (`countable` of the
`Pong` record is what `Model/Connectivity.lean` computes with `should_count_ip_vote`.)
-/
import Discv5Model.Proofs.IpVoteFamily
namespace Discv5.IpVote
variable {α : Type} [DecidableEq α]

/-- A PONG that reports an IPv6 socket leaves the IPv4 socket of the record alone, and vice versa -
for every vote table, every clock reading, every visiting order. -/
theorem pong_touches_its_own_family_only (thr : Nat → Nat) (s : Svc α) (p : Pong α) :
    (p.sock.isV6 = true → (pongStep thr s p).1.enr.ip4 = s.enr.ip4) ∧
    (p.sock.isV6 = false → (pongStep thr s p).1.enr.ip6 = s.enr.ip6) :=
  pongStep_other_family thr s p

/-- The socket of family `f` in a record. -/
def sockFam (r : Rec α) (f : Bool) : Option α := if f then r.ip6 else r.ip4

/-- **A family whose votes are not counted keeps its socket.**  Along any history of PONGs in which
every PONG that reports a socket of family `f` arrives while the connectivity state does not admit
votes of that family (`countable = false`), the record's socket of family `f` stays what it was -
whatever the PONGs of the other family do. -/
theorem uncounted_family_keeps_its_socket (thr : Nat → Nat) (f : Bool) (hist : List (Pong α)) :
    ∀ (s : Svc α), (∀ p ∈ hist, p.sock.isV6 = f → p.countable = false) →
      sockFam (runPongs thr s hist).1.enr f = sockFam s.enr f := by
  induction hist with
  | nil => intro s _; rfl
  | cons p rest ih =>
    intro s h
    have hrest := ih (pongStep thr s p).1 (fun q hq => h q (List.mem_cons_of_mem _ hq))
    have hstep : sockFam (pongStep thr s p).1.enr f = sockFam s.enr f := by
      by_cases hf : p.sock.isV6 = f
      · have hc := h p List.mem_cons_self hf
        have : pongStep thr s p = (s, []) := by unfold pongStep; simp [hc]
        rw [this]
      · have ho := pongStep_other_family thr s p
        unfold sockFam
        cases f with
        | true =>
          have : p.sock.isV6 = false := by cases hv : p.sock.isV6 <;> simp_all
          simp only [if_true]; exact ho.2 this
        | false =>
          have : p.sock.isV6 = true := by cases hv : p.sock.isV6 <;> simp_all
          simp only [Bool.false_eq_true, if_false]; exact ho.1 this
    show sockFam (runPongs thr (pongStep thr s p).1 rest).1.enr f = _
    rw [hrest, hstep]

/-- Non-vacuity: a record without IPv4 socket, five IPv6 votes for one address arrive (counted) and
two IPv4 votes that are not admitted: the IPv4 socket is still absent. -/
example :
    let s : Svc Nat := { votes := some { minimum := 2, duration := 1000 }, enr := { ip4 := none, ip6 := none, seq := 1 }, dual := true }
    let mk (voter : Nat) (sk : Sock Nat) (c : Bool) : Pong Nat :=
      { voter := voter, sock := sk, countable := c, connOut := true, setOk := true, tClear := 0, tIns := 0, tMaj := 0,
        sh4 := id, sh6 := id }
    sockFam (runPongs thrF64 s [mk 1 (.v6 7) true, mk 2 (.v6 7) true, mk 3 (.v4 9) false, mk 4 (.v4 9) false,
      mk 5 (.v6 7) true]).1.enr false = none :=
  uncounted_family_keeps_its_socket thrF64 false _ _ (by
    intro p hp hf
    simp only [List.mem_cons, List.mem_nil_iff, or_false] at hp
    rcases hp with rfl | rfl | rfl | rfl | rfl <;> first | rfl | (exact absurd hf (by simp [Sock.isV6])))

end Discv5.IpVote

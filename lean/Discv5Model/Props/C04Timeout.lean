/-
C04 (extension) — "A timeout is reported only if some request to that peer really went unanswered
for a full timeout period."

Model reading (`Model/Handler.lean`).  Model time is `HState.now` (the tokio clock); it only moves in
`adv dt` events, which fire every due timer at its own deadline, in order.  An active request is a
`Call` in `HState.active` with its packet `pkt`, its peer `callNA cl = cl.contact.na` and the
`deadline` of its timer.  `Out.failed rid .timeout` is the report; `Out.send na p` is a datagram put on
the wire towards `na`.

A history is looked at as its list of steps `history c evs : List Frame` (from the initial state, as
`run` does): frame `i` holds the state before step `i` (`pre`), the event (`ev`), the state after it
(`post`) and the outputs of that step (`outs`) — `history_spec` below pins this down.

What the code really does, and what therefore is (and is not) true:
* The timer of a call is armed (`deadline := now + request_timeout`) whenever its packet is put on
  the wire (`send_request`, the retransmission on a timeout, the handshake packet answering a
  WHOAREYOU, the re-encrypted packet when the session is re-keyed), but *also* without any
  transmission: when a NODES response announces more responses, and when a WHOAREYOU for the packet
  arrives from another address than the peer's.  In all cases the call then sits untouched in
  `active` until its timer fires or it is handled again.
* When a request runs out of retries, `fail_session` fails with the same `timeout` error *every* other
  request to that peer: the active ones (whatever their own timers say) and the ones still queued
  behind a pending handshake (which were never transmitted at all).  So the per-request reading
  "request `rid` itself was sent and then unanswered for a full period" is FALSE (counterexamples at
  the end of this file); true is the reading of the clause as worded: *some* request to that peer.

All theorems hold for every configuration and every event history; the lemmas are in
`Proofs/HandlerTimeout.lean`.
-/
import Discv5Model.Proofs.HandlerTimeout

namespace Discv5.H
open RQ TJ

/-- What the frames of `history c evs` are: frame `i` exists iff event `i` exists, it starts in the
state reached by the first `i` events and is the step of the model for event `i`; and the outputs of
the frames are the per-step outputs `trace` used by the other C04 theorems. -/
theorem history_spec (c : Cfg) (evs : List Ev) :
    (∀ (i : Nat) (fi : Frame), (history c evs)[i]? = some fi ↔ ∃ e, evs[i]? = some e ∧
      fi = ⟨run c (evs.take i), e, (step c (run c (evs.take i)) e).1, (step c (run c (evs.take i)) e).2⟩) ∧
    (history c evs).map (·.outs) = trace c {} evs :=
  ⟨history_get c evs, history_outs c evs⟩

/-- **Timeouts are justified** (trace theorem, all histories).  If step `k` of a history reports
`failed rid timeout`, then there are an expired call `cl` and steps `j0 ≤ j ≤ k` such that

* (peer) `rid` is a request to the peer of `cl`: in the state before step `k` it is the id of an
  active call to `callNA cl` or of a request queued for `callNA cl` (`ReqTo`; `rid = cl.rid` is the
  case of the request's own timer, the other cases are the requests failed along with it);
* (a) in step `j0` the request of `cl` was put on the wire towards that peer: a call `cl0` of the same
  request to the same peer had its packet `cl0.pkt` sent to `callNA cl0` in that step and was active
  at the end of that step (when `j0 = k` — sent and expired within one long `adv` step — `cl0` is
  `cl` itself);
* (c) it stayed unanswered: at the end of every step `i` with `j0 ≤ i < k` a call of that request to
  that peer is active;
* (b) a full timeout period passed: in step `j ≥ j0` the timer of `cl` was armed — its deadline is
  exactly one `request_timeout` after a moment within step `j`
  (`fj.pre.now + timeout ≤ cl.deadline ≤ fj.post.now + timeout`) — and the deadline has been reached
  when step `k` ends (`cl.deadline ≤ fk.post.now`); hence
  `fj.pre.now + request_timeout ≤ fk.post.now`, and the same with `f0` (time never runs backwards);
* (c', the strong form of c for the last period) from step `j` on the very same call `cl` — same
  packet, same deadline — is in `active` at the end of every step before `k`: nothing answered it,
  re-keyed it or re-armed it in between. -/
theorem timeout_justified (c : Cfg) (evs : List Ev) (k : Nat) (fk : Frame) (rid : Nat)
    (hk : (history c evs)[k]? = some fk) (hf : Out.failed rid .timeout ∈ fk.outs) :
    ∃ (cl cl0 : Call) (j0 j : Nat) (f0 fj : Frame),
      j0 ≤ j ∧ j ≤ k ∧ (history c evs)[j0]? = some f0 ∧ (history c evs)[j]? = some fj ∧
      ReqTo fk.pre rid (callNA cl) ∧
      cl0.rid = cl.rid ∧ callNA cl0 = callNA cl ∧
      Out.send (callNA cl0) cl0.pkt ∈ f0.outs ∧ (j0 < k → cl0 ∈ f0.post.active) ∧ (j0 = k → cl0 = cl) ∧
      (∀ i fi, j0 ≤ i → i < k → (history c evs)[i]? = some fi →
        ∃ x ∈ fi.post.active, x.rid = cl.rid ∧ callNA x = callNA cl) ∧
      fj.pre.now + c.requestTimeout ≤ cl.deadline ∧ cl.deadline ≤ fj.post.now + c.requestTimeout ∧
      cl.deadline ≤ fk.post.now ∧
      (∀ i fi, j ≤ i → i < k → (history c evs)[i]? = some fi → cl ∈ fi.post.active) :=
  timeout_justified' c evs k fk rid hk hf

/-- **Never before a full period** (readable corollary).  If step `k` reports `failed rid timeout`
then in an earlier-or-equal step `j` a datagram was sent to a peer `na` to which `rid` is a request
(it is an active call to `na` or queued for `na` when step `k` begins), and the model time at the end
of step `k` is at least the model time at the beginning of step `j` plus `request_timeout`. -/
theorem timeout_not_before_full_period (c : Cfg) (evs : List Ev) (k : Nat) (fk : Frame) (rid : Nat)
    (hk : (history c evs)[k]? = some fk) (hf : Out.failed rid .timeout ∈ fk.outs) :
    ∃ (j : Nat) (fj : Frame) (na : NA) (p : Pkt), j ≤ k ∧ (history c evs)[j]? = some fj ∧
      ReqTo fk.pre rid na ∧ Out.send na p ∈ fj.outs ∧
      fj.pre.now + c.requestTimeout ≤ fk.post.now :=
  timeout_not_before_full_period' c evs k fk rid hk hf

/-- **Every running timer has an origin** (the ghost bookkeeping, as an invariant of all reachable
states).  For every active call `cl` of the state after `evs`: in some step `j0` a call `cl0` of the
same request to the same peer had its packet sent to that peer (and was active at the end of that
step), since then the request has been outstanding at the end of every step, in some step `j ≥ j0`
the timer of `cl` was armed (deadline = a moment within step `j` plus `request_timeout`), and since
then `cl` has been sitting unchanged in `active`. -/
theorem timer_has_origin (c : Cfg) (evs : List Ev) :
    ∀ cl ∈ (run c evs).active, ∃ (j0 j : Nat) (f0 fj : Frame) (cl0 : Call),
      j0 ≤ j ∧ (history c evs)[j0]? = some f0 ∧ (history c evs)[j]? = some fj ∧
      cl0.rid = cl.rid ∧ callNA cl0 = callNA cl ∧
      Out.send (callNA cl0) cl0.pkt ∈ f0.outs ∧ cl0 ∈ f0.post.active ∧
      (∀ i fi, j0 ≤ i → (history c evs)[i]? = some fi →
        ∃ x ∈ fi.post.active, x.rid = cl.rid ∧ callNA x = callNA cl) ∧
      fj.pre.now + c.requestTimeout ≤ cl.deadline ∧ cl.deadline ≤ fj.post.now + c.requestTimeout ∧
      (∀ i fi, j ≤ i → (history c evs)[i]? = some fi → cl ∈ fi.post.active) :=
  origin_of_active c evs

/-- No running timer is set further ahead than one timeout period. -/
theorem deadline_le_now_add_timeout (c : Cfg) (evs : List Ev) :
    ∀ cl ∈ (run c evs).active, cl.deadline ≤ (run c evs).now + c.requestTimeout :=
  deadline_le_now_add_timeout' c evs

/-! ### Non-vacuity -/

/-- A node with a 10 ms request timeout and `retries` transmissions per request. -/
private def tCfg (retries : Nat) : Cfg where
  localId := 1
  localSeq := 1
  localRec := { id := 1, seq := 1, udp4 := some 100, udp6 := none }
  requestRetries := retries
  requestTimeout := 10
  sessionTtl := 1000
  sessionCap := 8
  listen := [⟨false, 100⟩]
  findnode0 := 0

private def tPeer : NA := { id := 2, addr := ⟨false, 7⟩ }
private def tContact : Contact :=
  { na := tPeer, record := some { id := 2, seq := 1, udp4 := some 7, udp6 := none } }
/-- the random packet that starts the handshake -/
private def tPkt : Pkt := .message 1 1000001 .garbage

/-- (begin, end, outputs) of every step -/
private def view (c : Cfg) (evs : List Ev) : List (Nat × Nat × List Out) :=
  (history c evs).map (fun f => (f.pre.now, f.post.now, f.outs))

/-- One transmission per request: request 7 is sent at time 0 and fails at time 10. -/
private def tOnce : List Ev := [.appRequest tContact 7 5, .adv 10]
example : view (tCfg 1) tOnce = [(0, 0, [.send tPeer tPkt]), (0, 10, [.failed 7 .timeout])] := by
  decide +kernel
/-- The hypotheses of the theorems are satisfiable (step 1 of this history reports the timeout) … -/
example : ∃ fk, (history (tCfg 1) tOnce)[1]? = some fk ∧ Out.failed 7 .timeout ∈ fk.outs :=
  ⟨_, rfl, by decide +kernel⟩
/-- … and one time unit earlier nothing is reported. -/
example : view (tCfg 1) [.appRequest tContact 7 5, .adv 9] = [(0, 0, [.send tPeer tPkt]), (0, 9, [])] := by
  decide +kernel

/-- Two transmissions per request: retransmission at 10, failure only at 20 — one full period after
the last transmission (`j0 = j = 1`, `k = 3` in `timeout_justified`). -/
example : view (tCfg 2) [.appRequest tContact 7 5, .adv 10, .adv 9, .adv 1] =
    [(0, 0, [.send tPeer tPkt]), (0, 10, [.send tPeer tPkt]), (10, 19, []), (19, 20, [.failed 7 .timeout])] := by
  decide +kernel

/-- The within-one-step case (`j0 = j = k`): a long `adv` retransmits at 10 and fails at 20. -/
example : view (tCfg 2) [.appRequest tContact 7 5, .adv 25] =
    [(0, 0, [.send tPeer tPkt]), (0, 25, [.send tPeer tPkt, .failed 7 .timeout])] := by
  decide +kernel

/-! ### The per-request reading is false

`∃ cl, cl.rid = rid ∧ …` instead of the `ReqTo` clause of `timeout_justified` does not hold: -/

/-- Request 8 is queued behind the pending handshake of request 7 and is never transmitted (the only
datagram of the whole history is the packet of request 7), no call with id 8 is ever active — and it
fails with `timeout` together with request 7. -/
private def tQueued : List Ev := [.appRequest tContact 7 5, .appRequest tContact 8 5, .adv 10]
example : view (tCfg 1) tQueued = [(0, 0, [.send tPeer tPkt]), (0, 0, []),
    (0, 10, [.failed 7 .timeout, .failed 8 .timeout])] := by decide +kernel
example : (history (tCfg 1) tQueued).all (fun f => f.post.active.all (fun cl => cl.rid != 8)) = true := by
  decide +kernel

/-- With an established session: request 8 is transmitted at time 3 and fails with `timeout` at time
10, only 7 time units later, because request 7 to the same peer (handshake packet sent at time 0)
expires then. -/
private def tEarly : List Ev :=
  [.appRequest tContact 7 5, .dgram tPeer.addr (.whoareyou 1000001 500 0), .adv 3,
   .appRequest tContact 8 5, .adv 7]
example : (view (tCfg 1) tEarly).map (fun v => (v.1, v.2.1)) = [(0, 0), (0, 0), (0, 3), (3, 3), (3, 10)] ∧
    ((history (tCfg 1) tEarly).map (fun f => f.outs.filter (fun o => aboutRid 8 o || aboutRid 7 o))) =
      [[], [], [], [], [.failed 7 .timeout, .failed 8 .timeout]] ∧
    ((history (tCfg 1) tEarly).map (fun f => f.post.active.map (fun cl => (cl.rid, cl.deadline)))) =
      [[(7, 10)], [(7, 10)], [(7, 10)], [(7, 10), (8, 13)], []] := by decide +kernel

end Discv5.H

/-
C04 (extension) — "A request is put on the wire at most 1+retries times per session key."

Model reading.  A `Call` (`RequestCall`) carries its current packet `pkt` and the counter
`retries`: 1 when the call is made, +1 for every retransmission by `handleRequestTimeout`, and the
call is failed instead of retransmitted once `retries ≥ request_retries` (so `request_retries` is
the "1+retries" of the property text; `retries_bounded` in `Props/C04.lean`).  The request is
encrypted anew — a *different* packet, with a fresh nonce — only when the session keys change:
`handleChallenge` (handshake packet under the keys derived from the WHOAREYOU) and
`replayActiveRequests` (re-encryption under the keys of a new session).  "Per session key" is
therefore "per packet".

Proved for every history, every configuration and every naming of the events
(`outputs c evs` is the complete output log, `sendCount p os` the number of `send` outputs in `os`
whose packet is exactly `p`; invariant and walk in `Proofs/HandlerTransmissions.lean`).
-/
import Discv5Model.Proofs.HandlerTransmissions

namespace Discv5.H
open RQ TX

/-- For every active request: its current packet has been put on the wire at most `retries`
times (the retry counter of that call) — over the whole history. -/
theorem transmissions_le_retries (c : Cfg) (evs : List Ev) :
    ∀ call ∈ (run c evs).active, sendCount call.pkt (outputs c evs) ≤ call.retries := by
  intro call hc
  have := ((run_TI c evs).calls call hc).2.2
  rwa [List.append_nil] at this

/-- … hence at most `request_retries` times. -/
theorem transmissions_bounded (c : Cfg) (evs : List Ev) (hr : 1 ≤ c.requestRetries) :
    ∀ call ∈ (run c evs).active, sendCount call.pkt (outputs c evs) ≤ c.requestRetries :=
  fun call hc => Nat.le_trans (transmissions_le_retries c evs call hc) (retries_bounded' c evs hr call hc)

/-- The same for requests that are no longer active (answered, failed) and for packets that were
replaced by a handshake packet or a re-encryption: no message or handshake packet at all is ever
put on the wire more than `request_retries` times (once, if `request_retries` is 0). -/
theorem packet_transmissions_bounded (c : Cfg) (evs : List Ev) (p : Pkt) (hp : NotWru p) :
    sendCount p (outputs c evs) ≤ max 1 c.requestRetries := by
  have := (run_TI c evs).total p hp
  rwa [List.append_nil] at this

/-- Different active requests carry different packets (different nonces): a transmission counted
for one call is never a transmission of another call's packet. -/
theorem active_packets_distinct (c : Cfg) (evs : List Ev) :
    (run c evs).active.Pairwise (fun a b => a.pkt.nonce ≠ b.pkt.nonce) :=
  (run_TI c evs).nodup

/-- Every message / handshake packet this node ever sent carries one of its own fresh nonce names
drawn so far — which is why a newly made packet (new name) has never been sent before. -/
theorem sent_packets_carry_drawn_nonces (c : Cfg) (evs : List Ev) (na : NA) (p : Pkt)
    (hs : Out.send na p ∈ outputs c evs) (hp : NotWru p) :
    ∃ j, j ≤ (run c evs).fresh.nonce ∧ p.nonce = mkName c j :=
  (run_TI c evs).log na p (by rw [List.append_nil]; exact hs) hp

/-- The packet of an active request is a message / handshake packet with a drawn nonce name, and
its retry counter is at least 1. -/
theorem active_packet_named (c : Cfg) (evs : List Ev) :
    ∀ call ∈ (run c evs).active, NotWru call.pkt ∧ 1 ≤ call.retries ∧
      ∃ j, j ≤ (run c evs).fresh.nonce ∧ call.pkt.nonce = mkName c j :=
  fun call hc => ⟨((run_TI c evs).calls call hc).1.1, ((run_TI c evs).calls call hc).2.1,
    ((run_TI c evs).calls call hc).1.2⟩

/-! ### Non-vacuity -/

/-- Three transmissions per packet, 10 ms apart. -/
private def txCfg : Cfg where
  localId := 1
  localSeq := 1
  localRec := { id := 1, seq := 1, udp4 := some 100, udp6 := none }
  requestRetries := 3
  requestTimeout := 10
  sessionTtl := 1000
  sessionCap := 8
  listen := [⟨false, 100⟩]
  findnode0 := 0

private def txPeer : NA := { id := 2, addr := ⟨false, 7⟩ }
private def txContact : Contact :=
  { na := txPeer, record := some { id := 2, seq := 1, udp4 := some 7, udp6 := none } }

/-- The request is sent and retransmitted twice: the bound is attained (3 = `retries` = limit). -/
example : (run txCfg [.appRequest txContact 7 5, .adv 10, .adv 10]).active.map
    (fun call => (call.retries, sendCount call.pkt (outputs txCfg [.appRequest txContact 7 5, .adv 10, .adv 10])))
    = [(3, 3)] := by decide +kernel

/-- After one retransmission the peer challenges: the call now carries the handshake packet (new
nonce), sent once, while its retry counter stays 2 — the inequality can be strict. -/
example : (run txCfg [.appRequest txContact 7 5, .adv 10, .dgram txPeer.addr (.whoareyou 1000001 500 0)]).active.map
    (fun call => (call.pkt.nonce, call.retries, sendCount call.pkt
      (outputs txCfg [.appRequest txContact 7 5, .adv 10, .dgram txPeer.addr (.whoareyou 1000001 500 0)])))
    = [(1000002, 2, 1)] := by decide +kernel

/-- The replaced packet (the first, random one) stays at its two transmissions for ever after. -/
example : sendCount (.message 1 1000001 .garbage)
    (outputs txCfg [.appRequest txContact 7 5, .adv 10, .dgram txPeer.addr (.whoareyou 1000001 500 0),
      .adv 10, .adv 10, .adv 10]) = 2 := by decide +kernel

end Discv5.H

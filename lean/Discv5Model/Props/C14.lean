/-
C14 — Served FINDNODE and PING answers are correct and fit a datagram.

Statements about `sendNodesResponse` / `handleRequest` of `Model/Service.lean` and the RLP length
function `nodesRespLen` stated there.  Helper lemmas (the model's sort + dedup, the closed form of
`nodesToSend`, the packet count, value predicates preserved by pending application) live in
`Proofs/ServiceServe.lean`; exactness of `nodes_by_distances` is C08.
-/
import Discv5Model.Model.Service
import Discv5Model.Model.KBucketSpec
import Discv5Model.Proofs.ServiceServe
import Discv5Model.Props.C08

namespace Discv5.Props.C14
open Discv5.KB Discv5.Svc

/-- The record lists of the NODES packets among the emitted messages. -/
def packetsOf (outs : List Out) : List (List Rec) :=
  outs.filterMap fun
    | .response _ _ _ (.nodes _ recs) => some recs
    | _ => none

/-- The table part of an answer: `nodes_by_distances` over the sorted, de-duplicated non-zero
distances with the configured maximum, minus the requester. -/
def tablePart (s : Svc) (requester : Nat) (ds : List Nat) : List Rec :=
  ((s.table.nodesByDistances s.cfg.kb s.now ((Svc.dedupAdj (Svc.sortNat ds)).filter (· != 0))
      s.cfg.maxNodesResponse).2.filter (fun n => n.key != requester)).map (·.value)

/-- The requester's own entry is never returned: every table record of the answer comes from an
entry filed under a key other than the requester's id. -/
theorem requester_absent (s : Svc) (requester : Nat) (ds : List Nat) :
    ∀ r ∈ tablePart s requester ds,
      ∃ n ∈ (s.table.nodesByDistances s.cfg.kb s.now ((Svc.dedupAdj (Svc.sortNat ds)).filter (· != 0))
        s.cfg.maxNodesResponse).2, n.value = r ∧ n.key ≠ requester := by
  intro r hr
  unfold tablePart at hr
  simp only [List.mem_map, List.mem_filter] at hr
  obtain ⟨n, ⟨hn, hk⟩, rfl⟩ := hr
  exact ⟨n, hn, rfl, by simpa using hk⟩

theorem split_fold_flatten (recs : List Rec) : ∀ st : Svc.SplitSt,
    ((recs.foldl Svc.splitStep st).done ++ [(recs.foldl Svc.splitStep st).cur]).flatten =
      (st.done ++ [st.cur]).flatten ++ recs := by
  induction recs with
  | nil => intro st; simp
  | cons r rest ih =>
    intro st
    rw [List.foldl_cons, ih]
    unfold Svc.splitStep
    split <;> simp

/-- The split keeps every record, in order. -/
theorem split_flatten (recs : List Rec) : (Svc.splitPackets recs).flatten = recs := by
  unfold Svc.splitPackets
  simp only
  rw [split_fold_flatten]
  simp

def sizeSum (p : List Rec) : Nat := (p.map (·.size)).sum

theorem split_fold_sound (recs : List Rec) (hsz : ∀ r ∈ recs, r.size < 1280 - 104) :
    ∀ st : Svc.SplitSt, sizeSum st.cur = st.size → st.size < 1280 - 104 →
      (∀ p ∈ st.done, sizeSum p < 1280 - 104) →
      ∀ p ∈ (recs.foldl Svc.splitStep st).done ++ [(recs.foldl Svc.splitStep st).cur],
        sizeSum p < 1280 - 104 := by
  induction recs with
  | nil =>
    intro st h1 h2 h3 p hp
    simp at hp
    rcases hp with hp | hp
    · exact h3 p hp
    · subst hp; omega
  | cons r rest ih =>
    intro st h1 h2 h3
    rw [List.foldl_cons]
    have hr := hsz r (by simp)
    apply ih (fun x hx => hsz x (by simp [hx]))
    · unfold Svc.splitStep
      split <;> simp [sizeSum] at h1 ⊢ <;> omega
    · unfold Svc.splitStep
      split
      · rename_i h
        have : Svc.splitLimit = 1280 - 104 := by decide
        simp only
        omega
      · simp only; exact hr
    · unfold Svc.splitStep
      split
      · exact h3
      · intro p hp
        simp at hp
        rcases hp with hp | hp
        · exact h3 p hp
        · subst hp; omega

/-- **split_sound** (sizes).  If every record is smaller than the limit, the record sizes of every
packet sum to less than `1280 − 104`.  (The literal `1280 - 104` is compared with the regenerated
`MAX_PACKET_SIZE - NODES_SPLIT_MARGIN` inside the proof: a changed margin breaks it.) -/
theorem split_sound (recs : List Rec) (hsz : ∀ r ∈ recs, r.size < 1280 - 104) :
    ∀ p ∈ Svc.splitPackets recs, (p.map (·.size)).sum < 1280 - 104 := by
  unfold Svc.splitPackets
  simp only
  exact split_fold_sound recs hsz {} (by simp [sizeSum]) (by simp) (by simp)

theorem nodesPackets_total (recs : List Rec) :
    (Svc.nodesPackets recs).2 = (Svc.nodesPackets recs).1.length ∧ 1 ≤ (Svc.nodesPackets recs).1.length := by
  unfold Svc.nodesPackets
  split
  · simp
  · simp [Svc.splitPackets]

/-- **split_sound** (framing).  Every message emitted for a FINDNODE is a NODES response to the
requester's node address carrying the request's id, and `total` equals the number of packets. -/
theorem split_framing (s : Svc) (requester : Nat) (addr : Addr) (rid : Bytes) (ds : List Nat) :
    ∀ o ∈ (s.sendNodesResponse requester addr rid ds).2,
      ∃ recs, o = .response requester addr rid
        (.nodes (s.sendNodesResponse requester addr rid ds).2.length recs) := by
  intro o ho
  unfold Svc.sendNodesResponse at ho ⊢
  simp only at ho ⊢
  have ht := (nodesPackets_total (s.nodesToSend requester ds).2).1
  simp only [List.mem_map, List.length_map] at ho ⊢
  obtain ⟨p, _, hp⟩ := ho
  exact ⟨p, by rw [← hp, ht]⟩

/-- At least one packet is always sent (an empty answer is one packet with `total = 1`). -/
theorem answered (s : Svc) (requester : Nat) (addr : Addr) (rid : Bytes) (ds : List Nat) :
    1 ≤ (s.sendNodesResponse requester addr rid ds).2.length := by
  unfold Svc.sendNodesResponse
  simp only [List.length_map]
  exact (nodesPackets_total _).2

theorem packetsOf_map (peer : Nat) (addr : Addr) (rid : Bytes) (total : Nat) (ps : List (List Rec)) :
    packetsOf (ps.map fun p => Out.response peer addr rid (.nodes total p)) = ps := by
  induction ps with
  | nil => rfl
  | cons p ps ih =>
    unfold packetsOf at ih ⊢
    rw [List.map_cons, List.filterMap_cons]
    simp only
    rw [ih]

theorem nodesPackets_flatten (recs : List Rec) : (Svc.nodesPackets recs).1.flatten = recs := by
  unfold Svc.nodesPackets
  by_cases h : recs.isEmpty
  · rw [if_pos h]
    have : recs = [] := by simpa using h
    subst this
    rfl
  · rw [if_neg h]
    exact split_flatten recs

/-- **served_records.**  The records of all packets together are: the node's own record iff
distance 0 was requested, followed by its table entries at the requested distances
(`nodes_by_distances`, whose exactness is C08) without the requester's entry. -/
theorem served_records (s : Svc) (requester : Nat) (addr : Addr) (rid : Bytes) (ds : List Nat) :
    (packetsOf (s.sendNodesResponse requester addr rid ds).2).flatten =
      (if ds.contains 0 then [s.localRec] else []) ++ tablePart s requester ds := by
  unfold Svc.sendNodesResponse
  simp only
  rw [packetsOf_map, nodesPackets_flatten, Serve.nodesToSend_snd]
  rfl

/-- At most the configured maximum of table entries, plus the own record. -/
theorem served_count (s : Svc) (requester : Nat) (ds : List Nat) (hmax : 1 ≤ s.cfg.maxNodesResponse) :
    (s.nodesToSend requester ds).2.length ≤ s.cfg.maxNodesResponse + 1 := by
  rw [Serve.nodesToSend_snd]
  have h1 := Serve.nodesByDistances_length_le s.cfg.kb s.now s.table
    ((Svc.dedupAdj (Svc.sortNat ds)).filter (· != 0)) s.cfg.maxNodesResponse hmax
  have h2 := List.length_filter_le (fun n : Node Rec => n.key != requester)
    (s.table.nodesByDistances s.cfg.kb s.now ((Svc.dedupAdj (Svc.sortNat ds)).filter (· != 0))
      s.cfg.maxNodesResponse).2
  rw [List.length_append, List.length_map]
  by_cases h0 : ds.contains 0 = true
  · rw [if_pos h0]; simp only [List.length_cons, List.length_nil]; omega
  · rw [if_neg h0]; simp only [List.length_nil]; omega

/-- The distance list handed to `nodes_by_distances` (sorted, de-duplicated, 0 removed) is strictly
increasing — so the `Nodup` hypothesis of C08 `nodesByDistances_exact` holds — and its members are
exactly the non-zero requested distances. -/
theorem served_distances (ds : List Nat) :
    ((Svc.dedupAdj (Svc.sortNat ds)).filter (· != 0)).Pairwise (· < ·) ∧
    ∀ d, d ∈ (Svc.dedupAdj (Svc.sortNat ds)).filter (· != 0) ↔ d ∈ ds ∧ d ≠ 0 := by
  obtain ⟨h1, h2⟩ := Serve.normDistances ds
  refine ⟨h1.filter _, fun d => ?_⟩
  rw [List.mem_filter, h2]
  simp

/-- **served_records** combined with C08: on a table satisfying the routing-table invariant, the
table part of the answer is taken from `want.take max_nodes_response`, where `want` is the
concatenation (by increasing distance) of the buckets at the requested distances in 1..256 (after
the lazily applied pending nodes); every such node is filed at a requested distance, no id twice. -/
theorem served_table_exact (s : Svc) (ds : List Nat) (h : TInv s.cfg.kb s.table)
    (hmax : 1 ≤ s.cfg.maxNodesResponse) :
    let D := (Svc.dedupAdj (Svc.sortNat ds)).filter (· != 0)
    let r := s.table.nodesByDistances s.cfg.kb s.now D s.cfg.maxNodesResponse
    let want := (D.filter (fun d => 1 ≤ d ∧ d ≤ 256)).flatMap (fun d => (r.1.bucket (d - 1)).nodes)
    (∀ n ∈ r.2, ∃ d ∈ ds, 1 ≤ d ∧ d ≤ 256 ∧ bucketIndex s.table.localKey n.key = some (d - 1)) ∧
    r.2 = want.take s.cfg.maxNodesResponse ∧ (r.2.map (·.key)).Nodup := by
  intro D r want
  obtain ⟨hp, hm⟩ := served_distances ds
  have hnd : D.Nodup := hp.imp (fun h => Nat.ne_of_lt h)
  obtain ⟨h1, h2, h3⟩ := nodesByDistances_exact s.cfg.kb s.now s.table D s.cfg.maxNodesResponse h hnd hmax
  refine ⟨?_, h2, h3⟩
  intro n hn
  obtain ⟨d, hd, hd1, hd2, hd3⟩ := h1 n hn
  exact ⟨d, ((hm d).1 hd).1, hd1, hd2, hd3⟩

theorem beLen_le_two (n : Nat) (h : n < 65536) : beLen n ≤ 2 := by
  unfold beLen
  by_cases hz : n = 0
  · simp [hz]
  · rw [if_neg hz]
    have : n.log2 < 16 := (Nat.log2_lt hz).mpr (by omega)
    omega

theorem rlpHeaderLen_le_three (n : Nat) (h : n < 65536) : rlpHeaderLen n ≤ 3 := by
  unfold rlpHeaderLen
  have := beLen_le_two n h
  split <;> omega

theorem rlpBytesLenOf_le (b : Bytes) (h : b.length ≤ 8) : rlpBytesLenOf b ≤ 9 := by
  unfold rlpBytesLenOf
  split
  · unfold rlpBytesLen rlpHeaderLen
    split <;> simp
  · unfold rlpBytesLen rlpHeaderLen
    simp
    split <;> omega

/-- **fits_datagram** (arithmetic core).  A NODES response whose record sizes sum to less than
`1280 − 104`, with a request id of at most 8 bytes and a one-byte `total` (≤ 127), encodes — as a
message packet: 16 masking IV + 23 static header + 32 auth-data + ciphertext + 16 tag — to at most
1280 bytes on the wire. -/
theorem fits_datagram (rid : Bytes) (total : Nat) (sizes : List Nat) (hrid : rid.length ≤ 8)
    (htotal : total ≤ 127) (hsum : sizes.sum < 1280 - 104) :
    16 + 23 + 32 + nodesRespLen rid total sizes + 16 ≤ 1280 := by
  unfold nodesRespLen
  simp only
  have h1 := rlpBytesLenOf_le rid hrid
  have h2 : rlpUintLen total = 1 := by unfold rlpUintLen; rw [if_pos (by omega)]
  have h3 := rlpHeaderLen_le_three sizes.sum (by omega)
  have h4 := rlpHeaderLen_le_three
    (rlpBytesLenOf rid + rlpUintLen total + (rlpHeaderLen sizes.sum + sizes.sum)) (by omega)
  omega

/-- `datagramLen` is the sum spelled out in `fits_datagram`. -/
theorem datagramLen_eq (n : Nat) : datagramLen n = 16 + 23 + 32 + n + 16 := by
  unfold datagramLen Consts.IV_LENGTH Consts.STATIC_HEADER_LENGTH
  omega

/-- The packets of an answer are `nodesPackets` of the collected records, `total` their number. -/
theorem mem_sendNodesResponse {s : Svc} {requester : Nat} {addr : Addr} {rid : Bytes} {ds : List Nat}
    {total : Nat} {recs : List Rec}
    (h : Out.response requester addr rid (.nodes total recs) ∈
      (s.sendNodesResponse requester addr rid ds).2) :
    recs ∈ (Svc.nodesPackets (s.nodesToSend requester ds).2).1 ∧
    total = (Svc.nodesPackets (s.nodesToSend requester ds).2).1.length := by
  unfold Svc.sendNodesResponse at h
  simp only [List.mem_map] at h
  obtain ⟨p, hp, he⟩ := h
  injection he with _ _ _ hb
  injection hb with ht hr
  subst hr
  exact ⟨hp, by rw [← ht, (nodesPackets_total _).1]⟩

/-- Every record `nodesToSend` collects is the own record or a stored / pending record of the table. -/
theorem nodesToSend_sizes (s : Svc) (requester : Nat) (ds : List Nat) (hmax : 1 ≤ s.cfg.maxNodesResponse)
    (P : Rec → Prop) (hown : P s.localRec) (htab : Serve.TVals P s.table) :
    ∀ r ∈ (s.nodesToSend requester ds).2, P r := by
  intro r hr
  rw [Serve.nodesToSend_snd, List.mem_append] at hr
  rcases hr with hr | hr
  · by_cases h0 : ds.contains 0 = true
    · rw [if_pos h0, List.mem_singleton] at hr; rw [hr]; exact hown
    · rw [if_neg h0] at hr; cases hr
  · rw [List.mem_map] at hr
    obtain ⟨n, hn, rfl⟩ := hr
    exact Serve.nodesByDistances_vals s.cfg.kb s.now s.table _ s.cfg.maxNodesResponse hmax htab n
      (List.mem_filter.1 hn).1

theorem nodesPackets_sound (recs : List Rec) (hsz : ∀ r ∈ recs, r.size < 1280 - 104) :
    ∀ p ∈ (Svc.nodesPackets recs).1, (p.map (·.size)).sum < 1280 - 104 := by
  unfold Svc.nodesPackets
  by_cases h : recs.isEmpty
  · rw [if_pos h]
    intro p hp
    rw [List.mem_singleton] at hp
    subst hp
    decide
  · rw [if_neg h]
    exact split_sound recs hsz

/-
ORIGINAL STATEMENT (false as formulated; kept for reference):

theorem served_fits_datagram (s : Svc) (requester : Nat) (addr : Addr) (rid : Bytes) (ds : List Nat)
    (hrid : rid.length ≤ 8) (hmax : 1 ≤ s.cfg.maxNodesResponse ∧ s.cfg.maxNodesResponse ≤ 125)
    (hown : s.localRec.size ≤ 300)
    (htab : ∀ b ∈ s.table.buckets, ∀ n ∈ b.nodes, n.value.size ≤ 300) :
    ∀ total recs, Out.response requester addr rid (.nodes total recs) ∈
        (s.sendNodesResponse requester addr rid ds).2 →
      datagramLen (nodesRespLen rid total (recs.map (·.size))) ≤ 1280

`htab` bounds only the records of the *stored* nodes.  `nodes_by_distances` first applies the
pending node of every visited bucket, so a record waiting in a bucket's pending slot is promoted and
served by the very same call; the size hypothesis has to cover the pending slots too.  Counterexample
(`served_fits_datagram_original_false` below): a full bucket of 16 disconnected 300-byte records
whose pending slot holds a 2000-byte record.  Not an implementation defect: every `Enr` (stored or
pending) is at most 300 bytes by construction of the type; only the hypothesis was too narrow.
-/

/-- **fits_datagram** (end to end; corrected hypothesis `hpend`, see the comment above).  With every
record (stored ones, those in pending slots, and the own one) at most 300 bytes, a request id of at
most 8 bytes and a configured maximum of at most 125 records, every packet answering a FINDNODE fits
a datagram. -/
theorem served_fits_datagram (s : Svc) (requester : Nat) (addr : Addr) (rid : Bytes) (ds : List Nat)
    (hrid : rid.length ≤ 8) (hmax : 1 ≤ s.cfg.maxNodesResponse ∧ s.cfg.maxNodesResponse ≤ 125)
    (hown : s.localRec.size ≤ 300)
    (htab : ∀ b ∈ s.table.buckets, ∀ n ∈ b.nodes, n.value.size ≤ 300)
    (hpend : ∀ b ∈ s.table.buckets, ∀ p, b.pending = some p → p.node.value.size ≤ 300) :
    ∀ total recs, Out.response requester addr rid (.nodes total recs) ∈
        (s.sendNodesResponse requester addr rid ds).2 →
      datagramLen (nodesRespLen rid total (recs.map (·.size))) ≤ 1280 := by
  intro total recs hmem
  obtain ⟨hp, ht⟩ := mem_sendNodesResponse hmem
  have hsz : ∀ r ∈ (s.nodesToSend requester ds).2, r.size ≤ 300 :=
    nodesToSend_sizes s requester ds hmax.1 (fun r => r.size ≤ 300) hown
      (fun b hb => ⟨htab b hb, hpend b hb⟩)
  have hcount := served_count s requester ds hmax.1
  have hlen := Serve.nodesPackets_length_le (s.nodesToSend requester ds).2
  have hsum := nodesPackets_sound (s.nodesToSend requester ds).2
    (fun r hr => by have := hsz r hr; omega) recs hp
  rw [datagramLen_eq]
  exact fits_datagram rid total _ hrid (by omega) hsum

/-- The same with the size bound stated over `table_iter` (all stored and pending values). -/
theorem served_fits_datagram_tableValues (s : Svc) (requester : Nat) (addr : Addr) (rid : Bytes)
    (ds : List Nat) (hrid : rid.length ≤ 8)
    (hmax : 1 ≤ s.cfg.maxNodesResponse ∧ s.cfg.maxNodesResponse ≤ 125)
    (hown : s.localRec.size ≤ 300) (htab : ∀ v ∈ s.table.tableValues, v.size ≤ 300) :
    ∀ total recs, Out.response requester addr rid (.nodes total recs) ∈
        (s.sendNodesResponse requester addr rid ds).2 →
      datagramLen (nodesRespLen rid total (recs.map (·.size))) ≤ 1280 := by
  refine served_fits_datagram s requester addr rid ds hrid hmax hown ?_ ?_
  · intro b hb n hn
    apply htab
    unfold Table.tableValues
    rw [List.mem_flatMap]
    exact ⟨b, hb, List.mem_append_left _ (List.mem_map_of_mem hn)⟩
  · intro b hb p hp
    apply htab
    unfold Table.tableValues
    rw [List.mem_flatMap]
    exact ⟨b, hb, List.mem_append_right _ (by rw [hp]; simp)⟩

def isResponse : Out → Bool
  | .response .. => true
  | _ => false

/-- **pong_exact.**  A PING observed from a non-zero source port is answered with exactly one
response: a PONG to the observed node address with the request's id, the current local sequence
number and exactly the observed IP and port. -/
theorem sendRpcRequest_local (s : Svc) (p : Nat) (a : Addr) (b : ReqBody) (q : Option Nat) (c : Bool) :
    (s.sendRpcRequest p a b q c).1.localRec = s.localRec ∧
    (s.sendRpcRequest p a b q c).2.filter isResponse = [] := by
  simp [Svc.sendRpcRequest, isResponse]

theorem entry_local (s : Svc) (k : Nat) : (s.entry k).1.localRec = s.localRec := by
  simp [Svc.entry]

theorem pong_exact (s : Svc) (peer : Nat) (addr : Addr) (rid : Bytes) (enrSeq : Nat)
    (hport : addr.port ≠ 0) :
    (s.handleRequest peer addr rid (.ping enrSeq)).2.filter isResponse =
      [.response peer addr rid (.pong s.localRec.seq addr)] := by
  unfold Svc.handleRequest
  simp only
  have hp : (addr.port != 0) = true := by simpa using hport
  rw [if_pos hp]
  rw [List.filter_append]
  generalize hl : (s.entry peer) = e
  obtain ⟨s1, l⟩ := e
  have h1 : s1.localRec = s.localRec := by
    have := entry_local s peer
    rw [hl] at this
    exact this
  simp only
  split
  · rename_i v hv
    split
    · rename_i a ha
      have := sendRpcRequest_local s1 v.id a (.findNode [Consts.ENR_REQUEST_DISTANCE]) none false
      simp [this.1, this.2, h1, isResponse]
    · simp [h1, isResponse]
  · simp [h1, isResponse]

/-- A PING from source port 0 gets no PONG. -/
theorem pong_port_zero (s : Svc) (peer : Nat) (addr : Addr) (rid : Bytes) (enrSeq : Nat)
    (hport : addr.port = 0) :
    (s.handleRequest peer addr rid (.ping enrSeq)).2.filter isResponse = [] := by
  unfold Svc.handleRequest
  simp only
  have hp : ¬ ((addr.port != 0) = true) := by simp [hport]
  rw [if_neg hp]
  rw [List.filter_append]
  generalize hl : (s.entry peer) = e
  obtain ⟨s1, l⟩ := e
  simp only
  split
  · rename_i v hv
    split
    · simp [Svc.sendRpcRequest, isResponse]
    · simp
  · simp

/-- Non-vacuity / worst case of the arithmetic: 1175 bytes of records, 8-byte id → 1279 bytes. -/
example : 16 + 23 + 32 + nodesRespLen [200, 1, 2, 3, 4, 5, 6, 7] 5 [300, 300, 300, 275] + 16 = 1279 := by
  decide

/-! ### Non-vacuity: a concrete service whose answers need several packets -/

/-- A 300-byte record (the largest an `Enr` can be). -/
def c14Rec (id : Nat) : Rec :=
  { id := id, seq := 1, udp4 := some (id * 65536 + 9000), udp6 := none, udp6Mapped := false,
    size := 300, passesFilter := true }

def c14Node (key : Nat) : Node Rec :=
  { key := key, value := c14Rec key, st := { conn := true, incoming := false } }

/-- Local id 8; nodes 10, 11 at distance 2 (bucket 1) and 0..4 at distance 4 (bucket 3); all
records (the own one too) are 300 bytes. -/
def c14Svc : Svc :=
  { cfg := { ipMode := .ip4, maxNodesResponse := 16, kb := kbCfg 8 60 },
    localRec := c14Rec 8,
    table := ((Table.init 8).setBucket 1 { nodes := [c14Node 10, c14Node 11], fcp := some 0 }).setBucket 3
      { nodes := [c14Node 0, c14Node 1, c14Node 2, c14Node 3, c14Node 4], fcp := some 0 } }

def c14Addr : Addr := { v6 := false, sock := 7 * 65536 + 9000 }
def c14Rid : Bytes := [200, 1, 2, 3, 4, 5, 6, 7]

/-- `total`, the record ids and the datagram size of a NODES response. -/
def c14Summary (rid : Bytes) : Out → Nat × List Nat × Nat
  | .response _ _ _ (.nodes total recs) =>
    (total, recs.map (·.id), datagramLen (nodesRespLen rid total (recs.map (·.size))))
  | _ => (0, [], 0)

/-- An unsorted request with a duplicate and distance 0: own record first, then the buckets by
increasing distance; eight 300-byte records need three packets of 1004, 1004 and 704 bytes. -/
example : (c14Svc.sendNodesResponse 99 c14Addr c14Rid [4, 0, 2, 4]).2.map (c14Summary c14Rid) =
    [(3, [8, 10, 11], 1004), (3, [0, 1, 2], 1004), (3, [3, 4], 704)] := by decide

/-- A `[0, d]` request from a node that is itself stored at distance `d`: own record + the other
entry of that bucket, the requester's record is left out. -/
example : (c14Svc.sendNodesResponse 10 c14Addr c14Rid [2, 0]).2.map (c14Summary c14Rid) =
    [(1, [8, 11], 704)] := by decide

/-- Without distance 0 the own record is not sent; an empty answer is one empty packet. -/
example : (c14Svc.sendNodesResponse 99 c14Addr c14Rid [2]).2.map (c14Summary c14Rid) =
    [(1, [10, 11], 704)] := by decide
example : (c14Svc.sendNodesResponse 99 c14Addr c14Rid [7, 300]).2.map (c14Summary c14Rid) =
    [(1, [], 100)] := by decide

set_option maxRecDepth 8192 in
theorem c14Svc_noPending : ∀ b ∈ c14Svc.table.buckets, b.pending.isNone = true := by decide

set_option maxRecDepth 8192 in
theorem c14Svc_sizes : ∀ b ∈ c14Svc.table.buckets, ∀ n ∈ b.nodes, n.value.size ≤ 300 := by decide

/-- The hypotheses of `served_fits_datagram` hold for `c14Svc` (all sizes are exactly 300). -/
example : ∀ total recs, Out.response 99 c14Addr c14Rid (.nodes total recs) ∈
      (c14Svc.sendNodesResponse 99 c14Addr c14Rid [4, 0, 2, 4]).2 →
    datagramLen (nodesRespLen c14Rid total (recs.map (·.size))) ≤ 1280 :=
  served_fits_datagram c14Svc 99 c14Addr c14Rid [4, 0, 2, 4] (by decide) (by decide) (by decide)
    c14Svc_sizes
    (fun b hb p hp => by have := c14Svc_noPending b hb; rw [hp] at this; cases this)

theorem c14Bucket1_binv (c : KB.Cfg Rec) (tick : Nat) :
    BInv c tick { nodes := [c14Node 10, c14Node 11], fcp := some 0 } :=
  { len := by simp
    split := ⟨[], [c14Node 10, c14Node 11], rfl, by simp, by simp [c14Node], by simp, by simp,
      by simp [c14Node]⟩
    keysNodup := by simp [c14Node]
    pendingFresh := by simp
    incoming := by simp [c14Node]
    stampsLe := by simp [c14Node] }

theorem c14Bucket3_binv (c : KB.Cfg Rec) (tick : Nat) :
    BInv c tick { nodes := [c14Node 0, c14Node 1, c14Node 2, c14Node 3, c14Node 4], fcp := some 0 } :=
  { len := by simp
    split := ⟨[], [c14Node 0, c14Node 1, c14Node 2, c14Node 3, c14Node 4], rfl, by simp,
      by simp [c14Node], by simp, by simp, by simp [c14Node]⟩
    keysNodup := by simp [c14Node]
    pendingFresh := by simp
    incoming := by simp [c14Node]
    stampsLe := by simp [c14Node] }

theorem c14Svc_tinv : TInv c14Svc.cfg.kb c14Svc.table := by
  unfold c14Svc
  simp only
  refine TInv.setBucket (TInv.setBucket (init_tinv _ 8) ?_ ?_) ?_ ?_
  · exact c14Bucket1_binv _ _
  · refine ⟨?_, by simp⟩
    intro n hn
    simp only [List.mem_cons, List.not_mem_nil, or_false] at hn
    rcases hn with rfl | rfl <;> (show bucketIndex 8 _ = some 1; decide)
  · exact c14Bucket3_binv _ _
  · refine ⟨?_, by simp⟩
    intro n hn
    simp only [List.mem_cons, List.not_mem_nil, or_false] at hn
    rcases hn with rfl | rfl | rfl | rfl | rfl <;> (show bucketIndex 8 _ = some 3; decide)

/-- `served_table_exact` applies to `c14Svc` (the routing-table invariant holds). -/
example := served_table_exact c14Svc [4, 0, 2, 4] c14Svc_tinv (by decide)

/-! ### Counterexample to the original formulation of `served_fits_datagram` -/

def c14BigRec : Rec := { c14Rec 48 with size := 2000 }

/-- Bucket 5 (distance 6 from local id 0) is full with the 16 disconnected nodes 32..47 (300-byte
records) and its pending slot holds node 48 with a 2000-byte record, due for insertion. -/
def c14CexBucket : Bucket Rec :=
  { nodes := (List.range 16).map fun i =>
      { key := 32 + i, value := c14Rec (32 + i), st := { conn := false, incoming := false } },
    fcp := none,
    pending := some { node := { key := 48, value := c14BigRec, st := { conn := true, incoming := false } },
                      replace := 0 } }

/-- The bucket and the table below satisfy the routing-table invariant: `TInv` does not exclude the
counterexample. -/
theorem c14CexBucket_binv (c : KB.Cfg Rec) (tick : Nat) : BInv c tick c14CexBucket :=
  { len := by decide
    split := ⟨c14CexBucket.nodes, [], by simp, by decide, by simp, by simp [c14CexBucket], by decide, by simp⟩
    keysNodup := by decide
    pendingFresh := by
      intro p hp
      have : p.node.key = 48 := by
        simp only [c14CexBucket, Option.some.injEq] at hp
        rw [← hp]
      rw [this]; decide
    incoming := by
      have : (c14CexBucket.nodes.filter (fun n => n.st.conn && n.st.incoming)).length = 0 := by decide
      rw [this]; exact Nat.zero_le _
    stampsLe := by
      have : ∀ n ∈ c14CexBucket.nodes, n.stamp = 0 := by decide
      intro n hn; rw [this n hn]; exact Nat.zero_le _ }

theorem c14Cex_tinv (c : KB.Cfg Rec) : TInv c ((Table.init 0).setBucket 5 c14CexBucket) := by
  refine TInv.setBucket (init_tinv c 0) (c14CexBucket_binv c _) ⟨?_, ?_⟩
  · have : ∀ n ∈ c14CexBucket.nodes, bucketIndex 0 n.key = some 5 := by decide
    exact this
  · intro p hp
    have : p.node.key = 48 := by
      simp only [c14CexBucket, Option.some.injEq] at hp
      rw [← hp]
    show bucketIndex 0 p.node.key = some 5
    rw [this]; decide

def c14CexSvc : Svc :=
  { cfg := { ipMode := .ip4, maxNodesResponse := 16, kb := kbCfg 8 60 },
    localRec := c14Rec 0,
    table := (Table.init 0).setBucket 5 c14CexBucket }

example : TInv c14CexSvc.cfg.kb c14CexSvc.table := c14Cex_tinv _

/-- Serving distance 6 promotes the pending node (evicting node 32) and sends its record. -/
example : (c14CexSvc.sendNodesResponse 99 c14Addr c14Rid [6]).2.map (c14Summary c14Rid) =
    [(6, [33, 34, 35], 1004), (6, [36, 37, 38], 1004), (6, [39, 40, 41], 1004),
     (6, [42, 43, 44], 1004), (6, [45, 46, 47], 1004), (6, [48], 2104)] := by decide

set_option maxRecDepth 8192 in
theorem c14CexSvc_sizes : ∀ b ∈ c14CexSvc.table.buckets, ∀ n ∈ b.nodes, n.value.size ≤ 300 := by decide

/-- The original statement (size bound on the stored nodes only) is false. -/
theorem served_fits_datagram_original_false :
    ¬ (∀ (s : Svc) (requester : Nat) (addr : Addr) (rid : Bytes) (ds : List Nat),
        rid.length ≤ 8 → (1 ≤ s.cfg.maxNodesResponse ∧ s.cfg.maxNodesResponse ≤ 125) →
        s.localRec.size ≤ 300 →
        (∀ b ∈ s.table.buckets, ∀ n ∈ b.nodes, n.value.size ≤ 300) →
        ∀ total recs, Out.response requester addr rid (.nodes total recs) ∈
            (s.sendNodesResponse requester addr rid ds).2 →
          datagramLen (nodesRespLen rid total (recs.map (·.size))) ≤ 1280) := by
  intro h
  have h1 := h c14CexSvc 99 c14Addr c14Rid [6] (by decide) (by decide) (by decide) c14CexSvc_sizes
    6 [c14BigRec] (by decide)
  revert h1
  decide

end Discv5.Props.C14

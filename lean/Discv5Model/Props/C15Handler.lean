/-
C15 — Sessions expire and the session cache is bounded.  Part 2: the handler.

`Props/C15.lean` proves the theory of the cache `LruTimeCache` (`Model/Lru.lean`).  This file
ties the handler model (`Model/Handler.lean`) to it:

1. *Refinement.*  With `toCache c s` = "the session list of `s` read as a cache with
   ttl `session_timeout` and capacity `session_cache_capacity`" every session primitive of the
   handler model commutes with the `Lru` operation of the same name at the real-time clock
   `s.rt`: same reply / same reported keys, same cache afterwards, nothing else touched.  No
   precondition is needed, so the two models — each validated against the real code on its own —
   agree on all states; in particular on `insert` of a key that is already held, which the handler
   never does (it inserts only after `get_mut` reported the key absent).
2. *Consequences over every handler history* (all derived from the `Lru` theorems through the
   refinement): the invariant `WF` of the cache holds in every reachable state — keys distinct,
   `len ≤ capacity`, stamps sorted and not in the future —, `sessGetMut` returns a session exactly
   if it was used no more than `session_timeout` ago, an expired session is never returned, the
   sweep drops exactly the expired sessions, an insert into a full cache evicts the entry with
   the oldest use, and a stamp always is the time of the last use.
-/
import Discv5Model.Proofs.HandlerLru
import Discv5Model.Props.C15

namespace Discv5.C15.Handler
open Discv5 Discv5.H Discv5.H.HL

/-! ### 1. The session list is the cache: one refinement theorem per operation -/

/-- `sessGetMut` = `LruTimeCache::get_mut` at time `s.rt`, on every state `s`: the returned option
is the cache's, the session list afterwards is the cache's list, no output is produced and no
other component of the state changes. -/
theorem sessGetMut_is_get_mut (c : Cfg) (na : NA) (s : HState) (os : List Out) :
    ((sessGetMut c na).run (s, os)).1 = (Lru.getMut (toCache c s) s.rt na).2 ∧
    toCache c ((sessGetMut c na).run (s, os)).2.1 = (Lru.getMut (toCache c s) s.rt na).1 ∧
    ((sessGetMut c na).run (s, os)).2.2 = os ∧
    OnlySessions s ((sessGetMut c na).run (s, os)).2.1 :=
  sessGetMut_refines c na s os

/-- `sessPut` is the write through the `&mut Session` handed out by `get_mut`: the value of the
entry is replaced; key, stamp and position stay (`putVal`). -/
theorem sessPut_is_write_through (c : Cfg) (na : NA) (sess : Session) (s : HState) (os : List Out) :
    toCache c ((sessPut na sess).run (s, os)).2.1 =
      { toCache c s with map := putVal (toCache c s).map na sess } ∧
    ((sessPut na sess).run (s, os)).2.2 = os ∧
    OnlySessions s ((sessPut na sess).run (s, os)).2.1 :=
  sessPut_refines c na sess s os

/-- … so that `sessGetMut` followed, on a hit, by `sessPut na (f sess)` is the cache's
`get_mut` whose reference is used by `f` (`Lru.getMutWith`, the operation `Op.getMut`). -/
theorem get_then_put_is_get_mut_with (C : Lru.Cache NA Session) (now : Nat) (na : NA)
    (f : Session → Session) :
    (∀ v, (Lru.getMut C now na).2 = some v →
      Lru.getMutWith C now na f =
        ({ (Lru.getMut C now na).1 with map := putVal (Lru.getMut C now na).1.map na (f v) }, some v)) ∧
    ((Lru.getMut C now na).2 = none → Lru.getMutWith C now na f = Lru.getMut C now na) :=
  ⟨fun v h => getMutWith_hit_eq_put C now na f v h, getMutWith_miss_eq C now na f⟩

/-- `sessInsert` = `LruTimeCache::insert` at time `s.rt` — for every key, held or not (the handler
only reaches it for a key that `get_mut` has just reported absent; the models agree regardless). -/
theorem sessInsert_is_insert (c : Cfg) (na : NA) (sess : Session) (s : HState) (os : List Out) :
    toCache c ((sessInsert c na sess).run (s, os)).2.1 = Lru.insert (toCache c s) s.rt na sess ∧
    ((sessInsert c na sess).run (s, os)).2.2 = os ∧
    OnlySessions s ((sessInsert c na sess).run (s, os)).2.1 :=
  sessInsert_refines c na sess s os

/-- `sessRemove` = `LruTimeCache::remove` (no expiry test; the handler ignores the returned value). -/
theorem sessRemove_is_remove (c : Cfg) (na : NA) (s : HState) (os : List Out) :
    toCache c ((sessRemove na).run (s, os)).2.1 = (Lru.remove (toCache c s) na).1 ∧
    ((sessRemove na).run (s, os)).2.2 = os ∧
    OnlySessions s ((sessRemove na).run (s, os)).2.1 :=
  sessRemove_refines c na s os

/-- `removeExpiredSessions` = `LruTimeCache::remove_expired_values` at time `s.rt`; the keys the
cache returns are exactly the ones reported in the `expired` output (no output if there are none). -/
theorem removeExpiredSessions_is_sweep (c : Cfg) (s : HState) (os : List Out) :
    toCache c ((removeExpiredSessions c).run (s, os)).2.1 = (Lru.removeExpired (toCache c s) s.rt).1 ∧
    ((removeExpiredSessions c).run (s, os)).2.2 =
      (if (Lru.removeExpired (toCache c s) s.rt).2 = [] then os
       else os ++ [.expired (Lru.removeExpired (toCache c s) s.rt).2]) ∧
    OnlySessions s ((removeExpiredSessions c).run (s, os)).2.1 :=
  removeExpiredSessions_refines c s os

/-! ### 2. Over every handler history -/

/-- In every reachable state the session list satisfies the invariant of the cache: keys pairwise
distinct, stamps non-decreasing from front to back and none later than the real-time clock,
`len ≤ capacity`. -/
theorem session_cache_wf (c : Cfg) (evs : List Ev) :
    Lru.WF (toCache c (run c evs)) (run c evs).rt := run_wf c evs

/-- The session list never holds two entries for one node address. -/
theorem session_keys_distinct (c : Cfg) (evs : List Ev) : ((run c evs).sessions.map (·.1)).Nodup := by
  have h : ((run c evs).sessions.map toEntry).Pairwise (fun a b => a.key ≠ b.key) :=
    (run_wf c evs).distinct
  have h2 := List.pairwise_map.1 h
  exact List.pairwise_map.2 h2

/-- The session list never exceeds `session_cache_capacity` (for every capacity, in particular for
every capacity ≥ 1; with capacity 0 the list is always empty). -/
theorem session_cache_bounded (c : Cfg) (evs : List Ev) : (run c evs).sessions.length ≤ c.sessionCap := by
  have h := (run_wf c evs).bounded
  unfold Lru.Bounded toCache at h
  rwa [toMap_length] at h

/-- Stamps are sorted in list order and never in the future of the real-time clock. -/
theorem session_stamps_sorted (c : Cfg) (evs : List Ev) :
    (run c evs).sessions.Pairwise (fun a b => a.2.2 ≤ b.2.2) ∧
    ∀ e ∈ (run c evs).sessions, e.2.2 ≤ (run c evs).rt := by
  have h := (run_wf c evs).sorted
  have h1 : ((run c evs).sessions.map toEntry).Pairwise (fun a b => a.stamp ≤ b.stamp) := h.1
  have h2 := List.pairwise_map.1 h1
  exact ⟨h2, fun e he => h.2 (toEntry e) (List.mem_map_of_mem he)⟩

/-- `sessGetMut` returns a session exactly if the list holds it for that address with a stamp no
more than `session_timeout` old (corollary of `Cache.get_fresh`). -/
theorem sessGetMut_returns_iff_fresh (c : Cfg) (evs : List Ev) (na : NA) (sess : Session) (os : List Out) :
    ((sessGetMut c na).run (run c evs, os)).1 = some sess ↔
      ∃ stamp, (na, sess, stamp) ∈ (run c evs).sessions ∧ (run c evs).rt ≤ stamp + c.sessionTtl := by
  rw [(sessGetMut_refines c na (run c evs) os).1]
  unfold Lru.getMut
  rw [Cache.get_fresh _ (run_wf c evs).distinct]
  constructor
  · rintro ⟨e, he, hk, hv, hx⟩
    obtain ⟨x, hx', rfl⟩ := List.mem_map.1 he
    obtain ⟨a, b, d⟩ := x
    simp only [toEntry] at hk hv
    subst hk; subst hv
    exact ⟨d, hx', hx⟩
  · rintro ⟨stamp, hm, hx⟩
    exact ⟨toEntry (na, sess, stamp), List.mem_map_of_mem hm, rfl, rfl, hx⟩

/-- A session whose last use (its stamp, see `stamp_is_time_of_last_use`) is more than
`session_timeout` ago is never returned: `sessGetMut` reports the address absent, and the entry
is gone afterwards (corollary of `Cache.get_expired_is_absent_and_removed`). -/
theorem expired_session_never_returned (c : Cfg) (evs : List Ev) (na : NA) (os : List Out)
    (e : NA × Session × Nat) (he : e ∈ (run c evs).sessions) (hk : e.1 = na)
    (hx : e.2.2 + c.sessionTtl < (run c evs).rt) :
    ((sessGetMut c na).run (run c evs, os)).1 = none ∧
    ∀ e' ∈ ((sessGetMut c na).run (run c evs, os)).2.1.sessions, e'.1 ≠ na := by
  obtain ⟨h1, h2, _, _⟩ := sessGetMut_refines c na (run c evs) os
  have hc := Cache.get_expired_is_absent_and_removed (toCache c (run c evs)) (run_wf c evs).distinct
    (run c evs).rt na id (toEntry e) (List.mem_map_of_mem he) hk hx
  refine ⟨h1.trans hc.1, ?_⟩
  intro e' he' hk'
  apply hc.2.2
  have : Lru.getMutWith (toCache c (run c evs)) (run c evs).rt na id =
      Lru.getMut (toCache c (run c evs)) (run c evs).rt na := rfl
  rw [this, ← h2]
  have hm : e'.1 ∈ (toMap ((sessGetMut c na).run (run c evs, os)).2.1.sessions).map (·.key) :=
    List.mem_map.2 ⟨toEntry e', List.mem_map_of_mem he', rfl⟩
  rw [hk'] at hm
  exact hm

/-- A hit refreshes: the entry is re-stamped with the clock and becomes the most recently used
one; every other entry keeps value, stamp and place (corollary of `Cache.get_hit_refreshes`). -/
theorem returned_session_is_refreshed (c : Cfg) (s : HState) (na : NA) (sess : Session) (os : List Out)
    (h : ((sessGetMut c na).run (s, os)).1 = some sess) :
    ((sessGetMut c na).run (s, os)).2.1.sessions =
      s.sessions.filter (·.1 != na) ++ [(na, sess, s.rt)] := by
  obtain ⟨h1, h2, _, _⟩ := sessGetMut_refines c na s os
  rw [h1] at h
  have hc := Cache.get_hit_refreshes (toCache c s) s.rt na id sess h
  have hm : toMap ((sessGetMut c na).run (s, os)).2.1.sessions =
      toMap (s.sessions.filter (·.1 != na) ++ [(na, sess, s.rt)]) := by
    have : (toCache c ((sessGetMut c na).run (s, os)).2.1).map = (Lru.getMut (toCache c s) s.rt na).1.map := by
      rw [h2]
    rw [toMap_append, toMap_filter_ne]
    exact this.trans hc
  exact toMap_inj hm

/-- The sweep drops exactly the expired sessions — it walks only the front of the list, but the
list is sorted by stamp (corollary of `Cache.sweep_removes_exactly_expired`). -/
theorem sweep_removes_exactly_expired_sessions (c : Cfg) (evs : List Ev) (os : List Out) :
    ((removeExpiredSessions c).run (run c evs, os)).2.1.sessions =
      (run c evs).sessions.filter (fun e => !decide (e.2.2 + c.sessionTtl < (run c evs).rt)) := by
  obtain ⟨h1, _, _⟩ := removeExpiredSessions_refines c (run c evs) os
  have hc := Cache.sweep_removes_exactly_expired (toCache c (run c evs)) (run c evs).rt (run c evs).rt
    (run_wf c evs)
  apply toMap_inj
  have : (toCache c ((removeExpiredSessions c).run (run c evs, os)).2.1).map =
      (Lru.removeExpired (toCache c (run c evs)) (run c evs).rt).1.map := by rw [h1]
  refine this.trans (hc.trans ?_)
  show List.filter _ (List.map toEntry (run c evs).sessions) = _
  rw [List.filter_map]
  rfl

/-- When the capacity (≥ 1) is reached, inserting a new address drops the front entry and nothing
else, and that entry carries the oldest stamp — it is the least recently used session (corollary
of `Lru.insert_full_fresh` and the sortedness invariant). -/
theorem insert_evicts_least_recently_used (c : Cfg) (evs : List Ev) (na : NA) (sess : Session)
    (os : List Out) (hcap : 1 ≤ c.sessionCap) (hfull : (run c evs).sessions.length = c.sessionCap)
    (hk : ∀ e ∈ (run c evs).sessions, e.1 ≠ na) :
    ∃ lru rest, (run c evs).sessions = lru :: rest ∧
      ((sessInsert c na sess).run (run c evs, os)).2.1.sessions = rest ++ [(na, sess, (run c evs).rt)] ∧
      ∀ e ∈ rest, lru.2.2 ≤ e.2.2 := by
  obtain ⟨h1, _, _⟩ := sessInsert_refines c na sess (run c evs) os
  have hc := Lru.insert_full_fresh (c := toCache c (run c evs)) (run c evs).rt (k := na) sess
    (by show (toMap _).length = _; rw [toMap_length]; exact hfull) hcap
    (by intro e he; obtain ⟨x, hx, rfl⟩ := List.mem_map.1 he; exact hk x hx)
  cases hl : (run c evs).sessions with
  | nil => rw [hl] at hfull; simp at hfull; omega
  | cons lru rest =>
    refine ⟨lru, rest, rfl, ?_, ?_⟩
    · apply toMap_inj
      have : (toCache c ((sessInsert c na sess).run (run c evs, os)).2.1).map =
          (Lru.insert (toCache c (run c evs)) (run c evs).rt na sess).map := by rw [h1]
      refine this.trans (hc.trans ?_)
      show (toMap (run c evs).sessions).tail ++ _ = _
      rw [hl, toMap_append]
      rfl
    · have hs := (session_stamps_sorted c evs).1
      rw [hl] at hs
      exact (List.pairwise_cons.1 hs).1

/-- The stamp of an entry is the time of its last use: in one step every entry afterwards is
either an entry from before the step (same address, same stamp) or is stamped with the current
real-time clock — stamps are written by `get_mut` hits and `insert` only, with the clock.  The
clock itself is moved by `rtAdv` only. -/
theorem stamp_is_time_of_last_use (c : Cfg) (evs : List Ev) (e : Ev) :
    (∀ e' ∈ (run c (evs ++ [e])).sessions, e'.2.2 = (run c evs).rt ∨
      ∃ e0 ∈ (run c evs).sessions, e0.1 = e'.1 ∧ e0.2.2 = e'.2.2) ∧
    ((∀ dt, e ≠ .rtAdv dt) → (run c (evs ++ [e])).rt = (run c evs).rt) := by
  rw [RQ.run_snoc]
  exact ⟨step_stamps c (run c evs) e, step_rt c (run c evs) e⟩

/-- The live part of the session list behaves like a bounded LRU map that forgets an entry once
it is older than `session_timeout` (`Lru.Spec`): every cache operation issued in a reachable state
at the current clock commutes with the abstraction "live entries in recency order". -/
theorem session_cache_refines_live_map (c : Cfg) (evs : List Ev) (op : Lru.Op NA Session) :
    Lru.live c.sessionTtl (run c evs).rt (Lru.step (toCache c (run c evs)) (run c evs).rt op).1.map =
      (Lru.Spec.step c.sessionTtl c.sessionCap (run c evs).rt
        (Lru.live c.sessionTtl (run c evs).rt (toCache c (run c evs)).map) op).1 ∧
    Lru.ReplyRefines op (Lru.step (toCache c (run c evs)) (run c evs).rt op).2
      (Lru.Spec.step c.sessionTtl c.sessionCap (run c evs).rt
        (Lru.live c.sessionTtl (run c evs).rt (toCache c (run c evs)).map) op).2 :=
  Lru.step_refines (run c evs).rt op (run_wf c evs) (Nat.le_refl _)

/-- Seen from outside: a message arriving under an expired session is treated as coming from a
peer without session — the handler asks for a WHOAREYOU and does nothing else — and the stale
entry is dropped. -/
theorem expired_session_message_is_challenged (c : Cfg) (evs : List Ev) (src : Addr) (srcId nonce : Nat)
    (ct : Ct) (e : NA × Session × Nat) (he : e ∈ (run c evs).sessions)
    (hk : e.1 = { id := srcId, addr := src })
    (hx : e.2.2 + c.sessionTtl < (run c evs).rt) :
    (step c (run c evs) (.dgram src (.message srcId nonce ct))).2 = [.wru { id := srcId, addr := src } nonce] ∧
    ∀ e' ∈ (step c (run c evs) (.dgram src (.message srcId nonce ct))).1.sessions,
      e'.1 ≠ { id := srcId, addr := src } := by
  have h := expired_session_never_returned c evs _ [] e he hk hx
  have h3 := (sessGetMut_refines c { id := srcId, addr := src } (run c evs) []).2.2.1
  rw [RQ.step_eq]
  simp only [stepM]
  unfold handleMessage
  simp only [run_bind]
  rw [h.1]
  simp only [run_emit]
  exact ⟨by rw [h3]; rfl, h.2⟩

/-! ### Non-vacuity: concrete histories satisfying the hypotheses -/

/-- ttl 1000, room for a single session. -/
private def hCfg : Cfg where
  localId := 1
  localSeq := 1
  localRec := { id := 1, seq := 1, udp4 := some 100, udp6 := none }
  requestRetries := 2
  requestTimeout := 10
  sessionTtl := 1000
  sessionCap := 1
  listen := [⟨false, 100⟩]
  findnode0 := 0

private def hPeerA : NA := { id := 2, addr := ⟨false, 7⟩ }
private def hPeerB : NA := { id := 3, addr := ⟨false, 8⟩ }
private def hCtA : Contact := { na := hPeerA, record := some { id := 2, seq := 1, udp4 := some 7, udp6 := none } }
private def hCtB : Contact := { na := hPeerB, record := some { id := 3, seq := 1, udp4 := some 8, udp6 := none } }

/-- A request to A, A challenges, the handshake creates the session (stamp 0). -/
private def hOne : List Ev := [.appRequest hCtA 7 5, .dgram hPeerA.addr (.whoareyou 1000001 500 0)]
/-- … 5 ms later the same with B. -/
private def hTwo : List Ev :=
  hOne ++ [.rtAdv 5, .appRequest hCtB 8 5, .dgram hPeerB.addr (.whoareyou 1000003 501 0)]

example : (run hCfg hOne).sessions.map (fun e => (e.1, e.2.2)) = [(hPeerA, 0)] := by decide +kernel
/-- hypotheses of `insert_evicts_least_recently_used`: the cache is full and B is not held … -/
example : (run hCfg (hOne ++ [.rtAdv 5])).sessions.length = hCfg.sessionCap ∧
    ∀ e ∈ (run hCfg (hOne ++ [.rtAdv 5])).sessions, e.1 ≠ hPeerB := by decide +kernel
/-- … and B's session (stamp 5) has displaced A's. -/
example : (run hCfg hTwo).sessions.map (fun e => (e.1, e.2.2)) = [(hPeerB, 5)] := by decide +kernel

/-- Exactly `session_timeout` after the last use the session is still returned … -/
example : ((sessGetMut hCfg hPeerA).run (run hCfg (hOne ++ [.rtAdv 1000]), [])).1.isSome = true := by
  decide +kernel
/-- … one millisecond later the hypotheses of `expired_session_never_returned` hold … -/
example : ∃ e ∈ (run hCfg (hOne ++ [.rtAdv 1001])).sessions,
    e.1 = hPeerA ∧ e.2.2 + hCfg.sessionTtl < (run hCfg (hOne ++ [.rtAdv 1001])).rt := by decide +kernel
/-- … and a message from A is answered with a WHOAREYOU request only. -/
example : (step hCfg (run hCfg (hOne ++ [.rtAdv 1001])) (.dgram hPeerA.addr (.message 2 99 .garbage))).2 =
    [.wru hPeerA 99] := by decide +kernel

end Discv5.C15.Handler

/-
C15 — Sessions expire and the session cache is bounded.

Part 1 (`namespace Discv5.C15.Cache`, this file): the cache itself, `LruTimeCache`
(`src/lru_time_cache.rs`, model `Model/Lru.lean`).  Property theorems only; helper lemmas,
the invariant, the use log / recency relation and the specification `Spec` live in
`Proofs/LruLemmas.lean`.  All theorems are for every key and value type, every ttl, every
capacity and every operation sequence (`insert`, `get`, `get_mut` + write, `peek`, `len`,
`remove`, `remove_expired_values`) at arbitrary times; where the order of time matters the
hypothesis is only that times never decrease (`NonDecreasing`).

Part 2 (`namespace Discv5.C15.Handler`, to be added below): the handler reaches its sessions
only through the accessors of this cache.
-/
import Discv5Model.Proofs.LruLemmas

namespace Discv5.C15.Cache
open Discv5.Lru

variable {K V : Type} [DecidableEq K]

/-! ### 1. The cache is bounded -/

/-- `len ≤ capacity` is preserved by every operation at every time, from every state. -/
theorem len_le_capacity_step (c : Cache K V) (now : Nat) (op : Op K V)
    (h : len c ≤ c.capacity) :
    len (step c now op).1 ≤ c.capacity ∧ (step c now op).1.capacity = c.capacity :=
  ⟨by have := step_bounded now op (c := c) h
      unfold Bounded at this
      rwa [step_capacity] at this,
    step_capacity c now op⟩

/-- A cache created with capacity `Some(cap)` never holds more than `cap` entries, whatever is
done to it and whenever (for every `cap`, including the degenerate `0`; no assumption on the
times at all). -/
theorem len_le_capacity (ttl cap : Nat) (ops : List (Nat × Op K V)) :
    len (run (new ttl (some cap) : Cache K V) ops) ≤ cap := by
  have h := run_bounded ops (c := (new ttl (some cap) : Cache K V)) (Nat.zero_le _)
  unfold Bounded at h
  rwa [run_capacity] at h

/-- … after every single operation of the sequence, not just at its end. -/
theorem len_le_capacity_always (ttl cap : Nat) (ops : List (Nat × Op K V)) (n : Nat) :
    len (run (new ttl (some cap) : Cache K V) (ops.take n)) ≤ cap :=
  len_le_capacity ttl cap _

/-- Capacity `None` means unbounded: the limit is `usize::MAX` = 18446744073709551615, below
which an `insert` of a new key never evicts — the list only grows. -/
theorem none_capacity_is_unbounded (ttl : Nat) (ops : List (Nat × Op K V)) (now : Nat) (k : K)
    (v : V) (hlen : len (run (new ttl none : Cache K V) ops) < 18446744073709551615)
    (hk : k ∉ keys (run (new ttl none : Cache K V) ops)) :
    (insert (run (new ttl none : Cache K V) ops) now k v).map =
      (run (new ttl none : Cache K V) ops).map ++ [⟨k, v, now⟩] := by
  apply insert_room_fresh
  · rw [run_capacity]
    exact hlen
  · intro e he hek
    exact hk (by rw [← hek]; exact List.mem_map_of_mem he)

/-! ### 2. When the capacity is reached the least recently used key is dropped -/

/-- Inserting a new key into a full cache (capacity ≥ 1), after any history: the front entry
`lru` and nothing else disappears, all other entries stay as they are and in order, the new
entry becomes the last one; and `lru` is the least recently used key — the last use (`insert`,
or `get`/`get_mut` that returned a value) of every other key held is later in the history than
the last use of `lru`. -/
theorem insert_evicts_lru (ttl cap : Nat) (ops : List (Nat × Op K V)) (now : Nat) (k : K) (v : V)
    (hcap : 1 ≤ cap) (hfull : len (run (new ttl (some cap) : Cache K V) ops) = cap)
    (hk : k ∉ keys (run (new ttl (some cap) : Cache K V) ops)) :
    ∃ lru rest, (run (new ttl (some cap) : Cache K V) ops).map = lru :: rest ∧
      (insert (run (new ttl (some cap) : Cache K V) ops) now k v).map = rest ++ [⟨k, v, now⟩] ∧
      ∀ e ∈ rest, UsedBefore (useLog (new ttl (some cap) : Cache K V) ops) lru.key e.key := by
  have hrec := run_recency (log := []) ops (c := (new ttl (some cap) : Cache K V))
    ⟨List.Pairwise.nil, fun _ h => by cases h⟩
  have hc : (run (new ttl (some cap) : Cache K V) ops).capacity = cap := run_capacity _ _
  have hins := insert_full_fresh (c := run (new ttl (some cap) : Cache K V) ops) now (k := k) v
    (by rw [hc]; exact hfull) (by rw [hc]; exact hcap)
    (fun e he hek => hk (by rw [← hek]; exact List.mem_map_of_mem he))
  unfold len at hfull
  cases hm : (run (new ttl (some cap) : Cache K V) ops).map with
  | nil => rw [hm] at hfull; simp at hfull; omega
  | cons lru rest =>
    rw [hm] at hins hrec
    refine ⟨lru, rest, rfl, hins, ?_⟩
    rw [List.nil_append] at hrec
    exact (List.pairwise_cons.1 hrec.1).1

/-- The entry dropped by such an insert carries the oldest stamp (times non-decreasing). -/
theorem lru_has_oldest_stamp (ttl : Nat) (cap : Option Nat) (ops : List (Nat × Op K V))
    (hm : NonDecreasing 0 ops) (lru : Entry K V) (rest : List (Entry K V))
    (h : (run (new ttl cap : Cache K V) ops).map = lru :: rest) :
    ∀ e ∈ rest, lru.stamp ≤ e.stamp := by
  have hwf := run_wf ops (new_wf ttl cap 0) hm
  have := hwf.sorted.1
  rw [h] at this
  exact (List.pairwise_cons.1 this).1

/-- Nothing is dropped before the capacity is reached. -/
theorem insert_below_capacity_keeps_all (c : Cache K V) (now : Nat) (k : K) (v : V)
    (hroom : len c < c.capacity) (hk : k ∉ keys c) :
    (insert c now k v).map = c.map ++ [⟨k, v, now⟩] :=
  insert_room_fresh now v hroom (fun e he hek => hk (by rw [← hek]; exact List.mem_map_of_mem he))

/-- Re-inserting a key that is held replaces its value and stamp, makes it the most recently
used entry and evicts nothing. -/
theorem insert_existing_moves_to_back (c : Cache K V) (now : Nat) (k : K) (v : V)
    (hb : len c ≤ c.capacity) (hk : k ∈ keys c) :
    (insert c now k v).map = lhmErase c.map k ++ [⟨k, v, now⟩] := by
  obtain ⟨e, he, hek⟩ := List.mem_map.1 hk
  have := length_lhmErase_lt he hek
  unfold len at hb
  rw [insert_map, if_neg (by rw [List.length_append, List.length_singleton]; omega)]

/-! ### 3. Expiry: a value is returned only within `ttl` of its last use -/

/-- `get_mut` (with any use `f` of the reference; `get` is `f = id`) returns `v` exactly if the
cache holds `k ↦ v` and no more than `ttl` has passed since the stamp of that entry. -/
theorem get_fresh (c : Cache K V) (hd : Distinct c) (now : Nat) (k : K) (f : V → V) (v : V) :
    (getMutWith c now k f).2 = some v ↔
      ∃ e ∈ c.map, e.key = k ∧ e.val = v ∧ now ≤ e.stamp + c.ttl := by
  constructor
  · intro h
    rcases getMutWith_cases c now k f with ⟨_, hr⟩ | ⟨e, _, _, hr⟩ | ⟨e, hg, hx, hr⟩ <;>
      rw [hr] at h
    · cases h
    · cases h
    · injection h with h
      exact ⟨e, (lhmGet_some hg).1, (lhmGet_some hg).2, h, by omega⟩
  · rintro ⟨e, he, hk, hv, hx⟩
    have hg := lhmGet_of_mem hd he
    rw [hk] at hg
    rw [getMutWith_hit hg (by omega), hv]

/-- The same for `get`. -/
theorem get_fresh' (c : Cache K V) (hd : Distinct c) (now : Nat) (k : K) (v : V) :
    (get c now k).2 = some v ↔ ∃ e ∈ c.map, e.key = k ∧ e.val = v ∧ now ≤ e.stamp + c.ttl :=
  get_fresh c hd now k id v

/-- A hit refreshes stamp and recency: the entry of `k` (with the caller's write applied) is
re-stamped `now` and moved to the back; every other entry is untouched and keeps its place. -/
theorem get_hit_refreshes (c : Cache K V) (now : Nat) (k : K) (f : V → V) (v : V)
    (h : (getMutWith c now k f).2 = some v) :
    (getMutWith c now k f).1.map = lhmErase c.map k ++ [⟨k, f v, now⟩] := by
  rcases getMutWith_cases c now k f with ⟨_, hr⟩ | ⟨e, _, _, hr⟩ | ⟨e, hg, hx, hr⟩ <;>
    rw [hr] at h ⊢
  · cases h
  · cases h
  · injection h with h
    rw [← h, (lhmGet_some hg).2]

/-- An expired entry is reported absent and is gone afterwards (everything else stays). -/
theorem get_expired_is_absent_and_removed (c : Cache K V) (hd : Distinct c) (now : Nat) (k : K)
    (f : V → V) (e : Entry K V) (he : e ∈ c.map) (hk : e.key = k) (hx : e.stamp + c.ttl < now) :
    (getMutWith c now k f).2 = none ∧ (getMutWith c now k f).1.map = lhmErase c.map k ∧
      k ∉ keys (getMutWith c now k f).1 := by
  have hg := lhmGet_of_mem hd he
  rw [hk] at hg
  rw [getMutWith_expired hg hx]
  refine ⟨rfl, rfl, ?_⟩
  intro hmem
  obtain ⟨a, ha, hak⟩ := List.mem_map.1 hmem
  exact (mem_lhmErase.1 ha).2 hak

/-- `peek` returns `v` exactly if the cache holds `k ↦ v` stamped no more than `ttl` ago. -/
theorem peek_fresh (c : Cache K V) (hd : Distinct c) (now : Nat) (k : K) (v : V) :
    peek c now k = some v ↔ ∃ e ∈ c.map, e.key = k ∧ e.val = v ∧ now ≤ e.stamp + c.ttl := by
  unfold peek
  constructor
  · intro h
    cases hg : lhmGet c.map k with
    | none => rw [hg] at h; cases h
    | some e =>
      rw [hg] at h
      simp only [] at h
      by_cases hx : e.stamp + c.ttl ≥ now
      · rw [if_pos hx] at h
        injection h with h
        exact ⟨e, (lhmGet_some hg).1, (lhmGet_some hg).2, h, hx⟩
      · rw [if_neg hx] at h; cases h
  · rintro ⟨e, he, hk, hv, hx⟩
    have hg := lhmGet_of_mem hd he
    rw [hk] at hg
    rw [hg]
    simp only []
    rw [if_pos hx, hv]

/-- Expired entries are never returned.  Take any cache in which whatever is held for `k` was
last stamped at `s` or before.  Let any operations follow that do not use `k` (`pre`: no
`insert k`, `get k`, `get_mut k`; any times), and then any operations `post` that all happen
later than `s + ttl` and do not insert `k` again.  Then every `get k`, `get_mut k` and `peek k`
in `post` reports the key absent. -/
theorem expired_never_returned (c : Cache K V) (k : K) (s : Nat) (pre post : List (Nat × Op K V))
    (hs : StampLe c k s) (hpre : ∀ p ∈ pre, usesKey k p.2 = false)
    (hpost : ∀ p ∈ post, s + c.ttl < p.1 ∧ insertsKey k p.2 = false) :
    ∀ x ∈ trace (run c pre) post, queriesKey k x.2.1 = true → x.2.2 = Reply.val none := by
  apply trace_after_deadline post (run_stampLe_of_not_uses pre hs hpre)
  rw [run_ttl]
  exact hpost

/-- The same over whole histories: run any history `hist` (times non-decreasing) up to time
`s`, then operations that do not use `k`, then operations later than `s + ttl` that do not
insert `k`: none of the latter gets a value for `k`. -/
theorem expired_never_returned_history (ttl : Nat) (cap : Option Nat) (k : K)
    (hist pre post : List (Nat × Op K V)) (hm : NonDecreasing 0 hist)
    (hpre : ∀ p ∈ pre, usesKey k p.2 = false)
    (hpost : ∀ p ∈ post, lastTime 0 hist + ttl < p.1 ∧ insertsKey k p.2 = false) :
    ∀ x ∈ trace (run (run (new ttl cap : Cache K V) hist) pre) post,
      queriesKey k x.2.1 = true → x.2.2 = Reply.val none := by
  have hwf := run_wf hist (new_wf ttl cap 0) hm
  apply expired_never_returned _ k (lastTime 0 hist) pre post
    (fun e he _ => hwf.sorted.2 e he) hpre
  rw [run_ttl]
  exact hpost

omit [DecidableEq K] in
/-- The sweep (`remove_expired_values`) removes exactly the expired entries: it only walks the
front of the list, but the list is sorted by stamp. -/
theorem sweep_removes_exactly_expired (c : Cache K V) (t now : Nat) (h : WF c t) :
    (removeExpired c now).1.map = live c.ttl now c.map :=
  dropWhile_eq_live h.sorted.1

/-! ### 4. Refinement: a bounded LRU map of live entries -/

/-- Each operation commutes with the abstraction "live entries in recency order": the cache
behaves like a map `key ↦ (value, time of last use)` that forgets an entry once it is older
than `ttl`, holds at most `capacity` entries and drops the least recently used one when a new
key does not fit.  Replies agree (see `ReplyRefines` for `len`, `remove` and the sweep, which
can see entries that are dead but not yet dropped). -/
theorem refines_spec_step (c : Cache K V) (t now : Nat) (op : Op K V) (h : WF c t) (ht : t ≤ now) :
    live c.ttl now (step c now op).1.map =
        (Spec.step c.ttl c.capacity now (live c.ttl t c.map) op).1 ∧
      ReplyRefines op (step c now op).2
        (Spec.step c.ttl c.capacity now (live c.ttl t c.map) op).2 ∧
      WF (step c now op).1 now :=
  ⟨(step_refines now op h ht).1, (step_refines now op h ht).2, step_wf now op h ht⟩

/-- … and so does every history with non-decreasing times, from a new cache. -/
theorem refines_spec (ttl : Nat) (cap : Option Nat) (ops : List (Nat × Op K V))
    (hm : NonDecreasing 0 ops) :
    live ttl (lastTime 0 ops) (run (new ttl cap : Cache K V) ops).map =
      Spec.run ttl (new ttl cap : Cache K V).capacity [] ops :=
  run_refines ops (new_wf ttl cap 0) hm

/-- Dead entries never displace a live one: if an insert of a new key makes a live entry
disappear, the live entries alone already filled the capacity. -/
theorem eviction_of_live_entry_only_when_full_of_live (c : Cache K V) (t now : Nat) (k : K) (v : V)
    (h : WF c t) (ht : t ≤ now) (e : Entry K V) (he : e ∈ live c.ttl now c.map) (hek : e.key ≠ k)
    (hgone : e ∉ (insert c now k v).map) :
    c.capacity ≤ (lhmErase (live c.ttl now c.map) k).length := by
  have hr := insert_refines now k v h ht
  have hnot : e ∉ live c.ttl now (insert c now k v).map := fun hm => hgone (mem_live.1 hm).1
  rw [hr] at hnot
  unfold Spec.insert at hnot
  have hmem : e ∈ lhmErase (live c.ttl now c.map) k ++ [(⟨k, v, now⟩ : Entry K V)] :=
    List.mem_append_left _ (mem_lhmErase.2 ⟨he, hek⟩)
  by_cases hgt : (lhmErase (live c.ttl now c.map) k ++ [(⟨k, v, now⟩ : Entry K V)]).length
      > c.capacity
  · rw [List.length_append, List.length_singleton] at hgt; omega
  · rw [if_neg hgt] at hnot
    exact absurd hmem hnot

/-! ### Non-vacuity: concrete histories satisfying the hypotheses -/

/-- capacity 2: insert 1, insert 2, read 1, insert 3 — key 2 (least recently used) is dropped. -/
example : keys (run (new 10 (some 2) : Cache Nat Nat)
    [(0, .insert 1 10), (1, .insert 2 20), (2, .get 1), (3, .insert 3 30)]) = [1, 3] := by decide

/-- hypotheses of `insert_evicts_lru`: a full cache and a key it does not hold. -/
example : len (run (new 10 (some 2) : Cache Nat Nat) [(0, .insert 1 10), (1, .insert 2 20), (2, .get 1)])
      = 2 ∧ 3 ∉ keys (run (new 10 (some 2) : Cache Nat Nat)
        [(0, .insert 1 10), (1, .insert 2 20), (2, .get 1)]) := by decide

example : NonDecreasing 0 ([(0, .insert 1 10), (1, .insert 2 20), (2, .get 1)] : List (Nat × Op Nat Nat)) := by
  simp [NonDecreasing]

/-- ttl 10: a read exactly 10 after the insert hits and refreshes; 11 after that refresh it
misses, and the entry is gone. -/
example : (trace (new 10 none : Cache Nat Nat) [(0, .insert 1 7), (10, .get 1), (21, .get 1), (21, .len)]).map
    (fun x => match x.2.2 with | .val o => o | .num n => some n | _ => none)
      = [none, some 7, none, some 0] := by decide

/-- hypotheses of `expired_never_returned`: key 1 stamped at 0, ttl 10, other traffic, then
queries after time 10. -/
example : StampLe (run (new 10 none : Cache Nat Nat) [(0, .insert 1 7)]) 1 0 ∧
    (∀ p ∈ ([(5, .insert 2 8), (6, .peek 1)] : List (Nat × Op Nat Nat)), usesKey 1 p.2 = false) ∧
    (∀ p ∈ ([(11, .get 1), (12, .peek 1)] : List (Nat × Op Nat Nat)),
      0 + (run (new 10 none : Cache Nat Nat) [(0, .insert 1 7)]).ttl < p.1 ∧ insertsKey 1 p.2 = false) := by
  refine ⟨?_, by decide, by decide⟩
  intro e he _
  have : e.stamp = 0 := by
    have : e ∈ [(⟨1, 7, 0⟩ : Entry Nat Nat)] := he
    rw [List.mem_singleton] at this
    rw [this]
  omega

/-- a well-formed cache with a dead and a live entry: the live part is a proper part. -/
example : live 10 20 (run (new 10 (some 3) : Cache Nat Nat) [(0, .insert 1 7), (15, .insert 2 8)]).map
    = [⟨2, 8, 15⟩] ∧ len (run (new 10 (some 3) : Cache Nat Nat) [(0, .insert 1 7), (15, .insert 2 8)]) = 2 := by
  constructor
  · rfl
  · rfl

end Discv5.C15.Cache

/-
C16 — IP-diversity limits of the routing table.
Property theorems only (helper lemmas live in `Proofs/IpFilterLemmas.lean`).  The limits 2 and 10
are the literals of the property statement; the model uses the regenerated constants.
-/
import Discv5Model.Proofs.IpFilterLemmas

namespace Discv5.KB

/-- The filter refuses exactly when `limit` other records (not identical to the candidate) share
its /24 (for `limit ≥ 1`). -/
theorem ipFilter_spec (limit : Nat) (hl : 1 ≤ limit) (v : Val) (s : Nat) (hs : v.subnet = some s)
    (others : List Val) :
    ipFilter limit v others = decide (subnetCount s (others.filter (· ≠ v)) < limit) := by
  unfold ipFilter
  rw [hs]
  simp only []
  rw [Ip.ipCountLoop_spec limit v s others 0 hl, Nat.zero_add]

/-- Nodes without an IPv4 address are never refused by the IP filters. -/
theorem no_ip4_never_refused (limit : Nat) (v : Val) (hs : v.subnet = none) (others : List Val) :
    ipFilter limit v others = true := by
  unfold ipFilter
  rw [hs]

/-- With IP limiting enabled every table operation preserves: at most 2 nodes of one /24 per
bucket and at most 10 per table, pending nodes included — for every `now` (pending timeouts
elapsing at any point), provided records are filed under their own node id. -/
theorem step_ipInv (keyOf : Val → Nat) (mi pt : Nat) (t : Table Val) (op : Op Val)
    (hT : TInv (ipCfg mi pt) t) (hI : IpInv t) (hK : ValuesMatchKeys keyOf t)
    (hop : op.Respects keyOf) :
    IpInv (t.step (ipCfg mi pt) op) ∧ ValuesMatchKeys keyOf (t.step (ipCfg mi pt) op) :=
  (Ip.step_all keyOf mi pt t op hT hI hK hop).2

/-- At no time does a bucket hold more than 2, or the table more than 10, nodes of one /24. -/
theorem reachable_ipInv (keyOf : Val → Nat) (mi pt localKey : Nat) (ops : List (Op Val))
    (hops : ∀ op ∈ ops, op.Respects keyOf) :
    IpInv (ops.foldl (Table.step (ipCfg mi pt)) (Table.init localKey)) :=
  Ip.foldl_all keyOf mi pt ops _ hops (init_tinv _ localKey) (Ip.init_ipInv localKey)
    (Ip.init_vmk keyOf localKey)

/-! ### Non-vacuity -/

/-- The bucket filter does refuse: a third record of subnet 7 is rejected, … -/
example : ipBucketFilter ⟨3, some 7⟩ [⟨1, some 7⟩, ⟨2, some 7⟩] = false := by decide
/-- … a record identical to a stored one is not counted against itself, … -/
example : ipBucketFilter ⟨1, some 7⟩ [⟨1, some 7⟩, ⟨2, some 7⟩] = true := by decide
/-- … and a record without IPv4 address passes. -/
example : ipBucketFilter ⟨3, none⟩ [⟨1, some 7⟩, ⟨2, some 7⟩] = true := by decide

/-- `Bucket.insert` with the IP configuration reports the refusal. -/
example : (({ nodes := [⟨4, ⟨4, some 7⟩, ⟨true, false⟩, 0⟩, ⟨5, ⟨5, some 7⟩, ⟨true, false⟩, 0⟩],
              fcp := some 0 } : Bucket Val).insert (ipCfg 8 60) 0
            ⟨6, ⟨6, some 7⟩, ⟨true, false⟩, 0⟩).2 = .failedFilter := by decide

/-- The hypothesis of `reachable_ipInv` is satisfiable by a non-trivial history (`keyOf := id`). -/
example : ∀ op ∈ ([.insertOrUpdate 0 4 ⟨4, some 7⟩ ⟨true, false⟩,
      .insertOrUpdate 1 5 ⟨5, some 7⟩ ⟨true, false⟩, .insertOrUpdate 2 6 ⟨6, some 7⟩ ⟨true, false⟩,
      .insertOrUpdate 3 7 ⟨7, some 8⟩ ⟨false, false⟩] : List (Op Val)), op.Respects (·.id) := by
  intro op h
  simp only [List.mem_cons, List.not_mem_nil, or_false] at h
  rcases h with rfl | rfl | rfl | rfl <;> rfl

/-- On that history the table really refuses the third node of subnet 7 in bucket 2 (keys 4–7)
and keeps the others. -/
example : (((([.insertOrUpdate 0 4 ⟨4, some 7⟩ ⟨true, false⟩,
      .insertOrUpdate 1 5 ⟨5, some 7⟩ ⟨true, false⟩, .insertOrUpdate 2 6 ⟨6, some 7⟩ ⟨true, false⟩,
      .insertOrUpdate 3 7 ⟨7, some 8⟩ ⟨false, false⟩] : List (Op Val)).foldl
        (Table.step (ipCfg 8 60)) (Table.init 0)).bucket 2).nodes.map (·.key)) = [7, 4, 5] := by
  set_option maxRecDepth 8000 in decide

end Discv5.KB

/- C16 helper lemmas, part 6: operations that only apply pending nodes. -/
import Discv5Model.Proofs.IpFilterStep
namespace Discv5.KB.Ip

/-! ## the table operations -/

def UBT (t : Table Val) : Prop := ∀ i, UB (t.bucket i)

/-- What the fold-style operations (which only apply pending nodes) maintain. -/
def Keep (keyOf : Val → Nat) (t : Table Val) : Prop := UBT t ∧ IpInv t ∧ ValuesMatchKeys keyOf t

theorem keep_congr (keyOf : Val → Nat) (t t' : Table Val) (h : t'.buckets = t.buckets)
    (hk : Keep keyOf t) : Keep keyOf t' := by
  refine ⟨fun i => ?_, ipInv_congr t t' h hk.2.1, vmk_congr keyOf t t' h hk.2.2⟩
  have := hk.1 i
  unfold Table.bucket at this ⊢
  rw [h]; exact this

theorem keep_of_tinv (keyOf : Val → Nat) (c : Cfg Val) (t : Table Val) (hT : TInv c t) (hI : IpInv t)
    (hK : ValuesMatchKeys keyOf t) : Keep keyOf t := ⟨tinv_UB c t hT, hI, hK⟩

theorem keep_good (keyOf : Val → Nat) (t : Table Val) (hk : Keep keyOf t) (i : Nat) :
    Good keyOf (t.bucket i) := ⟨hk.1 i, vmk_bucket keyOf t hk.2.2 i, ((ipInv_iff t).mp hk.2.1).1 i⟩

theorem applyAt_keep (keyOf : Val → Nat) (mi pt now : Nat) (t : Table Val) (i : Nat)
    (hk : Keep keyOf t) : Keep keyOf (Table.applyAt (ipCfg mi pt) now t i) := by
  have hb := applyAt_buckets (ipCfg mi pt) now t i
  have hg := keep_good keyOf t hk i
  have hm := applyPending_mono (ipCfg mi pt) now t.tick (t.bucket i)
  have hg' := good_applyPending keyOf mi pt now t.tick (t.bucket i) hg
  have := set_shrink keyOf t _ i _ hb hk.2.1 hk.2.2 (fun _ => ⟨hm, hg'.2.2⟩)
  refine ⟨fun j => ?_, this.1, this.2⟩
  by_cases hi : i < t.buckets.length
  · by_cases hj : j = i
    · rw [hj, bucket_of_set_self t _ i _ hb hi]; exact hg'.1
    · rw [bucket_of_set_ne t _ i j _ hb hj]; exact hk.1 j
  · have : (Table.applyAt (ipCfg mi pt) now t i).buckets = t.buckets := by
      rw [hb, List.set_eq_of_length_le (Nat.le_of_not_lt hi)]
    exact (keep_congr keyOf t _ this hk).1 j

theorem bump_keep (keyOf : Val → Nat) (t : Table Val) (hk : Keep keyOf t) : Keep keyOf t.bump :=
  keep_congr keyOf t t.bump rfl hk

theorem foldl_applyAt_keep (keyOf : Val → Nat) (mi pt now : Nat) (l : List Nat) (t : Table Val)
    (hk : Keep keyOf t) :
    Keep keyOf (l.foldl (fun t i => Table.applyAt (ipCfg mi pt) now t i) t) := by
  induction l generalizing t with
  | nil => exact hk
  | cons i l ih => exact ih _ (applyAt_keep keyOf mi pt now t i hk)

theorem applyAll_keep (keyOf : Val → Nat) (mi pt now : Nat) (t : Table Val) (hk : Keep keyOf t) :
    Keep keyOf (t.applyAll (ipCfg mi pt) now) :=
  foldl_applyAt_keep keyOf mi pt now _ _ (bump_keep keyOf t hk)

theorem closest_keep (keyOf : Val → Nat) (mi pt now : Nat) (t : Table Val) (target : Nat)
    (hk : Keep keyOf t) : Keep keyOf (t.closest (ipCfg mi pt) now target).1 := by
  unfold Table.closest
  generalize bucketOrder (t.localKey ^^^ target) = l
  have : ∀ (acc : Table Val × List (Node Val)), Keep keyOf acc.1 →
      Keep keyOf (l.foldl (fun (acc : Table Val × List (Node Val)) i =>
        let t1 := Table.applyAt (ipCfg mi pt) now acc.1 i
        (t1, acc.2 ++ sortByDist target (t1.bucket i).nodes)) acc).1 := by
    induction l with
    | nil => intro acc h; exact h
    | cons i l ih =>
      intro acc h
      exact ih _ (applyAt_keep keyOf mi pt now acc.1 i h)
  exact this _ (bump_keep keyOf t hk)

theorem applyForDistances_keep (keyOf : Val → Nat) (mi pt now m : Nat) (ds : List Nat) (t : Table Val)
    (cnt : Nat) (hk : Keep keyOf t) :
    Keep keyOf (applyForDistances (ipCfg mi pt) now m ds t cnt) := by
  induction ds generalizing t cnt with
  | nil => exact hk
  | cons d ds ih =>
    unfold applyForDistances
    have hka := applyAt_keep keyOf mi pt now t (d - 1) hk
    have hb := applyAt_buckets (ipCfg mi pt) now t (d - 1)
    simp only []
    split
    · rename_i a ha
      have hk' : Keep keyOf
          { t.setBucket (d - 1) ((t.bucket (d - 1)).applyPending (ipCfg mi pt) now t.tick).1 with
            applied := t.applied ++ [a] } := keep_congr keyOf _ _ hb.symm hka
      split
      · exact hk'
      · exact ih _ _ hk'
    · exact ih _ _ (keep_congr keyOf _ _ hb.symm hka)

theorem nodesByDistances_keep (keyOf : Val → Nat) (mi pt now : Nat) (t : Table Val) (ds : List Nat)
    (m : Nat) (hk : Keep keyOf t) : Keep keyOf (t.nodesByDistances (ipCfg mi pt) now ds m).1 :=
  applyForDistances_keep keyOf mi pt now m _ _ 0 (bump_keep keyOf t hk)

end Discv5.KB.Ip

/- Lemmas about the world of TALK request objects (`Model/Talk.lean`): the invariant that an object
still held has caused no output and an object already consumed at most one. -/
import Discv5Model.Model.Talk
namespace Discv5.Talk
open Discv5.Svc

theorem outputsOf_append (i : Nat) (a b : List (Nat × Out)) :
    outputsOf i (a ++ b) = outputsOf i a ++ outputsOf i b := by
  simp [outputsOf]

theorem outputsOf_tag_same (i : Nat) (l : List Out) :
    outputsOf i (l.map (fun o => (i, o))) = l := by
  induction l with
  | nil => rfl
  | cons x xs ih => simp [outputsOf] at ih ⊢; exact ih

theorem outputsOf_tag_other (i j : Nat) (h : j ≠ i) (l : List Out) :
    outputsOf i (l.map (fun o => (j, o))) = [] := by
  induction l with
  | nil => rfl
  | cons x xs ih => simp [outputsOf] at ih ⊢; exact ⟨h, ih⟩

/-- What one life cycle emits. -/
theorem life_outputs (t : TalkReq) (h : t.sender = true) (running : Bool) (u : TalkUse) :
    (t.life running u).2 =
      if running then [.response t.peer t.addr t.rid (.talk (payloadOf u))] else [] := by
  cases running <;> cases u <;> simp [TalkReq.life, TalkReq.respond, TalkReq.drop, payloadOf, h]

def WInv (w : World) (outs : List (Nat × Out)) : Prop :=
  ∀ i, (∀ t, w.reqs[i]? = some (some t) → t.sender = true ∧ outputsOf i outs = []) ∧
       (w.reqs[i]? = some none → (outputsOf i outs).length ≤ 1) ∧
       (w.reqs[i]? = none → outputsOf i outs = [])

theorem winv_init : WInv {} [] := by
  intro i; simp [outputsOf]

theorem step_use_hit (w : World) (j : Nat) (u : TalkUse) (t : TalkReq)
    (hj : w.reqs[j]? = some (some t)) :
    w.step (.use j u) = ({ w with reqs := w.reqs.set j none }, (t.life w.running u).1,
      (t.life w.running u).2.map (fun o => (j, o))) := by
  simp [World.step, hj]

theorem step_use_miss (w : World) (j : Nat) (u : TalkUse)
    (hj : ∀ t, w.reqs[j]? ≠ some (some t)) : w.step (.use j u) = (w, none, []) := by
  cases h : w.reqs[j]? with
  | none => simp [World.step, h]
  | some o =>
    cases o with
    | none => simp [World.step, h]
    | some t => exact absurd h (hj t)

theorem winv_step (w : World) (outs : List (Nat × Out)) (h : WInv w outs) (op : Op) :
    WInv (w.step op).1 (outs ++ (w.step op).2.2) := by
  cases op with
  | shutdown =>
    intro i
    simpa [World.step] using h i
  | deliver rid peer addr =>
    unfold World.step
    by_cases hr : w.running = true
    · simp only [hr, if_true, List.append_nil]
      intro i
      have hi := h i
      by_cases hlt : i < w.reqs.length
      · have e : (w.reqs ++ [some ({ rid := rid, peer := peer, addr := addr } : TalkReq)])[i]? = w.reqs[i]? := by
          simp [List.getElem?_append_left hlt]
        simpa [e] using hi
      · have hge : w.reqs.length ≤ i := Nat.le_of_not_lt hlt
        have hn : w.reqs[i]? = none := List.getElem?_eq_none hge
        have ho := hi.2.2 hn
        by_cases heq : i = w.reqs.length
        · subst heq
          simp [ho]
        · have hgt : w.reqs.length + 1 ≤ i := by omega
          have e : (w.reqs ++ [some ({ rid := rid, peer := peer, addr := addr } : TalkReq)])[i]? = none := by
            apply List.getElem?_eq_none; simp; omega
          simp [e, ho]
    · simp only [hr, List.append_nil]
      simpa using h
  | use j u =>
    by_cases hhit : ∃ t, w.reqs[j]? = some (some t)
    · obtain ⟨t, hj⟩ := hhit
      rw [step_use_hit w j u t hj]
      simp only
      have hjlt : j < w.reqs.length := by
        rcases List.getElem?_eq_some_iff.mp hj with ⟨hlt, _⟩; exact hlt
      obtain ⟨hs, ho⟩ := (h j).1 t hj
      intro i
      by_cases hij : i = j
      · subst hij
        have e : (w.reqs.set i none)[i]? = some none := by simp [hjlt]
        rw [outputsOf_append, outputsOf_tag_same, ho, life_outputs t hs]
        simp only [e]
        refine ⟨fun t' ht' => by simp at ht', fun _ => ?_, fun hn => by simp at hn⟩
        cases w.running <;> simp
      · have e : (w.reqs.set j none)[i]? = w.reqs[i]? := by
          simp [List.getElem?_set, Ne.symm hij]
        rw [outputsOf_append, outputsOf_tag_other i j (Ne.symm hij), List.append_nil]
        simpa [e] using h i
    · have hm : ∀ t, w.reqs[j]? ≠ some (some t) := fun t ht => hhit ⟨t, ht⟩
      rw [step_use_miss w j u hm]
      simpa using h

theorem winv_run (w : World) (outs : List (Nat × Out)) (h : WInv w outs) (ops : List Op) :
    WInv (w.run ops).1 (outs ++ (w.run ops).2.2) := by
  induction ops generalizing w outs with
  | nil => simpa [World.run] using h
  | cons op rest ih =>
    have := ih (w.step op).1 (outs ++ (w.step op).2.2) (winv_step w outs h op)
    simpa [World.run, List.append_assoc] using this


theorem run_append (w : World) (a b : List Op) :
    w.run (a ++ b) = (((w.run a).1.run b).1, (w.run a).2.1 ++ ((w.run a).1.run b).2.1,
      (w.run a).2.2 ++ ((w.run a).1.run b).2.2) := by
  induction a generalizing w with
  | nil => simp [World.run]
  | cons op rest ih => simp [World.run, ih, List.append_assoc]

/-- A consumed object stays consumed and causes nothing any more. -/
theorem consumed_stays (w : World) (i : Nat) (h : w.reqs[i]? = some none) (ops : List Op) :
    (w.run ops).1.reqs[i]? = some none ∧ outputsOf i (w.run ops).2.2 = [] := by
  induction ops generalizing w with
  | nil => simp [World.run, h, outputsOf]
  | cons op rest ih =>
    have hilt : i < w.reqs.length := by
      rcases List.getElem?_eq_some_iff.mp h with ⟨hlt, _⟩; exact hlt
    have key : (w.step op).1.reqs[i]? = some none ∧ outputsOf i (w.step op).2.2 = [] := by
      cases op with
      | shutdown => simp [World.step, h, outputsOf]
      | deliver rid peer addr =>
        unfold World.step
        by_cases hr : w.running = true
        · simp [hr, outputsOf, List.getElem?_append_left hilt, h]
        · simp [hr, outputsOf, h]
      | use j u =>
        by_cases hhit : ∃ t, w.reqs[j]? = some (some t)
        · obtain ⟨t, hj⟩ := hhit
          have hne : j ≠ i := by
            intro e; subst e; rw [h] at hj; simp at hj
          rw [step_use_hit w j u t hj]
          refine ⟨?_, outputsOf_tag_other i j hne _⟩
          simp [hne, h]
        · have hm : ∀ t, w.reqs[j]? ≠ some (some t) := fun t ht => hhit ⟨t, ht⟩
          rw [step_use_miss w j u hm]
          simp [h, outputsOf]
    have := ih (w.step op).1 key.1
    refine ⟨by simpa [World.run] using this.1, ?_⟩
    simp only [World.run, outputsOf_append, key.2, this.2, List.append_nil]

/-- Once stopped, the service stays stopped and nothing is sent any more. -/
theorem stopped_stays (w : World) (h : w.running = false) (ops : List Op) :
    (w.run ops).1.running = false ∧ (w.run ops).2.2 = [] := by
  induction ops generalizing w with
  | nil => simp [World.run, h]
  | cons op rest ih =>
    have key : (w.step op).1.running = false ∧ ((w.step op).2.2 = [] ∨
        ∃ (j : Nat) (t : TalkReq) (u : TalkUse), w.reqs[j]? = some (some t) ∧ (w.step op).2.2 = (t.life false u).2.map (fun o => (j, o))) := by
      cases op with
      | shutdown => simp [World.step]
      | deliver rid peer addr => simp [World.step, h]
      | use j u =>
        by_cases hhit : ∃ t, w.reqs[j]? = some (some t)
        · obtain ⟨t, hj⟩ := hhit
          rw [step_use_hit w j u t hj]
          exact ⟨h, Or.inr ⟨j, t, u, hj, by simp [h]⟩⟩
        · have hm : ∀ t, w.reqs[j]? ≠ some (some t) := fun t ht => hhit ⟨t, ht⟩
          rw [step_use_miss w j u hm]
          exact ⟨h, Or.inl rfl⟩
    have hrest := ih (w.step op).1 key.1
    refine ⟨by simpa [World.run] using hrest.1, ?_⟩
    simp only [World.run, hrest.2, List.append_nil]
    rcases key.2 with e | ⟨j, t, u, _, e⟩
    · exact e
    · rw [e]
      have : (t.life false u).2 = [] := by
        cases u <;> by_cases hs : t.sender = true <;>
          simp [TalkReq.life, TalkReq.respond, TalkReq.drop, hs]
      simp [this]

end Discv5.Talk

/-
Composition of the service model (`Model/Service.lean`) with the IP-vote model
(`Model/IpVote.lean`) for C17.

The service model treats the IP-vote sub-step of its PONG arm as an `Oracle` (`countable`,
`requireMore`, `newLocal`) which the correspondence harness fills from its own vote ledger.  This
file instantiates that oracle from an explicit vote table (`oracleOf`), defines the composed system
(`CSt` = service state + vote table, `cstep`, `crun`) and proves that it simulates
`IpVote.pongStep`:

* `cstep_pong`  – a step on a PONG response that reaches `handle_ip_vote_from_pong` performs exactly
  `pongStep` on (vote table, local record, dual-stack flag) and emits exactly its events;
* `cstep_other` – every other step leaves the local record untouched and emits no `SocketUpdated`;
  the vote table is unchanged, except that an `established` step whose table insertion fails for an
  outgoing session calls `require_more_ip_votes`, which prunes expired votes (`clear_old_votes`);
* `step_oracle_unread` – in those other steps (pruning ones excepted) the oracle is not read at all.

What is NOT in either model: the user-level API `Discv5::update_local_enr_socket` / `enr_insert`,
which write the local record directly.  (The connectivity state - the `countable` bit of the
environment here - and its timer, `remove_udp_socket` / `remove_udp6_socket` after `TimerFailure`,
are modelled in `Model/Connectivity.lean` and composed with the service model in
`Props/C17Connectivity.lean`.)

Where the two models had to be aligned (none of it is a disagreement on the validated domain):
* `ip_votes.is_none()` is `votes.isNone` in `IpVote.pongStep` and `!cfg.enrUpdate` in
  `Svc.ipVote`; the composition carries the coupling `CSt.Coupled` (`votes.isSome = cfg.enrUpdate`,
  which is how `Service::spawn` builds the field; neither component ever changes).
* `IpVote.pongStep` evaluates `is_connected_and_outgoing | require_more_ip_votes(..)` without
  short-circuit and its vote table is pruned by the call even when the vote is then refused;
  `Svc.ipVote` reads `o.requireMore` as a pure flag.  The composed step takes the vote table from
  `pongStep`, so the pruning side effect is kept.
* `Svc.connectionUpdated` reads `o.requireMore` (second call site of `require_more_ip_votes`,
  argument `enr.udp6_socket().is_some()`); the IP-vote model has no such step.  The composition
  models it as the pruning step `IpVote.requireMore` (`estAsks` says when the call is reached).
* `Oracle.newLocal` is a whole new record; the IP-vote model only knows `ip4`, `ip6`, `seq`.  The
  remaining fields of the re-signed record (`size`, `sig`, `udp6Mapped`) are inputs of the step
  (`Env`), everything else is kept (`setSocket`).
-/
import Discv5Model.Model.Service
import Discv5Model.Proofs.IpVoteLemmas

namespace Discv5.SvcVotes

open Discv5.KB
open Discv5.Svc
open Discv5.Svc.Svc
open Discv5.IpVote (Sock Entry Pong IsShuffle pongStep)

/-! ## Vocabulary -/

/-- The vote table of a service: `ip_votes: Option<IpVote>`; addresses are `ip * 65536 + port`
as in the service model. -/
abbrev Votes := Option (IpVote.IpVote Nat)

/-- A service-model address as an IP-vote-model socket. -/
def sockOf (a : Addr) : Sock Nat := if a.v6 then .v6 a.sock else .v4 a.sock

def addrOf : Sock Nat → Addr
  | .v4 a => { v6 := false, sock := a }
  | .v6 a => { v6 := true, sock := a }

/-- The part of the service's local record the IP-vote model talks about. -/
def absRec (r : Rec) : IpVote.Rec Nat := { ip4 := r.udp4, ip6 := r.udp6, seq := r.seq }

/-- Everything one step reads that is in neither model state: the connectivity state's verdict,
the result of `set_udp_socket` (and the derived fields of the re-signed record), the three
`Instant::now()` readings of the vote path and the two hash-map visiting orders. -/
structure Env where
  countable : Bool := true
  setOk : Bool := true
  tClear : Nat
  tIns : Nat
  tMaj : Nat
  sh4 : List (Entry Nat) → List (Entry Nat) := id
  sh6 : List (Entry Nat) → List (Entry Nat) := id
  /-- encoded size / content digest of the re-signed record, IPv4-mapped flag of a new IPv6 socket -/
  newSize : Nat := 0
  newSig : Nat := 0
  newMapped : Bool := false

def Env.Valid (e : Env) : Prop := IsShuffle e.sh4 ∧ IsShuffle e.sh6

/-- `set_udp_socket` on the service model's record: the socket of the family, `seq + 1`, and the
derived fields from the environment. -/
def setSocket (r : Rec) (e : Env) : Sock Nat → Rec
  | .v4 a => { r with udp4 := some a, seq := r.seq + 1, size := e.newSize, sig := e.newSig }
  | .v6 a => { r with udp6 := some a, udp6Mapped := e.newMapped, seq := r.seq + 1,
                      size := e.newSize, sig := e.newSig }

/-- The `Pong` record of the IP-vote model for a PONG from `peer` reporting `observed`. -/
def pongOf (e : Env) (peer : Nat) (observed : Addr) (connOut : Bool) : Pong Nat :=
  { voter := peer, sock := sockOf observed, countable := e.countable, connOut := connOut,
    setOk := e.setOk, tClear := e.tClear, tIns := e.tIns, tMaj := e.tMaj, sh4 := e.sh4, sh6 := e.sh6 }

/-- `is_connected_and_outgoing` as the service model computes it. -/
def connOutOf (s : Svc) (peer : Nat) : Bool :=
  match (s.entry peer).2 with
  | .present _ st => st.conn && !st.incoming
  | _ => false

/-- An event of the IP-vote model as an output of the service model. -/
def evOut : IpVote.Ev Nat → Out
  | .socketUpdated sk => .event (.socketUpdated (addrOf sk))

/-- The `SocketUpdated` events among the outputs of a service step. -/
def sockEvs (outs : List Out) : List Addr :=
  outs.filterMap fun
    | .event (.socketUpdated a) => some a
    | _ => none

/-! ## The induced oracle -/

/-- The oracle induced by a vote table for a PONG from `peer` reporting `observed`:
`requireMore` is `require_more_ip_votes` read off the table, `newLocal` is what `pongStep` does to
the record when the vote is counted.  It depends on the service only through the local record and
the dual-stack flag. -/
def oracleOf (thr : Nat → Nat) (votes : Votes) (localRec : Rec) (dual : Bool) (e : Env)
    (peer : Nat) (observed : Addr) : Oracle :=
  let A : IpVote.Svc Nat := { votes := votes, enr := absRec localRec, dual := dual }
  { countable := e.countable
    requireMore := (IpVote.requireMore A e.tClear observed.v6).2
    newLocal := (pongStep thr A (pongOf e peer observed true)).2.head?.map fun
      | .socketUpdated sk => (setSocket localRec e sk, addrOf sk) }

/-! ## The composed system -/

/-- Service state + vote table. -/
structure CSt where
  svc : Svc
  votes : Votes

def CSt.dual (c : CSt) : Bool := decide (c.svc.cfg.ipMode = .dual)

/-- The IP-vote model's view of a composed state. -/
def CSt.abs (c : CSt) : IpVote.Svc Nat :=
  { votes := c.votes, enr := absRec c.svc.localRec, dual := c.dual }

/-- `ip_votes.is_some()` iff `config.enr_update`. -/
def CSt.Coupled (c : CSt) : Prop := c.votes.isSome = c.svc.cfg.enrUpdate

/-- A PONG response with request id `id` from `(peer, addr)` gets as far as
`handle_ip_vote_from_pong`: the request is active, was sent to that peer and address, was a PING,
and has no user-level callback. -/
def reachesVote (s : Svc) (peer : Nat) (addr : Addr) (id : Nat) : Bool :=
  match (s.removeActive id).2 with
  | none => false
  | some req =>
    !(req.peer != peer || req.addr != addr) &&
      (RespBody.pong 0 addr).matchRequest req.body && !req.callback

/-- The direction `inject_session_established` hands to `connection_updated`. -/
def estDir (s : Svc) (r : Rec) (incoming : Bool) : Bool :=
  match bucketIndex s.table.localKey r.id with
  | some i =>
    match (s.table.bucket i).nodes.find? (fun n => n.key == r.id) with
    | some n => n.st.incoming
    | none => incoming
  | none => incoming

/-- An `established` step reaches the call `require_more_ip_votes(enr.udp6_socket().is_some())`
in `connection_updated`: the record is admissible, the insertion failed and the direction is
outgoing. -/
def estAsks (s : Svc) (r : Rec) (incoming : Bool) : Bool :=
  contactable s.cfg.ipMode r && r.passesFilter && !estDir s r incoming &&
    (match (s.table.insertOrUpdate s.cfg.kb s.now r.id r
        { conn := true, incoming := estDir s r incoming }).2 with
      | .failed _ => true
      | _ => false)

/-- The `Pong` of the IP-vote model a step amounts to, if it reaches the vote path. -/
def votePong (s : Svc) (e : Env) : Input → Option (Pong Nat)
  | .response peer addr id (.pong _ observed) =>
    if reachesVote s peer addr id then some (pongOf e peer observed (connOutOf s peer)) else none
  | _ => none

/-- The argument of a call of `require_more_ip_votes` outside the PONG arm, if the step makes one. -/
def pruneAsk (s : Svc) : Input → Option Bool
  | .established r _ incoming => if estAsks s r incoming then some r.udp6.isSome else none
  | _ => none

/-- The oracle of a step of the composed system. -/
def oracleFor (thr : Nat → Nat) (c : CSt) (e : Env) : Input → Oracle
  | .response peer _ _ (.pong _ observed) => oracleOf thr c.votes c.svc.localRec c.dual e peer observed
  | .established r _ _ => { requireMore := (IpVote.requireMore c.abs e.tClear r.udp6.isSome).2 }
  | _ => {}

/-- The vote table after a step. -/
def votesAfter (thr : Nat → Nat) (c : CSt) (e : Env) (inp : Input) : Votes :=
  match votePong c.svc e inp with
  | some p => (pongStep thr c.abs p).1.votes
  | none =>
    match pruneAsk c.svc inp with
    | some b => (IpVote.requireMore c.abs e.tClear b).1.votes
    | none => c.votes

/-- One step of the composed system: the service step under the induced oracle. -/
def cstep (thr : Nat → Nat) (c : CSt) (e : Env) (inp : Input) : CSt × List Out :=
  let r := c.svc.step (oracleFor thr c e inp) inp
  ({ svc := r.1, votes := votesAfter thr c e inp }, r.2)

/-- A history of the composed system. -/
def crun (thr : Nat → Nat) (c : CSt) : List (Env × Input) → CSt × List Out
  | [] => (c, [])
  | (e, inp) :: rest =>
    let r1 := cstep thr c e inp
    let r2 := crun thr r1.1 rest
    (r2.1, r1.2 ++ r2.2)

/-- The PONGs of a history that reached the vote path, oldest first. -/
def pongsOf (thr : Nat → Nat) (c : CSt) : List (Env × Input) → List (Pong Nat)
  | [] => []
  | (e, inp) :: rest =>
    (votePong c.svc e inp).toList ++ pongsOf thr (cstep thr c e inp).1 rest

/-! ## Frame: what does not touch the local record -/

/-- A state transformer keeps the configuration and the local record. -/
structure FrS (s s' : Svc) : Prop where
  cfg : s'.cfg = s.cfg
  loc : s'.localRec = s.localRec

/-- A step function keeps the configuration and the local record and emits no `SocketUpdated`. -/
structure Fr (s : Svc) (r : Svc × List Out) : Prop where
  st : FrS s r.1
  outs : sockEvs r.2 = []

theorem FrS.refl {s : Svc} : FrS s s := ⟨rfl, rfl⟩

theorem FrS.trans {s s1 s2 : Svc} (h1 : FrS s s1) (h2 : FrS s1 s2) : FrS s s2 :=
  ⟨h2.cfg.trans h1.cfg, h2.loc.trans h1.loc⟩

theorem sockEvs_append (a b : List Out) : sockEvs (a ++ b) = sockEvs a ++ sockEvs b := by
  unfold sockEvs; exact List.filterMap_append

theorem Fr.refl {s : Svc} : Fr s (s, []) := ⟨FrS.refl, rfl⟩

theorem Fr.of_st {s s' : Svc} (h : FrS s s') : Fr s (s', []) := ⟨h, rfl⟩

/-- sequencing: the outputs are appended -/
theorem Fr.seq {s : Svc} {r1 r2 : Svc × List Out} (h1 : Fr s r1) (h2 : Fr r1.1 r2) :
    Fr s (r2.1, r1.2 ++ r2.2) :=
  ⟨h1.st.trans h2.st, by rw [sockEvs_append, h1.outs, h2.outs]; rfl⟩

theorem Fr.pre {s s1 : Svc} {r : Svc × List Out} (h1 : FrS s s1) (h2 : Fr s1 r) : Fr s r :=
  ⟨h1.trans h2.st, h2.outs⟩

theorem Fr.post {s : Svc} {r : Svc × List Out} {outs : List Out} (h : Fr s r)
    (ho : sockEvs outs = []) : Fr s (r.1, r.2 ++ outs) :=
  ⟨h.st, by rw [sockEvs_append, h.outs, ho]; rfl⟩

theorem entry_frs (s : Svc) (key : Nat) : FrS s (s.entry key).1 := ⟨rfl, rfl⟩

theorem entryRemove_frs (s : Svc) (key : Nat) : FrS s (s.entryRemove key) := by
  unfold entryRemove
  cases bucketIndex s.table.localKey key with
  | none => exact FrS.refl
  | some i => exact ⟨rfl, rfl⟩

theorem findEnr_frs (s : Svc) (id : Nat) : FrS s (s.findEnr id).1 := by
  have h := entry_frs s id
  unfold findEnr
  generalize s.entry id = x at h ⊢
  obtain ⟨s1, l⟩ := x
  simp only
  cases l <;> simp only <;> first | exact h | (cases s1.query <;> exact h)

theorem sendRpcRequest_fr (s : Svc) (peer : Nat) (addr : Addr) (body : ReqBody) (q : Option Nat)
    (cb : Bool) : Fr s (s.sendRpcRequest peer addr body q cb) := ⟨⟨rfl, rfl⟩, rfl⟩

theorem sendPing_fr (s : Svc) (r : Rec) (cb : Bool) : Fr s (s.sendPing r cb) := by
  unfold sendPing
  cases contactableAddr s.cfg.ipMode r with
  | none => exact Fr.refl
  | some a => exact sendRpcRequest_fr ..

theorem connectionUpdated_fr (s : Svc) (o : Oracle) (nodeId : Nat) (cs : ConnStatus) :
    Fr s (s.connectionUpdated o nodeId cs) := by
  cases cs with
  | connected r incoming =>
    have h1 : FrS s { s with table := (s.table.insertOrUpdate s.cfg.kb s.now nodeId r
        { conn := true, incoming := incoming }).1 } := ⟨rfl, rfl⟩
    unfold connectionUpdated
    simp only
    generalize s.table.insertOrUpdate s.cfg.kb s.now nodeId r { conn := true, incoming := incoming } = x
      at h1 ⊢
    obtain ⟨t, res⟩ := x
    simp only at h1 ⊢
    cases res with
    | inserted =>
      simp only
      cases incoming
      · exact Fr.pre h1 ((sendPing_fr ..).post rfl)
      · exact Fr.pre h1 (Fr.refl.post rfl)
    | pending d =>
      simp only
      have h2 := entry_frs { s with table := t } d
      generalize Svc.entry { s with table := t } d = y at h2 ⊢
      obtain ⟨s2, l⟩ := y
      cases l <;> simp only <;>
        first | exact Fr.of_st (h1.trans h2) | exact Fr.pre (h1.trans h2) (sendPing_fr ..)
    | failed f =>
      simp only
      split
      · exact Fr.pre h1 (sendPing_fr ..)
      · exact Fr.of_st h1
    | _ => exact Fr.of_st h1
  | pongReceived => unfold connectionUpdated; exact ⟨⟨rfl, rfl⟩, rfl⟩
  | disconnected => unfold connectionUpdated; exact ⟨⟨rfl, rfl⟩, rfl⟩

theorem injectSessionEstablished_fr (s : Svc) (o : Oracle) (r : Rec) (addr : Addr) (incoming : Bool) :
    Fr s (s.injectSessionEstablished o r addr incoming) := by
  unfold injectSessionEstablished
  simp only
  split
  · exact ⟨FrS.refl, rfl⟩
  split
  · exact ⟨FrS.refl, rfl⟩
  exact (connectionUpdated_fr ..).post rfl

theorem discoveredOne_fr (s : Svc) (source : Nat) (r : Rec) :
    FrS s (s.discoveredOne source r).1 ∧ sockEvs (s.discoveredOne source r).2.2 = [] := by
  unfold discoveredOne
  split
  · exact ⟨FrS.refl, rfl⟩
  simp only
  have hev : sockEvs (if s.cfg.reportDiscovered then [Out.event (.discovered r)] else []) = [] := by
    split <;> rfl
  have he := entry_frs s r.id
  generalize s.entry r.id = x at he ⊢
  obtain ⟨s1, l⟩ := x
  simp only at he ⊢
  cases l <;> simp only <;> repeat' split
  all_goals
    refine ⟨?_, ?_⟩
    · first
      | exact he
      | exact he.trans ⟨rfl, rfl⟩
      | exact he.trans (entryRemove_frs ..)
    · first
      | exact hev
      | rfl

theorem discoveredLoop_fr (source : Nat) :
    ∀ (recs : List Rec) (s : Svc) (kept : List Rec) (outs : List Out), sockEvs outs = [] →
      FrS s (discoveredLoop s source recs kept outs).1 ∧
        sockEvs (discoveredLoop s source recs kept outs).2.2 = [] := by
  intro recs
  induction recs with
  | nil => intro s kept outs h; unfold discoveredLoop; exact ⟨FrS.refl, h⟩
  | cons r rs ih =>
    intro s kept outs h
    unfold discoveredLoop
    have h1 := discoveredOne_fr s source r
    generalize s.discoveredOne source r = x at h1 ⊢
    obtain ⟨s1, keep, o1⟩ := x
    simp only at h1 ⊢
    have h2 := ih s1 (if keep then kept ++ [r] else kept) (outs ++ o1)
      (by rw [sockEvs_append, h, h1.2]; rfl)
    exact ⟨h1.1.trans h2.1, h2.2⟩

theorem discovered_fr (s : Svc) (source : Nat) (recs : List Rec) (q : Option Nat) :
    Fr s (s.discovered source recs q) := by
  unfold discovered
  have h1 := discoveredLoop_fr source recs s [] [] rfl
  generalize discoveredLoop s source recs [] [] = x at h1 ⊢
  obtain ⟨s1, kept, outs⟩ := x
  simp only at h1 ⊢
  split
  · split
    · exact ⟨h1.1.trans ⟨rfl, rfl⟩, h1.2⟩
    · exact ⟨h1.1, h1.2⟩
  · exact ⟨h1.1, h1.2⟩

theorem nodesToSend_frs (s : Svc) (requester : Nat) (ds : List Nat) :
    FrS s (s.nodesToSend requester ds).1 := by
  unfold nodesToSend
  simp only
  split
  · split
    · exact FrS.refl
    · exact ⟨rfl, rfl⟩
  · split
    · exact FrS.refl
    · exact ⟨rfl, rfl⟩

theorem sockEvs_map_response (peer : Nat) (addr : Addr) (rid : Bytes) (total : Nat)
    (ps : List (List Rec)) :
    sockEvs (ps.map fun p => Out.response peer addr rid (.nodes total p)) = [] := by
  induction ps with
  | nil => rfl
  | cons p ps ih =>
    rw [List.map_cons]
    show sockEvs ([_] ++ _) = []
    rw [sockEvs_append, ih]; rfl

theorem sendNodesResponse_fr (s : Svc) (peer : Nat) (addr : Addr) (rid : Bytes) (ds : List Nat) :
    Fr s (s.sendNodesResponse peer addr rid ds) := by
  unfold sendNodesResponse
  have h := nodesToSend_frs s peer ds
  generalize s.nodesToSend peer ds = x at h ⊢
  obtain ⟨s1, recs⟩ := x
  simp only at h ⊢
  exact ⟨h, sockEvs_map_response ..⟩

theorem handleRequest_fr (s : Svc) (peer : Nat) (addr : Addr) (rid : Bytes) (body : ReqBody) :
    Fr s (s.handleRequest peer addr rid body) := by
  cases body with
  | findNode ds => unfold handleRequest; exact sendNodesResponse_fr ..
  | talk p q => unfold handleRequest; exact ⟨FrS.refl, rfl⟩
  | ping enrSeq =>
    unfold handleRequest
    simp only
    have he := entry_frs s peer
    generalize s.entry peer = x at he ⊢
    obtain ⟨s1, l⟩ := x
    simp only at he ⊢
    have key : ∀ tr : Option Rec, Fr s1 (match tr with
        | some v =>
          match contactableAddr s1.cfg.ipMode v with
          | some a => s1.sendRpcRequest v.id a (.findNode [Consts.ENR_REQUEST_DISTANCE]) none false
          | none => (s1, [])
        | none => (s1, [])) := by
      intro tr
      cases tr with
      | none => exact Fr.refl
      | some v =>
        simp only
        cases contactableAddr s1.cfg.ipMode v with
        | none => exact Fr.refl
        | some a => exact sendRpcRequest_fr ..
    refine Fr.pre he ((key _).post ?_)
    split <;> rfl

theorem removeActive_frs (s : Svc) (id : Nat) : FrS s (s.removeActive id).1 := by
  unfold removeActive
  cases s.active.find? (fun a => a.id == id) with
  | none => exact FrS.refl
  | some a => exact ⟨rfl, rfl⟩

theorem takeNodesResp_frs (s : Svc) (id : Nat) : FrS s (s.takeNodesResp id).1 := by
  unfold takeNodesResp
  cases s.nodesResp.find? (fun p => p.1 == id) with
  | none => exact FrS.refl
  | some a => exact ⟨rfl, rfl⟩

theorem rpcFailure_fr (s : Svc) (o : Oracle) (id : Nat) : Fr s (s.rpcFailure o id) := by
  unfold rpcFailure
  have h0 := removeActive_frs s id
  generalize s.removeActive id = x at h0 ⊢
  obtain ⟨s0, oreq⟩ := x
  cases oreq with
  | none => exact Fr.refl
  | some req =>
    simp only at h0 ⊢
    split
    · exact ⟨h0, rfl⟩
    have h1 : Fr s0 (match req.body with
        | .findNode _ =>
          match s0.takeNodesResp id with
          | (s1, some nr) =>
            if !nr.received.isEmpty then s1.discovered req.peer nr.received req.query else (s1, [])
          | (s1, none) => (s1, [])
        | _ => (s0, [])) := by
      split
      · have h2 := takeNodesResp_frs s0 id
        generalize s0.takeNodesResp id = y at h2 ⊢
        obtain ⟨s1, onr⟩ := y
        simp only at h2
        cases onr with
        | none => exact Fr.of_st h2
        | some nr =>
          simp only
          split
          · exact Fr.pre h2 (discovered_fr ..)
          · exact Fr.of_st h2
      · exact Fr.refl
    exact Fr.pre h0 (h1.seq (connectionUpdated_fr ..))

theorem unverifiable_fr (s : Svc) (id : Nat) : Fr s (s.unverifiable id) := ⟨⟨rfl, rfl⟩, rfl⟩

theorem whoAreYou_fr (s : Svc) (peer : Nat) (addr : Addr) : Fr s (s.whoAreYou peer addr) := by
  unfold whoAreYou
  have h := findEnr_frs s peer
  generalize s.findEnr peer = x at h ⊢
  obtain ⟨s1, known⟩ := x
  exact ⟨h, rfl⟩

theorem addEnr_frs (s : Svc) (r : Rec) : FrS s (s.addEnr r).1 := by
  unfold addEnr
  split
  · exact FrS.refl
  split
  · exact FrS.refl
  exact ⟨rfl, rfl⟩

theorem startQuery_frs (s : Svc) (target : Nat) : FrS s (s.startQuery target) := by
  unfold startQuery
  simp only
  split <;> exact ⟨rfl, rfl⟩

theorem sendRpcQuery_fr (s : Svc) (peer : Nat) : Fr s (s.sendRpcQuery peer) := by
  unfold sendRpcQuery
  cases s.query with
  | none => exact Fr.refl
  | some q =>
    simp only
    have h2 := findEnr_frs s peer
    generalize s.findEnr peer = z at h2 ⊢
    obtain ⟨s2, known⟩ := z
    simp only at h2 ⊢
    cases known with
    | none => exact Fr.of_st h2
    | some r =>
      simp only
      cases contactableAddr s2.cfg.ipMode r with
      | none => exact Fr.of_st h2
      | some a => exact Fr.pre h2 (sendRpcRequest_fr ..)

/-! ## The vote sub-step under the induced oracle -/

/-- `Svc.ipVote` in projection form. -/
theorem ipVote_eq (s : Svc) (o : Oracle) (peer : Nat) :
    s.ipVote o peer =
      if !o.countable then (s, []) else
      if !s.cfg.enrUpdate then (s, []) else
      if !(connOutOf s peer || o.requireMore) then ((s.entry peer).1, []) else
      match o.newLocal with
      | some (r, a) => ({ (s.entry peer).1 with localRec := r }, [.event (.socketUpdated a)])
      | none => ((s.entry peer).1, []) := by
  unfold ipVote connOutOf
  rfl

/-- The local record after the events of a `pongStep`. -/
def recAfter (r : Rec) (e : Env) : List (IpVote.Ev Nat) → Rec
  | [] => r
  | .socketUpdated sk :: _ => setSocket r e sk

/-- The direction flag only matters through `connOut | require_more`. -/
theorem pongStep_connOut (thr : Nat → Nat) (A : IpVote.Svc Nat) (p : Pong Nat)
    (h : (p.connOut || (IpVote.requireMore A p.tClear p.sock.isV6).2) = true) :
    pongStep thr A { p with connOut := true } = pongStep thr A p := by
  unfold pongStep
  simp only [h, Bool.true_or, Bool.not_true]
  rfl

theorem absRec_recAfter_nil (r : Rec) (e : Env) : recAfter r e [] = r := rfl

/-- `pongStep` changes the abstract record exactly as its events say. -/
theorem pongStep_enr (thr : Nat → Nat) (r : Rec) (e : Env) (A : IpVote.Svc Nat) (p : Pong Nat)
    (hA : A.enr = absRec r) :
    absRec (recAfter r e (pongStep thr A p).2) = (pongStep thr A p).1.enr := by
  rcases IpVote.pongStep_cases thr A p with ⟨h1, h2⟩ | ⟨a, v', _, _, _, h4, h5⟩ | ⟨a, v', _, _, _, h4, h5⟩
  · rw [h1, h2, hA]; rfl
  · rw [h4, h5, hA]; rfl
  · rw [h4, h5, hA]; rfl

/-- The events of a `pongStep` are none or one. -/
theorem pongStep_evs (thr : Nat → Nat) (A : IpVote.Svc Nat) (p : Pong Nat) :
    (pongStep thr A p).2 = [] ∨ ∃ sk, (pongStep thr A p).2 = [.socketUpdated sk] := by
  rcases IpVote.pongStep_cases thr A p with ⟨_, h2⟩ | ⟨a, v', _, _, _, _, h5⟩ | ⟨a, v', _, _, _, _, h5⟩
  · exact Or.inl h2
  · exact Or.inr ⟨_, h5⟩
  · exact Or.inr ⟨_, h5⟩

/-- **Simulation of the vote sub-step.**  Under the oracle induced by the vote table, `Svc.ipVote`
changes the local record and emits events exactly as `IpVote.pongStep` does on the abstraction
(vote table, record, dual flag) with the PONG's data and the direction flag the service reads off
its routing table. -/
theorem ipVote_sim (thr : Nat → Nat) (s : Svc) (votes : Votes) (hc : votes.isSome = s.cfg.enrUpdate)
    (dual : Bool) (e : Env) (peer : Nat) (observed : Addr) :
    let A : IpVote.Svc Nat := { votes := votes, enr := absRec s.localRec, dual := dual }
    let R := pongStep thr A (pongOf e peer observed (connOutOf s peer))
    let r := s.ipVote (oracleOf thr votes s.localRec dual e peer observed) peer
    r.1.cfg = s.cfg ∧ r.1.localRec = recAfter s.localRec e R.2 ∧ r.2 = R.2.map evOut := by
  intro A R r
  have hr : r = s.ipVote (oracleOf thr votes s.localRec dual e peer observed) peer := rfl
  rw [ipVote_eq] at hr
  have ho1 : (oracleOf thr votes s.localRec dual e peer observed).countable = e.countable := rfl
  have ho2 : (oracleOf thr votes s.localRec dual e peer observed).requireMore =
      (IpVote.requireMore A e.tClear observed.v6).2 := rfl
  have ho3 : (oracleOf thr votes s.localRec dual e peer observed).newLocal =
      (pongStep thr A (pongOf e peer observed true)).2.head?.map fun
        | .socketUpdated sk => (setSocket s.localRec e sk, addrOf sk) := rfl
  have hv6 : (sockOf observed).isV6 = observed.v6 := by
    unfold sockOf; cases observed.v6 <;> rfl
  rw [ho1, ho2] at hr
  have hRdef : R = pongStep thr A (pongOf e peer observed (connOutOf s peer)) := rfl
  by_cases hcnt : e.countable = true
  · by_cases hen : s.cfg.enrUpdate = true
    · have hsome : A.votes.isSome = true := by rw [← hen]; exact hc
      by_cases hel : (connOutOf s peer || (IpVote.requireMore A e.tClear observed.v6).2) = true
      · -- the vote is counted
        have hR : R = pongStep thr A (pongOf e peer observed true) := by
          rw [hRdef]
          exact (pongStep_connOut thr A (pongOf e peer observed (connOutOf s peer))
            (by show (connOutOf s peer || (IpVote.requireMore A e.tClear (sockOf observed).isV6).2) = true
                rw [hv6]; exact hel)).symm
        rw [if_neg (by simp [hcnt]), if_neg (by simp [hen]), if_neg (by simp [hel]), ho3, ← hR] at hr
        rcases pongStep_evs thr A (pongOf e peer observed (connOutOf s peer)) with h | ⟨sk, h⟩
        · rw [← hRdef] at h
          rw [h] at hr ⊢
          rw [hr]
          exact ⟨rfl, rfl, rfl⟩
        · rw [← hRdef] at h
          rw [h] at hr ⊢
          rw [hr]
          exact ⟨rfl, rfl, rfl⟩
      · -- neither outgoing nor needed
        rw [if_neg (by simp [hcnt]), if_neg (by simp [hen]), if_pos (by simpa using hel)] at hr
        have hR : R.2 = [] := by
          rw [hRdef]
          unfold pongStep
          have : (pongOf e peer observed (connOutOf s peer)).countable = true := hcnt
          have hnn : ¬ (A.votes.isNone = true) := by
            cases hA : A.votes with
            | none => rw [hA] at hsome; cases hsome
            | some v => simp
          rw [if_neg (by simp [this]), if_neg hnn]
          simp only []
          rw [if_pos]
          show (!((connOutOf s peer) || (IpVote.requireMore A e.tClear (sockOf observed).isV6).2)) = true
          rw [hv6]; simpa using hel
        rw [hR, hr]
        exact ⟨rfl, rfl, rfl⟩
    · -- no vote table
      have hnone : A.votes.isNone = true := by
        have : votes.isSome = false := by rw [hc]; simpa using hen
        show votes.isNone = true
        cases votes <;> simp_all
      rw [if_neg (by simp [hcnt]), if_pos (by simpa using hen)] at hr
      have hR : R.2 = [] := by
        rw [hRdef]
        unfold pongStep
        have : (pongOf e peer observed (connOutOf s peer)).countable = true := hcnt
        rw [if_neg (by simp [this]), if_pos hnone]
      rw [hR, hr]
      exact ⟨rfl, rfl, rfl⟩
  · rw [if_pos (by simpa using hcnt)] at hr
    have hR : R.2 = [] := by
      rw [hRdef]
      unfold pongStep
      have : (pongOf e peer observed (connOutOf s peer)).countable = false := by
        show e.countable = false
        simpa using hcnt
      rw [if_pos (by simp [this])]
    rw [hR, hr]
    exact ⟨rfl, rfl, rfl⟩

/-! ## The response arm -/

/-- What follows the vote in the PONG arm (`find_enr`, the ENR request, `PongReceived`) neither
touches the local record nor emits `SocketUpdated`. -/
theorem pongTail_fr (s1 : Svc) (o : Oracle) (peer : Nat) (req : ActiveReq) (enrSeq : Nat) :
    Fr s1 (match s1.findEnr peer with
      | (s2, some r) =>
        let (s3, o2) :=
          if r.seq < enrSeq then s2.sendRpcRequest req.peer req.addr (.findNode [Consts.ENR_REQUEST_DISTANCE]) none false
          else (s2, [])
        let (s4, o3) :=
          if contactable s3.cfg.ipMode r then s3.connectionUpdated o peer .pongReceived else (s3, [])
        (s4, o2 ++ o3)
      | (s2, none) => (s2, [])) := by
  have h2 := findEnr_frs s1 peer
  generalize s1.findEnr peer = z at h2 ⊢
  obtain ⟨s2, known⟩ := z
  simp only at h2 ⊢
  cases known with
  | none => exact Fr.of_st h2
  | some r =>
    simp only
    have h3 : Fr s2 (if r.seq < enrSeq then
        s2.sendRpcRequest req.peer req.addr (.findNode [Consts.ENR_REQUEST_DISTANCE]) none false
        else (s2, [])) := by
      split
      · exact sendRpcRequest_fr ..
      · exact Fr.refl
    generalize (if r.seq < enrSeq then
        s2.sendRpcRequest req.peer req.addr (.findNode [Consts.ENR_REQUEST_DISTANCE]) none false
        else (s2, [])) = w at h3 ⊢
    obtain ⟨s3, o2⟩ := w
    simp only at h3 ⊢
    have h4 : Fr s3 (if contactable s3.cfg.ipMode r then s3.connectionUpdated o peer .pongReceived
        else (s3, [])) := by
      split
      · exact connectionUpdated_fr ..
      · exact Fr.refl
    exact Fr.pre h2 (h3.seq h4)

theorem matchRequest_pong (a b : Nat) (x y : Addr) (q : ReqBody) :
    (RespBody.pong a x).matchRequest q = (RespBody.pong b y).matchRequest q := by
  cases q <;> rfl

/-- A PONG response that reaches the vote: the local record and the `SocketUpdated` events of the
whole step are those of the vote sub-step (run on the state without the answered request). -/
theorem handleResponse_vote (s : Svc) (o : Oracle) (peer : Nat) (addr : Addr) (id enrSeq : Nat)
    (observed : Addr) (h : reachesVote s peer addr id = true) :
    (s.handleResponse o peer addr id (.pong enrSeq observed)).1.cfg =
        ((s.removeActive id).1.ipVote o peer).1.cfg ∧
    (s.handleResponse o peer addr id (.pong enrSeq observed)).1.localRec =
        ((s.removeActive id).1.ipVote o peer).1.localRec ∧
    sockEvs (s.handleResponse o peer addr id (.pong enrSeq observed)).2 =
        sockEvs ((s.removeActive id).1.ipVote o peer).2 := by
  unfold handleResponse
  unfold reachesVote at h
  generalize s.removeActive id = x at h ⊢
  obtain ⟨s0, oreq⟩ := x
  cases oreq with
  | none => simp at h
  | some req =>
    simp only [Bool.and_eq_true, Bool.not_eq_true'] at h
    obtain ⟨⟨h1, h2⟩, h3⟩ := h
    rw [matchRequest_pong 0 enrSeq addr observed] at h2
    simp only
    rw [if_neg (by rw [h1]; simp), if_neg (by rw [h2]; simp), if_neg (by rw [h3]; simp)]
    generalize s0.ipVote o peer = y
    obtain ⟨s1, o1⟩ := y
    simp only
    have ht := pongTail_fr s1 o peer req enrSeq
    generalize s1.findEnr peer = z at ht ⊢
    obtain ⟨s2, known⟩ := z
    cases known with
    | none =>
      simp only at ht ⊢
      refine ⟨ht.st.cfg, ht.st.loc, ?_⟩
      first | rfl | trivial
    | some r =>
      simp only at ht ⊢
      generalize (if r.seq < enrSeq then
        s2.sendRpcRequest req.peer req.addr (.findNode [Consts.ENR_REQUEST_DISTANCE]) none false
        else (s2, [])) = w at ht ⊢
      obtain ⟨s3, o2⟩ := w
      simp only at ht ⊢
      generalize (if contactable s3.cfg.ipMode r then s3.connectionUpdated o peer .pongReceived
        else (s3, [])) = u at ht ⊢
      obtain ⟨s4, o3⟩ := u
      simp only at ht ⊢
      refine ⟨ht.st.cfg, ht.st.loc, ?_⟩
      have := ht.outs
      simp only at this
      rw [List.append_assoc, sockEvs_append, this, List.append_nil]

/-- Every other response (not a PONG, or a PONG that does not reach the vote) keeps the local
record and emits no `SocketUpdated`. -/
theorem handleResponse_fr (s : Svc) (o : Oracle) (peer : Nat) (addr : Addr) (id : Nat) (body : RespBody)
    (h : ∀ enrSeq observed, body = .pong enrSeq observed → reachesVote s peer addr id = false) :
    Fr s (s.handleResponse o peer addr id body) := by
  unfold handleResponse
  unfold reachesVote at h
  have h0 := removeActive_frs s id
  generalize s.removeActive id = x at h h0 ⊢
  obtain ⟨s0, oreq⟩ := x
  cases oreq with
  | none => exact Fr.refl
  | some req =>
    have hd : sockEvs (if req.callback then [Out.callback id .err] else []) = [] := by
      split <;> rfl
    simp only at h0 h ⊢
    split
    · exact ⟨h0, hd⟩
    rename_i hn1
    split
    · exact ⟨h0, hd⟩
    rename_i hn2
    cases body with
    | talk resp =>
      simp only
      split <;> exact ⟨h0, rfl⟩
    | nodes total recs =>
      simp only
      split
      · exact ⟨h0, rfl⟩
      have hb : ∀ b : Bool, sockEvs (if b then [Out.ban peer addr] else []) = [] := by
        intro b; cases b <;> rfl
      have h1 : FrS s0 (if total > 1 then s0.takeNodesResp id else (s0, none)).1 := by
        split
        · exact takeNodesResp_frs ..
        · exact FrS.refl
      generalize (if total > 1 then s0.takeNodesResp id else (s0, none)) = y at h1 ⊢
      obtain ⟨s1, cur⟩ := y
      simp only at h1 ⊢
      split
      · exact ⟨(h0.trans h1).trans ⟨rfl, rfl⟩, hb _⟩
      · have h2 := takeNodesResp_frs s1 id
        generalize s1.takeNodesResp id = y2 at h2 ⊢
        obtain ⟨s2, _⟩ := y2
        simp only at h2 ⊢
        have h3 := discovered_fr s2 peer (by assumption) req.query
        generalize s2.discovered peer _ req.query = y3 at h3 ⊢
        obtain ⟨s3, outs⟩ := y3
        simp only
        refine ⟨((h0.trans h1).trans h2).trans h3.st, ?_⟩
        rw [sockEvs_append, hb, h3.outs]; rfl
    | pong enrSeq observed =>
      simp only
      have := h enrSeq observed rfl
      rw [matchRequest_pong 0 enrSeq addr observed] at this
      have hcb : req.callback = true := by
        cases h1 : (req.peer != peer || req.addr != addr) <;>
          cases h2 : (RespBody.pong enrSeq observed).matchRequest req.body <;>
          cases h3 : req.callback <;> simp_all
      rw [if_pos hcb]
      exact ⟨h0, rfl⟩

/-! ## One step of the composed system -/

theorem votePong_pong (s : Svc) (e : Env) (peer : Nat) (addr : Addr) (id enrSeq : Nat) (observed : Addr) :
    votePong s e (.response peer addr id (.pong enrSeq observed)) =
      if reachesVote s peer addr id then some (pongOf e peer observed (connOutOf s peer)) else none := rfl

/-- Every step that is not a vote-reaching PONG keeps the local record and the configuration and
emits no `SocketUpdated`, whatever the oracle. -/
theorem step_fr (s : Svc) (o : Oracle) (e : Env) (inp : Input) (h : votePong s e inp = none) :
    Fr s (s.step o inp) := by
  cases inp with
  | established r addr incoming => exact injectSessionEstablished_fr s o r addr incoming
  | request peer addr rid body => exact handleRequest_fr ..
  | response peer addr id body =>
    refine handleResponse_fr s o peer addr id body ?_
    intro enrSeq observed hb
    subst hb
    rw [votePong_pong] at h
    by_cases hr : reachesVote s peer addr id = true
    · rw [if_pos hr] at h; cases h
    · simpa using hr
  | requestFailed id => exact rpcFailure_fr s o id
  | unverifiable id => exact unverifiable_fr ..
  | whoAreYou peer addr => exact whoAreYou_fr ..
  | addEnr r => exact Fr.of_st (addEnr_frs ..)
  | removeNode id => exact ⟨⟨rfl, rfl⟩, rfl⟩
  | apiPing r => exact sendPing_fr ..
  | apiFindNode r ds =>
    show Fr s (match contactableAddr s.cfg.ipMode r with
      | some a => s.sendRpcRequest r.id a (.findNode ds) none true
      | none => (s, []))
    cases contactableAddr s.cfg.ipMode r with
    | none => exact Fr.refl
    | some a => exact sendRpcRequest_fr ..
  | apiTalk r p q =>
    show Fr s (match contactableAddr s.cfg.ipMode r with
      | some a => s.sendRpcRequest r.id a (.talk p q) none true
      | none => (s, []))
    cases contactableAddr s.cfg.ipMode r with
    | none => exact Fr.refl
    | some a => exact sendRpcRequest_fr ..
  | startQuery target => exact Fr.of_st (startQuery_frs ..)
  | queryEmit peer => exact sendRpcQuery_fr ..
  | queryFinished => exact ⟨⟨rfl, rfl⟩, rfl⟩

theorem removeActive_same (s : Svc) (id : Nat) :
    (s.removeActive id).1.table = s.table ∧ (s.removeActive id).1.cfg = s.cfg ∧
    (s.removeActive id).1.now = s.now ∧ (s.removeActive id).1.localRec = s.localRec := by
  unfold removeActive
  cases s.active.find? (fun a => a.id == id) with
  | none => exact ⟨rfl, rfl, rfl, rfl⟩
  | some a => exact ⟨rfl, rfl, rfl, rfl⟩

theorem connOutOf_congr {s s' : Svc} (ht : s'.table = s.table) (hc : s'.cfg = s.cfg)
    (hn : s'.now = s.now) (peer : Nat) : connOutOf s' peer = connOutOf s peer := by
  unfold connOutOf Svc.entry
  simp only
  rw [ht, hc, hn]

def evAddr : IpVote.Ev Nat → Addr
  | .socketUpdated sk => addrOf sk

theorem sockEvs_map_evOut (l : List (IpVote.Ev Nat)) : sockEvs (l.map evOut) = l.map evAddr := by
  induction l with
  | nil => rfl
  | cons x xs ih =>
    cases x with
    | socketUpdated sk =>
      rw [List.map_cons, List.map_cons]
      show sockEvs ([_] ++ _) = _
      rw [sockEvs_append, ih]; rfl

theorem requireMore_dual (A : IpVote.Svc Nat) (now : Nat) (b : Bool) :
    (IpVote.requireMore A now b).1.dual = A.dual := by
  unfold IpVote.requireMore
  split
  · rfl
  · split <;> rfl

theorem pongStep_dual (thr : Nat → Nat) (A : IpVote.Svc Nat) (p : Pong Nat) :
    (pongStep thr A p).1.dual = A.dual := by
  unfold pongStep
  split
  · rfl
  split
  · rfl
  simp only []
  split
  · exact requireMore_dual ..
  split
  · exact requireMore_dual ..
  · unfold IpVote.countVote
    simp only []
    rcases IpVote.updateRecord_cases
        { IpVote.requireMore A p.tClear p.sock.isV6 |>.1 with
          votes := some (((_ : IpVote.IpVote Nat).insert p.tIns p.voter p.sock).majority thr p.tMaj p.sh4 p.sh6).1 }
        p.sock _ _ p.setOk with h | ⟨_, _, _, _, _, h⟩ | ⟨_, _, _, _, _, h⟩ <;>
      (rw [h]; exact requireMore_dual ..)

/-- The shape of an input that reaches the vote. -/
theorem votePong_some {s : Svc} {e : Env} {inp : Input} {p : Pong Nat} (h : votePong s e inp = some p) :
    ∃ peer addr id enrSeq observed, inp = .response peer addr id (.pong enrSeq observed) ∧
      reachesVote s peer addr id = true ∧ p = pongOf e peer observed (connOutOf s peer) := by
  cases inp with
  | response peer addr id body =>
    cases body with
    | pong enrSeq observed =>
      rw [votePong_pong] at h
      by_cases hr : reachesVote s peer addr id = true
      · rw [if_pos hr] at h
        exact ⟨peer, addr, id, enrSeq, observed, rfl, hr, by cases h; rfl⟩
      · rw [if_neg hr] at h; cases h
    | _ => cases h
  | _ => cases h

/-- **Simulation, PONG step.**  A step of the composed system on a PONG response that reaches
`handle_ip_vote_from_pong` is exactly `IpVote.pongStep` on the abstraction: same vote table, same
record sockets and sequence number, same dual flag; the record itself is the old one with
`set_udp_socket` applied as the events say; the `SocketUpdated` events emitted are exactly those
of `pongStep`. -/
theorem cstep_pong (thr : Nat → Nat) (c : CSt) (hc : c.Coupled) (e : Env) (inp : Input) (p : Pong Nat)
    (h : votePong c.svc e inp = some p) :
    (cstep thr c e inp).1.abs = (pongStep thr c.abs p).1 ∧
    (cstep thr c e inp).1.svc.localRec = recAfter c.svc.localRec e (pongStep thr c.abs p).2 ∧
    sockEvs (cstep thr c e inp).2 = (pongStep thr c.abs p).2.map evAddr ∧
    (cstep thr c e inp).1.svc.cfg = c.svc.cfg := by
  obtain ⟨peer, addr, id, enrSeq, observed, rfl, hr, rfl⟩ := votePong_some h
  obtain ⟨hst, hsc, hsn, hsl⟩ := removeActive_same c.svc id
  have hco : connOutOf (c.svc.removeActive id).1 peer = connOutOf c.svc peer :=
    connOutOf_congr hst hsc hsn peer
  have hv := handleResponse_vote c.svc
    (oracleOf thr c.votes c.svc.localRec c.dual e peer observed) peer addr id enrSeq observed hr
  have hs := ipVote_sim thr (c.svc.removeActive id).1 c.votes (by rw [hsc]; exact hc) c.dual e peer observed
  simp only [] at hs
  rw [hsl, hco] at hs
  obtain ⟨hs1, hs2, hs3⟩ := hs
  have hstep : (cstep thr c e (.response peer addr id (.pong enrSeq observed))).1.svc =
      (c.svc.handleResponse (oracleOf thr c.votes c.svc.localRec c.dual e peer observed) peer addr id
        (.pong enrSeq observed)).1 := rfl
  have houts : (cstep thr c e (.response peer addr id (.pong enrSeq observed))).2 =
      (c.svc.handleResponse (oracleOf thr c.votes c.svc.localRec c.dual e peer observed) peer addr id
        (.pong enrSeq observed)).2 := rfl
  have hvotes : (cstep thr c e (.response peer addr id (.pong enrSeq observed))).1.votes =
      (pongStep thr c.abs (pongOf e peer observed (connOutOf c.svc peer))).1.votes := by
    show votesAfter thr c e _ = _
    unfold votesAfter
    rw [h]
  have hcfg : (cstep thr c e (.response peer addr id (.pong enrSeq observed))).1.svc.cfg = c.svc.cfg := by
    rw [hstep, hv.1, hs1, hsc]
  have hloc : (cstep thr c e (.response peer addr id (.pong enrSeq observed))).1.svc.localRec =
      recAfter c.svc.localRec e (pongStep thr c.abs (pongOf e peer observed (connOutOf c.svc peer))).2 := by
    rw [hstep, hv.2.1]; exact hs2
  refine ⟨?_, hloc, ?_, hcfg⟩
  · have henr := pongStep_enr thr c.svc.localRec e c.abs (pongOf e peer observed (connOutOf c.svc peer)) rfl
    have hdual := pongStep_dual thr c.abs (pongOf e peer observed (connOutOf c.svc peer))
    generalize pongStep thr c.abs (pongOf e peer observed (connOutOf c.svc peer)) = R at *
    obtain ⟨⟨rv, re, rd⟩, revs⟩ := R
    unfold CSt.abs
    simp only at hvotes henr hdual hloc ⊢
    rw [hvotes, hloc, henr]
    unfold CSt.dual
    rw [hcfg, hdual]
    rfl
  · rw [houts, hv.2.2, hs3, sockEvs_map_evOut]
    rfl

/-- **Simulation, every other step.**  A step that is not a vote-reaching PONG leaves the whole
local record and the configuration untouched and emits no `SocketUpdated`.  The vote table is
unchanged, unless the step is an `established` whose failed insertion asks
`require_more_ip_votes` (`pruneAsk`): then the table is pruned of expired votes exactly as
`IpVote.requireMore` does. -/
theorem cstep_other (thr : Nat → Nat) (c : CSt) (e : Env) (inp : Input)
    (h : votePong c.svc e inp = none) :
    (cstep thr c e inp).1.svc.localRec = c.svc.localRec ∧
    (cstep thr c e inp).1.svc.cfg = c.svc.cfg ∧
    sockEvs (cstep thr c e inp).2 = [] ∧
    (pruneAsk c.svc inp = none → (cstep thr c e inp).1.votes = c.votes) ∧
    (∀ b, pruneAsk c.svc inp = some b →
      (cstep thr c e inp).1.votes = (IpVote.requireMore c.abs e.tClear b).1.votes) := by
  have hf := step_fr c.svc (oracleFor thr c e inp) e inp h
  refine ⟨hf.st.loc, hf.st.cfg, hf.outs, ?_, ?_⟩
  · intro hp
    show votesAfter thr c e inp = _
    unfold votesAfter
    rw [h, hp]
  · intro b hp
    show votesAfter thr c e inp = _
    unfold votesAfter
    rw [h, hp]

/-! ## The oracle is read nowhere else -/

theorem pruneAsk_established (s : Svc) (r : Rec) (addr : Addr) (incoming : Bool) :
    pruneAsk s (.established r addr incoming) =
      if estAsks s r incoming then some r.udp6.isSome else none := rfl

theorem connectionUpdated_connected_unread (s : Svc) (o o' : Oracle) (nodeId : Nat) (r : Rec)
    (incoming : Bool)
    (h : (!incoming && (match (s.table.insertOrUpdate s.cfg.kb s.now nodeId r
        { conn := true, incoming := incoming }).2 with
      | .failed _ => true
      | _ => false)) = false) :
    s.connectionUpdated o nodeId (.connected r incoming) =
      s.connectionUpdated o' nodeId (.connected r incoming) := by
  unfold connectionUpdated
  simp only
  generalize s.table.insertOrUpdate s.cfg.kb s.now nodeId r { conn := true, incoming := incoming } = x
    at h ⊢
  obtain ⟨t, res⟩ := x
  cases res with
  | failed f =>
    simp only [Bool.and_true, Bool.not_eq_false'] at h
    subst h
    rfl
  | _ => rfl

theorem handleResponse_unread (s : Svc) (o o' : Oracle) (peer : Nat) (addr : Addr) (id : Nat)
    (body : RespBody)
    (h : ∀ enrSeq observed, body = .pong enrSeq observed → reachesVote s peer addr id = false) :
    s.handleResponse o peer addr id body = s.handleResponse o' peer addr id body := by
  unfold handleResponse
  unfold reachesVote at h
  generalize s.removeActive id = x at h ⊢
  obtain ⟨s0, oreq⟩ := x
  cases oreq with
  | none => rfl
  | some req =>
    simp only at h ⊢
    split
    · rfl
    rename_i hn1
    split
    · rfl
    rename_i hn2
    cases body with
    | talk resp => rfl
    | nodes total recs => rfl
    | pong enrSeq observed =>
      simp only
      have := h enrSeq observed rfl
      rw [matchRequest_pong 0 enrSeq addr observed] at this
      have hcb : req.callback = true := by
        cases h1 : (req.peer != peer || req.addr != addr) <;>
          cases h2 : (RespBody.pong enrSeq observed).matchRequest req.body <;>
          cases h3 : req.callback <;> simp_all
      rw [if_pos hcb, if_pos hcb]

/-- Apart from vote-reaching PONGs and the pruning `established` steps, no step reads the oracle:
its result is the same under any two oracles. -/
theorem step_oracle_unread (s : Svc) (e : Env) (inp : Input)
    (hv : votePong s e inp = none) (hp : pruneAsk s inp = none) (o o' : Oracle) :
    s.step o inp = s.step o' inp := by
  cases inp with
  | established r addr incoming =>
    show s.injectSessionEstablished o r addr incoming = s.injectSessionEstablished o' r addr incoming
    have hp' : estAsks s r incoming = false := by
      rw [pruneAsk_established] at hp
      by_cases ha : estAsks s r incoming = true
      · rw [if_pos ha] at hp; cases hp
      · simpa using ha
    unfold injectSessionEstablished
    simp only
    split
    · rfl
    rename_i hc
    split
    · rfl
    rename_i hf
    unfold estAsks at hp'
    have hc' : contactable s.cfg.ipMode r = true := by simpa using hc
    have hf' : r.passesFilter = true := by simpa using hf
    rw [hc', hf', Bool.true_and, Bool.true_and] at hp'
    have := connectionUpdated_connected_unread s o o' r.id r (estDir s r incoming) hp'
    exact congrArg (fun x : Svc × List Out => (x.1, x.2 ++ [Out.event (.sessionEstablished r addr)])) this
  | response peer addr id body =>
    refine handleResponse_unread s o o' peer addr id body ?_
    intro enrSeq observed hb
    subst hb
    rw [votePong_pong] at hv
    by_cases hr : reachesVote s peer addr id = true
    · rw [if_pos hr] at hv; cases hv
    · simpa using hr
  | requestFailed id => rfl
  | _ => rfl

/-! ## More about `pongStep` (IP-vote model only) -/

section PongStep
open Discv5.IpVote

variable {α : Type} [DecidableEq α]

/-- The vote of the PONG is counted: it gets past all three guards of
`handle_ip_vote_from_pong` (the connectivity state admits it, ENR updates are on, and the voter is
a connected outgoing peer or more votes of its family are needed).  This is the eligibility
condition of C17. -/
def counted (A : IpVote.Svc α) (p : Pong α) : Bool :=
  p.countable && A.votes.isSome && (p.connOut || (requireMore A p.tClear p.sock.isV6).2)

/-- The vote table just before the vote is inserted (after the pruning of `require_more_ip_votes`). -/
def tableBefore (A : IpVote.Svc α) (p : Pong α) : Option (IpVote α) :=
  (requireMore A p.tClear p.sock.isV6).1.votes

omit [DecidableEq α] in
theorem requireMore_votes_isSome (A : IpVote.Svc α) (now : Nat) (b : Bool) :
    (requireMore A now b).1.votes.isSome = A.votes.isSome := by
  unfold requireMore
  split
  · rfl
  · split
    · rfl
    · rename_i v hv; rw [hv]; rfl

/-- An uncounted PONG changes nothing but (possibly) prunes expired votes. -/
theorem pongStep_uncounted (thr : Nat → Nat) (A : IpVote.Svc α) (p : Pong α) (h : counted A p = false) :
    (pongStep thr A p).1.enr = A.enr ∧ (pongStep thr A p).2 = [] ∧
    ((pongStep thr A p).1.votes = A.votes ∨ (pongStep thr A p).1.votes = tableBefore A p) := by
  unfold pongStep
  split
  · exact ⟨rfl, rfl, Or.inl rfl⟩
  rename_i h1
  split
  · exact ⟨rfl, rfl, Or.inl rfl⟩
  rename_i h2
  simp only []
  split
  · exact ⟨requireMore_enr .., rfl, Or.inr rfl⟩
  rename_i h3
  exfalso
  unfold counted at h
  have e1 : p.countable = true := by simpa using h1
  have e2 : A.votes.isSome = true := by
    cases hA : A.votes with
    | none => rw [hA] at h2; simp at h2
    | some v => rfl
  have e3 : (p.connOut || (requireMore A p.tClear p.sock.isV6).2) = true := by
    cases hx : (p.connOut || (requireMore A p.tClear p.sock.isV6).2) with
    | true => rfl
    | false => rw [hx] at h3; simp at h3
  rw [e1, e2, e3] at h
  cases h

/-- A counted PONG: the table is pruned, the vote inserted, `majority()` taken (which leaves
exactly the unexpired entries), and the record follows the majority of the vote's family. -/
theorem pongStep_counted (thr : Nat → Nat) (A : IpVote.Svc α) (p : Pong α) (h : counted A p = true) :
    ∃ v, tableBefore A p = some v ∧
      pongStep thr A p = countVote thr (requireMore A p.tClear p.sock.isV6).1 v p := by
  unfold counted at h
  simp only [Bool.and_eq_true] at h
  obtain ⟨⟨e1, e2⟩, e3⟩ := h
  have hs : (requireMore A p.tClear p.sock.isV6).1.votes.isSome = true := by
    rw [requireMore_votes_isSome]; exact e2
  cases hv : (requireMore A p.tClear p.sock.isV6).1.votes with
  | none => rw [hv] at hs; cases hs
  | some v =>
    refine ⟨v, hv, ?_⟩
    unfold pongStep
    have hn : ¬ (A.votes.isNone = true) := by
      cases hA : A.votes with
      | none => rw [hA] at e2; cases e2
      | some w => simp
    rw [if_neg (by simp [e1]), if_neg hn]
    simp only []
    rw [if_neg (by simp [e3])]
    rw [hv]

/-- `countVote` with everything it does spelled out. -/
theorem countVote_full (thr : Nat → Nat) (s : IpVote.Svc α) (v : IpVote α) (p : Pong α) :
    (countVote thr s v p).1.votes =
        some ((v.insert p.tIns p.voter p.sock).majority thr p.tMaj p.sh4 p.sh6).1 ∧
    (((countVote thr s v p).1.enr = s.enr ∧ (countVote thr s v p).2 = []) ∨
     (∃ x a, p.sock = .v4 x ∧
        ((v.insert p.tIns p.voter p.sock).majority thr p.tMaj p.sh4 p.sh6).2.1 = some a ∧
        s.enr.ip4 ≠ some a ∧
        (countVote thr s v p).1.enr = { s.enr with ip4 := some a, seq := s.enr.seq + 1 } ∧
        (countVote thr s v p).2 = [Ev.socketUpdated (.v4 a)]) ∨
     (∃ x a, p.sock = .v6 x ∧
        ((v.insert p.tIns p.voter p.sock).majority thr p.tMaj p.sh4 p.sh6).2.2 = some a ∧
        s.enr.ip6 ≠ some a ∧
        (countVote thr s v p).1.enr = { s.enr with ip6 := some a, seq := s.enr.seq + 1 } ∧
        (countVote thr s v p).2 = [Ev.socketUpdated (.v6 a)])) := by
  unfold countVote
  simp only []
  generalize hv1 : v.insert p.tIns p.voter p.sock = v1
  refine ⟨by rw [updateRecord_votes], ?_⟩
  rcases updateRecord_cases { s with votes := some (v1.majority thr p.tMaj p.sh4 p.sh6).1 } p.sock
      (v1.majority thr p.tMaj p.sh4 p.sh6).2.1 (v1.majority thr p.tMaj p.sh4 p.sh6).2.2 p.setOk with
    h | ⟨x, a, hs, hm, hne, h⟩ | ⟨x, a, hs, hm, hne, h⟩
  · left; rw [h]; exact ⟨rfl, rfl⟩
  · right; left; rw [h]; exact ⟨x, a, hs, hm, hne, rfl, rfl⟩
  · right; right; rw [h]; exact ⟨x, a, hs, hm, hne, rfl, rfl⟩

/-! ### The ledger of counted votes -/

/-- A counted vote: who, for which socket, until when it is valid. -/
structure Cast (α : Type) where
  voter : Nat
  sock : Sock α
  expiry : Nat

/-- The latest counted vote of `x` in the family `fam` (`true` = IPv6); the ledger is kept newest
first. -/
def latest (L : List (Cast α)) (fam : Bool) (x : Nat) : Option (Cast α) :=
  L.find? (fun c => c.voter == x && c.sock.isV6 == fam)

/-- The ledger entry a PONG produces: one iff the vote is counted; it expires `duration` after the
clock reading of `insert`. -/
def castOf (A : IpVote.Svc α) (p : Pong α) : Option (Cast α) :=
  if counted A p then
    (tableBefore A p).map fun v => { voter := p.voter, sock := p.sock, expiry := p.tIns + v.duration }
  else none

/-- Every entry of the vote table is the latest counted vote of its voter in its family. -/
structure LOk (L : List (Cast α)) (v : IpVote α) : Prop where
  l4 : ∀ en, en ∈ v.v4 → latest L false en.voter = some ⟨en.voter, .v4 en.vote, en.expiry⟩
  l6 : ∀ en, en ∈ v.v6 → latest L true en.voter = some ⟨en.voter, .v6 en.vote, en.expiry⟩

def SLOk (L : List (Cast α)) (A : IpVote.Svc α) : Prop := ∀ v, A.votes = some v → LOk L v

omit [DecidableEq α] in
theorem LOk.sub {L : List (Cast α)} {v v' : IpVote α} (h : LOk L v)
    (h4 : ∀ en, en ∈ v'.v4 → en ∈ v.v4) (h6 : ∀ en, en ∈ v'.v6 → en ∈ v.v6) : LOk L v' :=
  ⟨fun en he => h.l4 en (h4 en he), fun en he => h.l6 en (h6 en he)⟩

omit [DecidableEq α] in
theorem latest_cons_self (L : List (Cast α)) (c : Cast α) :
    latest (c :: L) c.sock.isV6 c.voter = some c := by
  unfold latest
  rw [List.find?_cons_of_pos]
  simp

omit [DecidableEq α] in
theorem latest_cons_other (L : List (Cast α)) (c : Cast α) (fam : Bool) (x : Nat)
    (h : c.voter ≠ x ∨ c.sock.isV6 ≠ fam) : latest (c :: L) fam x = latest L fam x := by
  unfold latest
  rw [List.find?_cons_of_neg]
  rcases h with h | h
  · simp [h]
  · simp [h]

omit [DecidableEq α] in
theorem LOk.insert {L : List (Cast α)} {v : IpVote α} (h : LOk L v) (now k : Nat) (sock : Sock α) :
    LOk (⟨k, sock, now + v.duration⟩ :: L) (v.insert now k sock) := by
  cases sock with
  | v4 a =>
    constructor
    · intro en he
      simp only [IpVote.insert, mapInsert, List.mem_append, List.mem_filter, List.mem_singleton] at he
      rcases he with ⟨he, hk⟩ | he
      · rw [latest_cons_other _ _ _ _ (Or.inl (fun hh => by simp at hk; exact hk hh.symm))]
        exact h.l4 en he
      · subst he
        exact latest_cons_self L ⟨k, .v4 a, now + v.duration⟩
    · intro en he
      rw [latest_cons_other _ _ _ _ (Or.inr (by simp [Sock.isV6]))]
      exact h.l6 en he
  | v6 a =>
    constructor
    · intro en he
      rw [latest_cons_other _ _ _ _ (Or.inr (by simp [Sock.isV6]))]
      exact h.l4 en he
    · intro en he
      simp only [IpVote.insert, mapInsert, List.mem_append, List.mem_filter, List.mem_singleton] at he
      rcases he with ⟨he, hk⟩ | he
      · rw [latest_cons_other _ _ _ _ (Or.inl (fun hh => by simp at hk; exact hk hh.symm))]
        exact h.l6 en he
      · subst he
        exact latest_cons_self L ⟨k, .v6 a, now + v.duration⟩

theorem LOk.majority {L : List (Cast α)} {v : IpVote α} (h : LOk L v) (thr : Nat → Nat) (now : Nat)
    {sh4 sh6 : List (Entry α) → List (Entry α)} (h4 : IsShuffle sh4) (h6 : IsShuffle sh6) :
    LOk L (v.majority thr now sh4 sh6).1 := by
  refine h.sub ?_ ?_
  · intro en he
    unfold IpVote.majority at he
    simp only [] at he
    rw [mostFrequent_updated] at he
    exact (h4 _).mem_iff.1 (List.mem_filter.1 he).1
  · intro en he
    unfold IpVote.majority at he
    simp only [] at he
    rw [mostFrequent_updated] at he
    exact (h6 _).mem_iff.1 (List.mem_filter.1 he).1

omit [DecidableEq α] in
theorem requireMore_lok {L : List (Cast α)} {A : IpVote.Svc α} (h : SLOk L A) (now : Nat) (b : Bool) :
    SLOk L (requireMore A now b).1 := by
  unfold requireMore
  split
  · exact h
  · split
    · exact h
    · rename_i v hv
      intro v' hv'
      simp only [Option.some.injEq] at hv'
      subst hv'
      exact (h v hv).sub (fun _ he => (List.mem_filter.1 he).1) (fun _ he => (List.mem_filter.1 he).1)

/-- The ledger invariant is kept by every PONG (the ledger grows by the vote iff it is counted). -/
theorem pongStep_lok {L : List (Cast α)} {A : IpVote.Svc α} (h : SLOk L A) (thr : Nat → Nat)
    (p : Pong α) (hp : p.Valid) : SLOk ((castOf A p).toList ++ L) (pongStep thr A p).1 := by
  by_cases hc : counted A p = true
  · obtain ⟨v, hv, hstep⟩ := pongStep_counted thr A p hc
    have hcast : castOf A p = some ⟨p.voter, p.sock, p.tIns + v.duration⟩ := by
      unfold castOf; rw [if_pos hc, hv]; rfl
    rw [hcast, hstep]
    intro v' hv'
    rw [(countVote_full thr _ v p).1] at hv'
    simp only [Option.some.injEq] at hv'
    subst hv'
    have h1 := requireMore_lok h p.tClear p.sock.isV6 v hv
    exact (h1.insert p.tIns p.voter p.sock).majority thr p.tMaj hp.1 hp.2
  · have hc' : counted A p = false := by simpa using hc
    have hcast : castOf A p = none := by unfold castOf; rw [if_neg hc]
    rw [hcast]
    obtain ⟨_, _, hv | hv⟩ := pongStep_uncounted thr A p hc'
    · intro v' hv'; rw [hv] at hv'; exact h v' hv'
    · intro v' hv'; rw [hv] at hv'; exact requireMore_lok h p.tClear p.sock.isV6 v' hv'

/-! ### The shape of a PONG step that changes the record -/

/-- `pongStep` moved the IPv4 socket of the record to `a`: the vote of this PONG was counted
(eligible voter) and was an IPv4 vote; `a` is a clear majority (at the clock reading of
`majority()`) of the IPv4 table the step leaves, all of whose entries are unexpired; the record
had another IPv4 socket before; `seq` grew by one; exactly `SocketUpdated(a)` was emitted. -/
structure Moved4 (thr : Nat → Nat) (A : IpVote.Svc α) (p : Pong α) (a : α) : Prop where
  counted : counted A p = true
  fam : ∃ x, p.sock = .v4 x
  votes : ∃ v', (pongStep thr A p).1.votes = some v' ∧
    ClearMajority thr v'.minimum (countOf p.tMaj v'.v4) a ∧ ∀ en, en ∈ v'.v4 → p.tMaj < en.expiry
  old : A.enr.ip4 ≠ some a
  enr : (pongStep thr A p).1.enr = { A.enr with ip4 := some a, seq := A.enr.seq + 1 }
  evs : (pongStep thr A p).2 = [Ev.socketUpdated (.v4 a)]

/-- Same for the IPv6 socket. -/
structure Moved6 (thr : Nat → Nat) (A : IpVote.Svc α) (p : Pong α) (a : α) : Prop where
  counted : counted A p = true
  fam : ∃ x, p.sock = .v6 x
  votes : ∃ v', (pongStep thr A p).1.votes = some v' ∧
    ClearMajority thr v'.minimum (countOf p.tMaj v'.v6) a ∧ ∀ en, en ∈ v'.v6 → p.tMaj < en.expiry
  old : A.enr.ip6 ≠ some a
  enr : (pongStep thr A p).1.enr = { A.enr with ip6 := some a, seq := A.enr.seq + 1 }
  evs : (pongStep thr A p).2 = [Ev.socketUpdated (.v6 a)]

theorem majority_unexpired (thr : Nat → Nat) (v : IpVote α) (now : Nat)
    (sh4 sh6 : List (Entry α) → List (Entry α)) :
    (∀ e, e ∈ (v.majority thr now sh4 sh6).1.v4 → now < e.expiry) ∧
    (∀ e, e ∈ (v.majority thr now sh4 sh6).1.v6 → now < e.expiry) := by
  unfold IpVote.majority
  simp only []
  rw [mostFrequent_updated, mostFrequent_updated]
  constructor <;> intro e he <;> simpa using (List.mem_filter.1 he).2

/-- The three outcomes of a PONG, with everything C17 says about a change. -/
theorem pongStep_shape (thr : Nat → Nat) (A : IpVote.Svc α) (p : Pong α) :
    ((pongStep thr A p).1.enr = A.enr ∧ (pongStep thr A p).2 = []) ∨
    (∃ a, Moved4 thr A p a) ∨ (∃ a, Moved6 thr A p a) := by
  by_cases hc : counted A p = true
  · obtain ⟨v, hv, hstep⟩ := pongStep_counted thr A p hc
    have he := requireMore_enr A p.tClear p.sock.isV6
    obtain ⟨hvotes, h | ⟨x, a, hs, hm, hne, henr, hev⟩ | ⟨x, a, hs, hm, hne, henr, hev⟩⟩ :=
      countVote_full thr (requireMore A p.tClear p.sock.isV6).1 v p
    · left; rw [hstep, ← he]; exact h
    · right; left
      rw [he] at hne henr
      refine ⟨a, hc, ⟨x, hs⟩, ⟨_, by rw [hstep]; exact hvotes, ?_, ?_⟩, hne, by rw [hstep]; exact henr,
        by rw [hstep]; exact hev⟩
      · exact majority_post4 thr _ p.tMaj p.sh4 p.sh6 a hm
      · exact (majority_unexpired thr _ p.tMaj p.sh4 p.sh6).1
    · right; right
      rw [he] at hne henr
      refine ⟨a, hc, ⟨x, hs⟩, ⟨_, by rw [hstep]; exact hvotes, ?_, ?_⟩, hne, by rw [hstep]; exact henr,
        by rw [hstep]; exact hev⟩
      · exact majority_post6 thr _ p.tMaj p.sh4 p.sh6 a hm
      · exact (majority_unexpired thr _ p.tMaj p.sh4 p.sh6).2
  · left
    obtain ⟨h1, h2, _⟩ := pongStep_uncounted thr A p (by simpa using hc)
    exact ⟨h1, h2⟩

/-- The voters behind a tally: the voters of the unexpired entries for `a`. -/
def tallyVoters (now : Nat) (l : List (Entry α)) (a : α) : List Nat :=
  (l.filter (fun e => decide (now < e.expiry) && decide (e.vote = a))).map (fun e => e.voter)

theorem tallyVoters_length (now : Nat) (l : List (Entry α)) (a : α) :
    (tallyVoters now l a).length = countOf now l a := by
  unfold tallyVoters; rw [List.length_map]; rfl

theorem tallyVoters_nodup (now : Nat) {l : List (Entry α)} (hk : KeysNodup l) (a : α) :
    (tallyVoters now l a).Nodup := by
  unfold KeysNodup at hk
  exact (List.filter_sublist.map _).nodup hk

/-- With every entry the latest counted vote of its voter, each voter behind the tally of `a` has
`a` as latest counted vote in the family, unexpired. -/
theorem tallyVoters_sound (mk : α → Sock α) (fam : Bool)
    (L : List (Cast α)) (l : List (Entry α))
    (hl : ∀ en, en ∈ l → latest L fam en.voter = some ⟨en.voter, mk en.vote, en.expiry⟩)
    (now : Nat) (a : α) :
    ∀ x, x ∈ tallyVoters now l a → ∃ exp, latest L fam x = some ⟨x, mk a, exp⟩ ∧ now < exp := by
  intro x hx
  simp only [tallyVoters, List.mem_map, List.mem_filter, Bool.and_eq_true, decide_eq_true_eq] at hx
  obtain ⟨en, ⟨he, hlive, hvote⟩, rfl⟩ := hx
  exact ⟨en.expiry, by rw [hl en he, hvote], hlive⟩

/-! ### Completeness of the table under monotone clocks

The table never loses a vote that is still valid: if the clock readings never go back, every
latest counted vote that has not expired by the last reading is still in the table. -/

/-- `x`'s latest counted vote in the family `fam` is for the socket `s` and unexpired at `now`. -/
def VotesFor (L : List (Cast α)) (fam : Bool) (now : Nat) (x : Nat) (s : Sock α) : Prop :=
  ∃ exp, latest L fam x = some ⟨x, s, exp⟩ ∧ now < exp

/-- Every latest counted vote still valid after `T` is in the table. -/
structure LComp (T : Nat) (L : List (Cast α)) (v : IpVote α) : Prop where
  c4 : ∀ x c, latest L false x = some c → T < c.expiry →
    ∃ en, en ∈ v.v4 ∧ en.voter = x ∧ Sock.v4 en.vote = c.sock ∧ en.expiry = c.expiry
  c6 : ∀ x c, latest L true x = some c → T < c.expiry →
    ∃ en, en ∈ v.v6 ∧ en.voter = x ∧ Sock.v6 en.vote = c.sock ∧ en.expiry = c.expiry

def SLComp (T : Nat) (L : List (Cast α)) (A : IpVote.Svc α) : Prop :=
  ∀ v, A.votes = some v → LComp T L v

omit [DecidableEq α] in
theorem LComp.mono {T T' : Nat} {L : List (Cast α)} {v : IpVote α} (h : LComp T L v) (hT : T ≤ T') :
    LComp T' L v :=
  ⟨fun x c hl he => h.c4 x c hl (by omega), fun x c hl he => h.c6 x c hl (by omega)⟩

omit [DecidableEq α] in
theorem LComp.clearOld {T : Nat} {L : List (Cast α)} {v : IpVote α} (h : LComp T L v) (now : Nat)
    (hT : T ≤ now) : LComp now L (v.clearOld now) := by
  constructor
  · intro x c hl he
    obtain ⟨en, hm, h1, h2, h3⟩ := h.c4 x c hl (by omega)
    exact ⟨en, List.mem_filter.2 ⟨hm, by simp; omega⟩, h1, h2, h3⟩
  · intro x c hl he
    obtain ⟨en, hm, h1, h2, h3⟩ := h.c6 x c hl (by omega)
    exact ⟨en, List.mem_filter.2 ⟨hm, by simp; omega⟩, h1, h2, h3⟩

omit [DecidableEq α] in
theorem latest_voter {L : List (Cast α)} {fam : Bool} {x : Nat} {c : Cast α}
    (h : latest L fam x = some c) : c.voter = x ∧ c.sock.isV6 = fam := by
  unfold latest at h
  have := List.find?_some h
  simpa using this

omit [DecidableEq α] in
theorem LComp.insert {T : Nat} {L : List (Cast α)} {v : IpVote α} (h : LComp T L v)
    (now k : Nat) (sock : Sock α) :
    LComp T (⟨k, sock, now + v.duration⟩ :: L) (v.insert now k sock) := by
  have key : ∀ (fam : Bool) (x : Nat) (c : Cast α),
      latest (⟨k, sock, now + v.duration⟩ :: L) fam x = some c →
      (x = k ∧ sock.isV6 = fam ∧ c = ⟨k, sock, now + v.duration⟩) ∨
      ((x ≠ k ∨ sock.isV6 ≠ fam) ∧ latest L fam x = some c) := by
    intro fam x c hl
    by_cases hx : k = x ∧ sock.isV6 = fam
    · left
      obtain ⟨rfl, rfl⟩ := hx
      have := latest_cons_self L ⟨k, sock, now + v.duration⟩
      simp only at this
      rw [this] at hl
      exact ⟨rfl, rfl, by cases hl; rfl⟩
    · right
      have hx' : (⟨k, sock, now + v.duration⟩ : Cast α).voter ≠ x ∨
          (⟨k, sock, now + v.duration⟩ : Cast α).sock.isV6 ≠ fam := by
        by_cases h1 : k = x
        · exact Or.inr (fun h2 => hx ⟨h1, h2⟩)
        · exact Or.inl h1
      rw [latest_cons_other _ _ _ _ hx'] at hl
      refine ⟨?_, hl⟩
      rcases hx' with h1 | h1
      · exact Or.inl (fun h2 => h1 h2.symm)
      · exact Or.inr h1
  cases sock with
  | v4 a =>
    constructor
    · intro x c hl he
      rcases key false x c hl with ⟨rfl, _, rfl⟩ | ⟨hne, hl'⟩
      · exact ⟨⟨x, a, now + v.duration⟩, by simp [IpVote.insert, mapInsert], rfl, rfl, rfl⟩
      · obtain ⟨en, hm, h1, h2, h3⟩ := h.c4 x c hl' he
        refine ⟨en, ?_, h1, h2, h3⟩
        simp only [IpVote.insert, mapInsert, List.mem_append, List.mem_filter]
        left
        refine ⟨hm, ?_⟩
        rcases hne with hne | hne
        · rw [h1]; simpa using hne
        · exact absurd rfl hne
    · intro x c hl he
      rcases key true x c hl with ⟨_, hf, _⟩ | ⟨_, hl'⟩
      · cases hf
      · exact h.c6 x c hl' he
  | v6 a =>
    constructor
    · intro x c hl he
      rcases key false x c hl with ⟨_, hf, _⟩ | ⟨_, hl'⟩
      · cases hf
      · exact h.c4 x c hl' he
    · intro x c hl he
      rcases key true x c hl with ⟨rfl, _, rfl⟩ | ⟨hne, hl'⟩
      · exact ⟨⟨x, a, now + v.duration⟩, by simp [IpVote.insert, mapInsert], rfl, rfl, rfl⟩
      · obtain ⟨en, hm, h1, h2, h3⟩ := h.c6 x c hl' he
        refine ⟨en, ?_, h1, h2, h3⟩
        simp only [IpVote.insert, mapInsert, List.mem_append, List.mem_filter]
        left
        refine ⟨hm, ?_⟩
        rcases hne with hne | hne
        · rw [h1]; simpa using hne
        · exact absurd rfl hne

theorem LComp.majority {T : Nat} {L : List (Cast α)} {v : IpVote α} (h : LComp T L v)
    (thr : Nat → Nat) (now : Nat) (hT : T ≤ now)
    {sh4 sh6 : List (Entry α) → List (Entry α)} (h4 : IsShuffle sh4) (h6 : IsShuffle sh6) :
    LComp now L (v.majority thr now sh4 sh6).1 := by
  unfold IpVote.majority
  simp only []
  rw [mostFrequent_updated, mostFrequent_updated]
  constructor
  · intro x c hl he
    obtain ⟨en, hm, h1, h2, h3⟩ := h.c4 x c hl (by omega)
    exact ⟨en, List.mem_filter.2 ⟨(h4 _).mem_iff.2 hm, by simp; omega⟩, h1, h2, h3⟩
  · intro x c hl he
    obtain ⟨en, hm, h1, h2, h3⟩ := h.c6 x c hl (by omega)
    exact ⟨en, List.mem_filter.2 ⟨(h6 _).mem_iff.2 hm, by simp; omega⟩, h1, h2, h3⟩

omit [DecidableEq α] in
theorem requireMore_lcomp {T : Nat} {L : List (Cast α)} {A : IpVote.Svc α} (h : SLComp T L A)
    (now : Nat) (hT : T ≤ now) (b : Bool) : SLComp now L (requireMore A now b).1 := by
  unfold requireMore
  split
  · intro v hv; exact (h v hv).mono hT
  · split
    · intro v hv; exact (h v hv).mono hT
    · rename_i v hv
      intro v' hv'
      simp only [Option.some.injEq] at hv'
      subst hv'
      exact (h v hv).clearOld now hT

/-- Completeness is kept by every PONG whose clock readings do not go back. -/
theorem pongStep_lcomp {T : Nat} {L : List (Cast α)} {A : IpVote.Svc α} (h : SLComp T L A)
    (thr : Nat → Nat) (p : Pong α) (hp : p.Valid)
    (h1 : T ≤ p.tClear) (h2 : p.tClear ≤ p.tIns) (h3 : p.tIns ≤ p.tMaj) :
    SLComp p.tMaj ((castOf A p).toList ++ L) (pongStep thr A p).1 := by
  by_cases hc : counted A p = true
  · obtain ⟨v, hv, hstep⟩ := pongStep_counted thr A p hc
    have hcast : castOf A p = some ⟨p.voter, p.sock, p.tIns + v.duration⟩ := by
      unfold castOf; rw [if_pos hc, hv]; rfl
    rw [hcast, hstep]
    intro v' hv'
    rw [(countVote_full thr _ v p).1] at hv'
    simp only [Option.some.injEq] at hv'
    subst hv'
    have hr := requireMore_lcomp h p.tClear h1 p.sock.isV6 v hv
    exact (hr.insert p.tIns p.voter p.sock).majority thr p.tMaj (by omega) hp.1 hp.2
  · have hc' : counted A p = false := by simpa using hc
    have hcast : castOf A p = none := by unfold castOf; rw [if_neg hc]
    rw [hcast]
    obtain ⟨_, _, hv | hv⟩ := pongStep_uncounted thr A p hc'
    · intro v' hv'; rw [hv] at hv'; exact (h v' hv').mono (by omega)
    · intro v' hv'; rw [hv] at hv'
      exact (requireMore_lcomp h p.tClear h1 p.sock.isV6 v' hv').mono (by omega)

/-- With a sound and complete table, any distinct voters whose latest counted vote is `b` and
unexpired are at most the tally of `b`. -/
theorem voters_le_tally (mk : α → Sock α) (hmk : ∀ a b, mk a = mk b → a = b) (fam : Bool)
    (L : List (Cast α)) (l : List (Entry α)) (now : Nat)
    (hc : ∀ x c, latest L fam x = some c → now < c.expiry →
      ∃ en, en ∈ l ∧ en.voter = x ∧ mk en.vote = c.sock ∧ en.expiry = c.expiry)
    (b : α) (ws : List Nat) (hnd : ws.Nodup) (hws : ∀ x, x ∈ ws → VotesFor L fam now x (mk b)) :
    ws.length ≤ countOf now l b := by
  unfold countOf
  rw [← List.length_map (f := fun e : Entry α => e.voter)]
  apply List.Nodup.length_le_of_subset hnd
  intro x hx
  obtain ⟨exp, hl, hlive⟩ := hws x hx
  obtain ⟨en, hm, h1, h2, h3⟩ := hc x _ hl hlive
  simp only [List.mem_map, List.mem_filter, Bool.and_eq_true, decide_eq_true_eq]
  exact ⟨en, ⟨hm, by rw [h3]; exact hlive, hmk _ _ h2⟩, h1⟩

/-- With a complete table, every voter whose latest counted vote is `a` and unexpired is behind
the tally of `a`. -/
theorem tallyVoters_complete (mk : α → Sock α) (hmk : ∀ a b, mk a = mk b → a = b) (fam : Bool)
    (L : List (Cast α)) (l : List (Entry α)) (now : Nat)
    (hc : ∀ x c, latest L fam x = some c → now < c.expiry →
      ∃ en, en ∈ l ∧ en.voter = x ∧ mk en.vote = c.sock ∧ en.expiry = c.expiry)
    (a : α) (x : Nat) (hx : VotesFor L fam now x (mk a)) : x ∈ tallyVoters now l a := by
  obtain ⟨exp, hl, hlive⟩ := hx
  obtain ⟨en, hm, h1, h2, h3⟩ := hc x _ hl hlive
  simp only [tallyVoters, List.mem_map, List.mem_filter, Bool.and_eq_true, decide_eq_true_eq]
  exact ⟨en, ⟨hm, by rw [h3]; exact hlive, hmk _ _ h2⟩, h1⟩

theorem pongStep_votes_isSome (thr : Nat → Nat) (A : IpVote.Svc α) (p : Pong α) :
    (pongStep thr A p).1.votes.isSome = A.votes.isSome := by
  by_cases hc : counted A p = true
  · obtain ⟨v, hv, hstep⟩ := pongStep_counted thr A p hc
    rw [hstep, (countVote_full thr _ v p).1]
    unfold counted at hc
    simp only [Bool.and_eq_true] at hc
    rw [hc.1.2]; rfl
  · obtain ⟨_, _, h | h⟩ := pongStep_uncounted thr A p (by simpa using hc)
    · rw [h]
    · rw [h]; exact requireMore_votes_isSome ..

end PongStep

/-! ## Histories of the composed system -/

open Discv5.IpVote (SOk VOk KeysNodup countOf ClearMajority)

/-- The ledger entry of a step: the counted vote, if the step is a PONG whose vote is counted. -/
def stepCast (c : CSt) (e : Env) (inp : Input) : Option (Cast Nat) :=
  (votePong c.svc e inp).bind (castOf c.abs)

/-- The ledger of counted votes of a history, newest first. -/
def ledgerOf (thr : Nat → Nat) (c : CSt) : List (Env × Input) → List (Cast Nat)
  | [] => []
  | (e, inp) :: rest => ledgerOf thr (cstep thr c e inp).1 rest ++ (stepCast c e inp).toList

/-- Invariant of the composed system along a history: the coupling, one entry per voter backed
by a PONG of the history (`SOk`), every entry is its voter's latest counted vote (`SLOk`). -/
structure CInv (minimum : Nat) (hist : List (Pong Nat)) (L : List (Cast Nat)) (c : CSt) : Prop where
  coupled : c.Coupled
  ok : SOk minimum hist c.abs
  lok : SLOk L c.abs

theorem pongOf_valid {e : Env} (he : e.Valid) (peer : Nat) (observed : Addr) (b : Bool) :
    (pongOf e peer observed b).Valid := he

theorem cstep_inv (thr : Nat → Nat) {minimum : Nat} {hist : List (Pong Nat)} {L : List (Cast Nat)}
    {c : CSt} (h : CInv minimum hist L c) (e : Env) (he : e.Valid) (inp : Input) :
    CInv minimum (hist ++ (votePong c.svc e inp).toList) ((stepCast c e inp).toList ++ L)
      (cstep thr c e inp).1 := by
  cases hv : votePong c.svc e inp with
  | some p =>
    obtain ⟨habs, _, _, hcfg⟩ := cstep_pong thr c h.coupled e inp p hv
    have hpv : p.Valid := by
      obtain ⟨peer, addr, id, enrSeq, observed, _, _, rfl⟩ := votePong_some hv
      exact pongOf_valid he ..
    have hvotes : (cstep thr c e inp).1.votes = (pongStep thr c.abs p).1.votes := by
      have := congrArg IpVote.Svc.votes habs; exact this
    refine ⟨?_, ?_, ?_⟩
    · unfold CSt.Coupled
      rw [hvotes, pongStep_votes_isSome, hcfg]
      exact h.coupled
    · rw [habs]; exact IpVote.pongStep_ok h.ok thr p hpv
    · rw [habs]
      unfold stepCast
      rw [hv]
      exact pongStep_lok h.lok thr p hpv
  | none =>
    obtain ⟨hloc, hcfg, _, hv1, hv2⟩ := cstep_other thr c e inp hv
    have hcast : stepCast c e inp = none := by unfold stepCast; rw [hv]; rfl
    rw [hcast]
    simp only [Option.toList, List.append_nil, List.nil_append]
    cases hp : pruneAsk c.svc inp with
    | none =>
      have hvv := hv1 hp
      refine ⟨?_, ?_, ?_⟩
      · unfold CSt.Coupled; rw [hvv, hcfg]; exact h.coupled
      · intro v hvs; exact h.ok v (by show c.votes = some v; rw [← hvv]; exact hvs)
      · intro v hvs; exact h.lok v (by show c.votes = some v; rw [← hvv]; exact hvs)
    | some b =>
      have hvv := hv2 b hp
      refine ⟨?_, ?_, ?_⟩
      · unfold CSt.Coupled; rw [hvv, requireMore_votes_isSome, hcfg]; exact h.coupled
      · intro v hvs
        exact IpVote.requireMore_ok h.ok e.tClear b v (by rw [← hvv]; exact hvs)
      · intro v hvs
        exact requireMore_lok h.lok e.tClear b v (by rw [← hvv]; exact hvs)

theorem crun_cons (thr : Nat → Nat) (c : CSt) (e : Env) (inp : Input) (rest : List (Env × Input)) :
    crun thr c ((e, inp) :: rest) =
      ((crun thr (cstep thr c e inp).1 rest).1, (cstep thr c e inp).2 ++ (crun thr (cstep thr c e inp).1 rest).2) :=
  rfl

/-- The invariant holds along every history (valid visiting orders). -/
theorem crun_inv (thr : Nat → Nat) (minimum : Nat) (steps : List (Env × Input)) :
    ∀ (hist : List (Pong Nat)) (L : List (Cast Nat)) (c : CSt), CInv minimum hist L c →
      (∀ x, x ∈ steps → x.1.Valid) →
      CInv minimum (hist ++ pongsOf thr c steps) (ledgerOf thr c steps ++ L) (crun thr c steps).1 := by
  induction steps with
  | nil => intro hist L c h _; simpa [pongsOf, ledgerOf, crun] using h
  | cons x rest ih =>
    intro hist L c h hv
    obtain ⟨e, inp⟩ := x
    have h1 := cstep_inv thr h e (hv (e, inp) (List.mem_cons_self ..)) inp
    have h2 := ih _ _ _ h1 (fun y hy => hv y (List.mem_cons_of_mem _ hy))
    rw [crun_cons]
    simpa [pongsOf, ledgerOf, List.append_assoc] using h2

/-- A composed state at start-up: coupled, and the vote table (if any) empty with the configured
minimum. -/
def CSt.Fresh (c : CSt) (minimum : Nat) : Prop := c.Coupled ∧ c.abs.Fresh minimum

theorem fresh_inv {c : CSt} {minimum : Nat} (h : c.Fresh minimum) : CInv minimum [] [] c := by
  refine ⟨h.1, IpVote.fresh_ok h.2, ?_⟩
  intro v hv
  obtain ⟨h4, h6, _⟩ := h.2 v hv
  constructor
  · intro en he; rw [h4] at he; cases he
  · intro en he; rw [h6] at he; cases he


/-! ## What a step can do to the record -/

/-- The three outcomes of a step of the composed system: the local record is untouched and no
`SocketUpdated` is emitted; or the step is a vote-reaching PONG whose `pongStep` moved the IPv4
(IPv6) socket (`Moved4` / `Moved6`), the new record is the old one with `set_udp_socket` applied,
and exactly the one event is emitted. -/
theorem cstep_shape (thr : Nat → Nat) (c : CSt) (hc : c.Coupled) (e : Env) (inp : Input) :
    ((cstep thr c e inp).1.svc.localRec = c.svc.localRec ∧ sockEvs (cstep thr c e inp).2 = []) ∨
    (∃ p a, votePong c.svc e inp = some p ∧ Moved4 thr c.abs p a ∧
      (cstep thr c e inp).1.svc.localRec = setSocket c.svc.localRec e (.v4 a) ∧
      sockEvs (cstep thr c e inp).2 = [{ v6 := false, sock := a }]) ∨
    (∃ p a, votePong c.svc e inp = some p ∧ Moved6 thr c.abs p a ∧
      (cstep thr c e inp).1.svc.localRec = setSocket c.svc.localRec e (.v6 a) ∧
      sockEvs (cstep thr c e inp).2 = [{ v6 := true, sock := a }]) := by
  cases hv : votePong c.svc e inp with
  | none =>
    obtain ⟨hloc, _, hev, _⟩ := cstep_other thr c e inp hv
    exact Or.inl ⟨hloc, hev⟩
  | some p =>
    obtain ⟨_, hloc, hev, _⟩ := cstep_pong thr c hc e inp p hv
    rcases pongStep_shape thr c.abs p with ⟨_, h2⟩ | ⟨a, hm⟩ | ⟨a, hm⟩
    · left; rw [hloc, hev, h2]; exact ⟨rfl, rfl⟩
    · right; left
      refine ⟨p, a, rfl, hm, ?_, ?_⟩
      · rw [hloc, hm.evs]; rfl
      · rw [hev, hm.evs]; rfl
    · right; right
      refine ⟨p, a, rfl, hm, ?_, ?_⟩
      · rw [hloc, hm.evs]; rfl
      · rw [hev, hm.evs]; rfl

/-! ## Appending histories -/

theorem crun_append (thr : Nat → Nat) (xs ys : List (Env × Input)) :
    ∀ c : CSt, (crun thr c (xs ++ ys)).1 = (crun thr (crun thr c xs).1 ys).1 := by
  induction xs with
  | nil => intro c; rfl
  | cons x xs ih => intro c; obtain ⟨e, inp⟩ := x; rw [List.cons_append, crun_cons, crun_cons]; exact ih _

theorem crun_append_outs (thr : Nat → Nat) (xs ys : List (Env × Input)) :
    ∀ c : CSt, (crun thr c (xs ++ ys)).2 = (crun thr c xs).2 ++ (crun thr (crun thr c xs).1 ys).2 := by
  induction xs with
  | nil => intro c; rfl
  | cons x xs ih =>
    intro c; obtain ⟨e, inp⟩ := x
    rw [List.cons_append, crun_cons, crun_cons]
    simp only [ih, List.append_assoc]

theorem ledgerOf_append (thr : Nat → Nat) (xs ys : List (Env × Input)) :
    ∀ c : CSt, ledgerOf thr c (xs ++ ys) = ledgerOf thr (crun thr c xs).1 ys ++ ledgerOf thr c xs := by
  induction xs with
  | nil => intro c; simp [ledgerOf, crun]
  | cons x xs ih =>
    intro c; obtain ⟨e, inp⟩ := x
    rw [List.cons_append, crun_cons]
    simp only [ledgerOf, ih, List.append_assoc]

theorem pongsOf_append (thr : Nat → Nat) (xs ys : List (Env × Input)) :
    ∀ c : CSt, pongsOf thr c (xs ++ ys) = pongsOf thr c xs ++ pongsOf thr (crun thr c xs).1 ys := by
  induction xs with
  | nil => intro c; simp [pongsOf, crun]
  | cons x xs ih =>
    intro c; obtain ⟨e, inp⟩ := x
    rw [List.cons_append, crun_cons]
    simp only [pongsOf, ih, List.append_assoc]

/-- Every vote-reaching PONG of a history is a PONG response among its inputs. -/
theorem pongsOf_mem (thr : Nat → Nat) (steps : List (Env × Input)) :
    ∀ (c : CSt) (q : Pong Nat), q ∈ pongsOf thr c steps →
      ∃ e peer addr id enrSeq observed,
        (e, Input.response peer addr id (.pong enrSeq observed)) ∈ steps ∧
        q.voter = peer ∧ q.sock = sockOf observed := by
  induction steps with
  | nil => intro c q h; cases h
  | cons x rest ih =>
    intro c q h
    obtain ⟨e, inp⟩ := x
    simp only [pongsOf, List.mem_append] at h
    rcases h with h | h
    · cases hv : votePong c.svc e inp with
      | none => rw [hv] at h; cases h
      | some p =>
        rw [hv] at h
        simp only [Option.toList, List.mem_singleton] at h
        subst h
        obtain ⟨peer, addr, id, enrSeq, observed, rfl, _, rfl⟩ := votePong_some hv
        exact ⟨e, peer, addr, id, enrSeq, observed, List.mem_cons_self .., rfl, rfl⟩
    · obtain ⟨e', peer, addr, id, enrSeq, observed, hm, h1, h2⟩ := ih _ q h
      exact ⟨e', peer, addr, id, enrSeq, observed, List.mem_cons_of_mem _ hm, h1, h2⟩

/-! ## Fewer voters than the minimum -/

theorem cstep_few_liars4 (thr : Nat → Nat) {minimum : Nat} {hist : List (Pong Nat)} {L : List (Cast Nat)}
    {c : CSt} (h : CInv minimum hist L c) (e : Env) (he : e.Valid) (inp : Input) (a : Nat)
    (liars : List Nat) (hfew : liars.length < minimum)
    (hl : ∀ q, q ∈ hist ++ (votePong c.svc e inp).toList → q.sock = Sock.v4 a → q.voter ∈ liars)
    (hnew : (cstep thr c e inp).1.svc.localRec.udp4 = some a) : c.svc.localRec.udp4 = some a := by
  cases hv : votePong c.svc e inp with
  | none =>
    rw [(cstep_other thr c e inp hv).1] at hnew; exact hnew
  | some p =>
    obtain ⟨habs, _, _, _⟩ := cstep_pong thr c h.coupled e inp p hv
    have hpv : p.Valid := by
      obtain ⟨peer, addr, id, enrSeq, observed, _, _, rfl⟩ := votePong_some hv
      exact pongOf_valid he ..
    rw [hv] at hl
    have hnew' : (pongStep thr c.abs p).1.enr.ip4 = some a := by rw [← habs]; exact hnew
    exact IpVote.pongStep_few_liars4 thr minimum hist c.abs h.ok p hpv a liars hl hfew hnew'

theorem cstep_few_liars6 (thr : Nat → Nat) {minimum : Nat} {hist : List (Pong Nat)} {L : List (Cast Nat)}
    {c : CSt} (h : CInv minimum hist L c) (e : Env) (he : e.Valid) (inp : Input) (a : Nat)
    (liars : List Nat) (hfew : liars.length < minimum)
    (hl : ∀ q, q ∈ hist ++ (votePong c.svc e inp).toList → q.sock = Sock.v6 a → q.voter ∈ liars)
    (hnew : (cstep thr c e inp).1.svc.localRec.udp6 = some a) : c.svc.localRec.udp6 = some a := by
  cases hv : votePong c.svc e inp with
  | none =>
    rw [(cstep_other thr c e inp hv).1] at hnew; exact hnew
  | some p =>
    obtain ⟨habs, _, _, _⟩ := cstep_pong thr c h.coupled e inp p hv
    have hpv : p.Valid := by
      obtain ⟨peer, addr, id, enrSeq, observed, _, _, rfl⟩ := votePong_some hv
      exact pongOf_valid he ..
    rw [hv] at hl
    have hnew' : (pongStep thr c.abs p).1.enr.ip6 = some a := by rw [← habs]; exact hnew
    exact IpVote.pongStep_few_liars6 thr minimum hist c.abs h.ok p hpv a liars hl hfew hnew'

theorem crun_few_liars4 (thr : Nat → Nat) (minimum : Nat) (a : Nat) (liars : List Nat)
    (hfew : liars.length < minimum) (steps : List (Env × Input)) :
    ∀ (hist : List (Pong Nat)) (L : List (Cast Nat)) (c : CSt), CInv minimum hist L c →
      (∀ x, x ∈ steps → x.1.Valid) →
      (∀ q, q ∈ hist ++ pongsOf thr c steps → q.sock = Sock.v4 a → q.voter ∈ liars) →
      (crun thr c steps).1.svc.localRec.udp4 = some a → c.svc.localRec.udp4 = some a := by
  induction steps with
  | nil => intro hist L c _ _ _ h; exact h
  | cons x rest ih =>
    intro hist L c h hv hl hnew
    obtain ⟨e, inp⟩ := x
    have he := hv (e, inp) (List.mem_cons_self ..)
    have h1 := cstep_inv thr h e he inp
    rw [crun_cons] at hnew
    have h2 := ih _ _ _ h1 (fun y hy => hv y (List.mem_cons_of_mem _ hy))
      (fun q hq => hl q (by simpa [pongsOf, List.append_assoc] using hq)) hnew
    exact cstep_few_liars4 thr h e he inp a liars hfew
      (fun q hq => hl q (by
        simp only [pongsOf, List.mem_append] at hq ⊢
        rcases hq with hq | hq
        · exact Or.inl hq
        · exact Or.inr (Or.inl hq))) h2

theorem crun_few_liars6 (thr : Nat → Nat) (minimum : Nat) (a : Nat) (liars : List Nat)
    (hfew : liars.length < minimum) (steps : List (Env × Input)) :
    ∀ (hist : List (Pong Nat)) (L : List (Cast Nat)) (c : CSt), CInv minimum hist L c →
      (∀ x, x ∈ steps → x.1.Valid) →
      (∀ q, q ∈ hist ++ pongsOf thr c steps → q.sock = Sock.v6 a → q.voter ∈ liars) →
      (crun thr c steps).1.svc.localRec.udp6 = some a → c.svc.localRec.udp6 = some a := by
  induction steps with
  | nil => intro hist L c _ _ _ h; exact h
  | cons x rest ih =>
    intro hist L c h hv hl hnew
    obtain ⟨e, inp⟩ := x
    have he := hv (e, inp) (List.mem_cons_self ..)
    have h1 := cstep_inv thr h e he inp
    rw [crun_cons] at hnew
    have h2 := ih _ _ _ h1 (fun y hy => hv y (List.mem_cons_of_mem _ hy))
      (fun q hq => hl q (by simpa [pongsOf, List.append_assoc] using hq)) hnew
    exact cstep_few_liars6 thr h e he inp a liars hfew
      (fun q hq => hl q (by
        simp only [pongsOf, List.mem_append] at hq ⊢
        rcases hq with hq | hq
        · exact Or.inl hq
        · exact Or.inr (Or.inl hq))) h2

/-- Along any history the sequence number grows by exactly the number of `SocketUpdated` events. -/
theorem crun_seq (thr : Nat → Nat) (steps : List (Env × Input)) :
    ∀ c : CSt, c.Coupled →
      (crun thr c steps).1.svc.localRec.seq = c.svc.localRec.seq + (sockEvs (crun thr c steps).2).length := by
  induction steps with
  | nil => intro c _; rfl
  | cons x rest ih =>
    intro c hc
    obtain ⟨e, inp⟩ := x
    have hinv : (cstep thr c e inp).1.Coupled := by
      cases hv : votePong c.svc e inp with
      | some p =>
        obtain ⟨habs, _, _, hcfg⟩ := cstep_pong thr c hc e inp p hv
        have hvotes : (cstep thr c e inp).1.votes = (pongStep thr c.abs p).1.votes :=
          congrArg IpVote.Svc.votes habs
        unfold CSt.Coupled
        rw [hvotes, pongStep_votes_isSome, hcfg]; exact hc
      | none =>
        obtain ⟨_, hcfg, _, hv1, hv2⟩ := cstep_other thr c e inp hv
        unfold CSt.Coupled
        cases hp : pruneAsk c.svc inp with
        | none => rw [hv1 hp, hcfg]; exact hc
        | some b => rw [hv2 b hp, requireMore_votes_isSome, hcfg]; exact hc
    rw [crun_cons, sockEvs_append, List.length_append, ih _ hinv]
    rcases cstep_shape thr c hc e inp with ⟨h1, h2⟩ | ⟨p, a, _, _, h1, h2⟩ | ⟨p, a, _, _, h1, h2⟩
    · rw [h1, h2]; simp
    · rw [h1, h2]; simp [setSocket]; omega
    · rw [h1, h2]; simp [setSocket]; omega


/-! ## Monotone clocks: the table is exactly the set of live latest counted votes -/

/-- The clock readings of a history never go back (`T` is the last reading before it). -/
def MonoFrom : Nat → List (Env × Input) → Prop
  | _, [] => True
  | T, (e, _) :: rest => T ≤ e.tClear ∧ e.tClear ≤ e.tIns ∧ e.tIns ≤ e.tMaj ∧ MonoFrom e.tMaj rest

/-- The last clock reading of a history. -/
def lastClock : Nat → List (Env × Input) → Nat
  | T, [] => T
  | _, (e, _) :: rest => lastClock e.tMaj rest

theorem cstep_comp (thr : Nat → Nat) {T : Nat} {L : List (Cast Nat)} {c : CSt} (hc : c.Coupled)
    (h : SLComp T L c.abs) (e : Env) (he : e.Valid) (h1 : T ≤ e.tClear) (h2 : e.tClear ≤ e.tIns)
    (h3 : e.tIns ≤ e.tMaj) (inp : Input) :
    SLComp e.tMaj ((stepCast c e inp).toList ++ L) (cstep thr c e inp).1.abs := by
  cases hv : votePong c.svc e inp with
  | some p =>
    obtain ⟨habs, _, _, _⟩ := cstep_pong thr c hc e inp p hv
    obtain ⟨peer, addr, id, enrSeq, observed, _, _, hp⟩ := votePong_some hv
    have hpv : p.Valid := by rw [hp]; exact pongOf_valid he ..
    have := pongStep_lcomp h thr p hpv (by rw [hp]; exact h1) (by rw [hp]; exact h2) (by rw [hp]; exact h3)
    rw [habs]
    unfold stepCast
    rw [hv]
    have ht : p.tMaj = e.tMaj := by rw [hp]; rfl
    rw [ht] at this
    exact this
  | none =>
    obtain ⟨_, _, _, hv1, hv2⟩ := cstep_other thr c e inp hv
    have hcast : stepCast c e inp = none := by unfold stepCast; rw [hv]; rfl
    rw [hcast]
    simp only [Option.toList, List.nil_append]
    cases hp : pruneAsk c.svc inp with
    | none =>
      intro v hvs
      exact (h v (by show c.votes = some v; rw [← hv1 hp]; exact hvs)).mono (by omega)
    | some b =>
      intro v hvs
      exact (requireMore_lcomp h e.tClear h1 b v (by rw [← hv2 b hp]; exact hvs)).mono (by omega)

theorem cstep_coupled (thr : Nat → Nat) {c : CSt} (hc : c.Coupled) (e : Env) (inp : Input) :
    (cstep thr c e inp).1.Coupled := by
  cases hv : votePong c.svc e inp with
  | some p =>
    obtain ⟨habs, _, _, hcfg⟩ := cstep_pong thr c hc e inp p hv
    have hvotes : (cstep thr c e inp).1.votes = (pongStep thr c.abs p).1.votes :=
      congrArg IpVote.Svc.votes habs
    unfold CSt.Coupled
    rw [hvotes, pongStep_votes_isSome, hcfg]; exact hc
  | none =>
    obtain ⟨_, hcfg, _, hv1, hv2⟩ := cstep_other thr c e inp hv
    unfold CSt.Coupled
    cases hp : pruneAsk c.svc inp with
    | none => rw [hv1 hp, hcfg]; exact hc
    | some b => rw [hv2 b hp, requireMore_votes_isSome, hcfg]; exact hc

theorem crun_coupled (thr : Nat → Nat) (steps : List (Env × Input)) :
    ∀ c : CSt, c.Coupled → (crun thr c steps).1.Coupled := by
  induction steps with
  | nil => intro c h; exact h
  | cons x rest ih =>
    intro c h; obtain ⟨e, inp⟩ := x
    rw [crun_cons]; exact ih _ (cstep_coupled thr h e inp)

theorem crun_comp (thr : Nat → Nat) (steps : List (Env × Input)) :
    ∀ (T : Nat) (L : List (Cast Nat)) (c : CSt), c.Coupled → SLComp T L c.abs →
      (∀ x, x ∈ steps → x.1.Valid) → MonoFrom T steps →
      SLComp (lastClock T steps) (ledgerOf thr c steps ++ L) (crun thr c steps).1.abs := by
  induction steps with
  | nil => intro T L c _ h _ _; simpa [lastClock, ledgerOf, crun] using h
  | cons x rest ih =>
    intro T L c hc h hv hm
    obtain ⟨e, inp⟩ := x
    obtain ⟨m1, m2, m3, m4⟩ := hm
    have h1 := cstep_comp thr hc h e (hv (e, inp) (List.mem_cons_self ..)) m1 m2 m3 inp
    have h2 := ih _ _ _ (cstep_coupled thr hc e inp) h1 (fun y hy => hv y (List.mem_cons_of_mem _ hy)) m4
    rw [crun_cons]
    simpa [lastClock, ledgerOf, List.append_assoc] using h2

theorem monoFrom_append {T : Nat} {xs ys : List (Env × Input)} (h : MonoFrom T (xs ++ ys)) :
    MonoFrom T xs ∧ MonoFrom (lastClock T xs) ys := by
  induction xs generalizing T with
  | nil => exact ⟨trivial, h⟩
  | cons x xs ih =>
    obtain ⟨e, inp⟩ := x
    obtain ⟨m1, m2, m3, m4⟩ := h
    obtain ⟨i1, i2⟩ := ih m4
    exact ⟨⟨m1, m2, m3, i1⟩, i2⟩

theorem comp_nil (c : CSt) (T : Nat) : SLComp T [] c.abs := by
  intro v _
  constructor <;> intro x c hl <;> cases hl

/-! ## The voters behind a change -/

/-- A step moved the IPv4 socket to `a` (`Moved4`): in the table `v'` the step leaves, the
voters behind the tally of `a` are distinct, at least `minimum`, each has `a` as latest counted
IPv4 vote, unexpired at the clock reading of `majority()`; every rival's tally is below
`thr` of their number. -/
theorem cstep_move4_voters (thr : Nat → Nat) {minimum : Nat} {hist : List (Pong Nat)}
    {L : List (Cast Nat)} {c : CSt} (h : CInv minimum hist L c) (e : Env) (he : e.Valid) (inp : Input)
    (p : Pong Nat) (a : Nat) (hv : votePong c.svc e inp = some p) (hm : Moved4 thr c.abs p a) :
    ∃ v', (cstep thr c e inp).1.votes = some v' ∧ v'.minimum = minimum ∧
      (tallyVoters e.tMaj v'.v4 a).Nodup ∧
      (tallyVoters e.tMaj v'.v4 a).length = countOf e.tMaj v'.v4 a ∧
      minimum ≤ (tallyVoters e.tMaj v'.v4 a).length ∧
      (∀ x, x ∈ tallyVoters e.tMaj v'.v4 a →
        VotesFor ((stepCast c e inp).toList ++ L) false e.tMaj x (.v4 a)) ∧
      (∀ b, b ≠ a → countOf e.tMaj v'.v4 b < thr (tallyVoters e.tMaj v'.v4 a).length) := by
  obtain ⟨v', hv', hcm, _⟩ := hm.votes
  obtain ⟨habs, _, _, _⟩ := cstep_pong thr c h.coupled e inp p hv
  have hinv := cstep_inv thr h e he inp
  have hvotes : (cstep thr c e inp).1.votes = some v' := by
    have : (cstep thr c e inp).1.votes = (pongStep thr c.abs p).1.votes := congrArg IpVote.Svc.votes habs
    rw [this]; exact hv'
  have hok := hinv.ok v' hvotes
  have hlok := hinv.lok v' hvotes
  have ht : p.tMaj = e.tMaj := by
    obtain ⟨_, _, _, _, _, _, _, hp⟩ := votePong_some hv
    rw [hp]; rfl
  rw [ht] at hcm
  refine ⟨v', hvotes, hok.hmin, tallyVoters_nodup _ hok.k4 a, tallyVoters_length .., ?_, ?_, ?_⟩
  · rw [tallyVoters_length, ← hok.hmin]; exact hcm.1
  · exact tallyVoters_sound Sock.v4 false _ _ hlok.l4 e.tMaj a
  · rw [tallyVoters_length]; exact hcm.2.2

theorem cstep_move6_voters (thr : Nat → Nat) {minimum : Nat} {hist : List (Pong Nat)}
    {L : List (Cast Nat)} {c : CSt} (h : CInv minimum hist L c) (e : Env) (he : e.Valid) (inp : Input)
    (p : Pong Nat) (a : Nat) (hv : votePong c.svc e inp = some p) (hm : Moved6 thr c.abs p a) :
    ∃ v', (cstep thr c e inp).1.votes = some v' ∧ v'.minimum = minimum ∧
      (tallyVoters e.tMaj v'.v6 a).Nodup ∧
      (tallyVoters e.tMaj v'.v6 a).length = countOf e.tMaj v'.v6 a ∧
      minimum ≤ (tallyVoters e.tMaj v'.v6 a).length ∧
      (∀ x, x ∈ tallyVoters e.tMaj v'.v6 a →
        VotesFor ((stepCast c e inp).toList ++ L) true e.tMaj x (.v6 a)) ∧
      (∀ b, b ≠ a → countOf e.tMaj v'.v6 b < thr (tallyVoters e.tMaj v'.v6 a).length) := by
  obtain ⟨v', hv', hcm, _⟩ := hm.votes
  obtain ⟨habs, _, _, _⟩ := cstep_pong thr c h.coupled e inp p hv
  have hinv := cstep_inv thr h e he inp
  have hvotes : (cstep thr c e inp).1.votes = some v' := by
    have : (cstep thr c e inp).1.votes = (pongStep thr c.abs p).1.votes := congrArg IpVote.Svc.votes habs
    rw [this]; exact hv'
  have hok := hinv.ok v' hvotes
  have hlok := hinv.lok v' hvotes
  have ht : p.tMaj = e.tMaj := by
    obtain ⟨_, _, _, _, _, _, _, hp⟩ := votePong_some hv
    rw [hp]; rfl
  rw [ht] at hcm
  refine ⟨v', hvotes, hok.hmin, tallyVoters_nodup _ hok.k6 a, tallyVoters_length .., ?_, ?_, ?_⟩
  · rw [tallyVoters_length, ← hok.hmin]; exact hcm.1
  · exact tallyVoters_sound Sock.v6 true _ _ hlok.l6 e.tMaj a
  · rw [tallyVoters_length]; exact hcm.2.2


/-- Under monotone clocks the table the step leaves is complete: every voter whose latest counted
vote is `a` and unexpired is behind the tally of `a`, and any distinct voters whose latest counted
vote is `b` and unexpired are at most the tally of `b`. -/
theorem cstep_move_exact (thr : Nat → Nat) {T : Nat} {L : List (Cast Nat)} {c : CSt} (hc : c.Coupled)
    (hcomp : SLComp T L c.abs) (e : Env) (he : e.Valid) (h1 : T ≤ e.tClear) (h2 : e.tClear ≤ e.tIns)
    (h3 : e.tIns ≤ e.tMaj) (inp : Input) (v' : IpVote.IpVote Nat)
    (hv' : (cstep thr c e inp).1.votes = some v') :
    (∀ a x, VotesFor ((stepCast c e inp).toList ++ L) false e.tMaj x (.v4 a) →
      x ∈ tallyVoters e.tMaj v'.v4 a) ∧
    (∀ b (ws : List Nat), ws.Nodup → (∀ x, x ∈ ws → VotesFor ((stepCast c e inp).toList ++ L) false e.tMaj x (.v4 b)) →
      ws.length ≤ countOf e.tMaj v'.v4 b) ∧
    (∀ a x, VotesFor ((stepCast c e inp).toList ++ L) true e.tMaj x (.v6 a) →
      x ∈ tallyVoters e.tMaj v'.v6 a) ∧
    (∀ b (ws : List Nat), ws.Nodup → (∀ x, x ∈ ws → VotesFor ((stepCast c e inp).toList ++ L) true e.tMaj x (.v6 b)) →
      ws.length ≤ countOf e.tMaj v'.v6 b) := by
  have hcmp := cstep_comp thr hc hcomp e he h1 h2 h3 inp v' hv'
  have inj4 : ∀ a b : Nat, Sock.v4 a = Sock.v4 b → a = b := fun a b h => by cases h; rfl
  have inj6 : ∀ a b : Nat, Sock.v6 a = Sock.v6 b → a = b := fun a b h => by cases h; rfl
  refine ⟨?_, ?_, ?_, ?_⟩
  · intro a x hx
    exact tallyVoters_complete Sock.v4 inj4 false _ _ e.tMaj hcmp.c4 a x hx
  · intro b ws hnd hws
    exact voters_le_tally Sock.v4 inj4 false _ _ e.tMaj hcmp.c4 b ws hnd hws
  · intro a x hx
    exact tallyVoters_complete Sock.v6 inj6 true _ _ e.tMaj hcmp.c6 a x hx
  · intro b ws hnd hws
    exact voters_le_tally Sock.v6 inj6 true _ _ e.tMaj hcmp.c6 b ws hnd hws

theorem sockOf_isV6 (a : Addr) : (sockOf a).isV6 = a.v6 := by
  unfold sockOf; cases a.v6 <;> rfl

theorem addrOf_sockOf (a : Addr) : addrOf (sockOf a) = a := by
  obtain ⟨v6, sock⟩ := a
  cases v6 <;> rfl

/-- The eligibility of a PONG as the composed system evaluates it: the connectivity state admits
the vote, ENR updates are on, and the voter is a connected outgoing table entry or
`require_more_ip_votes` asks for votes of its family. -/
def Eligible (c : CSt) (e : Env) (peer : Nat) (observed : Addr) : Prop :=
  e.countable = true ∧ c.svc.cfg.enrUpdate = true ∧
    (connOutOf c.svc peer || (IpVote.requireMore c.abs e.tClear observed.v6).2) = true

theorem counted_eligible {c : CSt} (hc : c.Coupled) (e : Env) (peer : Nat) (observed : Addr)
    (h : counted c.abs (pongOf e peer observed (connOutOf c.svc peer)) = true) :
    Eligible c e peer observed := by
  unfold counted at h
  simp only [Bool.and_eq_true] at h
  obtain ⟨⟨h1, h2⟩, h3⟩ := h
  refine ⟨h1, ?_, ?_⟩
  · rw [← hc]; exact h2
  · have : (pongOf e peer observed (connOutOf c.svc peer)).sock.isV6 = observed.v6 := sockOf_isV6 observed
    rw [this] at h3
    exact h3

/-- Every entry of the ledger of a history is the vote of a PONG response of that history which
reached the vote path and was eligible in the state it met. -/
theorem ledger_cast_eligible (thr : Nat → Nat) (steps : List (Env × Input)) :
    ∀ (c : CSt), c.Coupled → ∀ cst, cst ∈ ledgerOf thr c steps →
      ∃ pre e peer addr id enrSeq observed post,
        steps = pre ++ (e, Input.response peer addr id (.pong enrSeq observed)) :: post ∧
        cst.voter = peer ∧ cst.sock = sockOf observed ∧
        reachesVote (crun thr c pre).1.svc peer addr id = true ∧
        Eligible (crun thr c pre).1 e peer observed := by
  induction steps with
  | nil => intro c _ cst h; cases h
  | cons x rest ih =>
    intro c hc cst h
    obtain ⟨e, inp⟩ := x
    simp only [ledgerOf, List.mem_append] at h
    rcases h with h | h
    · obtain ⟨pre, e', peer, addr, id, enrSeq, observed, post, h1, h2, h3, h4, h5⟩ :=
        ih _ (cstep_coupled thr hc e inp) cst h
      refine ⟨(e, inp) :: pre, e', peer, addr, id, enrSeq, observed, post, by rw [h1]; rfl, h2, h3, ?_, ?_⟩
      · rw [crun_cons]; exact h4
      · rw [crun_cons]; exact h5
    · unfold stepCast at h
      cases hv : votePong c.svc e inp with
      | none => rw [hv] at h; cases h
      | some p =>
        rw [hv] at h
        simp only [Option.bind_some] at h
        obtain ⟨peer, addr, id, enrSeq, observed, rfl, hr, rfl⟩ := votePong_some hv
        unfold castOf at h
        by_cases hcnt : counted c.abs (pongOf e peer observed (connOutOf c.svc peer)) = true
        · rw [if_pos hcnt] at h
          cases ht : tableBefore c.abs (pongOf e peer observed (connOutOf c.svc peer)) with
          | none => rw [ht] at h; cases h
          | some v =>
            rw [ht] at h
            simp only [Option.map_some, Option.toList, List.mem_singleton] at h
            subst h
            exact ⟨[], e, peer, addr, id, enrSeq, observed, rest, rfl, rfl, rfl, hr,
              counted_eligible hc e peer observed hcnt⟩
        · rw [if_neg hcnt] at h; cases h

end Discv5.SvcVotes

/-
Helper lemmas for the ipvote model (`Model/IpVote.lean`): rounding-error bounds of the binary64
mirror (`thrF64 n ≤ n`), the loop invariant of `filter_stale_find_most_frequent` (the single pass
computes the exact tally, the maximum and the best rival for every visiting order), and the
service-level invariants (one entry per voter, every entry backed by a PONG of the history).
Core Lean only.
-/
import Discv5Model.Model.IpVote

set_option linter.unusedSectionVars false

namespace Discv5.IpVote

/-! ## binary64 mirror -/

theorem rne_err (x d : Nat) (hd : 0 < d) (heven : d % 2 = 0) : 2 * (rne x d * d) ≤ 2 * x + d := by
  unfold rne
  simp only []
  have h := Nat.div_add_mod x d
  have hm := Nat.mod_lt x hd
  generalize x / d = q at *
  generalize x % d = r at *
  have hx : x = d * q + r := h.symm
  have e1 : (q + 1) * d = d * q + d := by rw [Nat.add_mul, Nat.mul_comm]; simp
  have e2 : q * d = d * q := Nat.mul_comm _ _
  by_cases h1 : 2 * r < d
  · rw [if_pos h1, e2]; omega
  · rw [if_neg h1]
    by_cases h2 : d < 2 * r
    · rw [if_pos h2, e1]; omega
    · rw [if_neg h2]
      by_cases h3 : q % 2 = 0
      · rw [if_pos h3, e2]; omega
      · rw [if_neg h3, e1]; omega

theorem rnd53_err (N : Nat) : 2 ^ 53 * rnd53 N ≤ (2 ^ 53 + 1) * N := by
  unfold rnd53
  by_cases h : N < 2 ^ 53
  · rw [if_pos h]; rw [Nat.add_mul]; omega
  · rw [if_neg h]
    simp only []
    have hN : N ≠ 0 := by intro h0; rw [h0] at h; exact h (by decide)
    have hlog : 2 ^ Nat.log2 N ≤ N := Nat.log2_self_le hN
    have h53 : 53 ≤ Nat.log2 N := by
      have : 2 ^ 53 ≤ N := Nat.le_of_not_lt h
      exact (Nat.le_log2 hN).2 this
    generalize hs : Nat.log2 N - 52 = s
    have hs1 : 1 ≤ s := by omega
    have hl : Nat.log2 N = 52 + s := by omega
    rw [hl, Nat.pow_add] at hlog
    have hd : 0 < 2 ^ s := Nat.two_pow_pos s
    have heven : 2 ^ s % 2 = 0 := by
      obtain ⟨t, rfl⟩ : ∃ t, s = t + 1 := ⟨s - 1, by omega⟩
      rw [Nat.pow_succ]; simp
    have he := rne_err N (2 ^ s) hd heven
    generalize rne N (2 ^ s) * 2 ^ s = R at *
    generalize 2 ^ s = D at *
    omega

/-- The threshold never exceeds its argument whenever the binary64 factor is at most
`2^106 / (2^53+1)^2` (just below one): two roundings cannot lift the product above `n`. -/
theorem thrWith_le (c : Nat × Nat) (hc : (2 ^ 53 + 1) * ((2 ^ 53 + 1) * c.1) ≤ 2 ^ 53 * (2 ^ 53 * 2 ^ c.2))
    (n : Nat) : thrWith c n ≤ n := by
  unfold thrWith
  have h1 := rnd53_err (rnd53 n * c.1)
  have h2 := rnd53_err n
  generalize rnd53 (rnd53 n * c.1) = R at *
  generalize rnd53 n = F at *
  generalize hD : 2 ^ c.2 = D at *
  generalize c.1 = m at *
  have hDpos : 0 < D := by rw [← hD]; exact Nat.two_pow_pos _
  -- 2^106 R ≤ (2^53+1)^2 n m ≤ 2^106 D n
  have a1 : 2 ^ 53 * (2 ^ 53 * R) ≤ 2 ^ 53 * ((2 ^ 53 + 1) * (F * m)) := Nat.mul_le_mul_left _ h1
  have a2 : 2 ^ 53 * ((2 ^ 53 + 1) * (F * m)) = (2 ^ 53 + 1) * ((2 ^ 53 * F) * m) := by
    simp only [Nat.mul_assoc, Nat.mul_left_comm]
  have a3 : (2 ^ 53 + 1) * ((2 ^ 53 * F) * m) ≤ (2 ^ 53 + 1) * (((2 ^ 53 + 1) * n) * m) :=
    Nat.mul_le_mul_left _ (Nat.mul_le_mul_right _ h2)
  have a4 : (2 ^ 53 + 1) * (((2 ^ 53 + 1) * n) * m) = n * ((2 ^ 53 + 1) * ((2 ^ 53 + 1) * m)) := by
    simp only [Nat.mul_left_comm, Nat.mul_comm]
  have a5 : n * ((2 ^ 53 + 1) * ((2 ^ 53 + 1) * m)) ≤ n * (2 ^ 53 * (2 ^ 53 * D)) :=
    Nat.mul_le_mul_left _ hc
  have a6 : n * (2 ^ 53 * (2 ^ 53 * D)) = 2 ^ 53 * (2 ^ 53 * (n * D)) := by
    simp only [Nat.mul_assoc, Nat.mul_left_comm, Nat.mul_comm]
  have a7 : 2 ^ 53 * (2 ^ 53 * R) ≤ 2 ^ 53 * (2 ^ 53 * (n * D)) := by
    rw [a2] at a1; rw [a4] at a3; rw [a6] at a5
    exact Nat.le_trans a1 (Nat.le_trans a3 a5)
  have hR : R ≤ n * D :=
    Nat.le_of_mul_le_mul_left (Nat.le_of_mul_le_mul_left a7 (Nat.two_pow_pos 53)) (Nat.two_pow_pos 53)
  have hpow : 2 ^ (c.2 + 1) = 2 * D := by rw [Nat.pow_succ, hD, Nat.mul_comm]
  rw [hpow]
  apply Nat.le_of_lt_succ
  rw [Nat.div_lt_iff_lt_mul (by omega)]
  have : (n + 1) * (2 * D) = 2 * (n * D) + 2 * D := by
    rw [Nat.add_mul, Nat.mul_left_comm]; simp
  rw [Nat.succ_eq_add_one, this]
  omega

theorem thrF64_le (n : Nat) : thrF64 n ≤ n := by
  apply thrWith_le
  decide

/-! ### lower error bound and the 70 % characterisation -/

theorem rne_err_lo (x d : Nat) (hd : 0 < d) : 2 * x ≤ 2 * (rne x d * d) + d := by
  unfold rne
  simp only []
  have h := Nat.div_add_mod x d
  have hm := Nat.mod_lt x hd
  generalize x / d = q at *
  generalize x % d = r at *
  have e1 : (q + 1) * d = d * q + d := by rw [Nat.add_mul, Nat.mul_comm]; simp
  have e2 : q * d = d * q := Nat.mul_comm _ _
  by_cases h1 : 2 * r < d
  · rw [if_pos h1, e2]; omega
  · rw [if_neg h1]
    by_cases h2 : d < 2 * r
    · rw [if_pos h2, e1]; omega
    · rw [if_neg h2]
      by_cases h3 : q % 2 = 0
      · rw [if_pos h3, e2]; omega
      · rw [if_neg h3, e1]; omega

theorem rnd53_err_lo (N : Nat) : 2 ^ 53 * N ≤ 2 ^ 53 * rnd53 N + N := by
  unfold rnd53
  by_cases h : N < 2 ^ 53
  · rw [if_pos h]; omega
  · rw [if_neg h]
    simp only []
    have hN : N ≠ 0 := by intro h0; rw [h0] at h; exact h (by decide)
    have hlog : 2 ^ Nat.log2 N ≤ N := Nat.log2_self_le hN
    have h53 : 53 ≤ Nat.log2 N := by
      have : 2 ^ 53 ≤ N := Nat.le_of_not_lt h
      exact (Nat.le_log2 hN).2 this
    generalize hs : Nat.log2 N - 52 = s
    have hl : Nat.log2 N = 52 + s := by omega
    rw [hl, Nat.pow_add] at hlog
    have hd : 0 < 2 ^ s := Nat.two_pow_pos s
    have he := rne_err_lo N (2 ^ s) hd
    generalize rne N (2 ^ s) * 2 ^ s = R at *
    generalize 2 ^ s = D at *
    omega

theorem rnd53_small (N : Nat) (h : N < 2 ^ 53) : rnd53 N = N := by
  unfold rnd53; rw [if_pos h]

/-- With the binary64 constant of `1.0 - 0.3` the threshold is 70 % of `n` rounded to an integer
at distance at most one half (for every count below 2^49). -/
theorem thrWith_seventy (n : Nat) (h : n < 2 ^ 49) :
    7 * n ≤ 10 * thrWith (12610078956637388, 54) n + 5 ∧
    10 * thrWith (12610078956637388, 54) n ≤ 7 * n + 5 := by
  unfold thrWith
  simp only []
  rw [rnd53_small n (by omega)]
  have hu := rnd53_err (n * 12610078956637388)
  have hl := rnd53_err_lo (n * 12610078956637388)
  generalize rnd53 (n * 12610078956637388) = R at *
  omega
/-! ## The single pass -/

variable {α : Type} [DecidableEq α]

theorem counterGet_set (c : List (α × Nat)) (a : α) (n : Nat) (b : α) :
    counterGet (counterSet c a n) b = if b = a then n else counterGet c b := by
  induction c with
  | nil =>
    simp only [counterSet, counterGet]
    by_cases h : a = b
    · rw [if_pos h, if_pos h.symm]
    · rw [if_neg h, if_neg (fun h' => h h'.symm)]
  | cons x rest ih =>
    obtain ⟨x1, x2⟩ := x
    simp only [counterSet]
    by_cases hx : x1 = a
    · rw [if_pos hx]
      simp only [counterGet]
      by_cases hb : b = a
      · rw [if_pos hb, if_pos (hx.trans hb.symm)]
      · rw [if_neg hb, if_neg (fun h' => hb (h'.symm.trans hx)), if_neg (fun h' => hb (h'.symm.trans hx))]
    · rw [if_neg hx]
      simp only [counterGet]
      by_cases hb : x1 = b
      · rw [if_pos hb, if_pos hb, if_neg (fun h' => hx (hb.trans h'))]
      · rw [if_neg hb, if_neg hb, ih]

/-- Invariant of the loop of `filter_stale_find_most_frequent` against the exact tally `f`
(`f b` = number of unexpired entries seen so far that vote for `b`). -/
structure ScanOk (f : α → Nat) (s : Scan α) : Prop where
  cnt : ∀ b, counterGet s.counter b = f b
  none_case : s.maxVote = none → (∀ b, f b = 0) ∧ s.maxCount = 0 ∧ s.secondMax = 0
  max_eq : ∀ m, s.maxVote = some m → f m = s.maxCount ∧ 1 ≤ s.maxCount
  le_max : ∀ b, f b ≤ s.maxCount
  le_second : ∀ m, s.maxVote = some m → ∀ b, b ≠ m → f b ≤ s.secondMax
  second_wit : s.secondMax = 0 ∨ ∃ m b, s.maxVote = some m ∧ b ≠ m ∧ f b = s.secondMax

theorem scanOk_init : ScanOk (fun _ : α => 0) ({} : Scan α) :=
  ⟨fun _ => rfl, fun _ => ⟨fun _ => rfl, rfl, rfl⟩, (fun _ h => by cases h), fun _ => Nat.le_refl _,
   (fun _ h => by cases h), Or.inl rfl⟩

theorem scanStep_stale (now : Nat) (s : Scan α) (e : Entry α) (h : e.expiry ≤ now) :
    scanStep now s e = s := by
  unfold scanStep; rw [if_pos h]

theorem scanStep_ok (now : Nat) (f : α → Nat) (s : Scan α) (e : Entry α) (hs : ScanOk f s)
    (hlive : now < e.expiry) :
    ScanOk (fun b => if b = e.vote then f b + 1 else f b) (scanStep now s e) := by
  obtain ⟨upd, ctr, mc, sm, mv⟩ := s
  obtain ⟨hcnt, hnone, hmax, hle, hsec, hwit⟩ := hs
  simp only at hcnt hnone hmax hle hsec hwit
  unfold scanStep
  rw [if_neg (by omega)]
  simp only []
  rw [hcnt]
  generalize hv : e.vote = v
  have hfv : ∀ b, b ≠ v → (if b = v then f b + 1 else f b) = f b := fun b hb => if_neg hb
  have hfvv : (if v = v then f v + 1 else f v) = f v + 1 := if_pos rfl
  have hc' : ∀ b, counterGet (counterSet ctr v (f v + 1)) b = if b = v then f b + 1 else f b := by
    intro b
    rw [counterGet_set]
    by_cases hb : b = v
    · rw [if_pos hb, if_pos hb, hb]
    · rw [if_neg hb, if_neg hb, hcnt]
  by_cases hA : mc < f v + 1
  · rw [if_pos hA]
    have hfveq : f v = mc := by have := hle v; omega
    refine ⟨hc', (fun h => by cases h), ?_, ?_, ?_, ?_⟩
    · intro m hm
      simp only [Option.some.injEq] at hm
      subst hm
      simp only []
      rw [if_pos True.intro]; omega
    · intro b
      simp only []
      by_cases hb : b = v
      · rw [if_pos hb, hb]; omega
      · rw [if_neg hb]; have := hle b; omega
    · intro m hm b hb
      simp only [Option.some.injEq] at hm
      subst hm
      simp only []
      rw [hfv b hb]
      cases mv with
      | none =>
        have := (hnone rfl).1 b
        omega
      | some m0 =>
        by_cases hm0 : m0 = v
        · subst hm0
          rw [if_neg (by simp)]
          exact hsec _ rfl b hb
        · rw [if_pos ⟨rfl, by simpa using hm0⟩]
          exact hle b
    · simp only []
      cases mv with
      | none =>
        left
        rw [if_neg (by simp)]
        exact (hnone rfl).2.2
      | some m0 =>
        by_cases hm0 : m0 = v
        · subst hm0
          rw [if_neg (by simp)]
          rcases hwit with h0 | ⟨m, b, hm, hb, hfb⟩
          · left; exact h0
          · right
            simp only [Option.some.injEq] at hm
            subst hm
            exact ⟨m0, b, rfl, hb, by rw [hfv b hb]; exact hfb⟩
        · rw [if_pos ⟨rfl, by simpa using hm0⟩]
          right
          exact ⟨v, m0, rfl, hm0, by rw [hfv m0 hm0]; exact (hmax m0 rfl).1⟩
  · rw [if_neg hA]
    -- the maximum is held by another vote
    cases mv with
    | none =>
      have := (hnone rfl).2.1
      omega
    | some m =>
      have hmv : m ≠ v := by
        intro h; subst h
        have := (hmax m rfl).1
        omega
      have hmv' : v ≠ m := fun h => hmv h.symm
      by_cases hB : sm < f v + 1 ∧ some v ≠ some m
      · rw [if_pos hB]
        refine ⟨hc', (fun h => by cases h), ?_, ?_, ?_, ?_⟩
        · intro m' hm'
          simp only [Option.some.injEq] at hm'
          subst hm'
          simp only []
          rw [hfv m hmv]
          exact hmax m rfl
        · intro b
          simp only []
          by_cases hb : b = v
          · rw [if_pos hb, hb]; omega
          · rw [if_neg hb]; exact hle b
        · intro m' hm' b hb
          simp only [Option.some.injEq] at hm'
          subst hm'
          simp only []
          by_cases hbv : b = v
          · rw [if_pos hbv, hbv]; omega
          · rw [if_neg hbv]
            have := hsec m rfl b hb
            omega
        · right
          exact ⟨m, v, rfl, hmv', by simp only []; rw [if_pos True.intro]⟩
      · rw [if_neg hB]
        have hsm : f v + 1 ≤ sm := by
          apply Nat.le_of_not_lt
          intro hlt
          exact hB ⟨hlt, by simpa using hmv'⟩
        refine ⟨hc', (fun h => by cases h), ?_, ?_, ?_, ?_⟩
        · intro m' hm'
          simp only [Option.some.injEq] at hm'
          subst hm'
          simp only []
          rw [hfv m hmv]
          exact hmax m rfl
        · intro b
          simp only []
          by_cases hb : b = v
          · rw [if_pos hb, hb]; omega
          · rw [if_neg hb]; exact hle b
        · intro m' hm' b hb
          simp only [Option.some.injEq] at hm'
          subst hm'
          simp only []
          by_cases hbv : b = v
          · rw [if_pos hbv, hbv]; omega
          · rw [if_neg hbv]
            exact hsec m rfl b hb
        · rcases hwit with h0 | ⟨m', b, hm', hb, hfb⟩
          · omega
          · right
            simp only [Option.some.injEq] at hm'
            subst hm'
            have hbv : b ≠ v := by
              intro h; subst h; omega
            exact ⟨m, b, rfl, hb, by simp only []; rw [hfv b hbv]; exact hfb⟩

theorem ScanOk.congr {f g : α → Nat} {s : Scan α} (h : ∀ b, f b = g b) (hs : ScanOk f s) :
    ScanOk g s := by
  have : f = g := funext h
  subst this; exact hs

theorem scanStep_updated (now : Nat) (s : Scan α) (e : Entry α) (hlive : now < e.expiry) :
    (scanStep now s e).updated = s.updated ++ [e] := by
  unfold scanStep
  rw [if_neg (by omega)]
  simp only []
  split
  · rfl
  · split <;> rfl

theorem countOf_nil (now : Nat) (a : α) : countOf now ([] : List (Entry α)) a = 0 := rfl

theorem countOf_cons_stale (now : Nat) (e : Entry α) (l : List (Entry α)) (a : α)
    (h : e.expiry ≤ now) : countOf now (e :: l) a = countOf now l a := by
  unfold countOf
  rw [List.filter_cons_of_neg]
  simp; omega

theorem countOf_cons_live (now : Nat) (e : Entry α) (l : List (Entry α)) (a : α)
    (h : now < e.expiry) :
    countOf now (e :: l) a = (if a = e.vote then 1 else 0) + countOf now l a := by
  unfold countOf
  by_cases ha : a = e.vote
  · rw [if_pos ha, List.filter_cons_of_pos (by simp [h, ha]), List.length_cons]; omega
  · rw [if_neg ha, List.filter_cons_of_neg (by simp [h]; exact fun h' => ha h'.symm)]; omega

theorem scan_fold (now : Nat) (l : List (Entry α)) :
    ∀ (f : α → Nat) (s : Scan α), ScanOk f s →
      ScanOk (fun b => f b + countOf now l b) (l.foldl (scanStep now) s) ∧
      (l.foldl (scanStep now) s).updated = s.updated ++ l.filter (fun e => decide (now < e.expiry)) := by
  induction l with
  | nil =>
    intro f s hs
    exact ⟨hs.congr (fun b => by simp [countOf_nil]), by simp⟩
  | cons e l ih =>
    intro f s hs
    rw [List.foldl_cons]
    by_cases hst : e.expiry ≤ now
    · rw [scanStep_stale now s e hst]
      obtain ⟨h1, h2⟩ := ih f s hs
      refine ⟨h1.congr (fun b => by rw [countOf_cons_stale now e l b hst]), ?_⟩
      rw [h2, List.filter_cons_of_neg (by simp; omega)]
    · have hlive : now < e.expiry := by omega
      obtain ⟨h1, h2⟩ := ih _ _ (scanStep_ok now f s e hs hlive)
      refine ⟨h1.congr (fun b => ?_), ?_⟩
      · rw [countOf_cons_live now e l b hlive]
        by_cases hb : b = e.vote
        · rw [if_pos hb, if_pos hb]; omega
        · rw [if_neg hb, if_neg hb]; omega
      · rw [h2, scanStep_updated now s e hlive, List.filter_cons_of_pos (by simp [hlive])]
        simp

/-- The loop computes the exact tally. -/
theorem scan_final (now : Nat) (l : List (Entry α)) :
    ScanOk (countOf now l) (l.foldl (scanStep now) {}) := by
  have := (scan_fold now l (fun _ => 0) {} scanOk_init).1
  exact this.congr (fun b => by simp)

theorem mostFrequent_updated (thr : Nat → Nat) (minimum now : Nat) (l : List (Entry α)) :
    (mostFrequent thr minimum now l).1 = l.filter (fun e => decide (now < e.expiry)) := by
  unfold mostFrequent
  simp only []
  rw [(scan_fold now l (fun _ => 0) {} scanOk_init).2]
  rfl

/-- Decision of the scan against an exact tally. -/
theorem scanResult_spec (thr : Nat → Nat) (hthr : ∀ n, thr n ≤ n) (minimum : Nat) (f : α → Nat)
    (s : Scan α) (hs : ScanOk f s) (a : α) :
    scanResult thr minimum s = some a ↔ ClearMajority thr minimum f a := by
  obtain ⟨upd, ctr, mc, sm, mv⟩ := s
  obtain ⟨hcnt, hnone, hmax, hle, hsec, hwit⟩ := hs
  simp only at hcnt hnone hmax hle hsec hwit
  unfold scanResult ClearMajority
  simp only []
  constructor
  · intro h
    by_cases h1 : minimum ≤ mc
    · rw [if_pos h1] at h
      by_cases h2 : thr mc ≤ sm
      · rw [if_pos h2] at h; cases h
      · rw [if_neg h2] at h
        subst h
        obtain ⟨e1, _⟩ := hmax a rfl
        rw [e1]
        refine ⟨h1, by omega, fun b hb => ?_⟩
        have := hsec a rfl b hb
        omega
    · rw [if_neg h1] at h; cases h
  · intro ⟨h1, h2, h3⟩
    have hta := hthr (f a)
    cases mv with
    | none =>
      have := (hnone rfl).1 a
      omega
    | some m =>
      have hm : m = a := by
        apply Classical.byContradiction
        intro hne
        have := h3 m hne
        have := (hmax m rfl).1
        have := hle a
        omega
      subst hm
      obtain ⟨e1, _⟩ := hmax m rfl
      rw [← e1, if_pos h1, if_neg]
      apply Nat.not_le_of_lt
      rcases hwit with h0 | ⟨m', b, hm', hb, hfb⟩
      · omega
      · simp only [Option.some.injEq] at hm'
        subst hm'
        rw [← hfb]; exact h3 b hb

/-- Soundness half of the decision (needs nothing about `thr`). -/
theorem scanResult_sound (thr : Nat → Nat) (minimum : Nat) (f : α → Nat)
    (s : Scan α) (hs : ScanOk f s) (a : α) (h : scanResult thr minimum s = some a) :
    ClearMajority thr minimum f a := by
  obtain ⟨upd, ctr, mc, sm, mv⟩ := s
  obtain ⟨hcnt, hnone, hmax, hle, hsec, hwit⟩ := hs
  simp only at hcnt hnone hmax hle hsec hwit
  unfold scanResult at h
  unfold ClearMajority
  simp only [] at h
  by_cases h1 : minimum ≤ mc
  · rw [if_pos h1] at h
    by_cases h2 : thr mc ≤ sm
    · rw [if_pos h2] at h; cases h
    · rw [if_neg h2] at h
      subst h
      obtain ⟨e1, _⟩ := hmax a rfl
      rw [e1]
      refine ⟨h1, by omega, fun b hb => ?_⟩
      have := hsec a rfl b hb
      omega
  · rw [if_neg h1] at h; cases h

theorem countOf_perm (now : Nat) {l₁ l₂ : List (Entry α)} (h : l₁.Perm l₂) (a : α) :
    countOf now l₁ a = countOf now l₂ a := by
  unfold countOf
  exact (h.filter _).length_eq

theorem countOf_filter_live (now : Nat) (l : List (Entry α)) (a : α) :
    countOf now (l.filter (fun e => decide (now < e.expiry))) a = countOf now l a := by
  unfold countOf
  rw [List.filter_filter]
  congr 1
  apply List.filter_congr
  intro e _
  by_cases h : now < e.expiry <;> simp [h]

theorem mostFrequent_sound (thr : Nat → Nat) (minimum now : Nat) (l : List (Entry α)) (a : α)
    (h : (mostFrequent thr minimum now l).2 = some a) :
    ClearMajority thr minimum (countOf now l) a :=
  scanResult_sound thr minimum _ _ (scan_final now l) a h

theorem mostFrequent_spec (thr : Nat → Nat) (hthr : ∀ n, thr n ≤ n) (minimum now : Nat)
    (l : List (Entry α)) (a : α) :
    (mostFrequent thr minimum now l).2 = some a ↔ ClearMajority thr minimum (countOf now l) a :=
  scanResult_spec thr hthr minimum _ _ (scan_final now l) a

omit [DecidableEq α] in
theorem clearMajority_congr {thr : Nat → Nat} {minimum : Nat} {f g : α → Nat} (h : ∀ b, f b = g b)
    (a : α) : ClearMajority thr minimum f a ↔ ClearMajority thr minimum g a := by
  have : f = g := funext h
  subst this; exact Iff.rfl

theorem option_eq_of_some_iff {β : Type} {x y : Option β} (h : ∀ a, x = some a ↔ y = some a) :
    x = y := by
  cases x with
  | none =>
    cases y with
    | none => rfl
    | some b => exact ((h b).2 rfl)
  | some a => exact ((h a).1 rfl).symm

theorem mostFrequent_perm (thr : Nat → Nat) (hthr : ∀ n, thr n ≤ n) (minimum now : Nat)
    {l₁ l₂ : List (Entry α)} (h : l₁.Perm l₂) :
    (mostFrequent thr minimum now l₁).2 = (mostFrequent thr minimum now l₂).2 ∧
    ((mostFrequent thr minimum now l₁).1).Perm (mostFrequent thr minimum now l₂).1 := by
  constructor
  · apply option_eq_of_some_iff
    intro a
    rw [mostFrequent_spec thr hthr, mostFrequent_spec thr hthr]
    exact clearMajority_congr (fun b => countOf_perm now h b) a
  · rw [mostFrequent_updated, mostFrequent_updated]
    exact h.filter _

/-! ## key uniqueness and history backing -/

omit [DecidableEq α] in
theorem keysNodup_filter (p : Entry α → Bool) {l : List (Entry α)} (h : KeysNodup l) :
    KeysNodup (l.filter p) := by
  unfold KeysNodup at *
  exact (List.filter_sublist.map _).nodup h

omit [DecidableEq α] in
theorem keysNodup_perm {l₁ l₂ : List (Entry α)} (hp : l₁.Perm l₂) (h : KeysNodup l₂) :
    KeysNodup l₁ := by
  unfold KeysNodup at *
  exact (hp.map _).symm.nodup h

omit [DecidableEq α] in
theorem keysNodup_mapInsert (l : List (Entry α)) (k : Nat) (a : α) (exp : Nat) (h : KeysNodup l) :
    KeysNodup (mapInsert l k a exp) := by
  unfold mapInsert
  have h1 := keysNodup_filter (fun e => e.voter != k) h
  unfold KeysNodup at *
  rw [List.map_append, List.nodup_append]
  refine ⟨h1, by simp, ?_⟩
  intro x hx y hy
  simp only [List.map_cons, List.map_nil, List.mem_singleton] at hy
  subst hy
  simp only [List.mem_map, List.mem_filter] at hx
  obtain ⟨e, ⟨_, he⟩, rfl⟩ := hx
  simpa using he

/-! ## Service side -/

/-- Every entry of a vote map is backed by a PONG of the history from that voter for that
address (`mk` is the address family of the map). -/
def Backed (mk : α → Sock α) (hist : List (Pong α)) (l : List (Entry α)) : Prop :=
  ∀ e, e ∈ l → ∃ q, q ∈ hist ∧ q.voter = e.voter ∧ q.sock = mk e.vote

/-- Invariant of the vote collection along a history. -/
structure VOk (minimum : Nat) (hist : List (Pong α)) (v : IpVote α) : Prop where
  k4 : KeysNodup v.v4
  k6 : KeysNodup v.v6
  b4 : Backed Sock.v4 hist v.v4
  b6 : Backed Sock.v6 hist v.v6
  hmin : v.minimum = minimum

/-- Invariant of the service state along a history. -/
def SOk (minimum : Nat) (hist : List (Pong α)) (s : Svc α) : Prop :=
  ∀ v, s.votes = some v → VOk minimum hist v

omit [DecidableEq α] in
theorem Backed.sub {mk : α → Sock α} {hist : List (Pong α)} {l l' : List (Entry α)}
    (hsub : ∀ e, e ∈ l' → e ∈ l) (h : Backed mk hist l) : Backed mk hist l' :=
  fun e he => h e (hsub e he)

omit [DecidableEq α] in
theorem Backed.mono {mk : α → Sock α} {hist hist' : List (Pong α)} {l : List (Entry α)}
    (hsub : ∀ q, q ∈ hist → q ∈ hist') (h : Backed mk hist l) : Backed mk hist' l :=
  fun e he => let ⟨q, hq, h1, h2⟩ := h e he; ⟨q, hsub q hq, h1, h2⟩

omit [DecidableEq α] in
theorem VOk.clearOld {minimum : Nat} {hist : List (Pong α)} {v : IpVote α} (h : VOk minimum hist v)
    (now : Nat) : VOk minimum hist (v.clearOld now) :=
  ⟨keysNodup_filter _ h.k4, keysNodup_filter _ h.k6,
   h.b4.sub (fun _ he => (List.mem_filter.1 he).1), h.b6.sub (fun _ he => (List.mem_filter.1 he).1),
   h.hmin⟩

omit [DecidableEq α] in
theorem backed_mapInsert {mk : α → Sock α} {hist : List (Pong α)} {l : List (Entry α)}
    (h : Backed mk hist l) (p : Pong α) (a : α) (exp : Nat) (hp : p.sock = mk a) :
    Backed mk (hist ++ [p]) (mapInsert l p.voter a exp) := by
  intro e he
  unfold mapInsert at he
  rw [List.mem_append] at he
  rcases he with he | he
  · obtain ⟨q, hq, h1, h2⟩ := h e (List.mem_filter.1 he).1
    exact ⟨q, List.mem_append.2 (Or.inl hq), h1, h2⟩
  · simp only [List.mem_singleton] at he
    subst he
    exact ⟨p, List.mem_append.2 (Or.inr (List.mem_singleton.2 rfl)), rfl, hp⟩

theorem VOk.insert {minimum : Nat} {hist : List (Pong α)} {v : IpVote α} (h : VOk minimum hist v)
    (p : Pong α) (now : Nat) : VOk minimum (hist ++ [p]) (v.insert now p.voter p.sock) := by
  have hm : ∀ q, q ∈ hist → q ∈ hist ++ [p] := fun q hq => List.mem_append.2 (Or.inl hq)
  unfold IpVote.insert
  cases hs : p.sock with
  | v4 a =>
    exact ⟨keysNodup_mapInsert _ _ _ _ h.k4, h.k6, backed_mapInsert h.b4 p a _ hs, h.b6.mono hm, h.hmin⟩
  | v6 a =>
    exact ⟨h.k4, keysNodup_mapInsert _ _ _ _ h.k6, h.b4.mono hm, backed_mapInsert h.b6 p a _ hs, h.hmin⟩

theorem VOk.majority {minimum : Nat} {hist : List (Pong α)} {v : IpVote α} (h : VOk minimum hist v)
    (thr : Nat → Nat) (now : Nat) {sh4 sh6 : List (Entry α) → List (Entry α)}
    (h4 : IsShuffle sh4) (h6 : IsShuffle sh6) :
    VOk minimum hist (v.majority thr now sh4 sh6).1 := by
  unfold IpVote.majority
  simp only []
  rw [mostFrequent_updated, mostFrequent_updated]
  refine ⟨keysNodup_filter _ (keysNodup_perm (h4 _) h.k4), keysNodup_filter _ (keysNodup_perm (h6 _) h.k6),
    h.b4.sub ?_, h.b6.sub ?_, h.hmin⟩
  · intro e he; exact (h4 _).mem_iff.1 (List.mem_filter.1 he).1
  · intro e he; exact (h6 _).mem_iff.1 (List.mem_filter.1 he).1

/-- What `majority` returned for IPv4 is a clear majority of the votes it leaves in the map. -/
theorem majority_post4 (thr : Nat → Nat) (v : IpVote α) (now : Nat)
    (sh4 sh6 : List (Entry α) → List (Entry α)) (a : α)
    (h : (v.majority thr now sh4 sh6).2.1 = some a) :
    ClearMajority thr (v.majority thr now sh4 sh6).1.minimum
      (countOf now (v.majority thr now sh4 sh6).1.v4) a := by
  unfold IpVote.majority at *
  simp only [] at *
  rw [mostFrequent_updated]
  exact (clearMajority_congr (fun b => countOf_filter_live now _ b) a).2 (mostFrequent_sound _ _ _ _ a h)

theorem majority_post6 (thr : Nat → Nat) (v : IpVote α) (now : Nat)
    (sh4 sh6 : List (Entry α) → List (Entry α)) (a : α)
    (h : (v.majority thr now sh4 sh6).2.2 = some a) :
    ClearMajority thr (v.majority thr now sh4 sh6).1.minimum
      (countOf now (v.majority thr now sh4 sh6).1.v6) a := by
  unfold IpVote.majority at *
  simp only [] at *
  rw [mostFrequent_updated]
  exact (clearMajority_congr (fun b => countOf_filter_live now _ b) a).2 (mostFrequent_sound _ _ _ _ a h)

/-- The three outcomes of the record update. -/
theorem updateRecord_cases (s : Svc α) (sock : Sock α) (m4 m6 : Option α) (setOk : Bool) :
    updateRecord s sock m4 m6 setOk = (s, []) ∨
    (∃ x a, sock = .v4 x ∧ m4 = some a ∧ s.enr.ip4 ≠ some a ∧
      updateRecord s sock m4 m6 setOk =
        ({ s with enr := { s.enr with ip4 := some a, seq := s.enr.seq + 1 } }, [Ev.socketUpdated (.v4 a)])) ∨
    (∃ x a, sock = .v6 x ∧ m6 = some a ∧ s.enr.ip6 ≠ some a ∧
      updateRecord s sock m4 m6 setOk =
        ({ s with enr := { s.enr with ip6 := some a, seq := s.enr.seq + 1 } }, [Ev.socketUpdated (.v6 a)])) := by
  cases sock with
  | v4 x =>
    cases m4 with
    | none => left; rfl
    | some a =>
      by_cases heq : some a = s.enr.ip4
      · left; simp [updateRecord, heq.symm]
      · have hne : some a ≠ s.enr.ip4 := heq
        cases setOk with
        | false => left; simp [updateRecord, hne]
        | true =>
          right; left
          exact ⟨x, a, rfl, rfl, fun h => hne h.symm, by simp [updateRecord, hne]⟩
  | v6 x =>
    cases m6 with
    | none => left; rfl
    | some a =>
      by_cases heq : some a = s.enr.ip6
      · left; simp [updateRecord, heq.symm]
      · have hne : some a ≠ s.enr.ip6 := heq
        cases setOk with
        | false => left; simp [updateRecord, hne]
        | true =>
          right; right
          exact ⟨x, a, rfl, rfl, fun h => hne h.symm, by simp [updateRecord, hne]⟩


/-- A step changed the IPv4 socket of the record to `a` (sequence number + 1, one event), and `a`
is a clear majority of the votes the step leaves in the IPv4 map (all unexpired at `now`). -/
def Changed4 (thr : Nat → Nat) (now : Nat) (s s' : Svc α) (evs : List (Ev α)) (a : α) : Prop :=
  ∃ v', s'.votes = some v' ∧ ClearMajority thr v'.minimum (countOf now v'.v4) a ∧
    s.enr.ip4 ≠ some a ∧ s'.enr = { s.enr with ip4 := some a, seq := s.enr.seq + 1 } ∧
    evs = [Ev.socketUpdated (.v4 a)]

/-- Same for the IPv6 socket. -/
def Changed6 (thr : Nat → Nat) (now : Nat) (s s' : Svc α) (evs : List (Ev α)) (a : α) : Prop :=
  ∃ v', s'.votes = some v' ∧ ClearMajority thr v'.minimum (countOf now v'.v6) a ∧
    s.enr.ip6 ≠ some a ∧ s'.enr = { s.enr with ip6 := some a, seq := s.enr.seq + 1 } ∧
    evs = [Ev.socketUpdated (.v6 a)]

theorem countVote_cases (thr : Nat → Nat) (s : Svc α) (v : IpVote α) (p : Pong α) :
    ((countVote thr s v p).1.enr = s.enr ∧ (countVote thr s v p).2 = []) ∨
    (∃ a, Changed4 thr p.tMaj s (countVote thr s v p).1 (countVote thr s v p).2 a) ∨
    (∃ a, Changed6 thr p.tMaj s (countVote thr s v p).1 (countVote thr s v p).2 a) := by
  unfold countVote
  simp only []
  generalize hv1 : v.insert p.tIns p.voter p.sock = v1
  rcases updateRecord_cases { s with votes := some (v1.majority thr p.tMaj p.sh4 p.sh6).1 } p.sock
      (v1.majority thr p.tMaj p.sh4 p.sh6).2.1 (v1.majority thr p.tMaj p.sh4 p.sh6).2.2 p.setOk with
    h | ⟨x, a, _, hm, hne, h⟩ | ⟨x, a, _, hm, hne, h⟩
  · left; rw [h]; exact ⟨rfl, rfl⟩
  · right; left
    rw [h]
    exact ⟨a, _, rfl, majority_post4 thr v1 p.tMaj p.sh4 p.sh6 a hm, hne, rfl, rfl⟩
  · right; right
    rw [h]
    exact ⟨a, _, rfl, majority_post6 thr v1 p.tMaj p.sh4 p.sh6 a hm, hne, rfl, rfl⟩

omit [DecidableEq α] in
theorem requireMore_enr (s : Svc α) (now : Nat) (b : Bool) : (requireMore s now b).1.enr = s.enr := by
  unfold requireMore
  split
  · rfl
  · split <;> rfl

/-- The outcomes of one PONG: record untouched and no event, or one of the two changes. -/
theorem pongStep_cases (thr : Nat → Nat) (s : Svc α) (p : Pong α) :
    ((pongStep thr s p).1.enr = s.enr ∧ (pongStep thr s p).2 = []) ∨
    (∃ a, Changed4 thr p.tMaj s (pongStep thr s p).1 (pongStep thr s p).2 a) ∨
    (∃ a, Changed6 thr p.tMaj s (pongStep thr s p).1 (pongStep thr s p).2 a) := by
  unfold pongStep
  split
  · left; exact ⟨rfl, rfl⟩
  · split
    · left; exact ⟨rfl, rfl⟩
    · simp only []
      split
      · left; exact ⟨requireMore_enr _ _ _, rfl⟩
      · split
        · left; exact ⟨requireMore_enr _ _ _, rfl⟩
        · rename_i v hv
          have he := requireMore_enr s p.tClear p.sock.isV6
          rcases countVote_cases thr (requireMore s p.tClear p.sock.isV6).1 v p with
            h | ⟨a, v', h1, h2, h3, h4, h5⟩ | ⟨a, v', h1, h2, h3, h4, h5⟩
          · left; rw [← he]; exact h
          · right; left
            rw [he] at h3 h4
            exact ⟨a, v', h1, h2, h3, h4, h5⟩
          · right; right
            rw [he] at h3 h4
            exact ⟨a, v', h1, h2, h3, h4, h5⟩

omit [DecidableEq α] in
theorem requireMore_ok {minimum : Nat} {hist : List (Pong α)} {s : Svc α} (h : SOk minimum hist s)
    (now : Nat) (b : Bool) : SOk minimum hist (requireMore s now b).1 := by
  unfold requireMore
  split
  · exact h
  · split
    · exact h
    · rename_i v hv
      intro v' hv'
      simp only [Option.some.injEq] at hv'
      subst hv'
      exact (h v hv).clearOld now

omit [DecidableEq α] in
theorem SOk.mono {minimum : Nat} {hist hist' : List (Pong α)} {s : Svc α}
    (hsub : ∀ q, q ∈ hist → q ∈ hist') (h : SOk minimum hist s) : SOk minimum hist' s :=
  fun v hv => let ⟨a, b, c, d, e⟩ := h v hv; ⟨a, b, c.mono hsub, d.mono hsub, e⟩

theorem updateRecord_votes (s : Svc α) (sock : Sock α) (m4 m6 : Option α) (setOk : Bool) :
    (updateRecord s sock m4 m6 setOk).1.votes = s.votes := by
  rcases updateRecord_cases s sock m4 m6 setOk with h | ⟨_, _, _, _, _, h⟩ | ⟨_, _, _, _, _, h⟩ <;> rw [h]

theorem pongStep_ok {minimum : Nat} {hist : List (Pong α)} {s : Svc α} (h : SOk minimum hist s)
    (thr : Nat → Nat) (p : Pong α) (hp : p.Valid) : SOk minimum (hist ++ [p]) (pongStep thr s p).1 := by
  have hm : ∀ q, q ∈ hist → q ∈ hist ++ [p] := fun q hq => List.mem_append.2 (Or.inl hq)
  unfold pongStep
  split
  · exact h.mono hm
  · split
    · exact h.mono hm
    · simp only []
      have h1 := requireMore_ok h p.tClear p.sock.isV6
      split
      · exact h1.mono hm
      · split
        · exact h1.mono hm
        · rename_i v hv
          intro v' hv'
          unfold countVote at hv'
          simp only [] at hv'
          rw [updateRecord_votes] at hv'
          simp only [Option.some.injEq] at hv'
          subst hv'
          exact ((h1 v hv).insert p p.tIns).majority thr p.tMaj hp.1 hp.2

/-! ## Histories -/

/-- With one entry per voter, each backed by a PONG of the history, the tally of `a` is bounded
by any list of peers that contains everyone who ever voted for `a`. -/
theorem countOf_le_voters (mk : α → Sock α)
    (hist : List (Pong α)) (l : List (Entry α)) (hk : KeysNodup l)
    (hb : Backed mk hist l) (a : α) (voters : List Nat)
    (hv : ∀ q, q ∈ hist → q.sock = mk a → q.voter ∈ voters) (now : Nat) :
    countOf now l a ≤ voters.length := by
  unfold countOf
  rw [← List.length_map (f := fun e : Entry α => e.voter)]
  apply List.Nodup.length_le_of_subset
  · unfold KeysNodup at hk
    exact (List.filter_sublist.map _).nodup hk
  · intro x hx
    simp only [List.mem_map, List.mem_filter, Bool.and_eq_true, decide_eq_true_eq] at hx
    obtain ⟨e, ⟨he, _, hea⟩, rfl⟩ := hx
    obtain ⟨q, hq, h1, h2⟩ := hb e he
    rw [← h1]
    exact hv q hq (by rw [h2, hea])

omit [DecidableEq α] in
theorem fresh_ok {s : Svc α} {minimum : Nat} (h : s.Fresh minimum) : SOk minimum [] s := by
  intro v hv
  obtain ⟨h4, h6, hm⟩ := h v hv
  refine ⟨?_, ?_, ?_, ?_, hm⟩
  · rw [h4]; exact List.nodup_nil
  · rw [h6]; exact List.nodup_nil
  · rw [h4]; intro e he; cases he
  · rw [h6]; intro e he; cases he

theorem runPongs_nil (thr : Nat → Nat) (s : Svc α) : runPongs thr s [] = (s, []) := rfl

theorem runPongs_cons (thr : Nat → Nat) (s : Svc α) (p : Pong α) (ps : List (Pong α)) :
    runPongs thr s (p :: ps) =
      ((runPongs thr (pongStep thr s p).1 ps).1, (pongStep thr s p).2 ++ (runPongs thr (pongStep thr s p).1 ps).2) := rfl

theorem runPongs_ok (thr : Nat → Nat) (minimum : Nat) (ps : List (Pong α)) :
    ∀ (hist : List (Pong α)) (s : Svc α), SOk minimum hist s → (∀ q, q ∈ ps → q.Valid) →
      SOk minimum (hist ++ ps) (runPongs thr s ps).1 := by
  induction ps with
  | nil => intro hist s h _; rw [runPongs_nil, List.append_nil]; exact h
  | cons p ps ih =>
    intro hist s h hv
    rw [runPongs_cons]
    have h1 := pongStep_ok h thr p (hv p (List.mem_cons_self ..))
    have := ih (hist ++ [p]) _ h1 (fun q hq => hv q (List.mem_cons_of_mem _ hq))
    simpa using this

/-- One step cannot move the IPv4 socket to an address that fewer than `minimum` peers voted
for in the whole history (including this PONG). -/
theorem pongStep_few_liars4 (thr : Nat → Nat) (minimum : Nat) (hist : List (Pong α)) (s : Svc α)
    (h : SOk minimum hist s) (p : Pong α) (hp : p.Valid) (a : α) (liars : List Nat)
    (hl : ∀ q, q ∈ hist ++ [p] → q.sock = Sock.v4 a → q.voter ∈ liars)
    (hfew : liars.length < minimum) (hnew : (pongStep thr s p).1.enr.ip4 = some a) :
    s.enr.ip4 = some a := by
  have hok := pongStep_ok h thr p hp
  rcases pongStep_cases thr s p with ⟨he, _⟩ | ⟨b, v', hv', hcm, hne, he, _⟩ | ⟨b, v', hv', hcm, hne, he, _⟩
  · rw [← he]; exact hnew
  · rw [he] at hnew
    simp only [Option.some.injEq] at hnew
    subst hnew
    have hv := hok v' hv'
    have := countOf_le_voters Sock.v4 _ _ hv.k4 hv.b4 b liars hl p.tMaj
    have := hcm.1
    rw [hv.hmin] at this
    omega
  · rw [he] at hnew; exact hnew

theorem pongStep_few_liars6 (thr : Nat → Nat) (minimum : Nat) (hist : List (Pong α)) (s : Svc α)
    (h : SOk minimum hist s) (p : Pong α) (hp : p.Valid) (a : α) (liars : List Nat)
    (hl : ∀ q, q ∈ hist ++ [p] → q.sock = Sock.v6 a → q.voter ∈ liars)
    (hfew : liars.length < minimum) (hnew : (pongStep thr s p).1.enr.ip6 = some a) :
    s.enr.ip6 = some a := by
  have hok := pongStep_ok h thr p hp
  rcases pongStep_cases thr s p with ⟨he, _⟩ | ⟨b, v', hv', hcm, hne, he, _⟩ | ⟨b, v', hv', hcm, hne, he, _⟩
  · rw [← he]; exact hnew
  · rw [he] at hnew; exact hnew
  · rw [he] at hnew
    simp only [Option.some.injEq] at hnew
    subst hnew
    have hv := hok v' hv'
    have := countOf_le_voters Sock.v6 _ _ hv.k6 hv.b6 b liars hl p.tMaj
    have := hcm.1
    rw [hv.hmin] at this
    omega

theorem runPongs_few_liars4 (thr : Nat → Nat) (minimum : Nat) (a : α) (liars : List Nat)
    (hfew : liars.length < minimum) (ps : List (Pong α)) :
    ∀ (hist : List (Pong α)) (s : Svc α), SOk minimum hist s → (∀ q, q ∈ ps → q.Valid) →
      (∀ q, q ∈ hist ++ ps → q.sock = Sock.v4 a → q.voter ∈ liars) →
      (runPongs thr s ps).1.enr.ip4 = some a → s.enr.ip4 = some a := by
  induction ps with
  | nil => intro hist s _ _ _ h; exact h
  | cons p ps ih =>
    intro hist s h hv hl hnew
    rw [runPongs_cons] at hnew
    have hp := hv p (List.mem_cons_self ..)
    have h1 := pongStep_ok h thr p hp
    have h2 := ih (hist ++ [p]) _ h1 (fun q hq => hv q (List.mem_cons_of_mem _ hq))
      (fun q hq => hl q (by simpa using hq)) hnew
    exact pongStep_few_liars4 thr minimum hist s h p hp a liars
      (fun q hq => hl q (by
        rcases List.mem_append.1 hq with hq | hq
        · exact List.mem_append.2 (Or.inl hq)
        · rw [List.mem_singleton.1 hq]; exact List.mem_append.2 (Or.inr (List.mem_cons_self ..))))
      hfew h2

theorem runPongs_few_liars6 (thr : Nat → Nat) (minimum : Nat) (a : α) (liars : List Nat)
    (hfew : liars.length < minimum) (ps : List (Pong α)) :
    ∀ (hist : List (Pong α)) (s : Svc α), SOk minimum hist s → (∀ q, q ∈ ps → q.Valid) →
      (∀ q, q ∈ hist ++ ps → q.sock = Sock.v6 a → q.voter ∈ liars) →
      (runPongs thr s ps).1.enr.ip6 = some a → s.enr.ip6 = some a := by
  induction ps with
  | nil => intro hist s _ _ _ h; exact h
  | cons p ps ih =>
    intro hist s h hv hl hnew
    rw [runPongs_cons] at hnew
    have hp := hv p (List.mem_cons_self ..)
    have h1 := pongStep_ok h thr p hp
    have h2 := ih (hist ++ [p]) _ h1 (fun q hq => hv q (List.mem_cons_of_mem _ hq))
      (fun q hq => hl q (by simpa using hq)) hnew
    exact pongStep_few_liars6 thr minimum hist s h p hp a liars
      (fun q hq => hl q (by
        rcases List.mem_append.1 hq with hq | hq
        · exact List.mem_append.2 (Or.inl hq)
        · rw [List.mem_singleton.1 hq]; exact List.mem_append.2 (Or.inr (List.mem_cons_self ..))))
      hfew h2

/-- Along any history the sequence number grows by exactly the number of announced changes. -/
theorem runPongs_seq (thr : Nat → Nat) (ps : List (Pong α)) :
    ∀ s : Svc α, (runPongs thr s ps).1.enr.seq = s.enr.seq + (runPongs thr s ps).2.length := by
  induction ps with
  | nil => intro s; rfl
  | cons p ps ih =>
    intro s
    rw [runPongs_cons]
    simp only [List.length_append]
    rw [ih]
    rcases pongStep_cases thr s p with ⟨he, hev⟩ | ⟨b, v', _, _, _, he, hev⟩ | ⟨b, v', _, _, _, he, hev⟩
    · rw [he, hev]; simp
    · rw [he, hev]; simp; omega
    · rw [he, hev]; simp; omega

end Discv5.IpVote

/-
Helper lemmas for the ipvote model (`Model/IpVote.lean`): rounding-error bounds of the binary64
mirror (`thrF64 n ≤ n`), the loop invariant of `filter_stale_find_most_frequent` (the single pass
computes the exact tally, the maximum and the best rival for every visiting order), and the
service-level invariants (one entry per voter, every entry backed by a PONG of the history).
Core Lean only.
-/
import Discv5Model.Model.IpVote

namespace Discv5.IpVote

/-! ## binary64 mirror -/

theorem rne_err (x d : Nat) (hd : 0 < d) (heven : d % 2 = 0) : 2 * (rne x d * d) ≤ 2 * x + d := by
  unfold rne
  simp only []
  have h := Nat.div_add_mod x d
  have hm := Nat.mod_lt x hd
  generalize x / d = q at *
  generalize x % d = r at *
  have hx : x = d * q + r := h.symm
  have e1 : (q + 1) * d = d * q + d := by rw [Nat.add_mul, Nat.mul_comm]; simp
  have e2 : q * d = d * q := Nat.mul_comm _ _
  by_cases h1 : 2 * r < d
  · rw [if_pos h1, e2]; omega
  · rw [if_neg h1]
    by_cases h2 : d < 2 * r
    · rw [if_pos h2, e1]; omega
    · rw [if_neg h2]
      by_cases h3 : q % 2 = 0
      · rw [if_pos h3, e2]; omega
      · rw [if_neg h3, e1]; omega

theorem rnd53_err (N : Nat) : 2 ^ 53 * rnd53 N ≤ (2 ^ 53 + 1) * N := by
  unfold rnd53
  by_cases h : N < 2 ^ 53
  · rw [if_pos h]; rw [Nat.add_mul]; omega
  · rw [if_neg h]
    simp only []
    have hN : N ≠ 0 := by intro h0; rw [h0] at h; exact h (by decide)
    have hlog : 2 ^ Nat.log2 N ≤ N := Nat.log2_self_le hN
    have h53 : 53 ≤ Nat.log2 N := by
      have : 2 ^ 53 ≤ N := Nat.le_of_not_lt h
      exact (Nat.le_log2 hN).2 this
    generalize hs : Nat.log2 N - 52 = s
    have hs1 : 1 ≤ s := by omega
    have hl : Nat.log2 N = 52 + s := by omega
    rw [hl, Nat.pow_add] at hlog
    have hd : 0 < 2 ^ s := Nat.two_pow_pos s
    have heven : 2 ^ s % 2 = 0 := by
      obtain ⟨t, rfl⟩ : ∃ t, s = t + 1 := ⟨s - 1, by omega⟩
      rw [Nat.pow_succ]; simp
    have he := rne_err N (2 ^ s) hd heven
    generalize rne N (2 ^ s) * 2 ^ s = R at *
    generalize 2 ^ s = D at *
    omega

/-- The threshold never exceeds its argument whenever the binary64 factor is at most
`2^106 / (2^53+1)^2` (just below one): two roundings cannot lift the product above `n`. -/
theorem thrWith_le (c : Nat × Nat) (hc : (2 ^ 53 + 1) * ((2 ^ 53 + 1) * c.1) ≤ 2 ^ 53 * (2 ^ 53 * 2 ^ c.2))
    (n : Nat) : thrWith c n ≤ n := by
  unfold thrWith
  have h1 := rnd53_err (rnd53 n * c.1)
  have h2 := rnd53_err n
  generalize rnd53 (rnd53 n * c.1) = R at *
  generalize rnd53 n = F at *
  generalize hD : 2 ^ c.2 = D at *
  generalize c.1 = m at *
  have hDpos : 0 < D := by rw [← hD]; exact Nat.two_pow_pos _
  -- 2^106 R ≤ (2^53+1)^2 n m ≤ 2^106 D n
  have a1 : 2 ^ 53 * (2 ^ 53 * R) ≤ 2 ^ 53 * ((2 ^ 53 + 1) * (F * m)) := Nat.mul_le_mul_left _ h1
  have a2 : 2 ^ 53 * ((2 ^ 53 + 1) * (F * m)) = (2 ^ 53 + 1) * ((2 ^ 53 * F) * m) := by
    simp only [Nat.mul_assoc, Nat.mul_left_comm]
  have a3 : (2 ^ 53 + 1) * ((2 ^ 53 * F) * m) ≤ (2 ^ 53 + 1) * (((2 ^ 53 + 1) * n) * m) :=
    Nat.mul_le_mul_left _ (Nat.mul_le_mul_right _ h2)
  have a4 : (2 ^ 53 + 1) * (((2 ^ 53 + 1) * n) * m) = n * ((2 ^ 53 + 1) * ((2 ^ 53 + 1) * m)) := by
    simp only [Nat.mul_assoc, Nat.mul_left_comm, Nat.mul_comm]
  have a5 : n * ((2 ^ 53 + 1) * ((2 ^ 53 + 1) * m)) ≤ n * (2 ^ 53 * (2 ^ 53 * D)) :=
    Nat.mul_le_mul_left _ hc
  have a6 : n * (2 ^ 53 * (2 ^ 53 * D)) = 2 ^ 53 * (2 ^ 53 * (n * D)) := by
    simp only [Nat.mul_assoc, Nat.mul_left_comm, Nat.mul_comm]
  have a7 : 2 ^ 53 * (2 ^ 53 * R) ≤ 2 ^ 53 * (2 ^ 53 * (n * D)) := by
    rw [a2] at a1; rw [a4] at a3; rw [a6] at a5
    exact Nat.le_trans a1 (Nat.le_trans a3 a5)
  have hR : R ≤ n * D :=
    Nat.le_of_mul_le_mul_left (Nat.le_of_mul_le_mul_left a7 (Nat.two_pow_pos 53)) (Nat.two_pow_pos 53)
  have hpow : 2 ^ (c.2 + 1) = 2 * D := by rw [Nat.pow_succ, hD, Nat.mul_comm]
  rw [hpow]
  apply Nat.le_of_lt_succ
  rw [Nat.div_lt_iff_lt_mul (by omega)]
  have : (n + 1) * (2 * D) = 2 * (n * D) + 2 * D := by
    rw [Nat.add_mul, Nat.mul_left_comm]; simp
  rw [Nat.succ_eq_add_one, this]
  omega

theorem thrF64_le (n : Nat) : thrF64 n ≤ n := by
  apply thrWith_le
  decide

/-! ## The single pass -/

variable {α : Type} [DecidableEq α]

theorem counterGet_set (c : List (α × Nat)) (a : α) (n : Nat) (b : α) :
    counterGet (counterSet c a n) b = if b = a then n else counterGet c b := by
  induction c with
  | nil =>
    simp only [counterSet, counterGet]
    by_cases h : a = b
    · rw [if_pos h, if_pos h.symm]
    · rw [if_neg h, if_neg (fun h' => h h'.symm)]
  | cons x rest ih =>
    obtain ⟨x1, x2⟩ := x
    simp only [counterSet]
    by_cases hx : x1 = a
    · rw [if_pos hx]
      simp only [counterGet]
      by_cases hb : b = a
      · rw [if_pos hb, if_pos (hx.trans hb.symm)]
      · rw [if_neg hb, if_neg (fun h' => hb (h'.symm.trans hx)), if_neg (fun h' => hb (h'.symm.trans hx))]
    · rw [if_neg hx]
      simp only [counterGet]
      by_cases hb : x1 = b
      · rw [if_pos hb, if_pos hb, if_neg (fun h' => hx (hb.trans h'))]
      · rw [if_neg hb, if_neg hb, ih]

/-- Invariant of the loop of `filter_stale_find_most_frequent` against the exact tally `f`
(`f b` = number of unexpired entries seen so far that vote for `b`). -/
structure ScanOk (f : α → Nat) (s : Scan α) : Prop where
  cnt : ∀ b, counterGet s.counter b = f b
  none_case : s.maxVote = none → (∀ b, f b = 0) ∧ s.maxCount = 0 ∧ s.secondMax = 0
  max_eq : ∀ m, s.maxVote = some m → f m = s.maxCount ∧ 1 ≤ s.maxCount
  le_max : ∀ b, f b ≤ s.maxCount
  le_second : ∀ m, s.maxVote = some m → ∀ b, b ≠ m → f b ≤ s.secondMax
  second_wit : s.secondMax = 0 ∨ ∃ m b, s.maxVote = some m ∧ b ≠ m ∧ f b = s.secondMax

theorem scanOk_init : ScanOk (fun _ : α => 0) ({} : Scan α) :=
  ⟨fun _ => rfl, fun _ => ⟨fun _ => rfl, rfl, rfl⟩, (fun _ h => by cases h), fun _ => Nat.le_refl _,
   (fun _ h => by cases h), Or.inl rfl⟩

theorem scanStep_stale (now : Nat) (s : Scan α) (e : Entry α) (h : e.expiry ≤ now) :
    scanStep now s e = s := by
  unfold scanStep; rw [if_pos h]

theorem scanStep_ok (now : Nat) (f : α → Nat) (s : Scan α) (e : Entry α) (hs : ScanOk f s)
    (hlive : now < e.expiry) :
    ScanOk (fun b => if b = e.vote then f b + 1 else f b) (scanStep now s e) := by
  obtain ⟨upd, ctr, mc, sm, mv⟩ := s
  obtain ⟨hcnt, hnone, hmax, hle, hsec, hwit⟩ := hs
  simp only at hcnt hnone hmax hle hsec hwit
  unfold scanStep
  rw [if_neg (by omega)]
  simp only []
  rw [hcnt]
  generalize hv : e.vote = v
  have hfv : ∀ b, b ≠ v → (if b = v then f b + 1 else f b) = f b := fun b hb => if_neg hb
  have hfvv : (if v = v then f v + 1 else f v) = f v + 1 := if_pos rfl
  have hc' : ∀ b, counterGet (counterSet ctr v (f v + 1)) b = if b = v then f b + 1 else f b := by
    intro b
    rw [counterGet_set]
    by_cases hb : b = v
    · rw [if_pos hb, if_pos hb, hb]
    · rw [if_neg hb, if_neg hb, hcnt]
  by_cases hA : mc < f v + 1
  · rw [if_pos hA]
    have hfveq : f v = mc := by have := hle v; omega
    refine ⟨hc', (fun h => by cases h), ?_, ?_, ?_, ?_⟩
    · intro m hm
      simp only [Option.some.injEq] at hm
      subst hm
      simp only []
      rw [if_pos True.intro]; omega
    · intro b
      simp only []
      by_cases hb : b = v
      · rw [if_pos hb, hb]; omega
      · rw [if_neg hb]; have := hle b; omega
    · intro m hm b hb
      simp only [Option.some.injEq] at hm
      subst hm
      simp only []
      rw [hfv b hb]
      cases mv with
      | none =>
        have := (hnone rfl).1 b
        omega
      | some m0 =>
        by_cases hm0 : m0 = v
        · subst hm0
          rw [if_neg (by simp)]
          exact hsec _ rfl b hb
        · rw [if_pos ⟨rfl, by simpa using hm0⟩]
          exact hle b
    · simp only []
      cases mv with
      | none =>
        left
        rw [if_neg (by simp)]
        exact (hnone rfl).2.2
      | some m0 =>
        by_cases hm0 : m0 = v
        · subst hm0
          rw [if_neg (by simp)]
          rcases hwit with h0 | ⟨m, b, hm, hb, hfb⟩
          · left; exact h0
          · right
            simp only [Option.some.injEq] at hm
            subst hm
            exact ⟨m0, b, rfl, hb, by rw [hfv b hb]; exact hfb⟩
        · rw [if_pos ⟨rfl, by simpa using hm0⟩]
          right
          exact ⟨v, m0, rfl, hm0, by rw [hfv m0 hm0]; exact (hmax m0 rfl).1⟩
  · rw [if_neg hA]
    -- the maximum is held by another vote
    cases mv with
    | none =>
      have := (hnone rfl).2.1
      omega
    | some m =>
      have hmv : m ≠ v := by
        intro h; subst h
        have := (hmax m rfl).1
        omega
      have hmv' : v ≠ m := fun h => hmv h.symm
      by_cases hB : sm < f v + 1 ∧ some v ≠ some m
      · rw [if_pos hB]
        refine ⟨hc', (fun h => by cases h), ?_, ?_, ?_, ?_⟩
        · intro m' hm'
          simp only [Option.some.injEq] at hm'
          subst hm'
          simp only []
          rw [hfv m hmv]
          exact hmax m rfl
        · intro b
          simp only []
          by_cases hb : b = v
          · rw [if_pos hb, hb]; omega
          · rw [if_neg hb]; exact hle b
        · intro m' hm' b hb
          simp only [Option.some.injEq] at hm'
          subst hm'
          simp only []
          by_cases hbv : b = v
          · rw [if_pos hbv, hbv]; omega
          · rw [if_neg hbv]
            have := hsec m rfl b hb
            omega
        · right
          exact ⟨m, v, rfl, hmv', by simp only []; rw [if_pos True.intro]⟩
      · rw [if_neg hB]
        have hsm : f v + 1 ≤ sm := by
          apply Nat.le_of_not_lt
          intro hlt
          exact hB ⟨hlt, by simpa using hmv'⟩
        refine ⟨hc', (fun h => by cases h), ?_, ?_, ?_, ?_⟩
        · intro m' hm'
          simp only [Option.some.injEq] at hm'
          subst hm'
          simp only []
          rw [hfv m hmv]
          exact hmax m rfl
        · intro b
          simp only []
          by_cases hb : b = v
          · rw [if_pos hb, hb]; omega
          · rw [if_neg hb]; exact hle b
        · intro m' hm' b hb
          simp only [Option.some.injEq] at hm'
          subst hm'
          simp only []
          by_cases hbv : b = v
          · rw [if_pos hbv, hbv]; omega
          · rw [if_neg hbv]
            exact hsec m rfl b hb
        · rcases hwit with h0 | ⟨m', b, hm', hb, hfb⟩
          · omega
          · right
            simp only [Option.some.injEq] at hm'
            subst hm'
            have hbv : b ≠ v := by
              intro h; subst h; omega
            exact ⟨m, b, rfl, hb, by simp only []; rw [hfv b hbv]; exact hfb⟩

theorem ScanOk.congr {f g : α → Nat} {s : Scan α} (h : ∀ b, f b = g b) (hs : ScanOk f s) :
    ScanOk g s := by
  have : f = g := funext h
  subst this; exact hs

theorem scanStep_updated (now : Nat) (s : Scan α) (e : Entry α) (hlive : now < e.expiry) :
    (scanStep now s e).updated = s.updated ++ [e] := by
  unfold scanStep
  rw [if_neg (by omega)]
  simp only []
  split
  · rfl
  · split <;> rfl

theorem countOf_nil (now : Nat) (a : α) : countOf now ([] : List (Entry α)) a = 0 := rfl

theorem countOf_cons_stale (now : Nat) (e : Entry α) (l : List (Entry α)) (a : α)
    (h : e.expiry ≤ now) : countOf now (e :: l) a = countOf now l a := by
  unfold countOf
  rw [List.filter_cons_of_neg]
  simp; omega

theorem countOf_cons_live (now : Nat) (e : Entry α) (l : List (Entry α)) (a : α)
    (h : now < e.expiry) :
    countOf now (e :: l) a = (if a = e.vote then 1 else 0) + countOf now l a := by
  unfold countOf
  by_cases ha : a = e.vote
  · rw [if_pos ha, List.filter_cons_of_pos (by simp [h, ha]), List.length_cons]; omega
  · rw [if_neg ha, List.filter_cons_of_neg (by simp [h]; exact fun h' => ha h'.symm)]; omega

theorem scan_fold (now : Nat) (l : List (Entry α)) :
    ∀ (f : α → Nat) (s : Scan α), ScanOk f s →
      ScanOk (fun b => f b + countOf now l b) (l.foldl (scanStep now) s) ∧
      (l.foldl (scanStep now) s).updated = s.updated ++ l.filter (fun e => decide (now < e.expiry)) := by
  induction l with
  | nil =>
    intro f s hs
    exact ⟨hs.congr (fun b => by simp [countOf_nil]), by simp⟩
  | cons e l ih =>
    intro f s hs
    rw [List.foldl_cons]
    by_cases hst : e.expiry ≤ now
    · rw [scanStep_stale now s e hst]
      obtain ⟨h1, h2⟩ := ih f s hs
      refine ⟨h1.congr (fun b => by rw [countOf_cons_stale now e l b hst]), ?_⟩
      rw [h2, List.filter_cons_of_neg (by simp; omega)]
    · have hlive : now < e.expiry := by omega
      obtain ⟨h1, h2⟩ := ih _ _ (scanStep_ok now f s e hs hlive)
      refine ⟨h1.congr (fun b => ?_), ?_⟩
      · rw [countOf_cons_live now e l b hlive]
        by_cases hb : b = e.vote
        · rw [if_pos hb, if_pos hb]; omega
        · rw [if_neg hb, if_neg hb]; omega
      · rw [h2, scanStep_updated now s e hlive, List.filter_cons_of_pos (by simp [hlive])]
        simp

/-- The loop computes the exact tally. -/
theorem scan_final (now : Nat) (l : List (Entry α)) :
    ScanOk (countOf now l) (l.foldl (scanStep now) {}) := by
  have := (scan_fold now l (fun _ => 0) {} scanOk_init).1
  exact this.congr (fun b => by simp)

theorem mostFrequent_updated (thr : Nat → Nat) (minimum now : Nat) (l : List (Entry α)) :
    (mostFrequent thr minimum now l).1 = l.filter (fun e => decide (now < e.expiry)) := by
  unfold mostFrequent
  simp only []
  rw [(scan_fold now l (fun _ => 0) {} scanOk_init).2]
  rfl

/-- Decision of the scan against an exact tally. -/
theorem scanResult_spec (thr : Nat → Nat) (hthr : ∀ n, thr n ≤ n) (minimum : Nat) (f : α → Nat)
    (s : Scan α) (hs : ScanOk f s) (a : α) :
    scanResult thr minimum s = some a ↔ ClearMajority thr minimum f a := by
  obtain ⟨upd, ctr, mc, sm, mv⟩ := s
  obtain ⟨hcnt, hnone, hmax, hle, hsec, hwit⟩ := hs
  simp only at hcnt hnone hmax hle hsec hwit
  unfold scanResult ClearMajority
  simp only []
  constructor
  · intro h
    by_cases h1 : minimum ≤ mc
    · rw [if_pos h1] at h
      by_cases h2 : thr mc ≤ sm
      · rw [if_pos h2] at h; cases h
      · rw [if_neg h2] at h
        subst h
        obtain ⟨e1, _⟩ := hmax a rfl
        rw [e1]
        refine ⟨h1, by omega, fun b hb => ?_⟩
        have := hsec a rfl b hb
        omega
    · rw [if_neg h1] at h; cases h
  · intro ⟨h1, h2, h3⟩
    have hta := hthr (f a)
    cases mv with
    | none =>
      have := (hnone rfl).1 a
      omega
    | some m =>
      have hm : m = a := by
        apply Classical.byContradiction
        intro hne
        have := h3 m hne
        have := (hmax m rfl).1
        have := hle a
        omega
      subst hm
      obtain ⟨e1, _⟩ := hmax m rfl
      rw [← e1, if_pos h1, if_neg]
      apply Nat.not_le_of_lt
      rcases hwit with h0 | ⟨m', b, hm', hb, hfb⟩
      · omega
      · simp only [Option.some.injEq] at hm'
        subst hm'
        rw [← hfb]; exact h3 b hb

end Discv5.IpVote

/-
Helper lemmas for C14 (served FINDNODE answers): the model's own `sort_unstable` + `dedup`
(`sortNat`, `dedupAdj`), the record list `nodesToSend` collects, the packet count of the split, and
a value predicate (`BVals` / `TVals`) that is preserved by the lazily applied pending nodes of
`nodes_by_distances`.  Everything lives in the sub-namespaces `Discv5.KB.Serve` / `Discv5.Svc.Serve`
so that it cannot collide with the helper files of the other service properties.
-/
import Discv5Model.Model.Service
import Discv5Model.Proofs.KBucketLemmas
import Discv5Model.Proofs.ClosestLemmas

namespace Discv5.KB.Serve

variable {V : Type} [DecidableEq V]

/-! ### value predicates: every stored and the pending value satisfies `P` -/

def BVals (P : V → Prop) (b : Bucket V) : Prop :=
  (∀ n ∈ b.nodes, P n.value) ∧ ∀ p, b.pending = some p → P p.node.value

def TVals (P : V → Prop) (t : Table V) : Prop := ∀ b ∈ t.buckets, BVals P b

omit [DecidableEq V] in
theorem bvals_empty (P : V → Prop) : BVals P ({} : Bucket V) := by
  constructor
  · intro n hn; cases hn
  · intro p hp; cases hp

theorem insert_vals {c : Cfg V} {now : Nat} {b : Bucket V} {node : Node V} {P : V → Prop}
    (h : BVals P b) (hn : P node.value) : BVals P (Bucket.insert c now b node).1 := by
  rcases insert_cases c now b node with ⟨h1, _⟩ | ⟨n0, hr, hpos, _, hp⟩ |
    ⟨_, hpos, hfull, hin, hpend, hshape⟩
  · rw [h1]; exact h
  · rw [hr]
    refine ⟨h.1, ?_⟩
    intro p hp; cases hp; exact hn
  · refine ⟨?_, fun p' hp' => h.2 p' (hpend p' hp').1⟩
    have hperm : (Bucket.insert c now b node).1.nodes.Perm (node :: b.nodes) := by
      rcases hshape with ⟨hc, h1, _⟩ | ⟨hc, p, hf, h1, _⟩ | ⟨hc, hf, h1, _⟩
      · rw [h1]; exact List.perm_append_singleton _ _
      · rw [h1]; exact insertAt_perm _ _ _
      · rw [h1]; exact List.perm_append_singleton _ _
    intro n hn'
    rcases List.mem_cons.1 (hperm.mem_iff.1 hn') with rfl | hn'
    · exact hn
    · exact h.1 n hn'

theorem applyPending_vals {c : Cfg V} {now tick : Nat} {b : Bucket V} {P : V → Prop}
    (h : BVals P b) : BVals P (b.applyPending c now tick).1 := by
  have hclear : BVals P { b with pending := none } := ⟨h.1, fun p hp => by cases hp⟩
  rcases applyPending_cases c now tick b with ⟨hr, _⟩ | ⟨p, _, _, hr⟩ |
    ⟨p, n0, rest, hp, _, hfull, hnodes, h0, hin, _, hpend, hshape⟩ | ⟨p, hp, _, hfull, hr, _⟩
  · rw [hr]; exact h
  · rw [hr]; exact hclear
  · refine ⟨?_, fun p' hp' => by rw [hpend] at hp'; cases hp'⟩
    intro n hn
    rcases List.mem_cons.1 (hshape.perm.mem_iff.1 hn) with rfl | hn
    · exact h.2 p hp
    · exact h.1 n (by rw [hnodes]; exact List.mem_cons_of_mem _ hn)
  · rw [hr]; exact insert_vals hclear (h.2 p hp)

omit [DecidableEq V] in
theorem TVals.bucket {P : V → Prop} {t : Table V} (h : TVals P t) (i : Nat) : BVals P (t.bucket i) := by
  unfold Table.bucket
  rw [List.getD_eq_getElem?_getD]
  cases hi : t.buckets[i]? with
  | none => exact bvals_empty P
  | some b => exact h b (List.mem_of_getElem? hi)

omit [DecidableEq V] in
theorem TVals.setBucket {P : V → Prop} {t : Table V} (h : TVals P t) (i : Nat) {b : Bucket V}
    (hb : BVals P b) : TVals P (t.setBucket i b) := by
  intro b' hb'
  unfold Table.setBucket at hb'
  simp only at hb'
  rcases List.mem_or_eq_of_mem_set hb' with h1 | h1
  · exact h b' h1
  · rw [h1]; exact hb

omit [DecidableEq V] in
theorem TVals.congr {P : V → Prop} {t t' : Table V} (h : TVals P t) (e : t'.buckets = t.buckets) :
    TVals P t' := by
  intro b hb
  rw [e] at hb
  exact h b hb

theorem applyForDistances_vals (c : Cfg V) (now m : Nat) {P : V → Prop} :
    ∀ (ds : List Nat) (t : Table V) (count : Nat), TVals P t →
      TVals P (applyForDistances c now m ds t count) := by
  intro ds
  induction ds with
  | nil => intro t count h; exact h
  | cons d ds ih =>
    intro t count h
    have hb : BVals P ((t.bucket (d - 1)).applyPending c now t.tick).1 :=
      applyPending_vals (h.bucket (d - 1))
    unfold applyForDistances
    simp only []
    cases hp : ((t.bucket (d - 1)).applyPending c now t.tick) with
    | mk b a =>
      rw [hp] at hb
      have hs : TVals P (t.setBucket (d - 1) b) := h.setBucket (d - 1) hb
      cases a with
      | none => exact ih _ count hs
      | some a =>
        simp only []
        have hs' : TVals P { t.setBucket (d - 1) b with applied := t.applied ++ [a] } :=
          hs.congr rfl
        split
        · exact hs'
        · exact ih _ _ hs'

omit [DecidableEq V] in
theorem nodesByDistances_length_le (c : Cfg V) (now : Nat) (t : Table V) (ds : List Nat) (m : Nat)
    (hm : 1 ≤ m) : (t.nodesByDistances c now ds m).2.length ≤ m := by
  unfold Table.nodesByDistances
  simp only []
  rw [collectUpTo_eq _ _ _ (by simp only [List.length_nil]; omega)]
  simp only [List.length_nil, List.nil_append, List.length_take]
  omega

/-- Every node `nodes_by_distances` returns carries a value satisfying `P` when all stored and
pending values of the table do. -/
theorem nodesByDistances_vals (c : Cfg V) (now : Nat) (t : Table V) (ds : List Nat) (m : Nat)
    (hm : 1 ≤ m) {P : V → Prop} (h : TVals P t) :
    ∀ n ∈ (t.nodesByDistances c now ds m).2, P n.value := by
  have hb : TVals P t.bump := h.congr rfl
  have ht := applyForDistances_vals c now m (validDistances ds) t.bump 0 hb
  intro n hn
  unfold Table.nodesByDistances at hn
  simp only [] at hn
  rw [collectUpTo_eq _ _ _ (by simp only [List.length_nil]; omega)] at hn
  simp only [List.nil_append] at hn
  have hn := List.mem_of_mem_take hn
  rw [List.mem_flatMap] at hn
  obtain ⟨d, _, hd⟩ := hn
  exact (ht.bucket (d - 1)).1 n hd

omit [DecidableEq V] in
theorem nodesByDistances_nil (c : Cfg V) (now : Nat) (t : Table V) (m : Nat) :
    (t.nodesByDistances c now [] m).2 = [] := by
  simp [Table.nodesByDistances, validDistances, collectUpTo]

end Discv5.KB.Serve

namespace Discv5.Svc.Serve
open Discv5.KB Discv5.KB.Serve Discv5.Svc.Svc

/-! ### `sort_unstable` + `dedup` -/

theorem mem_insertSorted {x y : Nat} {l : List Nat} : y ∈ insertSorted x l ↔ y = x ∨ y ∈ l := by
  induction l with
  | nil => simp [insertSorted]
  | cons z zs ih =>
    unfold insertSorted
    by_cases h : x ≤ z
    · rw [if_pos h]; simp
    · rw [if_neg h]
      simp only [List.mem_cons, ih]
      tauto

theorem insertSorted_sorted {x : Nat} {l : List Nat} (h : l.Pairwise (· ≤ ·)) :
    (insertSorted x l).Pairwise (· ≤ ·) := by
  induction l with
  | nil => simp [insertSorted]
  | cons z zs ih =>
    unfold insertSorted
    rw [List.pairwise_cons] at h
    by_cases hx : x ≤ z
    · rw [if_pos hx]
      refine List.Pairwise.cons ?_ (List.Pairwise.cons h.1 h.2)
      intro a ha
      rcases List.mem_cons.1 ha with rfl | ha
      · exact hx
      · exact Nat.le_trans hx (h.1 a ha)
    · rw [if_neg hx]
      refine List.Pairwise.cons ?_ (ih h.2)
      intro a ha
      rcases mem_insertSorted.1 ha with rfl | ha
      · omega
      · exact h.1 a ha

theorem mem_sortNat {y : Nat} {l : List Nat} : y ∈ sortNat l ↔ y ∈ l := by
  induction l with
  | nil => simp [sortNat]
  | cons x xs ih =>
    have : sortNat (x :: xs) = insertSorted x (sortNat xs) := rfl
    rw [this, mem_insertSorted, ih, List.mem_cons]

theorem sortNat_sorted (l : List Nat) : (sortNat l).Pairwise (· ≤ ·) := by
  induction l with
  | nil => simp [sortNat]
  | cons x xs ih =>
    have : sortNat (x :: xs) = insertSorted x (sortNat xs) := rfl
    rw [this]
    exact insertSorted_sorted ih

theorem mem_dedupAdj {y : Nat} (l : List Nat) : y ∈ dedupAdj l ↔ y ∈ l := by
  fun_induction dedupAdj l with
  | case1 => simp
  | case2 x => simp
  | case3 x z rest hxz ih =>
    have : x = z := by simpa using hxz
    subst this
    rw [ih]; simp
  | case4 x z rest hxz ih =>
    simp only [List.mem_cons] at ih ⊢
    rw [ih]

/-- After sorting, removing adjacent duplicates leaves a strictly increasing list. -/
theorem dedupAdj_sorted (l : List Nat) (h : l.Pairwise (· ≤ ·)) : (dedupAdj l).Pairwise (· < ·) := by
  fun_induction dedupAdj l with
  | case1 => simp
  | case2 x => simp
  | case3 x z rest hxz ih => exact ih (List.pairwise_cons.1 h).2
  | case4 x z rest hxz ih =>
    have hne : x ≠ z := by simpa using hxz
    rw [List.pairwise_cons] at h
    refine List.Pairwise.cons ?_ (ih h.2)
    intro a ha
    rw [mem_dedupAdj] at ha
    have h1 := h.1 z (by simp)
    have h2 : z ≤ a := by
      rcases List.mem_cons.1 ha with rfl | ha
      · exact Nat.le_refl _
      · exact (List.pairwise_cons.1 h.2).1 a ha
    omega

/-- The normalised distance list of a FINDNODE: strictly increasing (hence duplicate-free), with
the same members as the request. -/
theorem normDistances (ds : List Nat) :
    (dedupAdj (sortNat ds)).Pairwise (· < ·) ∧ ∀ d, d ∈ dedupAdj (sortNat ds) ↔ d ∈ ds :=
  ⟨dedupAdj_sorted _ (sortNat_sorted ds), fun d => by rw [mem_dedupAdj, mem_sortNat]⟩

theorem filter_ne_zero_of_pos {l : List Nat} (h : ∀ a ∈ l, 0 < a) : l.filter (· != 0) = l := by
  rw [List.filter_eq_self]
  intro a ha
  have := h a ha
  simp only [bne_iff_ne, ne_eq]
  omega

/-! ### `nodesToSend` -/

/-- The records `send_nodes_response` collects, in closed form. -/
theorem nodesToSend_snd (s : Svc) (requester : Nat) (ds : List Nat) :
    (s.nodesToSend requester ds).2 =
      (if ds.contains 0 then [s.localRec] else []) ++
      ((s.table.nodesByDistances s.cfg.kb s.now ((dedupAdj (sortNat ds)).filter (· != 0))
        s.cfg.maxNodesResponse).2.filter (fun n => n.key != requester)).map (·.value) := by
  obtain ⟨hs, hm⟩ := normDistances ds
  have hc : ds.contains 0 = decide (0 ∈ dedupAdj (sortNat ds)) := by
    rw [List.contains_eq_mem]
    exact decide_eq_decide.2 (hm 0).symm
  unfold nodesToSend
  rw [hc]
  generalize dedupAdj (sortNat ds) = D at hs
  cases D with
  | nil => simp [nodesByDistances_nil]
  | cons d rest =>
    rw [List.pairwise_cons] at hs
    cases d with
    | zero =>
      have hpos : ∀ a ∈ rest, 0 < a := hs.1
      have hf : (0 :: rest).filter (· != 0) = rest := by
        rw [List.filter_cons_of_neg (by simp)]
        exact filter_ne_zero_of_pos hpos
      rw [hf]
      simp only [List.mem_cons, true_or, decide_true, if_true]
      cases rest with
      | nil => simp [nodesByDistances_nil]
      | cons r rs => simp
    | succ k =>
      have hpos : ∀ a ∈ (k + 1) :: rest, 0 < a := by
        intro a ha
        rcases List.mem_cons.1 ha with rfl | ha
        · omega
        · have := hs.1 a ha; omega
      rw [filter_ne_zero_of_pos hpos]
      have h0 : ¬ (0 ∈ (k + 1) :: rest) := fun h => by have := hpos 0 h; omega
      simp [h0]

/-! ### number of packets -/

theorem split_fold_length (recs : List Rec) : ∀ st : SplitSt,
    (recs.foldl splitStep st).done.length ≤ st.done.length + recs.length := by
  induction recs with
  | nil => intro st; simp
  | cons r rest ih =>
    intro st
    rw [List.foldl_cons]
    refine Nat.le_trans (ih _) ?_
    unfold splitStep
    by_cases h : r.size + st.size < splitLimit
    · rw [if_pos h]; simp only [List.length_cons]; omega
    · rw [if_neg h]; simp only [List.length_append, List.length_cons, List.length_nil]; omega

/-- The split never produces more packets than records plus one. -/
theorem splitPackets_length_le (recs : List Rec) : (splitPackets recs).length ≤ recs.length + 1 := by
  unfold splitPackets
  have := split_fold_length recs {}
  simp only [List.length_append, List.length_cons, List.length_nil] at this ⊢
  omega

theorem nodesPackets_length_le (recs : List Rec) : (nodesPackets recs).1.length ≤ recs.length + 1 := by
  unfold nodesPackets
  by_cases h : recs.isEmpty
  · rw [if_pos h]; simp
  · rw [if_neg h]; exact splitPackets_length_le recs

end Discv5.Svc.Serve

/-
Helper lemmas for `Model/Lookup.lean`: the state of the running lookup is always the state of a
`Model/Query.lean` history (so every theorem about query histories applies to it), and the service
component of a composed step is a run of the service model on its own.
-/
import Discv5Model.Model.Lookup
import Discv5Model.Proofs.QueryLemmas

namespace Discv5.Lookup

open Discv5.KB
open Discv5.Svc
open Discv5.Svc.Svc
open Discv5.Query (runQ stepQ withConfig Variant runQ_append)

/-- The lookup's configuration under the static parameters `c`. -/
def qcfg (c : LCfg) (n : Nat) : Query.Config :=
  { parallelism := c.parallelism, numResults := n, peerTimeout := c.peerTimeout }

/-- `q` is the state a query reaches from its constructor along some history of `next` /
`on_success` / `on_failure` calls. -/
def IsHistory (c : LCfg) (q : Q) : Prop :=
  ∃ v n target known evs, q = runQ (withConfig v (qcfg c n) target known) evs

theorem IsHistory.init (c : LCfg) (v : Variant) (n target : Nat) (known : List (Nat × Bool)) :
    IsHistory c (withConfig v (qcfg c n) target known) := ⟨v, n, target, known, [], rfl⟩

theorem IsHistory.step {c : LCfg} {q : Q} (h : IsHistory c q) (ev : Query.Ev) : IsHistory c (stepQ q ev).1 := by
  obtain ⟨v, n, target, known, evs, rfl⟩ := h
  exact ⟨v, n, target, known, evs ++ [ev], by rw [runQ_append]; rfl⟩

theorem IsHistory.next {c : LCfg} {q : Q} (h : IsHistory c q) (now : Nat) :
    IsHistory c (Query.next q now).1 := h.step (.next now)

theorem IsHistory.onSuccess {c : LCfg} {q : Q} (h : IsHistory c q) (p : Nat) (closer : List (Nat × Bool)) :
    IsHistory c (Query.onSuccess q p closer) := h.step (.success p closer)

theorem IsHistory.onFailure {c : LCfg} {q : Q} (h : IsHistory c q) (p : Nat) :
    IsHistory c (Query.onFailure q p) := h.step (.failure p)

theorem IsHistory.applyEffect {c : LCfg} {q : Q} (h : IsHistory c q) (e : QEffect) :
    IsHistory c (applyEffect c q e) := by
  cases e with
  | success src kept => exact h.onSuccess _ _
  | failure p => exact h.onFailure _

/-- The configuration of a history is the one it was constructed with. -/
theorem IsHistory.parallelism {c : LCfg} {q : Q} (h : IsHistory c q) : q.cfg.parallelism = c.parallelism := by
  obtain ⟨v, n, target, known, evs, rfl⟩ := h
  rw [(Query.runQ_init_const v (qcfg c n) target known evs).1]; rfl

/-- In-flight requests of a history never exceed `max parallelism num_results`
(`Query.parallelism_bound` re-stated for the state itself). -/
theorem IsHistory.inflight {c : LCfg} {q : Q} (h : IsHistory c q) :
    q.peers.countP (fun e => e.state.isWaiting) ≤ max c.parallelism q.cfg.numResults := by
  obtain ⟨v, n, target, known, evs, rfl⟩ := h
  have hb := (Query.linv_reach v (qcfg c n) target known evs)
  have hwc := hb.wc
  have hbnd := hb.bnd
  rw [Query.runL_init_q] at hwc hbnd
  have hc := (Query.runQ_init_const v (qcfg c n) target known evs).1
  rw [hc] at hbnd ⊢
  have : Query.countW (runQ (withConfig v (qcfg c n) target known) evs).peers =
      (runQ (withConfig v (qcfg c n) target known) evs).peers.countP (fun e => e.state.isWaiting) := rfl
  rw [← this, ← hwc]
  exact hbnd

/-! ## Equations of `LSvc.step` -/

def newQ (c : LCfg) (target : Nat) (numResults : Option Nat) (qq : Svc.Query) : Q :=
  let known := qq.untrusted.map fun r => (r.id, c.pred r)
  match numResults with
  | none => Query.withConfig .closest
      { parallelism := c.parallelism, numResults := Consts.MAX_NODES_PER_BUCKET, peerTimeout := c.peerTimeout }
      target known
  | some n => Query.withConfig .predicate
      { parallelism := c.parallelism, numResults := n, peerTimeout := c.peerTimeout } target known

theorem step_lookup_running (c : LCfg) (now : Nat) (k : LSvc) (target : Nat) (n : Option Nat)
    (h : k.q.isSome = true) : k.step c now (.lookup target n) = (k, [], none) := by
  simp only [LSvc.step, h, if_true]

theorem step_lookup_empty (c : LCfg) (now : Nat) (k : LSvc) (target : Nat) (n : Option Nat)
    (h : k.q.isSome = false) (hs : (k.svc.startQuery target).query = none) :
    k.step c now (.lookup target n) = ({ svc := k.svc.startQuery target, q := none }, [], some []) := by
  simp only [LSvc.step, h, hs, Bool.false_eq_true, if_false]

theorem step_lookup_start (c : LCfg) (now : Nat) (k : LSvc) (target : Nat) (n : Option Nat) (qq : Svc.Query)
    (h : k.q.isSome = false) (hs : (k.svc.startQuery target).query = some qq) :
    k.step c now (.lookup target n) = pump now { svc := k.svc.startQuery target, q := some (newQ c target n qq) } := by
  simp only [LSvc.step, h, hs, newQ, Bool.false_eq_true, if_false]
  cases n <;> rfl

theorem step_svc (c : LCfg) (now : Nat) (k : LSvc) (o : Oracle) (inp : Input) :
    k.step c now (.svc o inp) =
      ((pump now { svc := (k.svc.step o inp).1, q := match k.q, effectOf k.svc inp with
          | some q, some e => some (applyEffect c q e)
          | q, _ => q }).1,
       (k.svc.step o inp).2 ++ (pump now { svc := (k.svc.step o inp).1, q := match k.q, effectOf k.svc inp with
          | some q, some e => some (applyEffect c q e)
          | q, _ => q }).2.1,
       (pump now { svc := (k.svc.step o inp).1, q := match k.q, effectOf k.svc inp with
          | some q, some e => some (applyEffect c q e)
          | q, _ => q }).2.2) := rfl

/-! ## `pumpLoop` -/

theorem pumpLoop_history (c : LCfg) (now : Nat) :
    ∀ (fuel : Nat) (s : Svc) (q : Q) (outs : List Out), IsHistory c q →
      ∀ q', (pumpLoop now fuel s q outs).2.1 = some q' → IsHistory c q' := by
  intro fuel
  induction fuel with
  | zero =>
    intro s q outs h q' hq
    simp only [pumpLoop] at hq
    cases hq; exact h
  | succ fuel ih =>
    intro s q outs h q' hq
    have hn := h.next now
    unfold pumpLoop at hq
    generalize Query.next q now = r at hq hn
    obtain ⟨q1, st⟩ := r
    cases st with
    | waiting op =>
      cases op with
      | none => simp only at hq; cases hq; exact hn
      | some p =>
        simp only at hq
        split at hq
        · exact ih _ _ _ (hn.onFailure p) q' hq
        · exact ih _ _ _ hn q' hq
    | waitingAtCapacity => simp only at hq; cases hq; exact hn
    | finished => simp only at hq; cases hq

/-- When the loop hands over a result no lookup remains. -/
theorem pumpLoop_result (now : Nat) :
    ∀ (fuel : Nat) (s : Svc) (q : Q) (outs : List Out) (found : List Rec),
      (pumpLoop now fuel s q outs).2.2.2 = some found → (pumpLoop now fuel s q outs).2.1 = none := by
  intro fuel
  induction fuel with
  | zero => intro s q outs found h; simp only [pumpLoop] at h; cases h
  | succ fuel ih =>
    intro s q outs found h
    unfold pumpLoop at h ⊢
    generalize Query.next q now = r at h ⊢
    obtain ⟨q1, st⟩ := r
    cases st with
    | waiting op =>
      cases op with
      | none => simp only at h; cases h
      | some p =>
        simp only at h ⊢
        split
        · rename_i he; rw [if_pos he] at h; exact ih _ _ _ found h
        · rename_i he; rw [if_neg he] at h; exact ih _ _ _ found h
    | waitingAtCapacity => simp only at h; cases h
    | finished => rfl

/-! ## Size of a result -/

theorem collect_length : ∀ (ids : List Nat) (s : Svc) (u found : List Rec),
    (collect s u ids found).2.length ≤ found.length + ids.length := by
  intro ids
  induction ids with
  | nil => intro s u found; simp [collect]
  | cons id ids ih =>
    intro s u found
    unfold collect
    split
    · rename_i i _
      split
      · rename_i r _
        have := ih s (swapRemove u i) (found ++ [r])
        simp only [List.length_append, List.length_cons, List.length_nil] at this ⊢
        omega
      · have := ih s u found
        simp only [List.length_cons]; omega
    · generalize s.findEnr id = z
      obtain ⟨s1, known⟩ := z
      cases known with
      | some r =>
        have := ih s1 u (found ++ [r])
        simp only [List.length_append, List.length_cons, List.length_nil] at this ⊢
        omega
      | none =>
        have := ih s1 u found
        simp only [List.length_cons]; omega

theorem finishLookup_length (s : Svc) (q : Q) : (finishLookup s q).2.length ≤ q.cfg.numResults := by
  unfold finishLookup
  have h := collect_length (Query.intoResult q) (s.step {} .queryFinished).1
    (match s.query with | some qq => qq.untrusted | none => []) []
  have hl : (Query.intoResult q).length ≤ q.cfg.numResults := by
    rw [Query.intoResult_length]; exact Nat.min_le_left _ _
  simp only [List.length_nil, Nat.zero_add] at h
  exact Nat.le_trans h hl

/-- The result the loop hands over has at most `num_results` records (of the configuration the
lookup was constructed with: `next` / `on_failure` do not change it). -/
theorem pumpLoop_result_length (now : Nat) :
    ∀ (fuel : Nat) (s : Svc) (q : Q) (outs : List Out) (found : List Rec),
      (pumpLoop now fuel s q outs).2.2.2 = some found → found.length ≤ q.cfg.numResults := by
  intro fuel
  induction fuel with
  | zero => intro s q outs found h; simp only [pumpLoop] at h; cases h
  | succ fuel ih =>
    intro s q outs found h
    have hc := (Query.next_const q now).1
    unfold pumpLoop at h
    generalize Query.next q now = r at h hc
    obtain ⟨q1, st⟩ := r
    simp only at hc
    cases st with
    | waiting op =>
      cases op with
      | none => simp only at h; cases h
      | some p =>
        simp only at h
        split at h
        · have := ih _ _ _ found h
          rw [(Query.onFailure_const q1 p).1, hc] at this; exact this
        · have := ih _ _ _ found h
          rw [hc] at this; exact this
    | waitingAtCapacity => simp only at h; cases h
    | finished =>
      simp only at h
      cases h
      rw [← hc]; exact finishLookup_length s q1

/-! ## The service component of a composed step is a run of the service model -/

/-- Inputs the service loop generates itself while it serves a lookup: a request for a peer the lookup
selected, the end of the lookup, a look-up of a record by id (`find_enr`, which is what the
`WhoAreYou` arm does to the state as well). -/
def IsInternal : Svc.Input → Prop
  | .queryEmit _ => True
  | .queryFinished => True
  | .whoAreYou _ _ => True
  | .startQuery _ => True
  | _ => False

def internalRun (s : Svc) (l : List Svc.Input) : Svc := (s.run (l.map fun i => (({} : Oracle), i))).1

theorem run_append_fst (s : Svc) (a b : List (Oracle × Svc.Input)) :
    (s.run (a ++ b)).1 = ((s.run a).1.run b).1 := by
  induction a generalizing s with
  | nil => rfl
  | cons p rest ih =>
    obtain ⟨o, i⟩ := p
    simp only [List.cons_append, Svc.run]
    exact ih _

theorem internalRun_append (s : Svc) (a b : List Svc.Input) :
    internalRun s (a ++ b) = internalRun (internalRun s a) b := by
  unfold internalRun
  rw [List.map_append, run_append_fst]

theorem internalRun_cons (s : Svc) (i : Svc.Input) (l : List Svc.Input) :
    internalRun s (i :: l) = internalRun (s.step {} i).1 l := rfl

theorem collect_internal : ∀ (ids : List Nat) (s : Svc) (u found : List Rec),
    ∃ l : List Svc.Input, (∀ i ∈ l, IsInternal i) ∧ (collect s u ids found).1 = internalRun s l := by
  intro ids
  induction ids with
  | nil => intro s u found; exact ⟨[], by simp, rfl⟩
  | cons id ids ih =>
    intro s u found
    unfold collect
    split
    · rename_i i _
      split
      · exact ih s _ _
      · exact ih s _ _
    · have h1 : (s.findEnr id).1 = (s.step {} (.whoAreYou id { v6 := false, sock := 0 })).1 := rfl
      generalize hz : s.findEnr id = z at h1
      obtain ⟨s1, known⟩ := z
      simp only at h1
      cases known with
      | some r =>
        obtain ⟨l, hl, he⟩ := ih s1 u (found ++ [r])
        refine ⟨.whoAreYou id { v6 := false, sock := 0 } :: l, ?_, ?_⟩
        · intro i hi
          cases hi with
          | head => trivial
          | tail _ h => exact hl i h
        · rw [internalRun_cons, ← h1]; exact he
      | none =>
        obtain ⟨l, hl, he⟩ := ih s1 u found
        refine ⟨.whoAreYou id { v6 := false, sock := 0 } :: l, ?_, ?_⟩
        · intro i hi
          cases hi with
          | head => trivial
          | tail _ h => exact hl i h
        · rw [internalRun_cons, ← h1]; exact he

theorem pumpLoop_internal (now : Nat) : ∀ (fuel : Nat) (s : Svc) (q : Q) (outs : List Out),
    ∃ l : List Svc.Input, (∀ i ∈ l, IsInternal i) ∧ (pumpLoop now fuel s q outs).1 = internalRun s l := by
  intro fuel
  induction fuel with
  | zero => intro s q outs; exact ⟨[], by simp, rfl⟩
  | succ fuel ih =>
    intro s q outs
    unfold pumpLoop
    generalize Query.next q now = r
    obtain ⟨q1, st⟩ := r
    cases st with
    | waiting op =>
      cases op with
      | none => exact ⟨[], by simp, rfl⟩
      | some p =>
        simp only
        have h1 : (s.sendRpcQuery p).1 = (s.step {} (.queryEmit p)).1 := rfl
        split
        · obtain ⟨l, hl, he⟩ := ih (s.sendRpcQuery p).1 (Query.onFailure q1 p) outs
          refine ⟨.queryEmit p :: l, ?_, ?_⟩
          · intro i hi
            cases hi with
            | head => trivial
            | tail _ h => exact hl i h
          · rw [internalRun_cons, ← h1]; exact he
        · obtain ⟨l, hl, he⟩ := ih (s.sendRpcQuery p).1 q1 (outs ++ (s.sendRpcQuery p).2)
          refine ⟨.queryEmit p :: l, ?_, ?_⟩
          · intro i hi
            cases hi with
            | head => trivial
            | tail _ h => exact hl i h
          · rw [internalRun_cons, ← h1]; exact he
    | waitingAtCapacity => exact ⟨[], by simp, rfl⟩
    | finished =>
      simp only
      unfold finishLookup
      obtain ⟨l, hl, he⟩ := collect_internal (Query.intoResult q1) (s.step {} .queryFinished).1
        (match s.query with | some qq => qq.untrusted | none => []) []
      refine ⟨.queryFinished :: l, ?_, ?_⟩
      · intro i hi
        cases hi with
        | head => trivial
        | tail _ h => exact hl i h
      · rw [internalRun_cons]; exact he

theorem pump_internal (now : Nat) (k : LSvc) :
    ∃ l : List Svc.Input, (∀ i ∈ l, IsInternal i) ∧ (pump now k).1.svc = internalRun k.svc l := by
  unfold pump
  cases hq : k.q with
  | none => exact ⟨[], by simp, rfl⟩
  | some q => exact pumpLoop_internal now _ k.svc q []

/-- A composed service step is the service step followed by inputs the service loop generates itself. -/
theorem step_svc_internal (c : LCfg) (now : Nat) (k : LSvc) (o : Oracle) (inp : Svc.Input) :
    ∃ l : List Svc.Input, (∀ i ∈ l, IsInternal i) ∧
      (k.step c now (.svc o inp)).1.svc = internalRun (k.svc.step o inp).1 l := by
  rw [step_svc]
  exact pump_internal now _

/-- Starting a lookup is a run of such inputs as well. -/
theorem step_lookup_internal (c : LCfg) (now : Nat) (k : LSvc) (target : Nat) (n : Option Nat) :
    ∃ l : List Svc.Input, (∀ i ∈ l, IsInternal i) ∧
      (k.step c now (.lookup target n)).1.svc = internalRun k.svc l := by
  cases hr : k.q.isSome with
  | true => rw [step_lookup_running c now k target n hr]; exact ⟨[], by simp, rfl⟩
  | false =>
    have h0 : k.svc.startQuery target = (k.svc.step {} (.startQuery target)).1 := rfl
    cases hs : (k.svc.startQuery target).query with
    | none =>
      rw [step_lookup_empty c now k target n hr hs]
      refine ⟨[.startQuery target], ?_, ?_⟩
      · intro i hi
        cases hi with
        | head => trivial
        | tail _ h => cases h
      · rw [internalRun_cons, ← h0]; rfl
    | some qq =>
      rw [step_lookup_start c now k target n qq hr hs]
      obtain ⟨l, hl, he⟩ := pump_internal now { svc := k.svc.startQuery target, q := some (newQ c target n qq) }
      refine ⟨.startQuery target :: l, ?_, ?_⟩
      · intro i hi
        cases hi with
        | head => trivial
        | tail _ h => exact hl i h
      · rw [internalRun_cons, ← h0]; exact he

end Discv5.Lookup

/- Helper lemmas for the packet codec model (C05). -/
import Discv5Model.Model.Packet
import Discv5Model.Proofs.BytesLemmas
namespace Discv5.Packet

theorem kindDecode_never_panics (recDec : Bytes → Option Bytes) (flag : UInt8) (auth : Bytes) :
    Kind.decode recDec flag auth ≠ .panic := by
  unfold Kind.decode
  split
  · split <;> simp
  · split
    · split
      · simp
      · rename_i h24
        have h24 : auth.length = 24 := by simpa using h24
        simp [slice, sliceFrom, h24, Consts.ID_NONCE_LENGTH]
    · split
      · split
        · simp
        · rename_i h34
          have h34 : 34 ≤ auth.length := by omega
          rw [slice_ok _ _ _ (by omega) (by omega), Res.ok_bind,
            index_ok _ _ (by omega), Res.ok_bind, index_ok _ _ (by omega), Res.ok_bind]
          simp only []
          split
          · simp
          · rename_i htot
            rw [sliceFrom_ok _ _ (by omega), Res.ok_bind,
              slice_ok _ _ _ (by omega) (by simp; omega), Res.ok_bind,
              slice_ok _ _ _ (by omega) (by simp; omega), Res.ok_bind]
            split
            · rw [sliceFrom_ok _ _ (by simp; omega), Res.ok_bind]
              split <;> simp
            · simp
      · simp




theorem kind_decode_encode (recDec : Bytes → Option Bytes) (k : Kind)
    (h : match k with
      | .message src => src.length = 32
      | .whoareyou idn seq => idn.length = 16 ∧ seq < 2 ^ 64
      | .handshake src sig eph record => src.length = 32 ∧ sig.length ≤ 255 ∧ eph.length ≤ 255 ∧
          (∀ r, record = some r → r ≠ [] ∧ recDec r = some r)) :
    Kind.decode recDec k.flag k.encode = .ok k := by
  cases k with
  | message src =>
    simp only at h
    simp [Kind.decode, Kind.flag, Kind.encode, h]
  | whoareyou idn seq =>
    obtain ⟨h1, h2⟩ := h
    have h3 : beNat (beBytes 8 seq) = seq := beNat_beBytes 8 seq (by simpa using h2)
    simp [Kind.decode, Kind.flag, Kind.encode, h1, slice, sliceFrom, Consts.ID_NONCE_LENGTH, h3]
  | handshake src sig eph record =>
    obtain ⟨h1, h2, h3, h4⟩ := h
    have hb1 : ∀ n, beBytes 1 n = [UInt8.ofNat (n % 256)] := by intro n; simp [beBytes]
    have hs : (UInt8.ofNat (sig.length % 256)).toNat = sig.length := by
      simp [UInt8.toNat_ofNat']; omega
    have he : (UInt8.ofNat (eph.length % 256)).toNat = eph.length := by
      simp [UInt8.toNat_ofNat']; omega
    unfold Kind.decode
    simp only [Kind.flag, Kind.encode, hb1]
    have hne1 : ¬ ((2 : UInt8) = 0) := by decide
    have hne2 : ¬ ((2 : UInt8) = 1) := by decide
    simp only [hne1, hne2, if_false, if_true]
    generalize hR : record.getD [] = R
    have hlen : (src ++ [UInt8.ofNat (sig.length % 256)] ++ [UInt8.ofNat (eph.length % 256)] ++ sig ++ eph ++ R).length
        = 34 + sig.length + eph.length + R.length := by simp [h1]; omega
    rw [if_neg (by rw [hlen]; omega)]
    rw [slice_ok _ _ _ (by omega) (by rw [hlen]; omega), Res.ok_bind,
      index_ok _ _ (by rw [hlen]; omega), Res.ok_bind, index_ok _ _ (by rw [hlen]; omega), Res.ok_bind]
    have i32 : (src ++ [UInt8.ofNat (sig.length % 256)] ++ [UInt8.ofNat (eph.length % 256)] ++ sig ++ eph ++ R)[32]'(by rw [hlen]; omega) = UInt8.ofNat (sig.length % 256) := by
      simp [h1]
    have i33 : (src ++ [UInt8.ofNat (sig.length % 256)] ++ [UInt8.ofNat (eph.length % 256)] ++ sig ++ eph ++ R)[33]'(by rw [hlen]; omega) = UInt8.ofNat (eph.length % 256) := by
      simp [h1]
    simp only [i32, i33, hs, he]
    rw [if_neg (by rw [hlen]; omega)]
    have hdrop : List.drop 34 (src ++ [UInt8.ofNat (sig.length % 256)] ++ [UInt8.ofNat (eph.length % 256)] ++ sig ++ eph ++ R) = sig ++ (eph ++ R) := by
      have : (src ++ [UInt8.ofNat (sig.length % 256)] ++ [UInt8.ofNat (eph.length % 256)]).length = 34 := by simp [h1]
      simp only [List.append_assoc] at this ⊢
      rw [← List.append_assoc src, ← List.append_assoc (src ++ _)]
      exact List.drop_left' (by simpa using this)
    rw [sliceFrom_ok _ _ (by rw [hlen]; omega), Res.ok_bind, hdrop,
      slice_ok _ _ _ (by omega) (by simp <;> omega), Res.ok_bind,
      slice_ok _ _ _ (by omega) (by simp <;> omega), Res.ok_bind]
    have t1 : List.take (sig.length - 0) (List.drop 0 (sig ++ (eph ++ R))) = sig := by simp
    have t2 : List.take (sig.length + eph.length - sig.length) (List.drop sig.length (sig ++ (eph ++ R))) = eph := by simp
    have t0 : List.take (32 - 0) (List.drop 0 (src ++ [UInt8.ofNat (sig.length % 256)] ++ [UInt8.ofNat (eph.length % 256)] ++ sig ++ eph ++ R)) = src := by
      simp only [List.append_assoc, Nat.sub_zero, List.drop_zero]
      exact List.take_left' h1
    rw [t0, t1, t2]
    cases record with
    | none =>
      simp at hR; subst hR
      simp
    | some r =>
      simp at hR; subst hR
      obtain ⟨hr1, hr2⟩ := h4 r rfl
      have : 0 < r.length := List.length_pos_iff.mpr hr1
      rw [if_pos (by simp <;> omega), sliceFrom_ok _ _ (by simp <;> omega), Res.ok_bind]
      have t3 : List.drop (sig.length + eph.length) (sig ++ (eph ++ r)) = r := by
        rw [← List.append_assoc]; exact List.drop_left' (by simp)
      rw [t3, hr2]

/-- `decode` on a datagram given by its parts. -/
theorem decode_parts (ks : KS) (recDec : Bytes → Option Bytes) (proto : Proto) (localId : Bytes)
    (iv nonce A msg : Bytes) (flag : UInt8)
    (hiv : iv.length = 16) (hn : nonce.length = 12) (hpid : proto.pid.length = 6)
    (hver : proto.ver.length = 2) (hA : A.length < 2 ^ 16)
    (hlo : 63 ≤ 16 + 23 + A.length + msg.length) (hhi : 16 + 23 + A.length + msg.length ≤ 1280) :
    decode ks recDec proto localId
      (iv ++ xorStream (ks (localId.take 16) iv) 0
        (proto.pid ++ proto.ver ++ [flag] ++ nonce ++ beBytes 2 A.length ++ A) ++ msg)
    = (do
        let kind ← Kind.decode recDec flag A
        if !msg.isEmpty && kind.isWhoareyou then .err .unknownPacket else
        .ok ({ iv := iv, nonce := nonce, kind := kind, message := msg },
             iv ++ (proto.pid ++ proto.ver ++ [flag] ++ nonce ++ beBytes 2 A.length) ++ A)) := by
  generalize hs : ks (localId.take 16) iv = s
  generalize hS : proto.pid ++ proto.ver ++ [flag] ++ nonce ++ beBytes 2 A.length = S
  have hSl : S.length = 23 := by subst hS; simp [hpid, hver, hn]
  rw [xorStream_append, hSl]
  generalize hX : xorStream s 0 S = X
  generalize hY : xorStream s (0 + 23) A = Y
  have hXl : X.length = 23 := by subst hX; simp [hSl]
  have hYl : Y.length = A.length := by subst hY; simp
  have hD : (iv ++ (X ++ Y) ++ msg).length = 16 + 23 + A.length + msg.length := by
    simp [hiv, hXl, hYl]; omega
  unfold decode
  simp only [Consts.MAX_PACKET_SIZE, Consts.MIN_PACKET_SIZE, Consts.IV_LENGTH,
    Consts.STATIC_HEADER_LENGTH, Consts.MESSAGE_NONCE_LENGTH]
  rw [if_neg (by rw [hD]; omega), if_neg (by rw [hD]; omega)]
  rw [slice_ok _ _ _ (by omega) (by rw [hD]; omega), Res.ok_bind,
    slice_ok _ _ _ (by omega) (by rw [hD]; omega), Res.ok_bind]
  have e1 : List.take (16 - 0) (List.drop 0 (iv ++ (X ++ Y) ++ msg)) = iv := by
    simp only [List.append_assoc, Nat.sub_zero, List.drop_zero]
    exact List.take_left' hiv
  have e2 : List.take (16 + 23 - 16) (List.drop 16 (iv ++ (X ++ Y) ++ msg)) = X := by
    simp only [List.append_assoc]
    rw [List.drop_left' hiv]
    exact List.take_left' hXl
  have inv1 : xorStream s 0 X = S := by rw [← hX]; simp
  have inv2 : xorStream s 23 Y = A := by rw [← hY]; simp
  rw [e1, e2, hs, inv1]
  rw [if_neg (by simp [hSl])]
  have hSeq : S = proto.pid ++ (proto.ver ++ ([flag] ++ (nonce ++ beBytes 2 A.length))) := by
    subst hS; simp
  rw [slice_ok _ _ _ (by omega) (by omega), Res.ok_bind]
  have s1 : List.take (6 - 0) (List.drop 0 S) = proto.pid := by
    rw [hSeq]; simp only [Nat.sub_zero, List.drop_zero]; exact List.take_left' hpid
  rw [s1, if_neg (by simp)]
  rw [slice_ok _ _ _ (by omega) (by omega), Res.ok_bind]
  have s2 : List.take (8 - 6) (List.drop 6 S) = proto.ver := by
    rw [hSeq, List.drop_left' hpid]; exact List.take_left' hver
  rw [s2, if_neg (by simp)]
  rw [index_ok _ _ (by omega), Res.ok_bind, slice_ok _ _ _ (by omega) (by omega), Res.ok_bind,
    sliceFrom_ok _ _ (by omega), Res.ok_bind]
  have s3 : S[8]'(by omega) = flag := by
    subst hS; simp [hpid, hver]
  have s4 : List.take (9 + 12 - 9) (List.drop 9 S) = nonce := by
    have : S = (proto.pid ++ proto.ver ++ [flag]) ++ (nonce ++ beBytes 2 A.length) := by
      subst hS; simp
    rw [this, List.drop_left' (by simp [hpid, hver])]; exact List.take_left' hn
  have s5 : List.drop (23 - 2) S = beBytes 2 A.length := by
    have : S = (proto.pid ++ proto.ver ++ [flag] ++ nonce) ++ beBytes 2 A.length := by
      subst hS; simp
    rw [this]; exact List.drop_left' (by simp [hpid, hver, hn])
  rw [s3, s4, s5, if_neg (by simp), beNat_beBytes 2 _ (by simpa using hA)]
  rw [sliceFrom_ok _ _ (by rw [hD]; omega), Res.ok_bind]
  have d1 : List.drop (16 + 23) (iv ++ (X ++ Y) ++ msg) = Y ++ msg := by
    have : iv ++ (X ++ Y) ++ msg = (iv ++ X) ++ (Y ++ msg) := by simp
    rw [this]; exact List.drop_left' (by simp [hiv, hXl])
  rw [d1, if_neg (by simp [hYl])]
  rw [slice_ok _ _ _ (by omega) (by rw [hD]; omega), Res.ok_bind]
  have d2 : List.take (16 + 23 + A.length - (16 + 23)) (List.drop (16 + 23) (iv ++ (X ++ Y) ++ msg)) = Y := by
    rw [d1, show 16 + 23 + A.length - (16 + 23) = A.length by omega]
    exact List.take_left' hYl
  rw [d2, hXl, inv2]
  have d3 : List.drop (16 + 23 + A.length) (iv ++ (X ++ Y) ++ msg) = msg := by
    have : iv ++ (X ++ Y) ++ msg = (iv ++ X ++ Y) ++ msg := by simp
    rw [this]; exact List.drop_left' (by simp [hiv, hXl, hYl]; omega)
  rw [sliceFrom_ok _ _ (by rw [hD]; omega), d3]
  rfl


/-- `decode` without the checked slices (all in range once the size window holds). -/
def decodeT (ks : KS) (recDec : Bytes → Option Bytes) (proto : Proto) (localId data : Bytes) :
    Res Err (Packet × Bytes) :=
  let iv := data.take 16
  let s := ks (localId.take 16) iv
  let sh := xorStream s 0 ((data.drop 16).take 23)
  if sh.take 6 ≠ proto.pid then .err .headerDecryptionFailed else
  if (sh.drop 6).take 2 ≠ proto.ver then .err .invalidVersion else
  let n := beNat (sh.drop 21)
  if n > data.length - 39 then .err .invalidAuthDataSize else
  let auth := xorStream s 23 ((data.drop 39).take n)
  match Kind.decode recDec (sh.getD 8 0) auth with
  | .ok kind =>
    if !(data.drop (39 + n)).isEmpty && kind.isWhoareyou then .err .unknownPacket else
    .ok ({ iv := iv, nonce := (sh.drop 9).take 12, kind := kind, message := data.drop (39 + n) },
         iv ++ sh ++ auth)
  | .err e => .err e
  | .panic => .panic

theorem decode_eq_decodeT (ks : KS) (recDec : Bytes → Option Bytes) (proto : Proto)
    (localId data : Bytes) (hmax : data.length ≤ 1280) (hmin : 63 ≤ data.length) :
    decode ks recDec proto localId data = decodeT ks recDec proto localId data := by
  unfold decode decodeT
  simp only [Consts.MAX_PACKET_SIZE, Consts.MIN_PACKET_SIZE, Consts.IV_LENGTH,
    Consts.STATIC_HEADER_LENGTH, Consts.MESSAGE_NONCE_LENGTH]
  rw [if_neg (by omega), if_neg (by omega)]
  rw [slice_ok _ _ _ (by omega) (by omega), Res.ok_bind,
    slice_ok _ _ _ (by omega) (by omega), Res.ok_bind]
  simp only [Nat.sub_zero, List.drop_zero, show 16 + 23 - 16 = 23 from rfl, show 16 + 23 = 39 from rfl,
    show 23 - 2 = 21 from rfl, show 9 + 12 - 9 = 12 from rfl, show 8 - 6 = 2 from rfl,
    show 9 + 12 = 21 from rfl]
  generalize hsh : xorStream (ks (List.take 16 localId) (List.take 16 data)) 0
      (List.take 23 (List.drop 16 data)) = sh
  have hlen : sh.length = 23 := by subst hsh; simp; omega
  have hl2 : (List.take 23 (List.drop 16 data)).length = 23 := by simp; omega
  rw [if_neg (by omega)]
  rw [slice_ok _ _ _ (by omega) (by omega), Res.ok_bind]
  simp only [Nat.sub_zero, List.drop_zero]
  split
  · rfl
  · rw [slice_ok _ _ _ (by omega) (by omega), Res.ok_bind]
    simp only [show 8 - 6 = 2 from rfl]
    split
    · rfl
    · rw [index_ok _ _ (by omega), Res.ok_bind, slice_ok _ _ _ (by omega) (by omega),
        Res.ok_bind, sliceFrom_ok _ _ (by omega), Res.ok_bind]
      rw [if_neg (by rw [List.length_drop, hlen]; omega)]
      rw [sliceFrom_ok _ _ (by omega), Res.ok_bind]
      simp only [List.length_drop]
      split
      · rfl
      · rename_i hsz
        rw [slice_ok _ _ _ (by omega) (by omega), Res.ok_bind, hl2]
        simp only [show ∀ n, 39 + n - 39 = n from fun n => by omega, show 21 - 9 = 12 from rfl]
        have hget : sh[8]'(by omega) = sh.getD 8 0 := by
          simp [List.getD, List.getElem?_eq_getElem (show 8 < sh.length by omega)]
        rw [hget]
        generalize Kind.decode recDec _ _ = k
        cases k with
        | panic => rfl
        | err e => rfl
        | ok kd =>
          rw [Res.ok_bind, sliceFrom_ok _ _ (by omega), Res.ok_bind]

end Discv5.Packet

namespace Discv5.Packet

/-- Inversion of `Kind.decode`. -/
theorem kind_decode_inv (recDec : Bytes → Option Bytes) (flag : UInt8) (auth : Bytes) (k : Kind)
    (h : Kind.decode recDec flag auth = .ok k) :
    flag = k.flag ∧ k.flag.toNat ≤ 2 ∧ k.AuthConsistent auth := by
  unfold Kind.decode at h
  by_cases hf0 : flag = 0
  · rw [if_pos hf0] at h
    by_cases hl : auth.length ≠ 32
    · rw [if_pos hl] at h; simp at h
    · rw [if_neg hl] at h
      simp only [Res.ok.injEq] at h
      subst h hf0
      exact ⟨rfl, by simp [Kind.flag], by omega, rfl⟩
  · rw [if_neg hf0] at h
    by_cases hf1 : flag = 1
    · rw [if_pos hf1] at h
      by_cases hl : auth.length ≠ 24
      · rw [if_pos hl] at h; simp at h
      · rw [if_neg hl] at h
        have hl : auth.length = 24 := by omega
        rw [slice_ok _ _ _ (by omega) (by simp [Consts.ID_NONCE_LENGTH]; omega), Res.ok_bind,
          sliceFrom_ok _ _ (by simp [Consts.ID_NONCE_LENGTH]; omega), Res.ok_bind] at h
        by_cases h8 : (List.drop Consts.ID_NONCE_LENGTH auth).length ≠ 8
        · rw [if_pos h8] at h; simp at h
        · rw [if_neg h8] at h
          by_cases h16 : (List.take (Consts.ID_NONCE_LENGTH - 0) (List.drop 0 auth)).length ≠ 16
          · rw [if_pos h16] at h; simp at h
          · rw [if_neg h16] at h
            simp only [Res.ok.injEq] at h
            subst h hf1
            exact ⟨rfl, by simp [Kind.flag], hl⟩
    · rw [if_neg hf1] at h
      by_cases hf2 : flag = 2
      · rw [if_pos hf2] at h
        by_cases h34 : auth.length < 34
        · rw [if_pos h34] at h; simp at h
        · rw [if_neg h34] at h
          rw [slice_ok _ _ _ (by omega) (by omega), Res.ok_bind,
            index_ok _ _ (by omega), Res.ok_bind, index_ok _ _ (by omega), Res.ok_bind] at h
          simp only [] at h
          by_cases htot : auth.length < 34 + ((auth[32]'(by omega)).toNat + (auth[33]'(by omega)).toNat)
          · rw [if_pos htot] at h; simp at h
          · rw [if_neg htot] at h
            rw [sliceFrom_ok _ _ (by omega), Res.ok_bind,
              slice_ok _ _ _ (by omega) (by simp <;> omega), Res.ok_bind,
              slice_ok _ _ _ (by omega) (by simp <;> omega), Res.ok_bind] at h
            have hs := (auth[32]'(by omega)).toNat_lt
            have he := (auth[33]'(by omega)).toNat_lt
            have key : ∀ r, k = Kind.handshake (List.take (32 - 0) (List.drop 0 auth))
                (List.take (auth[32].toNat - 0) (List.drop 0 (List.drop 34 auth)))
                (List.take (auth[32].toNat + auth[33].toNat - auth[32].toNat)
                  (List.drop auth[32].toNat (List.drop 34 auth))) r →
                flag = k.flag ∧ k.flag.toNat ≤ 2 ∧ k.AuthConsistent auth := by
              intro r hk
              subst hk hf2
              refine ⟨rfl, by simp [Kind.flag], ?_⟩
              simp only [Kind.AuthConsistent, List.length_take, List.length_drop]
              omega
            by_cases hrec : (List.drop 34 auth).length > auth[32].toNat + auth[33].toNat
            · rw [if_pos hrec, sliceFrom_ok _ _ (by omega), Res.ok_bind] at h
              cases hr : recDec (List.drop (auth[32].toNat + auth[33].toNat) (List.drop 34 auth)) with
              | none => rw [hr] at h; simp at h
              | some r =>
                rw [hr] at h
                simp only [Res.ok.injEq] at h
                exact key _ h.symm
            · rw [if_neg hrec] at h
              simp only [Res.ok.injEq] at h
              exact key _ h.symm
      · rw [if_neg hf2] at h; simp at h

end Discv5.Packet

/-
Helper lemmas for `Model/Connectivity.lean`: invariants of `Conn` under its three operations and the
frame of a service step whose oracle says "do not count this vote".
-/
import Discv5Model.Model.Connectivity
import Discv5Model.Proofs.ServiceVotes

namespace Discv5.Conn

open Discv5.KB
open Discv5.Svc
open Discv5.Svc.Svc
open Discv5.SvcVotes (Fr FrS Env votePong reachesVote step_fr handleResponse_vote)

theorem sockEvs_eq (outs : List Out) : sockEvs outs = SvcVotes.sockEvs outs := by
  unfold sockEvs SvcVotes.sockEvs
  congr 1

/-! ## `Conn` -/

/-- Nothing is ever awaited when the feature is off. -/
def Conn.Quiet (k : Conn) : Prop := k.duration = none → k.wait4 = none ∧ k.wait6 = none

/-- While a family is awaited, fewer than the required number of incoming sessions were seen. -/
def Conn.Counting (k : Conn) : Prop :=
  (k.wait4.isSome → k.cnt4 < required) ∧ (k.wait6.isSome → k.cnt6 < required)

theorem required_pos : 0 < required := by decide

theorem Conn.new_quiet (d : Option Nat) (inst : Nat) : (Conn.new d inst).Quiet := fun _ => ⟨rfl, rfl⟩

theorem Conn.new_counting (d : Option Nat) (inst : Nat) : (Conn.new d inst).Counting :=
  ⟨fun h => by simp [Conn.new] at h, fun h => by simp [Conn.new] at h⟩

theorem Conn.enrSocketUpdate_duration (k : Conn) (tok : Nat) (v6 : Bool) :
    (k.enrSocketUpdate tok v6).duration = k.duration := by
  unfold Conn.enrSocketUpdate
  cases h : k.duration with
  | none => simp [h]
  | some d => cases v6 <;> simp [h]

theorem Conn.receivedIncoming_duration (k : Conn) (v6 : Bool) :
    (k.receivedIncoming v6).duration = k.duration := by
  unfold Conn.receivedIncoming
  cases v6 <;> simp only [Bool.false_eq_true, if_false, if_true]
  · cases k.wait4 <;> simp only [] <;> try rfl
    split <;> rfl
  · cases k.wait6 <;> simp only [] <;> try rfl
    split <;> rfl

theorem Conn.fire_duration (k : Conn) (inst : Nat) (v6 : Bool) : (k.fire inst v6).duration = k.duration := by
  unfold Conn.fire; cases v6 <;> rfl

theorem Conn.enrSocketUpdate_quiet (k : Conn) (tok : Nat) (v6 : Bool) (h : k.Quiet) :
    (k.enrSocketUpdate tok v6).Quiet := by
  intro hd
  rw [Conn.enrSocketUpdate_duration] at hd
  unfold Conn.enrSocketUpdate
  rw [hd]
  exact h hd

theorem Conn.receivedIncoming_quiet (k : Conn) (v6 : Bool) (h : k.Quiet) :
    (k.receivedIncoming v6).Quiet := by
  intro hd
  rw [Conn.receivedIncoming_duration] at hd
  obtain ⟨h4, h6⟩ := h hd
  unfold Conn.receivedIncoming
  cases v6 <;> simp [h4, h6]

theorem Conn.fire_quiet (k : Conn) (inst : Nat) (v6 : Bool) (h : k.Quiet) : (k.fire inst v6).Quiet := by
  intro hd
  rw [Conn.fire_duration] at hd
  obtain ⟨h4, h6⟩ := h hd
  unfold Conn.fire
  cases v6 <;> simp [h4, h6]

theorem Conn.quiet_firing (k : Conn) (tok : Nat) (h : k.Quiet) (hd : k.duration = none) :
    k.firing tok = none := by
  obtain ⟨h4, h6⟩ := h hd
  simp [Conn.firing, Conn.due, h4, h6]

theorem Conn.enrSocketUpdate_counting (k : Conn) (tok : Nat) (v6 : Bool) (h : k.Counting) :
    (k.enrSocketUpdate tok v6).Counting := by
  unfold Conn.enrSocketUpdate
  cases k.duration with
  | none => exact h
  | some d =>
    cases v6
    · exact ⟨fun _ => required_pos, h.2⟩
    · exact ⟨h.1, fun _ => required_pos⟩

theorem Conn.receivedIncoming_counting (k : Conn) (v6 : Bool) (h : k.Counting) :
    (k.receivedIncoming v6).Counting := by
  unfold Conn.receivedIncoming
  cases v6 <;> simp only [Bool.false_eq_true, if_false, if_true]
  · cases hw : k.wait4 with
    | none => exact h
    | some d =>
      simp only []
      split
      · exact ⟨fun hh => by simp at hh, h.2⟩
      · rename_i hlt
        refine ⟨fun _ => by simp only []; omega, h.2⟩
  · cases hw : k.wait6 with
    | none => exact h
    | some d =>
      simp only []
      split
      · exact ⟨h.1, fun hh => by simp at hh⟩
      · rename_i hlt
        refine ⟨h.1, fun _ => by simp only []; omega⟩

theorem Conn.fire_counting (k : Conn) (inst : Nat) (v6 : Bool) (h : k.Counting) :
    (k.fire inst v6).Counting := by
  unfold Conn.fire
  cases v6
  · exact ⟨fun hh => by simp at hh, h.2⟩
  · exact ⟨h.1, fun hh => by simp at hh⟩

/-- A folded sequence of `enr_socket_update`s. -/
theorem Conn.foldUpdate_duration (tok : Nat) (evs : List Addr) (k : Conn) :
    (evs.foldl (fun c a => c.enrSocketUpdate tok a.v6) k).duration = k.duration := by
  induction evs generalizing k with
  | nil => rfl
  | cons a rest ih => simp only [List.foldl_cons]; rw [ih, Conn.enrSocketUpdate_duration]

theorem Conn.foldUpdate_quiet (tok : Nat) (evs : List Addr) (k : Conn) (h : k.Quiet) :
    (evs.foldl (fun c a => c.enrSocketUpdate tok a.v6) k).Quiet := by
  induction evs generalizing k with
  | nil => exact h
  | cons a rest ih => exact ih _ (Conn.enrSocketUpdate_quiet k tok a.v6 h)

theorem Conn.foldUpdate_counting (tok : Nat) (evs : List Addr) (k : Conn) (h : k.Counting) :
    (evs.foldl (fun c a => c.enrSocketUpdate tok a.v6) k).Counting := by
  induction evs generalizing k with
  | nil => exact h
  | cons a rest ih => exact ih _ (Conn.enrSocketUpdate_counting k tok a.v6 h)

theorem Conn.enrSocketUpdate_next (k : Conn) (tok : Nat) (v6 f : Bool) :
    (k.enrSocketUpdate tok v6).next f = k.next f := by
  unfold Conn.enrSocketUpdate Conn.next
  cases k.duration with
  | none => rfl
  | some d => cases v6 <;> cases f <;> rfl

theorem Conn.receivedIncoming_next (k : Conn) (v6 f : Bool) :
    (k.receivedIncoming v6).next f = k.next f := by
  unfold Conn.receivedIncoming Conn.next
  cases v6 <;> cases f <;> simp only [Bool.false_eq_true, if_false, if_true] <;>
    (split <;> first | rfl | (split <;> rfl))

theorem Conn.foldUpdate_next (tok : Nat) (evs : List Addr) (k : Conn) (f : Bool) :
    (evs.foldl (fun c a => c.enrSocketUpdate tok a.v6) k).next f = k.next f := by
  induction evs generalizing k with
  | nil => rfl
  | cons a rest ih => simp only [List.foldl_cons]; rw [ih, Conn.enrSocketUpdate_next]

/-- After a socket update of family `f` that family's timer runs until `tok + d`, counting from 0. -/
theorem Conn.enrSocketUpdate_arms (k : Conn) (tok d : Nat) (f : Bool) (hd : k.duration = some d) :
    (k.enrSocketUpdate tok f).wait f = some (tok + d) ∧ (k.enrSocketUpdate tok f).cnt f = 0 := by
  unfold Conn.enrSocketUpdate Conn.wait Conn.cnt
  rw [hd]
  cases f <;> simp

theorem Conn.enrSocketUpdate_other (k : Conn) (tok : Nat) (v6 f : Bool) (h : v6 ≠ f) :
    (k.enrSocketUpdate tok v6).wait f = k.wait f ∧ (k.enrSocketUpdate tok v6).cnt f = k.cnt f := by
  unfold Conn.enrSocketUpdate Conn.wait Conn.cnt
  cases k.duration with
  | none => exact ⟨rfl, rfl⟩
  | some d => cases v6 <;> cases f <;> first | exact absurd rfl h | exact ⟨rfl, rfl⟩

theorem Conn.foldUpdate_arms (tok d : Nat) (f : Bool) (evs : List Addr) (k : Conn)
    (hd : k.duration = some d) (hm : ∃ a ∈ evs, a.v6 = f) :
    (evs.foldl (fun c a => c.enrSocketUpdate tok a.v6) k).wait f = some (tok + d) ∧
    (evs.foldl (fun c a => c.enrSocketUpdate tok a.v6) k).cnt f = 0 := by
  induction evs generalizing k with
  | nil => obtain ⟨a, ha, _⟩ := hm; cases ha
  | cons a rest ih =>
    simp only [List.foldl_cons]
    have hd' : (k.enrSocketUpdate tok a.v6).duration = some d := by
      rw [Conn.enrSocketUpdate_duration]; exact hd
    by_cases hr : ∃ b ∈ rest, b.v6 = f
    · exact ih _ hd' hr
    · -- `a` is the last event of that family
      have ha : a.v6 = f := by
        obtain ⟨b, hb, hbf⟩ := hm
        cases hb with
        | head => exact hbf
        | tail _ hb' => exact absurd ⟨b, hb', hbf⟩ hr
      have hrest : ∀ (k' : Conn),
          (rest.foldl (fun c a => c.enrSocketUpdate tok a.v6) k').wait f = k'.wait f ∧
          (rest.foldl (fun c a => c.enrSocketUpdate tok a.v6) k').cnt f = k'.cnt f := by
        clear ih hd' hm
        induction rest with
        | nil => intro k'; exact ⟨rfl, rfl⟩
        | cons b rest' ih' =>
          intro k'
          simp only [List.foldl_cons]
          have hb : b.v6 ≠ f := fun h => hr ⟨b, List.mem_cons_self, h⟩
          have hr' : ¬ ∃ c ∈ rest', c.v6 = f := fun ⟨c, hc, hcf⟩ => hr ⟨c, List.mem_cons_of_mem _ hc, hcf⟩
          obtain ⟨h1, h2⟩ := ih' hr' (k'.enrSocketUpdate tok b.v6)
          obtain ⟨h3, h4⟩ := Conn.enrSocketUpdate_other k' tok b.v6 f hb
          exact ⟨h1.trans h3, h2.trans h4⟩
      obtain ⟨h1, h2⟩ := hrest (k.enrSocketUpdate tok a.v6)
      rw [ha] at h1 h2 ⊢
      obtain ⟨h3, h4⟩ := Conn.enrSocketUpdate_arms k tok d f hd
      exact ⟨h1.trans h3, h2.trans h4⟩

/-! ## The frame of a service step that may not count a vote -/

def env0 : Env := { tClear := 0, tIns := 0, tMaj := 0 }

theorem ipVote_uncounted (s : Svc) (o : Oracle) (peer : Nat) (h : o.countable = false) :
    s.ipVote o peer = (s, []) := by
  unfold ipVote
  simp [h]

/-- With `should_count_ip_vote` false a step neither touches the local record nor announces a new
socket - whatever the rest of the oracle says. -/
theorem step_uncounted_fr (s : Svc) (o : Oracle) (inp : Input) (h : o.countable = false) :
    Fr s (s.step o inp) := by
  by_cases hv : votePong s env0 inp = none
  · exact step_fr s o env0 inp hv
  · cases inp with
    | response peer addr id body =>
      cases body with
      | pong enrSeq observed =>
        have hr : reachesVote s peer addr id = true := by
          by_cases hr : reachesVote s peer addr id = true
          · exact hr
          · exfalso; apply hv
            show (if reachesVote s peer addr id then _ else none) = none
            rw [if_neg hr]
        obtain ⟨h1, h2, h3⟩ := handleResponse_vote s o peer addr id enrSeq observed hr
        rw [ipVote_uncounted _ o peer h] at h1 h2 h3
        have h0 := SvcVotes.removeActive_frs s id
        exact ⟨⟨h1.trans h0.cfg, h2.trans h0.loc⟩, h3⟩
      | nodes _ _ => exact absurd rfl hv
      | talk _ => exact absurd rfl hv
    | established _ _ _ => exact absurd rfl hv
    | request _ _ _ _ => exact absurd rfl hv
    | requestFailed _ => exact absurd rfl hv
    | unverifiable _ => exact absurd rfl hv
    | whoAreYou _ _ => exact absurd rfl hv
    | addEnr _ => exact absurd rfl hv
    | removeNode _ => exact absurd rfl hv
    | apiPing _ => exact absurd rfl hv
    | apiFindNode _ _ => exact absurd rfl hv
    | apiTalk _ _ _ => exact absurd rfl hv
    | startQuery _ => exact absurd rfl hv
    | queryEmit _ => exact absurd rfl hv
    | queryFinished => exact absurd rfl hv

/-- `ping_connected_peers` sends requests only: no event, hence no `SocketUpdated`, and the local
record stays. -/
theorem pingConnected_fr (s : Svc) : Fr s (pingConnected s) := by
  unfold pingConnected
  simp only
  generalize ((s.table.applyAll s.cfg.kb s.now).allNodes.filter (·.st.conn)).map (·.value) = peers
  have hs : FrS s { s with table := s.table.applyAll s.cfg.kb s.now } := ⟨rfl, rfl⟩
  generalize ({ s with table := s.table.applyAll s.cfg.kb s.now } : Svc) = s0 at hs
  suffices h : ∀ (peers : List Rec) (acc : Svc × List Out), Fr s acc →
      Fr s (peers.foldl (fun (acc : Svc × List Out) r =>
        let (s1, o) := acc.1.sendPing r false
        (s1, acc.2 ++ o)) acc) from h peers (s0, []) ⟨hs, rfl⟩
  intro peers
  induction peers with
  | nil => intro acc h; exact h
  | cons r rest ih =>
    intro acc h
    simp only [List.foldl_cons]
    apply ih
    have hp := SvcVotes.sendPing_fr acc.1 r false
    generalize acc.1.sendPing r false = y at hp ⊢
    obtain ⟨s1, o⟩ := y
    simp only
    refine ⟨h.st.trans hp.st, ?_⟩
    rw [SvcVotes.sockEvs_append, h.outs, hp.outs]; rfl

end Discv5.Conn

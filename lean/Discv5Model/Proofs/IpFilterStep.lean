/- C16 helper lemmas, part 5: composite per-bucket facts, replacing one bucket of the table,
the table filter in counting form. -/
import Discv5Model.Proofs.IpFilterOps
namespace Discv5.KB.Ip

/-! ### composite per-bucket facts -/

theorem good_applyPending (keyOf : Val → Nat) (mi pt now tick : Nat) (b : Bucket Val)
    (hg : Good keyOf b) : Good keyOf (b.applyPending (ipCfg mi pt) now tick).1 :=
  have hm := applyPending_mono (ipCfg mi pt) now tick b
  ⟨hm.ub hg.1, hm.vb hg.2.1,
    applyPending_NB mi pt now tick b hg.2.2 (pending_value_fresh keyOf b hg.1 hg.2.1)⟩

theorem good_updateStatus (keyOf : Val → Nat) (c : Cfg Val) (now tick : Nat) (b : Bucket Val) (key : Nat)
    (conn : Bool) (dir : Option Bool) (hg : Good keyOf b) :
    Good keyOf (b.updateStatus c now tick key conn dir).1 :=
  have hm := updateStatus_mono c now tick b key conn dir
  ⟨hm.ub hg.1, hm.vb hg.2.1, updateStatus_NB c now tick b key conn dir hg.2.2⟩

theorem good_remove (keyOf : Val → Nat) (mi pt now tick : Nat) (b : Bucket Val) (key : Nat)
    (hg : Good keyOf b) : Good keyOf (b.remove (ipCfg mi pt) now tick key).1 :=
  have hm := remove_mono (ipCfg mi pt) now tick b key
  ⟨hm.ub hg.1, hm.vb hg.2.1, remove_NB keyOf mi pt now tick b key hg.2.2 hg.1 hg.2.1⟩

theorem good_updateValue (keyOf : Val → Nat) (mi pt : Nat) (b : Bucket Val) (key : Nat) (v : Val)
    (hk : key = keyOf v) (hg : Good keyOf b) : Good keyOf (b.updateValue (ipCfg mi pt) key v).1 :=
  ⟨updateValue_UB _ b key v hg.1, (updateValue_ex _ b key v).vb hk hg.2.1,
    updateValue_NB keyOf mi pt b key v hg.2.2 hg.1 hg.2.1 hk⟩

theorem insert_ex (c : Cfg Val) (now : Nat) (b : Bucket Val) (node : Node Val) :
    MonoEx node.key node.value b (b.insert c now node).1 := by
  intro q hq
  have := insert_A c now b node q
  rw [hq] at this
  simpa [bit] using this

theorem insert_NB' (keyOf : Val → Nat) (mi pt now : Nat) (b : Bucket Val) (node : Node Val)
    (hg : Good keyOf b) (hk : node.key = keyOf node.value) (hpos : b.position node.key = none) :
    NB (b.insert (ipCfg mi pt) now node).1 := by
  apply insert_NB mi pt now b node hg.2.2
  intro n hn heq
  have h1 := ((VB_iff keyOf b).mp hg.2.1).1 n hn
  exact position_none b node.key hpos n hn (by rw [h1, heq, hk])

/-- The bucket-level effect of `insert_or_update` (after the pending node was applied). -/
def IouCase (mi pt now tick : Nat) (b1 : Bucket Val) (key : Nat) (v : Val) (st : Status) (pass : Bool)
    (b' : Bucket Val) : Prop :=
  (pass = false ∧ b' = (b1.remove (ipCfg mi pt) now tick key).1) ∨
  (pass = true ∧
    ((b1.position key = none ∧
        b' = (b1.insert (ipCfg mi pt) now { key := key, value := v, st := st, stamp := tick }).1) ∨
      b' = (b1.updateStatus (ipCfg mi pt) now tick key st.conn (some st.incoming)).1 ∨
      b' = ((b1.updateStatus (ipCfg mi pt) now tick key st.conn (some st.incoming)).1.updateValue
              (ipCfg mi pt) key v).1))

theorem iou_bucket (keyOf : Val → Nat) (mi pt now tick : Nat) (b1 : Bucket Val) (key : Nat) (v : Val)
    (st : Status) (pass : Bool) (b' : Bucket Val) (hg : Good keyOf b1) (hk : key = keyOf v)
    (h : IouCase mi pt now tick b1 key v st pass b') :
    MonoEx key v b1 b' ∧ NB b' ∧ (pass = false → Mono b1 b') := by
  rcases h with ⟨hp, rfl⟩ | ⟨hp, ⟨hpos, rfl⟩ | rfl | rfl⟩
  · have := remove_mono (ipCfg mi pt) now tick b1 key
    exact ⟨this.ex _ _, (good_remove keyOf mi pt now tick b1 key hg).2.2, fun _ => this⟩
  · refine ⟨insert_ex (ipCfg mi pt) now b1 { key := key, value := v, st := st, stamp := tick },
      insert_NB' keyOf mi pt now b1 { key := key, value := v, st := st, stamp := tick } hg hk hpos, fun h => ?_⟩
    rw [hp] at h; cases h
  · have := updateStatus_mono (ipCfg mi pt) now tick b1 key st.conn (some st.incoming)
    exact ⟨this.ex _ _, (good_updateStatus keyOf _ now tick b1 key _ _ hg).2.2,
      fun h => by rw [hp] at h; cases h⟩
  · have h1 := updateStatus_mono (ipCfg mi pt) now tick b1 key st.conn (some st.incoming)
    have hg2 := good_updateStatus keyOf (ipCfg mi pt) now tick b1 key st.conn (some st.incoming) hg
    exact ⟨(h1.ex _ _).trans (updateValue_ex _ _ key v), (good_updateValue keyOf mi pt _ key v hk hg2).2.2,
      fun h => by rw [hp] at h; cases h⟩

def UnCase (mi pt now tick : Nat) (b1 : Bucket Val) (key : Nat) (v : Val) (pass : Bool)
    (b' : Bucket Val) : Prop :=
  (pass = false ∧ b' = (b1.remove (ipCfg mi pt) now tick key).1) ∨
  (pass = true ∧
    (b' = (b1.updateValue (ipCfg mi pt) key v).1 ∨
     ∃ s, b' = ((b1.updateValue (ipCfg mi pt) key v).1.updateStatus (ipCfg mi pt) now tick key s none).1))

theorem un_bucket (keyOf : Val → Nat) (mi pt now tick : Nat) (b1 : Bucket Val) (key : Nat) (v : Val)
    (pass : Bool) (b' : Bucket Val) (hg : Good keyOf b1) (hk : key = keyOf v)
    (h : UnCase mi pt now tick b1 key v pass b') :
    MonoEx key v b1 b' ∧ NB b' ∧ (pass = false → Mono b1 b') := by
  rcases h with ⟨hp, rfl⟩ | ⟨hp, rfl | ⟨s, rfl⟩⟩
  · have := remove_mono (ipCfg mi pt) now tick b1 key
    exact ⟨this.ex _ _, (good_remove keyOf mi pt now tick b1 key hg).2.2, fun _ => this⟩
  · exact ⟨updateValue_ex _ _ key v, (good_updateValue keyOf mi pt _ key v hk hg).2.2,
      fun h => by rw [hp] at h; cases h⟩
  · have hg2 := good_updateValue keyOf mi pt b1 key v hk hg
    have h2 := updateStatus_mono (ipCfg mi pt) now tick (b1.updateValue (ipCfg mi pt) key v).1 key s none
    exact ⟨(updateValue_ex _ _ key v).trans (h2.ex _ _),
      (good_updateStatus keyOf _ now tick _ key _ _ hg2).2.2, fun h => by rw [hp] at h; cases h⟩


/-! ### replacing one bucket of the table -/

theorem ipInv_congr (t t' : Table Val) (h : t'.buckets = t.buckets) (hI : IpInv t) : IpInv t' := by
  rw [ipInv_iff] at hI ⊢
  unfold Table.bucket TW at hI ⊢
  rw [h]; exact hI

theorem vmk_congr (keyOf : Val → Nat) (t t' : Table Val) (h : t'.buckets = t.buckets)
    (hK : ValuesMatchKeys keyOf t) : ValuesMatchKeys keyOf t' := by
  unfold ValuesMatchKeys at hK ⊢
  rw [h]; exact hK

theorem bucket_of_set_self (t t' : Table Val) (i : Nat) (b' : Bucket Val)
    (hb : t'.buckets = t.buckets.set i b') (hi : i < t.buckets.length) : t'.bucket i = b' := by
  unfold Table.bucket; rw [hb]; simp [hi]

theorem bucket_of_set_ne (t t' : Table Val) (i j : Nat) (b' : Bucket Val)
    (hb : t'.buckets = t.buckets.set i b') (hij : j ≠ i) : t'.bucket j = t.bucket j := by
  unfold Table.bucket; rw [hb]
  simp only [List.getD_eq_getElem?_getD]
  rw [List.getElem?_set_ne (Ne.symm hij)]

theorem TW_of_set (p : KV) (t t' : Table Val) (i : Nat) (b' : Bucket Val)
    (hb : t'.buckets = t.buckets.set i b') (hi : i < t.buckets.length) :
    TW p t' + A p (t.bucket i) = TW p t + A p b' := by
  unfold TW; rw [hb]
  exact sum_map_set (A p) t.buckets i b' {} hi

theorem good_bucket (keyOf : Val → Nat) (c : Cfg Val) (t : Table Val) (hT : TInv c t) (hI : IpInv t)
    (hK : ValuesMatchKeys keyOf t) (i : Nat) : Good keyOf (t.bucket i) :=
  ⟨tinv_UB c t hT i, vmk_bucket keyOf t hK i, ((ipInv_iff t).mp hI).1 i⟩

theorem vmk_of_set (keyOf : Val → Nat) (t t' : Table Val) (i : Nat) (b' : Bucket Val)
    (hb : t'.buckets = t.buckets.set i b') (hK : ValuesMatchKeys keyOf t) (hv : VB keyOf b') :
    ValuesMatchKeys keyOf t' := by
  rw [vmk_iff] at hK ⊢
  intro b hbm
  rw [hb] at hbm
  rcases List.mem_or_eq_of_mem_set hbm with h | h
  · exact hK b h
  · rw [h]; exact hv

/-- A change of bucket `i` that adds nothing keeps both invariants. -/
theorem set_shrink (keyOf : Val → Nat) (t t' : Table Val) (i : Nat) (b' : Bucket Val)
    (hb : t'.buckets = t.buckets.set i b') (hI : IpInv t) (hK : ValuesMatchKeys keyOf t)
    (hrel : i < t.buckets.length → Mono (t.bucket i) b' ∧ NB b') :
    IpInv t' ∧ ValuesMatchKeys keyOf t' := by
  by_cases hi : i < t.buckets.length
  · obtain ⟨hm, hnb⟩ := hrel hi
    refine ⟨?_, vmk_of_set keyOf t t' i b' hb hK (hm.vb (vmk_bucket keyOf t hK i))⟩
    rw [ipInv_iff] at hI ⊢
    refine ⟨fun j => ?_, fun s => ?_⟩
    · by_cases hj : j = i
      · rw [hj, bucket_of_set_self t t' i b' hb hi]; exact hnb
      · rw [bucket_of_set_ne t t' i j b' hb hj]; exact hI.1 j
    · have h1 := TW_of_set (inS s) t t' i b' hb hi
      have h2 := hm (inS s)
      have h3 := hI.2 s
      omega
  · have : t'.buckets = t.buckets := by
      rw [hb, List.set_eq_of_length_le (Nat.le_of_not_lt hi)]
    exact ⟨ipInv_congr t t' this hI, vmk_congr keyOf t t' this hK⟩

/-- A change of bucket `i` that may add the value `v` under `key`: needs the table filter (or the
duplicate test) on the old table and key-uniqueness on the new one. -/
theorem set_add (keyOf : Val → Nat) (c : Cfg Val) (t t' : Table Val) (i : Nat) (b' : Bucket Val)
    (key : Nat) (v : Val) (hk : key = keyOf v)
    (hb : t'.buckets = t.buckets.set i b') (hI : IpInv t) (hK : ValuesMatchKeys keyOf t)
    (hT' : TInv c t')
    (hpass : ∀ s, v.subnet = some s →
      TW (fun k x => inS s k x && !valIs v k x) t < 10 ∨
      1 ≤ TW (fun k x => inS s k x && valIs v k x) t)
    (hrel : i < t.buckets.length → MonoEx key v (t.bucket i) b' ∧ NB b') :
    IpInv t' ∧ ValuesMatchKeys keyOf t' := by
  by_cases hi : i < t.buckets.length
  · obtain ⟨hm, hnb⟩ := hrel hi
    have hK' := vmk_of_set keyOf t t' i b' hb hK (hm.vb hk (vmk_bucket keyOf t hK i))
    refine ⟨?_, hK'⟩
    rw [ipInv_iff] at hI ⊢
    refine ⟨fun j => ?_, fun s => ?_⟩
    · by_cases hj : j = i
      · rw [hj, bucket_of_set_self t t' i b' hb hi]; exact hnb
      · rw [bucket_of_set_ne t t' i j b' hb hj]; exact hI.1 j
    · have h3 := hI.2 s
      by_cases hs : v.subnet = some s
      · have e' := TW_split (inS s) (valIs v) t'
        have e := TW_split (inS s) (valIs v) t
        have h1 := TW_of_set (fun k x => inS s k x && !valIs v k x) t t' i b' hb hi
        have h2 := hm (fun k x => inS s k x && !valIs v k x) (by simp [valIs])
        have h4 : TW (fun k x => inS s k x && valIs v k x) t' ≤ 1 :=
          Nat.le_trans (TW_mono_pred _ (valIs v) (fun k x h => by simp at h; simp [h.2]) t')
            (TW_val_le_one keyOf c t' hT' hK' v)
        rcases hpass s hs with h5 | h5 <;> omega
      · have h1 := TW_of_set (inS s) t t' i b' hb hi
        have h2 := hm (inS s) (by simp [inS, hs])
        omega
  · have : t'.buckets = t.buckets := by
      rw [hb, List.set_eq_of_length_le (Nat.le_of_not_lt hi)]
    exact ⟨ipInv_congr t t' this hI, vmk_congr keyOf t t' this hK⟩


/-! ### the table filter -/

theorem countP_tableValues (pv : Val → Bool) (t : Table Val) :
    t.tableValues.countP pv = TW (fun _ x => pv x) t := by
  unfold Table.tableValues TW
  induction t.buckets with
  | nil => rfl
  | cons b l ih =>
    rw [List.flatMap_cons, List.countP_append, ih, List.countP_append]
    simp only [List.map_cons, List.sum_cons]
    have h1 : List.countP pv b.values = W (fun _ x => pv x) b.nodes := by
      unfold Bucket.values W; rw [List.countP_map]; rfl
    unfold A
    rw [h1]
    cases b.pending with
    | none => simp
    | some p => simp [List.countP_cons, bit]



theorem subnetCount_filter_tableValues (s : Nat) (v : Val) (t : Table Val) :
    subnetCount s (t.tableValues.filter (· ≠ v)) = TW (fun k x => inS s k x && !valIs v k x) t := by
  unfold subnetCount
  rw [← List.countP_eq_length_filter, List.countP_filter, countP_tableValues]
  congr 1
  funext k x
  simp [inS, valIs]

theorem A_le_sum (p : KV) (l : List (Bucket Val)) (b : Bucket Val) (hb : b ∈ l) :
    A p b ≤ (l.map (A p)).sum := by
  induction l with
  | nil => cases hb
  | cons y l ih =>
    simp only [List.map_cons, List.sum_cons]
    rcases List.mem_cons.mp hb with h | h
    · rw [h]; omega
    · have := ih h; omega

theorem A_le_TW (p : KV) (t : Table Val) (b : Bucket Val) (hb : b ∈ t.buckets) : A p b ≤ TW p t :=
  A_le_sum p t.buckets b hb

theorem passes_spec (mi pt : Nat) (t : Table Val) (key : Nat) (v : Val)
    (h : Table.passesTableFilter (ipCfg mi pt) t key v = true) :
    ∀ s, v.subnet = some s →
      TW (fun k x => inS s k x && !valIs v k x) t < 10 ∨
      1 ≤ TW (fun k x => inS s k x && valIs v k x) t := by
  intro s hs
  unfold Table.passesTableFilter at h
  simp only [Bool.or_eq_true] at h
  rcases h with h | h
  · right
    split at h
    · rename_i i hi
      split at h
      · rename_i n hn
        have hv : n.value = v := by simpa using h
        have hmem := List.mem_of_find?_eq_some hn
        have hb : t.bucket i ∈ t.buckets := by
          rcases bucket_mem_or_empty t i with h1 | h1
          · exact h1
          · rw [h1] at hmem; cases hmem
        have h1 : 1 ≤ W (fun k x => inS s k x && valIs v k x) (t.bucket i).nodes :=
          W_pos_of_mem _ _ n hmem (by simp [inS, valIs, hv, hs])
        have h2 := A_le_TW (fun k x => inS s k x && valIs v k x) t _ hb
        unfold A at h2
        omega
      · cases h
    · cases h
  · left
    have h' : ipFilter 10 v t.tableValues = true := h
    unfold ipFilter at h'
    rw [hs] at h'
    simp only [] at h'
    rw [ipCountLoop_spec 10 v s _ 0 (by omega), subnetCount_filter_tableValues] at h'
    simpa using h'
end Discv5.KB.Ip

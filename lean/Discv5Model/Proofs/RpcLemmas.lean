/- Helper lemmas for the RPC message codec model (C06). -/
import Discv5Model.Model.Rpc
import Discv5Model.Proofs.RlpLemmas

namespace Discv5.Rpc
open Discv5.Rlp

theorem ite_err_eq_ok {α} {c : Prop} [Decidable c] {e : Err} {x : Res Err α} {a : α}
    (h : (if c then .err e else x) = .ok a) : ¬c ∧ x = .ok a := by
  by_cases hc : c
  · rw [if_pos hc] at h; simp at h
  · rw [if_neg hc] at h; exact ⟨hc, h⟩

theorem ite_err_ne_panic {α} {c : Prop} [Decidable c] {e : Err} {x : Res Err α}
    (h : x ≠ .panic) : (if c then .err e else x) ≠ .panic := by
  split
  · simp
  · exact h

theorem pow_256_8 : (256 : Nat) ^ 8 = 2 ^ 64 := by decide
theorem pow_256_2 : (256 : Nat) ^ 2 = 65536 := by decide

/-! ### layout of the field list -/

/-- An RLP list item: `list-header(payload length) ‖ payload`. -/
def rlpList (payload : Bytes) : Bytes := encodeHeader true payload.length ++ payload

/-- The NODES record list: `list-header(total record bytes) ‖ records`. -/
def nodesField (records : List Bytes) : Bytes :=
  encodeHeader true records.flatten.length ++ records.flatten

/-- The fields behind the request id. -/
def Body.tail : Body → Bytes
  | .ping enrSeq => encodeUint enrSeq
  | .pong enrSeq ip port => encodeUint enrSeq ++ encodeBytes ip.octets ++ encodeUint port
  | .findNode distances => encodeU64List distances
  | .nodes total records => encodeUint total ++ nodesField records
  | .talkReq protocol request => encodeBytes protocol ++ encodeBytes request
  | .talkResp response => encodeBytes response

theorem fields_eq (id : Bytes) (b : Body) : b.fields id = encodeBytes id ++ b.tail := by
  cases b with
  | ping s => rfl
  | pong s ip port => simp [Body.fields, Body.tail]
  | findNode ds => rfl
  | nodes total rs =>
    cases rs with
    | nil => simp [Body.fields, Body.tail, nodesField]
    | cons r rs => simp [Body.fields, Body.tail, nodesField]
  | talkReq p r => simp [Body.fields, Body.tail]
  | talkResp r => rfl

theorem encodeBytes_ne_nil (b : Bytes) : encodeBytes b ≠ [] :=
  List.length_pos_iff.mp (encodeBytes_length_pos b)

theorem tail_ne_nil (b : Body) : b.tail ≠ [] := by
  cases b with
  | ping s => exact encodeUint_ne_nil s
  | pong s ip port => simp [Body.tail, encodeUint_ne_nil]
  | findNode ds => simp [Body.tail, encodeU64List, encodeHeader_ne_nil]
  | nodes total rs => simp [Body.tail, encodeUint_ne_nil]
  | talkReq p r => simp [Body.tail, encodeBytes_ne_nil]
  | talkResp r => exact encodeBytes_ne_nil r

theorem encode_eq (m : Message) :
    encode m = frame m.body.msgType (encodeBytes m.id ++ m.body.tail) := by
  unfold encode; rw [fields_eq]

theorem frame_length (ty : UInt8) (l : Bytes) :
    (frame ty l).length = 1 + lengthOfLength l.length + l.length := by
  unfold frame; simp [encodeHeader_length]; omega

/-! ### the frame: type byte, outer list header, request id -/

theorem decode_frame (recDec : Bytes → Option Bytes) (ty : UInt8) (id tail : Bytes)
    (htail : tail ≠ []) (hsize : (encodeBytes id ++ tail).length < 2 ^ 64) :
    decode recDec (frame ty (encodeBytes id ++ tail)) =
      if id.length > 8 then .err .invalidIdLength else decodeBody recDec ty id tail := by
  have h1 := encodeBytes_length_pos id
  have h2 : 0 < tail.length := List.length_pos_iff.mpr htail
  have h3 := encodeBytes_length_ge id
  have hL : 2 ≤ (encodeBytes id ++ tail).length := by simp; omega
  have hH := encodeHeader_ne_nil true (encodeBytes id ++ tail).length
  have hH' : 0 < (encodeHeader true (encodeBytes id ++ tail).length).length :=
    List.length_pos_iff.mpr hH
  unfold decode frame
  simp only [Consts.RPC_MIN_LEN, Consts.RPC_MAX_ID_LEN]
  rw [if_neg (by simp only [List.length_cons, List.length_append] at hL hH' ⊢; omega)]
  rw [index_ok _ _ (by simp), Res.ok_bind, sliceFrom_ok _ _ (by simp), Res.ok_bind]
  simp only [List.drop_succ_cons, List.drop_zero]
  rw [Header.decode_encodeHeader true _ _ hsize (Nat.le_refl _) (by simp), Res.ok_bind]
  simp only [Bool.not_true, Bool.false_eq_true, if_false, ne_eq, not_true_eq_false]
  rw [decodeBytes_encodeBytes id tail (by simp only [List.length_append] at hsize; omega),
    Res.ok_bind]
  simp only [List.getElem_cons_zero]

/-- `decode ∘ encode` up to the request id, for every message value. -/
theorem decode_encode_eq (recDec : Bytes → Option Bytes) (id : Bytes) (b : Body)
    (hsize : (encode ⟨id, b⟩).length < 2 ^ 64) :
    decode recDec (encode ⟨id, b⟩) =
      if id.length > 8 then .err .invalidIdLength else decodeBody recDec b.msgType id b.tail := by
  rw [encode_eq, frame_length] at hsize
  rw [encode_eq]
  exact decode_frame recDec b.msgType id b.tail (tail_ne_nil b) (by dsimp only at hsize ⊢; omega)

theorem tail_size (id : Bytes) (b : Body) (hsize : (encode ⟨id, b⟩).length < 2 ^ 64) :
    b.tail.length < 2 ^ 64 := by
  rw [encode_eq, frame_length] at hsize
  simp only [List.length_append] at hsize
  omega

/-! ### IP addresses -/

theorem ipOfBytes_wf (ip : Ip) (h : IpWF ip) : ipOfBytes ip.octets = .ok ip := by
  cases ip with
  | v4 b =>
    simp only [IpWF] at h
    simp [ipOfBytes, Ip.octets, Consts.RPC_IP4_LEN, h]
  | v6 b =>
    obtain ⟨hl, hf⟩ := h
    show ipOfBytes b = .ok (.v6 b)
    unfold ipOfBytes
    simp only [Consts.RPC_IP4_LEN, Consts.RPC_IP6_LEN]
    rw [if_neg (by omega), if_pos hl]
    rcases hf with hf | hf
    · rw [if_pos hf]
    · by_cases hlo : isLoopback b = true
      · rw [if_pos hlo]
      · rw [if_neg hlo, hf]

/-- Every decoded address has 4 (IPv4) or 16 (IPv6) octets. -/
def IpLenOk : Ip → Prop
  | .v4 b => b.length = 4
  | .v6 b => b.length = 16

theorem ipOfBytes_ok (b : Bytes) (ip : Ip) (h : ipOfBytes b = .ok ip) :
    IpLenOk ip ∧ (b.length = 4 ∨ b.length = 16) := by
  unfold ipOfBytes at h
  simp only [Consts.RPC_IP4_LEN, Consts.RPC_IP6_LEN] at h
  by_cases h4 : b.length = 4
  · rw [if_pos h4] at h
    simp only [Res.ok.injEq] at h
    subst h
    exact ⟨h4, Or.inl h4⟩
  · rw [if_neg h4] at h
    by_cases h16 : b.length = 16
    · rw [if_pos h16] at h
      refine ⟨?_, Or.inr h16⟩
      by_cases hlo : isLoopback b = true
      · rw [if_pos hlo] at h
        simp only [Res.ok.injEq] at h
        subst h; exact h16
      · rw [if_neg hlo] at h
        cases ht : toIpv4 b with
        | none =>
          rw [ht] at h
          simp only [Res.ok.injEq] at h
          subst h; exact h16
        | some v =>
          rw [ht] at h
          simp only [Res.ok.injEq] at h
          subst h
          have : v = b.drop 12 := by
            unfold toIpv4 at ht
            split at ht
            · simpa using ht.symm
            · simp at ht
          subst this
          simp [IpLenOk, h16]
    · rw [if_neg h16] at h; simp at h

theorem ipOfBytes_total (b : Bytes) (h : b.length = 4 ∨ b.length = 16) :
    ∃ ip, ipOfBytes b = .ok ip := by
  unfold ipOfBytes
  simp only [Consts.RPC_IP4_LEN, Consts.RPC_IP6_LEN]
  by_cases h4 : b.length = 4
  · rw [if_pos h4]; exact ⟨_, rfl⟩
  · rw [if_neg h4, if_pos (by omega)]
    by_cases hlo : isLoopback b = true
    · rw [if_pos hlo]; exact ⟨_, rfl⟩
    · rw [if_neg hlo]
      cases toIpv4 b with
      | none => exact ⟨_, rfl⟩
      | some v => exact ⟨_, rfl⟩

theorem ipOfBytes_bad (b : Bytes) (h4 : b.length ≠ 4) (h16 : b.length ≠ 16) :
    ipOfBytes b = .err .badIpLength := by
  unfold ipOfBytes
  simp only [Consts.RPC_IP4_LEN, Consts.RPC_IP6_LEN]
  rw [if_neg h4, if_neg h16]

theorem ipOfBytes_ne_panic (b : Bytes) : ipOfBytes b ≠ .panic := by
  unfold ipOfBytes
  split
  · simp
  · split
    · split
      · simp
      · split <;> simp
    · simp

/-! ### the NODES loop -/

theorem record_shape (recDec : Bytes → Option Bytes) (r rest : Bytes) (h : RecordWF recDec r)
    (hlen : r.length < 2 ^ 64) :
    r ≠ [] ∧ ∃ c : Bytes, Header.decode (r ++ rest) = .ok (⟨true, c.length⟩, c ++ rest) ∧
      lengthOfLength c.length + c.length = r.length := by
  obtain ⟨_, c, rfl⟩ := h
  have hc : c.length < 2 ^ 64 := by simp only [List.length_append] at hlen; omega
  refine ⟨by simp [encodeHeader_ne_nil], c, ?_, ?_⟩
  · rw [List.append_assoc]
    exact Header.decode_encodeHeader true _ _ hc (by simp) (by simp)
  · simp [encodeHeader_length]

/-- One iteration of the loop on a payload that starts with an RLP list item `item`. -/
theorem nodesLoop_step (recDec : Bytes → Option Bytes) (fuel : Nat) (item rest : Bytes) (c : Bytes)
    (hne : item ≠ [])
    (hh : Header.decode (item ++ rest) = .ok (⟨true, c.length⟩, c ++ rest))
    (hl : lengthOfLength c.length + c.length = item.length) :
    nodesLoop recDec (fuel + 1) (item ++ rest) =
      (match recDec item with
      | none => .err .invalidEnr
      | some r => do
        let payload ← advance (item ++ rest) r.length
        let (rs, rest') ← nodesLoop recDec fuel payload
        .ok (r :: rs, rest')) := by
  rw [nodesLoop]
  rw [if_neg (by simp [hne])]
  simp only
  rw [hh, Res.ok_bind]
  simp only [Header.lengthWithPayload, Bool.not_true, Bool.false_eq_true, if_false, hl]
  rw [if_neg (by simp), slice_ok _ _ _ (by omega) (by simp), Res.ok_bind]
  simp only [Nat.sub_zero, List.drop_zero, List.take_left' rfl]
  cases recDec item <;> rfl

theorem nodesLoop_encode (recDec : Bytes → Option Bytes) (rs : List Bytes) (fuel : Nat)
    (hwf : ∀ r ∈ rs, RecordWF recDec r) (hlen : rs.flatten.length < 2 ^ 64)
    (hf : rs.flatten.length ≤ fuel) :
    nodesLoop recDec fuel rs.flatten = .ok (rs, []) := by
  induction rs generalizing fuel with
  | nil => unfold nodesLoop; simp
  | cons r rs ih =>
    simp only [List.flatten_cons, List.length_append] at hlen hf ⊢
    have hr := hwf r (by simp)
    obtain ⟨hne, c, hh, hl⟩ := record_shape recDec r rs.flatten hr (by omega)
    have hpos : 0 < r.length := List.length_pos_iff.mpr hne
    cases fuel with
    | zero => omega
    | succ fuel =>
      rw [nodesLoop_step recDec fuel r rs.flatten c hne hh hl, hr.1]
      simp only
      rw [advance_ok _ _ (by simp), Res.ok_bind, List.drop_left' rfl,
        ih fuel (fun x hx => hwf x (by simp [hx])) (by omega) (by omega), Res.ok_bind]

/-- A record list with an invalid record behind valid ones is rejected. -/
theorem nodesLoop_reject (recDec : Bytes → Option Bytes) (pre : List Bytes) (c post : Bytes)
    (fuel : Nat) (hwf : ∀ r ∈ pre, RecordWF recDec r)
    (hbad : recDec (encodeHeader true c.length ++ c) = none)
    (hlen : (pre.flatten ++ (encodeHeader true c.length ++ c) ++ post).length < 2 ^ 64)
    (hf : (pre.flatten ++ (encodeHeader true c.length ++ c) ++ post).length ≤ fuel) :
    nodesLoop recDec fuel (pre.flatten ++ (encodeHeader true c.length ++ c) ++ post) =
      .err .invalidEnr := by
  induction pre generalizing fuel with
  | nil =>
    simp only [List.flatten_nil, List.nil_append, List.length_append] at hlen hf ⊢
    have hne : encodeHeader true c.length ++ c ≠ [] := by simp [encodeHeader_ne_nil]
    have hpos : 0 < (encodeHeader true c.length ++ c).length := List.length_pos_iff.mpr hne
    cases fuel with
    | zero => simp only [List.length_append] at hpos; omega
    | succ fuel =>
      have hh : Header.decode (encodeHeader true c.length ++ c ++ post) =
          .ok (⟨true, c.length⟩, c ++ post) := by
        rw [List.append_assoc]
        exact Header.decode_encodeHeader true _ _ (by omega) (by simp) (by simp)
      rw [nodesLoop_step recDec fuel _ post c hne hh (by simp [encodeHeader_length]), hbad]
  | cons r pre ih =>
    simp only [List.flatten_cons, List.append_assoc, List.length_append] at hlen hf ih ⊢
    have hr := hwf r (by simp)
    obtain ⟨hne, c', hh, hl⟩ := record_shape recDec r
      (pre.flatten ++ (encodeHeader true c.length ++ (c ++ post))) hr (by omega)
    have hpos : 0 < r.length := List.length_pos_iff.mpr hne
    cases fuel with
    | zero => omega
    | succ fuel =>
      rw [nodesLoop_step recDec fuel r _ c' hne hh hl, hr.1]
      simp only
      rw [advance_ok _ _ (by simp), Res.ok_bind, List.drop_left' rfl,
        ih fuel (fun x hx => hwf x (by simp [hx])) (by omega) (by omega)]
      rfl

theorem nodesLoop_ne_panic (recDec : Bytes → Option Bytes) (horacle : OracleSound recDec)
    (fuel : Nat) (payload : Bytes) (hf : payload.length ≤ fuel) :
    nodesLoop recDec fuel payload ≠ .panic := by
  induction fuel generalizing payload with
  | zero =>
    have : payload = [] := List.length_eq_zero_iff.mp (by omega)
    subst this
    unfold nodesLoop; simp
  | succ fuel ih =>
    rw [nodesLoop]
    by_cases he : payload.isEmpty
    · rw [if_pos he]; simp
    · rw [if_neg he]
      simp only
      apply Res.bind_ne_panic (Header.decode_ne_panic payload)
      rintro ⟨nh, r0⟩ _
      simp only
      apply ite_err_ne_panic
      by_cases hsz : nh.lengthWithPayload > payload.length
      · rw [if_pos hsz]; simp
      · rw [if_neg hsz, slice_ok _ _ _ (by omega) (by omega), Res.ok_bind]
        cases hrec : recDec (List.take (nh.lengthWithPayload - 0) (List.drop 0 payload)) with
        | none => simp
        | some r =>
          simp only
          obtain ⟨hpos, hle⟩ := horacle _ _ hrec
          simp only [Nat.sub_zero, List.drop_zero, List.length_take] at hle
          have hle' : r.length ≤ payload.length := by omega
          rw [advance_ok _ _ hle', Res.ok_bind]
          apply Res.bind_ne_panic (ih _ (by simp only [List.length_drop]; omega))
          rintro ⟨rs, rest⟩ _
          simp

/-- Every record returned by the loop is an answer of the record decoder, and the loop only
ends on an empty payload. -/
theorem nodesLoop_inv (recDec : Bytes → Option Bytes) (fuel : Nat) (payload : Bytes)
    (rs : List Bytes) (rest : Bytes) (h : nodesLoop recDec fuel payload = .ok (rs, rest)) :
    rest = [] ∧ ∀ r ∈ rs, ∃ item, recDec item = some r := by
  induction fuel generalizing payload rs rest with
  | zero =>
    rw [nodesLoop] at h
    by_cases he : payload.isEmpty
    · rw [if_pos he] at h
      simp only [Res.ok.injEq, Prod.mk.injEq] at h
      obtain ⟨rfl, rfl⟩ := h
      exact ⟨by simpa using he, by simp⟩
    · rw [if_neg he] at h; simp at h
  | succ fuel ih =>
    rw [nodesLoop] at h
    by_cases he : payload.isEmpty
    · rw [if_pos he] at h
      simp only [Res.ok.injEq, Prod.mk.injEq] at h
      obtain ⟨rfl, rfl⟩ := h
      exact ⟨by simpa using he, by simp⟩
    · rw [if_neg he] at h
      simp only at h
      obtain ⟨⟨nh, r0⟩, _, h⟩ := Res.bind_eq_ok.mp h
      simp only at h
      obtain ⟨_, h⟩ := ite_err_eq_ok h
      obtain ⟨_, h⟩ := ite_err_eq_ok h
      obtain ⟨item, _, h⟩ := Res.bind_eq_ok.mp h
      cases hrec : recDec item with
      | none => rw [hrec] at h; simp at h
      | some r =>
        rw [hrec] at h
        simp only at h
        obtain ⟨p', _, h⟩ := Res.bind_eq_ok.mp h
        obtain ⟨⟨rs', rest'⟩, hloop, h⟩ := Res.bind_eq_ok.mp h
        simp only [Res.ok.injEq, Prod.mk.injEq] at h
        obtain ⟨rfl, rfl⟩ := h
        obtain ⟨h1, h2⟩ := ih _ _ _ hloop
        refine ⟨h1, ?_⟩
        intro x hx
        simp only [List.mem_cons] at hx
        rcases hx with rfl | hx
        · exact ⟨item, hrec⟩
        · exact h2 x hx

/-! ### `decodeBody` -/

theorem msgType_ping (s : Nat) : (Body.ping s).msgType = 1 := rfl
theorem msgType_pong (s : Nat) (ip : Ip) (p : Nat) : (Body.pong s ip p).msgType = 2 := rfl
theorem msgType_findNode (ds : List Nat) : (Body.findNode ds).msgType = 3 := rfl
theorem msgType_nodes (t : Nat) (rs : List Bytes) : (Body.nodes t rs).msgType = 4 := rfl
theorem msgType_talkReq (p r : Bytes) : (Body.talkReq p r).msgType = 5 := rfl
theorem msgType_talkResp (r : Bytes) : (Body.talkResp r).msgType = 6 := rfl

theorem decodeU64_encode (x : Nat) (rest : Bytes) (hx : x < 2 ^ 64) :
    decodeU64 (encodeUint x ++ rest) = .ok (x, rest) :=
  decodeUint_encodeUint 8 x rest (by omega) (by rw [pow_256_8]; exact hx)

theorem decodeU16_encode (x : Nat) (rest : Bytes) (hx : x ≤ 65535) :
    decodeU16 (encodeUint x ++ rest) = .ok (x, rest) :=
  decodeUint_encodeUint 2 x rest (by omega) (by rw [pow_256_2]; omega)

theorem decodeBody_ping (recDec : Bytes → Option Bytes) (id : Bytes) (s : Nat) (hs : s < 2 ^ 64) :
    decodeBody recDec 1 id (encodeUint s) = .ok ⟨id, .ping s⟩ := by
  have := decodeU64_encode s [] hs
  rw [List.append_nil] at this
  unfold decodeBody
  rw [if_pos rfl, this, Res.ok_bind]
  rfl

/-- The PONG arm on `seq ‖ ip-bytes ‖ port` for arbitrary field values. -/
theorem decodeBody_pong_raw (recDec : Bytes → Option Bytes) (id : Bytes) (s : Nat) (o : Bytes)
    (port : Nat) (hs : s < 2 ^ 64) (ho : o.length < 2 ^ 64) (hp : port ≤ 65535) :
    decodeBody recDec 2 id (encodeUint s ++ encodeBytes o ++ encodeUint port) =
      (do
        let ip ← ipOfBytes o
        if port ≠ 0 then .ok ⟨id, .pong s ip port⟩ else .err .zeroPort) := by
  have h1 := decodeU64_encode s (encodeBytes o ++ encodeUint port) hs
  have h2 := decodeBytes_encodeBytes o (encodeUint port) ho
  have h3 := decodeU16_encode port [] hp
  rw [List.append_nil] at h3
  unfold decodeBody
  rw [if_neg (by decide), if_pos rfl, List.append_assoc, h1, Res.ok_bind]
  simp only
  rw [h2, Res.ok_bind]
  simp only
  cases ipOfBytes o with
  | ok ip =>
    rw [Res.ok_bind, Res.ok_bind, h3, Res.ok_bind]
    simp only
    by_cases hz : port ≠ 0
    · rw [if_pos hz, if_pos hz]; rfl
    · rw [if_neg hz, if_neg hz]
  | err e => rfl
  | panic => rfl

theorem decodeBody_findNode_raw (recDec : Bytes → Option Bytes) (id : Bytes) (ds : List Nat)
    (hd : ∀ d ∈ ds, d < 2 ^ 64) (hlen : (encodeU64List ds).length < 2 ^ 64) :
    decodeBody recDec 3 id (encodeU64List ds) =
      if ds.any (fun d => decide (d > 256)) then .err .badDistance else .ok ⟨id, .findNode ds⟩ := by
  have hfl : ((ds.map encodeUint).flatten).length < 2 ^ 64 := by
    unfold encodeU64List at hlen
    simp only [List.length_append] at hlen; omega
  have h1 := decodeU64List_encode ds [] hd hfl
  rw [List.append_nil] at h1
  unfold decodeBody
  rw [if_neg (by decide), if_neg (by decide), if_pos rfl, h1, Res.ok_bind]
  simp only [Consts.RPC_MAX_DISTANCE]
  split
  · rfl
  · rfl

theorem decodeBody_nodes_frame (recDec : Bytes → Option Bytes) (id : Bytes) (total : Nat)
    (payload : Bytes) (ht : total < 2 ^ 64) (hlen : payload.length < 2 ^ 64) :
    decodeBody recDec 4 id (encodeUint total ++ (encodeHeader true payload.length ++ payload)) =
      (do
        let (records, rest) ← nodesLoop recDec payload.length payload
        if !rest.isEmpty then .err .payloadNotEmpty else .ok ⟨id, .nodes total records⟩) := by
  have h1 := decodeU64_encode total (encodeHeader true payload.length ++ payload) ht
  have h2 := Header.decode_encodeHeader true payload.length payload hlen (Nat.le_refl _) (by simp)
  unfold decodeBody
  rw [if_neg (by decide), if_neg (by decide), if_neg (by decide), if_pos rfl, h1, Res.ok_bind]
  simp only
  rw [h2, Res.ok_bind]
  simp only [Bool.not_true, Bool.false_eq_true, if_false]

theorem decodeBody_talkReq (recDec : Bytes → Option Bytes) (id p r : Bytes)
    (hp : p.length < 2 ^ 64) (hr : r.length < 2 ^ 64) :
    decodeBody recDec 5 id (encodeBytes p ++ encodeBytes r) = .ok ⟨id, .talkReq p r⟩ := by
  have h1 := decodeBytes_encodeBytes p (encodeBytes r) hp
  have h2 := decodeBytes_encodeBytes r [] hr
  rw [List.append_nil] at h2
  unfold decodeBody
  rw [if_neg (by decide), if_neg (by decide), if_neg (by decide), if_neg (by decide), if_pos rfl,
    h1, Res.ok_bind]
  simp only
  rw [h2, Res.ok_bind]
  rfl

theorem decodeBody_talkResp (recDec : Bytes → Option Bytes) (id r : Bytes)
    (hr : r.length < 2 ^ 64) :
    decodeBody recDec 6 id (encodeBytes r) = .ok ⟨id, .talkResp r⟩ := by
  have h2 := decodeBytes_encodeBytes r [] hr
  rw [List.append_nil] at h2
  unfold decodeBody
  rw [if_neg (by decide), if_neg (by decide), if_neg (by decide), if_neg (by decide),
    if_neg (by decide), if_pos rfl, h2, Res.ok_bind]
  rfl

theorem decodeBody_tail (recDec : Bytes → Option Bytes) (id : Bytes) (b : Body)
    (hwf : BodyWF recDec b) (hsize : b.tail.length < 2 ^ 64) :
    decodeBody recDec b.msgType id b.tail = .ok ⟨id, b⟩ := by
  cases b with
  | ping s => exact decodeBody_ping recDec id s hwf
  | pong s ip port =>
    obtain ⟨hs, hip, hp1, hp2⟩ := hwf
    have ho : ip.octets.length < 2 ^ 64 := by
      cases ip with
      | v4 b => simp only [IpWF] at hip; simp [Ip.octets, hip]
      | v6 b => simp [Ip.octets, hip.1]
    rw [msgType_pong, Body.tail, decodeBody_pong_raw recDec id s ip.octets port hs ho hp2,
      ipOfBytes_wf ip hip, Res.ok_bind, if_pos (by omega)]
  | findNode ds =>
    have hd : ∀ d ∈ ds, d < 2 ^ 64 := fun d hd => by
      have := hwf d hd
      have : (256 : Nat) < 2 ^ 64 := by decide
      omega
    rw [msgType_findNode, Body.tail, decodeBody_findNode_raw recDec id ds hd hsize, if_neg]
    simp only [List.any_eq_true, decide_eq_true_eq, not_exists, not_and]
    intro d hd'
    have := hwf d hd'
    omega
  | nodes total rs =>
    obtain ⟨ht, hrs⟩ := hwf
    have hlen : rs.flatten.length < 2 ^ 64 := by
      simp only [Body.tail, nodesField, List.length_append] at hsize; omega
    rw [msgType_nodes, Body.tail, nodesField, decodeBody_nodes_frame recDec id total _ ht hlen,
      nodesLoop_encode recDec rs _ hrs hlen (Nat.le_refl _), Res.ok_bind]
    rfl
  | talkReq p r =>
    simp only [Body.tail, List.length_append] at hsize
    have := encodeBytes_length_ge p
    have := encodeBytes_length_ge r
    exact decodeBody_talkReq recDec id p r (by omega) (by omega)
  | talkResp r =>
    simp only [Body.tail] at hsize
    have := encodeBytes_length_ge r
    exact decodeBody_talkResp recDec id r (by omega)

theorem decodeBody_ne_panic (recDec : Bytes → Option Bytes) (horacle : OracleSound recDec)
    (ty : UInt8) (id payload : Bytes) : decodeBody recDec ty id payload ≠ .panic := by
  unfold decodeBody
  split
  · apply Res.bind_ne_panic (decodeUint_ne_panic 8 payload)
    rintro ⟨s, p⟩ _
    simp only
    split <;> simp
  split
  · apply Res.bind_ne_panic (decodeUint_ne_panic 8 payload)
    rintro ⟨s, p⟩ _
    simp only
    apply Res.bind_ne_panic (decodeBytes_ne_panic p false)
    rintro ⟨ipb, p⟩ _
    simp only
    apply Res.bind_ne_panic (ipOfBytes_ne_panic ipb)
    intro ip _
    apply Res.bind_ne_panic (decodeUint_ne_panic 2 p)
    rintro ⟨port, p⟩ _
    simp only
    split
    · split <;> simp
    · simp
  split
  · apply Res.bind_ne_panic (decodeU64List_ne_panic payload)
    rintro ⟨ds, p⟩ _
    simp only
    split
    · simp
    · split <;> simp
  split
  · apply Res.bind_ne_panic (decodeUint_ne_panic 8 payload)
    rintro ⟨s, p⟩ _
    simp only
    apply Res.bind_ne_panic (Header.decode_ne_panic p)
    rintro ⟨h, p⟩ _
    simp only
    apply ite_err_ne_panic
    apply Res.bind_ne_panic (nodesLoop_ne_panic recDec horacle _ _ (Nat.le_refl _))
    rintro ⟨rs, p⟩ _
    simp only
    split <;> simp
  split
  · apply Res.bind_ne_panic (decodeBytes_ne_panic payload false)
    rintro ⟨a, p⟩ _
    simp only
    apply Res.bind_ne_panic (decodeBytes_ne_panic p false)
    rintro ⟨b, p⟩ _
    simp only
    split <;> simp
  split
  · apply Res.bind_ne_panic (decodeBytes_ne_panic payload false)
    rintro ⟨a, p⟩ _
    simp only
    split <;> simp
  · simp

/-- What `decodeBody` guarantees about an accepted message. -/
def BodyOk (recDec : Bytes → Option Bytes) : Body → Prop
  | .ping enrSeq => enrSeq < 2 ^ 64
  | .pong enrSeq ip port => enrSeq < 2 ^ 64 ∧ IpLenOk ip ∧ 1 ≤ port ∧ port ≤ 65535
  | .findNode distances => ∀ d ∈ distances, d ≤ 256
  | .nodes total records => total < 2 ^ 64 ∧ ∀ r ∈ records, ∃ item, recDec item = some r
  | .talkReq _ _ => True
  | .talkResp _ => True

theorem decodeU64_lt (buf : Bytes) (v : Nat) (rest : Bytes) (h : decodeU64 buf = .ok (v, rest)) :
    v < 2 ^ 64 := by
  have := decodeUint_lt 8 buf v rest h
  rw [pow_256_8] at this; exact this

theorem decodeBody_sound (recDec : Bytes → Option Bytes) (ty : UInt8) (id payload : Bytes)
    (m : Message) (h : decodeBody recDec ty id payload = .ok m) :
    m.id = id ∧ BodyOk recDec m.body := by
  unfold decodeBody at h
  by_cases h1 : ty = 1
  · rw [if_pos h1] at h
    obtain ⟨⟨s, p⟩, hs, h⟩ := Res.bind_eq_ok.mp h
    simp only at h
    obtain ⟨_, h⟩ := ite_err_eq_ok h
    simp only [Res.ok.injEq] at h
    subst h
    exact ⟨rfl, decodeU64_lt _ _ _ hs⟩
  rw [if_neg h1] at h
  by_cases h2 : ty = 2
  · rw [if_pos h2] at h
    obtain ⟨⟨s, p⟩, hs, h⟩ := Res.bind_eq_ok.mp h
    simp only at h
    obtain ⟨⟨ipb, p⟩, _, h⟩ := Res.bind_eq_ok.mp h
    simp only at h
    obtain ⟨ip, hip, h⟩ := Res.bind_eq_ok.mp h
    obtain ⟨⟨port, p⟩, hport, h⟩ := Res.bind_eq_ok.mp h
    simp only at h
    by_cases hz : port ≠ 0
    · rw [if_pos hz] at h
      obtain ⟨_, h⟩ := ite_err_eq_ok h
      simp only [Res.ok.injEq] at h
      subst h
      have hp := decodeUint_lt 2 _ _ _ hport
      rw [pow_256_2] at hp
      exact ⟨rfl, decodeU64_lt _ _ _ hs, (ipOfBytes_ok _ _ hip).1, by omega, by omega⟩
    · rw [if_neg hz] at h; simp at h
  rw [if_neg h2] at h
  by_cases h3 : ty = 3
  · rw [if_pos h3] at h
    obtain ⟨⟨ds, p⟩, _, h⟩ := Res.bind_eq_ok.mp h
    simp only at h
    obtain ⟨hany, h⟩ := ite_err_eq_ok h
    obtain ⟨_, h⟩ := ite_err_eq_ok h
    simp only [Res.ok.injEq] at h
    subst h
    refine ⟨rfl, ?_⟩
    intro d hd
    simp only [Consts.RPC_MAX_DISTANCE, List.any_eq_true, decide_eq_true_eq, not_exists,
      not_and] at hany
    have := hany d hd
    omega
  rw [if_neg h3] at h
  by_cases h4 : ty = 4
  · rw [if_pos h4] at h
    obtain ⟨⟨total, p⟩, ht, h⟩ := Res.bind_eq_ok.mp h
    simp only at h
    obtain ⟨⟨hd, p⟩, _, h⟩ := Res.bind_eq_ok.mp h
    simp only at h
    obtain ⟨_, h⟩ := ite_err_eq_ok h
    obtain ⟨⟨rs, p⟩, hloop, h⟩ := Res.bind_eq_ok.mp h
    simp only at h
    obtain ⟨_, h⟩ := ite_err_eq_ok h
    simp only [Res.ok.injEq] at h
    subst h
    exact ⟨rfl, decodeU64_lt _ _ _ ht, (nodesLoop_inv _ _ _ _ _ hloop).2⟩
  rw [if_neg h4] at h
  by_cases h5 : ty = 5
  · rw [if_pos h5] at h
    obtain ⟨⟨a, p⟩, _, h⟩ := Res.bind_eq_ok.mp h
    simp only at h
    obtain ⟨⟨b, p⟩, _, h⟩ := Res.bind_eq_ok.mp h
    simp only at h
    obtain ⟨_, h⟩ := ite_err_eq_ok h
    simp only [Res.ok.injEq] at h
    subst h
    exact ⟨rfl, trivial⟩
  rw [if_neg h5] at h
  by_cases h6 : ty = 6
  · rw [if_pos h6] at h
    obtain ⟨⟨a, p⟩, _, h⟩ := Res.bind_eq_ok.mp h
    simp only at h
    obtain ⟨_, h⟩ := ite_err_eq_ok h
    simp only [Res.ok.injEq] at h
    subst h
    exact ⟨rfl, trivial⟩
  rw [if_neg h6] at h
  simp at h

/-! ### `decode` -/

/-- `decode` on an input of at least three bytes, without the checked index and slice. -/
theorem decode_cons (recDec : Bytes → Option Bytes) (ty : UInt8) (p : Bytes) (hp : 2 ≤ p.length) :
    decode recDec (ty :: p) = (do
      let (header, payload) ← Header.decode p
      if !header.list then .err .invalidHeader else
      if header.len ≠ payload.length then .err .extraData else do
      let (idBytes, payload) ← decodeBytes payload false
      if idBytes.length > 8 then .err .invalidIdLength else
      decodeBody recDec ty idBytes payload) := by
  unfold decode
  simp only [Consts.RPC_MIN_LEN, Consts.RPC_MAX_ID_LEN]
  rw [if_neg (by simp; omega), index_ok _ _ (by simp), Res.ok_bind, sliceFrom_ok _ _ (by simp),
    Res.ok_bind]
  rfl

theorem decode_short (recDec : Bytes → Option Bytes) (b : Bytes) (h : b.length < 3) :
    decode recDec b = .err .inputTooShort := by
  unfold decode
  simp only [Consts.RPC_MIN_LEN]
  rw [if_pos h]

theorem decode_inv (recDec : Bytes → Option Bytes) (b : Bytes) (m : Message)
    (h : decode recDec b = .ok m) :
    ∃ ty p hd payload idB rest, b = ty :: p ∧ 2 ≤ p.length ∧
      Header.decode p = .ok (hd, payload) ∧ hd.list = true ∧ hd.len = payload.length ∧
      decodeBytes payload false = .ok (idB, rest) ∧ idB.length ≤ 8 ∧
      decodeBody recDec ty idB rest = .ok m := by
  by_cases hlen : b.length < 3
  · rw [decode_short _ _ hlen] at h; simp at h
  · match b, hlen with
    | ty :: p, hlen =>
      have hp : 2 ≤ p.length := by simp at hlen; omega
      rw [decode_cons _ _ _ hp] at h
      obtain ⟨⟨hd, payload⟩, hh, h⟩ := Res.bind_eq_ok.mp h
      simp only at h
      obtain ⟨hl, h⟩ := ite_err_eq_ok h
      obtain ⟨hx, h⟩ := ite_err_eq_ok h
      obtain ⟨⟨idB, rest⟩, hid, h⟩ := Res.bind_eq_ok.mp h
      simp only at h
      obtain ⟨hi, h⟩ := ite_err_eq_ok h
      exact ⟨ty, p, hd, payload, idB, rest, rfl, hp, hh, by simpa using hl, by simpa using hx, hid,
        by omega, h⟩

theorem decode_ne_panic (recDec : Bytes → Option Bytes) (horacle : OracleSound recDec)
    (b : Bytes) : decode recDec b ≠ .panic := by
  by_cases hlen : b.length < 3
  · rw [decode_short _ _ hlen]; simp
  · match b, hlen with
    | ty :: p, hlen =>
      have hp : 2 ≤ p.length := by simp at hlen; omega
      rw [decode_cons _ _ _ hp]
      apply Res.bind_ne_panic (Header.decode_ne_panic p)
      rintro ⟨hd, payload⟩ _
      simp only
      apply ite_err_ne_panic
      apply ite_err_ne_panic
      apply Res.bind_ne_panic (decodeBytes_ne_panic payload false)
      rintro ⟨idB, rest⟩ _
      simp only
      apply ite_err_ne_panic
      exact decodeBody_ne_panic recDec horacle ty idB rest

end Discv5.Rpc

/-
Lemmas about the `discovered` loop of `Model/Service.lean` at every intermediate point
(used by `Props/C12Discovered.lean`):

* `discoveredLoop_append`: the loop over `pre ++ post` is the loop over `post` started from the
  result of the loop over `pre`; the state component does not depend on the accumulators.
* `discoveredOne_tinv` / `discoveredLoop_tinv` (and `_cfg`, `_localKey`, `_localId`): configuration,
  local key, local id and the table invariant are kept.
* `discoveredLoop_no_new`: the loop never makes a key a table entry.
* `discoveredLoop_update`: the value under a key after the loop is the value before it or a
  record of the processed list with a strictly higher sequence number.
* `updateNode_stores` / `discoveredOne_stores`: an `update_node` that did not fail leaves the new
  value under the key.
* `step_admit_update`: in a step that carries an admitted record every value of the new table is
  an old one or that record.
-/
import Discv5Model.Model.Service
import Discv5Model.Proofs.ServicePolicy
import Discv5Model.Proofs.ServiceNodes

namespace Discv5.KB

variable {V : Type} [DecidableEq V]
set_option linter.unusedSectionVars false

/-! ### An `update_value` / `update_node` that did not fail leaves the new value under the key -/

/-- In a list without duplicate keys, a node with the key of the node at `pos` is that node. -/
theorem mem_key_eq {nodes : List (Node V)} {pos : Nat} {node n : Node V}
    (hnd : (nodes.map (·.key)).Nodup) (h : nodes[pos]? = some node) (hn : n ∈ nodes)
    (e : n.key = node.key) : n = node := by
  rcases List.mem_cons.1 ((removeAt_perm h).mem_iff.1 hn) with rfl | hn'
  · rfl
  · exact absurd (List.mem_map.2 ⟨n, hn', e⟩) (key_not_mem_removeAt hnd h)

/-- After an `update_value` that did not fail, whatever the bucket holds under `key` (stored or
pending) is `value`. -/
theorem updateValue_stores {c : Cfg V} {tick : Nat} {b : Bucket V} {key : Nat} {value : V}
    (hb : BInv c tick b) (hnf : (b.updateValue c key value).2.isFailed = false) :
    BVals (fun k w => k = key → w = value) (b.updateValue c key value).1 := by
  revert hnf
  unfold Bucket.updateValue
  cases hpos : b.position key with
  | some pos =>
    obtain ⟨node, hnode, hk⟩ := Bucket.position_some hpos
    have hmem : node ∈ b.nodes := List.mem_of_getElem? hnode
    have hpend : ∀ p, b.pending = some p → p.node.key ≠ key := by
      intro p hp e
      exact hb.pendingFresh p hp (List.mem_map.2 ⟨node, hmem, hk.trans e.symm⟩)
    simp only [hnode]
    by_cases hv : node.value = value
    · rw [if_pos hv]
      intro _
      refine ⟨fun n hn e => ?_, fun p hp e => absurd e (hpend p hp)⟩
      rw [mem_key_eq hb.keysNodup hnode hn (e.trans hk.symm)]
      exact hv
    · rw [if_neg hv]
      by_cases hf : (!c.bucketFilter value ((removeAt b.nodes pos).map (·.value))) = true
      · rw [if_pos hf]
        intro hnf
        cases hnf
      · rw [if_neg hf]
        intro _
        refine ⟨fun n hn e => ?_, fun p hp e => absurd e (hpend p hp)⟩
        rcases List.mem_cons.1 ((insertAt_perm _ _ _).mem_iff.1 hn) with rfl | hn'
        · rfl
        · exact absurd (List.mem_map.2 ⟨n, hn', e.trans hk.symm⟩)
            (key_not_mem_removeAt hb.keysNodup hnode)
  | none =>
    have hnone : ∀ n ∈ b.nodes, n.key ≠ key := by
      intro n hn e
      exact (position_none_iff.1 hpos) (List.mem_map.2 ⟨n, hn, e⟩)
    cases hp : b.pending with
    | none =>
      simp only
      intro hnf
      cases hnf
    | some p =>
      simp only
      by_cases hkp : (p.node.key == key) = true
      · rw [if_pos hkp]
        intro _
        refine ⟨fun n hn e => absurd e (hnone n hn), fun p' hp' _ => ?_⟩
        cases hp'
        rfl
      · rw [if_neg hkp]
        intro hnf
        cases hnf

/-- Under the table invariant a (key, value) of the table sits in the bucket of the key. -/
theorem hasPair_bucket {c : Cfg V} {t : Table V} (ht : TInv c t) {k : Nat} {w : V}
    (hp : HasPair t k w) : ∃ i, bucketIndex t.localKey k = some i ∧ i < 256 ∧
      ((∃ n ∈ (t.bucket i).nodes, n.key = k ∧ n.value = w) ∨
       (∃ p, (t.bucket i).pending = some p ∧ p.node.key = k ∧ p.node.value = w)) := by
  obtain ⟨b, hb, h⟩ := hp
  obtain ⟨j, hj, rfl⟩ := List.mem_iff_getElem.1 hb
  rw [← bucket_eq_getElem t j hj] at h
  have hj' : j < 256 := by rw [← ht.nBuckets]; exact hj
  refine ⟨j, ?_, hj', h⟩
  rcases h with ⟨n, hn, hk, _⟩ | ⟨p, hp, hk, _⟩
  · rw [← hk]; exact ht.placed j hj' n hn
  · rw [← hk]; exact ht.placedPending j hj' p hp

/-- After an `update_node` (value only) that did not fail, whatever the table holds under `key`
is `value`. -/
theorem updateNode_stores {c : Cfg V} {now : Nat} {t : Table V} {key : Nat} {value : V}
    (h : TInv c t) (hnf : (t.updateNode c now key value none).2.isFailed = false)
    {w : V} (hp : HasPair (t.updateNode c now key value none).1 key w) : w = value := by
  have ht' : TInv c (t.updateNode c now key value none).1 := updateNode_tinv h
  obtain ⟨j, hj, hj256, hpair⟩ := hasPair_bucket ht' hp
  rw [updateNode_localKey] at hj
  have hj' : bucketIndex t.bump.localKey key = some j := hj
  have h1 : TInv c (Table.applyAt c now t.bump j) := applyAt_inv c now t.bump j h.bump
  have hlen : j < (Table.applyAt c now t.bump j).buckets.length := by rw [h1.nBuckets]; exact hj256
  revert hnf hpair
  unfold Table.updateNode
  simp only [hj']
  by_cases hpass : (!Table.passesTableFilter c t.bump key value) = true
  · rw [if_pos hpass]
    intro hnf
    cases hnf
  · rw [if_neg hpass]
    by_cases hf : (Bucket.updateValue c ((Table.applyAt c now t.bump j).bucket j) key value).snd.isFailed = true
    · rw [if_pos hf]
      intro hnf
      rw [hf] at hnf
      cases hnf
    · rw [if_neg hf]
      intro _ hpair
      rw [Table.bucket_setBucket_eq _ _ _ hlen] at hpair
      have hbv := updateValue_stores (key := key) (value := value) (h1.binv j)
        (by simpa using hf)
      rcases hpair with ⟨n, hn, hk, hv⟩ | ⟨p, hp, hk, hv⟩
      · rw [← hv]; exact hbv.1 n hn hk
      · rw [← hv]; exact hbv.2 p hp hk

end Discv5.KB

namespace Discv5.Svc
open Discv5.KB
open Svc

/-! ### Composition of the loop -/

/-- The state the loop ends in does not depend on the accumulators. -/
theorem discoveredLoop_fst_indep (source : Nat) :
    ∀ (recs : List Rec) (s : Svc) (kept kept' : List Rec) (outs outs' : List Out),
      (discoveredLoop s source recs kept outs).1 = (discoveredLoop s source recs kept' outs').1
  | [], _, _, _, _, _ => rfl
  | r :: rs, s, kept, kept', outs, outs' => by
    rw [discoveredLoop_cons, discoveredLoop_cons]
    exact discoveredLoop_fst_indep source rs _ _ _ _ _

/-- The loop over `pre ++ post` is the loop over `post` started from the result of `pre`. -/
theorem discoveredLoop_append (source : Nat) (post : List Rec) :
    ∀ (pre : List Rec) (s : Svc) (kept : List Rec) (outs : List Out),
      discoveredLoop s source (pre ++ post) kept outs =
        discoveredLoop (discoveredLoop s source pre kept outs).1 source post
          (discoveredLoop s source pre kept outs).2.1 (discoveredLoop s source pre kept outs).2.2
  | [], _, _, _ => rfl
  | r :: rs, s, kept, outs => by
    rw [List.cons_append, discoveredLoop_cons, discoveredLoop_cons]
    exact discoveredLoop_append source post rs _ _ _

/-- State component of `discoveredLoop_append`, for arbitrary accumulators of the second run. -/
theorem discoveredLoop_append_fst (source : Nat) (pre post : List Rec) (s : Svc)
    (kept kept1 : List Rec) (outs outs1 : List Out) :
    (discoveredLoop s source (pre ++ post) kept outs).1 =
      (discoveredLoop (discoveredLoop s source pre kept outs).1 source post kept1 outs1).1 := by
  rw [discoveredLoop_append]
  exact discoveredLoop_fst_indep source post _ _ _ _ _

/-- `discovered` ends in the table the loop ends in. -/
theorem discovered_table (s : Svc) (source : Nat) (recs : List Rec) (query : Option Nat) :
    (s.discovered source recs query).1.table = (discoveredLoop s source recs [] []).1.table := by
  unfold discovered
  generalize discoveredLoop s source recs [] [] = x
  obtain ⟨s1, kept, outs⟩ := x
  simp only []
  repeat' split
  all_goals rfl

/-! ### What the loop keeps -/

/-- The trivial value predicate. -/
def PTrue : Nat → Rec → Prop := fun _ _ => True

theorem discoveredOne_stepTrue (s : Svc) (source : Nat) (r : Rec) :
    Step PTrue ({} : Oracle) s (s.discoveredOne source r).1 :=
  discoveredOne_step s source r (fun _ _ _ _ _ => trivial)

theorem discoveredLoop_stepTrue (s : Svc) (source : Nat) (recs kept : List Rec) (outs : List Out) :
    Step PTrue ({} : Oracle) s (discoveredLoop s source recs kept outs).1 :=
  discoveredLoop_step s.cfg.ipMode (fun _ _ _ _ _ _ _ _ => trivial) source recs s kept outs rfl

theorem osane_empty (id : Nat) : OSane id ({} : Oracle) := fun _ _ h => by cases h

theorem discoveredOne_cfg (s : Svc) (source : Nat) (r : Rec) :
    (s.discoveredOne source r).1.cfg = s.cfg := (discoveredOne_stepTrue s source r).cfg

theorem discoveredOne_localKey (s : Svc) (source : Nat) (r : Rec) :
    (s.discoveredOne source r).1.table.localKey = s.table.localKey :=
  (discoveredOne_stepTrue s source r).localKey

theorem discoveredOne_localId (s : Svc) (source : Nat) (r : Rec) :
    (s.discoveredOne source r).1.localRec.id = s.localRec.id :=
  (discoveredOne_stepTrue s source r).localId (osane_empty _)

theorem discoveredOne_tinv (s : Svc) (source : Nat) (r : Rec) (ht : TInv s.cfg.kb s.table) :
    TInv (s.discoveredOne source r).1.cfg.kb (s.discoveredOne source r).1.table := by
  rw [discoveredOne_cfg]; exact (discoveredOne_stepTrue s source r).tinv ht

theorem discoveredLoop_cfg (s : Svc) (source : Nat) (recs kept : List Rec) (outs : List Out) :
    (discoveredLoop s source recs kept outs).1.cfg = s.cfg :=
  (discoveredLoop_stepTrue s source recs kept outs).cfg

theorem discoveredLoop_localKey (s : Svc) (source : Nat) (recs kept : List Rec) (outs : List Out) :
    (discoveredLoop s source recs kept outs).1.table.localKey = s.table.localKey :=
  (discoveredLoop_stepTrue s source recs kept outs).localKey

theorem discoveredLoop_localId (s : Svc) (source : Nat) (recs kept : List Rec) (outs : List Out) :
    (discoveredLoop s source recs kept outs).1.localRec.id = s.localRec.id :=
  (discoveredLoop_stepTrue s source recs kept outs).localId (osane_empty _)

theorem discoveredLoop_tinv (s : Svc) (source : Nat) (recs kept : List Rec) (outs : List Out)
    (ht : TInv s.cfg.kb s.table) :
    TInv (discoveredLoop s source recs kept outs).1.cfg.kb
      (discoveredLoop s source recs kept outs).1.table := by
  rw [discoveredLoop_cfg]; exact (discoveredLoop_stepTrue s source recs kept outs).tinv ht

/-! ### No key is added -/

/-- A `Step` for the predicate "the key was in the table" adds no key. -/
theorem no_new_of_step {o : Oracle} {s s' : Svc}
    (hs : Step (fun k' _ => k' ∈ s.table.allKeys) o s s') (ht : TInv s.cfg.kb s.table)
    {k : Nat} {v' : Rec} (h : lookupVal s'.table k = some v') : ∃ v, lookupVal s.table k = some v := by
  have h0 : TVals (fun k' (_ : Rec) => k' ∈ s.table.allKeys) s.table :=
    (tvals_hasPair s.table).mono (fun k' v h => hasPair_key_mem h)
  have hk : k ∈ s.table.allKeys := (hs.vals h0).of_hasPair (lookupVal_hasPair h)
  obtain ⟨v, hv⟩ := mem_allKeys_hasPair hk
  exact ⟨v, hasPair_lookupVal ht hv⟩

theorem discoveredOne_no_new (s : Svc) (source : Nat) (r : Rec) (ht : TInv s.cfg.kb s.table)
    {k : Nat} {v' : Rec} (h : lookupVal (s.discoveredOne source r).1.table k = some v') :
    ∃ v, lookupVal s.table k = some v :=
  no_new_of_step (o := {}) (discoveredOne_step s source r (fun _ h _ _ _ => h)) ht h

theorem discoveredLoop_no_new (s : Svc) (source : Nat) (recs kept : List Rec) (outs : List Out)
    (ht : TInv s.cfg.kb s.table) {k : Nat} {v' : Rec}
    (h : lookupVal (discoveredLoop s source recs kept outs).1.table k = some v') :
    ∃ v, lookupVal s.table k = some v :=
  no_new_of_step (o := {})
    (discoveredLoop_step s.cfg.ipMode (fun _ _ _ h _ _ _ _ => h) source recs s kept outs rfl) ht h

/-! ### The update rule along the loop -/

/-- The value under `k` after the loop is the value before it, or a record of the processed list
for `k` with a strictly higher sequence number that is contactable and passes the filter. -/
theorem discoveredLoop_update (source : Nat) (k : Nat) :
    ∀ (recs : List Rec) (s : Svc) (kept : List Rec) (outs : List Out), TInv s.cfg.kb s.table →
      ∀ (v v' : Rec), lookupVal s.table k = some v →
        lookupVal (discoveredLoop s source recs kept outs).1.table k = some v' →
        v' = v ∨ (v' ∈ recs ∧ v'.id = k ∧ v.seq < v'.seq ∧ contactable s.cfg.ipMode v' = true ∧
          v'.passesFilter = true) := by
  intro recs
  induction recs with
  | nil =>
    intro s kept outs _ v v' h1 h2
    unfold discoveredLoop at h2
    rw [h1] at h2
    cases h2
    exact Or.inl rfl
  | cons r rs ih =>
    intro s kept outs ht v v' h1 h2
    rw [discoveredLoop_cons] at h2
    have ht' := discoveredOne_tinv s source r ht
    obtain ⟨w, hw⟩ := discoveredLoop_no_new _ source rs _ _ ht' h2
    have hc := discoveredOne_cfg s source r
    rcases ih _ _ _ ht' w v' hw h2 with rfl | ⟨hm, hid, hlt, hcon, hf⟩
    · rcases discoveredOne_update s source r ht k v v' h1 hw with rfl | ⟨rfl, hid, hlt, hcon, hf⟩
      · exact Or.inl rfl
      · exact Or.inr ⟨List.mem_cons_self .., hid, hlt, hcon, hf⟩
    · rw [hc] at hcon
      refine Or.inr ⟨List.mem_cons_of_mem _ hm, hid, ?_, hcon, hf⟩
      rcases discoveredOne_update s source r ht k v w h1 hw with rfl | ⟨rfl, _, hlt0, _, _⟩
      · exact hlt
      · exact Nat.lt_trans hlt0 hlt

/-! ### An accepted record whose table update does not fail is stored -/

/-- A key with a value in the table is not the local key. -/
theorem lookupVal_ne_local {c : KB.Cfg Rec} {t : Table Rec} (ht : TInv c t) {k : Nat} {v : Rec}
    (h : lookupVal t k = some v) : k ≠ t.localKey := by
  obtain ⟨i, hi, _⟩ := hasPair_bucket ht (lookupVal_hasPair h)
  intro e
  rw [e, bucketIndex_self] at hi
  cases hi

/-- If the record `r` is acceptable (passes the filter, contactable), is newer than the stored value
and the `update_node` the loop body issues does not fail, the value under `r.id` afterwards (if the
entry still exists) is `r`. -/
theorem discoveredOne_stores (s : Svc) (source : Nat) (r : Rec) (ht : TInv s.cfg.kb s.table)
    (hloc : s.table.localKey = s.localRec.id) (hf : r.passesFilter = true)
    (hc : contactable s.cfg.ipMode r = true)
    (hnf : ((s.entry r.id).1.table.updateNode s.cfg.kb s.now r.id r none).2.isFailed = false)
    (v : Rec) (h1 : lookupVal s.table r.id = some v) (hlt : v.seq < r.seq) (w : Rec)
    (h2 : lookupVal (s.discoveredOne source r).1.table r.id = some w) : w = r := by
  have hne : ¬ (r.id == s.localRec.id) = true := by
    intro e
    exact lookupVal_ne_local ht h1 ((beq_iff_eq.1 e).trans hloc.symm)
  have huniq : ∀ v0, HasPair s.table r.id v0 → v0 = v := by
    intro v0 hp
    have := hasPair_lookupVal ht hp
    rw [h1] at this; cases this; rfl
  revert h2
  unfold discoveredOne
  rw [if_neg hne]
  simp only
  rw [if_pos (by simp [hf, hc])]
  have he := entry_step (P := HasPair s.table) (o := ({} : Oracle)) s r.id
  have hlk := entry_lookup s r.id
  have hcfg : (s.entry r.id).1.cfg = s.cfg := rfl
  have hnow : (s.entry r.id).1.now = s.now := rfl
  generalize s.entry r.id = x at he hlk hcfg hnow hnf ⊢
  obtain ⟨s1, l⟩ := x
  simp only at he hlk hcfg hnow hnf ⊢
  have hv1 := he.vals (tvals_hasPair s.table)
  have ht1 : TInv s.cfg.kb s1.table := he.tinv ht
  cases l with
  | present v0 st =>
    simp only
    have : v0 = v := huniq _ (hv1.of_hasPair (lookup_present hlk.symm))
    subst this
    rw [if_pos (decide_eq_true hlt), hcfg, hnow]
    intro h2
    have h2' : lookupVal (s1.table.updateNode s.cfg.kb s.now r.id r none).1 r.id = some w := by
      split at h2 <;> exact h2
    exact updateNode_stores ht1 hnf (lookupVal_hasPair h2')
  | pending v0 st =>
    simp only
    have : v0 = v := huniq _ (hv1.of_hasPair (lookup_pending hlk.symm))
    subst this
    rw [if_pos (decide_eq_true hlt), hcfg, hnow]
    intro h2
    have h2' : lookupVal (s1.table.updateNode s.cfg.kb s.now r.id r none).1 r.id = some w := by
      split at h2 <;> exact h2
    exact updateNode_stores ht1 hnf (lookupVal_hasPair h2')
  | absent =>
    simp only
    rw [if_neg (by simp)]
    intro h2
    unfold lookupVal at h2
    rw [← hlk] at h2
    cases h2
  | self =>
    simp only
    rw [if_neg (by simp)]
    intro h2
    unfold lookupVal at h2
    rw [← hlk] at h2
    cases h2

/-! ### A session report / explicit add: every new value is the reported record -/

/-- In a step that carries an admitted record `r`, every (key, value) of the new table is an old one
or `(r.id, r)`. -/
theorem step_admit_update (s : Svc) (o : Oracle) (i : Svc.Input) (ht : TInv s.cfg.kb s.table)
    (r : Rec) (hr : admRec i = some r) (k : Nat) (v' : Rec)
    (h2 : lookupVal (s.step o i).1.table k = some v') :
    lookupVal s.table k = some v' ∨ (k = r.id ∧ v' = r) := by
  let P : Nat → Rec → Prop := fun k' w => HasPair s.table k' w ∨ (k' = r.id ∧ w = r)
  have h0 : TVals P s.table := (tvals_hasPair s.table).mono (fun k' w h => Or.inl h)
  have hs : Step P o s (s.step o i).1 := by
    cases i with
    | established r' addr incoming =>
      cases hr
      unfold step
      exact injectSessionEstablished_step s r addr incoming (fun _ _ _ => Or.inr ⟨rfl, rfl⟩)
    | addEnr r' =>
      cases hr
      unfold step
      exact addEnr_step s r (fun _ _ _ => Or.inr ⟨rfl, rfl⟩)
    | _ => cases hr
  rcases (hs.vals h0).of_hasPair (lookupVal_hasPair h2) with hp | h
  · exact Or.inl (hasPair_lookupVal ht hp)
  · exact Or.inr h

end Discv5.Svc


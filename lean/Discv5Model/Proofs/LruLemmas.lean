/- Helper lemmas for the `LruTimeCache` model (C15, cache part): list primitives, the
invariants (keys distinct, stamps sorted in list order, length ≤ capacity) and their
preservation by every operation, the use log / recency relation, and the specification
(`Spec`) the cache is shown to refine. -/
import Discv5Model.Model.Lru
namespace Discv5.Lru

variable {K V : Type} [DecidableEq K]

/-! ### list primitives -/

theorem mem_lhmErase {m : List (Entry K V)} {k : K} {e : Entry K V} :
    e ∈ lhmErase m k ↔ e ∈ m ∧ e.key ≠ k := by
  simp [lhmErase]

theorem lhmErase_sublist (m : List (Entry K V)) (k : K) : (lhmErase m k).Sublist m :=
  List.filter_sublist

theorem lhmGet_some {m : List (Entry K V)} {k : K} {e : Entry K V} (h : lhmGet m k = some e) :
    e ∈ m ∧ e.key = k := by
  unfold lhmGet at h
  exact ⟨List.mem_of_find?_eq_some h, by simpa using List.find?_some h⟩

theorem lhmGet_none {m : List (Entry K V)} {k : K} :
    lhmGet m k = none ↔ ∀ e ∈ m, e.key ≠ k := by
  unfold lhmGet
  simp [List.find?_eq_none]

theorem lhmErase_of_absent {m : List (Entry K V)} {k : K} (h : ∀ e ∈ m, e.key ≠ k) :
    lhmErase m k = m := by
  unfold lhmErase
  rw [List.filter_eq_self]
  intro a ha
  simpa using h a ha

theorem length_lhmErase_le (m : List (Entry K V)) (k : K) : (lhmErase m k).length ≤ m.length :=
  (lhmErase_sublist m k).length_le

theorem length_lhmErase_lt {m : List (Entry K V)} {k : K} {e : Entry K V} (he : e ∈ m)
    (hk : e.key = k) : (lhmErase m k).length < m.length := by
  unfold lhmErase
  rw [List.length_filter_lt_length_iff_exists]
  exact ⟨e, he, by simp [hk]⟩

/-- With distinct keys the entry found for `k` is the only one with that key. -/
theorem lhmGet_of_mem {m : List (Entry K V)} {e : Entry K V}
    (hd : m.Pairwise (fun a b => a.key ≠ b.key)) (he : e ∈ m) : lhmGet m e.key = some e := by
  induction m with
  | nil => cases he
  | cons a rest ih =>
    rw [List.pairwise_cons] at hd
    unfold lhmGet
    rw [List.find?_cons]
    by_cases hae : a.key = e.key
    · simp only [hae, decide_true]
      rcases List.mem_cons.1 he with h | h
      · rw [h]
      · exact absurd hae (hd.1 e h)
    · simp only [hae, decide_false]
      rcases List.mem_cons.1 he with h | h
      · exact absurd (by rw [h]) hae
      · exact ih hd.2 h

theorem lhmGet_lhmErase_self (m : List (Entry K V)) (k : K) : lhmGet (lhmErase m k) k = none := by
  rw [lhmGet_none]
  intro e he
  exact (mem_lhmErase.1 he).2

theorem lhmGet_lhmErase_ne (m : List (Entry K V)) {k k' : K} (h : k' ≠ k) :
    lhmGet (lhmErase m k) k' = lhmGet m k' := by
  unfold lhmGet lhmErase
  rw [List.find?_filter]
  congr 1
  funext a
  by_cases ha : a.key = k'
  · simp [ha, h]
  · simp [ha]

/-! ### invariants -/

/-- Keys pairwise distinct (the list represents a map). -/
def Distinct (c : Cache K V) : Prop := c.map.Pairwise (fun a b => a.key ≠ b.key)

/-- Stamps never decrease from front to back and none is in the future of `now`. -/
def Sorted (c : Cache K V) (now : Nat) : Prop :=
  c.map.Pairwise (fun a b => a.stamp ≤ b.stamp) ∧ ∀ e ∈ c.map, e.stamp ≤ now

/-- `len ≤ capacity`. -/
def Bounded (c : Cache K V) : Prop := c.map.length ≤ c.capacity

/-- The invariant of the cache at time `now`. -/
structure WF (c : Cache K V) (now : Nat) : Prop where
  distinct : Distinct c
  sorted : Sorted c now
  bounded : Bounded c

theorem new_wf (ttl : Nat) (cap : Option Nat) (now : Nat) : WF (new ttl cap : Cache K V) now :=
  ⟨List.Pairwise.nil, ⟨List.Pairwise.nil, fun _ h => by cases h⟩, Nat.zero_le _⟩

/-- The list after `map.insert(k, (v, now))`. -/
theorem insert_map (c : Cache K V) (now : Nat) (k : K) (v : V) :
    (insert c now k v).map =
      if (lhmErase c.map k ++ [(⟨k, v, now⟩ : Entry K V)]).length > c.capacity
      then (lhmErase c.map k ++ [(⟨k, v, now⟩ : Entry K V)]).tail
      else lhmErase c.map k ++ [(⟨k, v, now⟩ : Entry K V)] := by
  unfold insert lhmInsert lhmPopFront
  simp only []
  split <;> rfl

theorem insert_ttl (c : Cache K V) (now : Nat) (k : K) (v : V) :
    (insert c now k v).ttl = c.ttl := by
  unfold insert; simp only []; split <;> rfl

theorem insert_capacity (c : Cache K V) (now : Nat) (k : K) (v : V) :
    (insert c now k v).capacity = c.capacity := by
  unfold insert; simp only []; split <;> rfl

/-- The three shapes of `get_mut`. -/
theorem getMutWith_vacant {c : Cache K V} {now : Nat} {k : K} {f : V → V}
    (h : lhmGet c.map k = none) : getMutWith c now k f = (c, none) := by
  unfold getMutWith; rw [h]

theorem getMutWith_expired {c : Cache K V} {now : Nat} {k : K} {f : V → V} {e : Entry K V}
    (h : lhmGet c.map k = some e) (hx : e.stamp + c.ttl < now) :
    getMutWith c now k f = ({ c with map := lhmErase c.map k }, none) := by
  unfold getMutWith; rw [h]; simp only []; rw [if_pos hx]

theorem getMutWith_hit {c : Cache K V} {now : Nat} {k : K} {f : V → V} {e : Entry K V}
    (h : lhmGet c.map k = some e) (hx : ¬ e.stamp + c.ttl < now) :
    getMutWith c now k f =
      ({ c with map := lhmErase c.map k ++ [{ e with val := f e.val, stamp := now }] },
        some e.val) := by
  unfold getMutWith; rw [h]; simp only []; rw [if_neg hx]

/-- Case analysis of `get_mut` in one statement. -/
theorem getMutWith_cases (c : Cache K V) (now : Nat) (k : K) (f : V → V) :
    (lhmGet c.map k = none ∧ getMutWith c now k f = (c, none)) ∨
    (∃ e, lhmGet c.map k = some e ∧ e.stamp + c.ttl < now ∧
      getMutWith c now k f = ({ c with map := lhmErase c.map k }, none)) ∨
    (∃ e, lhmGet c.map k = some e ∧ ¬ e.stamp + c.ttl < now ∧
      getMutWith c now k f =
        ({ c with map := lhmErase c.map k ++ [{ e with val := f e.val, stamp := now }] },
          some e.val)) := by
  cases h : lhmGet c.map k with
  | none => exact Or.inl ⟨rfl, getMutWith_vacant h⟩
  | some e =>
    by_cases hx : e.stamp + c.ttl < now
    · exact Or.inr (Or.inl ⟨e, rfl, hx, getMutWith_expired h hx⟩)
    · exact Or.inr (Or.inr ⟨e, rfl, hx, getMutWith_hit h hx⟩)

/-! #### shapes of the new list and what they preserve -/

theorem distinct_erase_append {m : List (Entry K V)} {e : Entry K V}
    (hd : m.Pairwise (fun a b => a.key ≠ b.key)) :
    (lhmErase m e.key ++ [e]).Pairwise (fun a b => a.key ≠ b.key) := by
  rw [List.pairwise_append]
  refine ⟨hd.sublist (lhmErase_sublist _ _), List.pairwise_singleton _ _, ?_⟩
  intro a ha b hb
  rw [List.mem_singleton] at hb
  rw [hb]
  exact (mem_lhmErase.1 ha).2

theorem sorted_erase_append {m : List (Entry K V)} {e : Entry K V} {k : K}
    (hs : m.Pairwise (fun a b => a.stamp ≤ b.stamp)) (hle : ∀ a ∈ m, a.stamp ≤ e.stamp) :
    (lhmErase m k ++ [e]).Pairwise (fun a b => a.stamp ≤ b.stamp) := by
  rw [List.pairwise_append]
  refine ⟨hs.sublist (lhmErase_sublist _ _), List.pairwise_singleton _ _, ?_⟩
  intro a ha b hb
  rw [List.mem_singleton] at hb
  rw [hb]
  exact hle a (mem_lhmErase.1 ha).1

theorem insert_distinct {c : Cache K V} (now : Nat) (k : K) (v : V) (h : Distinct c) :
    Distinct (insert c now k v) := by
  unfold Distinct at *
  rw [insert_map]
  have h1 := distinct_erase_append (e := (⟨k, v, now⟩ : Entry K V)) h
  split
  · exact h1.sublist (List.tail_sublist _)
  · exact h1

theorem insert_sorted {c : Cache K V} {t : Nat} (now : Nat) (k : K) (v : V) (h : Sorted c t)
    (ht : t ≤ now) : Sorted (insert c now k v) now := by
  unfold Sorted at *
  rw [insert_map]
  have h1 : (lhmErase c.map k ++ [(⟨k, v, now⟩ : Entry K V)]).Pairwise
      (fun a b => a.stamp ≤ b.stamp) :=
    sorted_erase_append h.1 (fun a ha => Nat.le_trans (h.2 a ha) ht)
  have h2 : ∀ e ∈ lhmErase c.map k ++ [(⟨k, v, now⟩ : Entry K V)], e.stamp ≤ now := by
    intro e he
    rcases List.mem_append.1 he with he | he
    · exact Nat.le_trans (h.2 e (mem_lhmErase.1 he).1) ht
    · rw [List.mem_singleton] at he; rw [he]; exact Nat.le_refl _
  split
  · exact ⟨h1.sublist (List.tail_sublist _), fun e he => h2 e (List.mem_of_mem_tail he)⟩
  · exact ⟨h1, h2⟩

theorem insert_bounded {c : Cache K V} (now : Nat) (k : K) (v : V) (h : Bounded c) :
    Bounded (insert c now k v) := by
  unfold Bounded at *
  rw [insert_map, insert_capacity]
  have := length_lhmErase_le c.map k
  split
  · rw [List.length_tail, List.length_append, List.length_singleton]; omega
  · rename_i hgt; omega

theorem getMutWith_ttl (c : Cache K V) (now : Nat) (k : K) (f : V → V) :
    (getMutWith c now k f).1.ttl = c.ttl := by
  rcases getMutWith_cases c now k f with ⟨_, h⟩ | ⟨e, _, _, h⟩ | ⟨e, _, _, h⟩ <;> rw [h]

theorem getMutWith_capacity (c : Cache K V) (now : Nat) (k : K) (f : V → V) :
    (getMutWith c now k f).1.capacity = c.capacity := by
  rcases getMutWith_cases c now k f with ⟨_, h⟩ | ⟨e, _, _, h⟩ | ⟨e, _, _, h⟩ <;> rw [h]

theorem getMutWith_distinct {c : Cache K V} (now : Nat) (k : K) (f : V → V) (h : Distinct c) :
    Distinct (getMutWith c now k f).1 := by
  unfold Distinct at *
  rcases getMutWith_cases c now k f with ⟨_, hr⟩ | ⟨e, _, _, hr⟩ | ⟨e, hg, _, hr⟩ <;> rw [hr]
  · exact h
  · exact h.sublist (lhmErase_sublist _ _)
  · have hk := (lhmGet_some hg).2
    have := distinct_erase_append (e := ({ e with val := f e.val, stamp := now } : Entry K V)) h
    simpa [hk] using this

theorem getMutWith_sorted {c : Cache K V} {t : Nat} (now : Nat) (k : K) (f : V → V)
    (h : Sorted c t) (ht : t ≤ now) : Sorted (getMutWith c now k f).1 now := by
  unfold Sorted at *
  rcases getMutWith_cases c now k f with ⟨_, hr⟩ | ⟨e, _, _, hr⟩ | ⟨e, hg, _, hr⟩ <;> rw [hr]
  · exact ⟨h.1, fun e he => Nat.le_trans (h.2 e he) ht⟩
  · exact ⟨h.1.sublist (lhmErase_sublist _ _),
      fun a ha => Nat.le_trans (h.2 a (mem_lhmErase.1 ha).1) ht⟩
  · refine ⟨sorted_erase_append h.1 (fun a ha => Nat.le_trans (h.2 a ha) ht), ?_⟩
    intro a ha
    rcases List.mem_append.1 ha with ha | ha
    · exact Nat.le_trans (h.2 a (mem_lhmErase.1 ha).1) ht
    · rw [List.mem_singleton] at ha; rw [ha]; exact Nat.le_refl _

theorem getMutWith_bounded {c : Cache K V} (now : Nat) (k : K) (f : V → V) (h : Bounded c) :
    Bounded (getMutWith c now k f).1 := by
  unfold Bounded at *
  rcases getMutWith_cases c now k f with ⟨_, hr⟩ | ⟨e, _, _, hr⟩ | ⟨e, hg, _, hr⟩ <;> rw [hr]
  · exact h
  · exact Nat.le_trans (length_lhmErase_le _ _) h
  · have := length_lhmErase_lt (lhmGet_some hg).1 (lhmGet_some hg).2
    simp only [List.length_append, List.length_singleton]
    omega

theorem step_ttl (c : Cache K V) (now : Nat) (op : Op K V) : (step c now op).1.ttl = c.ttl := by
  cases op <;> simp only [step, get, getMut, remove, removeExpired, insert_ttl, getMutWith_ttl]

theorem step_capacity (c : Cache K V) (now : Nat) (op : Op K V) :
    (step c now op).1.capacity = c.capacity := by
  cases op <;>
    simp only [step, get, getMut, remove, removeExpired, insert_capacity, getMutWith_capacity]

/-- Every operation yields a sublist of the old list, possibly followed by one new entry, and
keeps distinctness. -/
theorem step_distinct {c : Cache K V} (now : Nat) (op : Op K V) (h : Distinct c) :
    Distinct (step c now op).1 := by
  cases op with
  | insert k v => exact insert_distinct now k v h
  | get k => exact getMutWith_distinct now k id h
  | getMut k w => exact getMutWith_distinct now k _ h
  | peek k => exact h
  | len => exact h
  | remove k => exact List.Pairwise.sublist (lhmErase_sublist _ _) h
  | sweep => exact List.Pairwise.sublist (List.dropWhile_sublist _) h

theorem step_sorted {c : Cache K V} {t : Nat} (now : Nat) (op : Op K V) (h : Sorted c t)
    (ht : t ≤ now) : Sorted (step c now op).1 now := by
  have hmono : Sorted c now := ⟨h.1, fun e he => Nat.le_trans (h.2 e he) ht⟩
  cases op with
  | insert k v => exact insert_sorted now k v h ht
  | get k => exact getMutWith_sorted now k id h ht
  | getMut k w => exact getMutWith_sorted now k _ h ht
  | peek k => exact hmono
  | len => exact hmono
  | remove k =>
    exact ⟨hmono.1.sublist (lhmErase_sublist _ _), fun e he => hmono.2 e (mem_lhmErase.1 he).1⟩
  | sweep =>
    exact ⟨hmono.1.sublist (List.dropWhile_sublist _),
      fun e he => hmono.2 e ((List.dropWhile_sublist _).subset he)⟩

theorem step_bounded {c : Cache K V} (now : Nat) (op : Op K V) (h : Bounded c) :
    Bounded (step c now op).1 := by
  cases op with
  | insert k v => exact insert_bounded now k v h
  | get k => exact getMutWith_bounded now k id h
  | getMut k w => exact getMutWith_bounded now k _ h
  | peek k => exact h
  | len => exact h
  | remove k => exact Nat.le_trans (length_lhmErase_le _ _) h
  | sweep => exact Nat.le_trans (List.dropWhile_sublist _).length_le h

theorem step_wf {c : Cache K V} {t : Nat} (now : Nat) (op : Op K V) (h : WF c t) (ht : t ≤ now) :
    WF (step c now op).1 now :=
  ⟨step_distinct now op h.distinct, step_sorted now op h.sorted ht, step_bounded now op h.bounded⟩

theorem run_bounded {c : Cache K V} (ops : List (Nat × Op K V)) (h : Bounded c) :
    Bounded (run c ops) := by
  induction ops generalizing c with
  | nil => exact h
  | cons p rest ih => exact ih (step_bounded p.1 p.2 h)

theorem run_distinct {c : Cache K V} (ops : List (Nat × Op K V)) (h : Distinct c) :
    Distinct (run c ops) := by
  induction ops generalizing c with
  | nil => exact h
  | cons p rest ih => exact ih (step_distinct p.1 p.2 h)

theorem run_capacity (c : Cache K V) (ops : List (Nat × Op K V)) :
    (run c ops).capacity = c.capacity := by
  induction ops generalizing c with
  | nil => rfl
  | cons p rest ih => exact (ih _).trans (step_capacity c p.1 p.2)

theorem run_ttl (c : Cache K V) (ops : List (Nat × Op K V)) : (run c ops).ttl = c.ttl := by
  induction ops generalizing c with
  | nil => rfl
  | cons p rest ih => exact (ih _).trans (step_ttl c p.1 p.2)

/-- The time of the last operation (or `t0` if there is none). -/
def lastTime (t0 : Nat) : List (Nat × Op K V) → Nat
  | [] => t0
  | (t, _) :: rest => lastTime t rest

theorem run_wf {c : Cache K V} {t0 : Nat} (ops : List (Nat × Op K V)) (h : WF c t0)
    (hm : NonDecreasing t0 ops) : WF (run c ops) (lastTime t0 ops) := by
  induction ops generalizing c t0 with
  | nil => exact h
  | cons p rest ih =>
    obtain ⟨t, op⟩ := p
    exact ih (step_wf t op h hm.1) hm.2

end Discv5.Lru

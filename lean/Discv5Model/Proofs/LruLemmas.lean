/- Helper lemmas for the `LruTimeCache` model (C15, cache part): list primitives, the
invariants (keys distinct, stamps sorted in list order, length ≤ capacity) and their
preservation by every operation, the use log / recency relation, and the specification
(`Spec`) the cache is shown to refine. -/
import Discv5Model.Model.Lru
namespace Discv5.Lru

variable {K V : Type} [DecidableEq K]

/-! ### list primitives -/

theorem mem_lhmErase {m : List (Entry K V)} {k : K} {e : Entry K V} :
    e ∈ lhmErase m k ↔ e ∈ m ∧ e.key ≠ k := by
  simp [lhmErase]

theorem lhmErase_sublist (m : List (Entry K V)) (k : K) : (lhmErase m k).Sublist m :=
  List.filter_sublist

theorem lhmGet_some {m : List (Entry K V)} {k : K} {e : Entry K V} (h : lhmGet m k = some e) :
    e ∈ m ∧ e.key = k := by
  unfold lhmGet at h
  exact ⟨List.mem_of_find?_eq_some h, by simpa using List.find?_some h⟩

theorem lhmGet_none {m : List (Entry K V)} {k : K} :
    lhmGet m k = none ↔ ∀ e ∈ m, e.key ≠ k := by
  unfold lhmGet
  simp [List.find?_eq_none]

theorem lhmErase_of_absent {m : List (Entry K V)} {k : K} (h : ∀ e ∈ m, e.key ≠ k) :
    lhmErase m k = m := by
  unfold lhmErase
  rw [List.filter_eq_self]
  intro a ha
  simpa using h a ha

theorem length_lhmErase_le (m : List (Entry K V)) (k : K) : (lhmErase m k).length ≤ m.length :=
  (lhmErase_sublist m k).length_le

theorem length_lhmErase_lt {m : List (Entry K V)} {k : K} {e : Entry K V} (he : e ∈ m)
    (hk : e.key = k) : (lhmErase m k).length < m.length := by
  unfold lhmErase
  rw [List.length_filter_lt_length_iff_exists]
  exact ⟨e, he, by simp [hk]⟩

/-- With distinct keys the entry found for `k` is the only one with that key. -/
theorem lhmGet_of_mem {m : List (Entry K V)} {e : Entry K V}
    (hd : m.Pairwise (fun a b => a.key ≠ b.key)) (he : e ∈ m) : lhmGet m e.key = some e := by
  induction m with
  | nil => cases he
  | cons a rest ih =>
    rw [List.pairwise_cons] at hd
    unfold lhmGet
    rw [List.find?_cons]
    by_cases hae : a.key = e.key
    · simp only [hae, decide_true]
      rcases List.mem_cons.1 he with h | h
      · rw [h]
      · exact absurd hae (hd.1 e h)
    · simp only [hae, decide_false]
      rcases List.mem_cons.1 he with h | h
      · exact absurd (by rw [h]) hae
      · exact ih hd.2 h

theorem lhmGet_lhmErase_self (m : List (Entry K V)) (k : K) : lhmGet (lhmErase m k) k = none := by
  rw [lhmGet_none]
  intro e he
  exact (mem_lhmErase.1 he).2

theorem lhmGet_lhmErase_ne (m : List (Entry K V)) {k k' : K} (h : k' ≠ k) :
    lhmGet (lhmErase m k) k' = lhmGet m k' := by
  unfold lhmGet lhmErase
  rw [List.find?_filter]
  congr 1
  funext a
  by_cases ha : a.key = k'
  · simp [ha, h]
  · simp [ha]

/-! ### invariants -/

/-- Keys pairwise distinct (the list represents a map). -/
def Distinct (c : Cache K V) : Prop := c.map.Pairwise (fun a b => a.key ≠ b.key)

/-- Stamps never decrease from front to back and none is in the future of `now`. -/
def Sorted (c : Cache K V) (now : Nat) : Prop :=
  c.map.Pairwise (fun a b => a.stamp ≤ b.stamp) ∧ ∀ e ∈ c.map, e.stamp ≤ now

/-- `len ≤ capacity`. -/
def Bounded (c : Cache K V) : Prop := c.map.length ≤ c.capacity

/-- The invariant of the cache at time `now`. -/
structure WF (c : Cache K V) (now : Nat) : Prop where
  distinct : Distinct c
  sorted : Sorted c now
  bounded : Bounded c

omit [DecidableEq K] in
theorem new_wf (ttl : Nat) (cap : Option Nat) (now : Nat) : WF (new ttl cap : Cache K V) now :=
  ⟨List.Pairwise.nil, ⟨List.Pairwise.nil, fun _ h => by cases h⟩, Nat.zero_le _⟩

/-- The list after `map.insert(k, (v, now))`. -/
theorem insert_map (c : Cache K V) (now : Nat) (k : K) (v : V) :
    (insert c now k v).map =
      if (lhmErase c.map k ++ [(⟨k, v, now⟩ : Entry K V)]).length > c.capacity
      then (lhmErase c.map k ++ [(⟨k, v, now⟩ : Entry K V)]).tail
      else lhmErase c.map k ++ [(⟨k, v, now⟩ : Entry K V)] := by
  unfold insert lhmInsert lhmPopFront
  simp only []
  split <;> rfl

theorem insert_ttl (c : Cache K V) (now : Nat) (k : K) (v : V) :
    (insert c now k v).ttl = c.ttl := by
  unfold insert; simp only []; split <;> rfl

theorem insert_capacity (c : Cache K V) (now : Nat) (k : K) (v : V) :
    (insert c now k v).capacity = c.capacity := by
  unfold insert; simp only []; split <;> rfl

/-- The three shapes of `get_mut`. -/
theorem getMutWith_vacant {c : Cache K V} {now : Nat} {k : K} {f : V → V}
    (h : lhmGet c.map k = none) : getMutWith c now k f = (c, none) := by
  unfold getMutWith; rw [h]

theorem getMutWith_expired {c : Cache K V} {now : Nat} {k : K} {f : V → V} {e : Entry K V}
    (h : lhmGet c.map k = some e) (hx : e.stamp + c.ttl < now) :
    getMutWith c now k f = ({ c with map := lhmErase c.map k }, none) := by
  unfold getMutWith; rw [h]; simp only []; rw [if_pos hx]

theorem getMutWith_hit {c : Cache K V} {now : Nat} {k : K} {f : V → V} {e : Entry K V}
    (h : lhmGet c.map k = some e) (hx : ¬ e.stamp + c.ttl < now) :
    getMutWith c now k f =
      ({ c with map := lhmErase c.map k ++ [{ e with val := f e.val, stamp := now }] },
        some e.val) := by
  unfold getMutWith; rw [h]; simp only []; rw [if_neg hx]

/-- Case analysis of `get_mut` in one statement. -/
theorem getMutWith_cases (c : Cache K V) (now : Nat) (k : K) (f : V → V) :
    (lhmGet c.map k = none ∧ getMutWith c now k f = (c, none)) ∨
    (∃ e, lhmGet c.map k = some e ∧ e.stamp + c.ttl < now ∧
      getMutWith c now k f = ({ c with map := lhmErase c.map k }, none)) ∨
    (∃ e, lhmGet c.map k = some e ∧ ¬ e.stamp + c.ttl < now ∧
      getMutWith c now k f =
        ({ c with map := lhmErase c.map k ++ [{ e with val := f e.val, stamp := now }] },
          some e.val)) := by
  cases h : lhmGet c.map k with
  | none => exact Or.inl ⟨rfl, getMutWith_vacant h⟩
  | some e =>
    by_cases hx : e.stamp + c.ttl < now
    · exact Or.inr (Or.inl ⟨e, rfl, hx, getMutWith_expired h hx⟩)
    · exact Or.inr (Or.inr ⟨e, rfl, hx, getMutWith_hit h hx⟩)

/-! #### shapes of the new list and what they preserve -/

theorem distinct_erase_append {m : List (Entry K V)} {e : Entry K V}
    (hd : m.Pairwise (fun a b => a.key ≠ b.key)) :
    (lhmErase m e.key ++ [e]).Pairwise (fun a b => a.key ≠ b.key) := by
  rw [List.pairwise_append]
  refine ⟨hd.sublist (lhmErase_sublist _ _), List.pairwise_singleton _ _, ?_⟩
  intro a ha b hb
  rw [List.mem_singleton] at hb
  rw [hb]
  exact (mem_lhmErase.1 ha).2

theorem sorted_erase_append {m : List (Entry K V)} {e : Entry K V} {k : K}
    (hs : m.Pairwise (fun a b => a.stamp ≤ b.stamp)) (hle : ∀ a ∈ m, a.stamp ≤ e.stamp) :
    (lhmErase m k ++ [e]).Pairwise (fun a b => a.stamp ≤ b.stamp) := by
  rw [List.pairwise_append]
  refine ⟨hs.sublist (lhmErase_sublist _ _), List.pairwise_singleton _ _, ?_⟩
  intro a ha b hb
  rw [List.mem_singleton] at hb
  rw [hb]
  exact hle a (mem_lhmErase.1 ha).1

theorem insert_distinct {c : Cache K V} (now : Nat) (k : K) (v : V) (h : Distinct c) :
    Distinct (insert c now k v) := by
  unfold Distinct at *
  rw [insert_map]
  have h1 := distinct_erase_append (e := (⟨k, v, now⟩ : Entry K V)) h
  split
  · exact h1.sublist (List.tail_sublist _)
  · exact h1

theorem insert_sorted {c : Cache K V} {t : Nat} (now : Nat) (k : K) (v : V) (h : Sorted c t)
    (ht : t ≤ now) : Sorted (insert c now k v) now := by
  unfold Sorted at *
  rw [insert_map]
  have h1 : (lhmErase c.map k ++ [(⟨k, v, now⟩ : Entry K V)]).Pairwise
      (fun a b => a.stamp ≤ b.stamp) :=
    sorted_erase_append h.1 (fun a ha => Nat.le_trans (h.2 a ha) ht)
  have h2 : ∀ e ∈ lhmErase c.map k ++ [(⟨k, v, now⟩ : Entry K V)], e.stamp ≤ now := by
    intro e he
    rcases List.mem_append.1 he with he | he
    · exact Nat.le_trans (h.2 e (mem_lhmErase.1 he).1) ht
    · rw [List.mem_singleton] at he; rw [he]; exact Nat.le_refl _
  split
  · exact ⟨h1.sublist (List.tail_sublist _), fun e he => h2 e (List.mem_of_mem_tail he)⟩
  · exact ⟨h1, h2⟩

theorem insert_bounded {c : Cache K V} (now : Nat) (k : K) (v : V) (h : Bounded c) :
    Bounded (insert c now k v) := by
  unfold Bounded at *
  rw [insert_map, insert_capacity]
  have := length_lhmErase_le c.map k
  split
  · rw [List.length_tail, List.length_append, List.length_singleton]; omega
  · rename_i hgt; omega

theorem getMutWith_ttl (c : Cache K V) (now : Nat) (k : K) (f : V → V) :
    (getMutWith c now k f).1.ttl = c.ttl := by
  rcases getMutWith_cases c now k f with ⟨_, h⟩ | ⟨e, _, _, h⟩ | ⟨e, _, _, h⟩ <;> rw [h]

theorem getMutWith_capacity (c : Cache K V) (now : Nat) (k : K) (f : V → V) :
    (getMutWith c now k f).1.capacity = c.capacity := by
  rcases getMutWith_cases c now k f with ⟨_, h⟩ | ⟨e, _, _, h⟩ | ⟨e, _, _, h⟩ <;> rw [h]

theorem getMutWith_distinct {c : Cache K V} (now : Nat) (k : K) (f : V → V) (h : Distinct c) :
    Distinct (getMutWith c now k f).1 := by
  unfold Distinct at *
  rcases getMutWith_cases c now k f with ⟨_, hr⟩ | ⟨e, _, _, hr⟩ | ⟨e, hg, _, hr⟩ <;> rw [hr]
  · exact h
  · exact h.sublist (lhmErase_sublist _ _)
  · have hk := (lhmGet_some hg).2
    have := distinct_erase_append (e := ({ e with val := f e.val, stamp := now } : Entry K V)) h
    simpa [hk] using this

theorem getMutWith_sorted {c : Cache K V} {t : Nat} (now : Nat) (k : K) (f : V → V)
    (h : Sorted c t) (ht : t ≤ now) : Sorted (getMutWith c now k f).1 now := by
  unfold Sorted at *
  rcases getMutWith_cases c now k f with ⟨_, hr⟩ | ⟨e, _, _, hr⟩ | ⟨e, hg, _, hr⟩ <;> rw [hr]
  · exact ⟨h.1, fun e he => Nat.le_trans (h.2 e he) ht⟩
  · exact ⟨h.1.sublist (lhmErase_sublist _ _),
      fun a ha => Nat.le_trans (h.2 a (mem_lhmErase.1 ha).1) ht⟩
  · refine ⟨sorted_erase_append h.1 (fun a ha => Nat.le_trans (h.2 a ha) ht), ?_⟩
    intro a ha
    rcases List.mem_append.1 ha with ha | ha
    · exact Nat.le_trans (h.2 a (mem_lhmErase.1 ha).1) ht
    · rw [List.mem_singleton] at ha; rw [ha]; exact Nat.le_refl _

theorem getMutWith_bounded {c : Cache K V} (now : Nat) (k : K) (f : V → V) (h : Bounded c) :
    Bounded (getMutWith c now k f).1 := by
  unfold Bounded at *
  rcases getMutWith_cases c now k f with ⟨_, hr⟩ | ⟨e, _, _, hr⟩ | ⟨e, hg, _, hr⟩ <;> rw [hr]
  · exact h
  · exact Nat.le_trans (length_lhmErase_le _ _) h
  · have := length_lhmErase_lt (lhmGet_some hg).1 (lhmGet_some hg).2
    simp only [List.length_append, List.length_singleton]
    omega

theorem step_ttl (c : Cache K V) (now : Nat) (op : Op K V) : (step c now op).1.ttl = c.ttl := by
  cases op <;> simp only [step, get, getMut, remove, removeExpired, insert_ttl, getMutWith_ttl]

theorem step_capacity (c : Cache K V) (now : Nat) (op : Op K V) :
    (step c now op).1.capacity = c.capacity := by
  cases op <;>
    simp only [step, get, getMut, remove, removeExpired, insert_capacity, getMutWith_capacity]

/-- Every operation yields a sublist of the old list, possibly followed by one new entry, and
keeps distinctness. -/
theorem step_distinct {c : Cache K V} (now : Nat) (op : Op K V) (h : Distinct c) :
    Distinct (step c now op).1 := by
  cases op with
  | insert k v => exact insert_distinct now k v h
  | get k => exact getMutWith_distinct now k id h
  | getMut k w => exact getMutWith_distinct now k _ h
  | peek k => exact h
  | len => exact h
  | remove k => exact List.Pairwise.sublist (lhmErase_sublist _ _) h
  | sweep => exact List.Pairwise.sublist (List.dropWhile_sublist _) h

theorem step_sorted {c : Cache K V} {t : Nat} (now : Nat) (op : Op K V) (h : Sorted c t)
    (ht : t ≤ now) : Sorted (step c now op).1 now := by
  have hmono : Sorted c now := ⟨h.1, fun e he => Nat.le_trans (h.2 e he) ht⟩
  cases op with
  | insert k v => exact insert_sorted now k v h ht
  | get k => exact getMutWith_sorted now k id h ht
  | getMut k w => exact getMutWith_sorted now k _ h ht
  | peek k => exact hmono
  | len => exact hmono
  | remove k =>
    exact ⟨hmono.1.sublist (lhmErase_sublist _ _), fun e he => hmono.2 e (mem_lhmErase.1 he).1⟩
  | sweep =>
    exact ⟨hmono.1.sublist (List.dropWhile_sublist _),
      fun e he => hmono.2 e ((List.dropWhile_sublist _).subset he)⟩

theorem step_bounded {c : Cache K V} (now : Nat) (op : Op K V) (h : Bounded c) :
    Bounded (step c now op).1 := by
  cases op with
  | insert k v => exact insert_bounded now k v h
  | get k => exact getMutWith_bounded now k id h
  | getMut k w => exact getMutWith_bounded now k _ h
  | peek k => exact h
  | len => exact h
  | remove k => exact Nat.le_trans (length_lhmErase_le _ _) h
  | sweep => exact Nat.le_trans (List.dropWhile_sublist _).length_le h

theorem step_wf {c : Cache K V} {t : Nat} (now : Nat) (op : Op K V) (h : WF c t) (ht : t ≤ now) :
    WF (step c now op).1 now :=
  ⟨step_distinct now op h.distinct, step_sorted now op h.sorted ht, step_bounded now op h.bounded⟩

theorem run_bounded {c : Cache K V} (ops : List (Nat × Op K V)) (h : Bounded c) :
    Bounded (run c ops) := by
  induction ops generalizing c with
  | nil => exact h
  | cons p rest ih => exact ih (step_bounded p.1 p.2 h)

theorem run_distinct {c : Cache K V} (ops : List (Nat × Op K V)) (h : Distinct c) :
    Distinct (run c ops) := by
  induction ops generalizing c with
  | nil => exact h
  | cons p rest ih => exact ih (step_distinct p.1 p.2 h)

theorem run_capacity (c : Cache K V) (ops : List (Nat × Op K V)) :
    (run c ops).capacity = c.capacity := by
  induction ops generalizing c with
  | nil => rfl
  | cons p rest ih => exact (ih _).trans (step_capacity c p.1 p.2)

theorem run_ttl (c : Cache K V) (ops : List (Nat × Op K V)) : (run c ops).ttl = c.ttl := by
  induction ops generalizing c with
  | nil => rfl
  | cons p rest ih => exact (ih _).trans (step_ttl c p.1 p.2)

/-- The time of the last operation (or `t0` if there is none). -/
def lastTime (t0 : Nat) : List (Nat × Op K V) → Nat
  | [] => t0
  | (t, _) :: rest => lastTime t rest

theorem run_wf {c : Cache K V} {t0 : Nat} (ops : List (Nat × Op K V)) (h : WF c t0)
    (hm : NonDecreasing t0 ops) : WF (run c ops) (lastTime t0 ops) := by
  induction ops generalizing c t0 with
  | nil => exact h
  | cons p rest ih =>
    obtain ⟨t, op⟩ := p
    exact ih (step_wf t op h hm.1) hm.2

/-! ### eviction -/

/-- Inserting a key that is not in a full cache (capacity ≥ 1): the front entry goes, the new
entry is attached at the back, everything in between is untouched. -/
theorem insert_full_fresh {c : Cache K V} (now : Nat) {k : K} (v : V)
    (hfull : c.map.length = c.capacity) (hcap : 1 ≤ c.capacity) (hk : ∀ e ∈ c.map, e.key ≠ k) :
    (insert c now k v).map = c.map.tail ++ [(⟨k, v, now⟩ : Entry K V)] := by
  rw [insert_map, lhmErase_of_absent hk]
  have hne : c.map ≠ [] := by
    intro h; rw [h] at hfull; simp at hfull; omega
  rw [if_pos (by rw [List.length_append, List.length_singleton]; omega)]
  exact List.tail_append_of_ne_nil hne

/-- Inserting a key that is not in a cache with room left: nothing is evicted. -/
theorem insert_room_fresh {c : Cache K V} (now : Nat) {k : K} (v : V)
    (hroom : c.map.length < c.capacity) (hk : ∀ e ∈ c.map, e.key ≠ k) :
    (insert c now k v).map = c.map ++ [(⟨k, v, now⟩ : Entry K V)] := by
  rw [insert_map, lhmErase_of_absent hk]
  rw [if_neg (by rw [List.length_append, List.length_singleton]; omega)]

/-! ### the use log and the recency order -/

/-- Keys *used* by an operation: the key of an `insert`, and the key of a `get`/`get_mut` that
returned a value.  (`peek`, `len`, `remove`, the sweep and misses use nothing.) -/
def used (c : Cache K V) (now : Nat) : Op K V → List K
  | .insert k _ => [k]
  | .get k => if (getMutWith c now k id).2.isSome then [k] else []
  | .getMut k w => if (getMutWith c now k (fun _ => w)).2.isSome then [k] else []
  | _ => []

/-- The keys used along an operation sequence, oldest use first. -/
def useLog (c : Cache K V) : List (Nat × Op K V) → List K
  | [] => []
  | (t, op) :: rest => used c t op ++ useLog (step c t op).1 rest

/-- In the use log, the last use of `a` is earlier than the last use of `b`: after the last
occurrence of `a` there is still an occurrence of `b`. -/
def UsedBefore (log : List K) (a b : K) : Prop :=
  ∃ l1 l2, log = l1 ++ a :: l2 ∧ a ∉ l2 ∧ b ∈ l2

/-- The list order is the recency order of `log`: an entry nearer to the front was last used
earlier; every key held has been used. -/
def Recency (log : List K) (m : List (Entry K V)) : Prop :=
  m.Pairwise (fun a b => UsedBefore log a.key b.key) ∧ ∀ e ∈ m, e.key ∈ log

theorem exists_last_split {a : K} {l : List K} (h : a ∈ l) :
    ∃ l1 l2, l = l1 ++ a :: l2 ∧ a ∉ l2 := by
  induction l with
  | nil => cases h
  | cons x xs ih =>
    by_cases hin : a ∈ xs
    · obtain ⟨l1, l2, h1, h2⟩ := ih hin
      exact ⟨x :: l1, l2, by rw [h1]; rfl, h2⟩
    · rcases List.mem_cons.1 h with h | h
      · exact ⟨[], xs, by rw [h]; rfl, hin⟩
      · exact absurd h hin

omit [DecidableEq K] in
theorem usedBefore_snoc {log : List K} {a b k : K} (h : UsedBefore log a b) (hak : a ≠ k) :
    UsedBefore (log ++ [k]) a b := by
  obtain ⟨l1, l2, h1, h2, h3⟩ := h
  refine ⟨l1, l2 ++ [k], by rw [h1]; simp, ?_, List.mem_append_left _ h3⟩
  intro hmem
  rcases List.mem_append.1 hmem with hm | hm
  · exact h2 hm
  · exact hak (List.mem_singleton.1 hm)

theorem usedBefore_snoc_self {log : List K} {a k : K} (h : a ∈ log) (hak : a ≠ k) :
    UsedBefore (log ++ [k]) a k := by
  obtain ⟨l1, l2, h1, h2⟩ := exists_last_split h
  refine ⟨l1, l2 ++ [k], by rw [h1]; simp, ?_, by simp⟩
  intro hmem
  rcases List.mem_append.1 hmem with hm | hm
  · exact h2 hm
  · exact hak (List.mem_singleton.1 hm)

omit [DecidableEq K] in
theorem Recency.sublist {log : List K} {m m' : List (Entry K V)} (h : Recency log m)
    (hs : m'.Sublist m) : Recency log m' :=
  ⟨h.1.sublist hs, fun e he => h.2 e (hs.subset he)⟩

/-- Using `k` (attaching its entry at the back) keeps the list in recency order. -/
theorem Recency.touch {log : List K} {m : List (Entry K V)} {e : Entry K V} (h : Recency log m) :
    Recency (log ++ [e.key]) (lhmErase m e.key ++ [e]) := by
  refine ⟨?_, ?_⟩
  · rw [List.pairwise_append]
    refine ⟨?_, List.pairwise_singleton _ _, ?_⟩
    · refine List.Pairwise.imp_of_mem ?_ (h.1.sublist (lhmErase_sublist _ _))
      intro a b ha _ hab
      exact usedBefore_snoc hab (mem_lhmErase.1 ha).2
    · intro a ha b hb
      rw [List.mem_singleton] at hb
      rw [hb]
      have := mem_lhmErase.1 ha
      exact usedBefore_snoc_self (h.2 a this.1) this.2
  · intro a ha
    rcases List.mem_append.1 ha with ha | ha
    · exact List.mem_append_left _ (h.2 a (mem_lhmErase.1 ha).1)
    · rw [List.mem_singleton] at ha; rw [ha]; simp

theorem step_recency {log : List K} {c : Cache K V} (now : Nat) (op : Op K V)
    (h : Recency log c.map) : Recency (log ++ used c now op) (step c now op).1.map := by
  have hget : ∀ (k : K) (f : V → V),
      Recency (log ++ (if (getMutWith c now k f).2.isSome then [k] else []))
        (getMutWith c now k f).1.map := by
    intro k f
    rcases getMutWith_cases c now k f with ⟨_, hr⟩ | ⟨e, _, _, hr⟩ | ⟨e, hg, _, hr⟩ <;> rw [hr]
    · simpa using h
    · simpa using h.sublist (lhmErase_sublist _ _)
    · have hk := (lhmGet_some hg).2
      have := h.touch (e := ({ e with val := f e.val, stamp := now } : Entry K V))
      simpa [hk] using this
  cases op with
  | insert k v =>
    have h1 := h.touch (e := (⟨k, v, now⟩ : Entry K V))
    show Recency (log ++ [k]) (insert c now k v).map
    rw [insert_map]
    split
    · exact h1.sublist (List.tail_sublist _)
    · exact h1
  | get k => exact hget k id
  | getMut k w => exact hget k _
  | peek k => simpa [used, step] using h
  | len => simpa [used, step] using h
  | remove k => simpa [used, step, remove] using h.sublist (lhmErase_sublist _ _)
  | sweep => simpa [used, step, removeExpired] using h.sublist (List.dropWhile_sublist _)

theorem run_recency {log : List K} {c : Cache K V} (ops : List (Nat × Op K V))
    (h : Recency log c.map) : Recency (log ++ useLog c ops) (run c ops).map := by
  induction ops generalizing c log with
  | nil => simpa [useLog, run] using h
  | cons p rest ih =>
    obtain ⟨t, op⟩ := p
    have := ih (step_recency t op h)
    simpa [useLog, run, List.append_assoc] using this

/-! ### stamps of a key that is not used -/

/-- `insert k`, `get k`, `get_mut k`. -/
def usesKey (k : K) : Op K V → Bool
  | .insert k' _ => decide (k' = k)
  | .get k' => decide (k' = k)
  | .getMut k' _ => decide (k' = k)
  | _ => false

/-- `insert k`. -/
def insertsKey (k : K) : Op K V → Bool
  | .insert k' _ => decide (k' = k)
  | _ => false

/-- `get k`, `get_mut k`, `peek k`. -/
def queriesKey (k : K) : Op K V → Bool
  | .get k' => decide (k' = k)
  | .getMut k' _ => decide (k' = k)
  | .peek k' => decide (k' = k)
  | _ => false

/-- Whatever entry the cache holds for `k` was stamped at `s` or earlier. -/
def StampLe (c : Cache K V) (k : K) (s : Nat) : Prop := ∀ e ∈ c.map, e.key = k → e.stamp ≤ s

theorem getMutWith_mem {c : Cache K V} {now : Nat} {k : K} {f : V → V} {a : Entry K V}
    (ha : a ∈ (getMutWith c now k f).1.map) :
    a ∈ c.map ∨ (a.key = k ∧ a.stamp = now ∧ (getMutWith c now k f).2.isSome) := by
  rcases getMutWith_cases c now k f with ⟨_, hr⟩ | ⟨e, _, _, hr⟩ | ⟨e, hg, _, hr⟩ <;>
    rw [hr] at ha ⊢
  · exact Or.inl ha
  · exact Or.inl (mem_lhmErase.1 ha).1
  · rcases List.mem_append.1 ha with ha | ha
    · exact Or.inl (mem_lhmErase.1 ha).1
    · rw [List.mem_singleton] at ha
      exact Or.inr ⟨by rw [ha]; exact (lhmGet_some hg).2, by rw [ha], rfl⟩

theorem insert_mem {c : Cache K V} {now : Nat} {k : K} {v : V} {a : Entry K V}
    (ha : a ∈ (insert c now k v).map) : a ∈ c.map ∨ a = ⟨k, v, now⟩ := by
  rw [insert_map] at ha
  have : a ∈ lhmErase c.map k ++ [(⟨k, v, now⟩ : Entry K V)] := by
    split at ha
    · exact List.mem_of_mem_tail ha
    · exact ha
  rcases List.mem_append.1 this with h | h
  · exact Or.inl (mem_lhmErase.1 h).1
  · exact Or.inr (List.mem_singleton.1 h)

/-- An entry after an operation was there before, unless the operation used its key. -/
theorem step_mem {c : Cache K V} {now : Nat} {op : Op K V} {a : Entry K V}
    (ha : a ∈ (step c now op).1.map) : a ∈ c.map ∨ (usesKey a.key op = true ∧ a.stamp = now) := by
  cases op with
  | insert k v =>
    rcases insert_mem ha with h | h
    · exact Or.inl h
    · exact Or.inr (by rw [h]; simp [usesKey])
  | get k =>
    rcases getMutWith_mem ha with h | ⟨h1, h2, _⟩
    · exact Or.inl h
    · exact Or.inr ⟨by simp [usesKey, h1], h2⟩
  | getMut k w =>
    rcases getMutWith_mem ha with h | ⟨h1, h2, _⟩
    · exact Or.inl h
    · exact Or.inr ⟨by simp [usesKey, h1], h2⟩
  | peek k => exact Or.inl ha
  | len => exact Or.inl ha
  | remove k => exact Or.inl (mem_lhmErase.1 ha).1
  | sweep => exact Or.inl ((List.dropWhile_sublist _).subset ha)

theorem step_stampLe_of_not_uses {c : Cache K V} {k : K} {s : Nat} (now : Nat) {op : Op K V}
    (h : StampLe c k s) (hu : usesKey k op = false) : StampLe (step c now op).1 k s := by
  intro a ha hk
  rcases step_mem ha with h1 | ⟨h1, _⟩
  · exact h a h1 hk
  · rw [hk, hu] at h1; cases h1

theorem run_stampLe_of_not_uses {c : Cache K V} {k : K} {s : Nat} (ops : List (Nat × Op K V))
    (h : StampLe c k s) (hu : ∀ p ∈ ops, usesKey k p.2 = false) : StampLe (run c ops) k s := by
  induction ops generalizing c with
  | nil => exact h
  | cons p rest ih =>
    exact ih (step_stampLe_of_not_uses p.1 h (hu p (List.mem_cons_self ..)))
      (fun q hq => hu q (List.mem_cons_of_mem _ hq))

/-- After the deadline `s + ttl` a query for `k` is a miss and nothing but `insert k` can bring
an entry for `k` with a later stamp. -/
theorem step_after_deadline {c : Cache K V} {k : K} {s : Nat} {now : Nat} {op : Op K V}
    (h : StampLe c k s) (hdead : s + c.ttl < now) (hins : insertsKey k op = false) :
    StampLe (step c now op).1 k s ∧
      (queriesKey k op = true → (step c now op).2 = Reply.val none) := by
  have hmiss : ∀ f : V → V, (getMutWith c now k f).2 = none ∧
      StampLe (getMutWith c now k f).1 k s := by
    intro f
    rcases getMutWith_cases c now k f with ⟨_, hr⟩ | ⟨e, _, _, hr⟩ | ⟨e, hg, hx, hr⟩
    · rw [hr]; exact ⟨rfl, h⟩
    · rw [hr]; exact ⟨rfl, fun a ha hk => h a (mem_lhmErase.1 ha).1 hk⟩
    · have := h e (lhmGet_some hg).1 (lhmGet_some hg).2
      exact absurd (by omega) hx
  cases op with
  | insert k' v =>
    have hne : k' ≠ k := by simpa [insertsKey] using hins
    exact ⟨step_stampLe_of_not_uses now h (by simp [usesKey, hne]), by simp [queriesKey]⟩
  | get k' =>
    by_cases hk : k' = k
    · subst hk
      exact ⟨(hmiss id).2, fun _ => by simp [step, get, getMut, (hmiss id).1]⟩
    · exact ⟨step_stampLe_of_not_uses now h (by simp [usesKey, hk]), by simp [queriesKey, hk]⟩
  | getMut k' w =>
    by_cases hk : k' = k
    · subst hk
      exact ⟨(hmiss _).2, fun _ => by simp [step, (hmiss _).1]⟩
    · exact ⟨step_stampLe_of_not_uses now h (by simp [usesKey, hk]), by simp [queriesKey, hk]⟩
  | peek k' =>
    refine ⟨h, ?_⟩
    intro hq
    have hk : k' = k := by simpa [queriesKey] using hq
    subst hk
    simp only [step, peek]
    cases hg : lhmGet c.map k' with
    | none => rfl
    | some e =>
      have := h e (lhmGet_some hg).1 (lhmGet_some hg).2
      simp only []
      rw [if_neg (by omega)]
  | len => exact ⟨h, by simp [queriesKey]⟩
  | remove k' =>
    exact ⟨step_stampLe_of_not_uses now h (by simp [usesKey]), by simp [queriesKey]⟩
  | sweep => exact ⟨step_stampLe_of_not_uses now h (by simp [usesKey]), by simp [queriesKey]⟩

theorem trace_after_deadline {c : Cache K V} {k : K} {s : Nat} (ops : List (Nat × Op K V))
    (h : StampLe c k s) (hops : ∀ p ∈ ops, s + c.ttl < p.1 ∧ insertsKey k p.2 = false) :
    ∀ x ∈ trace c ops, queriesKey k x.2.1 = true → x.2.2 = Reply.val none := by
  induction ops generalizing c with
  | nil => intro x hx; cases hx
  | cons p rest ih =>
    obtain ⟨t, op⟩ := p
    have hp := hops (t, op) (List.mem_cons_self ..)
    have hs := step_after_deadline h hp.1 hp.2
    intro x hx
    rcases List.mem_cons.1 hx with hx | hx
    · rw [hx]; exact hs.2
    · refine ih hs.1 ?_ x hx
      intro q hq
      rw [step_ttl]
      exact hops q (List.mem_cons_of_mem _ hq)

/-! ### the specification: a bounded LRU map of live entries -/

/-- The entries that are alive at `now` (not expired), in list order. -/
def live (ttl now : Nat) (m : List (Entry K V)) : List (Entry K V) :=
  m.filter (fun e => !expired ttl now e)

namespace Spec

/-- Specification state: the live entries, least recently used first.  Each entry is
`key ↦ (value, time of last use)`.  Every operation first forgets what has expired. -/
def insert (cap now : Nat) (k : K) (v : V) (s : List (Entry K V)) : List (Entry K V) :=
  if (lhmErase s k ++ [(⟨k, v, now⟩ : Entry K V)]).length > cap
  then (lhmErase s k ++ [(⟨k, v, now⟩ : Entry K V)]).tail
  else lhmErase s k ++ [(⟨k, v, now⟩ : Entry K V)]

/-- A hit makes the entry the most recently used one, last used `now`. -/
def getMutWith (now : Nat) (k : K) (f : V → V) (s : List (Entry K V)) :
    List (Entry K V) × Option V :=
  match lhmGet s k with
  | some e => (lhmErase s k ++ [{ e with val := f e.val, stamp := now }], some e.val)
  | none => (s, none)

def peek (k : K) (s : List (Entry K V)) : Option V := (lhmGet s k).map (·.val)

/-- One operation of the specification at time `now`: expire, then act on the live map. -/
def step (ttl cap now : Nat) (s : List (Entry K V)) : Op K V → List (Entry K V) × Reply K V
  | .insert k v => (insert cap now k v (live ttl now s), .unit)
  | .get k => let r := getMutWith now k id (live ttl now s); (r.1, .val r.2)
  | .getMut k w => let r := getMutWith now k (fun _ => w) (live ttl now s); (r.1, .val r.2)
  | .peek k => (live ttl now s, .val (peek k (live ttl now s)))
  | .len => (live ttl now s, .num (live ttl now s).length)
  | .remove k => (lhmErase (live ttl now s) k, .val (peek k (live ttl now s)))
  | .sweep => (live ttl now s, .keys [])

def run (ttl cap : Nat) (s : List (Entry K V)) : List (Nat × Op K V) → List (Entry K V)
  | [] => s
  | (t, op) :: rest => run ttl cap (step ttl cap t s op).1 rest

end Spec

/-- How a reply of the cache relates to the reply of the specification: identical for `insert`,
`get`, `get_mut`, `peek`; `len` may additionally count dead entries not yet dropped; `remove`
returns what the specification returns when that is a value, but may also hand back the value
of a dead entry; the sweep reports which dead entries it physically dropped. -/
def ReplyRefines : Op K V → Reply K V → Reply K V → Prop
  | .len, .num n, .num n' => n' ≤ n
  | .len, _, _ => False
  | .remove _, .val o, .val o' => o'.isSome → o = o'
  | .remove _, _, _ => False
  | .sweep, _, _ => True
  | _, r, r' => r = r'

omit [DecidableEq K] in
theorem live_sublist (ttl now : Nat) (m : List (Entry K V)) : (live ttl now m).Sublist m :=
  List.filter_sublist

omit [DecidableEq K] in
theorem mem_live {ttl now : Nat} {m : List (Entry K V)} {e : Entry K V} :
    e ∈ live ttl now m ↔ e ∈ m ∧ ¬ e.stamp + ttl < now := by
  simp [live, expired]

omit [DecidableEq K] in
/-- Time only moves forward: what is dead stays dead. -/
theorem live_live {ttl t now : Nat} (m : List (Entry K V)) (h : t ≤ now) :
    live ttl now (live ttl t m) = live ttl now m := by
  unfold live
  rw [List.filter_filter]
  apply List.filter_congr
  intro e _
  simp only [expired]
  by_cases h1 : e.stamp + ttl < now
  · simp [h1]
  · have : ¬ e.stamp + ttl < t := by omega
    simp [h1, this]

theorem live_lhmErase (ttl now : Nat) (m : List (Entry K V)) (k : K) :
    live ttl now (lhmErase m k) = lhmErase (live ttl now m) k := by
  unfold live lhmErase
  rw [List.filter_filter, List.filter_filter]
  apply List.filter_congr
  intro e _
  exact Bool.and_comm _ _

omit [DecidableEq K] in
theorem live_append_fresh (ttl now : Nat) (m : List (Entry K V)) (k : K) (v : V) :
    live ttl now (m ++ [Entry.mk k v now]) = live ttl now m ++ [Entry.mk k v now] := by
  unfold live
  rw [List.filter_append]
  congr 1
  simp [expired]

omit [DecidableEq K] in
theorem live_eq_self {ttl now : Nat} {m : List (Entry K V)}
    (h : ∀ e ∈ m, ¬ e.stamp + ttl < now) : live ttl now m = m := by
  unfold live
  rw [List.filter_eq_self]
  intro e he
  simp [expired, h e he]

/-- Lookup in the live part: the entry of the full list if it is alive. -/
theorem lhmGet_live {ttl now : Nat} {m : List (Entry K V)} (k : K)
    (hd : m.Pairwise (fun a b => a.key ≠ b.key)) :
    (∀ e, lhmGet m k = some e → ¬ e.stamp + ttl < now → lhmGet (live ttl now m) k = some e) ∧
    (∀ e, lhmGet m k = some e → e.stamp + ttl < now → lhmGet (live ttl now m) k = none) ∧
    (lhmGet m k = none → lhmGet (live ttl now m) k = none) := by
  refine ⟨?_, ?_, ?_⟩
  · intro e hg hx
    have hm := lhmGet_some hg
    have := lhmGet_of_mem (hd.sublist (live_sublist ttl now m)) (mem_live.2 ⟨hm.1, hx⟩)
    rwa [hm.2] at this
  · intro e hg hx
    rw [lhmGet_none]
    intro a ha hk
    have ham := mem_live.1 ha
    have := lhmGet_of_mem hd ham.1
    rw [hk, hg] at this
    injection this with this
    rw [this] at hx
    exact ham.2 hx
  · intro hg
    rw [lhmGet_none] at hg ⊢
    intro a ha
    exact hg a (mem_live.1 ha).1

omit [DecidableEq K] in
/-- In a list sorted by stamp, if the front entry is alive then every entry is. -/
theorem live_of_front_live {ttl now : Nat} {x : Entry K V} {xs : List (Entry K V)}
    (hs : (x :: xs).Pairwise (fun a b => a.stamp ≤ b.stamp)) (hx : ¬ x.stamp + ttl < now) :
    ∀ e ∈ x :: xs, ¬ e.stamp + ttl < now := by
  intro e he
  rw [List.pairwise_cons] at hs
  rcases List.mem_cons.1 he with h | h
  · rw [h]; exact hx
  · have := hs.1 e h; omega

theorem insert_refines {c : Cache K V} {t : Nat} (now : Nat) (k : K) (v : V) (h : WF c t)
    (ht : t ≤ now) :
    live c.ttl now (insert c now k v).map = Spec.insert c.capacity now k v (live c.ttl now c.map) := by
  have hsorted : (lhmErase c.map k ++ [(⟨k, v, now⟩ : Entry K V)]).Pairwise
      (fun a b => a.stamp ≤ b.stamp) :=
    sorted_erase_append h.sorted.1 (fun a ha => Nat.le_trans (h.sorted.2 a ha) ht)
  have hlive : live c.ttl now (lhmErase c.map k ++ [(⟨k, v, now⟩ : Entry K V)]) =
      lhmErase (live c.ttl now c.map) k ++ [(⟨k, v, now⟩ : Entry K V)] := by
    rw [live_append_fresh, live_lhmErase]
  have hlen : (lhmErase c.map k ++ [(⟨k, v, now⟩ : Entry K V)]).length ≤ c.capacity + 1 := by
    have := length_lhmErase_le c.map k
    have := h.bounded
    unfold Bounded at this
    rw [List.length_append, List.length_singleton]; omega
  rw [insert_map]
  unfold Spec.insert
  rw [← hlive]
  generalize hm1 : lhmErase c.map k ++ [(⟨k, v, now⟩ : Entry K V)] = m1 at *
  by_cases hgt : m1.length > c.capacity
  · rw [if_pos hgt]
    cases m1 with
    | nil => simp at hgt
    | cons x xs =>
      simp only [List.tail_cons]
      by_cases hx : x.stamp + c.ttl < now
      · -- the evicted front entry was dead: the live part does not change and fits
        have hl : live c.ttl now (x :: xs) = live c.ttl now xs := by
          unfold live; rw [List.filter_cons]; simp [expired, hx]
        rw [hl]
        have : (live c.ttl now xs).length ≤ xs.length := (live_sublist _ _ _).length_le
        simp only [List.length_cons] at hlen
        rw [if_neg (by omega)]
      · -- the front entry is alive, hence (sorted) all are: the live part is the whole list
        have hall := live_of_front_live hsorted hx
        rw [live_eq_self hall, if_pos hgt, List.tail_cons]
        exact live_eq_self (fun e he => hall e (List.mem_cons_of_mem _ he))
  · rw [if_neg hgt]
    have : (live c.ttl now m1).length ≤ m1.length := (live_sublist _ _ _).length_le
    rw [if_neg (by omega)]

theorem getMutWith_refines {c : Cache K V} (now : Nat) (k : K) (f : V → V) (h : Distinct c) :
    live c.ttl now (getMutWith c now k f).1.map =
        (Spec.getMutWith now k f (live c.ttl now c.map)).1 ∧
      (getMutWith c now k f).2 = (Spec.getMutWith now k f (live c.ttl now c.map)).2 := by
  have hl := lhmGet_live (ttl := c.ttl) (now := now) k h
  unfold Spec.getMutWith
  rcases getMutWith_cases c now k f with ⟨hg, hr⟩ | ⟨e, hg, hx, hr⟩ | ⟨e, hg, hx, hr⟩ <;> rw [hr]
  · rw [hl.2.2 hg]; exact ⟨rfl, rfl⟩
  · rw [hl.2.1 e hg hx]
    simp only []
    rw [live_lhmErase, lhmErase_of_absent (lhmGet_none.1 (hl.2.1 e hg hx))]
    exact ⟨rfl, trivial⟩
  · rw [hl.1 e hg hx]
    simp only []
    rw [live_append_fresh, live_lhmErase]
    exact ⟨rfl, trivial⟩

theorem peek_refines {c : Cache K V} (now : Nat) (k : K) (h : Distinct c) :
    peek c now k = Spec.peek k (live c.ttl now c.map) := by
  have hl := lhmGet_live (ttl := c.ttl) (now := now) k h
  unfold peek Spec.peek
  cases hg : lhmGet c.map k with
  | none => rw [hl.2.2 hg]; rfl
  | some e =>
    by_cases hx : e.stamp + c.ttl < now
    · rw [hl.2.1 e hg hx]; simp only []; rw [if_neg (by omega)]; rfl
    · rw [hl.1 e hg hx]; simp only []; rw [if_pos (by omega)]; rfl

omit [DecidableEq K] in
/-- The sweep drops dead entries only. -/
theorem live_dropWhile (ttl now : Nat) (m : List (Entry K V)) :
    live ttl now (m.dropWhile (expired ttl now)) = live ttl now m := by
  induction m with
  | nil => rfl
  | cons x xs ih =>
    rw [List.dropWhile_cons]
    by_cases hx : expired ttl now x = true
    · rw [if_pos hx, ih]
      unfold live
      rw [List.filter_cons]
      simp [hx]
    · rw [if_neg hx]

omit [DecidableEq K] in
/-- On a list sorted by stamp the sweep drops *every* dead entry. -/
theorem dropWhile_eq_live {ttl now : Nat} {m : List (Entry K V)}
    (hs : m.Pairwise (fun a b => a.stamp ≤ b.stamp)) :
    m.dropWhile (expired ttl now) = live ttl now m := by
  induction m with
  | nil => rfl
  | cons x xs ih =>
    rw [List.dropWhile_cons]
    by_cases hx : expired ttl now x = true
    · rw [if_pos hx, ih (List.pairwise_cons.1 hs).2]
      unfold live
      rw [List.filter_cons]
      simp [hx]
    · rw [if_neg hx]
      have hx' : ¬ x.stamp + ttl < now := by simpa [expired] using hx
      exact (live_eq_self (live_of_front_live hs hx')).symm

/-- Every operation commutes with the abstraction `live`: the live part of the cache after the
operation is what the specification computes from the live part before it. -/
theorem step_refines {c : Cache K V} {t : Nat} (now : Nat) (op : Op K V) (h : WF c t)
    (ht : t ≤ now) :
    live c.ttl now (step c now op).1.map =
        (Spec.step c.ttl c.capacity now (live c.ttl t c.map) op).1 ∧
      ReplyRefines op (step c now op).2 (Spec.step c.ttl c.capacity now (live c.ttl t c.map) op).2 := by
  cases op with
  | insert k v =>
    simp only [step, Spec.step, live_live _ ht, ReplyRefines]
    exact ⟨insert_refines now k v h ht, trivial⟩
  | get k =>
    simp only [step, get, getMut, Spec.step, live_live _ ht, ReplyRefines]
    have := getMutWith_refines now k id h.distinct
    exact ⟨this.1, by rw [this.2]⟩
  | getMut k w =>
    simp only [step, Spec.step, live_live _ ht, ReplyRefines]
    have := getMutWith_refines now k (fun _ => w) h.distinct
    exact ⟨this.1, by rw [this.2]⟩
  | peek k =>
    simp only [step, Spec.step, live_live _ ht, ReplyRefines]
    exact ⟨trivial, by rw [peek_refines now k h.distinct]⟩
  | len =>
    simp only [step, Spec.step, live_live _ ht, ReplyRefines, len]
    exact ⟨trivial, (live_sublist _ _ _).length_le⟩
  | remove k =>
    simp only [step, remove, Spec.step, live_live _ ht, ReplyRefines]
    refine ⟨live_lhmErase _ _ _ _, ?_⟩
    have hl := lhmGet_live (ttl := c.ttl) (now := now) k h.distinct
    unfold Spec.peek
    cases hg : lhmGet c.map k with
    | none => rw [hl.2.2 hg]; simp
    | some e =>
      by_cases hx : e.stamp + c.ttl < now
      · rw [hl.2.1 e hg hx]; simp
      · rw [hl.1 e hg hx]; simp
  | sweep =>
    simp only [step, removeExpired, Spec.step, live_live _ ht, ReplyRefines]
    exact ⟨live_dropWhile _ _ _, trivial⟩

theorem run_refines {c : Cache K V} {t0 : Nat} (ops : List (Nat × Op K V)) (h : WF c t0)
    (hm : NonDecreasing t0 ops) :
    live c.ttl (lastTime t0 ops) (run c ops).map =
      Spec.run c.ttl c.capacity (live c.ttl t0 c.map) ops := by
  induction ops generalizing c t0 with
  | nil => rfl
  | cons p rest ih =>
    obtain ⟨t, op⟩ := p
    have hs := step_refines t op h hm.1
    have := ih (step_wf t op h hm.1) hm.2
    rw [step_ttl, step_capacity] at this
    simp only [run, Spec.run, lastTime]
    rw [this, hs.1]

end Discv5.Lru

/-
What a lookup hands over: the ids of the records are, in order, ids of `into_result()` of the lookup's
final state (some may be missing: no record could be found for them) - so what `Props/C10.lean` proves
of `into_result` (increasing distance, every node answered this lookup's request, predicate) holds of
the records the caller receives.  Needs the routing table to file every record under its own node id
(`Keyed`; part of C12's table policy, an invariant of every run).
-/
import Discv5Model.Proofs.LookupLedger
import Discv5Model.Proofs.ServicePolicy
import Discv5Model.Props.C12

namespace Discv5.Lookup

open Discv5.KB
open Discv5.Svc
open Discv5.Svc.Svc

/-- Every stored and pending record of the table is filed under its own node id. -/
def Keyed (s : Svc) : Prop := TVals (fun k (r : Rec) => r.id = k) s.table

theorem keyed_of_policy {s : Svc} (h : Discv5.Props.C12.TablePolicy s) : Keyed s :=
  fun b hb => ⟨fun n hn => ((h b hb).1 n hn).2.2.1, fun p hp => ((h b hb).2 p hp).2.2.1⟩

theorem findEnr_keyed (s : Svc) (id : Nat) (h : Keyed s) : Keyed (s.findEnr id).1 :=
  (findEnr_step (P := fun k (r : Rec) => r.id = k) (o := {}) s id).vals h

theorem findEnr_id (s : Svc) (id : Nat) (r : Rec) (h : Keyed s) (hr : (s.findEnr id).2 = some r) : r.id = id := by
  have he := (entry_step (P := fun k (r : Rec) => r.id = k) (o := {}) s id).vals h
  have hl := entry_lookup s id
  unfold findEnr at hr
  generalize s.entry id = x at he hl hr
  obtain ⟨s1, l⟩ := x
  simp only at he hl hr
  cases l with
  | present v st =>
    simp only at hr
    cases hr
    exact TVals.of_hasPair he (lookup_present hl.symm)
  | pending v st =>
    simp only at hr
    cases hq : s1.query with
    | none => rw [hq] at hr; cases hr
    | some q =>
      rw [hq] at hr
      simp only at hr
      have := List.find?_some hr
      simpa using this
  | absent =>
    simp only at hr
    cases hq : s1.query with
    | none => rw [hq] at hr; cases hr
    | some q =>
      rw [hq] at hr
      simp only at hr
      have := List.find?_some hr
      simpa using this
  | self =>
    simp only at hr
    cases hq : s1.query with
    | none => rw [hq] at hr; cases hr
    | some q =>
      rw [hq] at hr
      simp only at hr
      have := List.find?_some hr
      simpa using this

theorem collect_ids : ∀ (ids : List Nat) (s : Svc) (u found : List Rec), Keyed s →
    ∃ l : List Nat, l.Sublist ids ∧ (collect s u ids found).2.map (·.id) = found.map (·.id) ++ l := by
  intro ids
  induction ids with
  | nil => intro s u found _; exact ⟨[], List.Sublist.refl _, by simp [collect]⟩
  | cons id ids ih =>
    intro s u found hk
    unfold collect
    split
    · rename_i i hfi
      split
      · rename_i r hr
        obtain ⟨l, hl, he⟩ := ih s (swapRemove u i) (found ++ [r]) hk
        have hid : r.id = id := by
          have := List.findIdx?_eq_some_iff_getElem.mp hfi
          obtain ⟨hlt, hp, _⟩ := this
          have hr' : u[i] = r := by
            have := List.getElem?_eq_getElem hlt
            rw [this] at hr; exact Option.some.inj hr
          rw [hr'] at hp
          simpa using hp
        refine ⟨id :: l, List.Sublist.cons_cons _ hl, ?_⟩
        rw [he]; simp [hid]
      · obtain ⟨l, hl, he⟩ := ih s u found hk
        exact ⟨l, List.Sublist.cons _ hl, he⟩
    · have hk1 := findEnr_keyed s id hk
      have hid := findEnr_id s id
      generalize s.findEnr id = z at hk1 hid
      obtain ⟨s1, known⟩ := z
      cases known with
      | some r =>
        obtain ⟨l, hl, he⟩ := ih s1 u (found ++ [r]) hk1
        have : r.id = id := hid r hk rfl
        refine ⟨id :: l, List.Sublist.cons_cons _ hl, ?_⟩
        simp only
        rw [he]; simp [this]
      | none =>
        obtain ⟨l, hl, he⟩ := ih s1 u found hk1
        exact ⟨l, List.Sublist.cons _ hl, he⟩

theorem sendRpcQuery_keyed (s : Svc) (p : Nat) (h : Keyed s) : Keyed (s.sendRpcQuery p).1 :=
  (sendRpcQuery_step (P := fun k (r : Rec) => r.id = k) (o := {}) s p).vals h

theorem startQuery_keyed (s : Svc) (t : Nat) (h : Keyed s) : Keyed (s.startQuery t) :=
  (startQuery_step (P := fun k (r : Rec) => r.id = k) (o := {}) s t).vals h

/-- The result the loop hands over: its ids are a sublist of `into_result` of a state the lookup
reached (same configuration, same target). -/
theorem pumpLoop_result_ids (c : LCfg) (now : Nat) :
    ∀ (fuel : Nat) (s : Svc) (q : Q) (outs : List Out) (found : List Rec), IsHistory c q → Keyed s →
      (pumpLoop now fuel s q outs).2.2.2 = some found →
      ∃ q', IsHistory c q' ∧ q'.target = q.target ∧ q'.cfg = q.cfg ∧
        (found.map (·.id)).Sublist (Query.intoResult q') := by
  intro fuel
  induction fuel with
  | zero => intro s q outs found _ _ h; simp only [pumpLoop] at h; cases h
  | succ fuel ih =>
    intro s q outs found hq hk h
    have hn := hq.next now
    have hc := Query.next_const q now
    unfold pumpLoop at h
    generalize Query.next q now = r at h hn hc
    obtain ⟨q1, st⟩ := r
    simp only at hc hn
    cases st with
    | waiting op =>
      cases op with
      | none => simp only at h; cases h
      | some p =>
        simp only at h
        have hk1 := sendRpcQuery_keyed s p hk
        split at h
        · obtain ⟨q', h1, h2, h3, h4⟩ := ih _ _ _ found (hn.onFailure p) hk1 h
          have hf := Query.onFailure_const q1 p
          exact ⟨q', h1, by rw [h2, hf.2.2, hc.2.2], by rw [h3, hf.1, hc.1], h4⟩
        · obtain ⟨q', h1, h2, h3, h4⟩ := ih _ _ _ found hn hk1 h
          exact ⟨q', h1, by rw [h2, hc.2.2], by rw [h3, hc.1], h4⟩
    | waitingAtCapacity => simp only at h; cases h
    | finished =>
      simp only at h
      cases h
      have hk1 : Keyed (s.step {} .queryFinished).1 := hk
      obtain ⟨l, hl, he⟩ := collect_ids (Query.intoResult q1) (s.step {} .queryFinished).1
        (match s.query with | some qq => qq.untrusted | none => []) [] hk1
      refine ⟨q1, hn, hc.2.2, hc.1, ?_⟩
      show (List.map (·.id) (collect (s.step {} .queryFinished).1
        (match s.query with | some qq => qq.untrusted | none => []) (Query.intoResult q1) []).2).Sublist _
      rw [he]
      simpa using hl

end Discv5.Lookup

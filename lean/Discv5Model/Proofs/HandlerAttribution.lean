/-
Helper lemmas for `Props/C02Attribution.lean` (handler model):

* `Ext os0 P os`: the output log `os` is `os0` followed by outputs that all satisfy `P` (so the
  lemmas speak about exactly the outputs a call appends, from any starting log);
* `failSession … true` leaves no session for the address and only appends failure / expiry reports;
* `handleMessage` on an undecryptable packet for a live session (`handleMessage_undecryptable`);
* `handleResponse` / `handleMessage` append a `response` only for a request id that is outstanding
  to the very node address they were called with (`handleResponse_ext`, `handleMessage_ext`);
* walk N: every handler function other than `handleResponse` / `handleMessage` /
  `handleAuthMessage` appends no `response` at all (`N_stepM`);
* walk Q: on the way from a handshake packet to the message it carries (`newSession`), an active or
  queued request for the sender's address was already active or queued before (`Q_newSession`),
  hence `handleAuthMessage_ext`.
-/
import Discv5Model.Proofs.HandlerCrypto
import Discv5Model.Proofs.HandlerIdentity
import Discv5Model.Proofs.HandlerRequests
namespace Discv5.H.AT
open Cr RQ

abbrev St := HState × List Out

/-- The output log `os` is `os0` followed by new outputs that all satisfy `P`. -/
def Ext (os0 : List Out) (P : Out → Prop) (os : List Out) : Prop :=
  ∃ new, os = os0 ++ new ∧ ∀ o ∈ new, P o

theorem Ext.refl (os0 : List Out) (P : Out → Prop) : Ext os0 P os0 :=
  ⟨[], (List.append_nil _).symm, fun _ h => nomatch h⟩

theorem Ext.snoc {os0 os : List Out} {P : Out → Prop} {o : Out} (h : Ext os0 P os) (ho : P o) :
    Ext os0 P (os ++ [o]) := by
  obtain ⟨new, rfl, hn⟩ := h
  refine ⟨new ++ [o], (List.append_assoc ..), fun x hx => ?_⟩
  rcases List.mem_append.1 hx with hx | hx
  · exact hn x hx
  · rw [List.mem_singleton.1 hx]; exact ho

theorem Ext.mono {os0 os : List Out} {P Q : Out → Prop} (h : Ext os0 P os) (hpq : ∀ o, P o → Q o) :
    Ext os0 Q os :=
  let ⟨new, h1, h2⟩ := h; ⟨new, h1, fun o ho => hpq o (h2 o ho)⟩

/-- From the empty log: every output satisfies `P`. -/
theorem Ext.all {os : List Out} {P : Out → Prop} (h : Ext [] P os) : ∀ o ∈ os, P o := by
  obtain ⟨new, rfl, hn⟩ := h
  simpa using hn

/-- The session cache holds no entry for `na`. -/
def Gone (na : NA) (s : HState) : Prop := ∀ e ∈ s.sessions, e.1 ≠ na

theorem gone_filter (na : NA) (l : List (NA × Session × Nat)) :
    ∀ e ∈ l.filter (·.1 != na), e.1 ≠ na := by
  intro e he
  have := (List.mem_filter.1 he).2
  simpa using this

/-! ### `failSession` -/

theorem tail_ext (os0 : List Out) (P : Out → Prop) (hf : ∀ rid e, P (.failed rid e)) :
    HI.Tail (fun st => Ext os0 P st.2) where
  failed := fun _ rid e h => h.snoc (hf rid e)
  exempt := fun _ _ h => h
  active := fun _ _ h => h
  pending := fun _ _ h => h

theorem tail_gone_ext (na : NA) (os0 : List Out) (P : Out → Prop) (hf : ∀ rid e, P (.failed rid e)) :
    HI.Tail (fun st => Gone na st.1 ∧ Ext os0 P st.2) where
  failed := fun _ rid e h => ⟨h.1, h.2.snoc (hf rid e)⟩
  exempt := fun _ _ h => h
  active := fun _ _ h => h
  pending := fun _ _ h => h

theorem removeExpiredSessions_ext (c : Cfg) (os0 : List Out) (P : Out → Prop)
    (hexp : ∀ l, P (.expired l)) (st : St) (h : Ext os0 P st.2) :
    wp (removeExpiredSessions c) (fun _ st' => Ext os0 P st'.2) st := by
  unfold removeExpiredSessions
  cr_wpsimp
  exact ⟨fun _ => h.snoc (hexp _), fun _ => h⟩

/-- `failSession … true`: afterwards the cache has no entry for `na`, and only `failed` / `expired`
reports were appended. -/
theorem failSession_true_gone (c : Cfg) (na : NA) (e : Err) (os0 : List Out) (P : Out → Prop)
    (hf : ∀ rid e, P (.failed rid e)) (hexp : ∀ l, P (.expired l)) (st : St) (h : Ext os0 P st.2) :
    wp (failSession c na e true) (fun _ st' => Gone na st'.1 ∧ Ext os0 P st'.2) st := by
  rw [HI.failSession_true, wp_bind]
  refine wp_mono (removeExpiredSessions_ext c os0 P hexp st h) (fun _ st1 h1 => ?_)
  rw [wp_bind]; unfold sessRemove; rw [wp_modS]
  exact HI.tail_failSession (tail_gone_ext na os0 P hf) c na e _ ⟨gone_filter na _, h1⟩

theorem failSession_ext (c : Cfg) (na : NA) (e : Err) (b : Bool) (os0 : List Out) (P : Out → Prop)
    (hf : ∀ rid e, P (.failed rid e)) (hexp : ∀ l, P (.expired l)) (st : St) (h : Ext os0 P st.2) :
    wp (failSession c na e b) (fun _ st' => Ext os0 P st'.2) st := by
  cases b
  · exact HI.tail_failSession (tail_ext os0 P hf) c na e st h
  · exact wp_mono (failSession_true_gone c na e os0 P hf hexp st h) (fun _ _ h' => h'.2)

/-! ### `sessGetMut` -/

/-- `sessGetMut` hands out a session exactly when the cache has an entry for the address that has
not outlived the session timeout. -/
theorem sessGetMut_some_iff (c : Cfg) (na : NA) (st : St) (sess : Session) :
    (sessGetMut c na st).1 = some sess ↔
      ∃ stamp, st.1.sessions.find? (·.1 == na) = some (na, sess, stamp) ∧
        ¬ stamp + c.sessionTtl < st.1.rt := by
  show wp (sessGetMut c na) (fun r _ => r = some sess ↔ _) st
  rw [wp_sessGetMut]
  refine ⟨fun h0 => ?_, fun x sess' stamp' hf' => ?_⟩
  · simp [h0]
  · have hx : x = na := by simpa using List.find?_some hf'
    subst hx
    refine ⟨fun hx => ?_, fun hx => ?_⟩
    · simp only [reduceCtorEq, false_iff, not_exists, not_and]
      intro stamp hs hn
      rw [hf'] at hs
      simp only [Option.some.injEq, Prod.mk.injEq] at hs
      rw [← hs.2.2] at hn; exact hn hx
    · rw [hf']
      simp only [Option.some.injEq, Prod.mk.injEq, true_and]
      constructor
      · rintro rfl; exact ⟨stamp', ⟨rfl, rfl⟩, hx⟩
      · rintro ⟨_, ⟨h, _⟩, _⟩; exact h

/-! ### Theorem A: an undecryptable packet -/

/-- What a failing `handleMessage` may report. -/
def FailOut (na : NA) (nonce : Nat) (o : Out) : Prop :=
  (∃ rid e, o = .failed rid e) ∨ (∃ l, o = .expired l) ∨ o = .wru na nonce

theorem handleMessage_undecryptable (c : Cfg) (na : NA) (nonce : Nat) (ct : Ct) (st : St)
    (sess : Session) (hs : (sessGetMut c na st).1 = some sess)
    (hd : (decryptMessage sess nonce ct).2 = none) :
    wp (handleMessage c na nonce ct)
      (fun _ st' => Gone na st'.1 ∧ Ext st.2 (FailOut na nonce) st'.2) st := by
  obtain ⟨stamp, hfind, hlive⟩ := (sessGetMut_some_iff c na st sess).1 hs
  unfold handleMessage
  rw [wp_bind, wp_sessGetMut]
  refine ⟨fun h0 => ?_, fun x sess' stamp' hf' => ⟨fun hx => ?_, fun _ => ?_⟩⟩
  · rw [hfind] at h0; cases h0
  · rw [hfind] at hf'
    simp only [Option.some.injEq, Prod.mk.injEq] at hf'
    obtain ⟨-, -, rfl⟩ := hf'
    exact absurd hx hlive
  · rw [hfind] at hf'
    simp only [Option.some.injEq, Prod.mk.injEq] at hf'
    obtain ⟨-, rfl, -⟩ := hf'
    simp only []
    generalize hdm : decryptMessage sess nonce ct = r
    obtain ⟨sess1, pt⟩ := r
    have hpt : pt = none := by rw [hdm] at hd; exact hd
    subst hpt
    unfold sessPut
    rw [wp_bind, wp_modS]
    simp only []
    rw [wp_bind]
    refine wp_mono (failSession_true_gone c na .invalidRemotePacket st.2 (FailOut na nonce)
      (fun rid e => Or.inl ⟨rid, e, rfl⟩) (fun l => Or.inr (Or.inl ⟨l, rfl⟩)) _ (Ext.refl _ _))
      (fun _ st1 h1 => ?_)
    cr_wpsimp
    exact ⟨fun _ => ⟨h1.1, h1.2.snoc (Or.inr (Or.inr rfl))⟩, fun _ => h1⟩

/-! ### Theorem B: a response is matched only against a request outstanding to the same address -/

/-- `handleResponse c na rid rb` appends `response na rid rb` only when an active call to `na` with
request id `rid` exists. -/
theorem handleResponse_ext (c : Cfg) (na : NA) (rid : Nat) (rb : RespBody) (os0 : List Out)
    (P : Out → Prop) (st : St)
    (hr : (∃ cl ∈ st.1.active, callNA cl = na ∧ cl.rid = rid) → P (.response na rid rb))
    (h : Ext os0 P st.2) :
    wp (handleResponse c na rid rb) (fun _ st' => Ext os0 P st'.2) st := by
  unfold handleResponse
  rw [wp_bind, wp_activeRemoveRequest]
  refine ⟨fun _ => h, fun call hfind => ?_⟩
  have hp : P (.response na rid rb) := by
    refine hr ⟨call, List.mem_of_find?_eq_some hfind, ?_⟩
    have := List.find?_some hfind
    simpa using this
  simp only []
  have fin : ∀ st : St, Ext os0 P st.2 →
      wp (do removeExpected na.addr; emit (.response na rid rb)) (fun _ st' => Ext os0 P st'.2) st := by
    intro st h; unfold removeExpected; cr_wpsimp; exact h.snoc hp
  unfold activeInsert
  split
  · cr_wpsimp
    refine ⟨fun _ => ?_, fun _ => fin _ h⟩
    split
    · cr_wpsimp
      exact ⟨fun _ => h.snoc hp, fun _ => fin _ h⟩
    · cr_wpsimp; exact h.snoc hp
  · exact fin _ h

/-- The outputs `handleMessage c na nonce ct` appends: a `response` only for a request id that is
outstanding to `na` in the state the call starts from. -/
theorem handleMessage_ext (c : Cfg) (na : NA) (nonce : Nat) (ct : Ct) (os0 : List Out)
    (P : Out → Prop) (st : St)
    (hf : ∀ rid e, P (.failed rid e)) (hexp : ∀ l, P (.expired l)) (hw : P (.wru na nonce))
    (hreq : ∀ rid b, P (.request na rid b)) (hest : ∀ r a d, P (.established r a d))
    (hunv : ∀ r a i, P (.unverifiable r a i))
    (hresp : ∀ rid rb, (∃ cl ∈ st.1.active, callNA cl = na ∧ cl.rid = rid) → P (.response na rid rb))
    (h : Ext os0 P st.2) :
    wp (handleMessage c na nonce ct) (fun _ st' => Ext os0 P st'.2) st := by
  unfold handleMessage
  rw [wp_bind, wp_sessGetMut]
  refine ⟨fun _ => ?_, fun x sess stamp _ => ⟨fun _ => ?_, fun _ => ?_⟩⟩
  · simp only []; cr_wpsimp; exact h.snoc hw
  · simp only []; cr_wpsimp; exact h.snoc hw
  · simp only []
    generalize decryptMessage sess nonce ct = r
    obtain ⟨sess', pt⟩ := r
    unfold sessPut
    rw [wp_bind, wp_modS]
    simp only []
    cases pt with
    | none =>
      simp only []
      rw [wp_bind]
      refine wp_mono (failSession_ext c na _ _ os0 P hf hexp _ h) (fun _ st' h' => ?_)
      cr_wpsimp
      exact ⟨fun _ => h'.snoc hw, fun _ => h'⟩
    | some m =>
      cases m with
      | undecodable => exact h
      | request rid body => simp only []; cr_wpsimp; exact h.snoc (hreq _ _)
      | response rid rb =>
        simp only []
        cr_wpsimp
        refine ⟨fun _ => ?_, fun _ => handleResponse_ext c na rid rb os0 P _ (hresp rid rb) h⟩
        rw [wp_activeRemoveRequest]
        have ver : ∀ st : St, Ext os0 P st.2 → wp (do
              match rb with
              | .nodes _ recs =>
                match recs.getLast? with
                | some r =>
                  if verifyEnr r na then
                    emit (.established r na.addr true)
                    return true
                  else
                    emit (.unverifiable r na.addr na.id)
                    return false
                | none => return false
              | _ => return false : M Bool) (fun _ st' => Ext os0 P st'.2) st := by
          intro st h
          split
          · split
            · cr_wpsimp
              exact ⟨fun _ => h.snoc (hest _ _ _), fun _ => h.snoc (hunv _ _ _)⟩
            · exact h
          · exact h
        have verfin : ∀ st : St, Ext os0 P st.2 → wp (do
            let verified ← (do
              match rb with
              | .nodes _ recs =>
                match recs.getLast? with
                | some r =>
                  if verifyEnr r na then
                    emit (.established r na.addr true)
                    return true
                  else
                    emit (.unverifiable r na.addr na.id)
                    return false
                | none => return false
              | _ => return false)
            if !verified then failSession c na .invalidRemoteEnr true)
            (fun _ st' => Ext os0 P st'.2) st := by
          intro st h
          rw [wp_bind]
          refine wp_mono (ver st h) (fun a st' h' => ?_)
          cr_wpsimp
          exact ⟨fun _ => failSession_ext c na _ _ os0 P hf hexp _ h', fun _ => h'⟩
        refine ⟨fun _ => verfin _ h, fun call _ => ?_⟩
        simp only []
        rw [wp_bind]; unfold removeExpected; rw [wp_modS]
        exact verfin _ h

/-! ## Walk N: who never reports a response

`NR os0 P`: the log is `os0` followed by outputs satisfying `P`, for a `P` that admits every output
other than a `response`.  All handler functions except `handleResponse`, `handleMessage` and
`handleAuthMessage` keep it. -/

def NR (os0 : List Out) (P : Out → Prop) (st : St) : Prop := Ext os0 P st.2

/-- `P` holds of every output that is not a `response`. -/
def AdmitsNonResp (P : Out → Prop) : Prop := ∀ o, (∀ na rid rb, o ≠ .response na rid rb) → P o

section walkN
variable {os0 : List Out} {P : Out → Prop}

theorem N_modS (f : HState → HState) : Ho (NR os0 P) (modS f) (fun _ => NR os0 P) := ⟨fun _ hp => hp⟩
theorem N_setS (s : HState) : Ho (NR os0 P) (setS s) (fun _ => NR os0 P) := ⟨fun _ hp => hp⟩
theorem N_emit (hP : AdmitsNonResp P) (o : Out) (h : ∀ na rid rb, o ≠ .response na rid rb) :
    Ho (NR os0 P) (emit o) (fun _ => NR os0 P) := ⟨fun _ hp => Ext.snoc hp (hP o h)⟩

syntax "n_leaf" : tactic
macro_rules | `(tactic| n_leaf) => `(tactic| first
  | with_reducible exact N_modS _ | with_reducible exact N_setS _
  | ((with_reducible refine N_emit (by assumption) _ ?_); intro _ _ _ h; cases h))
macro_rules | `(tactic| ho_leaf) => `(tactic| n_leaf)

theorem N_freshNonce (c : Cfg) : Ho (NR os0 P) (freshNonce c) (fun _ => NR os0 P) := by unfold freshNonce; ho_walk
theorem N_freshCd (c : Cfg) : Ho (NR os0 P) (freshCd c) (fun _ => NR os0 P) := by unfold freshCd; ho_walk
theorem N_freshEph (c : Cfg) : Ho (NR os0 P) (freshEph c) (fun _ => NR os0 P) := by unfold freshEph; ho_walk
theorem N_freshRid (c : Cfg) : Ho (NR os0 P) (freshRid c) (fun _ => NR os0 P) := by unfold freshRid; ho_walk
theorem N_addExpected (a) : Ho (NR os0 P) (addExpected a) (fun _ => NR os0 P) := N_modS _
theorem N_removeExpected (a) : Ho (NR os0 P) (removeExpected a) (fun _ => NR os0 P) := N_modS _
theorem N_sessGetMut (c na) : Ho (NR os0 P) (sessGetMut c na) (fun _ => NR os0 P) := by unfold sessGetMut; ho_walk
theorem N_sessPut (na s) : Ho (NR os0 P) (sessPut na s) (fun _ => NR os0 P) := N_modS _
theorem N_sessInsert (c na s) : Ho (NR os0 P) (sessInsert c na s) (fun _ => NR os0 P) := N_modS _
theorem N_sessRemove (na) : Ho (NR os0 P) (sessRemove na) (fun _ => NR os0 P) := N_modS _
theorem N_removeExpiredSessions (hP : AdmitsNonResp P) (c) :
    Ho (NR os0 P) (removeExpiredSessions c) (fun _ => NR os0 P) := by
  unfold removeExpiredSessions; ho_walk
theorem N_activeInsert (c call) : Ho (NR os0 P) (activeInsert c call) (fun _ => NR os0 P) := N_modS _
theorem N_activeRemoveByNonce (n) : Ho (NR os0 P) (activeRemoveByNonce n) (fun _ => NR os0 P) := by
  unfold activeRemoveByNonce; ho_walk
theorem N_activeRemoveRequest (na r) : Ho (NR os0 P) (activeRemoveRequest na r) (fun _ => NR os0 P) := by
  unfold activeRemoveRequest; ho_walk
theorem N_activeRemoveRequests (na) : Ho (NR os0 P) (activeRemoveRequests na) (fun _ => NR os0 P) := by
  unfold activeRemoveRequests; ho_walk
theorem N_send (hP : AdmitsNonResp P) (na p) : Ho (NR os0 P) (send na p) (fun _ => NR os0 P) := by
  unfold send; exact N_emit hP _ (by intro _ _ _ h; cases h)
macro_rules | `(tactic| n_leaf) => `(tactic| with_reducible first
  | exact N_freshNonce _ | exact N_freshCd _ | exact N_freshEph _ | exact N_freshRid _
  | exact N_addExpected _ | exact N_removeExpected _ | exact N_sessGetMut _ _ | exact N_sessPut _ _
  | exact N_sessInsert _ _ _ | exact N_sessRemove _ | exact N_removeExpiredSessions (by assumption) _
  | exact N_activeInsert _ _ | exact N_activeRemoveByNonce _ | exact N_activeRemoveRequest _ _
  | exact N_activeRemoveRequests _ | exact N_send (by assumption) _ _)
theorem N_encryptMessage (c s m) : Ho (NR os0 P) (encryptMessage c s m) (fun _ => NR os0 P) := by
  unfold encryptMessage; ho_walk
theorem N_isAwaitingSession (c na) : Ho (NR os0 P) (isAwaitingSession c na) (fun _ => NR os0 P) := by
  unfold isAwaitingSession; ho_walk
macro_rules | `(tactic| n_leaf) => `(tactic| with_reducible first
  | exact N_encryptMessage _ _ _ | exact N_isAwaitingSession _ _)
theorem N_sendRequest (hP : AdmitsNonResp P) (c ct rid i b) :
    Ho (NR os0 P) (sendRequest c ct rid i b) (fun _ => NR os0 P) := by
  unfold sendRequest; ho_walk
macro_rules | `(tactic| n_leaf) => `(tactic| with_reducible exact N_sendRequest (by assumption) _ _ _ _ _)
theorem N_sendPendingRequests (hP : AdmitsNonResp P) (c na) :
    Ho (NR os0 P) (sendPendingRequests c na) (fun _ => NR os0 P) := by
  unfold sendPendingRequests; ho_walk
theorem N_failSession (hP : AdmitsNonResp P) (c na e b) :
    Ho (NR os0 P) (failSession c na e b) (fun _ => NR os0 P) := by
  unfold failSession; ho_walk
macro_rules | `(tactic| n_leaf) => `(tactic| with_reducible first
  | exact N_sendPendingRequests (by assumption) _ _ | exact N_failSession (by assumption) _ _ _ _)
theorem N_failRequest (hP : AdmitsNonResp P) (c call e b) :
    Ho (NR os0 P) (failRequest c call e b) (fun _ => NR os0 P) := by
  unfold failRequest; ho_walk
macro_rules | `(tactic| n_leaf) => `(tactic| with_reducible exact N_failRequest (by assumption) _ _ _ _)
theorem N_handleRequestTimeout (hP : AdmitsNonResp P) (c call) :
    Ho (NR os0 P) (handleRequestTimeout c call) (fun _ => NR os0 P) := by
  unfold handleRequestTimeout; ho_walk
theorem N_reencryptAll (c l s acc) : Ho (NR os0 P) (reencryptAll c l s acc) (fun _ => NR os0 P) := by
  induction l generalizing s acc with
  | nil => unfold reencryptAll; ho_walk
  | cons x xs ih => unfold reencryptAll; ho_walk; exact ih _ _
macro_rules | `(tactic| n_leaf) => `(tactic| with_reducible first
  | exact N_reencryptAll _ _ _ _ | exact N_handleRequestTimeout (by assumption) _ _)
theorem N_replayActiveRequests (hP : AdmitsNonResp P) (c na sk) :
    Ho (NR os0 P) (replayActiveRequests c na sk) (fun _ => NR os0 P) := by
  unfold replayActiveRequests; ho_walk
macro_rules | `(tactic| n_leaf) => `(tactic| with_reducible exact N_replayActiveRequests (by assumption) _ _ _)
theorem N_newSession (hP : AdmitsNonResp P) (c na s sk) :
    Ho (NR os0 P) (newSession c na s sk) (fun _ => NR os0 P) := by
  unfold newSession; ho_walk
theorem N_sendChallenge (hP : AdmitsNonResp P) (c na n k) :
    Ho (NR os0 P) (sendChallenge c na n k) (fun _ => NR os0 P) := by
  unfold sendChallenge; ho_walk
macro_rules | `(tactic| n_leaf) => `(tactic| with_reducible first
  | exact N_newSession (by assumption) _ _ _ _ | exact N_sendChallenge (by assumption) _ _ _ _)
theorem N_handleChallenge (hP : AdmitsNonResp P) (c src n cd es) :
    Ho (NR os0 P) (handleChallenge c src n cd es) (fun _ => NR os0 P) := by
  unfold handleChallenge; ho_walk
theorem N_fireTimers (hP : AdmitsNonResp P) (c target fuel) :
    Ho (NR os0 P) (fireTimers c target fuel) (fun _ => NR os0 P) := by
  induction fuel with
  | zero => unfold fireTimers; exact Ho.pureI _
  | succ n ih => unfold fireTimers; ho_walk <;> exact ih
macro_rules | `(tactic| n_leaf) => `(tactic| with_reducible first
  | exact N_handleChallenge (by assumption) _ _ _ _ _ | exact N_fireTimers (by assumption) _ _ _)

/-- Every event other than a message or handshake datagram: no `response` is reported. -/
theorem N_stepM (hP : AdmitsNonResp P) (c : Cfg) (e : Ev)
    (hm : ∀ src srcId nonce ct, e ≠ .dgram src (.message srcId nonce ct))
    (hh : ∀ src srcId nonce sig eph r ct, e ≠ .dgram src (.handshake srcId nonce sig eph r ct)) :
    Ho (NR os0 P) (stepM c e) (fun _ => NR os0 P) := by
  cases e with
  | dgram src p =>
    cases p with
    | message srcId nonce ct => exact absurd rfl (hm src srcId nonce ct)
    | handshake srcId nonce sig eph r ct => exact absurd rfl (hh src srcId nonce sig eph r ct)
    | whoareyou nonce cd enrSeq => simp only [stepM]; exact N_handleChallenge hP ..
  | _ => simp only [stepM]; ho_walk

end walkN

/-! ## Walk Q: where the requests outstanding to `na` come from

`AO na O`: every active call to `na` and every queued request whose contact is `na` has a request
id satisfying `O`.  Kept by everything `newSession` does, as no new request is made there (queued
ones are sent, active ones re-sealed). -/

structure AO (na : NA) (O : Nat → Prop) (st : St) : Prop where
  act : ∀ cl ∈ st.1.active, callNA cl = na → O cl.rid
  pend : ∀ e ∈ st.1.pending, ∀ pr ∈ e.2, pr.contact.na = na → O pr.rid

section walkQ
variable {na : NA} {O : Nat → Prop}

theorem AO.mono {st st' : St} (h : AO na O st) (ha : ∀ x ∈ st'.1.active, x ∈ st.1.active)
    (hp : ∀ e ∈ st'.1.pending, e ∈ st.1.pending) : AO na O st' :=
  ⟨fun x hx => h.act x (ha x hx), fun e he => h.pend e (hp e he)⟩

theorem Q_frame {α} {m : M α}
    (h : ∀ st, (m.run st).2.1.active = st.1.active ∧ (m.run st).2.1.pending = st.1.pending) :
    Ho (AO na O) m (fun _ => AO na O) :=
  ⟨fun st hp => hp.mono (fun _ hx => (h st).1 ▸ hx) (fun _ he => (h st).2 ▸ he)⟩
theorem Q_modS (f : HState → HState) (h : ∀ s, (f s).active = s.active ∧ (f s).pending = s.pending) :
    Ho (AO na O) (modS f) (fun _ => AO na O) := Q_frame (fun st => h st.1)
theorem Q_setS_pinned {s1 : HState} (s' : HState) (h1 : ∀ x ∈ s'.active, x ∈ s1.active)
    (h2 : ∀ e ∈ s'.pending, e ∈ s1.pending) :
    Ho (Pin s1 (AO na O)) (setS s') (fun _ => AO na O) :=
  Ho.setS _ (fun _ hp => hp.2.mono (fun x hx => hp.1 ▸ h1 x hx) (fun e he => hp.1 ▸ h2 e he))
theorem Q_emit (o : Out) : Ho (AO na O) (emit o) (fun _ => AO na O) := Q_frame (fun _ => ⟨rfl, rfl⟩)
theorem Q_send (k : NA) (p : Pkt) : Ho (AO na O) (send k p) (fun _ => AO na O) := Q_frame (fun _ => ⟨rfl, rfl⟩)
theorem Q_addExpected (a) : Ho (AO na O) (addExpected a) (fun _ => AO na O) :=
  Q_modS _ (fun s => by by_cases h : s.exempt.any (·.1 == a) <;> simp [h])
theorem Q_sessGetMut (c : Cfg) (k : NA) : Ho (AO na O) (sessGetMut c k) (fun _ => AO na O) :=
  sessGetMut_elim (fun _ hp => ⟨fun _ => hp, fun _ _ _ _ =>
    ⟨fun _ => hp.mono (fun _ h => h) (fun _ h => h), fun _ => hp.mono (fun _ h => h) (fun _ h => h)⟩⟩)
theorem Q_removeExpiredSessions (c : Cfg) :
    Ho (AO na O) (removeExpiredSessions c) (fun _ => AO na O) :=
  removeExpiredSessions_elim (fun _ hp _ _ _ => hp.mono (fun _ h => h) (fun _ h => h))
theorem Q_activeInsert (c : Cfg) (call : Call) (h : callNA call = na → O call.rid) :
    Ho (AO na O) (activeInsert c call) (fun _ => AO na O) := by
  refine Ho.modS _ (fun st hp => ⟨fun x hx => ?_, hp.pend⟩)
  simp only [List.mem_append, List.mem_singleton] at hx
  rcases hx with hx | hx
  · exact hp.act x hx
  · subst hx; exact h
theorem Q_push (contact : Contact) (rid : Nat) (internal : Bool) (body : Nat)
    (hq : contact.na = na → O rid) :
    Ho (AO na O) (modS fun s =>
      let pr : PendingReq := { contact := contact, rid := rid, internal := internal, body := body }
      if s.pending.any (·.1 == contact.na) then
        { s with pending := s.pending.map (fun e => if e.1 == contact.na then (e.1, e.2 ++ [pr]) else e) }
      else { s with pending := s.pending ++ [(contact.na, [pr])] }) (fun _ => AO na O) := by
  refine Ho.modS _ (fun st h => ?_)
  dsimp only
  split
  · refine ⟨h.act, ?_⟩
    intro e' he' pr hpr
    have he'' : e' ∈ st.1.pending.map _ := he'
    simp only [List.mem_map] at he''
    obtain ⟨e, he, rfl⟩ := he''
    by_cases hk : (e.1 == contact.na) = true
    · simp only [hk, if_true] at hpr
      rcases List.mem_append.1 hpr with hpr | hpr
      · exact h.pend e he pr hpr
      · rw [List.mem_singleton.1 hpr]; exact hq
    · simp only [hk] at hpr
      exact h.pend e he pr hpr
  · refine ⟨h.act, ?_⟩
    intro e' he' pr hpr
    have he'' : e' ∈ st.1.pending ++ [(contact.na, [_])] := he'
    rcases List.mem_append.1 he'' with he'' | he''
    · exact h.pend e' he'' pr hpr
    · rw [List.mem_singleton.1 he''] at hpr
      rw [List.mem_singleton.1 hpr]; exact hq
theorem Q_replayUpd {c : Cfg} (oldNonce : Nat) (p : Pkt) : Ho (AO na O) (modS fun s =>
        let upd : Call → Call := fun call =>
          if call.pkt.nonce == oldNonce then
            { call with pkt := p, deadline := s.now + c.requestTimeout, tseq := s.tctr }
          else call
        { s with active := s.active.map upd, tctr := s.tctr + 1 }) (fun _ => AO na O) := by
  refine Ho.modS _ (fun st hp => ⟨fun x hx => ?_, hp.pend⟩)
  simp only [List.mem_map] at hx
  obtain ⟨y, hy, rfl⟩ := hx
  split
  · exact hp.act y hy
  · exact hp.act y hy

syntax "q_leaf" : tactic
macro_rules | `(tactic| q_leaf) => `(tactic| first
  | with_reducible exact Q_emit _ | with_reducible exact Q_send _ _ | with_reducible exact Q_addExpected _
  | with_reducible exact Q_sessGetMut _ _ | with_reducible exact Q_removeExpiredSessions _
  | with_reducible apply Q_activeInsert
  | with_reducible apply Q_push
  | exact Q_replayUpd _ _
  | exact Q_frame (fun _ => ⟨rfl, rfl⟩)
  | exact Q_modS _ (fun s => by first | exact ⟨rfl, rfl⟩ | (dsimp only; split <;> exact ⟨rfl, rfl⟩)))
macro_rules | `(tactic| ho_leaf) => `(tactic| q_leaf)

theorem Q_isAwaitingSession (c : Cfg) (k : NA) :
    Ho (AO na O) (isAwaitingSession c k) (fun _ => AO na O) := by
  unfold isAwaitingSession; ho_walk
macro_rules | `(tactic| q_leaf) => `(tactic| with_reducible exact Q_isAwaitingSession _ _)

theorem Q_sendRequest (c : Cfg) (ct : Contact) (rid i b) (hq : ct.na = na → O rid) :
    Ho (AO na O) (sendRequest c ct rid i b) (fun _ => AO na O) := by
  unfold sendRequest; ho_walk
  all_goals exact hq

theorem forEachM {α} {P : St → Prop} (l : List α) (f : α → M Unit)
    (h : ∀ x ∈ l, Ho P (f x) (fun _ => P)) : Ho P (forEach l f) (fun _ => P) := by
  induction l with
  | nil => exact Ho.pureI ()
  | cons x xs ih =>
    rw [forEach_cons]
    exact Ho.bindP (h x (List.mem_cons_self ..)) (fun _ => ih (fun y hy => h y (List.mem_cons_of_mem _ hy)))

theorem Q_sendPendingRequests (c : Cfg) (k : NA) :
    Ho (AO na O) (sendPendingRequests c k) (fun _ => AO na O) := by
  unfold sendPendingRequests
  refine Ho.getS_pin (fun s1 => ?_)
  refine Ho.pre (P' := fun st => (∀ e ∈ s1.pending, ∀ pr ∈ e.2, pr.contact.na = na → O pr.rid) ∧
    Pin s1 (AO na O) st) ?_ (fun st hp => ⟨hp.1 ▸ hp.2.pend, hp⟩)
  refine Ho.pre_pure (fun hpk => ?_)
  refine Ho.bind (Q_setS_pinned _ (fun _ h => h) (fun _ h => (List.mem_filter.1 h).1)) (fun _ => ?_)
  refine forEachM _ _ (fun pr hpr => ?_)
  have hq : pr.contact.na = na → O pr.rid := by
    cases hf : s1.pending.find? (·.1 == k) with
    | none => rw [hf] at hpr; cases hpr
    | some e => rw [hf] at hpr; exact hpk e (List.mem_of_find?_eq_some hf) pr hpr
  refine Ho.bind (Q_sendRequest c pr.contact pr.rid pr.internal pr.body hq) (fun r => ?_)
  cases r with
  | none => exact Ho.pureI _
  | some e => exact Ho.iteI (Q_emit _) (Ho.pureI _)

theorem Q_reencryptAll (c : Cfg) (l s acc) : Ho (AO na O) (reencryptAll c l s acc) (fun _ => AO na O) := by
  induction l generalizing s acc with
  | nil => unfold reencryptAll; ho_walk
  | cons x xs ih => unfold reencryptAll; ho_walk; exact ih _ _
macro_rules | `(tactic| q_leaf) => `(tactic| with_reducible first
  | exact Q_reencryptAll _ _ _ _ | exact Q_sendPendingRequests _ _)
theorem Q_replayActiveRequests (c : Cfg) (k : NA) (sk) :
    Ho (AO na O) (replayActiveRequests c k sk) (fun _ => AO na O) := by
  unfold replayActiveRequests; ho_walk
macro_rules | `(tactic| q_leaf) => `(tactic| with_reducible exact Q_replayActiveRequests _ _ _)
theorem Q_newSession (c : Cfg) (k : NA) (s sk) :
    Ho (AO na O) (newSession c k s sk) (fun _ => AO na O) := by
  unfold newSession; ho_walk

end walkQ

/-! ### The handshake packet -/

/-- `handleAuthMessage c na …` appends a `response` only for a request id `rid` with `O rid`, where
`O` holds of the ids of all requests active to, or queued for, `na` in the starting state. -/
theorem handleAuthMessage_ext (c : Cfg) (na : NA) (nonce : Nat) (sig : Sig) (eph : Nat)
    (record : Option Rec) (ct : Ct) (os0 : List Out) (P : Out → Prop) (O : Nat → Prop) (st : St)
    (hP : AdmitsNonResp P) (hresp : ∀ rid rb, O rid → P (.response na rid rb))
    (h : Ext os0 P st.2) (hq : AO na O st) :
    wp (handleAuthMessage c na nonce sig eph record ct) (fun _ st' => Ext os0 P st'.2) st := by
  have hf : ∀ rid e, P (.failed rid e) := fun rid e => hP _ (by intro _ _ _ h; cases h)
  have hexp : ∀ l, P (.expired l) := fun l => hP _ (by intro _ _ _ h; cases h)
  have hw : P (.wru na nonce) := hP _ (by intro _ _ _ h; cases h)
  have hreq : ∀ rid b, P (.request na rid b) := fun _ _ => hP _ (by intro _ _ _ h; cases h)
  have hest : ∀ r a d, P (.established r a d) := fun _ _ _ => hP _ (by intro _ _ _ h; cases h)
  have hunv : ∀ r a i, P (.unverifiable r a i) := fun _ _ _ => hP _ (by intro _ _ _ h; cases h)
  unfold handleAuthMessage
  rw [wp_bind, wp_getS]
  split
  · exact h
  · rename_i x ch d q hfind
    rw [wp_bind, wp_setS]
    cases he : establishFromChallenge c na.id ch sig eph record with
    | none => simp only []; cr_wpsimp; exact h
    | some r =>
      cases r with
      | none =>
        simp only []
        unfold removeExpected
        rw [wp_bind, wp_modS]
        exact failSession_ext c na _ _ os0 P hf hexp _ h
      | some p =>
        obtain ⟨sess, r⟩ := p
        simp only []
        unfold removeExpected
        rw [wp_bind, wp_modS]
        have jp : ∀ st : St, Ext os0 P st.2 → AO na O st →
            wp (newSession c na sess none >>= fun _ => handleMessage c na nonce ct)
              (fun _ st' => Ext os0 P st'.2) st := by
          intro st h hq
          rw [wp_bind]
          have hn : wp (newSession c na sess none) (fun _ st' => NR os0 P st' ∧ AO na O st') st :=
            (Ho.conj (N_newSession hP c na sess none) (Q_newSession c na sess none)).out st ⟨h, hq⟩
          refine wp_mono hn (fun _ st' h' => ?_)
          exact handleMessage_ext c na nonce ct os0 P st' hf hexp hw hreq hest hunv
            (fun rid rb ⟨cl, hcl, h1, h2⟩ => hresp rid rb (h2 ▸ h'.2.act cl hcl h1)) h'.1
        cr_wpsimp
        exact ⟨fun _ => jp _ (h.snoc (hest _ _ _)) ⟨hq.act, hq.pend⟩,
          fun _ => jp _ (h.snoc (hunv _ _ _)) ⟨hq.act, hq.pend⟩⟩

end Discv5.H.AT

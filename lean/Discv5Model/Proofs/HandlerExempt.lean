/-
Helper lemmas for C13 (filter exemptions track outstanding exchanges exactly): the exemption
association list, the `outstanding` counters, a balance predicate `Bal a k` ("accounting holds except
for a surplus of `k` exemptions at address `a`") and one Hoare triple per handler function.
-/
import Discv5Model.Proofs.HandlerBasics
namespace Discv5.H

/-! ### the exemption association list -/

def cnt (l : List (Addr × Nat)) (a : Addr) : Nat :=
  match l.find? (·.1 == a) with
  | some e => e.2
  | none => 0

theorem exemptCount_eq (s : HState) (a : Addr) : exemptCount s a = cnt s.exempt a := rfl

@[simp] theorem cnt_nil (a : Addr) : cnt [] a = 0 := rfl
theorem cnt_cons (k : Addr) (v : Nat) (t : List (Addr × Nat)) (a : Addr) :
    cnt ((k, v) :: t) a = if k = a then v else cnt t a := by
  unfold cnt
  by_cases h : k = a
  · simp [h]
  · simp [h]

theorem cnt_eq_zero_of_not_mem (l : List (Addr × Nat)) (a : Addr) (h : a ∉ l.map (·.1)) :
    cnt l a = 0 := by
  induction l with
  | nil => rfl
  | cons x t ih =>
    obtain ⟨k, v⟩ := x
    simp only [List.map_cons, List.mem_cons, not_or] at h
    rw [cnt_cons, if_neg (fun e => h.1 e.symm)]
    exact ih h.2

def incr (a : Addr) (p : Addr × Nat) : Addr × Nat := if p.1 == a then (p.1, p.2 + 1) else p
def decr (a : Addr) (p : Addr × Nat) : Addr × Nat := if p.1 == a then (p.1, p.2 - 1) else p

def addE (l : List (Addr × Nat)) (a : Addr) : List (Addr × Nat) :=
  if l.any (·.1 == a) then l.map (incr a) else l ++ [(a, 1)]
def remE (l : List (Addr × Nat)) (a : Addr) : List (Addr × Nat) :=
  (l.map (decr a)).filter (fun p => p.2 != 0)

@[simp] theorem incr_fst (a : Addr) (p : Addr × Nat) : (incr a p).1 = p.1 := by
  unfold incr; split <;> rfl
@[simp] theorem decr_fst (a : Addr) (p : Addr × Nat) : (decr a p).1 = p.1 := by
  unfold decr; split <;> rfl

theorem cnt_map_incr (l : List (Addr × Nat)) (a b : Addr) (h : b = a → a ∈ l.map (·.1)) :
    cnt (l.map (incr a)) b = cnt l b + (if b = a then 1 else 0) := by
  induction l with
  | nil =>
    by_cases hb : b = a
    · simp [hb] at h
    · simp [hb]
  | cons x t ih =>
    obtain ⟨k, v⟩ := x
    by_cases hk : k = b
    · subst hk
      by_cases hka : k = a
      · simp [incr, cnt_cons, hka]
      · simp [incr, cnt_cons, hka]
    · have hk' : (incr a (k, v)).1 = k := incr_fst ..
      have : incr a (k, v) = (k, (incr a (k, v)).2) := Prod.ext hk' rfl
      rw [List.map_cons, this, cnt_cons, cnt_cons, if_neg hk, if_neg hk]
      apply ih
      intro hb
      have := h hb
      simp only [List.map_cons, List.mem_cons] at this
      rcases this with e | e
      · exact absurd (e.symm.trans hb.symm) hk
      · exact e

theorem cnt_append_single (l : List (Addr × Nat)) (a b : Addr) (v : Nat) (h : a ∉ l.map (·.1)) :
    cnt (l ++ [(a, v)]) b = cnt l b + (if b = a then v else 0) := by
  induction l with
  | nil =>
    by_cases hb : b = a
    · simp [cnt_cons, hb]
    · have hb' : ¬ a = b := fun e => hb e.symm
      simp [cnt_cons, hb, hb']
  | cons x t ih =>
    obtain ⟨k, w⟩ := x
    simp only [List.map_cons, List.mem_cons, not_or] at h
    rw [List.cons_append, cnt_cons, cnt_cons]
    by_cases hk : k = b
    · rw [if_pos hk, if_pos hk, if_neg (fun e : b = a => h.1 (e.symm.trans hk.symm))]; rfl
    · rw [if_neg hk, if_neg hk]; exact ih h.2

theorem any_key_iff (l : List (Addr × Nat)) (a : Addr) :
    l.any (·.1 == a) = true ↔ a ∈ l.map (·.1) := by
  simp only [List.any_eq_true, List.mem_map, beq_iff_eq]

theorem cnt_addE (l : List (Addr × Nat)) (a b : Addr) :
    cnt (addE l a) b = cnt l b + (if b = a then 1 else 0) := by
  unfold addE
  by_cases h : l.any (·.1 == a) = true
  · rw [if_pos h]; exact cnt_map_incr l a b (fun _ => (any_key_iff l a).1 h)
  · rw [if_neg h]; exact cnt_append_single l a b 1 (fun hm => h ((any_key_iff l a).2 hm))

theorem keys_addE (l : List (Addr × Nat)) (a : Addr) (h : (l.map (·.1)).Nodup) :
    ((addE l a).map (·.1)).Nodup := by
  unfold addE
  by_cases ha : l.any (·.1 == a) = true
  · rw [if_pos ha, List.map_map]
    have : ((fun x : Addr × Nat => x.1) ∘ incr a) = (fun x => x.1) := by
      funext p; simp
    rw [this]; exact h
  · rw [if_neg ha, List.map_append]
    have hn : a ∉ l.map (·.1) := fun hm => ha ((any_key_iff l a).2 hm)
    rw [List.nodup_append]
    refine ⟨h, by simp, ?_⟩
    intro x hx y hy
    simp only [List.map_cons, List.map_nil, List.mem_singleton] at hy
    subst hy
    intro e; subst e; exact hn hx

theorem noZero_addE (l : List (Addr × Nat)) (a : Addr) (h : ∀ e ∈ l, e.2 ≠ 0) :
    ∀ e ∈ addE l a, e.2 ≠ 0 := by
  unfold addE
  by_cases ha : l.any (·.1 == a) = true
  · rw [if_pos ha]
    intro e he
    rw [List.mem_map] at he
    obtain ⟨p, hp, rfl⟩ := he
    unfold incr
    by_cases hpa : (p.1 == a) = true
    · rw [if_pos hpa]; exact Nat.succ_ne_zero _
    · rw [if_neg hpa]; exact h p hp
  · rw [if_neg ha]
    intro e he
    rw [List.mem_append] at he
    rcases he with he | he
    · exact h e he
    · simp only [List.mem_singleton] at he; subst he; exact Nat.one_ne_zero

theorem keys_remE (l : List (Addr × Nat)) (a : Addr) (h : (l.map (·.1)).Nodup) :
    ((remE l a).map (·.1)).Nodup := by
  unfold remE
  have hs : (((l.map (decr a)).filter (fun p => p.2 != 0)).map (·.1)).Sublist ((l.map (decr a)).map (·.1)) :=
    List.Sublist.map _ List.filter_sublist
  have he : (l.map (decr a)).map (·.1) = l.map (·.1) := by
    rw [List.map_map]; congr 1; funext p; simp
  rw [he] at hs
  exact List.Pairwise.sublist hs h

theorem noZero_remE (l : List (Addr × Nat)) (a : Addr) : ∀ e ∈ remE l a, e.2 ≠ 0 := by
  intro e he
  unfold remE at he
  rw [List.mem_filter] at he
  simpa using he.2

theorem cnt_remE (l : List (Addr × Nat)) (a b : Addr) (hz : ∀ e ∈ l, e.2 ≠ 0)
    (hn : (l.map (·.1)).Nodup) :
    cnt (remE l a) b = cnt l b - (if b = a then 1 else 0) := by
  induction l with
  | nil => simp [remE]
  | cons x t ih =>
    obtain ⟨k, v⟩ := x
    have hv : v ≠ 0 := hz (k, v) (List.mem_cons_self ..)
    have hz' : ∀ e ∈ t, e.2 ≠ 0 := fun e he => hz e (List.mem_cons_of_mem _ he)
    rw [List.map_cons, List.nodup_cons] at hn
    have ih' := ih hz' hn.2
    have hrem : remE ((k, v) :: t) a =
        if (decr a (k, v)).2 != 0 then decr a (k, v) :: remE t a else remE t a := by
      unfold remE; rw [List.map_cons, List.filter_cons]
    rw [hrem, cnt_cons]
    by_cases hka : k = a
    · subst hka
      have hd : decr k (k, v) = (k, v - 1) := by simp [decr]
      rw [hd]
      by_cases hv1 : v - 1 = 0
      · have : ((k, v - 1).2 != 0) = false := by simp [hv1]
        rw [this]; simp only [Bool.false_eq_true, if_false]
        rw [ih']
        by_cases hb : b = k
        · subst hb
          rw [cnt_eq_zero_of_not_mem t b hn.1]; simp; omega
        · rw [if_neg hb, if_neg (fun e => hb e.symm)]
      · have : ((k, v - 1).2 != 0) = true := by simp [hv1]
        rw [this]; simp only [if_true]
        rw [cnt_cons]
        by_cases hb : b = k
        · subst hb; simp
        · rw [if_neg (fun e => hb e.symm), if_neg (fun e => hb e.symm), ih']
    · have hd : decr a (k, v) = (k, v) := by simp [decr, hka]
      rw [hd]
      have : ((k, v).2 != 0) = true := by simp [hv]
      rw [this]; simp only [if_true]
      rw [cnt_cons]
      by_cases hb : k = b
      · subst hb; simp [hka]
      · rw [if_neg hb, if_neg hb, ih']

/-! ### counting outstanding items -/

def actCnt (l : List Call) (a : Addr) : Nat :=
  (l.filter (fun call => call.contact.na.addr == a)).length
def chCnt (l : List (NA × Challenge × Nat × Nat)) (a : Addr) : Nat :=
  (l.filter (fun e => e.1.addr == a)).length

theorem outstanding_eq (s : HState) (a : Addr) :
    outstanding s a = actCnt s.active a + chCnt s.challenges a := rfl

@[simp] theorem actCnt_nil (a : Addr) : actCnt [] a = 0 := rfl
theorem actCnt_cons (x : Call) (l : List Call) (a : Addr) :
    actCnt (x :: l) a = (if x.contact.na.addr = a then 1 else 0) + actCnt l a := by
  unfold actCnt
  by_cases h : x.contact.na.addr = a
  · simp [h]; omega
  · simp [h]

theorem actCnt_append (l1 l2 : List Call) (a : Addr) :
    actCnt (l1 ++ l2) a = actCnt l1 a + actCnt l2 a := by
  unfold actCnt; rw [List.filter_append, List.length_append]

theorem actCnt_append_single (l : List Call) (x : Call) (a : Addr) :
    actCnt (l ++ [x]) a = actCnt l a + (if x.contact.na.addr = a then 1 else 0) := by
  rw [actCnt_append, actCnt_cons, actCnt_nil, Nat.add_zero]

theorem actCnt_erase (l : List Call) (x : Call) (a : Addr) (h : x ∈ l) :
    actCnt (l.erase x) a + (if x.contact.na.addr = a then 1 else 0) = actCnt l a := by
  induction l with
  | nil => cases h
  | cons y t ih =>
    by_cases hy : y = x
    · subst hy
      rw [List.erase_cons_head, actCnt_cons]; omega
    · have hx : x ∈ t := by
        rcases List.mem_cons.1 h with e | e
        · exact absurd e.symm hy
        · exact e
      have : (y == x) = false := by simp [hy]
      rw [List.erase_cons, this]
      simp only [Bool.false_eq_true, if_false]
      rw [actCnt_cons, actCnt_cons, ← ih hx]; omega

theorem actCnt_filter_ne (l : List Call) (na : NA) (a : Addr) :
    actCnt l a = actCnt (l.filter (fun call => callNA call != na)) a +
      (if a = na.addr then (l.filter (fun call => callNA call == na)).length else 0) := by
  induction l with
  | nil => simp
  | cons x t ih =>
    rw [actCnt_cons, List.filter_cons, List.filter_cons]
    by_cases hx : callNA x = na
    · have h1 : (callNA x != na) = false := by simp [hx]
      have h2 : (callNA x == na) = true := by simp [hx]
      rw [h1, h2]
      simp only [Bool.false_eq_true, if_false, if_true, List.length_cons]
      have hx' : x.contact.na = na := hx
      rw [hx', ih]
      by_cases ha : a = na.addr
      · rw [if_pos ha, if_pos ha, if_pos ha.symm]; omega
      · rw [if_neg ha, if_neg ha, if_neg (fun e => ha e.symm)]; omega
    · have h1 : (callNA x != na) = true := by simp [hx]
      have h2 : (callNA x == na) = false := by simp [hx]
      rw [h1, h2]
      simp only [Bool.false_eq_true, if_false, if_true]
      rw [actCnt_cons, ih]; omega

theorem actCnt_map (l : List Call) (f : Call → Call) (a : Addr)
    (hf : ∀ x, (f x).contact = x.contact) : actCnt (l.map f) a = actCnt l a := by
  induction l with
  | nil => rfl
  | cons x t ih => rw [List.map_cons, actCnt_cons, actCnt_cons, ih, hf]

@[simp] theorem chCnt_nil (a : Addr) : chCnt [] a = 0 := rfl
theorem chCnt_cons (x : NA × Challenge × Nat × Nat) (l : List (NA × Challenge × Nat × Nat))
    (a : Addr) : chCnt (x :: l) a = (if x.1.addr = a then 1 else 0) + chCnt l a := by
  unfold chCnt
  by_cases h : x.1.addr = a
  · simp [h]; omega
  · simp [h]

theorem chCnt_append_single (l : List (NA × Challenge × Nat × Nat)) (x : NA × Challenge × Nat × Nat)
    (a : Addr) : chCnt (l ++ [x]) a = chCnt l a + (if x.1.addr = a then 1 else 0) := by
  unfold chCnt
  rw [List.filter_append, List.length_append]
  by_cases h : x.1.addr = a
  · simp [h]
  · simp [h]

theorem filter_ne_eq_self (l : List (NA × Challenge × Nat × Nat)) (na : NA)
    (h : na ∉ l.map (·.1)) : l.filter (fun e => e.1 != na) = l := by
  rw [List.filter_eq_self]
  intro e he
  have : e.1 ≠ na := fun eq => h (eq ▸ List.mem_map_of_mem he)
  simp [this]

/-- Removing the (unique) challenge of `na`. -/
theorem chCnt_filter_ne (l : List (NA × Challenge × Nat × Nat)) (na : NA) (a : Addr)
    (hn : (l.map (·.1)).Nodup) (hm : na ∈ l.map (·.1)) :
    chCnt l a = chCnt (l.filter (fun e => e.1 != na)) a + (if na.addr = a then 1 else 0) := by
  induction l with
  | nil => cases hm
  | cons x t ih =>
    rw [List.map_cons, List.nodup_cons] at hn
    rw [List.filter_cons]
    by_cases hx : x.1 = na
    · have h1 : (x.1 != na) = false := by simp [hx]
      rw [h1]; simp only [Bool.false_eq_true, if_false]
      rw [filter_ne_eq_self t na (hx ▸ hn.1), chCnt_cons, hx]; omega
    · have h1 : (x.1 != na) = true := by simp [hx]
      rw [h1]; simp only [if_true]
      have hm' : na ∈ t.map (·.1) := by
        rcases List.mem_cons.1 hm with e | e
        · exact absurd e.symm hx
        · exact e
      rw [chCnt_cons, chCnt_cons, ih hn.2 hm']; omega

theorem chKeys_filter_ne (l : List (NA × Challenge × Nat × Nat)) (na : NA)
    (hn : (l.map (·.1)).Nodup) :
    ((l.filter (fun e => e.1 != na)).map (·.1)).Nodup ∧
      na ∉ (l.filter (fun e => e.1 != na)).map (·.1) := by
  constructor
  · exact List.Pairwise.sublist (List.Sublist.map _ List.filter_sublist) hn
  · intro h
    rw [List.mem_map] at h
    obtain ⟨e, he, rfl⟩ := h
    rw [List.mem_filter] at he
    simp at he

theorem chKeys_append_single (l : List (NA × Challenge × Nat × Nat)) (x : NA × Challenge × Nat × Nat)
    (hn : (l.map (·.1)).Nodup) (hx : x.1 ∉ l.map (·.1)) : ((l ++ [x]).map (·.1)).Nodup := by
  rw [List.map_append, List.nodup_append]
  refine ⟨hn, by simp, ?_⟩
  intro y hy z hz
  simp only [List.map_cons, List.map_nil, List.mem_singleton] at hz
  subst hz
  intro e; subst e; exact hx hy

theorem any_chKey_iff (l : List (NA × Challenge × Nat × Nat)) (na : NA) :
    l.any (·.1 == na) = true ↔ na ∈ l.map (·.1) := by
  simp only [List.any_eq_true, List.mem_map, beq_iff_eq]

/-! ### the balance predicate -/

/-- The accounting holds except for a surplus of `k` exemptions at address `a`; the exemption map
is well formed and at most one challenge per node address exists. -/
structure Bal (a : Addr) (k : Nat) (s : HState) : Prop where
  count : ∀ b, cnt s.exempt b = actCnt s.active b + chCnt s.challenges b + (if b = a then k else 0)
  noZero : ∀ e ∈ s.exempt, e.2 ≠ 0
  keysNodup : (s.exempt.map (·.1)).Nodup
  chNodup : (s.challenges.map (·.1)).Nodup

/-- The strengthened invariant: `ExemptAcc` plus "at most one challenge per node address". -/
def Good (s : HState) : Prop := ExemptAcc s ∧ (s.challenges.map (·.1)).Nodup

theorem good_iff_bal (a : Addr) (s : HState) : Good s ↔ Bal a 0 s := by
  constructor
  · intro hg
    obtain ⟨h, hc⟩ := hg
    refine ⟨fun b => ?_, h.noZero, h.keysNodup, hc⟩
    have := h.count b
    rw [exemptCount_eq, outstanding_eq] at this
    simp [this]
  · intro h
    refine And.intro (ExemptAcc.mk (fun b => ?_) h.noZero h.keysNodup) h.chNodup
    have := h.count b
    rw [exemptCount_eq, outstanding_eq]
    simpa using this

theorem Good.bal {s : HState} (h : Good s) (a : Addr) : Bal a 0 s := (good_iff_bal a s).1 h
theorem Bal.good {a : Addr} {s : HState} (h : Bal a 0 s) : Good s := (good_iff_bal a s).2 h

theorem good_init : Good {} :=
  ⟨⟨fun _ => rfl, (fun _ h => nomatch h), List.nodup_nil⟩, List.nodup_nil⟩

/-- The part of the state the accounting talks about is unchanged. -/
def Same (s s' : HState) : Prop :=
  s'.active = s.active ∧ s'.challenges = s.challenges ∧ s'.exempt = s.exempt

theorem Same.rfl' (s : HState) : Same s s := ⟨rfl, rfl, rfl⟩
theorem Same.trans {s1 s2 s3 : HState} (h1 : Same s1 s2) (h2 : Same s2 s3) : Same s1 s3 :=
  ⟨h2.1.trans h1.1, h2.2.1.trans h1.2.1, h2.2.2.trans h1.2.2⟩

theorem Bal.same {a : Addr} {k : Nat} {s s' : HState} (h : Bal a k s) (hs : Same s s') :
    Bal a k s' := by
  obtain ⟨h1, h2, h3⟩ := hs
  exact ⟨by rw [h1, h2, h3]; exact h.count, by rw [h3]; exact h.noZero,
    by rw [h3]; exact h.keysNodup, by rw [h2]; exact h.chNodup⟩

theorem Good.same {s s' : HState} (h : Good s) (hs : Same s s') : Good s' :=
  ((h.bal default).same hs).good

/-- A computation that does not touch requests, challenges or exemptions. -/
structure Frame {α} (m : M α) : Prop where
  out : ∀ s os, Same s (m.run (s, os)).2.1

theorem Frame.ret {α} (x : α) : Frame (pure x : M α) := ⟨fun s _ => Same.rfl' s⟩
theorem Frame.bind {α β} {m : M α} {f : α → M β} (h1 : Frame m) (h2 : ∀ x, Frame (f x)) :
    Frame (m >>= f) := ⟨fun s os => (h1.out s os).trans ((h2 _).out _ _)⟩
theorem Frame.ite {α} {b : Prop} [Decidable b] {m1 m2 : M α} (h1 : Frame m1) (h2 : Frame m2) :
    Frame (if b then m1 else m2) := by
  by_cases h : b
  · rw [if_pos h]; exact h1
  · rw [if_neg h]; exact h2
theorem Frame.emt (o : Out) : Frame (emit o) := ⟨fun s _ => Same.rfl' s⟩
theorem Frame.snd (na : NA) (p : Pkt) : Frame (send na p) := ⟨fun s _ => Same.rfl' s⟩
theorem Frame.get : Frame getS := ⟨fun s _ => Same.rfl' s⟩
theorem Frame.mod (f : HState → HState) (h : ∀ s, Same s (f s)) : Frame (modS f) :=
  ⟨fun s _ => h s⟩
theorem Frame.each {α} (l : List α) (f : α → M Unit) (h : ∀ x, Frame (f x)) :
    Frame (forEach l f) := by
  induction l with
  | nil => exact Frame.ret ()
  | cons x xs ih => rw [forEach_cons]; exact Frame.bind (h x) (fun _ => ih)

/-- A frame computation keeps every predicate that only depends on requests, challenges and
exemptions. -/
theorem Frame.tr {α} {m : M α} (h : Frame m) {P : HState → Prop}
    (hP : ∀ s s', Same s s' → P s → P s') : Tr P m (fun _ => P) :=
  ⟨fun s os hp => hP _ _ (h.out s os) hp⟩

theorem Frame.bal {α} {m : M α} (h : Frame m) (a : Addr) (k : Nat) :
    Tr (Bal a k) m (fun _ => Bal a k) := h.tr (fun _ _ hs hb => hb.same hs)
theorem Frame.good {α} {m : M α} (h : Frame m) : Tr Good m (fun _ => Good) :=
  h.tr (fun _ _ hs hb => hb.same hs)

theorem frame_freshNonce (c : Cfg) : Frame (freshNonce c) := ⟨fun _ _ => ⟨rfl, rfl, rfl⟩⟩
theorem frame_freshCd (c : Cfg) : Frame (freshCd c) := ⟨fun _ _ => ⟨rfl, rfl, rfl⟩⟩
theorem frame_freshEph (c : Cfg) : Frame (freshEph c) := ⟨fun _ _ => ⟨rfl, rfl, rfl⟩⟩
theorem frame_freshRid (c : Cfg) : Frame (freshRid c) := ⟨fun _ _ => ⟨rfl, rfl, rfl⟩⟩

theorem Frame.of_tr {α} {m : M α}
    (h : ∀ s0, Tr (fun s => s = s0) m (fun _ s => Same s0 s)) : Frame m :=
  ⟨fun s os => (h s).out s os rfl⟩

theorem frame_sessGetMut (c : Cfg) (na : NA) : Frame (sessGetMut c na) := by
  refine Frame.of_tr (fun s0 => ?_)
  unfold sessGetMut
  refine Tr.get_bind (fun s hs => ?_)
  subst hs
  cases s.sessions.find? (·.1 == na) with
  | none => exact Tr.ret _ (fun _ h => h ▸ Same.rfl' _)
  | some e =>
    obtain ⟨_, sess, stamp⟩ := e
    dsimp only
    refine Tr.ite (fun _ => ?_) (fun _ => ?_)
    · exact Tr.bind (Tr.set _ (Q := fun _ s' => Same s s') (fun _ _ => ⟨rfl, rfl, rfl⟩))
        (fun _ => Tr.ret _ (fun _ h => h))
    · exact Tr.bind (Tr.set _ (Q := fun _ s' => Same s s') (fun _ _ => ⟨rfl, rfl, rfl⟩))
        (fun _ => Tr.ret _ (fun _ h => h))

theorem frame_sessPut (na : NA) (sess : Session) : Frame (sessPut na sess) :=
  Frame.mod _ (fun _ => ⟨rfl, rfl, rfl⟩)
theorem frame_sessInsert (c : Cfg) (na : NA) (sess : Session) : Frame (sessInsert c na sess) :=
  Frame.mod _ (fun _ => ⟨rfl, rfl, rfl⟩)
theorem frame_sessRemove (na : NA) : Frame (sessRemove na) :=
  Frame.mod _ (fun _ => ⟨rfl, rfl, rfl⟩)

theorem frame_removeExpiredSessions (c : Cfg) : Frame (removeExpiredSessions c) := by
  refine Frame.of_tr (fun s0 => ?_)
  unfold removeExpiredSessions
  refine Tr.get_bind (fun s hs => ?_)
  subst hs
  dsimp only
  refine Tr.bind (Tr.set _ (Q := fun _ s' => Same s s') (fun _ _ => ⟨rfl, rfl, rfl⟩)) (fun _ => ?_)
  exact Tr.ite (fun _ => Tr.emt _) (fun _ => Tr.ret _ (fun _ h => h))

theorem frame_encryptMessage (c : Cfg) (sess : Session) (pt : Msg) :
    Frame (encryptMessage c sess pt) :=
  Frame.bind (frame_freshNonce c) (fun _ => Frame.ret _)

theorem frame_reencryptAll (c : Cfg) (calls : List Call) (sess : Session) (acc : List (Nat × Pkt)) :
    Frame (reencryptAll c calls sess acc) := by
  induction calls generalizing sess acc with
  | nil => exact Frame.ret _
  | cons x t ih =>
    unfold reencryptAll
    exact Frame.bind (frame_encryptMessage ..) (fun r => ih ..)

theorem frame_isAwaitingSession (c : Cfg) (na : NA) : Frame (isAwaitingSession c na) := by
  unfold isAwaitingSession
  refine Frame.bind (frame_sessGetMut c na) (fun r => ?_)
  cases r with
  | some _ => exact Frame.ret _
  | none => exact Frame.bind Frame.get (fun _ => Frame.ret _)

/-! ### state-level effect of the primitives on the balance -/

theorem Bal.addE {a : Addr} {k : Nat} {s s' : HState} (h : Bal a k s)
    (h1 : s'.active = s.active) (h2 : s'.challenges = s.challenges)
    (h3 : s'.exempt = addE s.exempt a) : Bal a (k + 1) s' := by
  refine ⟨fun b => ?_, ?_, ?_, ?_⟩
  · rw [h1, h2, h3, cnt_addE, h.count b]
    by_cases hb : b = a
    · simp only [hb, if_true]; omega
    · simp only [hb, if_false]
  · rw [h3]; exact noZero_addE _ _ h.noZero
  · rw [h3]; exact keys_addE _ _ h.keysNodup
  · rw [h2]; exact h.chNodup

theorem Bal.remE {a : Addr} {k : Nat} {s s' : HState} (h : Bal a (k + 1) s)
    (h1 : s'.active = s.active) (h2 : s'.challenges = s.challenges)
    (h3 : s'.exempt = remE s.exempt a) : Bal a k s' := by
  refine ⟨fun b => ?_, ?_, ?_, ?_⟩
  · rw [h1, h2, h3, cnt_remE _ _ _ h.noZero h.keysNodup, h.count b]
    by_cases hb : b = a
    · simp only [hb, if_true]; omega
    · simp only [hb, if_false]; omega
  · rw [h3]; exact noZero_remE _ _
  · rw [h3]; exact keys_remE _ _ h.keysNodup
  · rw [h2]; exact h.chNodup

theorem Bal.actAdd {a : Addr} {k : Nat} {s s' : HState} {x : Call} (h : Bal a (k + 1) s)
    (ha : x.contact.na.addr = a)
    (h1 : s'.active = s.active ++ [x]) (h2 : s'.challenges = s.challenges)
    (h3 : s'.exempt = s.exempt) : Bal a k s' := by
  refine ⟨fun b => ?_, by rw [h3]; exact h.noZero, by rw [h3]; exact h.keysNodup,
    by rw [h2]; exact h.chNodup⟩
  rw [h1, h2, h3, actCnt_append_single, h.count b, ha]
  by_cases hb : b = a
  · simp only [hb, if_true]; omega
  · simp only [hb, if_false, if_neg (fun e : a = b => hb e.symm)]; omega

theorem Bal.actErase {a : Addr} {k : Nat} {s s' : HState} {x : Call} (h : Bal a k s)
    (hm : x ∈ s.active) (ha : x.contact.na.addr = a)
    (h1 : s'.active = s.active.erase x) (h2 : s'.challenges = s.challenges)
    (h3 : s'.exempt = s.exempt) : Bal a (k + 1) s' := by
  refine ⟨fun b => ?_, by rw [h3]; exact h.noZero, by rw [h3]; exact h.keysNodup,
    by rw [h2]; exact h.chNodup⟩
  have := actCnt_erase s.active x b hm
  rw [ha] at this
  rw [h1, h2, h3, h.count b, ← this]
  by_cases hb : b = a
  · simp only [hb, if_true]; omega
  · simp only [hb, if_false, if_neg (fun e : a = b => hb e.symm)]; omega

theorem Bal.actFilter {k : Nat} {s s' : HState} (na : NA) (h : Bal na.addr k s)
    (h1 : s'.active = s.active.filter (fun call => callNA call != na))
    (h2 : s'.challenges = s.challenges) (h3 : s'.exempt = s.exempt) :
    Bal na.addr (k + (s.active.filter (fun call => callNA call == na)).length) s' := by
  refine ⟨fun b => ?_, by rw [h3]; exact h.noZero, by rw [h3]; exact h.keysNodup,
    by rw [h2]; exact h.chNodup⟩
  rw [h1, h2, h3, h.count b, actCnt_filter_ne s.active na b]
  by_cases hb : b = na.addr
  · simp only [hb, if_true]; omega
  · simp only [hb, if_false]; omega

theorem Bal.actMap {a : Addr} {k : Nat} {s s' : HState} (f : Call → Call) (h : Bal a k s)
    (hf : ∀ x, (f x).contact = x.contact)
    (h1 : s'.active = s.active.map f) (h2 : s'.challenges = s.challenges)
    (h3 : s'.exempt = s.exempt) : Bal a k s' := by
  refine ⟨fun b => ?_, by rw [h3]; exact h.noZero, by rw [h3]; exact h.keysNodup,
    by rw [h2]; exact h.chNodup⟩
  rw [h1, h2, h3, actCnt_map _ _ _ hf]; exact h.count b

theorem Bal.chAdd {k : Nat} {s s' : HState} {x : NA × Challenge × Nat × Nat}
    (h : Bal x.1.addr (k + 1) s) (hx : x.1 ∉ s.challenges.map (·.1))
    (h1 : s'.active = s.active) (h2 : s'.challenges = s.challenges ++ [x])
    (h3 : s'.exempt = s.exempt) : Bal x.1.addr k s' := by
  refine ⟨fun b => ?_, by rw [h3]; exact h.noZero, by rw [h3]; exact h.keysNodup,
    by rw [h2]; exact chKeys_append_single _ _ h.chNodup hx⟩
  rw [h1, h2, h3, chCnt_append_single, h.count b]
  by_cases hb : b = x.1.addr
  · simp only [hb, if_true]; omega
  · simp only [hb, if_false, if_neg (fun e : x.1.addr = b => hb e.symm)]; omega

theorem Bal.chRemove {k : Nat} {s s' : HState} (na : NA) (h : Bal na.addr k s)
    (hm : na ∈ s.challenges.map (·.1))
    (h1 : s'.active = s.active) (h2 : s'.challenges = s.challenges.filter (fun e => e.1 != na))
    (h3 : s'.exempt = s.exempt) :
    Bal na.addr (k + 1) s' ∧ na ∉ s'.challenges.map (·.1) := by
  have hk := chKeys_filter_ne s.challenges na h.chNodup
  refine ⟨⟨fun b => ?_, by rw [h3]; exact h.noZero, by rw [h3]; exact h.keysNodup,
    by rw [h2]; exact hk.1⟩, by rw [h2]; exact hk.2⟩
  rw [h1, h2, h3, h.count b, chCnt_filter_ne s.challenges na b h.chNodup hm]
  by_cases hb : b = na.addr
  · simp only [hb, if_true]; omega
  · simp only [hb, if_false, if_neg (fun e : na.addr = b => hb e.symm)]; omega

/-! ### triples of the primitives -/

theorem addExpected_eq (a : Addr) :
    addExpected a = modS fun s => { s with exempt := addE s.exempt a } := by
  unfold addExpected addE
  congr 1; funext s
  split <;> rfl

theorem removeExpected_eq (a : Addr) :
    removeExpected a = modS fun s => { s with exempt := remE s.exempt a } := rfl

theorem tr_addExpected (a : Addr) (k : Nat) :
    Tr (Bal a k) (addExpected a) (fun _ => Bal a (k + 1)) := by
  rw [addExpected_eq]
  exact Tr.mod _ (fun s h => h.addE rfl rfl rfl)

theorem tr_removeExpected (a : Addr) (k : Nat) :
    Tr (Bal a (k + 1)) (removeExpected a) (fun _ => Bal a k) := by
  rw [removeExpected_eq]
  exact Tr.mod _ (fun s h => h.remE rfl rfl rfl)

theorem tr_activeInsert (c : Cfg) (call : Call) (a : Addr) (k : Nat)
    (ha : call.contact.na.addr = a) :
    Tr (Bal a (k + 1)) (activeInsert c call) (fun _ => Bal a k) := by
  unfold activeInsert
  exact Tr.mod _ (fun s h => h.actAdd (x := { call with deadline := s.now + c.requestTimeout, tseq := s.tctr }) ha rfl rfl rfl)

/-- Outcome of removing one active request: either nothing changed or there is a surplus of one
exemption at the address of the removed call. -/
def AfterRemove (r : Option Call) (s : HState) : Prop :=
  match r with
  | none => Good s
  | some call => Bal call.contact.na.addr 1 s

theorem tr_activeRemoveByNonce (nonce : Nat) :
    Tr Good (activeRemoveByNonce nonce) AfterRemove := by
  unfold activeRemoveByNonce
  refine Tr.get_bind (fun s hs => ?_)
  cases hf : s.active.find? (·.pkt.nonce == nonce) with
  | none => exact Tr.ret _ (fun _ h => h ▸ hs)
  | some call =>
    dsimp only
    refine Tr.bind (Tr.set _ (Q := fun _ s' => Bal call.contact.na.addr 1 s') (fun _ _ => ?_))
      (fun _ => Tr.ret _ (fun _ h => h))
    exact (hs.bal _).actErase (List.mem_of_find?_eq_some hf) rfl rfl rfl rfl

def AfterRemoveReq (na : NA) (r : Option Call) (s : HState) : Prop :=
  match r with
  | none => Good s
  | some call => call.contact.na = na ∧ Bal na.addr 1 s

theorem tr_activeRemoveRequest (na : NA) (rid : Nat) :
    Tr Good (activeRemoveRequest na rid) (AfterRemoveReq na) := by
  unfold activeRemoveRequest
  refine Tr.get_bind (fun s hs => ?_)
  cases hf : s.active.find? (fun call => callNA call == na && call.rid == rid) with
  | none => exact Tr.ret _ (fun _ h => h ▸ hs)
  | some call =>
    dsimp only
    have hp := List.find?_some hf
    simp only [Bool.and_eq_true, beq_iff_eq] at hp
    have hna : call.contact.na = na := hp.1
    refine Tr.bind (Tr.set _ (Q := fun _ s' => call.contact.na = na ∧ Bal na.addr 1 s')
      (fun _ _ => ⟨hna, ?_⟩)) (fun _ => Tr.ret _ (fun _ h => h))
    exact (hs.bal _).actErase (List.mem_of_find?_eq_some hf) (by rw [hna]) rfl rfl rfl

theorem tr_activeRemoveRequests (na : NA) (k : Nat) :
    Tr (Bal na.addr k) (activeRemoveRequests na)
      (fun calls s => Bal na.addr (k + calls.length) s) := by
  unfold activeRemoveRequests
  refine Tr.get_bind (fun s hs => ?_)
  refine Tr.bind (Tr.set _ (Q := fun _ s' =>
    Bal na.addr (k + (s.active.filter (fun call => callNA call == na)).length) s') (fun _ _ => ?_))
    (fun _ => Tr.ret _ (fun _ h => h))
  exact hs.actFilter na rfl rfl rfl

/-! ### handler functions -/

/-- Discharges `Frame m` for computations built from the frame primitives. -/
macro "frame_tac" : tactic => `(tactic| repeat' (first
  | exact Frame.ret _ | exact Frame.emt _ | exact Frame.snd _ _ | exact Frame.get
  | exact frame_freshNonce _ | exact frame_freshCd _ | exact frame_freshEph _
  | exact frame_freshRid _ | exact frame_sessGetMut _ _ | exact frame_sessPut _ _
  | exact frame_sessInsert _ _ _ | exact frame_sessRemove _ | exact frame_removeExpiredSessions _
  | exact frame_encryptMessage _ _ _ | exact frame_reencryptAll _ _ _ _
  | exact frame_isAwaitingSession _ _
  | refine Frame.bind ?_ (fun _ => ?_) | refine Frame.ite ?_ ?_))

theorem tr_sendTail (c : Cfg) (contact : Contact) (rid : Nat) (internal : Bool) (body : Nat)
    (pkt : Pkt) (initiating : Bool) :
    Tr Good (do
      addExpected contact.na.addr
      send contact.na pkt
      activeInsert c { contact := contact, pkt := pkt, rid := rid, internal := internal,
                       body := body, initiating := initiating }
      pure (none : Option Err)) (fun _ => Good) := by
  refine Tr.bind ((tr_addExpected contact.na.addr 0).pre (fun _ h => h.bal _)) (fun _ => ?_)
  refine Tr.bind (Tr.snd _ _) (fun _ => ?_)
  refine Tr.bind (tr_activeInsert c _ contact.na.addr 0 rfl) (fun _ => ?_)
  exact Tr.ret _ (fun _ h => h.good)

theorem tr_sendRequest (c : Cfg) (contact : Contact) (rid : Nat) (internal : Bool) (body : Nat) :
    Tr Good (sendRequest c contact rid internal body) (fun _ => Good) := by
  unfold sendRequest
  dsimp only
  refine Tr.ite (fun _ => Tr.ret _ (fun _ h => h)) (fun _ => ?_)
  refine Tr.bind Frame.get.good (fun s => ?_)
  refine Tr.ite (fun _ => ?_) (fun _ => ?_) <;>
  · refine Tr.bind (Q := fun _ => Good) (Frame.good (by frame_tac)) (fun aw => ?_)
    refine Tr.ite (fun _ => ?_) (fun _ => ?_)
    · refine Tr.bind (Frame.good (Frame.mod _ (fun s => ?_))) (fun _ => Tr.ret _ (fun _ h => h))
      split <;> exact ⟨rfl, rfl, rfl⟩
    · refine Tr.bind (frame_sessGetMut c contact.na).good (fun r => ?_)
      cases r with
      | some sess =>
        dsimp only
        refine Tr.bind (frame_encryptMessage ..).good (fun x => ?_)
        refine Tr.bind (frame_sessPut ..).good (fun _ => ?_)
        refine Tr.bind (Frame.ret _).good (fun _ => ?_)
        exact tr_sendTail ..
      | none =>
        dsimp only
        refine Tr.bind (frame_freshNonce ..).good (fun x => ?_)
        refine Tr.bind (Frame.ret _).good (fun _ => ?_)
        exact tr_sendTail ..

theorem tr_sendPendingRequests (c : Cfg) (na : NA) :
    Tr Good (sendPendingRequests c na) (fun _ => Good) := by
  unfold sendPendingRequests
  refine Tr.get_bind (fun s hs => ?_)
  dsimp only
  refine Tr.bind (Tr.set _ (Q := fun _ => Good) (fun _ _ => hs.same ⟨rfl, rfl, rfl⟩)) (fun _ => ?_)
  refine Tr.each _ _ (fun pr _ => ?_)
  refine Tr.bind (tr_sendRequest ..) (fun r => ?_)
  cases r with
  | none => exact Tr.ret _ (fun _ h => h)
  | some e => exact Tr.ite (fun _ => Tr.emt _) (fun _ => Tr.ret _ (fun _ h => h))

/-- The cleanup loop of `fail_session`: one exemption is dropped per removed call. -/
theorem tr_failLoop (a : Addr) (e : Err) (calls : List Call) (k : Nat) :
    Tr (Bal a (k + calls.length))
      (forEach calls fun call =>
        if (!call.internal) = true then do
          emit (Out.failed call.rid e)
          removeExpected a
        else removeExpected a) (fun _ => Bal a k) := by
  induction calls generalizing k with
  | nil => exact Tr.ret _ (fun _ h => h)
  | cons x t ih =>
    rw [forEach_cons]
    refine Tr.bind (Q := fun _ => Bal a (k + t.length)) ?_ (fun _ => ih k)
    refine Tr.ite (fun _ => ?_) (fun _ => tr_removeExpected a _)
    exact Tr.bind (Tr.emt _) (fun _ => tr_removeExpected a _)

theorem tr_failTail (na : NA) (e : Err) :
    Tr Good (do
      let calls ← activeRemoveRequests na
      forEach calls fun call =>
        if (!call.internal) = true then do
          emit (Out.failed call.rid e)
          removeExpected na.addr
        else removeExpected na.addr) (fun _ => Good) := by
  refine Tr.bind ((tr_activeRemoveRequests na 0).pre (fun _ h => h.bal _)) (fun calls => ?_)
  exact (tr_failLoop na.addr e calls 0).post (fun _ _ h => h.good)

theorem tr_failSession (c : Cfg) (na : NA) (e : Err) (rm : Bool) :
    Tr Good (failSession c na e rm) (fun _ => Good) := by
  unfold failSession
  dsimp only
  have key : Tr Good (do
      let s ← getS
      match List.find? (fun x => x.fst == na) s.pending with
        | some ent => do
          setS { s with pending := List.filter (fun x => x.fst != na) s.pending }
          forEach ent.snd fun pr => if (!pr.internal) = true then emit (Out.failed pr.rid e) else pure ()
          let calls ← activeRemoveRequests na
          forEach calls fun call =>
              if (!call.internal) = true then do
                emit (Out.failed call.rid e)
                removeExpected na.addr
              else removeExpected na.addr
        | none => do
          let calls ← activeRemoveRequests na
          forEach calls fun call =>
              if (!call.internal) = true then do
                emit (Out.failed call.rid e)
                removeExpected na.addr
              else removeExpected na.addr) (fun _ => Good) := by
    refine Tr.get_bind (fun s hs => ?_)
    cases List.find? (fun x => x.fst == na) s.pending with
    | none => dsimp only; exact (tr_failTail na e).pre (fun _ h => h ▸ hs)
    | some ent =>
      dsimp only
      refine Tr.bind (Tr.set _ (Q := fun _ => Good) (fun _ _ => hs.same ⟨rfl, rfl, rfl⟩)) (fun _ => ?_)
      exact Tr.bind (Frame.good (Frame.each _ _ (fun _ => by frame_tac))) (fun _ => tr_failTail na e)
  refine Tr.ite (fun _ => ?_) (fun _ => key)
  refine Tr.bind (frame_removeExpiredSessions c).good (fun _ => ?_)
  exact Tr.bind (frame_sessRemove na).good (fun _ => key)

theorem tr_failRequest (c : Cfg) (call : Call) (e : Err) (rm : Bool) :
    Tr Good (failRequest c call e rm) (fun _ => Good) := by
  unfold failRequest
  dsimp only
  refine Tr.ite (fun _ => ?_) (fun _ => tr_failSession ..)
  exact Tr.bind (Tr.emt _) (fun _ => tr_failSession ..)

theorem tr_handleRequestTimeout (c : Cfg) (call : Call) :
    Tr (Bal call.contact.na.addr 1) (handleRequestTimeout c call) (fun _ => Good) := by
  unfold handleRequestTimeout
  refine Tr.ite (fun _ => ?_) (fun _ => ?_)
  · refine Tr.bind (tr_removeExpected _ 0) (fun _ => ?_)
    exact (tr_failRequest ..).pre (fun _ h => h.good)
  · refine Tr.bind (Tr.snd _ _) (fun _ => ?_)
    exact (tr_activeInsert c { call with retries := call.retries + 1 } call.contact.na.addr 0 rfl).post
      (fun _ _ h => h.good)

theorem tr_replayActiveRequests (c : Cfg) (na : NA) (skip : Option Nat) :
    Tr Good (replayActiveRequests c na skip) (fun _ => Good) := by
  unfold replayActiveRequests
  refine Tr.bind (frame_sessGetMut c na).good (fun r => ?_)
  cases r with
  | none => exact Tr.ret _ (fun _ h => h)
  | some sess0 =>
    dsimp only
    refine Tr.bind Frame.get.good (fun s => ?_)
    refine Tr.bind (frame_reencryptAll ..).good (fun x => ?_)
    obtain ⟨sess, packets⟩ := x
    dsimp only
    refine Tr.bind (frame_sessPut ..).good (fun _ => ?_)
    refine Tr.each _ _ (fun x _ => ?_)
    obtain ⟨oldNonce, p⟩ := x
    dsimp only
    refine Tr.bind (Q := fun _ => Good) (Tr.mod _ (fun s h => ?_)) (fun _ => Tr.snd _ _)
    refine Bal.good (a := default) ?_
    refine Bal.actMap _ (h.bal default) (fun x => ?_) rfl rfl rfl
    split <;> rfl

theorem tr_newSession (c : Cfg) (na : NA) (sess : Session) (skip : Option Nat) :
    Tr Good (newSession c na sess skip) (fun _ => Good) := by
  unfold newSession
  refine Tr.bind (frame_removeExpiredSessions c).good (fun _ => ?_)
  refine Tr.bind (frame_sessGetMut c na).good (fun r => ?_)
  cases r with
  | some cur =>
    dsimp only
    refine Tr.bind (frame_sessPut ..).good (fun _ => ?_)
    exact Tr.bind (tr_replayActiveRequests ..) (fun _ => tr_sendPendingRequests ..)
  | none =>
    dsimp only
    exact Tr.bind (frame_sessInsert ..).good (fun _ => tr_sendPendingRequests ..)

theorem tr_sendChallenge (c : Cfg) (na : NA) (nonce : Nat) (known : Option Rec) :
    Tr Good (sendChallenge c na nonce known) (fun _ => Good) := by
  unfold sendChallenge
  refine Tr.get_bind (fun s hs => ?_)
  refine Tr.ite (fun _ => Tr.ret _ (fun _ h => h ▸ hs)) (fun hn => ?_)
  dsimp only
  have hn' : na ∉ s.challenges.map (·.1) := fun h => hn ((any_chKey_iff _ _).2 h)
  -- the challenge list is untouched until the final insertion
  refine Tr.bind (Q := fun _ s' => Good s' ∧ s'.challenges = s.challenges)
    ⟨fun s' os h => ?_⟩ (fun cd => ?_)
  · subst h; exact ⟨hs.same ⟨rfl, rfl, rfl⟩, rfl⟩
  refine Tr.bind (Q := fun _ s' => Bal na.addr 1 s' ∧ s'.challenges = s.challenges)
    ⟨fun s' os h => ?_⟩ (fun _ => ?_)
  · exact ⟨(tr_addExpected na.addr 0).out s' os (h.1.bal _), by rw [addExpected_eq]; exact h.2⟩
  refine Tr.bind (Tr.snd _ _) (fun _ => ?_)
  refine Tr.mod _ (fun s' h => ?_)
  refine Bal.good (a := na.addr) ?_
  exact Bal.chAdd (x := (na, _, _, _)) h.1 (by rw [h.2]; exact hn') rfl rfl rfl

theorem tr_handleResponse (c : Cfg) (na : NA) (rid : Nat) (rb : RespBody) :
    Tr Good (handleResponse c na rid rb) (fun _ => Good) := by
  unfold handleResponse
  refine Tr.bind (tr_activeRemoveRequest na rid) (fun r => ?_)
  cases r with
  | none => exact Tr.ret _ (fun _ h => h)
  | some call =>
    dsimp only
    refine Tr.pre_and (P := Bal na.addr 1) (fun hna => ?_)
    have ins : ∀ call' : Call, call'.contact = call.contact →
        Tr (Bal na.addr 1) (do activeInsert c call'; emit (Out.response na rid rb); pure ())
          (fun _ => Good) := by
      intro call' hc
      refine Tr.bind (tr_activeInsert c call' na.addr 0 (by rw [hc, hna])) (fun _ => ?_)
      exact Tr.bind (Tr.emt _) (fun _ => Tr.ret _ (fun _ h => h.good))
    have fin : Tr (Bal na.addr 1) (do removeExpected na.addr; emit (Out.response na rid rb))
        (fun _ => Good) :=
      Tr.bind (tr_removeExpected na.addr 0) (fun _ => (Tr.emt _).post (fun _ _ h => h.good))
    cases rb with
    | other code => exact fin
    | nodes total recs =>
      dsimp only
      refine Tr.ite (fun _ => ?_) (fun _ => fin)
      cases hrem : call.remaining with
      | none => exact ins _ rfl
      | some rem =>
        dsimp only
        exact Tr.ite (fun _ => ins _ rfl) (fun _ => fin)

theorem tr_handleChallenge (c : Cfg) (src : Addr) (nonce cd enrSeq : Nat) :
    Tr Good (handleChallenge c src nonce cd enrSeq) (fun _ => Good) := by
  unfold handleChallenge
  refine Tr.bind (tr_activeRemoveByNonce nonce) (fun r => ?_)
  cases r with
  | none => exact Tr.ret _ (fun _ h => h)
  | some call0 =>
    dsimp only
    change Tr (Bal call0.contact.na.addr 1) _ _
    refine Tr.ite (fun _ => ?_) (fun hsrc => ?_)
    · refine Tr.bind (tr_activeInsert c call0 _ 0 rfl) (fun _ => Tr.ret _ (fun _ h => h.good))
    have hsrc' : call0.contact.na.addr = src := by
      simpa [callNA] using hsrc
    refine Tr.ite (fun _ => ?_) (fun _ => ?_)
    · rw [← hsrc']
      refine Tr.bind (tr_removeExpected _ 0) (fun _ => ?_)
      refine Tr.bind ((tr_failRequest ..).pre (fun _ h => h.good)) (fun _ => Tr.ret _ (fun _ h => h))
    refine Tr.ite (fun _ => ?_) (fun _ => ?_)
    · rw [← hsrc']
      refine Tr.bind (tr_removeExpected _ 0) (fun _ => ?_)
      refine Tr.bind ((tr_failRequest ..).pre (fun _ h => h.good)) (fun _ => Tr.ret _ (fun _ h => h))
    refine Tr.bind ((frame_freshEph c).bal _ _) (fun eph => ?_)
    refine Tr.bind ((frame_freshNonce c).bal _ _) (fun hsNonce => ?_)
    cases call0.contact.record with
    | some r =>
      dsimp only
      refine Tr.bind (Q := fun _ => Good)
        ((tr_activeInsert c _ call0.contact.na.addr 0 (by rfl)).post (fun _ _ h => h.good)) (fun _ => ?_)
      refine Tr.bind (Tr.snd _ _) (fun _ => ?_)
      exact Tr.bind (Tr.emt _) (fun _ => tr_newSession ..)
    | none =>
      dsimp only
      refine Tr.bind (Q := fun _ => Good)
        ((tr_activeInsert c _ call0.contact.na.addr 0 (by rfl)).post (fun _ _ h => h.good)) (fun _ => ?_)
      refine Tr.bind (Tr.snd _ _) (fun _ => ?_)
      refine Tr.bind (frame_freshRid c).good (fun rid => ?_)
      exact Tr.bind (tr_sendRequest ..) (fun _ => tr_newSession ..)

theorem tr_handleMessage (c : Cfg) (na : NA) (nonce : Nat) (ct : Ct) :
    Tr Good (handleMessage c na nonce ct) (fun _ => Good) := by
  unfold handleMessage
  refine Tr.bind (frame_sessGetMut c na).good (fun r => ?_)
  cases r with
  | none => exact Tr.emt _
  | some sess =>
    dsimp only
    generalize decryptMessage sess nonce ct = dm
    obtain ⟨sess', pt⟩ := dm
    dsimp only
    refine Tr.bind (frame_sessPut ..).good (fun _ => ?_)
    cases pt with
    | none =>
      dsimp only
      refine Tr.bind (tr_failSession ..) (fun _ => ?_)
      refine Tr.bind Frame.get.good (fun s => ?_)
      exact Tr.ite (fun _ => Tr.emt _) (fun _ => Tr.ret _ (fun _ h => h))
    | some m =>
      cases m with
      | undecodable => exact Tr.ret _ (fun _ h => h)
      | request rid body => exact Tr.emt _
      | response rid rb =>
        dsimp only
        refine Tr.ite (fun _ => ?_) (fun _ => tr_handleResponse ..)
        refine Tr.bind (frame_sessPut ..).good (fun _ => ?_)
        refine Tr.bind (tr_activeRemoveRequest na rid) (fun r => ?_)
        have vfr : ∀ m : M Bool, Frame m → Tr Good (do
            let verified ← m
            if (!verified) = true then failSession c na Err.invalidRemoteEnr true else pure ())
            (fun _ => Good) := by
          intro m hm
          refine Tr.bind hm.good (fun v => ?_)
          exact Tr.ite (fun _ => tr_failSession ..) (fun _ => Tr.ret _ (fun _ h => h))
        have hfr : ∀ P : HState → Prop, (∀ s, P s → Good s) → Tr P (do
            let verified ← (
              match rb with
                | RespBody.nodes total recs =>
                  match recs.getLast? with
                  | some r =>
                    if verifyEnr r na = true then do
                      emit (Out.established r na.addr true)
                      pure true
                    else do
                      emit (Out.unverifiable r na.addr na.id)
                      pure false
                  | none => pure false
                | x => pure false)
            if (!verified) = true then failSession c na Err.invalidRemoteEnr true else pure ())
            (fun _ => Good) := by
          intro P hP
          refine (vfr _ ?_).pre hP
          cases rb with
          | other code => exact Frame.ret _
          | nodes total recs =>
            dsimp only
            cases recs.getLast? with
            | none => exact Frame.ret _
            | some r => dsimp only; frame_tac
        cases r with
        | none => exact hfr _ (fun _ h => h)
        | some call =>
          dsimp only
          refine Tr.bind (Q := fun _ => Good) ?_ (fun _ => hfr _ (fun _ h => h))
          exact ((tr_removeExpected na.addr 0).post (fun _ _ h => h.good)).pre (fun _ h => h.2)

theorem tr_handleAuthMessage (c : Cfg) (na : NA) (nonce : Nat) (sig : Sig) (eph : Nat)
    (record : Option Rec) (ct : Ct) :
    Tr Good (handleAuthMessage c na nonce sig eph record ct) (fun _ => Good) := by
  unfold handleAuthMessage
  refine Tr.get_bind (fun s hs => ?_)
  cases hf : s.challenges.find? (·.1 == na) with
  | none => exact Tr.ret _ (fun _ h => h ▸ hs)
  | some e =>
    obtain ⟨x, ch, d, q⟩ := e
    dsimp only
    have hm : na ∈ s.challenges.map (·.1) := by
      have h1 := List.find?_some hf
      have h2 := List.mem_of_find?_eq_some hf
      simp only [beq_iff_eq] at h1
      exact h1 ▸ List.mem_map_of_mem (f := (·.1)) h2
    refine Tr.bind (Tr.set _
      (Q := fun _ s' => Bal na.addr 1 s' ∧ na ∉ s'.challenges.map (fun e => e.1))
      (fun _ _ => by exact Bal.chRemove na (hs.bal _) hm rfl rfl rfl)) (fun _ => ?_)
    cases establishFromChallenge c na.id ch sig eph record with
    | none =>
      dsimp only
      refine Tr.mod _ (fun s' h => ?_)
      refine Bal.good (a := na.addr) ?_
      exact Bal.chAdd (x := (na, ch, _, _)) h.1 h.2 rfl rfl rfl
    | some o =>
      cases o with
      | none =>
        dsimp only
        refine Tr.bind ((tr_removeExpected na.addr 0).pre (fun _ h => h.1)) (fun _ => ?_)
        exact (tr_failSession ..).pre (fun _ h => h.good)
      | some p =>
        obtain ⟨sess, r⟩ := p
        dsimp only
        refine Tr.bind (Q := fun _ => Good)
          (((tr_removeExpected na.addr 0).pre (fun _ h => h.1)).post (fun _ _ h => h.good)) (fun _ => ?_)
        refine Tr.ite (fun _ => ?_) (fun _ => ?_) <;>
        · refine Tr.bind (Tr.emt _) (fun _ => ?_)
          exact Tr.bind (tr_newSession ..) (fun _ => tr_handleMessage ..)

/-! ### timers -/

theorem foldl_sel_mem {α} (g : Option α → α → Option α)
    (hg : ∀ m x, g m x = m ∨ g m x = some x) (l : List α) (init : Option α) (r : α)
    (h : l.foldl g init = some r) : init = some r ∨ r ∈ l := by
  induction l generalizing init with
  | nil => exact Or.inl h
  | cons x t ih =>
    rw [List.foldl_cons] at h
    rcases ih _ h with h1 | h1
    · rcases hg init x with h2 | h2
      · exact Or.inl (h2 ▸ h1)
      · rw [h2] at h1
        exact Or.inr (Option.some.inj h1 ▸ List.mem_cons_self ..)
    · exact Or.inr (List.mem_cons_of_mem _ h1)

theorem sel_step {α} (better : α → α → Bool) (m : Option α) (x : α) :
    (match m with
      | none => some x
      | some b => if better x b = true then some x else some b) = m ∨
    (match m with
      | none => some x
      | some b => if better x b = true then some x else some b) = some x := by
  cases m with
  | none => exact Or.inr rfl
  | some b =>
    dsimp only
    by_cases h : better x b = true
    · rw [if_pos h]; exact Or.inr rfl
    · rw [if_neg h]; exact Or.inl rfl

theorem nextDue_mem (s : HState) (target d : Nat) (x : Sum Call NA)
    (h : nextDue s target = some (d, x)) :
    (∀ call, x = .inl call → call ∈ s.active) ∧
      (∀ na, x = .inr na → na ∈ s.challenges.map (fun e => e.1)) := by
  unfold nextDue at h
  dsimp only at h
  have hR : ∀ r, List.foldl (fun (m : Option Call) call => match m with
      | none => some call
      | some b => if (call.deadline < b.deadline || (call.deadline == b.deadline && call.tseq < b.tseq))
          then some call else some b) none (s.active.filter (·.deadline ≤ target)) = some r →
      r ∈ s.active := by
    intro r hr
    have := foldl_sel_mem _ ?_ _ _ _ hr
    rcases this with h1 | h1
    · cases h1
    · exact (List.mem_filter.1 h1).1
    · intro m x
      cases m with
      | none => exact Or.inr rfl
      | some b =>
        dsimp only
        split
        · exact Or.inr rfl
        · exact Or.inl rfl
  have hC : ∀ r, List.foldl (fun (m : Option (NA × Challenge × Nat × Nat)) e => match m with
      | none => some e
      | some b => if (e.2.2.1 < b.2.2.1 || (e.2.2.1 == b.2.2.1 && e.2.2.2 < b.2.2.2))
          then some e else some b) none (s.challenges.filter (·.2.2.1 ≤ target)) = some r →
      r ∈ s.challenges := by
    intro r hr
    have := foldl_sel_mem _ ?_ _ _ _ hr
    rcases this with h1 | h1
    · cases h1
    · exact (List.mem_filter.1 h1).1
    · intro m x
      cases m with
      | none => exact Or.inr rfl
      | some b =>
        dsimp only
        split
        · exact Or.inr rfl
        · exact Or.inl rfl
  split at h
  · rename_i r ch h1 h2
    split at h
    · cases h
      exact ⟨fun _ e => (nomatch e), fun na e => by cases e; exact List.mem_map_of_mem (hC _ h2)⟩
    · cases h
      exact ⟨fun call e => by cases e; exact hR _ h1, fun _ e => (nomatch e)⟩
  · rename_i r h1 h2
    cases h
    exact ⟨fun call e => by cases e; exact hR _ h1, fun _ e => (nomatch e)⟩
  · rename_i ch h1 h2
    cases h
    exact ⟨fun _ e => (nomatch e), fun na e => by cases e; exact List.mem_map_of_mem (hC _ h2)⟩
  · cases h

theorem Bal.chRemove₁ {k : Nat} {s s' : HState} (na : NA) (h : Bal na.addr k s)
    (hm : na ∈ s.challenges.map (·.1))
    (h1 : s'.active = s.active) (h2 : s'.challenges = s.challenges.filter (fun e => e.1 != na))
    (h3 : s'.exempt = s.exempt) : Bal na.addr (k + 1) s' :=
  (Bal.chRemove na h hm h1 h2 h3).1

theorem tr_fireTimers (c : Cfg) (target fuel : Nat) :
    Tr Good (fireTimers c target fuel) (fun _ => Good) := by
  induction fuel with
  | zero => exact Tr.ret _ (fun _ h => h)
  | succ n ih =>
    unfold fireTimers
    refine Tr.get_bind (fun s hs => ?_)
    cases hd : nextDue s target with
    | none => exact Tr.ret _ (fun _ h => h ▸ hs)
    | some p =>
      obtain ⟨d, x⟩ := p
      have hm := nextDue_mem s target d x hd
      cases x with
      | inl call =>
        dsimp only
        refine Tr.bind (Tr.set _ (Q := fun _ => Bal call.contact.na.addr 1)
          (fun _ _ => by exact (hs.bal _).actErase (hm.1 call rfl) rfl rfl rfl rfl)) (fun _ => ?_)
        exact Tr.bind (tr_handleRequestTimeout c call) (fun _ => ih)
      | inr na =>
        dsimp only
        refine Tr.bind (Tr.set _ (Q := fun _ => Bal na.addr 1)
          (fun _ _ => by
            exact Bal.chRemove₁ na (hs.bal _) (hm.2 na rfl) rfl rfl rfl)) (fun _ => ?_)
        refine Tr.bind (Q := fun _ => Good)
          ((tr_removeExpected na.addr 0).post (fun _ _ h => h.good)) (fun _ => ?_)
        exact Tr.bind (tr_sendPendingRequests c na) (fun _ => ih)

theorem tr_stepM (c : Cfg) (e : Ev) : Tr Good (stepM c e) (fun _ => Good) := by
  cases e with
  | appRequest contact rid body =>
    unfold stepM
    refine Tr.bind (tr_sendRequest ..) (fun r => ?_)
    cases r with
    | none => exact Tr.ret _ (fun _ h => h)
    | some e => exact Tr.emt _
  | appResponse na rid rb =>
    unfold stepM
    refine Frame.good ?_
    refine Frame.bind (frame_sessGetMut c na) (fun r => ?_)
    cases r with
    | none => exact Frame.ret _
    | some sess => dsimp only; frame_tac
  | appWru na nonce known => exact tr_sendChallenge ..
  | dgram src p =>
    cases p with
    | whoareyou nonce cd enrSeq => exact tr_handleChallenge ..
    | handshake srcId nonce sig eph record ct => exact tr_handleAuthMessage ..
    | message srcId nonce ct => exact tr_handleMessage ..
  | adv dt =>
    unfold stepM
    refine Tr.bind Frame.get.good (fun s => ?_)
    dsimp only
    refine Tr.bind (tr_fireTimers ..) (fun _ => ?_)
    exact Frame.good (Frame.mod _ (fun _ => ⟨rfl, rfl, rfl⟩))
  | rtAdv dt =>
    unfold stepM
    exact Frame.good (Frame.mod _ (fun _ => ⟨rfl, rfl, rfl⟩))

theorem good_step (c : Cfg) (s : HState) (e : Ev) (h : Good s) : Good (step c s e).1 :=
  (tr_stepM c e).out s [] h

theorem good_run (c : Cfg) (evs : List Ev) : Good (run c evs) := by
  unfold run
  suffices ∀ s, Good s → Good (evs.foldl (fun s e => (step c s e).1) s) from this _ good_init
  induction evs with
  | nil => exact fun _ h => h
  | cons e t ih => exact fun s h => ih _ (good_step c s e h)

end Discv5.H

/-
Session cache refinement (C15, handler part): the handler model's session list
(`HState.sessions`, operated on by `sessGetMut` / `sessPut` / `sessInsert` / `sessRemove` /
`removeExpiredSessions` in `Model/Handler.lean`) IS the validated model of `LruTimeCache`
(`Model/Lru.lean`).

* `toCache` — the abstraction (same entries, same order, ttl = `sessionTtl`, capacity = `sessionCap`);
* one refinement theorem per handler-level operation: it commutes with the `Lru` operation at the
  real-time clock `s.rt`, replies / reported keys agree, nothing but the session list changes.
  None of them needs a precondition: the two models agree on *every* state, including states
  outside the domain the handler reaches (duplicate keys, `sessInsert` of a key that is held):
  both use "erase every entry of the key, attach at the back, pop one front entry if over
  capacity".  No discrepancy between the two models was found.
* walk W: the `Lru` invariant `WF` (keys distinct, stamps sorted and ≤ clock, `len ≤ capacity`)
  holds along every handler function — the leaves are `Lru.step_wf` through the refinement;
* walk S: stamps are only ever set to the current real-time clock.
-/
import Discv5Model.Proofs.LruLemmas
import Discv5Model.Proofs.HandlerRequests

namespace Discv5.H.HL
open Discv5 Discv5.H.RQ

abbrev SS := List (NA × Session × Nat)

/-- One session-list entry `(address, session, stamp)` as a node of the linked hash map. -/
def toEntry (e : NA × Session × Nat) : Lru.Entry NA Session := ⟨e.1, e.2.1, e.2.2⟩

/-- The session list as the list of the linked hash map (same order: front = least recently used). -/
def toMap (l : SS) : List (Lru.Entry NA Session) := l.map toEntry

/-- The abstraction: the handler's session list *is* `LruTimeCache::new(session_timeout,
Some(session_cache_capacity))` holding the same entries in the same order. -/
def toCache (c : Cfg) (s : HState) : Lru.Cache NA Session :=
  { map := toMap s.sessions, ttl := c.sessionTtl, capacity := c.sessionCap }

/-- Writing through the `&mut V` that `get_mut` handed out: the value of the entry of `k` is
replaced, key, stamp and position stay. -/
def putVal {K V : Type} [DecidableEq K] (m : List (Lru.Entry K V)) (k : K) (v : V) :
    List (Lru.Entry K V) :=
  m.map (fun e => if e.key = k then { e with val := v } else e)

/-! ### list-level correspondence -/

theorem toMap_filter_ne (l : SS) (na : NA) :
    toMap (l.filter (·.1 != na)) = Lru.lhmErase (toMap l) na := by
  unfold toMap Lru.lhmErase
  rw [List.filter_map]
  congr 1
  apply List.filter_congr
  intro e _
  by_cases h : e.1 = na <;> simp [toEntry, h]

theorem lhmGet_toMap (l : SS) (na : NA) :
    Lru.lhmGet (toMap l) na = (l.find? (·.1 == na)).map toEntry := by
  unfold toMap Lru.lhmGet
  rw [List.find?_map]
  congr 1

theorem toEntry_inj {a b : NA × Session × Nat} (h : toEntry a = toEntry b) : a = b := by
  obtain ⟨a1, a2, a3⟩ := a
  obtain ⟨b1, b2, b3⟩ := b
  simp only [toEntry, Lru.Entry.mk.injEq] at h
  obtain ⟨h1, h2, h3⟩ := h
  subst h1 h2 h3
  rfl

theorem toMap_inj {l l' : SS} (h : toMap l = toMap l') : l = l' :=
  (List.map_inj_right (fun _ _ => toEntry_inj)).1 h

theorem toMap_append (a b : SS) : toMap (a ++ b) = toMap a ++ toMap b := List.map_append

theorem toMap_length (l : SS) : (toMap l).length = l.length := List.length_map _

theorem toMap_put (l : SS) (na : NA) (sess : Session) :
    toMap (l.map (fun e => if e.1 == na then (na, sess, e.2.2) else e)) = putVal (toMap l) na sess := by
  unfold toMap putVal
  rw [List.map_map, List.map_map]
  apply List.map_congr_left
  intro e _
  by_cases h : e.1 = na
  · simp [toEntry, h]
  · simp [toEntry, h]

theorem popExpired_eq (ttl rt : Nat) (l : SS) :
    (popExpired ttl rt l).1 = ((toMap l).takeWhile (Lru.expired ttl rt)).map (·.key) ∧
    toMap (popExpired ttl rt l).2 = (toMap l).dropWhile (Lru.expired ttl rt) := by
  induction l with
  | nil => exact ⟨rfl, rfl⟩
  | cons a rest ih =>
    obtain ⟨na, sess, stamp⟩ := a
    unfold popExpired
    by_cases h : stamp + ttl ≥ rt
    · have hx : Lru.expired ttl rt (toEntry (na, sess, stamp)) = false := by
        show decide (stamp + ttl < rt) = false
        exact decide_eq_false (by omega)
      simp only [h, if_true, toMap, List.map_cons, List.takeWhile_cons, List.dropWhile_cons, hx]
      exact ⟨rfl, rfl⟩
    · have hx : Lru.expired ttl rt (toEntry (na, sess, stamp)) = true := by
        show decide (stamp + ttl < rt) = true
        exact decide_eq_true (by omega)
      simp only [h, if_false, toMap, List.map_cons, List.takeWhile_cons, List.dropWhile_cons, hx, if_true]
      exact ⟨by rw [ih.1]; rfl, ih.2⟩


/-! ### the operations commute with the abstraction -/

/-- Everything but the session list is left as it was. -/
def OnlySessions (s s' : HState) : Prop := s' = { s with sessions := s'.sessions }

theorem toCache_sessions (c : Cfg) (s : HState) (l : SS) :
    toCache c { s with sessions := l } = { toCache c s with map := toMap l } := rfl

/-- `sessGetMut` is `LruTimeCache::get_mut` at the real-time clock: same reply, same cache
afterwards (no precondition). -/
theorem sessGetMut_refines (c : Cfg) (na : NA) (s : HState) (os : List Out) :
    ((sessGetMut c na).run (s, os)).1 = (Lru.getMut (toCache c s) s.rt na).2 ∧
    toCache c ((sessGetMut c na).run (s, os)).2.1 = (Lru.getMut (toCache c s) s.rt na).1 ∧
    ((sessGetMut c na).run (s, os)).2.2 = os ∧
    OnlySessions s ((sessGetMut c na).run (s, os)).2.1 := by
  have hg := lhmGet_toMap s.sessions na
  unfold sessGetMut
  simp only [run_bind, run_getS]
  cases hf : s.sessions.find? (·.1 == na) with
  | none =>
    rw [hf] at hg
    have h1 : Lru.getMut (toCache c s) s.rt na = (toCache c s, none) := Lru.getMutWith_vacant hg
    rw [h1]
    exact ⟨rfl, rfl, rfl, rfl⟩
  | some e =>
    obtain ⟨k, sess, stamp⟩ := e
    have hk : k = na := by simpa using List.find?_some hf
    subst hk
    rw [hf] at hg
    by_cases hx : stamp + c.sessionTtl < s.rt
    · have h1 : Lru.getMut (toCache c s) s.rt k =
          ({ toCache c s with map := Lru.lhmErase (toMap s.sessions) k }, none) :=
        Lru.getMutWith_expired hg hx
      rw [h1]
      simp only [hx, if_true]
      refine ⟨rfl, ?_, rfl, rfl⟩
      show toCache c { s with sessions := _ } = _
      rw [toCache_sessions, toMap_filter_ne]
    · have h1 : Lru.getMut (toCache c s) s.rt k =
          ({ toCache c s with map := Lru.lhmErase (toMap s.sessions) k ++ [⟨k, sess, s.rt⟩] }, some sess) := by
        unfold Lru.getMut
        rw [Lru.getMutWith_hit hg hx]
        rfl
      rw [h1]
      simp only [hx, if_false]
      refine ⟨rfl, ?_, rfl, rfl⟩
      show toCache c { s with sessions := _ } = _
      rw [toCache_sessions, toMap_append, toMap_filter_ne]
      rfl

/-- `sessPut` is the write through the `&mut Session` (value replaced, stamp and place kept). -/
theorem sessPut_refines (c : Cfg) (na : NA) (sess : Session) (s : HState) (os : List Out) :
    toCache c ((sessPut na sess).run (s, os)).2.1 =
      { toCache c s with map := putVal (toCache c s).map na sess } ∧
    ((sessPut na sess).run (s, os)).2.2 = os ∧
    OnlySessions s ((sessPut na sess).run (s, os)).2.1 := by
  refine ⟨?_, rfl, rfl⟩
  show toCache c { s with sessions := _ } = _
  rw [toCache_sessions, toMap_put]
  rfl

/-- `sessInsert` is `LruTimeCache::insert` — for every key, present or not. -/
theorem sessInsert_refines (c : Cfg) (na : NA) (sess : Session) (s : HState) (os : List Out) :
    toCache c ((sessInsert c na sess).run (s, os)).2.1 = Lru.insert (toCache c s) s.rt na sess ∧
    ((sessInsert c na sess).run (s, os)).2.2 = os ∧
    OnlySessions s ((sessInsert c na sess).run (s, os)).2.1 := by
  refine ⟨?_, rfl, rfl⟩
  show toCache c { s with sessions := _ } = _
  rw [toCache_sessions]
  have hl : toMap (s.sessions.filter (·.1 != na) ++ [(na, sess, s.rt)]) =
      Lru.lhmErase (toCache c s).map na ++ [⟨na, sess, s.rt⟩] := by
    rw [toMap_append, toMap_filter_ne]; rfl
  have hlen : (s.sessions.filter (·.1 != na) ++ [(na, sess, s.rt)]).length =
      (Lru.lhmErase (toCache c s).map na ++ [(⟨na, sess, s.rt⟩ : Lru.Entry NA Session)]).length := by
    rw [← hl, toMap_length]
  have hm := Lru.insert_map (toCache c s) s.rt na sess
  have : Lru.insert (toCache c s) s.rt na sess =
      { toCache c s with map := (Lru.insert (toCache c s) s.rt na sess).map } := by
    have h1 := Lru.insert_ttl (toCache c s) s.rt na sess
    have h2 := Lru.insert_capacity (toCache c s) s.rt na sess
    cases hh : Lru.insert (toCache c s) s.rt na sess with
    | mk m t cp =>
      rw [hh] at h1 h2
      simp only at h1 h2
      rw [h1, h2]
  rw [this, hm]
  congr 1
  by_cases hgt : (s.sessions.filter (·.1 != na) ++ [(na, sess, s.rt)]).length > c.sessionCap
  · rw [if_pos hgt, if_pos (by rw [← hlen]; exact hgt), List.drop_one, ← hl]
    unfold toMap
    rw [List.map_tail]
  · rw [if_neg hgt, if_neg (by rw [← hlen]; exact hgt), hl]

/-- `sessRemove` is `LruTimeCache::remove` (the returned value is dropped by the handler). -/
theorem sessRemove_refines (c : Cfg) (na : NA) (s : HState) (os : List Out) :
    toCache c ((sessRemove na).run (s, os)).2.1 = (Lru.remove (toCache c s) na).1 ∧
    ((sessRemove na).run (s, os)).2.2 = os ∧
    OnlySessions s ((sessRemove na).run (s, os)).2.1 := by
  refine ⟨?_, rfl, rfl⟩
  show toCache c { s with sessions := _ } = _
  rw [toCache_sessions, toMap_filter_ne]
  rfl

/-- `removeExpiredSessions` is `LruTimeCache::remove_expired_values`; the keys it returns are
the ones reported in the `expired` output (nothing is reported when there are none). -/
theorem removeExpiredSessions_refines (c : Cfg) (s : HState) (os : List Out) :
    toCache c ((removeExpiredSessions c).run (s, os)).2.1 = (Lru.removeExpired (toCache c s) s.rt).1 ∧
    ((removeExpiredSessions c).run (s, os)).2.2 =
      (if (Lru.removeExpired (toCache c s) s.rt).2 = [] then os
       else os ++ [.expired (Lru.removeExpired (toCache c s) s.rt).2]) ∧
    OnlySessions s ((removeExpiredSessions c).run (s, os)).2.1 := by
  have hp := popExpired_eq c.sessionTtl s.rt s.sessions
  have hkeys : (Lru.removeExpired (toCache c s) s.rt).2 = (popExpired c.sessionTtl s.rt s.sessions).1 :=
    hp.1.symm
  unfold removeExpiredSessions
  simp only [run_bind, run_getS, run_setS]
  rw [hkeys]
  by_cases he : (popExpired c.sessionTtl s.rt s.sessions).1 = []
  · rw [if_pos he]
    simp only [he, List.isEmpty_nil, Bool.not_true, Bool.false_eq_true, if_false, run_pure]
    refine ⟨?_, trivial, rfl⟩
    show toCache c { s with sessions := _ } = _
    rw [toCache_sessions, hp.2]; rfl
  · rw [if_neg he]
    have hne : (popExpired c.sessionTtl s.rt s.sessions).1.isEmpty = false := by
      cases hh : (popExpired c.sessionTtl s.rt s.sessions).1 with
      | nil => exact absurd hh he
      | cons _ _ => rfl
    simp only [hne, Bool.not_false, if_true, run_emit]
    refine ⟨?_, trivial, rfl⟩
    show toCache c { s with sessions := _ } = _
    rw [toCache_sessions, hp.2]; rfl


/-! ### `get_mut` with a write = `get_mut`, then the write -/

section generic
variable {K V : Type} [DecidableEq K]

theorem putVal_of_absent {m : List (Lru.Entry K V)} {k : K} (v : V) (h : ∀ e ∈ m, e.key ≠ k) :
    putVal m k v = m := by
  unfold putVal
  rw [List.map_congr_left (g := id), List.map_id]
  intro e he
  rw [if_neg (h e he)]; rfl

/-- A hit of `get_mut` whose reference is then overwritten with `f v`. -/
theorem getMutWith_hit_eq_put (C : Lru.Cache K V) (now : Nat) (k : K) (f : V → V) (v : V)
    (h : (Lru.getMut C now k).2 = some v) :
    Lru.getMutWith C now k f =
      ({ (Lru.getMut C now k).1 with map := putVal (Lru.getMut C now k).1.map k (f v) }, some v) := by
  unfold Lru.getMut at h ⊢
  rcases Lru.getMutWith_cases C now k id with ⟨_, hr⟩ | ⟨e, _, _, hr⟩ | ⟨e, hg, hx, hr⟩
  · rw [hr] at h; cases h
  · rw [hr] at h; cases h
  · rw [hr] at h ⊢
    injection h with h
    subst h
    rw [Lru.getMutWith_hit hg hx]
    have hk := (Lru.lhmGet_some hg).2
    have h1 : putVal (Lru.lhmErase C.map k) k (f e.val) = Lru.lhmErase C.map k :=
      putVal_of_absent _ (fun a ha => (Lru.mem_lhmErase.1 ha).2)
    show _ = (({ map := putVal (Lru.lhmErase C.map k ++ [_]) k (f e.val), ttl := _, capacity := _ } : Lru.Cache K V), _)
    have h2 : putVal (Lru.lhmErase C.map k ++ [({ e with val := id e.val, stamp := now } : Lru.Entry K V)]) k (f e.val) =
        Lru.lhmErase C.map k ++ [{ e with val := f e.val, stamp := now }] := by
      unfold putVal at h1 ⊢
      rw [List.map_append, h1]
      simp [hk]
    rw [h2]

/-- A miss of `get_mut` hands out no reference: nothing to write. -/
theorem getMutWith_miss_eq (C : Lru.Cache K V) (now : Nat) (k : K) (f : V → V)
    (h : (Lru.getMut C now k).2 = none) : Lru.getMutWith C now k f = Lru.getMut C now k := by
  unfold Lru.getMut at h ⊢
  rcases Lru.getMutWith_cases C now k id with ⟨hg, hr⟩ | ⟨e, hg, hx, hr⟩ | ⟨e, hg, hx, hr⟩
  · rw [hr, Lru.getMutWith_vacant hg]
  · rw [hr, Lru.getMutWith_expired hg hx]
  · rw [hr] at h; cases h

theorem putVal_wf {C : Lru.Cache K V} {t : Nat} (h : Lru.WF C t) (k : K) (v : V) :
    Lru.WF { C with map := putVal C.map k v } t := by
  have hkey : ∀ e : Lru.Entry K V, (if e.key = k then { e with val := v } else e).key = e.key := by
    intro e; split <;> rfl
  have hst : ∀ e : Lru.Entry K V, (if e.key = k then { e with val := v } else e).stamp = e.stamp := by
    intro e; split <;> rfl
  refine ⟨?_, ⟨?_, ?_⟩, ?_⟩
  · show (putVal C.map k v).Pairwise _
    unfold putVal
    rw [List.pairwise_map]
    exact h.distinct.imp (fun {a b} hab => by rw [hkey, hkey]; exact hab)
  · show (putVal C.map k v).Pairwise _
    unfold putVal
    rw [List.pairwise_map]
    exact h.sorted.1.imp (fun {a b} hab => by rw [hst, hst]; exact hab)
  · intro e he
    have he' : e ∈ putVal C.map k v := he
    unfold putVal at he'
    obtain ⟨a, ha, rfl⟩ := List.mem_map.1 he'
    rw [hst]; exact h.sorted.2 a ha
  · show (putVal C.map k v).length ≤ C.capacity
    unfold putVal
    rw [List.length_map]; exact h.bounded

end generic


/-! ## Walk W: along every handler function the session list stays a well-formed cache

`W c st`: the abstraction of the session list satisfies the invariant of `Proofs/LruLemmas.lean`
(keys distinct, stamps sorted and not in the future of the real-time clock, `len ≤ capacity`).
The five session primitives keep it *because the corresponding `Lru` operation does*
(`Lru.step_wf`, via the refinement theorems above); everything else does not touch the list. -/

def W (c : Cfg) (st : St) : Prop := Lru.WF (toCache c st.1) st.1.rt

theorem OnlySessions.rt {s s' : HState} (h : OnlySessions s s') : s'.rt = s.rt := by
  unfold OnlySessions at h; rw [h]

theorem W.of_eq {c : Cfg} {st st' : St} (h : W c st) (hs : st'.1.sessions = st.1.sessions)
    (hr : st'.1.rt = st.1.rt) : W c st' := by
  unfold W toCache at *
  rw [hs, hr]; exact h

theorem W_frame {α} {c : Cfg} {m : M α}
    (h : ∀ st, (m.run st).2.1.sessions = st.1.sessions ∧ (m.run st).2.1.rt = st.1.rt) :
    Ho (W c) m (fun _ => W c) := ⟨fun st hp => hp.of_eq (h st).1 (h st).2⟩

theorem W_modS {c : Cfg} (f : HState → HState) (h : ∀ s, (f s).sessions = s.sessions ∧ (f s).rt = s.rt) :
    Ho (W c) (modS f) (fun _ => W c) := W_frame (fun st => h st.1)
theorem W_setS_pinned {c : Cfg} {s0 : HState} (s' : HState) (h1 : s'.sessions = s0.sessions)
    (h2 : s'.rt = s0.rt) : Ho (Pin s0 (W c)) (setS s') (fun _ => W c) :=
  Ho.setS _ (fun st hp => hp.2.of_eq (by rw [h1, ← hp.1]) (by rw [h2, ← hp.1]))
theorem W_emit {c : Cfg} (o) : Ho (W c) (emit o) (fun _ => W c) := W_frame (fun _ => ⟨rfl, rfl⟩)
theorem W_send {c : Cfg} (na p) : Ho (W c) (send na p) (fun _ => W c) := W_frame (fun _ => ⟨rfl, rfl⟩)
theorem W_freshNonce (c : Cfg) : Ho (W c) (freshNonce c) (fun _ => W c) := W_frame (fun _ => ⟨rfl, rfl⟩)
theorem W_freshCd (c : Cfg) : Ho (W c) (freshCd c) (fun _ => W c) := W_frame (fun _ => ⟨rfl, rfl⟩)
theorem W_freshEph (c : Cfg) : Ho (W c) (freshEph c) (fun _ => W c) := W_frame (fun _ => ⟨rfl, rfl⟩)
theorem W_freshRid (c : Cfg) : Ho (W c) (freshRid c) (fun _ => W c) := W_frame (fun _ => ⟨rfl, rfl⟩)
theorem W_addExpected {c : Cfg} (a) : Ho (W c) (addExpected a) (fun _ => W c) :=
  W_modS _ (fun s => by by_cases h : s.exempt.any (·.1 == a) <;> simp [h])
theorem W_removeExpected {c : Cfg} (a) : Ho (W c) (removeExpected a) (fun _ => W c) :=
  W_modS _ (fun _ => ⟨rfl, rfl⟩)
theorem W_encryptMessage {c : Cfg} (s m) : Ho (W c) (encryptMessage c s m) (fun _ => W c) :=
  W_frame (fun _ => ⟨rfl, rfl⟩)
theorem W_activeInsert {c : Cfg} (call) : Ho (W c) (activeInsert c call) (fun _ => W c) :=
  W_modS _ (fun _ => ⟨rfl, rfl⟩)
theorem W_activeRemoveRequests {c : Cfg} (na) : Ho (W c) (activeRemoveRequests na) (fun _ => W c) :=
  W_frame (fun _ => ⟨rfl, rfl⟩)
theorem W_replayUpd {c : Cfg} (oldNonce : Nat) (p : Pkt) : Ho (W c) (modS fun s =>
        let upd : Call → Call := fun call =>
          if call.pkt.nonce == oldNonce then
            { call with pkt := p, deadline := s.now + c.requestTimeout, tseq := s.tctr }
          else call
        { s with active := s.active.map upd, tctr := s.tctr + 1 }) (fun _ => W c) :=
  W_modS _ (fun _ => ⟨rfl, rfl⟩)

/-- `get_mut` keeps the invariant (`Lru.step_wf` for the operation `get`). -/
theorem W_sessGetMut {c : Cfg} (na) : Ho (W c) (sessGetMut c na) (fun _ => W c) := by
  refine ⟨fun st hp => ?_⟩
  obtain ⟨s, os⟩ := st
  obtain ⟨_, h2, _, h4⟩ := sessGetMut_refines c na s os
  unfold W
  rw [h2, h4.rt]
  exact Lru.step_wf s.rt (.get na) hp (Nat.le_refl _)

theorem W_sessPut {c : Cfg} (na sess) : Ho (W c) (sessPut na sess) (fun _ => W c) := by
  refine ⟨fun st hp => ?_⟩
  obtain ⟨s, os⟩ := st
  obtain ⟨h1, _, h3⟩ := sessPut_refines c na sess s os
  unfold W
  rw [h1, h3.rt]
  exact putVal_wf hp na sess

/-- `insert` keeps the invariant (`Lru.step_wf` for the operation `insert`). -/
theorem W_sessInsert {c : Cfg} (na sess) : Ho (W c) (sessInsert c na sess) (fun _ => W c) := by
  refine ⟨fun st hp => ?_⟩
  obtain ⟨s, os⟩ := st
  obtain ⟨h1, _, h3⟩ := sessInsert_refines c na sess s os
  unfold W
  rw [h1, h3.rt]
  exact Lru.step_wf s.rt (.insert na sess) hp (Nat.le_refl _)

theorem W_sessRemove {c : Cfg} (na) : Ho (W c) (sessRemove na) (fun _ => W c) := by
  refine ⟨fun st hp => ?_⟩
  obtain ⟨s, os⟩ := st
  obtain ⟨h1, _, h3⟩ := sessRemove_refines c na s os
  unfold W
  rw [h1, h3.rt]
  exact Lru.step_wf s.rt (.remove na) hp (Nat.le_refl _)

theorem W_removeExpiredSessions {c : Cfg} : Ho (W c) (removeExpiredSessions c) (fun _ => W c) := by
  refine ⟨fun st hp => ?_⟩
  obtain ⟨s, os⟩ := st
  obtain ⟨h1, _, h3⟩ := removeExpiredSessions_refines c s os
  unfold W
  rw [h1, h3.rt]
  exact Lru.step_wf s.rt .sweep hp (Nat.le_refl _)

/-- The real-time clock only moves forward. -/
theorem W_rtAdv {c : Cfg} (dt : Nat) : Ho (W c) (modS fun s => { s with rt := s.rt + dt }) (fun _ => W c) :=
  Ho.modS _ (fun _ hp => ⟨hp.distinct,
    ⟨hp.sorted.1, fun e he => Nat.le_trans (hp.sorted.2 e he) (Nat.le_add_right _ _)⟩, hp.bounded⟩)

syntax "w_leaf" : tactic
macro_rules | `(tactic| w_leaf) => `(tactic| first
  | with_reducible exact W_emit _ | with_reducible exact W_send _ _ | with_reducible exact W_freshNonce _
  | with_reducible exact W_freshCd _ | with_reducible exact W_freshEph _
  | with_reducible exact W_freshRid _ | with_reducible exact W_addExpected _
  | with_reducible exact W_removeExpected _ | with_reducible exact W_sessPut _ _
  | with_reducible exact W_sessInsert _ _ | with_reducible exact W_sessRemove _
  | with_reducible exact W_sessGetMut _ | with_reducible exact W_removeExpiredSessions
  | with_reducible exact W_encryptMessage _ _ | with_reducible exact W_activeRemoveRequests _
  | with_reducible exact W_activeInsert _
  | with_reducible exact W_setS_pinned _ rfl rfl
  | exact W_replayUpd _ _
  | exact W_rtAdv _
  | exact W_modS _ (fun s => by first | exact ⟨rfl, rfl⟩ | (dsimp only; split <;> exact ⟨rfl, rfl⟩)))
macro_rules | `(tactic| ho_leaf) => `(tactic| w_leaf)

theorem W_activeRemoveByNonce {c : Cfg} (n) : Ho (W c) (activeRemoveByNonce n) (fun _ => W c) := by
  unfold activeRemoveByNonce; ho_walk
theorem W_activeRemoveRequest {c : Cfg} (na r) : Ho (W c) (activeRemoveRequest na r) (fun _ => W c) := by
  unfold activeRemoveRequest; ho_walk
theorem W_isAwaitingSession {c : Cfg} (na) : Ho (W c) (isAwaitingSession c na) (fun _ => W c) := by
  unfold isAwaitingSession; ho_walk
macro_rules | `(tactic| w_leaf) => `(tactic| with_reducible first
  | exact W_activeRemoveByNonce _ | exact W_activeRemoveRequest _ _ | exact W_isAwaitingSession _)
theorem W_sendRequest {c : Cfg} (ct rid i b) : Ho (W c) (sendRequest c ct rid i b) (fun _ => W c) := by
  unfold sendRequest; ho_walk
macro_rules | `(tactic| w_leaf) => `(tactic| with_reducible exact W_sendRequest _ _ _ _)
theorem W_sendPendingRequests {c : Cfg} (na) : Ho (W c) (sendPendingRequests c na) (fun _ => W c) := by
  unfold sendPendingRequests; ho_walk
theorem W_failSession {c : Cfg} (na e b) : Ho (W c) (failSession c na e b) (fun _ => W c) := by
  unfold failSession; ho_walk
macro_rules | `(tactic| w_leaf) => `(tactic| with_reducible first
  | exact W_sendPendingRequests _ | exact W_failSession _ _ _)
theorem W_failRequest {c : Cfg} (call e b) : Ho (W c) (failRequest c call e b) (fun _ => W c) := by
  unfold failRequest; ho_walk
macro_rules | `(tactic| w_leaf) => `(tactic| with_reducible exact W_failRequest _ _ _)
theorem W_handleRequestTimeout {c : Cfg} (call : Call) : Ho (W c) (handleRequestTimeout c call) (fun _ => W c) := by
  unfold handleRequestTimeout; ho_walk
theorem W_reencryptAll {c : Cfg} (l s acc) : Ho (W c) (reencryptAll c l s acc) (fun _ => W c) := by
  induction l generalizing s acc with
  | nil => unfold reencryptAll; ho_walk
  | cons x xs ih => unfold reencryptAll; ho_walk; exact ih _ _
macro_rules | `(tactic| w_leaf) => `(tactic| with_reducible first
  | exact W_reencryptAll _ _ _ | exact W_handleRequestTimeout _)
theorem W_replayActiveRequests {c : Cfg} (na sk) : Ho (W c) (replayActiveRequests c na sk) (fun _ => W c) := by
  unfold replayActiveRequests; ho_walk
macro_rules | `(tactic| w_leaf) => `(tactic| with_reducible exact W_replayActiveRequests _ _)
theorem W_newSession {c : Cfg} (na s sk) : Ho (W c) (newSession c na s sk) (fun _ => W c) := by
  unfold newSession; ho_walk
theorem W_sendChallenge {c : Cfg} (na n k) : Ho (W c) (sendChallenge c na n k) (fun _ => W c) := by
  unfold sendChallenge; ho_walk
macro_rules | `(tactic| w_leaf) => `(tactic| with_reducible first
  | exact W_newSession _ _ _ | exact W_sendChallenge _ _ _)
theorem W_handleChallenge {c : Cfg} (src n cd es) : Ho (W c) (handleChallenge c src n cd es) (fun _ => W c) := by
  unfold handleChallenge; ho_walk
theorem W_handleResponse {c : Cfg} (na rid rb) : Ho (W c) (handleResponse c na rid rb) (fun _ => W c) := by
  unfold handleResponse; ho_walk
macro_rules | `(tactic| w_leaf) => `(tactic| with_reducible first
  | exact W_handleChallenge _ _ _ _ | exact W_handleResponse _ _ _)
theorem W_handleMessage {c : Cfg} (na n ct) : Ho (W c) (handleMessage c na n ct) (fun _ => W c) := by
  unfold handleMessage; ho_walk
macro_rules | `(tactic| w_leaf) => `(tactic| with_reducible exact W_handleMessage _ _ _)
theorem W_handleAuthMessage {c : Cfg} (na n sig eph r ct) :
    Ho (W c) (handleAuthMessage c na n sig eph r ct) (fun _ => W c) := by
  unfold handleAuthMessage; ho_walk
theorem W_fireTimers {c : Cfg} (target fuel : Nat) : Ho (W c) (fireTimers c target fuel) (fun _ => W c) := by
  induction fuel with
  | zero => unfold fireTimers; exact Ho.pureI _
  | succ n ih => unfold fireTimers; ho_walk <;> exact ih
macro_rules | `(tactic| w_leaf) => `(tactic| with_reducible first
  | exact W_handleAuthMessage _ _ _ _ _ _ | exact W_fireTimers _ _)
theorem W_stepM {c : Cfg} (e : Ev) : Ho (W c) (stepM c e) (fun _ => W c) := by
  cases e with
  | dgram src p => simp only [stepM]; ho_walk
  | _ => simp only [stepM]; ho_walk

/-- The session list of every reachable state is a well-formed `LruTimeCache`. -/
theorem run_wf (c : Cfg) (evs : List Ev) : Lru.WF (toCache c (run c evs)) (run c evs).rt := by
  induction evs using snoc_induction with
  | h0 => exact ⟨List.Pairwise.nil, ⟨List.Pairwise.nil, fun _ h => by cases h⟩, Nat.zero_le _⟩
  | h1 evs e ih =>
    rw [run_snoc, step_eq]
    exact (W_stepM e).out (run c evs, []) ih


/-! ## Walk S: a stamp is the time of the last use

During one step (the real-time clock stands still at `t`) every entry of the session list either
is an entry from before the step with its stamp unchanged (its value may have been written), or
carries the stamp `t`.  Only `get_mut` hits and `insert` stamp, and they stamp with the clock. -/

def SR (t : Nat) (L0 : SS) (st : St) : Prop :=
  st.1.rt = t ∧ ∀ e' ∈ st.1.sessions, e'.2.2 = t ∨ ∃ e ∈ L0, e.1 = e'.1 ∧ e.2.2 = e'.2.2

theorem SR.sub {t : Nat} {L0 : SS} {st : St} (h : SR t L0 st) (l : SS) (hl : ∀ x ∈ l, x ∈ st.1.sessions) :
    SR t L0 ({ st.1 with sessions := l }, st.2) := ⟨h.1, fun e' he' => h.2 e' (hl e' he')⟩

theorem S_frame {α} {t : Nat} {L0 : SS} {m : M α}
    (h : ∀ st, (m.run st).2.1.sessions = st.1.sessions ∧ (m.run st).2.1.rt = st.1.rt) :
    Ho (SR t L0) m (fun _ => SR t L0) :=
  ⟨fun st hp => by unfold SR; rw [(h st).1, (h st).2]; exact hp⟩

theorem S_modS {t : Nat} {L0 : SS} (f : HState → HState)
    (h : ∀ s, (f s).sessions = s.sessions ∧ (f s).rt = s.rt) :
    Ho (SR t L0) (modS f) (fun _ => SR t L0) := S_frame (fun st => h st.1)
theorem S_setS_pinned {t : Nat} {L0 : SS} {s0 : HState} (s' : HState) (h1 : s'.sessions = s0.sessions)
    (h2 : s'.rt = s0.rt) : Ho (Pin s0 (SR t L0)) (setS s') (fun _ => SR t L0) :=
  Ho.setS _ (fun st hp => by
    unfold SR; show s'.rt = t ∧ ∀ e' ∈ s'.sessions, _
    rw [h1, h2, ← hp.1]; exact hp.2)
theorem S_emit {t : Nat} {L0 : SS} (o) : Ho (SR t L0) (emit o) (fun _ => SR t L0) := S_frame (fun _ => ⟨rfl, rfl⟩)
theorem S_send {t : Nat} {L0 : SS} (na p) : Ho (SR t L0) (send na p) (fun _ => SR t L0) := S_frame (fun _ => ⟨rfl, rfl⟩)
theorem S_freshNonce {t : Nat} {L0 : SS} (c : Cfg) : Ho (SR t L0) (freshNonce c) (fun _ => SR t L0) := S_frame (fun _ => ⟨rfl, rfl⟩)
theorem S_freshCd {t : Nat} {L0 : SS} (c : Cfg) : Ho (SR t L0) (freshCd c) (fun _ => SR t L0) := S_frame (fun _ => ⟨rfl, rfl⟩)
theorem S_freshEph {t : Nat} {L0 : SS} (c : Cfg) : Ho (SR t L0) (freshEph c) (fun _ => SR t L0) := S_frame (fun _ => ⟨rfl, rfl⟩)
theorem S_freshRid {t : Nat} {L0 : SS} (c : Cfg) : Ho (SR t L0) (freshRid c) (fun _ => SR t L0) := S_frame (fun _ => ⟨rfl, rfl⟩)
theorem S_addExpected {t : Nat} {L0 : SS} (a) : Ho (SR t L0) (addExpected a) (fun _ => SR t L0) :=
  S_modS _ (fun s => by by_cases h : s.exempt.any (·.1 == a) <;> simp [h])
theorem S_removeExpected {t : Nat} {L0 : SS} (a) : Ho (SR t L0) (removeExpected a) (fun _ => SR t L0) :=
  S_modS _ (fun _ => ⟨rfl, rfl⟩)
theorem S_encryptMessage {t : Nat} {L0 : SS} (c : Cfg) (s m) : Ho (SR t L0) (encryptMessage c s m) (fun _ => SR t L0) :=
  S_frame (fun _ => ⟨rfl, rfl⟩)
theorem S_activeInsert {t : Nat} {L0 : SS} (c : Cfg) (call) : Ho (SR t L0) (activeInsert c call) (fun _ => SR t L0) :=
  S_modS _ (fun _ => ⟨rfl, rfl⟩)
theorem S_activeRemoveRequests {t : Nat} {L0 : SS} (na) : Ho (SR t L0) (activeRemoveRequests na) (fun _ => SR t L0) :=
  S_frame (fun _ => ⟨rfl, rfl⟩)
theorem S_replayUpd {t : Nat} {L0 : SS} {c : Cfg} (oldNonce : Nat) (p : Pkt) : Ho (SR t L0) (modS fun s =>
        let upd : Call → Call := fun call =>
          if call.pkt.nonce == oldNonce then
            { call with pkt := p, deadline := s.now + c.requestTimeout, tseq := s.tctr }
          else call
        { s with active := s.active.map upd, tctr := s.tctr + 1 }) (fun _ => SR t L0) :=
  S_modS _ (fun _ => ⟨rfl, rfl⟩)

theorem S_sessGetMut {t : Nat} {L0 : SS} (c : Cfg) (na) : Ho (SR t L0) (sessGetMut c na) (fun _ => SR t L0) :=
  sessGetMut_elim (fun st hp => ⟨fun _ => hp, fun k sess stamp _ =>
    ⟨fun _ => hp.sub _ (fun x hx => (List.mem_filter.1 hx).1),
     fun _ => ⟨hp.1, fun e' he' => by
      rcases List.mem_append.1 he' with h | h
      · exact hp.2 e' (List.mem_filter.1 h).1
      · rw [List.mem_singleton.1 h]; exact Or.inl hp.1⟩⟩⟩)

theorem S_sessPut {t : Nat} {L0 : SS} (na sess) : Ho (SR t L0) (sessPut na sess) (fun _ => SR t L0) :=
  Ho.modS _ (fun st hp => ⟨hp.1, fun e' he' => by
    obtain ⟨y, hy, rfl⟩ := List.mem_map.1 he'
    by_cases hk : y.1 == na
    · simp only [hk, if_true]
      rcases hp.2 y hy with h | ⟨e, he, h1, h2⟩
      · exact Or.inl h
      · exact Or.inr ⟨e, he, by rw [h1]; exact beq_iff_eq.1 hk, h2⟩
    · simp only [hk]; exact hp.2 y hy⟩)

theorem S_sessInsert {t : Nat} {L0 : SS} (c : Cfg) (na sess) : Ho (SR t L0) (sessInsert c na sess) (fun _ => SR t L0) :=
  Ho.modS _ (fun st hp => ⟨hp.1, fun e' he' => by
    have hm : e' ∈ st.1.sessions.filter (·.1 != na) ++ [(na, sess, st.1.rt)] := by
      have he'' : e' ∈ (if (st.1.sessions.filter (·.1 != na) ++ [(na, sess, st.1.rt)]).length > c.sessionCap
          then (st.1.sessions.filter (·.1 != na) ++ [(na, sess, st.1.rt)]).drop 1
          else st.1.sessions.filter (·.1 != na) ++ [(na, sess, st.1.rt)]) := he'
      split at he''
      · exact List.mem_of_mem_drop he''
      · exact he''
    rcases List.mem_append.1 hm with h | h
    · exact hp.2 e' (List.mem_filter.1 h).1
    · rw [List.mem_singleton.1 h]; exact Or.inl hp.1⟩)

theorem S_sessRemove {t : Nat} {L0 : SS} (na) : Ho (SR t L0) (sessRemove na) (fun _ => SR t L0) :=
  Ho.modS _ (fun _ hp => hp.sub _ (fun _ hx => (List.mem_filter.1 hx).1))

theorem S_removeExpiredSessions {t : Nat} {L0 : SS} (c : Cfg) :
    Ho (SR t L0) (removeExpiredSessions c) (fun _ => SR t L0) :=
  removeExpiredSessions_elim (fun st hp e r her => by
    have hs : SR t L0 ({ st.1 with sessions := r }, st.2) :=
      hp.sub _ (fun x hx => by
        have := popExpired_suffix c.sessionTtl st.1.rt st.1.sessions x
        rw [her] at this; exact this hx)
    by_cases he : e.isEmpty
    · simp only [he, if_true]; exact hs
    · simp only [he]; exact hs)

syntax "s_leaf" : tactic
macro_rules | `(tactic| s_leaf) => `(tactic| first
  | with_reducible exact S_emit _ | with_reducible exact S_send _ _ | with_reducible exact S_freshNonce _
  | with_reducible exact S_freshCd _ | with_reducible exact S_freshEph _
  | with_reducible exact S_freshRid _ | with_reducible exact S_addExpected _
  | with_reducible exact S_removeExpected _ | with_reducible exact S_sessPut _ _
  | with_reducible exact S_sessInsert _ _ _ | with_reducible exact S_sessRemove _
  | with_reducible exact S_sessGetMut _ _ | with_reducible exact S_removeExpiredSessions _
  | with_reducible exact S_encryptMessage _ _ _ | with_reducible exact S_activeRemoveRequests _
  | with_reducible exact S_activeInsert _ _
  | with_reducible exact S_setS_pinned _ rfl rfl
  | exact S_replayUpd _ _
  | exact S_modS _ (fun s => by first | exact ⟨rfl, rfl⟩ | (dsimp only; split <;> exact ⟨rfl, rfl⟩)))
macro_rules | `(tactic| ho_leaf) => `(tactic| s_leaf)

section walkS
variable {t : Nat} {L0 : SS}
theorem S_activeRemoveByNonce (n) : Ho (SR t L0) (activeRemoveByNonce n) (fun _ => SR t L0) := by
  unfold activeRemoveByNonce; ho_walk
theorem S_activeRemoveRequest (na r) : Ho (SR t L0) (activeRemoveRequest na r) (fun _ => SR t L0) := by
  unfold activeRemoveRequest; ho_walk
theorem S_isAwaitingSession (c : Cfg) (na) : Ho (SR t L0) (isAwaitingSession c na) (fun _ => SR t L0) := by
  unfold isAwaitingSession; ho_walk
macro_rules | `(tactic| s_leaf) => `(tactic| with_reducible first
  | exact S_activeRemoveByNonce _ | exact S_activeRemoveRequest _ _ | exact S_isAwaitingSession _ _)
theorem S_sendRequest (c : Cfg) (ct rid i b) : Ho (SR t L0) (sendRequest c ct rid i b) (fun _ => SR t L0) := by
  unfold sendRequest; ho_walk
macro_rules | `(tactic| s_leaf) => `(tactic| with_reducible exact S_sendRequest _ _ _ _ _)
theorem S_sendPendingRequests (c : Cfg) (na) : Ho (SR t L0) (sendPendingRequests c na) (fun _ => SR t L0) := by
  unfold sendPendingRequests; ho_walk
theorem S_failSession (c : Cfg) (na e b) : Ho (SR t L0) (failSession c na e b) (fun _ => SR t L0) := by
  unfold failSession; ho_walk
macro_rules | `(tactic| s_leaf) => `(tactic| with_reducible first
  | exact S_sendPendingRequests _ _ | exact S_failSession _ _ _ _)
theorem S_failRequest (c : Cfg) (call e b) : Ho (SR t L0) (failRequest c call e b) (fun _ => SR t L0) := by
  unfold failRequest; ho_walk
macro_rules | `(tactic| s_leaf) => `(tactic| with_reducible exact S_failRequest _ _ _ _)
theorem S_handleRequestTimeout (c : Cfg) (call : Call) : Ho (SR t L0) (handleRequestTimeout c call) (fun _ => SR t L0) := by
  unfold handleRequestTimeout; ho_walk
theorem S_reencryptAll (c : Cfg) (l s acc) : Ho (SR t L0) (reencryptAll c l s acc) (fun _ => SR t L0) := by
  induction l generalizing s acc with
  | nil => unfold reencryptAll; ho_walk
  | cons x xs ih => unfold reencryptAll; ho_walk; exact ih _ _
macro_rules | `(tactic| s_leaf) => `(tactic| with_reducible first
  | exact S_reencryptAll _ _ _ _ | exact S_handleRequestTimeout _ _)
theorem S_replayActiveRequests (c : Cfg) (na sk) : Ho (SR t L0) (replayActiveRequests c na sk) (fun _ => SR t L0) := by
  unfold replayActiveRequests; ho_walk
macro_rules | `(tactic| s_leaf) => `(tactic| with_reducible exact S_replayActiveRequests _ _ _)
theorem S_newSession (c : Cfg) (na s sk) : Ho (SR t L0) (newSession c na s sk) (fun _ => SR t L0) := by
  unfold newSession; ho_walk
theorem S_sendChallenge (c : Cfg) (na n k) : Ho (SR t L0) (sendChallenge c na n k) (fun _ => SR t L0) := by
  unfold sendChallenge; ho_walk
macro_rules | `(tactic| s_leaf) => `(tactic| with_reducible first
  | exact S_newSession _ _ _ _ | exact S_sendChallenge _ _ _ _)
theorem S_handleChallenge (c : Cfg) (src n cd es) : Ho (SR t L0) (handleChallenge c src n cd es) (fun _ => SR t L0) := by
  unfold handleChallenge; ho_walk
theorem S_handleResponse (c : Cfg) (na rid rb) : Ho (SR t L0) (handleResponse c na rid rb) (fun _ => SR t L0) := by
  unfold handleResponse; ho_walk
macro_rules | `(tactic| s_leaf) => `(tactic| with_reducible first
  | exact S_handleChallenge _ _ _ _ _ | exact S_handleResponse _ _ _ _)
theorem S_handleMessage (c : Cfg) (na n ct) : Ho (SR t L0) (handleMessage c na n ct) (fun _ => SR t L0) := by
  unfold handleMessage; ho_walk
macro_rules | `(tactic| s_leaf) => `(tactic| with_reducible exact S_handleMessage _ _ _ _)
theorem S_handleAuthMessage (c : Cfg) (na n sig eph r ct) :
    Ho (SR t L0) (handleAuthMessage c na n sig eph r ct) (fun _ => SR t L0) := by
  unfold handleAuthMessage; ho_walk
theorem S_fireTimers (c : Cfg) (target fuel : Nat) : Ho (SR t L0) (fireTimers c target fuel) (fun _ => SR t L0) := by
  induction fuel with
  | zero => unfold fireTimers; exact Ho.pureI _
  | succ n ih => unfold fireTimers; ho_walk <;> exact ih
macro_rules | `(tactic| s_leaf) => `(tactic| with_reducible first
  | exact S_handleAuthMessage _ _ _ _ _ _ _ | exact S_fireTimers _ _ _)
end walkS

theorem S_stepM {t : Nat} {L0 : SS} (c : Cfg) (e : Ev) (hne : ∀ dt, e ≠ .rtAdv dt) :
    Ho (SR t L0) (stepM c e) (fun _ => SR t L0) := by
  cases e with
  | rtAdv dt => exact absurd rfl (hne dt)
  | dgram src p => simp only [stepM]; ho_walk
  | _ => simp only [stepM]; ho_walk

/-- Every entry after a step is an entry from before the step with the same stamp, or is stamped
with the real-time clock of the step. -/
theorem step_stamps (c : Cfg) (s : HState) (e : Ev) :
    ∀ e' ∈ (step c s e).1.sessions, e'.2.2 = s.rt ∨ ∃ e0 ∈ s.sessions, e0.1 = e'.1 ∧ e0.2.2 = e'.2.2 := by
  have h0 : SR s.rt s.sessions (s, []) := ⟨rfl, fun e' he' => Or.inr ⟨e', he', rfl, rfl⟩⟩
  rw [step_eq]
  by_cases hne : ∀ dt, e ≠ .rtAdv dt
  · exact ((S_stepM c e hne).out _ h0).2
  · have : ∃ dt, e = .rtAdv dt := by
      apply Classical.byContradiction
      intro hh; exact hne (fun dt hd => hh ⟨dt, hd⟩)
    obtain ⟨dt, rfl⟩ := this
    exact fun e' he' => Or.inr ⟨e', he', rfl, rfl⟩

/-- The real-time clock is moved by `rtAdv` only. -/
theorem step_rt (c : Cfg) (s : HState) (e : Ev) (hne : ∀ dt, e ≠ .rtAdv dt) :
    (step c s e).1.rt = s.rt := by
  have h0 : SR s.rt s.sessions (s, []) := ⟨rfl, fun e' he' => Or.inr ⟨e', he', rfl, rfl⟩⟩
  rw [step_eq]
  exact ((S_stepM c e hne).out _ h0).1

end Discv5.H.HL

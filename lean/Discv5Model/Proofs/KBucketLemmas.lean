/- Helper lemmas for the routing-table model (bucket and table invariants, C07). -/
import Discv5Model.Model.KBucketSpec

namespace Discv5.KB
variable {V : Type} [DecidableEq V]
set_option linter.unusedSectionVars false
set_option linter.unusedSimpArgs false

/-! ### list helpers -/

theorem removeAt_eq_eraseIdx {α} (l : List α) (i : Nat) : removeAt l i = l.eraseIdx i := by
  simp [removeAt, List.eraseIdx_eq_take_drop_succ]

theorem removeAt_sublist {α} (l : List α) (i : Nat) : (removeAt l i).Sublist l := by
  rw [removeAt_eq_eraseIdx]; exact List.eraseIdx_sublist l i

theorem removeAt_length {α} (l : List α) (i : Nat) (h : i < l.length) :
    (removeAt l i).length = l.length - 1 := by
  rw [removeAt_eq_eraseIdx, List.length_eraseIdx]; simp [h]

theorem insertAt_perm {α} (l : List α) (i : Nat) (x : α) : (insertAt l i x).Perm (x :: l) := by
  unfold insertAt
  have := @List.perm_middle _ x (l.take i) (l.drop i)
  rwa [List.take_append_drop] at this

theorem insertAt_append_length {α} (dis con : List α) (x : α) :
    insertAt (dis ++ con) dis.length x = dis ++ x :: con := by
  simp [insertAt]

/-! ### the ordering part of the invariant -/

def Split (nodes : List (Node V)) (fcp : Option Nat) : Prop :=
  ∃ dis con, nodes = dis ++ con ∧ (∀ n ∈ dis, n.st.conn = false) ∧
      (∀ n ∈ con, n.st.conn = true) ∧ fcp = (if con = [] then none else some dis.length) ∧
      dis.Pairwise (fun a b => a.stamp ≤ b.stamp) ∧ con.Pairwise (fun a b => a.stamp ≤ b.stamp)

theorem split_nil : Split ([] : List (Node V)) none :=
  ⟨[], [], rfl, by simp, by simp, by simp, List.Pairwise.nil, List.Pairwise.nil⟩

theorem split_append_conn {nodes : List (Node V)} {fcp : Option Nat} {node : Node V}
    (h : Split nodes fcp) (hc : node.st.conn = true) (hs : ∀ n ∈ nodes, n.stamp ≤ node.stamp) :
    Split (nodes ++ [node]) (some (fcp.getD nodes.length)) := by
  obtain ⟨dis, con, rfl, hd, hcn, hf, pd, pc⟩ := h
  refine ⟨dis, con ++ [node], by simp, hd, ?_, ?_, pd, ?_⟩
  · intro n hn
    rcases List.mem_append.1 hn with hn | hn
    · exact hcn n hn
    · simp at hn; subst hn; exact hc
  · by_cases hcon : con = []
    · subst hcon; simp at hf; subst hf; simp
    · rw [if_neg hcon] at hf; subst hf; simp
  · rw [List.pairwise_append]
    refine ⟨pc, by simp, ?_⟩
    intro a ha b hb
    simp at hb; subst hb
    exact hs a (List.mem_append.2 (Or.inr ha))

theorem split_insert_dis {nodes : List (Node V)} {p : Nat} {node : Node V}
    (h : Split nodes (some p)) (hc : node.st.conn = false) (hs : ∀ n ∈ nodes, n.stamp ≤ node.stamp) :
    Split (insertAt nodes p node) (some (p + 1)) := by
  obtain ⟨dis, con, rfl, hd, hcn, hf, pd, pc⟩ := h
  by_cases hcon : con = []
  · rw [if_pos hcon] at hf; cases hf
  · rw [if_neg hcon] at hf
    cases hf
    rw [insertAt_append_length]
    refine ⟨dis ++ [node], con, by simp, ?_, hcn, by simp [hcon], ?_, pc⟩
    · intro n hn
      rcases List.mem_append.1 hn with hn | hn
      · exact hd n hn
      · simp at hn; subst hn; exact hc
    · rw [List.pairwise_append]
      refine ⟨pd, by simp, ?_⟩
      intro a ha b hb
      simp at hb; subst hb
      exact hs a (List.mem_append.2 (Or.inl ha))

theorem split_append_dis {nodes : List (Node V)} {node : Node V}
    (h : Split nodes none) (hc : node.st.conn = false) (hs : ∀ n ∈ nodes, n.stamp ≤ node.stamp) :
    Split (nodes ++ [node]) none := by
  obtain ⟨dis, con, rfl, hd, hcn, hf, pd, pc⟩ := h
  by_cases hcon : con = []
  · subst hcon
    refine ⟨dis ++ [node], [], by simp, ?_, by simp, by simp, ?_, List.Pairwise.nil⟩
    · intro n hn
      rcases List.mem_append.1 hn with hn | hn
      · exact hd n hn
      · simp at hn; subst hn; exact hc
    · rw [List.pairwise_append]
      refine ⟨pd, by simp, ?_⟩
      intro a ha b hb
      simp at hb; subst hb
      exact hs a (by simpa using ha)
  · rw [if_neg hcon] at hf; cases hf

/-- `first_connected_pos` after removing position `pos`, as `update_status` computes it. -/
def fcpU (nodes : List (Node V)) (fcp : Option Nat) (pos : Nat) (old : Node V) : Option Nat :=
  if old.st.conn then
    if fcp == some pos && pos == (removeAt nodes pos).length then none else fcp
  else
    match fcp with
    | none => none
    | some p => checkedSub1 p

/-- the same as `update_first_connected_pos_for_removal` computes it. -/
def fcpR (nodes : List (Node V)) (fcp : Option Nat) (pos : Nat) : Option Nat :=
  match fcp with
  | none => none
  | some f => if pos < f then some (f - 1)
              else if f < (removeAt nodes pos).length then some f else none

theorem checkedSub1_pos {n : Nat} (h : 0 < n) : checkedSub1 n = some (n - 1) := by
  cases n with
  | zero => omega
  | succ n => rfl

theorem split_remove {nodes : List (Node V)} {fcp : Option Nat} {pos : Nat} {old : Node V}
    (h : Split nodes fcp) (hp : nodes[pos]? = some old) :
    Split (removeAt nodes pos) (fcpU nodes fcp pos old) ∧
      fcpR nodes fcp pos = fcpU nodes fcp pos old := by
  obtain ⟨dis, con, rfl, hd, hcn, hf, pd, pc⟩ := h
  have hlt : pos < (dis ++ con).length := by
    rcases List.getElem?_eq_some_iff.1 hp with ⟨h, _⟩; exact h
  have hlen := removeAt_length (dis ++ con) pos hlt
  unfold fcpU fcpR
  rw [hlen]
  rw [List.length_append] at hlt hlen ⊢
  by_cases hpd : pos < dis.length
  · -- removed from the disconnected prefix
    have hold : old ∈ dis := by
      rw [List.getElem?_append_left hpd] at hp
      exact List.mem_of_getElem? hp
    have hoc := hd old hold
    rw [removeAt_eq_eraseIdx, List.eraseIdx_append_of_lt_length hpd]
    have hsub := List.eraseIdx_sublist dis pos
    have hl' : (dis.eraseIdx pos).length = dis.length - 1 := by
      rw [List.length_eraseIdx]; simp [hpd]
    constructor
    · refine ⟨dis.eraseIdx pos, con, rfl, fun n hn => hd n (hsub.subset hn), hcn, ?_,
        pd.sublist hsub, pc⟩
      by_cases hcon : con = []
      · simp [hcon, hf, hoc]
      · simp only [hcon, hf, hoc, if_false, hl']
        simp
        exact checkedSub1_pos (by omega)
    · by_cases hcon : con = []
      · simp [hcon, hf, hoc]
      · simp only [hcon, hf, hoc, if_false]
        simp [hpd]
        exact (checkedSub1_pos (by omega)).symm
  · -- removed from the connected suffix
    have hpd' : dis.length ≤ pos := by omega
    have hp' : con[pos - dis.length]? = some old := by
      rwa [List.getElem?_append_right hpd'] at hp
    have hold : old ∈ con := List.mem_of_getElem? hp'
    have hoc := hcn old hold
    have hcon : con ≠ [] := by intro h; rw [h] at hold; simp at hold
    have hclen : 0 < con.length := List.length_pos_iff.2 hcon
    rw [removeAt_eq_eraseIdx, List.eraseIdx_append_of_length_le hpd']
    have hsub := List.eraseIdx_sublist con (pos - dis.length)
    have hl' : (con.eraseIdx (pos - dis.length)).length = con.length - 1 := by
      rw [List.length_eraseIdx]; simp; omega
    have hnil : con.eraseIdx (pos - dis.length) = [] ↔ con.length = 1 := by
      rw [← List.length_eq_zero_iff, hl']; omega
    rw [if_neg hcon] at hf
    subst hf
    constructor
    · refine ⟨dis, con.eraseIdx (pos - dis.length), rfl, hd, fun n hn => hcn n (hsub.subset hn), ?_,
        pd, pc.sublist hsub⟩
      simp only [hoc, if_true]
      by_cases h1 : con.length = 1
      · have : pos = dis.length := by omega
        rw [if_pos (hnil.2 h1), if_pos]
        simp [this, h1]
      · rw [if_neg (fun h => h1 (hnil.1 h)), if_neg]
        intro h
        simp only [Bool.and_eq_true, beq_iff_eq, Option.some.injEq] at h
        omega
    · simp only [hoc, if_true]
      rw [if_neg hpd]
      by_cases h1 : con.length = 1
      · have : pos = dis.length := by omega
        simp [h1, this]
      · rw [if_pos (by omega), if_neg]
        intro h
        simp only [Bool.and_eq_true, beq_iff_eq, Option.some.injEq] at h
        omega

/-! ### `insert` -/

def InsertedShape (b : Bucket V) (node : Node V) (nodes' : List (Node V)) (fcp' : Option Nat) : Prop :=
  (node.st.conn = true ∧ nodes' = b.nodes ++ [node] ∧
      fcp' = some (b.fcp.getD b.nodes.length)) ∨
  (node.st.conn = false ∧ ∃ p, b.fcp = some p ∧ nodes' = insertAt b.nodes p node ∧ fcp' = some (p+1)) ∨
  (node.st.conn = false ∧ b.fcp = none ∧ nodes' = b.nodes ++ [node] ∧ fcp' = none)

def InsertSpec (c : Cfg V) (now : Nat) (b : Bucket V) (node : Node V) (r : Bucket V × InsertRes) : Prop :=
    (r.1 = b ∧ r.2 ≠ .inserted ∧ (∀ k, r.2 ≠ .pending k) ∧
      (r.2 = .nodeExists → (b.position node.key).isSome) ∧ (r.2 = .full → b.isFull = true)) ∨
    (∃ n0, r = ({ b with pending := some ⟨node, now + c.pendingTimeout⟩ }, .pending n0) ∧
      b.position node.key = none ∧ b.isFull = true ∧ b.pending = none) ∨
    (r.2 = .inserted ∧ b.position node.key = none ∧ b.isFull = false ∧
      (node.st.conn = true → node.st.incoming = true → b.isMaxIncoming c = false) ∧
      (∀ p', r.1.pending = some p' → b.pending = some p' ∧ p'.node.key ≠ node.key) ∧
      InsertedShape b node r.1.nodes r.1.fcp)

theorem insert_cases (c : Cfg V) (now : Nat) (b : Bucket V) (node : Node V) :
    InsertSpec c now b node (Bucket.insert c now b node) := by
  generalize hr : Bucket.insert c now b node = r
  unfold Bucket.insert at hr
  unfold InsertSpec InsertedShape
  by_cases h1 : (b.position node.key).isSome
  · simp [h1] at hr; subst hr; simp [h1]
  have h1' : b.position node.key = none := by simpa using h1
  by_cases h2 : c.bucketFilter node.value b.values = true
  case neg => simp [h1', h2] at hr; subst hr; simp
  by_cases hc : node.st.conn = true
  · by_cases h3 : (node.st.incoming && b.isMaxIncoming c) = true
    · simp [h1', h2, hc, h3] at hr; subst hr; simp
    by_cases h4 : b.isFull = true
    · by_cases h5 : (b.fcp == some 0 || b.pending.isSome) = true
      · simp [h1', h2, hc, h3, h4, h5] at hr; subst hr; simp [h4]
      · cases hn : b.nodes with
        | nil => simp [h1', h2, hc, h3, h4, h5, hn] at hr; subst hr; simp [h4]
        | cons n0 rest =>
          right; left
          simp [h1', h2, hc, h3, h4, h5, hn] at hr; subst hr
          simp at h5
          simp [h4, h5, h1', hn]
    · right; right
      simp [h1', h2, hc, h3, h4] at hr
      cases hp : b.pending with
      | none => 
        simp [hp] at hr; subst hr; simp [h1', h4, hc, hp]
        exact ⟨by simpa using h3, by cases b.fcp <;> rfl⟩
      | some p =>
        simp [hp] at hr
        by_cases hk : p.node.key = node.key
        · simp [hk] at hr; subst hr; simp [h1', h4, hc, hp]; exact ⟨by simpa using h3, by cases b.fcp <;> rfl⟩
        · simp [hk] at hr; subst hr; simp [h1', h4, hc, hp, hk]; exact ⟨by simpa using h3, by cases b.fcp <;> rfl⟩
  · by_cases h4 : b.isFull = true
    · simp [h1', h2, hc, h4] at hr; subst hr; simp [h4]
    · right; right
      simp at hc
      cases hf : b.fcp with
      | none =>
        simp [h1', h2, hc, h4, hf] at hr
        cases hp : b.pending with
        | none => simp [hp] at hr; subst hr; simp [h1', h4, hc, hp, hf]
        | some p =>
          simp [hp] at hr
          by_cases hk : p.node.key = node.key
          · simp [hk] at hr; subst hr; simp [h1', h4, hc, hp, hf]
          · simp [hk] at hr; subst hr; simp [h1', h4, hc, hp, hk, hf]
      | some q =>
        simp [h1', h2, hc, h4, hf] at hr
        cases hp : b.pending with
        | none => simp [hp] at hr; subst hr; simp [h1', h4, hc, hp, hf]
        | some p =>
          simp [hp] at hr
          by_cases hk : p.node.key = node.key
          · simp [hk] at hr; subst hr; simp [h1', h4, hc, hp, hf]
          · simp [hk] at hr; subst hr; simp [h1', h4, hc, hp, hk, hf]
/-! ### the node-list part of the bucket invariant -/

structure NInv (c : Cfg V) (tick : Nat) (nodes : List (Node V)) (fcp : Option Nat) : Prop where
  len : nodes.length ≤ 16
  split : Split nodes fcp
  keysNodup : (nodes.map (·.key)).Nodup
  incoming : (nodes.filter (fun n => n.st.conn && n.st.incoming)).length ≤ c.maxIncoming
  stampsLe : ∀ n ∈ nodes, n.stamp ≤ tick

def PFresh (pending : Option (Pending V)) (nodes : List (Node V)) : Prop :=
  ∀ p, pending = some p → p.node.key ∉ nodes.map (·.key)

theorem binv_iff {c : Cfg V} {tick : Nat} {b : Bucket V} :
    BInv c tick b ↔ NInv c tick b.nodes b.fcp ∧ PFresh b.pending b.nodes :=
  ⟨fun h => ⟨⟨h.len, h.split, h.keysNodup, h.incoming, h.stampsLe⟩, h.pendingFresh⟩,
   fun ⟨h, hp⟩ => ⟨h.len, h.split, h.keysNodup, hp, h.incoming, h.stampsLe⟩⟩

theorem binv_mk {c : Cfg V} {tick : Nat} {nodes : List (Node V)} {fcp : Option Nat}
    {pd : Option (Pending V)} (h : NInv c tick nodes fcp) (hp : PFresh pd nodes) :
    BInv c tick { nodes := nodes, fcp := fcp, pending := pd } :=
  binv_iff.2 ⟨h, hp⟩

theorem pfresh_none (nodes : List (Node V)) : PFresh none nodes := by
  intro p hp; cases hp

theorem ninv_nil (c : Cfg V) (tick : Nat) : NInv c tick [] none :=
  ⟨by simp, split_nil, by simp, by simp, by simp⟩

theorem binv_empty (c : Cfg V) (tick : Nat) : BInv c tick ({} : Bucket V) :=
  binv_mk (ninv_nil c tick) (pfresh_none _)

theorem NInv.mono {c : Cfg V} {tick tick' : Nat} {nodes : List (Node V)} {fcp : Option Nat}
    (h : NInv c tick nodes fcp) (ht : tick ≤ tick') : NInv c tick' nodes fcp :=
  ⟨h.len, h.split, h.keysNodup, h.incoming, fun n hn => Nat.le_trans (h.stampsLe n hn) ht⟩

/-- `BInv` is monotone in the logical clock. -/
theorem BInv.mono {c : Cfg V} {tick tick' : Nat} {b : Bucket V}
    (h : BInv c tick b) (ht : tick ≤ tick') : BInv c tick' b :=
  ⟨h.len, h.split, h.keysNodup, h.pendingFresh, h.incoming,
    fun n hn => Nat.le_trans (h.stampsLe n hn) ht⟩

theorem BInv.clearPending {c : Cfg V} {tick : Nat} {b : Bucket V} (h : BInv c tick b) :
    BInv c tick { b with pending := none } :=
  binv_mk (binv_iff.1 h).1 (pfresh_none _)

theorem NInv.of_sublist {c : Cfg V} {tick : Nat} {nodes nodes' : List (Node V)}
    {fcp fcp' : Option Nat} (h : NInv c tick nodes fcp) (hs : nodes'.Sublist nodes)
    (hsp : Split nodes' fcp') : NInv c tick nodes' fcp' :=
  ⟨Nat.le_trans hs.length_le h.len, hsp, (h.keysNodup).sublist (hs.map _),
    Nat.le_trans (hs.filter _).length_le h.incoming, fun n hn => h.stampsLe n (hs.subset hn)⟩

theorem PFresh.of_sublist {pd : Option (Pending V)} {nodes nodes' : List (Node V)}
    (h : PFresh pd nodes) (hs : nodes'.Sublist nodes) : PFresh pd nodes' :=
  fun p hp hm => h p hp ((hs.map _).subset hm)

theorem NInv.of_perm_cons {c : Cfg V} {tick : Nat} {nodes nodes' : List (Node V)} {node : Node V}
    {fcp fcp' : Option Nat} (h : NInv c tick nodes fcp) (hp : nodes'.Perm (node :: nodes))
    (hlen : nodes.length < 16) (hk : node.key ∉ nodes.map (·.key))
    (hin : node.st.conn = true → node.st.incoming = true →
      (nodes.filter (fun n => n.st.conn && n.st.incoming)).length < c.maxIncoming)
    (hst : node.stamp ≤ tick) (hsp : Split nodes' fcp') : NInv c tick nodes' fcp' := by
  refine ⟨?_, hsp, ?_, ?_, ?_⟩
  · rw [hp.length_eq]; simp; omega
  · rw [(hp.map _).nodup_iff]; simp only [List.map_cons, List.nodup_cons]; exact ⟨hk, h.keysNodup⟩
  · rw [(hp.filter _).length_eq, List.filter_cons]
    by_cases hc : (node.st.conn && node.st.incoming) = true
    · rw [if_pos hc]
      simp only [Bool.and_eq_true] at hc
      have := hin hc.1 hc.2
      simp only [List.length_cons]; omega
    · rw [if_neg hc]; exact h.incoming
  · intro n hn
    rcases List.mem_cons.1 (hp.mem_iff.1 hn) with rfl | hn
    · exact hst
    · exact h.stampsLe n hn

theorem position_none_iff {b : Bucket V} {key : Nat} :
    b.position key = none ↔ key ∉ b.nodes.map (·.key) := by
  unfold Bucket.position
  rw [List.findIdx?_eq_none_iff]
  simp only [List.mem_map, not_exists, not_and, beq_eq_false_iff_ne, ne_eq]

theorem isFull_false_iff {b : Bucket V} : b.isFull = false ↔ b.nodes.length < 16 := by
  simp [Bucket.isFull, maxNodes, Consts.MAX_NODES_PER_BUCKET]

theorem isFull_true_iff {b : Bucket V} : b.isFull = true ↔ 16 ≤ b.nodes.length := by
  simp [Bucket.isFull, maxNodes, Consts.MAX_NODES_PER_BUCKET]

theorem isMaxIncoming_false_iff {c : Cfg V} {b : Bucket V} : b.isMaxIncoming c = false ↔
    (b.nodes.filter (fun n => n.st.conn && n.st.incoming)).length < c.maxIncoming := by
  simp [Bucket.isMaxIncoming]

/-- Shape of an insertion: permutation of `node :: nodes` and the ordering invariant. -/
theorem InsertedShape.perm_split {b : Bucket V} {node : Node V} {nodes' : List (Node V)}
    {fcp' : Option Nat} (hs : InsertedShape b node nodes' fcp') (hsp : Split b.nodes b.fcp)
    (hst : ∀ n ∈ b.nodes, n.stamp ≤ node.stamp) :
    nodes'.Perm (node :: b.nodes) ∧ Split nodes' fcp' := by
  rcases hs with ⟨hc, rfl, rfl⟩ | ⟨hc, p, hf, rfl, rfl⟩ | ⟨hc, hf, rfl, rfl⟩
  · exact ⟨List.perm_append_singleton _ _, split_append_conn hsp hc hst⟩
  · rw [hf] at hsp
    exact ⟨insertAt_perm _ _ _, split_insert_dis hsp hc hst⟩
  · rw [hf] at hsp
    exact ⟨List.perm_append_singleton _ _, split_append_dis hsp hc hst⟩

/-- keys predicate: every stored and the pending key satisfies `P`. -/
def BKeys (P : Nat → Prop) (b : Bucket V) : Prop :=
  (∀ n ∈ b.nodes, P n.key) ∧ ∀ p, b.pending = some p → P p.node.key

theorem insert_inv {c : Cfg V} {now tick : Nat} {b : Bucket V} {node : Node V}
    (h : BInv c tick b) (hs : node.stamp = tick) : BInv c tick (Bucket.insert c now b node).1 := by
  rcases insert_cases c now b node with ⟨h1, _⟩ | ⟨n0, hr, hpos, _, hp⟩ |
    ⟨_, hpos, hfull, hin, hpend, hshape⟩
  · rw [h1]; exact h
  · rw [hr]
    refine binv_mk (binv_iff.1 h).1 ?_
    intro p hp; cases hp
    exact position_none_iff.1 hpos
  · have hn := (binv_iff.1 h).1
    have hst : ∀ n ∈ b.nodes, n.stamp ≤ node.stamp := by rw [hs]; exact hn.stampsLe
    obtain ⟨hperm, hsplit⟩ := hshape.perm_split hn.split hst
    refine binv_iff.2 ⟨hn.of_perm_cons hperm (isFull_false_iff.1 hfull) (position_none_iff.1 hpos)
      (fun h1 h2 => isMaxIncoming_false_iff.1 (hin h1 h2)) (Nat.le_of_eq hs) hsplit, ?_⟩
    intro p' hp'
    obtain ⟨hb, hne⟩ := hpend p' hp'
    rw [(hperm.map _).mem_iff]
    simp only [List.map_cons, List.mem_cons, not_or]
    exact ⟨hne, h.pendingFresh p' hb⟩

theorem insert_keys {c : Cfg V} {now : Nat} {b : Bucket V} {node : Node V} {P : Nat → Prop}
    (h : BKeys P b) (hn : P node.key) : BKeys P (Bucket.insert c now b node).1 := by
  rcases insert_cases c now b node with ⟨h1, _⟩ | ⟨n0, hr, hpos, _, hp⟩ |
    ⟨_, hpos, hfull, hin, hpend, hshape⟩
  · rw [h1]; exact h
  · rw [hr]
    refine ⟨h.1, ?_⟩
    intro p hp; cases hp; exact hn
  · refine ⟨?_, fun p' hp' => h.2 p' (hpend p' hp').1⟩
    have hperm : (Bucket.insert c now b node).1.nodes.Perm (node :: b.nodes) := by
      rcases hshape with ⟨hc, h1, _⟩ | ⟨hc, p, hf, h1, _⟩ | ⟨hc, hf, h1, _⟩
      · rw [h1]; exact List.perm_append_singleton _ _
      · rw [h1]; exact insertAt_perm _ _ _
      · rw [h1]; exact List.perm_append_singleton _ _
    intro n hn'
    rcases List.mem_cons.1 (hperm.mem_iff.1 hn') with rfl | hn'
    · exact hn
    · exact h.1 n hn'

/-! ### `applyPending` -/

def fcpConnApply : Option Nat → Nat → Option Nat
  | none, n => some n
  | some q, _ => checkedSub1 q

def FullShape (fcp : Option Nat) (rest : List (Node V)) (pn : Node V) (nodes' : List (Node V))
    (fcp' : Option Nat) : Prop :=
  (pn.st.conn = true ∧ nodes' = rest ++ [pn] ∧ fcp' = fcpConnApply fcp rest.length) ∨
  (pn.st.conn = false ∧ ∃ q ip, fcp = some q ∧ checkedSub1 q = some ip ∧
      nodes' = insertAt rest ip pn ∧ fcp' = fcp) ∨
  (pn.st.conn = false ∧ fcp = none ∧ nodes' = rest ++ [pn] ∧ fcp' = none)

def ApplySpec (c : Cfg V) (now tick : Nat) (b : Bucket V) (r : Bucket V × Option Applied) : Prop :=
  (r = (b, none) ∧ ∀ p, b.pending = some p → ¬ p.replace ≤ now) ∨
  (∃ p, b.pending = some p ∧ p.replace ≤ now ∧ r = ({ b with pending := none }, none)) ∨
  (∃ p n0 rest, b.pending = some p ∧ p.replace ≤ now ∧ b.isFull = true ∧ b.nodes = n0 :: rest ∧
      n0.st.conn = false ∧
      (p.node.st.conn = true → p.node.st.incoming = true → b.isMaxIncoming c = false) ∧
      r.2 = some ⟨p.node.key, some n0.key⟩ ∧ r.1.pending = none ∧
      FullShape b.fcp rest { p.node with stamp := tick } r.1.nodes r.1.fcp) ∨
  (∃ p, b.pending = some p ∧ p.replace ≤ now ∧ b.isFull = false ∧
      r.1 = (Bucket.insert c now { b with pending := none } { p.node with stamp := tick }).1 ∧
      (r.2 = none ∨ r.2 = some ⟨p.node.key, none⟩))

theorem applyPending_cases (c : Cfg V) (now tick : Nat) (b : Bucket V) :
    ApplySpec c now tick b (b.applyPending c now tick) := by
  generalize hr : b.applyPending c now tick = r
  unfold Bucket.applyPending at hr
  unfold ApplySpec
  obtain ⟨nodes, fcp, pending⟩ := b
  cases pending with
  | none => simp at hr; subst hr; simp
  | some p =>
    simp only at hr ⊢
    by_cases h1 : p.replace ≤ now
    case neg => simp [h1] at hr; subst hr; simp; omega
    by_cases h2 : Bucket.isFull { nodes := nodes, fcp := fcp, pending := some p } = true
    · have h2' : Bucket.isFull { nodes := nodes, fcp := fcp, pending := none } = true := h2
      simp only [h1, h2', if_true] at hr
      cases nodes with
      | nil => simp at hr; subst hr; simp [h1]
      | cons n0 rest =>
        simp only at hr
        by_cases h3 : n0.st.conn = true
        · simp [h3] at hr; subst hr; simp [h1]
        by_cases h4 : c.bucketFilter p.node.value
            (Bucket.values { nodes := n0 :: rest, fcp := fcp, pending := none }) = true
        case neg => simp [h3, h4] at hr; subst hr; simp [h1]
        simp only [Bool.not_eq_true] at h3
        by_cases h6 : p.node.st.conn = true
        · by_cases h5 : (p.node.st.incoming = true ∧
              Bucket.isMaxIncoming c { nodes := n0 :: rest, fcp := fcp, pending := none } = true)
          · simp [h3, h4, h5, h6] at hr; subst hr; simp [h1]
          have h5' : p.node.st.conn = true → p.node.st.incoming = true →
              Bucket.isMaxIncoming c { nodes := n0 :: rest, fcp := fcp, pending := some p } = false := by
            intro _ hb
            have : Bucket.isMaxIncoming c { nodes := n0 :: rest, fcp := fcp, pending := none } =
              Bucket.isMaxIncoming c { nodes := n0 :: rest, fcp := fcp, pending := some p } := rfl
            rw [this] at h5
            simpa [hb] using h5
          simp [h3, h4, h5, h6] at hr
          subst hr
          right; right; left
          refine ⟨p, n0, rest, rfl, h1, h2, rfl, h3, h5', rfl, rfl, Or.inl ⟨h6, rfl, ?_⟩⟩
          cases fcp <;> rfl
        · have h5' : p.node.st.conn = true → p.node.st.incoming = true →
              Bucket.isMaxIncoming c { nodes := n0 :: rest, fcp := fcp, pending := some p } = false :=
            fun ha => absurd ha h6
          simp only [Bool.not_eq_true] at h6
          cases fcp with
          | none =>
            simp [h3, h4, h6] at hr
            subst hr
            right; right; left
            exact ⟨p, n0, rest, rfl, h1, h2, rfl, h3, h5', rfl, rfl, Or.inr (Or.inr ⟨h6, rfl, rfl, rfl⟩)⟩
          | some q =>
            cases hq : checkedSub1 q with
            | none => simp [h3, h4, h6, hq] at hr; subst hr; simp [h1]
            | some ip =>
              simp [h3, h4, h6, hq] at hr
              subst hr
              right; right; left
              exact ⟨p, n0, rest, rfl, h1, h2, rfl, h3, h5', rfl, rfl,
                Or.inr (Or.inl ⟨h6, q, ip, rfl, hq, rfl, rfl⟩)⟩
    · have h2f : Bucket.isFull { nodes := nodes, fcp := fcp, pending := some p } = false := by
        simpa using h2
      have h2' : Bucket.isFull { nodes := nodes, fcp := fcp, pending := none } = false := h2f
      simp only [h1, h2', if_true] at hr
      right; right; right
      refine ⟨p, rfl, h1, h2f, ?_⟩
      generalize Bucket.insert c now { nodes := nodes, fcp := fcp, pending := none }
        { p.node with stamp := tick } = x at hr
      obtain ⟨x1, x2⟩ := x
      cases x2 <;> simp at hr <;> subst hr <;> simp

theorem inserted_ninv {c : Cfg V} {tick : Nat} {b : Bucket V} {node : Node V}
    {nodes' : List (Node V)} {fcp' : Option Nat} (hn : NInv c tick b.nodes b.fcp)
    (hshape : InsertedShape b node nodes' fcp') (hfresh : node.key ∉ b.nodes.map (·.key))
    (hlen : b.nodes.length < 16)
    (hin : node.st.conn = true → node.st.incoming = true →
      (b.nodes.filter (fun n => n.st.conn && n.st.incoming)).length < c.maxIncoming)
    (hs : node.stamp = tick) : NInv c tick nodes' fcp' ∧ nodes'.Perm (node :: b.nodes) := by
  have hst : ∀ n ∈ b.nodes, n.stamp ≤ node.stamp := by rw [hs]; exact hn.stampsLe
  obtain ⟨hperm, hsplit⟩ := hshape.perm_split hn.split hst
  exact ⟨hn.of_perm_cons hperm hlen hfresh hin (Nat.le_of_eq hs) hsplit, hperm⟩

theorem split_head_dis {n0 : Node V} {rest : List (Node V)} {q : Nat}
    (h : Split (n0 :: rest) (some q)) (h0 : n0.st.conn = false) : 0 < q := by
  obtain ⟨dis, con, hnodes, hd, hcn, hf, _, _⟩ := h
  by_cases hcon : con = []
  · rw [if_pos hcon] at hf; cases hf
  · rw [if_neg hcon] at hf
    cases hf
    cases dis with
    | nil =>
      simp at hnodes
      have : n0 ∈ con := by rw [← hnodes]; simp
      have := hcn n0 this
      rw [h0] at this; cases this
    | cons d ds => simp

theorem FullShape.perm {fcp : Option Nat} {rest : List (Node V)} {pn : Node V}
    {nodes' : List (Node V)} {fcp' : Option Nat} (h : FullShape fcp rest pn nodes' fcp') :
    nodes'.Perm (pn :: rest) := by
  rcases h with ⟨_, rfl, _⟩ | ⟨_, q, ip, _, _, rfl, _⟩ | ⟨_, _, rfl, _⟩
  · exact List.perm_append_singleton _ _
  · exact insertAt_perm _ _ _
  · exact List.perm_append_singleton _ _

/-- Evicting a disconnected head and letting the pending node in keeps the node-list invariant. -/
theorem fullShape_ninv {c : Cfg V} {tick : Nat} {n0 : Node V} {rest : List (Node V)}
    {fcp : Option Nat} {pn : Node V} {nodes' : List (Node V)} {fcp' : Option Nat}
    (hn : NInv c tick (n0 :: rest) fcp) (h0 : n0.st.conn = false)
    (hshape : FullShape fcp rest pn nodes' fcp') (hfresh : pn.key ∉ (n0 :: rest).map (·.key))
    (hin : pn.st.conn = true → pn.st.incoming = true →
      ((n0 :: rest).filter (fun n => n.st.conn && n.st.incoming)).length < c.maxIncoming)
    (hs : pn.stamp = tick) : NInv c tick nodes' fcp' := by
  have hrem : removeAt (n0 :: rest) 0 = rest := by simp [removeAt]
  have hsp := (split_remove (pos := 0) (old := n0) hn.split rfl).1
  rw [hrem] at hsp
  have hf1 : fcpU (n0 :: rest) fcp 0 n0 = fcp.bind checkedSub1 := by
    unfold fcpU; rw [h0]; cases fcp <;> rfl
  rw [hf1] at hsp
  have hsub : rest.Sublist (n0 :: rest) := List.sublist_cons_self _ _
  have hn1 : NInv c tick rest (fcp.bind checkedSub1) := hn.of_sublist hsub hsp
  let b1 : Bucket V := { nodes := rest, fcp := fcp.bind checkedSub1, pending := none }
  have hshape1 : InsertedShape b1 pn nodes' fcp' := by
    rcases hshape with ⟨hc, h1, h2⟩ | ⟨hc, q, ip, hf, hq, h1, h2⟩ | ⟨hc, hf, h1, h2⟩
    · refine Or.inl ⟨hc, h1, ?_⟩
      rw [h2]
      cases fcp with
      | none => rfl
      | some q =>
        have hq := split_head_dis hn.split h0
        show checkedSub1 q = some ((checkedSub1 q).getD rest.length)
        rw [checkedSub1_pos hq]; rfl
    · refine Or.inr (Or.inl ⟨hc, ip, ?_, h1, ?_⟩)
      · show fcp.bind checkedSub1 = some ip
        rw [hf]; exact hq
      · rw [h2, hf]
        cases q with
        | zero => cases hq
        | succ q => cases hq; rfl
    · refine Or.inr (Or.inr ⟨hc, ?_, h1, h2⟩)
      show fcp.bind checkedSub1 = none
      rw [hf]; rfl
  have hlen : rest.length < 16 := by have := hn.len; simp at this; omega
  refine (inserted_ninv (b := b1) hn1 hshape1 ?_ hlen ?_ hs).1
  · intro hm; exact hfresh ((hsub.map _).subset hm)
  · intro h1 h2
    exact Nat.lt_of_le_of_lt (hsub.filter _).length_le (hin h1 h2)

/-- `apply_pending` preserves the bucket invariant. -/
theorem applyPending_inv (c : Cfg V) (now tick : Nat) (b : Bucket V) (h : BInv c tick b) :
    BInv c tick (b.applyPending c now tick).1 := by
  rcases applyPending_cases c now tick b with ⟨hr, _⟩ | ⟨p, _, _, hr⟩ |
    ⟨p, n0, rest, hp, _, hfull, hnodes, h0, hin, _, hpend, hshape⟩ | ⟨p, hp, _, hfull, hr, _⟩
  · rw [hr]; exact h
  · rw [hr]; exact h.clearPending
  · have hn := (binv_iff.1 h).1
    rw [hnodes] at hn
    refine binv_iff.2 ⟨fullShape_ninv hn h0 hshape ?_ ?_ rfl, ?_⟩
    · have := h.pendingFresh p hp
      rwa [hnodes] at this
    · intro h1 h2
      have := isMaxIncoming_false_iff.1 (hin h1 h2)
      rwa [hnodes] at this
    · rw [hpend]; exact pfresh_none _
  · rw [hr]; exact insert_inv h.clearPending rfl

theorem applyPending_keys {c : Cfg V} {now tick : Nat} {b : Bucket V} {P : Nat → Prop}
    (h : BKeys P b) : BKeys P (b.applyPending c now tick).1 := by
  have hclear : BKeys P { b with pending := none } := ⟨h.1, fun p hp => by cases hp⟩
  rcases applyPending_cases c now tick b with ⟨hr, _⟩ | ⟨p, _, _, hr⟩ |
    ⟨p, n0, rest, hp, _, hfull, hnodes, h0, hin, _, hpend, hshape⟩ | ⟨p, hp, _, hfull, hr, _⟩
  · rw [hr]; exact h
  · rw [hr]; exact hclear
  · refine ⟨?_, fun p' hp' => by rw [hpend] at hp'; cases hp'⟩
    intro n hn
    rcases List.mem_cons.1 (hshape.perm.mem_iff.1 hn) with rfl | hn
    · exact h.2 p hp
    · exact h.1 n (by rw [hnodes]; exact List.mem_cons_of_mem _ hn)
  · rw [hr]; exact insert_keys hclear (h.2 p hp)

/-- The node keys after `apply_pending` are old node keys or the pending key. -/
theorem applyPending_keys_subset {c : Cfg V} {now tick : Nat} {b : Bucket V} {k : Nat}
    (hk : k ∈ (b.applyPending c now tick).1.nodes.map (·.key)) :
    k ∈ b.nodes.map (·.key) ∨ ∃ p, b.pending = some p ∧ p.node.key = k := by
  have h : BKeys (fun k => k ∈ b.nodes.map (·.key) ∨ ∃ p, b.pending = some p ∧ p.node.key = k) b :=
    ⟨fun n hn => Or.inl (List.mem_map_of_mem hn), fun p hp => Or.inr ⟨p, hp, rfl⟩⟩
  obtain ⟨n, hn, rfl⟩ := List.mem_map.1 hk
  exact (applyPending_keys (c := c) (now := now) (tick := tick) h).1 n hn

/-! ### table plumbing -/

theorem Table.bucket_setBucket_eq (t : Table V) (i : Nat) (b : Bucket V) (h : i < t.buckets.length) :
    (t.setBucket i b).bucket i = b := by
  simp [Table.setBucket, Table.bucket, List.getD_eq_getElem?_getD, h]

theorem Table.bucket_setBucket_ne (t : Table V) (i j : Nat) (b : Bucket V) (h : i ≠ j) :
    (t.setBucket i b).bucket j = t.bucket j := by
  simp [Table.setBucket, Table.bucket, List.getD_eq_getElem?_getD, List.getElem?_set, h]

theorem Table.setBucket_of_length_le (t : Table V) (i : Nat) (b : Bucket V) (h : t.buckets.length ≤ i) :
    t.setBucket i b = t := by
  simp [Table.setBucket, List.set_eq_of_length_le h]

@[simp] theorem setBucket_localKey (t : Table V) (i : Nat) (b : Bucket V) :
    (t.setBucket i b).localKey = t.localKey := rfl
@[simp] theorem setBucket_tick (t : Table V) (i : Nat) (b : Bucket V) :
    (t.setBucket i b).tick = t.tick := rfl
@[simp] theorem setBucket_applied (t : Table V) (i : Nat) (b : Bucket V) :
    (t.setBucket i b).applied = t.applied := rfl
@[simp] theorem setBucket_length (t : Table V) (i : Nat) (b : Bucket V) :
    (t.setBucket i b).buckets.length = t.buckets.length := by simp [Table.setBucket]

theorem Table.bucket_of_length_le (t : Table V) (i : Nat) (h : t.buckets.length ≤ i) :
    t.bucket i = {} := by
  simp [Table.bucket, List.getD_eq_getElem?_getD, List.getElem?_eq_none h]

/-- The keys that belong into bucket `i`. -/
def InBucket (localKey i : Nat) (k : Nat) : Prop := bucketIndex localKey k = some i

theorem tinv_iff {c : Cfg V} {t : Table V} : TInv c t ↔ t.buckets.length = 256 ∧
    ∀ i, i < 256 → BInv c t.tick (t.bucket i) ∧ BKeys (InBucket t.localKey i) (t.bucket i) :=
  ⟨fun h => ⟨h.nBuckets, fun i hi => ⟨h.buckets i hi, h.placed i hi, h.placedPending i hi⟩⟩,
   fun ⟨h1, h2⟩ => ⟨h1, fun i hi => (h2 i hi).1, fun i hi => (h2 i hi).2.1,
     fun i hi => (h2 i hi).2.2⟩⟩

theorem bkeys_empty (P : Nat → Prop) : BKeys P ({} : Bucket V) := by
  constructor
  · intro n hn; cases hn
  · intro p hp; cases hp

/-- Under `TInv` every index (also one beyond the table) addresses a bucket satisfying `BInv`. -/
theorem TInv.binv {c : Cfg V} {t : Table V} (h : TInv c t) (i : Nat) :
    BInv c t.tick (t.bucket i) := by
  by_cases hi : i < 256
  · exact h.buckets i hi
  · rw [Table.bucket_of_length_le t i (by rw [h.nBuckets]; omega)]; exact binv_empty c _

theorem TInv.bkeys {c : Cfg V} {t : Table V} (h : TInv c t) (i : Nat) :
    BKeys (InBucket t.localKey i) (t.bucket i) := by
  by_cases hi : i < 256
  · exact ((tinv_iff.1 h).2 i hi).2
  · rw [Table.bucket_of_length_le t i (by rw [h.nBuckets]; omega)]; exact bkeys_empty _

theorem TInv.congr {c : Cfg V} {t t' : Table V} (h : TInv c t) (h1 : t'.localKey = t.localKey)
    (h2 : t'.buckets = t.buckets) (h3 : t.tick ≤ t'.tick) : TInv c t' := by
  have hb : ∀ i, t'.bucket i = t.bucket i := fun i => by simp [Table.bucket, h2]
  rw [tinv_iff] at h ⊢
  refine ⟨by rw [h2]; exact h.1, fun i hi => ?_⟩
  rw [hb, h1]
  exact ⟨(h.2 i hi).1.mono h3, (h.2 i hi).2⟩

theorem TInv.bump {c : Cfg V} {t : Table V} (h : TInv c t) : TInv c t.bump :=
  h.congr rfl rfl (Nat.le_succ _)

theorem TInv.setBucket {c : Cfg V} {t : Table V} {i : Nat} {b : Bucket V} (h : TInv c t)
    (hb : BInv c t.tick b) (hk : BKeys (InBucket t.localKey i) b) : TInv c (t.setBucket i b) := by
  by_cases hi : i < t.buckets.length
  · rw [tinv_iff] at h ⊢
    refine ⟨by simpa using h.1, fun j hj => ?_⟩
    by_cases hij : i = j
    · subst hij
      rw [Table.bucket_setBucket_eq t i b hi]
      exact ⟨hb, hk⟩
    · rw [Table.bucket_setBucket_ne t i j b hij]
      exact h.2 j hj
  · rw [Table.setBucket_of_length_le t i b (by omega)]; exact h

theorem applyAt_eq (c : Cfg V) (now : Nat) (t : Table V) (i : Nat) :
    ∃ ap, Table.applyAt c now t i =
      { localKey := t.localKey,
        buckets := t.buckets.set i ((t.bucket i).applyPending c now t.tick).1,
        applied := ap, tick := t.tick } := by
  unfold Table.applyAt
  cases h : ((t.bucket i).applyPending c now t.tick).2 with
  | none => exact ⟨t.applied, by simp [h, Table.setBucket]⟩
  | some a => exact ⟨t.applied ++ [a], by simp [h, Table.setBucket]⟩

@[simp] theorem Table.applyAt_localKey (c : Cfg V) (now : Nat) (t : Table V) (i : Nat) :
    (Table.applyAt c now t i).localKey = t.localKey := by
  obtain ⟨ap, h⟩ := applyAt_eq c now t i; rw [h]

@[simp] theorem Table.applyAt_tick (c : Cfg V) (now : Nat) (t : Table V) (i : Nat) :
    (Table.applyAt c now t i).tick = t.tick := by
  obtain ⟨ap, h⟩ := applyAt_eq c now t i; rw [h]

theorem Table.applyAt_buckets (c : Cfg V) (now : Nat) (t : Table V) (i : Nat) :
    (Table.applyAt c now t i).buckets =
      (t.setBucket i ((t.bucket i).applyPending c now t.tick).1).buckets := by
  obtain ⟨ap, h⟩ := applyAt_eq c now t i; rw [h]; rfl

theorem Table.bucket_congr {t t' : Table V} (h : t'.buckets = t.buckets) (i : Nat) :
    t'.bucket i = t.bucket i := by simp [Table.bucket, h]

/-- `applyAt` leaves the other buckets alone. -/
theorem Table.applyAt_bucket_ne (c : Cfg V) (now : Nat) (t : Table V) (i j : Nat) (h : i ≠ j) :
    (Table.applyAt c now t i).bucket j = t.bucket j := by
  rw [Table.bucket_congr (Table.applyAt_buckets c now t i), Table.bucket_setBucket_ne _ _ _ _ h]

theorem Table.applyAt_bucket_eq (c : Cfg V) (now : Nat) (t : Table V) (i : Nat)
    (h : i < t.buckets.length) :
    (Table.applyAt c now t i).bucket i = ((t.bucket i).applyPending c now t.tick).1 := by
  rw [Table.bucket_congr (Table.applyAt_buckets c now t i), Table.bucket_setBucket_eq _ _ _ h]

theorem Table.applyAt_buckets_length (c : Cfg V) (now : Nat) (t : Table V) (i : Nat) :
    (Table.applyAt c now t i).buckets.length = t.buckets.length := by
  rw [Table.applyAt_buckets]; simp

/-- Applying the pending node of one bucket preserves the table invariant. -/
theorem applyAt_inv (c : Cfg V) (now : Nat) (t : Table V) (i : Nat) (h : TInv c t) :
    TInv c (Table.applyAt c now t i) := by
  have h' : TInv c (t.setBucket i ((t.bucket i).applyPending c now t.tick).1) :=
    h.setBucket (applyPending_inv c now t.tick _ (h.binv i)) (applyPending_keys (h.bkeys i))
  exact h'.congr (by simp) (Table.applyAt_buckets c now t i) (by simp)

theorem init_tinv (c : Cfg V) (localKey : Nat) : TInv c (Table.init localKey : Table V) := by
  have hb : ∀ i, (Table.init localKey : Table V).bucket i = {} := by
    intro i
    simp only [Table.init, Table.bucket, List.getD_eq_getElem?_getD, List.getElem?_replicate]
    split <;> rfl
  rw [tinv_iff]
  refine ⟨by show (List.replicate numBuckets _).length = 256; rw [List.length_replicate]; rfl, fun i _ => ?_⟩
  rw [hb]
  exact ⟨binv_empty c _, bkeys_empty _⟩


/-! ### removal of a node -/

theorem Bucket.position_some {b : Bucket V} {key pos : Nat} (h : b.position key = some pos) :
    ∃ old, b.nodes[pos]? = some old ∧ old.key = key := by
  unfold Bucket.position at h
  rw [List.findIdx?_eq_some_iff_getElem] at h
  obtain ⟨hlt, hk, _⟩ := h
  exact ⟨b.nodes[pos], List.getElem?_eq_getElem hlt, by simpa using hk⟩

theorem removeAt_perm {α} {l : List α} {pos : Nat} {x : α} (h : l[pos]? = some x) :
    l.Perm (x :: removeAt l pos) := by
  obtain ⟨hlt, hx⟩ := List.getElem?_eq_some_iff.1 h
  have h1 : l = l.take pos ++ x :: l.drop (pos + 1) := by
    rw [← hx, ← List.drop_eq_getElem_cons hlt, List.take_append_drop]
  unfold removeAt
  have h2 : (l.take pos ++ x :: l.drop (pos + 1)).Perm (x :: (l.take pos ++ l.drop (pos + 1))) :=
    List.perm_middle
  rwa [← h1] at h2

theorem key_not_mem_removeAt {nodes : List (Node V)} {pos : Nat} {old : Node V}
    (hnd : (nodes.map (·.key)).Nodup) (h : nodes[pos]? = some old) :
    old.key ∉ (removeAt nodes pos).map (·.key) := by
  have hp := (removeAt_perm h).map (·.key)
  rw [hp.nodup_iff] at hnd
  simp only [List.map_cons, List.nodup_cons] at hnd
  exact hnd.1

/-- Removing one node (with either way of recomputing `first_connected_pos`). -/
theorem removed_ninv {c : Cfg V} {tick : Nat} {nodes : List (Node V)} {fcp : Option Nat}
    {pos : Nat} {old : Node V} (hn : NInv c tick nodes fcp) (h : nodes[pos]? = some old) :
    NInv c tick (removeAt nodes pos) (fcpU nodes fcp pos old) ∧
    NInv c tick (removeAt nodes pos) (fcpR nodes fcp pos) := by
  obtain ⟨h1, h2⟩ := split_remove hn.split h
  have := hn.of_sublist (removeAt_sublist nodes pos) h1
  exact ⟨this, h2 ▸ this⟩

/-- The bucket left by `remove` / a failed `update_value`, before the pending node is applied. -/
theorem removed_inv {c : Cfg V} {tick : Nat} {b : Bucket V} {pos : Nat} {old : Node V}
    (hb : BInv c tick b) (h : b.nodes[pos]? = some old) :
    BInv c tick (Bucket.fcpForRemoval { b with nodes := removeAt b.nodes pos } pos) := by
  have : Bucket.fcpForRemoval { b with nodes := removeAt b.nodes pos } pos =
      { nodes := removeAt b.nodes pos, fcp := fcpR b.nodes b.fcp pos, pending := b.pending } := by
    unfold Bucket.fcpForRemoval fcpR; cases b.fcp <;> rfl
  rw [this]
  exact binv_mk (removed_ninv (binv_iff.1 hb).1 h).2
    ((binv_iff.1 hb).2.of_sublist (removeAt_sublist _ _))

theorem removed_keys {P : Nat → Prop} {b : Bucket V} {pos : Nat} (hb : BKeys P b) :
    BKeys P (Bucket.fcpForRemoval { b with nodes := removeAt b.nodes pos } pos) :=
  ⟨fun n hn => hb.1 n ((removeAt_sublist _ _).subset hn), hb.2⟩

theorem remove_inv {c : Cfg V} {now tick : Nat} {b : Bucket V} {key : Nat} (hb : BInv c tick b) :
    BInv c tick (b.remove c now tick key).1 := by
  unfold Bucket.remove
  cases hpos : b.position key with
  | none => exact hb
  | some pos =>
    obtain ⟨old, hold, _⟩ := Bucket.position_some hpos
    exact applyPending_inv c now tick _ (removed_inv hb hold)

theorem remove_keys {c : Cfg V} {now tick : Nat} {b : Bucket V} {key : Nat} {P : Nat → Prop}
    (hb : BKeys P b) : BKeys P (b.remove c now tick key).1 := by
  unfold Bucket.remove
  cases hpos : b.position key with
  | none => exact hb
  | some pos => exact applyPending_keys (removed_keys hb)

/-! ### `updateStatus` -/

/-- The bucket into which `update_status` re-inserts the node. -/
def usBucket (b : Bucket V) (pos : Nat) (old : Node V) (conn : Bool) : Bucket V :=
  { nodes := removeAt b.nodes pos, fcp := fcpU b.nodes b.fcp pos old,
    pending := if pos == 0 && conn then none else b.pending }

/-- The node `update_status` re-inserts. -/
def usNode (tick : Nat) (old : Node V) (conn : Bool) (dir : Option Bool) : Node V :=
  { old with st := { conn := conn, incoming := dir.getD old.st.incoming }, stamp := tick }

def InsertRes.okForUpdate : InsertRes → Prop
  | .inserted | .tooManyIncoming | .failedFilter => True
  | _ => False

theorem updateStatus_some {c : Cfg V} {now tick : Nat} {b : Bucket V} {key pos : Nat}
    {old : Node V} {conn : Bool} {dir : Option Bool}
    (hpos : b.position key = some pos) (hold : b.nodes[pos]? = some old) :
    (b.updateStatus c now tick key conn dir).1 =
      (Bucket.insert c now (usBucket b pos old conn) (usNode tick old conn dir)).1 ∧
    ((Bucket.insert c now (usBucket b pos old conn) (usNode tick old conn dir)).2.okForUpdate →
      (b.updateStatus c now tick key conn dir).2 ≠ .panic) := by
  unfold Bucket.updateStatus
  simp only [hpos, hold]
  generalize hx : Bucket.insert c now _ _ = x
  have hx' : Bucket.insert c now (usBucket b pos old conn) (usNode tick old conn dir) = x := by
    rw [← hx]; cases dir <;> rfl
  rw [hx']
  obtain ⟨x1, x2⟩ := x
  cases x2 <;> simp [InsertRes.okForUpdate]
  constructor <;> (repeat' split) <;> simp

theorem updateStatus_none {c : Cfg V} {now tick : Nat} {b : Bucket V} {key : Nat}
    {conn : Bool} {dir : Option Bool} (hpos : b.position key = none) :
    ((b.updateStatus c now tick key conn dir).1 = b ∨
      ∃ p st', b.pending = some p ∧ (b.updateStatus c now tick key conn dir).1 =
        { b with pending := some { p with node := { p.node with st := st' } } }) ∧
    (b.updateStatus c now tick key conn dir).2 ≠ .panic := by
  unfold Bucket.updateStatus
  simp only [hpos]
  cases hp : b.pending with
  | none => simp
  | some p =>
    simp only
    by_cases hk : (p.node.key == key) = true
    · rw [if_pos hk]
      exact ⟨Or.inr ⟨p, _, rfl, rfl⟩, by simp⟩
    · rw [if_neg hk]; simp

theorem usBucket_inv {c : Cfg V} {tick : Nat} {b : Bucket V} {pos : Nat} {old : Node V}
    {conn : Bool} (hb : BInv c tick b) (hold : b.nodes[pos]? = some old) :
    BInv c tick (usBucket b pos old conn) := by
  refine binv_mk (removed_ninv (binv_iff.1 hb).1 hold).1 ?_
  have := (binv_iff.1 hb).2.of_sublist (removeAt_sublist b.nodes pos)
  by_cases h : (pos == 0 && conn) = true
  · rw [if_pos h]; exact pfresh_none _
  · rw [if_neg h]; exact this

theorem usBucket_keys {P : Nat → Prop} {b : Bucket V} {pos : Nat} {old : Node V}
    {conn : Bool} (hb : BKeys P b) : BKeys P (usBucket b pos old conn) := by
  refine ⟨fun n hn => hb.1 n ((removeAt_sublist _ _).subset hn), ?_⟩
  intro p hp
  unfold usBucket at hp
  by_cases h : (pos == 0 && conn) = true
  · simp [h] at hp
  · simp only [h] at hp; exact hb.2 p hp

theorem updateStatus_inv {c : Cfg V} {now tick : Nat} {b : Bucket V} {key : Nat}
    {conn : Bool} {dir : Option Bool} (hb : BInv c tick b) :
    BInv c tick (b.updateStatus c now tick key conn dir).1 := by
  cases hpos : b.position key with
  | none =>
    rcases (updateStatus_none (c := c) (now := now) (tick := tick) (conn := conn) (dir := dir)
      hpos).1 with h | ⟨p, st', hp, h⟩
    · rw [h]; exact hb
    · rw [h]
      refine binv_mk (binv_iff.1 hb).1 ?_
      intro p' hp'
      cases hp'
      exact hb.pendingFresh p hp
  | some pos =>
    obtain ⟨old, hold, _⟩ := Bucket.position_some hpos
    rw [(updateStatus_some hpos hold).1]
    exact insert_inv (usBucket_inv hb hold) rfl

theorem updateStatus_keys {c : Cfg V} {now tick : Nat} {b : Bucket V} {key : Nat}
    {conn : Bool} {dir : Option Bool} {P : Nat → Prop} (hb : BKeys P b) :
    BKeys P (b.updateStatus c now tick key conn dir).1 := by
  cases hpos : b.position key with
  | none =>
    rcases (updateStatus_none (c := c) (now := now) (tick := tick) (conn := conn) (dir := dir)
      hpos).1 with h | ⟨p, st', hp, h⟩
    · rw [h]; exact hb
    · rw [h]
      refine ⟨hb.1, ?_⟩
      intro p' hp'
      cases hp'
      exact hb.2 p hp
  | some pos =>
    obtain ⟨old, hold, _⟩ := Bucket.position_some hpos
    rw [(updateStatus_some hpos hold).1]
    exact insert_keys (usBucket_keys hb) (hb.1 old (List.mem_of_getElem? hold))

/-- Re-insertion by `update_status` can only succeed or be refused by the incoming limit / the
bucket filter. -/
theorem usInsert_ok {c : Cfg V} {now tick : Nat} {b : Bucket V} {pos : Nat} {old : Node V}
    {conn : Bool} {dir : Option Bool} (hb : BInv c tick b) (hold : b.nodes[pos]? = some old) :
    (Bucket.insert c now (usBucket b pos old conn) (usNode tick old conn dir)).2.okForUpdate := by
  have hlt : pos < b.nodes.length := (List.getElem?_eq_some_iff.1 hold).1
  have hlen : (usBucket b pos old conn).nodes.length < 16 := by
    show (removeAt b.nodes pos).length < 16
    rw [removeAt_length _ _ hlt]; have := hb.len; omega
  have hnf : (usBucket b pos old conn).isFull = false := isFull_false_iff.2 hlen
  have hposn : (usBucket b pos old conn).position (usNode tick old conn dir).key = none :=
    position_none_iff.2 (key_not_mem_removeAt (old := old) hb.keysNodup hold)
  rcases insert_cases c now (usBucket b pos old conn) (usNode tick old conn dir) with
    ⟨_, h1, h2, h3, h4⟩ | ⟨n0, _, _, hfull, _⟩ | ⟨h, _⟩
  · generalize (Bucket.insert c now (usBucket b pos old conn) (usNode tick old conn dir)).2 = r
      at h1 h2 h3 h4 ⊢
    cases r with
    | inserted => exact absurd rfl h1
    | pending k => exact absurd rfl (h2 k)
    | failedFilter => trivial
    | tooManyIncoming => trivial
    | full => have := h4 rfl; rw [hnf] at this; cases this
    | nodeExists => have := h3 rfl; rw [hposn] at this; cases this
  · rw [hnf] at hfull; cases hfull
  · rw [h]; trivial

theorem updateStatus_ne_panic {c : Cfg V} {now tick : Nat} {b : Bucket V} {key : Nat}
    {conn : Bool} {dir : Option Bool} (hb : BInv c tick b) :
    (b.updateStatus c now tick key conn dir).2 ≠ .panic := by
  cases hpos : b.position key with
  | none => exact (updateStatus_none hpos).2
  | some pos =>
    obtain ⟨old, hold, _⟩ := Bucket.position_some hpos
    exact (updateStatus_some hpos hold).2 (usInsert_ok hb hold)

/-! ### `updateValue` -/

/-- Everything the invariant looks at in a node. -/
def sig (n : Node V) : Nat × Status × Nat := (n.key, n.st, n.stamp)

theorem mem_of_sig {a b : List (Node V)} (h : a.map sig = b.map sig) {n : Node V} (hn : n ∈ a) :
    ∃ m ∈ b, sig m = sig n := by
  have : sig n ∈ b.map sig := h ▸ List.mem_map_of_mem hn
  obtain ⟨m, hm, e⟩ := List.mem_map.1 this
  exact ⟨m, hm, e⟩

theorem pairwise_of_sig {a b : List (Node V)} (h : a.map sig = b.map sig)
    (hb : b.Pairwise (fun x y => x.stamp ≤ y.stamp)) : a.Pairwise (fun x y => x.stamp ≤ y.stamp) := by
  have h1 : (b.map sig).Pairwise (fun x y => x.2.2 ≤ y.2.2) :=
    (List.pairwise_map (f := sig) (R := fun x y => x.2.2 ≤ y.2.2)).2 hb
  rw [← h] at h1
  exact (List.pairwise_map (f := sig) (R := fun x y => x.2.2 ≤ y.2.2)).1 h1

theorem keys_of_sig {a b : List (Node V)} (h : a.map sig = b.map sig) :
    a.map (·.key) = b.map (·.key) := by
  have := congrArg (List.map Prod.fst) h
  rw [List.map_map, List.map_map] at this
  exact this

theorem Split.of_sig {nodes nodes' : List (Node V)} {fcp : Option Nat} (h : Split nodes fcp)
    (hm : nodes'.map sig = nodes.map sig) : Split nodes' fcp := by
  obtain ⟨dis, con, rfl, hd, hc, hf, pd, pc⟩ := h
  have hd' : (nodes'.take dis.length).map sig = dis.map sig := by
    rw [List.map_take, hm, List.map_append, List.take_left' (List.length_map _)]
  have hc' : (nodes'.drop dis.length).map sig = con.map sig := by
    rw [List.map_drop, hm, List.map_append, List.drop_left' (List.length_map _)]
  have hld : (nodes'.take dis.length).length = dis.length := by
    have := congrArg List.length hd'; simpa only [List.length_map] using this
  have hlc : (nodes'.drop dis.length).length = con.length := by
    have := congrArg List.length hc'; simpa only [List.length_map] using this
  refine ⟨nodes'.take dis.length, nodes'.drop dis.length, (List.take_append_drop _ _).symm,
    ?_, ?_, ?_, pairwise_of_sig hd' pd, pairwise_of_sig hc' pc⟩
  · intro n hn
    obtain ⟨m, hm1, e⟩ := mem_of_sig hd' hn
    have : m.st = n.st := congrArg (fun x => x.2.1) e
    rw [← this]; exact hd m hm1
  · intro n hn
    obtain ⟨m, hm1, e⟩ := mem_of_sig hc' hn
    have : m.st = n.st := congrArg (fun x => x.2.1) e
    rw [← this]; exact hc m hm1
  · rw [hf, hld]
    by_cases hcon : con = []
    · have : nodes'.drop dis.length = [] := by
        rw [← List.length_eq_zero_iff, hlc, hcon]; rfl
      rw [if_pos hcon, if_pos this]
    · have : nodes'.drop dis.length ≠ [] := by
        intro h0
        rw [h0] at hlc
        exact hcon (List.length_eq_zero_iff.1 hlc.symm)
      rw [if_neg hcon, if_neg this]

theorem NInv.of_sig {c : Cfg V} {tick : Nat} {nodes nodes' : List (Node V)} {fcp : Option Nat}
    (h : NInv c tick nodes fcp) (hm : nodes'.map sig = nodes.map sig) : NInv c tick nodes' fcp := by
  have hkeys : nodes'.map (·.key) = nodes.map (·.key) := keys_of_sig hm
  refine ⟨?_, h.split.of_sig hm, hkeys ▸ h.keysNodup, ?_, ?_⟩
  · have := congrArg List.length hm
    simp only [List.length_map] at this
    rw [this]; exact h.len
  · have e : ∀ l : List (Node V), (l.filter (fun n => n.st.conn && n.st.incoming)).length =
        ((l.map sig).filter (fun x => x.2.1.conn && x.2.1.incoming)).length := by
      intro l; rw [List.filter_map, List.length_map]; rfl
    rw [e, hm, ← e]; exact h.incoming
  · intro n hn
    obtain ⟨m, hm1, e⟩ := mem_of_sig hm hn
    have : m.stamp = n.stamp := congrArg (fun x => x.2.2) e
    rw [← this]; exact h.stampsLe m hm1

theorem insertAt_removeAt {α} {l : List α} {pos : Nat} (x : α) (h : pos < l.length) :
    insertAt (removeAt l pos) pos x = l.set pos x := by
  have h1 : (l.take pos).length = pos := by rw [List.length_take]; omega
  unfold insertAt removeAt
  rw [List.take_left' h1, List.drop_left' h1, List.set_eq_take_append_cons_drop, if_pos h]

theorem map_sig_set {nodes : List (Node V)} {pos : Nat} {node x : Node V}
    (h : nodes[pos]? = some node) (hx : sig x = sig node) :
    (nodes.set pos x).map sig = nodes.map sig := by
  apply List.ext_getElem?
  intro i
  rw [List.map_set, List.getElem?_set]
  by_cases hi : pos = i
  · subst hi
    simp only [if_true, List.length_map, List.getElem?_map, h, Option.map_some, hx]
    rw [if_pos (List.getElem?_eq_some_iff.1 h).1]
  · rw [if_neg hi]

def UpdateValueSpec (b : Bucket V) (value : V)
    (r : Bucket V × UpdateRes) : Prop :=
  (r.1 = b ∧ (r.2 = .notModified ∨ r.2 = .failed .keyNonExistent)) ∨
  (∃ pos node, b.nodes[pos]? = some node ∧
      r = (Bucket.fcpForRemoval { b with nodes := removeAt b.nodes pos } pos, .failed .bucketFilter)) ∨
  (∃ pos node, b.nodes[pos]? = some node ∧
      r = ({ b with nodes := b.nodes.set pos { node with value := value } }, .updated)) ∨
  (∃ p, b.pending = some p ∧
      r = ({ b with pending := some { p with node := { p.node with value := value } } }, .updatedPending))

theorem updateValue_cases (c : Cfg V) (b : Bucket V) (key : Nat) (value : V) :
    UpdateValueSpec b value (b.updateValue c key value) := by
  unfold UpdateValueSpec Bucket.updateValue
  cases hpos : b.position key with
  | some pos =>
    obtain ⟨node, hnode, _⟩ := Bucket.position_some hpos
    simp only [hnode]
    by_cases hv : node.value = value
    · rw [if_pos hv]; simp
    · rw [if_neg hv]
      by_cases hf : (!c.bucketFilter value ((removeAt b.nodes pos).map (·.value))) = true
      · rw [if_pos hf]
        exact Or.inr (Or.inl ⟨pos, node, hnode, rfl⟩)
      · rw [if_neg hf, insertAt_removeAt _ (List.getElem?_eq_some_iff.1 hnode).1]
        exact Or.inr (Or.inr (Or.inl ⟨pos, node, hnode, rfl⟩))
  | none =>
    cases hp : b.pending with
    | none => simp
    | some p =>
      simp only
      by_cases hk : (p.node.key == key) = true
      · rw [if_pos hk]
        exact Or.inr (Or.inr (Or.inr ⟨p, rfl, rfl⟩))
      · rw [if_neg hk]; simp

theorem updateValue_inv {c : Cfg V} {tick : Nat} {b : Bucket V} {key : Nat} {value : V}
    (hb : BInv c tick b) : BInv c tick (b.updateValue c key value).1 := by
  rcases updateValue_cases c b key value with ⟨h, _⟩ | ⟨pos, node, hn, h⟩ | ⟨pos, node, hn, h⟩ |
    ⟨p, hp, h⟩
  · rw [h]; exact hb
  · rw [h]; exact removed_inv hb hn
  · rw [h]
    have hm := map_sig_set (x := { node with value := value }) hn rfl
    refine binv_mk ((binv_iff.1 hb).1.of_sig hm) ?_
    have hkeys : (b.nodes.set pos { node with value := value }).map (·.key) = b.nodes.map (·.key) :=
      keys_of_sig hm
    intro p hp
    show p.node.key ∉ (b.nodes.set pos { node with value := value }).map (·.key)
    rw [hkeys]; exact hb.pendingFresh p hp
  · rw [h]
    refine binv_mk (binv_iff.1 hb).1 ?_
    intro p' hp'
    cases hp'
    exact hb.pendingFresh p hp

theorem updateValue_keys {c : Cfg V} {b : Bucket V} {key : Nat} {value : V} {P : Nat → Prop}
    (hb : BKeys P b) : BKeys P (b.updateValue c key value).1 := by
  rcases updateValue_cases c b key value with ⟨h, _⟩ | ⟨pos, node, hn, h⟩ | ⟨pos, node, hn, h⟩ |
    ⟨p, hp, h⟩
  · rw [h]; exact hb
  · rw [h]; exact removed_keys hb
  · rw [h]
    refine ⟨?_, hb.2⟩
    intro n hn'
    rcases List.mem_or_eq_of_mem_set hn' with h1 | h1
    · exact hb.1 n h1
    · rw [h1]; exact hb.1 node (List.mem_of_getElem? hn)
  · rw [h]
    refine ⟨hb.1, ?_⟩
    intro p' hp'
    cases hp'
    exact hb.2 p hp

theorem updateValue_ne_panic {c : Cfg V} {b : Bucket V} {key : Nat} {value : V} :
    (b.updateValue c key value).2 ≠ .panic ∧ (b.updateValue c key value).2 ≠ .updatedAndPromoted := by
  rcases updateValue_cases c b key value with ⟨_, h | h⟩ | ⟨pos, node, hn, h⟩ |
    ⟨pos, node, hn, h⟩ | ⟨p, hp, h⟩ <;> rw [h] <;> simp

/-! ### table operations -/

theorem TInv.setBucket_applyAt {c : Cfg V} {now : Nat} {t : Table V} {i : Nat} {b : Bucket V}
    (h : TInv c t)
    (hb : BInv c t.tick ((Table.applyAt c now t i).bucket i) →
      BKeys (InBucket t.localKey i) ((Table.applyAt c now t i).bucket i) →
      BInv c t.tick b ∧ BKeys (InBucket t.localKey i) b) :
    TInv c ((Table.applyAt c now t i).setBucket i b) := by
  have h1 := applyAt_inv c now t i h
  have hb1 := h1.binv i
  have hk1 := h1.bkeys i
  rw [Table.applyAt_tick] at hb1
  rw [Table.applyAt_localKey] at hk1
  obtain ⟨h2, h3⟩ := hb hb1 hk1
  exact h1.setBucket (by rw [Table.applyAt_tick]; exact h2) (by rw [Table.applyAt_localKey]; exact h3)

theorem updateNodeStatus_tinv {c : Cfg V} {now : Nat} {t : Table V} {key : Nat} {conn : Bool}
    {dir : Option Bool} (h : TInv c t) : TInv c (t.updateNodeStatus c now key conn dir).1 := by
  unfold Table.updateNodeStatus
  simp only
  cases hbi : bucketIndex t.bump.localKey key with
  | none => exact h.bump
  | some i =>
    simp only
    exact h.bump.setBucket_applyAt (fun hb hk => ⟨updateStatus_inv hb, updateStatus_keys hk⟩)

theorem remove_tinv {c : Cfg V} {now : Nat} {t : Table V} {key : Nat} (h : TInv c t) :
    TInv c (t.remove c now key).1 := by
  unfold Table.remove
  simp only
  cases hbi : bucketIndex t.bump.localKey key with
  | none => exact h.bump
  | some i =>
    simp only
    exact h.bump.setBucket_applyAt (fun hb hk => ⟨remove_inv hb, remove_keys hk⟩)

theorem entryTouch_tinv {c : Cfg V} {now : Nat} {t : Table V} {key : Nat} (h : TInv c t) :
    TInv c (t.entryTouch c now key) := by
  unfold Table.entryTouch
  simp only
  cases hbi : bucketIndex t.bump.localKey key with
  | none => exact h.bump
  | some i => exact applyAt_inv c now _ i h.bump

theorem foldl_applyAt_tinv {c : Cfg V} {now : Nat} (l : List Nat) (t : Table V) (h : TInv c t) :
    TInv c (l.foldl (fun t i => Table.applyAt c now t i) t) := by
  induction l generalizing t with
  | nil => exact h
  | cons i l ih => exact ih _ (applyAt_inv c now t i h)

theorem applyAll_tinv {c : Cfg V} {now : Nat} {t : Table V} (h : TInv c t) :
    TInv c (t.applyAll c now) := foldl_applyAt_tinv _ _ h.bump

theorem takeApplied_tinv {c : Cfg V} {t : Table V} (h : TInv c t) : TInv c t.takeApplied.1 := by
  unfold Table.takeApplied
  cases ha : t.applied with
  | nil => exact h
  | cons a rest => exact h.congr rfl rfl (Nat.le_refl _)

theorem updateNode_tinv {c : Cfg V} {now : Nat} {t : Table V} {key : Nat} {value : V}
    {state : Option Bool} (h : TInv c t) : TInv c (t.updateNode c now key value state).1 := by
  unfold Table.updateNode
  simp only
  cases hbi : bucketIndex t.bump.localKey key with
  | none => exact h.bump
  | some i =>
    simp only
    by_cases hp : (!Table.passesTableFilter c t.bump key value) = true
    · rw [if_pos hp]
      exact h.bump.setBucket_applyAt (fun hb hk => ⟨remove_inv hb, remove_keys hk⟩)
    · rw [if_neg hp]
      by_cases hf : (Bucket.updateValue c ((Table.applyAt c now t.bump i).bucket i) key value).snd.isFailed = true
      · rw [if_pos hf]
        exact h.bump.setBucket_applyAt (fun hb hk => ⟨updateValue_inv hb, updateValue_keys hk⟩)
      · rw [if_neg hf]
        cases state with
        | none =>
          exact h.bump.setBucket_applyAt (fun hb hk => ⟨updateValue_inv hb, updateValue_keys hk⟩)
        | some s =>
          exact h.bump.setBucket_applyAt (fun hb hk =>
            ⟨updateStatus_inv (updateValue_inv hb), updateStatus_keys (updateValue_keys hk)⟩)

theorem insertOrUpdate_tinv {c : Cfg V} {now : Nat} {t : Table V} {key : Nat} {value : V}
    {st : Status} (h : TInv c t) : TInv c (t.insertOrUpdate c now key value st).1 := by
  unfold Table.insertOrUpdate
  simp only
  cases hbi : bucketIndex t.bump.localKey key with
  | none => exact h.bump
  | some i =>
    simp only
    by_cases hp : (!Table.passesTableFilter c t.bump key value) = true
    · rw [if_pos hp]
      exact h.bump.setBucket_applyAt (fun hb hk => ⟨remove_inv hb, remove_keys hk⟩)
    · rw [if_neg hp]
      by_cases hpos : (((Table.applyAt c now t.bump i).bucket i).position key).isNone = true
      · rw [if_pos hpos]
        exact h.bump.setBucket_applyAt (fun hb hk => ⟨insert_inv hb rfl, insert_keys hk hbi⟩)
      · rw [if_neg hpos]
        by_cases hf : (Bucket.updateStatus c now t.bump.tick ((Table.applyAt c now t.bump i).bucket i)
            key st.conn (some st.incoming)).snd.isFailed = true
        · rw [if_pos hf]
          exact h.bump.setBucket_applyAt (fun hb hk => ⟨updateStatus_inv hb, updateStatus_keys hk⟩)
        · rw [if_neg hf]
          exact h.bump.setBucket_applyAt (fun hb hk =>
            ⟨updateValue_inv (updateStatus_inv hb), updateValue_keys (updateStatus_keys hk)⟩)

theorem closest_tinv {c : Cfg V} {now : Nat} {t : Table V} {target : Nat} (h : TInv c t) :
    TInv c (t.closest c now target).1 := by
  unfold Table.closest
  generalize bucketOrder (t.localKey ^^^ target) = l
  have : ∀ (l : List Nat) (acc : Table V × List (Node V)), TInv c acc.1 →
      TInv c (l.foldl (fun (acc : Table V × List (Node V)) i =>
        let t1 := Table.applyAt c now acc.1 i
        (t1, acc.2 ++ sortByDist target (t1.bucket i).nodes)) acc).1 := by
    intro l
    induction l with
    | nil => intro acc h; exact h
    | cons i l ih =>
      intro acc h
      rw [List.foldl_cons]
      exact ih _ (applyAt_inv c now acc.1 i h)
  exact this l _ h.bump

theorem applyForDistances_tinv {c : Cfg V} {now m : Nat} (ds : List Nat) (t : Table V)
    (count : Nat) (h : TInv c t) : TInv c (applyForDistances c now m ds t count) := by
  induction ds generalizing t count with
  | nil => exact h
  | cons d ds ih =>
    unfold applyForDistances
    simp only
    have hset : TInv c (t.setBucket (d - 1) ((t.bucket (d - 1)).applyPending c now t.tick).1) :=
      h.setBucket (applyPending_inv c now t.tick _ (h.binv _)) (applyPending_keys (h.bkeys _))
    cases ha : ((t.bucket (d - 1)).applyPending c now t.tick).2 with
    | none => simp only; exact ih _ _ hset
    | some a =>
      simp only
      have hset' : TInv c { t.setBucket (d - 1) ((t.bucket (d - 1)).applyPending c now t.tick).1 with
          applied := t.applied ++ [a] } := hset.congr rfl rfl (Nat.le_refl _)
      split
      · exact hset'
      · exact ih _ _ hset'

theorem nodesByDistances_tinv {c : Cfg V} {now : Nat} {t : Table V} {ds : List Nat} {m : Nat}
    (h : TInv c t) : TInv c (t.nodesByDistances c now ds m).1 := by
  unfold Table.nodesByDistances
  exact applyForDistances_tinv _ _ _ h.bump

/-- Every table operation preserves the table invariant. -/
theorem step_tinv (c : Cfg V) (t : Table V) (op : Op V) (h : TInv c t) : TInv c (t.step c op) := by
  cases op with
  | insertOrUpdate now key v st => exact insertOrUpdate_tinv h
  | updateNode now key v s => exact updateNode_tinv h
  | updateNodeStatus now key conn dir => exact updateNodeStatus_tinv h
  | remove now key => exact remove_tinv h
  | entry now key => exact entryTouch_tinv h
  | iter now => exact applyAll_tinv h
  | closest now target => exact closest_tinv h
  | nodesByDistances now ds m => exact nodesByDistances_tinv h
  | takeApplied => exact takeApplied_tinv h


/-! ### global uniqueness -/

theorem nodup_flatMap_of {α β} {l : List α} {f : α → List β} (h1 : ∀ x ∈ l, (f x).Nodup)
    (h2 : l.Pairwise (fun a b => ∀ k ∈ f a, k ∉ f b)) : (l.flatMap f).Nodup := by
  induction l with
  | nil => simp
  | cons a l ih =>
    rw [List.flatMap_cons, List.nodup_append]
    rw [List.pairwise_cons] at h2
    refine ⟨h1 a (List.mem_cons_self ..), ih (fun x hx => h1 x (List.mem_cons_of_mem _ hx)) h2.2, ?_⟩
    intro k hk k' hk' e
    subst e
    obtain ⟨b, hb, hkb⟩ := List.mem_flatMap.1 hk'
    exact h2.1 b hb k hk hkb

/-- keys of a bucket: stored nodes followed by the pending node -/
def Bucket.keysP (b : Bucket V) : List Nat :=
  b.nodes.map (·.key) ++ (match b.pending with | some p => [p.node.key] | none => [])

theorem allKeys_eq (t : Table V) : t.allKeys = t.buckets.flatMap Bucket.keysP := rfl

theorem BKeys.of_mem_keysP {P : Nat → Prop} {b : Bucket V} (h : BKeys P b) {k : Nat}
    (hk : k ∈ b.keysP) : P k := by
  unfold Bucket.keysP at hk
  rcases List.mem_append.1 hk with hk | hk
  · obtain ⟨n, hn, rfl⟩ := List.mem_map.1 hk
    exact h.1 n hn
  · cases hp : b.pending with
    | none => rw [hp] at hk; cases hk
    | some p =>
      rw [hp] at hk
      simp only [List.mem_singleton] at hk
      rw [hk]; exact h.2 p hp

theorem BInv.keysP_nodup {c : Cfg V} {tick : Nat} {b : Bucket V} (h : BInv c tick b) :
    b.keysP.Nodup := by
  unfold Bucket.keysP
  cases hp : b.pending with
  | none => simpa using h.keysNodup
  | some p =>
    simp only
    rw [List.nodup_append]
    refine ⟨h.keysNodup, by simp, ?_⟩
    intro a ha b' hb' e
    simp only [List.mem_singleton] at hb'
    subst e; subst hb'
    exact h.pendingFresh p hp ha

theorem bucket_eq_getElem (t : Table V) (i : Nat) (h : i < t.buckets.length) :
    t.bucket i = t.buckets[i] := by
  simp [Table.bucket, List.getD_eq_getElem?_getD, List.getElem?_eq_getElem h]

theorem bucketIndex_self (k : Nat) : bucketIndex k k = none := by
  simp [bucketIndex]

theorem tinv_global_unique {c : Cfg V} {t : Table V} (h : TInv c t) :
    t.allKeys.Nodup ∧ t.localKey ∉ t.allKeys := by
  rw [allKeys_eq]
  constructor
  · apply nodup_flatMap_of
    · intro b hb
      obtain ⟨i, hi, rfl⟩ := List.mem_iff_getElem.1 hb
      rw [← bucket_eq_getElem t i hi]
      exact (h.binv i).keysP_nodup
    · rw [List.pairwise_iff_getElem]
      intro i j hi hj hij k hk1 hk2
      rw [← bucket_eq_getElem t i hi] at hk1
      rw [← bucket_eq_getElem t j hj] at hk2
      have e1 : bucketIndex t.localKey k = some i := (h.bkeys i).of_mem_keysP hk1
      have e2 : bucketIndex t.localKey k = some j := (h.bkeys j).of_mem_keysP hk2
      rw [e1] at e2
      cases e2
      omega
  · intro hm
    obtain ⟨b, hb, hk⟩ := List.mem_flatMap.1 hm
    obtain ⟨i, hi, rfl⟩ := List.mem_iff_getElem.1 hb
    rw [← bucket_eq_getElem t i hi] at hk
    have e1 : bucketIndex t.localKey t.localKey = some i := (h.bkeys i).of_mem_keysP hk
    rw [bucketIndex_self] at e1
    cases e1

theorem foldl_step_tinv (c : Cfg V) (ops : List (Op V)) (t : Table V) (h : TInv c t) :
    TInv c (ops.foldl (Table.step c) t) := by
  induction ops generalizing t with
  | nil => exact h
  | cons op ops ih => exact ih _ (step_tinv c t op h)

/-! ### the `unreachable!()` arms -/

theorem insert_ne_nodeExists {c : Cfg V} {now : Nat} {b : Bucket V} {node : Node V}
    (hpos : b.position node.key = none) : (Bucket.insert c now b node).2 ≠ .nodeExists := by
  intro he
  rcases insert_cases c now b node with ⟨_, _, _, h3, _⟩ | ⟨n0, hr, _⟩ | ⟨h, _⟩
  · have := h3 he; rw [hpos] at this; cases this
  · rw [hr] at he; cases he
  · rw [h] at he; cases he

theorem applyAt_binv {c : Cfg V} {now : Nat} {t : Table V} (h : TInv c t) (i : Nat) :
    BInv c t.tick ((Table.applyAt c now t i).bucket i) := by
  have := (applyAt_inv c now t i h).binv i
  rwa [Table.applyAt_tick] at this

theorem updateNodeStatus_ne_panic {c : Cfg V} {now : Nat} {t : Table V} {key : Nat} {conn : Bool}
    {dir : Option Bool} (h : TInv c t) : (t.updateNodeStatus c now key conn dir).2 ≠ .panic := by
  unfold Table.updateNodeStatus
  simp only
  cases hbi : bucketIndex t.bump.localKey key with
  | none => simp
  | some i =>
    simp only
    exact updateStatus_ne_panic (applyAt_binv h.bump i)

theorem updateNode_ne_panic {c : Cfg V} {now : Nat} {t : Table V} {key : Nat} {value : V}
    {state : Option Bool} (h : TInv c t) : (t.updateNode c now key value state).2 ≠ .panic := by
  unfold Table.updateNode
  simp only
  cases hbi : bucketIndex t.bump.localKey key with
  | none => simp
  | some i =>
    simp only
    have hb := applyAt_binv (now := now) h.bump i
    by_cases hp : (!Table.passesTableFilter c t.bump key value) = true
    · rw [if_pos hp]; simp
    · rw [if_neg hp]
      have hu := updateValue_ne_panic (c := c) (b := (Table.applyAt c now t.bump i).bucket i)
        (key := key) (value := value)
      have hb1 := updateValue_inv (key := key) (value := value) hb
      by_cases hf : (Bucket.updateValue c ((Table.applyAt c now t.bump i).bucket i) key value).snd.isFailed = true
      · rw [if_pos hf]
        exact hu.1
      · rw [if_neg hf]
        cases state with
        | none =>
          simp only
          generalize (Bucket.updateValue c ((Table.applyAt c now t.bump i).bucket i) key value).snd = ur at hu hf
          cases ur <;> simp_all [UpdateRes.isFailed]
        | some s =>
          simp only
          have hs := updateStatus_ne_panic (now := now) (key := key) (conn := s) (dir := none) hb1
          generalize (Bucket.updateStatus c now t.bump.tick
            (Bucket.updateValue c ((Table.applyAt c now t.bump i).bucket i) key value).fst key s none).snd = sr at hs
          generalize (Bucket.updateValue c ((Table.applyAt c now t.bump i).bucket i) key value).snd = ur at hu hf
          cases ur <;> cases sr <;> simp_all [UpdateRes.isFailed]

theorem insertOrUpdate_ne_panic {c : Cfg V} {now : Nat} {t : Table V} {key : Nat} {value : V}
    {st : Status} (h : TInv c t) : (t.insertOrUpdate c now key value st).2 ≠ .panic := by
  unfold Table.insertOrUpdate
  simp only
  cases hbi : bucketIndex t.bump.localKey key with
  | none => simp
  | some i =>
    simp only
    have hb := applyAt_binv (now := now) h.bump i
    by_cases hp : (!Table.passesTableFilter c t.bump key value) = true
    · rw [if_pos hp]; simp
    · rw [if_neg hp]
      by_cases hpos : (((Table.applyAt c now t.bump i).bucket i).position key).isNone = true
      · rw [if_pos hpos]
        simp only
        have hpos' : ((Table.applyAt c now t.bump i).bucket i).position key = none := by
          simpa using hpos
        have hne := insert_ne_nodeExists (c := c) (now := now)
          (node := { key := key, value := value, st := st, stamp := t.bump.tick }) hpos'
        generalize (Bucket.insert c now ((Table.applyAt c now t.bump i).bucket i)
          { key := key, value := value, st := st, stamp := t.bump.tick }).snd = r at hne
        cases r <;> simp_all
      · rw [if_neg hpos]
        have hs := updateStatus_ne_panic (now := now) (key := key) (conn := st.conn)
          (dir := some st.incoming) hb
        by_cases hf : (Bucket.updateStatus c now t.bump.tick ((Table.applyAt c now t.bump i).bucket i)
            key st.conn (some st.incoming)).snd.isFailed = true
        · rw [if_pos hf]; simp
        · rw [if_neg hf]
          simp only
          have hu := updateValue_ne_panic (c := c) (b := (Bucket.updateStatus c now t.bump.tick
            ((Table.applyAt c now t.bump i).bucket i) key st.conn (some st.incoming)).fst)
            (key := key) (value := value)
          generalize (Bucket.updateValue c (Bucket.updateStatus c now t.bump.tick
            ((Table.applyAt c now t.bump i).bucket i) key st.conn (some st.incoming)).fst
            key value).snd = ur at hu
          generalize (Bucket.updateStatus c now t.bump.tick ((Table.applyAt c now t.bump i).bucket i)
            key st.conn (some st.incoming)).snd = sr at hs hf
          cases ur <;> cases sr <;> simp_all [UpdateRes.isFailed]

/-! ### pending-slot semantics -/

theorem position_head {b : Bucket V} {n0 : Node V} {rest : List (Node V)}
    (hn : b.nodes = n0 :: rest) : b.position n0.key = some 0 := by
  simp [Bucket.position, hn, List.findIdx?_cons]

theorem updateStatus_head_pending {c : Cfg V} {now tick : Nat} {b : Bucket V} {n0 : Node V}
    {rest : List (Node V)} {dir : Option Bool} (hn : b.nodes = n0 :: rest) (hinv : BInv c tick b) :
    (b.updateStatus c now tick n0.key true dir).1.pending = none := by
  have hold : b.nodes[0]? = some n0 := by rw [hn]; rfl
  rw [(updateStatus_some (position_head hn) hold).1]
  have hpn : (usBucket b 0 n0 true).pending = none := rfl
  have hnf : (usBucket b 0 n0 true).isFull = false := by
    apply isFull_false_iff.2
    show (removeAt b.nodes 0).length < 16
    rw [removeAt_length _ _ (by rw [hn]; simp)]
    have := hinv.len; omega
  rcases insert_cases c now (usBucket b 0 n0 true) (usNode tick n0 true dir) with
    ⟨h1, _⟩ | ⟨k, _, _, hfull, _⟩ | ⟨_, _, _, _, hpend, _⟩
  · rw [h1]; rfl
  · rw [hnf] at hfull; cases hfull
  · cases hp : (Bucket.insert c now (usBucket b 0 n0 true) (usNode tick n0 true dir)).1.pending with
    | none => rfl
    | some p' =>
      have := (hpend p' hp).1
      rw [hpn] at this; cases this

end Discv5.KB

/- Helper lemmas for the query model (C09, C10): map operations, the loop of `next`, the
ledger invariant preserved by every event, and the pool invariant. -/
import Discv5Model.Model.Query
set_option linter.unusedSimpArgs false
namespace Discv5.Query

theorem xor_cancel {a b t : Nat} (h : a ^^^ t = b ^^^ t) : a = b := by
  have : (a ^^^ t) ^^^ t = (b ^^^ t) ^^^ t := by rw [h]
  simpa [Nat.xor_assoc, Nat.xor_self, Nat.xor_zero] using this

def countW (ps : List Peer) : Nat := ps.countP (fun e => e.state.isWaiting)

def Sorted (ps : List Peer) : Prop := ps.Pairwise (fun a b => a.dist < b.dist)

def DistOk (t : Nat) (ps : List Peer) : Prop := ∀ e ∈ ps, e.dist = e.key ^^^ t

theorem sorted_inj {ps : List Peer} (h : Sorted ps) {a b : Peer} (ha : a ∈ ps) (hb : b ∈ ps)
    (hd : a.dist = b.dist) : a = b := by
  induction ps with
  | nil => cases ha
  | cons x xs ih =>
    have hx := List.pairwise_cons.mp h
    rcases List.mem_cons.mp ha with rfl | ha'
    · rcases List.mem_cons.mp hb with rfl | hb'
      · rfl
      · have := hx.1 b hb'; omega
    · rcases List.mem_cons.mp hb with rfl | hb'
      · have := hx.1 a ha'; omega
      · exact ih hx.2 ha' hb'

/-- Element-wise relation between two lists. -/
inductive Rel2 (R : Peer → Peer → Prop) : List Peer → List Peer → Prop
  | nil : Rel2 R [] []
  | cons {a b : Peer} {as bs : List Peer} : R a b → Rel2 R as bs → Rel2 R (a :: as) (b :: bs)

theorem Rel2.refl {R : Peer → Peer → Prop} (hR : ∀ a, R a a) : ∀ l, Rel2 R l l
  | [] => .nil
  | a :: l => .cons (hR a) (Rel2.refl hR l)

theorem Rel2.fwd {R : Peer → Peer → Prop} {as bs : List Peer} (h : Rel2 R as bs) :
    ∀ a ∈ as, ∃ b ∈ bs, R a b := by
  induction h with
  | nil => intro a ha; cases ha
  | cons hab _ ih =>
    intro x hx
    rcases List.mem_cons.mp hx with rfl | hx'
    · exact ⟨_, List.mem_cons_self, hab⟩
    · obtain ⟨b, hb, hr⟩ := ih x hx'
      exact ⟨b, List.mem_cons_of_mem _ hb, hr⟩

theorem Rel2.bwd {R : Peer → Peer → Prop} {as bs : List Peer} (h : Rel2 R as bs) :
    ∀ b ∈ bs, ∃ a ∈ as, R a b := by
  induction h with
  | nil => intro a ha; cases ha
  | cons hab _ ih =>
    intro x hx
    rcases List.mem_cons.mp hx with rfl | hx'
    · exact ⟨_, List.mem_cons_self, hab⟩
    · obtain ⟨b, hb, hr⟩ := ih x hx'
      exact ⟨b, List.mem_cons_of_mem _ hb, hr⟩

theorem Rel2.map_eq {R : Peer → Peer → Prop} {β : Type} (f : Peer → β) (hR : ∀ a b, R a b → f b = f a)
    {as bs : List Peer} (h : Rel2 R as bs) : bs.map f = as.map f := by
  induction h with
  | nil => rfl
  | cons hab _ ih => simp [hR _ _ hab, ih]

theorem Rel2.imp {R S : Peer → Peer → Prop} (hRS : ∀ a b, R a b → S a b) {as bs : List Peer}
    (h : Rel2 R as bs) : Rel2 S as bs := by
  induction h with
  | nil => exact .nil
  | cons hab _ ih => exact .cons (hRS _ _ hab) ih

theorem sorted_iff_map (ps : List Peer) : Sorted ps ↔ (ps.map (·.dist)).Pairwise (· < ·) := by
  unfold Sorted; rw [List.pairwise_map]


/-! ### lookup / modifyAt -/

theorem lookup_some {d : Nat} {ps : List Peer} {e : Peer} (h : lookup d ps = some e) :
    e ∈ ps ∧ e.dist = d := by
  induction ps with
  | nil => simp [lookup] at h
  | cons x xs ih =>
    unfold lookup at h
    by_cases hx : x.dist = d
    · rw [if_pos hx] at h
      cases h
      exact ⟨List.mem_cons_self, hx⟩
    · rw [if_neg hx] at h
      exact ⟨List.mem_cons_of_mem _ (ih h).1, (ih h).2⟩

theorem lookup_none {d : Nat} {ps : List Peer} (h : lookup d ps = none) :
    ∀ e ∈ ps, e.dist ≠ d := by
  induction ps with
  | nil => intro e he; cases he
  | cons x xs ih =>
    unfold lookup at h
    by_cases hx : x.dist = d
    · rw [if_pos hx] at h; cases h
    · rw [if_neg hx] at h
      intro e he
      rcases List.mem_cons.mp he with rfl | he'
      · exact hx
      · exact ih h e he'

/-- The relation between a list and its `modifyAt` image. -/
def ModR (d : Nat) (f : Peer → Peer) (a b : Peer) : Prop := b = a ∨ (a.dist = d ∧ b = f a)

theorem modifyAt_rel (d : Nat) (f : Peer → Peer) : ∀ ps, Rel2 (ModR d f) ps (modifyAt d f ps)
  | [] => .nil
  | x :: xs => by
    unfold modifyAt
    by_cases hx : x.dist = d
    · rw [if_pos hx]
      exact .cons (Or.inr ⟨hx, rfl⟩) (Rel2.refl (fun a => Or.inl rfl) xs)
    · rw [if_neg hx]
      exact .cons (Or.inl rfl) (modifyAt_rel d f xs)

theorem modifyAt_length (d : Nat) (f : Peer → Peer) : ∀ ps, (modifyAt d f ps).length = ps.length
  | [] => rfl
  | x :: xs => by
    unfold modifyAt
    by_cases hx : x.dist = d
    · rw [if_pos hx]; simp
    · rw [if_neg hx]; simp [modifyAt_length d f xs]

/-- `modifyAt` on the entry found by `lookup`: the image of that entry is in the new list. -/
theorem modifyAt_mem_image {d : Nat} {f : Peer → Peer} {ps : List Peer} {e : Peer}
    (h : lookup d ps = some e) : f e ∈ modifyAt d f ps := by
  induction ps with
  | nil => simp [lookup] at h
  | cons x xs ih =>
    unfold lookup at h
    unfold modifyAt
    by_cases hx : x.dist = d
    · rw [if_pos hx] at h; cases h
      rw [if_pos hx]; exact List.mem_cons_self
    · rw [if_neg hx] at h
      rw [if_neg hx]; exact List.mem_cons_of_mem _ (ih h)

/-- Number of `Waiting` peers after changing the looked-up entry. -/
theorem countW_modifyAt {d : Nat} {f : Peer → Peer} {ps : List Peer} {e : Peer}
    (h : lookup d ps = some e) :
    countW (modifyAt d f ps) + (if e.state.isWaiting then 1 else 0)
      = countW ps + (if (f e).state.isWaiting then 1 else 0) := by
  induction ps with
  | nil => simp [lookup] at h
  | cons x xs ih =>
    unfold lookup at h
    unfold modifyAt
    by_cases hx : x.dist = d
    · rw [if_pos hx] at h; cases h
      rw [if_pos hx]
      simp only [countW, List.countP_cons]
      omega
    · rw [if_neg hx] at h
      rw [if_neg hx]
      have := ih h
      simp only [countW, List.countP_cons] at this ⊢
      omega

/-! ### insertOr / insertRepl -/

theorem mem_insertOr {p x : Peer} : ∀ {ps : List Peer}, x ∈ insertOr p ps → x = p ∨ x ∈ ps
  | [], h => by simp [insertOr] at h; exact Or.inl h
  | e :: es, h => by
    unfold insertOr at h
    by_cases h1 : p.dist < e.dist
    · rw [if_pos h1] at h
      rcases List.mem_cons.mp h with rfl | h'
      · exact Or.inl rfl
      · exact Or.inr h'
    · rw [if_neg h1] at h
      by_cases h2 : p.dist = e.dist
      · rw [if_pos h2] at h; exact Or.inr h
      · rw [if_neg h2] at h
        rcases List.mem_cons.mp h with rfl | h'
        · exact Or.inr List.mem_cons_self
        · rcases mem_insertOr h' with rfl | h''
          · exact Or.inl rfl
          · exact Or.inr (List.mem_cons_of_mem _ h'')

theorem mem_insertOr_of_mem {p x : Peer} : ∀ {ps : List Peer}, x ∈ ps → x ∈ insertOr p ps
  | [], h => by cases h
  | e :: es, h => by
    unfold insertOr
    by_cases h1 : p.dist < e.dist
    · rw [if_pos h1]; exact List.mem_cons_of_mem _ h
    · rw [if_neg h1]
      by_cases h2 : p.dist = e.dist
      · rw [if_pos h2]; exact h
      · rw [if_neg h2]
        rcases List.mem_cons.mp h with rfl | h'
        · exact List.mem_cons_self
        · exact List.mem_cons_of_mem _ (mem_insertOr_of_mem h')

theorem sorted_insertOr {p : Peer} : ∀ {ps : List Peer}, Sorted ps → Sorted (insertOr p ps)
  | [], _ => by simp [insertOr, Sorted]
  | e :: es, h => by
    have hc := List.pairwise_cons.mp h
    unfold insertOr
    by_cases h1 : p.dist < e.dist
    · rw [if_pos h1]
      refine List.pairwise_cons.mpr ⟨?_, h⟩
      intro a ha
      rcases List.mem_cons.mp ha with rfl | ha'
      · exact h1
      · have := hc.1 a ha'; omega
    · rw [if_neg h1]
      by_cases h2 : p.dist = e.dist
      · rw [if_pos h2]; exact h
      · rw [if_neg h2]
        refine List.pairwise_cons.mpr ⟨?_, sorted_insertOr hc.2⟩
        intro a ha
        rcases mem_insertOr ha with rfl | ha'
        · omega
        · exact hc.1 a ha'

theorem countW_insertOr {p : Peer} (hp : p.state.isWaiting = false) :
    ∀ ps : List Peer, countW (insertOr p ps) = countW ps
  | [] => by simp [insertOr, countW, hp]
  | e :: es => by
    unfold insertOr
    by_cases h1 : p.dist < e.dist
    · rw [if_pos h1]; simp [countW, List.countP_cons, hp]
    · rw [if_neg h1]
      by_cases h2 : p.dist = e.dist
      · rw [if_pos h2]
      · rw [if_neg h2]
        have := countW_insertOr hp es
        simp only [countW, List.countP_cons] at this ⊢
        omega

theorem length_insertOr (p : Peer) : ∀ ps : List Peer,
    ps.length ≤ (insertOr p ps).length ∧ (insertOr p ps).length ≤ ps.length + 1
  | [] => by simp [insertOr]
  | e :: es => by
    unfold insertOr
    by_cases h1 : p.dist < e.dist
    · rw [if_pos h1]; simp
    · rw [if_neg h1]
      by_cases h2 : p.dist = e.dist
      · rw [if_pos h2]; simp
      · rw [if_neg h2]
        have := length_insertOr p es
        simp only [List.length_cons]; omega

theorem mem_insertRepl {p x : Peer} : ∀ {ps : List Peer}, x ∈ insertRepl p ps → x = p ∨ x ∈ ps
  | [], h => by simp [insertRepl] at h; exact Or.inl h
  | e :: es, h => by
    unfold insertRepl at h
    by_cases h1 : p.dist < e.dist
    · rw [if_pos h1] at h
      rcases List.mem_cons.mp h with rfl | h'
      · exact Or.inl rfl
      · exact Or.inr h'
    · rw [if_neg h1] at h
      by_cases h2 : p.dist = e.dist
      · rw [if_pos h2] at h
        rcases List.mem_cons.mp h with rfl | h'
        · exact Or.inl rfl
        · exact Or.inr (List.mem_cons_of_mem _ h')
      · rw [if_neg h2] at h
        rcases List.mem_cons.mp h with rfl | h'
        · exact Or.inr List.mem_cons_self
        · rcases mem_insertRepl h' with rfl | h''
          · exact Or.inl rfl
          · exact Or.inr (List.mem_cons_of_mem _ h'')

theorem sorted_insertRepl {p : Peer} : ∀ {ps : List Peer}, Sorted ps → Sorted (insertRepl p ps)
  | [], _ => by simp [insertRepl, Sorted]
  | e :: es, h => by
    have hc := List.pairwise_cons.mp h
    unfold insertRepl
    by_cases h1 : p.dist < e.dist
    · rw [if_pos h1]
      refine List.pairwise_cons.mpr ⟨?_, h⟩
      intro a ha
      rcases List.mem_cons.mp ha with rfl | ha'
      · exact h1
      · have := hc.1 a ha'; omega
    · rw [if_neg h1]
      by_cases h2 : p.dist = e.dist
      · rw [if_pos h2]
        refine List.pairwise_cons.mpr ⟨?_, hc.2⟩
        intro a ha
        have := hc.1 a ha; omega
      · rw [if_neg h2]
        refine List.pairwise_cons.mpr ⟨?_, sorted_insertRepl hc.2⟩
        intro a ha
        rcases mem_insertRepl ha with rfl | ha'
        · omega
        · exact hc.1 a ha'


/-! ### the loop of `next` -/

/-- What the loop of `next` may do to one entry. -/
def NextR (now pto : Nat) (out : LoopOut) (a b : Peer) : Prop :=
  b = a ∨ (a.state = .notContacted ∧ b = { a with state := .waiting (now + pto) } ∧ out = .emit a.key)
    ∨ (∃ t, a.state = .waiting t ∧ t ≤ now ∧ b = { a with state := .unresponsive })

theorem nextLoop_rel (v : Variant) (cfg : Config) (now : Nat) (cap : Bool) :
    ∀ (ps : List Peer) (rc : Option Nat) (nw : Nat),
      Rel2 (NextR now cfg.peerTimeout (nextLoop v cfg now cap ps rc nw).out) ps
        (nextLoop v cfg now cap ps rc nw).peers
  | [], rc, nw => by simp [nextLoop]; exact .nil
  | p :: ps, rc, nw => by
    have hrefl : ∀ o, ∀ l : List Peer, Rel2 (NextR now cfg.peerTimeout o) l l :=
      fun o l => Rel2.refl (fun a => Or.inl rfl) l
    unfold nextLoop
    split
    · -- notContacted
      rename_i hs
      by_cases hc : (!cap) = true
      · rw [if_pos hc]
        exact .cons (Or.inr (Or.inl ⟨hs, rfl, rfl⟩)) (hrefl _ _)
      · rw [if_neg hc]
        exact hrefl _ _
    · -- waiting t
      rename_i t hs
      by_cases ht : now ≥ t
      · rw [if_pos ht]
        exact .cons (Or.inr (Or.inr ⟨t, hs, ht, rfl⟩)) (nextLoop_rel v cfg now cap ps rc (nw - 1))
      · rw [if_neg ht]
        by_cases hc : cap = true
        · rw [if_pos hc]; exact hrefl _ _
        · rw [if_neg hc]
          exact .cons (Or.inl rfl) (nextLoop_rel v cfg now cap ps _ nw)
    · -- succeeded
      split
      · by_cases hcn : counts v p = true
        · rw [if_pos hcn]
          rename_i c
          by_cases hge : c + 1 ≥ cfg.numResults
          · rw [if_pos hge]; exact hrefl _ _
          · rw [if_neg hge]
            exact .cons (Or.inl rfl) (nextLoop_rel v cfg now cap ps _ nw)
        · rw [if_neg hcn]
          exact .cons (Or.inl rfl) (nextLoop_rel v cfg now cap ps _ nw)
      · exact .cons (Or.inl rfl) (nextLoop_rel v cfg now cap ps _ nw)
    · exact .cons (Or.inl rfl) (nextLoop_rel v cfg now cap ps _ nw)
    · exact .cons (Or.inl rfl) (nextLoop_rel v cfg now cap ps _ nw)

def resCount (v : Variant) (ps : List Peer) : Nat := (ps.filterMap (resultKey v)).length

theorem resCount_cons (v : Variant) (p : Peer) (ps : List Peer) :
    resCount v (p :: ps) = (if p.state.isSucceeded && counts v p then 1 else 0) + resCount v ps := by
  unfold resCount
  rw [List.filterMap_cons]
  unfold resultKey
  by_cases h : (p.state.isSucceeded && counts v p) = true
  · simp [h]; omega
  · simp [h]

/-- Facts about how the loop ended. -/
theorem nextLoop_out (v : Variant) (cfg : Config) (now : Nat) (cap : Bool) :
    ∀ (ps : List Peer) (rc : Option Nat) (nw : Nat),
      (∀ k, (nextLoop v cfg now cap ps rc nw).out = .emit k →
          cap = false ∧ ∃ e ∈ ps, e.key = k ∧ e.state = .notContacted ∧
            ({ e with state := .waiting (now + cfg.peerTimeout) } : Peer) ∈ (nextLoop v cfg now cap ps rc nw).peers) ∧
      ((nextLoop v cfg now cap ps rc nw).out = .done →
          ∀ e ∈ (nextLoop v cfg now cap ps rc nw).peers, e.state ≠ .notContacted) ∧
      ((nextLoop v cfg now cap ps rc nw).out = .fin →
          ∃ c, rc = some c ∧ cfg.numResults ≤ c + resCount v (nextLoop v cfg now cap ps rc nw).peers) ∧
      ((nextLoop v cfg now cap ps rc nw).out = .atCap → cap = true)
  | [], rc, nw => by
    simp [nextLoop]
  | p :: ps, rc, nw => by
    -- lifting the facts of the recursive call over an unchanged / expired head
    have lift : ∀ (p' : Peer) (rc' : Option Nat) (nw' : Nat), p'.key = p.key → p'.state ≠ .notContacted →
        (rc' = rc ∨ (∃ c, rc = some c ∧ rc' = some (c + 1) ∧ p'.state.isSucceeded = true ∧ counts v p' = true)) →
        let r := nextLoop v cfg now cap ps rc' nw'
        (∀ k, r.out = .emit k → cap = false ∧ ∃ e ∈ p :: ps, e.key = k ∧ e.state = .notContacted ∧
            ({ e with state := .waiting (now + cfg.peerTimeout) } : Peer) ∈ p' :: r.peers) ∧
        (r.out = .done → ∀ e ∈ p' :: r.peers, e.state ≠ .notContacted) ∧
        (r.out = .fin → ∃ c, rc = some c ∧ cfg.numResults ≤ c + resCount v (p' :: r.peers)) ∧
        (r.out = .atCap → cap = true) := by
      intro p' rc' nw' _ hnc hrc
      have ih := nextLoop_out v cfg now cap ps rc' nw'
      refine ⟨?_, ?_, ?_, ih.2.2.2⟩
      · intro k hk
        obtain ⟨hcap, e, he, h1, h2, h3⟩ := ih.1 k hk
        exact ⟨hcap, e, List.mem_cons_of_mem _ he, h1, h2, List.mem_cons_of_mem _ h3⟩
      · intro hd e he
        rcases List.mem_cons.mp he with rfl | he'
        · exact hnc
        · exact ih.2.1 hd e he'
      · intro hf
        obtain ⟨c, hc, hle⟩ := ih.2.2.1 hf
        rcases hrc with rfl | ⟨c0, h0, h1, hs, hcn⟩
        · refine ⟨c, hc, ?_⟩
          rw [resCount_cons]; omega
        · refine ⟨c0, h0, ?_⟩
          rw [resCount_cons, hs, hcn]
          rw [h1] at hc; cases hc
          simp; omega
    unfold nextLoop
    split
    · rename_i hs
      by_cases hc : (!cap) = true
      · rw [if_pos hc]
        refine ⟨?_, by simp, by simp, by simp⟩
        intro k hk
        simp at hk
        refine ⟨by simpa using hc, p, List.mem_cons_self, hk, hs, List.mem_cons_self⟩
      · rw [if_neg hc]
        refine ⟨by simp, by simp, by simp, ?_⟩
        intro _; simpa using hc
    · rename_i t hs
      by_cases ht : now ≥ t
      · rw [if_pos ht]
        exact lift { p with state := .unresponsive } rc (nw - 1) rfl (by simp) (Or.inl rfl)
      · rw [if_neg ht]
        by_cases hc : cap = true
        · rw [if_pos hc]
          exact ⟨by simp, by simp, by simp, fun _ => hc⟩
        · rw [if_neg hc]
          by_cases hcn : counts v p = true
          · rw [if_pos hcn]
            have ih := nextLoop_out v cfg now cap ps none nw
            refine ⟨?_, ?_, ?_, ih.2.2.2⟩
            · intro k hk
              obtain ⟨hcap, e, he, h1, h2, h3⟩ := ih.1 k hk
              exact ⟨hcap, e, List.mem_cons_of_mem _ he, h1, h2, List.mem_cons_of_mem _ h3⟩
            · intro hd e he
              rcases List.mem_cons.mp he with rfl | he'
              · rw [hs]; simp
              · exact ih.2.1 hd e he'
            · intro hf
              obtain ⟨c, hc', _⟩ := ih.2.2.1 hf
              cases hc'
          · rw [if_neg hcn]
            exact lift p rc nw rfl (by rw [hs]; simp) (Or.inl rfl)
    · rename_i hs
      split
      · rename_i c
        by_cases hcn : counts v p = true
        · rw [if_pos hcn]
          by_cases hge : c + 1 ≥ cfg.numResults
          · rw [if_pos hge]
            refine ⟨by simp, by simp, ?_, by simp⟩
            intro _
            refine ⟨c, rfl, ?_⟩
            rw [resCount_cons, hs, hcn]; simp [PState.isSucceeded]; omega
          · rw [if_neg hge]
            exact lift p (some (c + 1)) nw rfl (by rw [hs]; simp)
              (Or.inr ⟨c, rfl, rfl, by rw [hs]; rfl, hcn⟩)
        · rw [if_neg hcn]
          exact lift p (some c) nw rfl (by rw [hs]; simp) (Or.inl rfl)
      · exact lift p none nw rfl (by rw [hs]; simp) (Or.inl rfl)
    · rename_i hs
      exact lift p rc nw rfl (by rw [hs]; simp) (Or.inl rfl)
    · rename_i hs
      exact lift p rc nw rfl (by rw [hs]; simp) (Or.inl rfl)

theorem nextLoop_count (v : Variant) (cfg : Config) (now : Nat) (cap : Bool) (c : Nat) :
    ∀ (ps : List Peer) (rc : Option Nat) (nw : Nat), nw = c + countW ps →
      (nextLoop v cfg now cap ps rc nw).nw = c + countW (nextLoop v cfg now cap ps rc nw).peers
  | [], rc, nw, h => by simpa [nextLoop, countW] using h
  | p :: ps, rc, nw, h => by
    unfold nextLoop
    split
    · rename_i hs
      by_cases hc : (!cap) = true
      · rw [if_pos hc]
        simp only [countW, List.countP_cons, hs, PState.isWaiting] at h ⊢
        simp at h ⊢; omega
      · rw [if_neg hc]; exact h
    · rename_i t hs
      have hw : countW (p :: ps) = countW ps + 1 := by
        simp [countW, List.countP_cons, hs, PState.isWaiting]
      by_cases ht : now ≥ t
      · rw [if_pos ht]
        have := nextLoop_count v cfg now cap c ps rc (nw - 1) (by omega)
        simp only [countW, List.countP_cons, PState.isWaiting] at this ⊢
        simpa using this
      · rw [if_neg ht]
        by_cases hc : cap = true
        · rw [if_pos hc]; exact h
        · rw [if_neg hc]
          have := nextLoop_count v cfg now cap (c + 1) ps (if counts v p then none else rc) nw (by omega)
          simp only [countW, List.countP_cons, hs, PState.isWaiting] at this ⊢
          simp at this ⊢; omega
    · rename_i hs
      have hw : countW (p :: ps) = countW ps := by
        simp [countW, List.countP_cons, hs, PState.isWaiting]
      have key : ∀ rc', (nextLoop v cfg now cap ps rc' nw).nw
          = c + countW (p :: (nextLoop v cfg now cap ps rc' nw).peers) := by
        intro rc'
        have := nextLoop_count v cfg now cap c ps rc' nw (by omega)
        simp only [countW, List.countP_cons, hs, PState.isWaiting] at this ⊢
        simpa using this
      split
      · by_cases hcn : counts v p = true
        · rw [if_pos hcn]
          rename_i c'
          by_cases hge : c' + 1 ≥ cfg.numResults
          · rw [if_pos hge]; exact h
          · rw [if_neg hge]; exact key _
        · rw [if_neg hcn]; exact key _
      · exact key _
    · rename_i hs
      have hw : countW (p :: ps) = countW ps := by
        simp [countW, List.countP_cons, hs, PState.isWaiting]
      have := nextLoop_count v cfg now cap c ps rc nw (by omega)
      simp only [countW, List.countP_cons, hs, PState.isWaiting] at this ⊢
      simpa using this
    · rename_i hs
      have hw : countW (p :: ps) = countW ps := by
        simp [countW, List.countP_cons, hs, PState.isWaiting]
      have := nextLoop_count v cfg now cap c ps rc nw (by omega)
      simp only [countW, List.countP_cons, hs, PState.isWaiting] at this ⊢
      simpa using this

theorem nextLoop_nw_le (v : Variant) (cfg : Config) (now : Nat) (cap : Bool) :
    ∀ (ps : List Peer) (rc : Option Nat) (nw : Nat),
      (nextLoop v cfg now cap ps rc nw).nw ≤ nw + 1 ∧
      ((∀ k, (nextLoop v cfg now cap ps rc nw).out ≠ .emit k) → (nextLoop v cfg now cap ps rc nw).nw ≤ nw)
  | [], rc, nw => by simp [nextLoop]
  | p :: ps, rc, nw => by
    have lift : ∀ (rc' : Option Nat) (nw' : Nat), nw' ≤ nw →
        let r := nextLoop v cfg now cap ps rc' nw'
        r.nw ≤ nw + 1 ∧ ((∀ k, r.out ≠ .emit k) → r.nw ≤ nw) := by
      intro rc' nw' hle
      have ih := nextLoop_nw_le v cfg now cap ps rc' nw'
      refine ⟨by have := ih.1; omega, fun h => by have := ih.2 h; omega⟩
    unfold nextLoop
    split
    · by_cases hc : (!cap) = true
      · rw [if_pos hc]; simp
      · rw [if_neg hc]; simp
    · rename_i t hs
      by_cases ht : now ≥ t
      · rw [if_pos ht]; exact lift rc (nw - 1) (by omega)
      · rw [if_neg ht]
        by_cases hc : cap = true
        · rw [if_pos hc]; simp
        · rw [if_neg hc]; exact lift _ nw (by omega)
    · split
      · rename_i c
        by_cases hcn : counts v p = true
        · rw [if_pos hcn]
          by_cases hge : c + 1 ≥ cfg.numResults
          · rw [if_pos hge]; simp
          · rw [if_neg hge]; exact lift _ nw (by omega)
        · rw [if_neg hcn]; exact lift _ nw (by omega)
      · exact lift _ nw (by omega)
    · exact lift _ nw (by omega)
    · exact lift _ nw (by omega)

/-! ### incorporate -/

theorem incorporate_spec (t nr nc : Nat) : ∀ (closer : List (Nat × Bool)) (acc : List Peer × Bool),
    Sorted acc.1 →
    Sorted (incorporate t nr nc closer acc).1 ∧
    (∀ x ∈ acc.1, x ∈ (incorporate t nr nc closer acc).1) ∧
    (∀ x ∈ (incorporate t nr nc closer acc).1, x ∈ acc.1 ∨ ∃ km ∈ closer, x = mkPeer t km.1 km.2) ∧
    countW (incorporate t nr nc closer acc).1 = countW acc.1 ∧
    acc.1.length ≤ (incorporate t nr nc closer acc).1.length ∧
    (incorporate t nr nc closer acc).1.length ≤ acc.1.length + closer.length
  | [], acc, hs => by simp [incorporate, hs]
  | km :: rest, acc, hs => by
    unfold incorporate
    have ih := incorporate_spec t nr nc rest
      (insertOr (mkPeer t km.1 km.2) acc.1,
        ((insertOr (mkPeer t km.1 km.2) acc.1).head?.map (·.dist)) == some (km.1 ^^^ t) || decide (nc < nr))
      (sorted_insertOr hs)
    dsimp only at ih ⊢
    obtain ⟨h1, h2, h3, h4, h5, h6⟩ := ih
    refine ⟨h1, ?_, ?_, ?_, ?_, ?_⟩
    · intro x hx; exact h2 x (mem_insertOr_of_mem hx)
    · intro x hx
      rcases h3 x hx with h | ⟨km', hk, rfl⟩
      · rcases mem_insertOr h with rfl | h'
        · exact Or.inr ⟨km, List.mem_cons_self, rfl⟩
        · exact Or.inl h'
      · exact Or.inr ⟨km', List.mem_cons_of_mem _ hk, rfl⟩
    · rw [h4]; exact countW_insertOr (by simp [mkPeer, PState.isWaiting]) _
    · have := (length_insertOr (mkPeer t km.1 km.2) acc.1).1
      omega
    · have := (length_insertOr (mkPeer t km.1 km.2) acc.1).2
      simp only [List.length_cons] at h6 ⊢; omega

end Discv5.Query

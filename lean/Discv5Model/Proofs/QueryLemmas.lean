/- Helper lemmas for the query model (C09, C10): map operations, the loop of `next`, the
ledger invariant preserved by every event, and the pool invariant. -/
import Discv5Model.Model.Query
set_option linter.unusedSimpArgs false
namespace Discv5.Query

theorem xor_cancel {a b t : Nat} (h : a ^^^ t = b ^^^ t) : a = b := by
  have : (a ^^^ t) ^^^ t = (b ^^^ t) ^^^ t := by rw [h]
  simpa [Nat.xor_assoc, Nat.xor_self, Nat.xor_zero] using this

def countW (ps : List Peer) : Nat := ps.countP (fun e => e.state.isWaiting)

def Sorted (ps : List Peer) : Prop := ps.Pairwise (fun a b => a.dist < b.dist)

def DistOk (t : Nat) (ps : List Peer) : Prop := ∀ e ∈ ps, e.dist = e.key ^^^ t

theorem sorted_inj {ps : List Peer} (h : Sorted ps) {a b : Peer} (ha : a ∈ ps) (hb : b ∈ ps)
    (hd : a.dist = b.dist) : a = b := by
  induction ps with
  | nil => cases ha
  | cons x xs ih =>
    have hx := List.pairwise_cons.mp h
    rcases List.mem_cons.mp ha with rfl | ha'
    · rcases List.mem_cons.mp hb with rfl | hb'
      · rfl
      · have := hx.1 b hb'; omega
    · rcases List.mem_cons.mp hb with rfl | hb'
      · have := hx.1 a ha'; omega
      · exact ih hx.2 ha' hb'

/-- Element-wise relation between two lists. -/
inductive Rel2 (R : Peer → Peer → Prop) : List Peer → List Peer → Prop
  | nil : Rel2 R [] []
  | cons {a b : Peer} {as bs : List Peer} : R a b → Rel2 R as bs → Rel2 R (a :: as) (b :: bs)

theorem Rel2.refl {R : Peer → Peer → Prop} (hR : ∀ a, R a a) : ∀ l, Rel2 R l l
  | [] => .nil
  | a :: l => .cons (hR a) (Rel2.refl hR l)

theorem Rel2.fwd {R : Peer → Peer → Prop} {as bs : List Peer} (h : Rel2 R as bs) :
    ∀ a ∈ as, ∃ b ∈ bs, R a b := by
  induction h with
  | nil => intro a ha; cases ha
  | cons hab _ ih =>
    intro x hx
    rcases List.mem_cons.mp hx with rfl | hx'
    · exact ⟨_, List.mem_cons_self, hab⟩
    · obtain ⟨b, hb, hr⟩ := ih x hx'
      exact ⟨b, List.mem_cons_of_mem _ hb, hr⟩

theorem Rel2.bwd {R : Peer → Peer → Prop} {as bs : List Peer} (h : Rel2 R as bs) :
    ∀ b ∈ bs, ∃ a ∈ as, R a b := by
  induction h with
  | nil => intro a ha; cases ha
  | cons hab _ ih =>
    intro x hx
    rcases List.mem_cons.mp hx with rfl | hx'
    · exact ⟨_, List.mem_cons_self, hab⟩
    · obtain ⟨b, hb, hr⟩ := ih x hx'
      exact ⟨b, List.mem_cons_of_mem _ hb, hr⟩

theorem Rel2.map_eq {R : Peer → Peer → Prop} {β : Type} (f : Peer → β) (hR : ∀ a b, R a b → f b = f a)
    {as bs : List Peer} (h : Rel2 R as bs) : bs.map f = as.map f := by
  induction h with
  | nil => rfl
  | cons hab _ ih => simp [hR _ _ hab, ih]

theorem Rel2.imp {R S : Peer → Peer → Prop} (hRS : ∀ a b, R a b → S a b) {as bs : List Peer}
    (h : Rel2 R as bs) : Rel2 S as bs := by
  induction h with
  | nil => exact .nil
  | cons hab _ ih => exact .cons (hRS _ _ hab) ih

theorem sorted_iff_map (ps : List Peer) : Sorted ps ↔ (ps.map (·.dist)).Pairwise (· < ·) := by
  unfold Sorted; rw [List.pairwise_map]


/-! ### lookup / modifyAt -/

theorem lookup_some {d : Nat} {ps : List Peer} {e : Peer} (h : lookup d ps = some e) :
    e ∈ ps ∧ e.dist = d := by
  induction ps with
  | nil => simp [lookup] at h
  | cons x xs ih =>
    unfold lookup at h
    by_cases hx : x.dist = d
    · rw [if_pos hx] at h
      cases h
      exact ⟨List.mem_cons_self, hx⟩
    · rw [if_neg hx] at h
      exact ⟨List.mem_cons_of_mem _ (ih h).1, (ih h).2⟩

theorem lookup_none {d : Nat} {ps : List Peer} (h : lookup d ps = none) :
    ∀ e ∈ ps, e.dist ≠ d := by
  induction ps with
  | nil => intro e he; cases he
  | cons x xs ih =>
    unfold lookup at h
    by_cases hx : x.dist = d
    · rw [if_pos hx] at h; cases h
    · rw [if_neg hx] at h
      intro e he
      rcases List.mem_cons.mp he with rfl | he'
      · exact hx
      · exact ih h e he'

/-- The relation between a list and its `modifyAt` image. -/
def ModR (d : Nat) (f : Peer → Peer) (a b : Peer) : Prop := b = a ∨ (a.dist = d ∧ b = f a)

theorem modifyAt_rel (d : Nat) (f : Peer → Peer) : ∀ ps, Rel2 (ModR d f) ps (modifyAt d f ps)
  | [] => .nil
  | x :: xs => by
    unfold modifyAt
    by_cases hx : x.dist = d
    · rw [if_pos hx]
      exact .cons (Or.inr ⟨hx, rfl⟩) (Rel2.refl (fun a => Or.inl rfl) xs)
    · rw [if_neg hx]
      exact .cons (Or.inl rfl) (modifyAt_rel d f xs)

theorem modifyAt_length (d : Nat) (f : Peer → Peer) : ∀ ps, (modifyAt d f ps).length = ps.length
  | [] => rfl
  | x :: xs => by
    unfold modifyAt
    by_cases hx : x.dist = d
    · rw [if_pos hx]; simp
    · rw [if_neg hx]; simp [modifyAt_length d f xs]

/-- `modifyAt` on the entry found by `lookup`: the image of that entry is in the new list. -/
theorem modifyAt_mem_image {d : Nat} {f : Peer → Peer} {ps : List Peer} {e : Peer}
    (h : lookup d ps = some e) : f e ∈ modifyAt d f ps := by
  induction ps with
  | nil => simp [lookup] at h
  | cons x xs ih =>
    unfold lookup at h
    unfold modifyAt
    by_cases hx : x.dist = d
    · rw [if_pos hx] at h; cases h
      rw [if_pos hx]; exact List.mem_cons_self
    · rw [if_neg hx] at h
      rw [if_neg hx]; exact List.mem_cons_of_mem _ (ih h)

/-- Number of `Waiting` peers after changing the looked-up entry. -/
theorem countW_modifyAt {d : Nat} {f : Peer → Peer} {ps : List Peer} {e : Peer}
    (h : lookup d ps = some e) :
    countW (modifyAt d f ps) + (if e.state.isWaiting then 1 else 0)
      = countW ps + (if (f e).state.isWaiting then 1 else 0) := by
  induction ps with
  | nil => simp [lookup] at h
  | cons x xs ih =>
    unfold lookup at h
    unfold modifyAt
    by_cases hx : x.dist = d
    · rw [if_pos hx] at h; cases h
      rw [if_pos hx]
      simp only [countW, List.countP_cons]
      omega
    · rw [if_neg hx] at h
      rw [if_neg hx]
      have := ih h
      simp only [countW, List.countP_cons] at this ⊢
      omega

/-! ### insertOr / insertRepl -/

theorem mem_insertOr {p x : Peer} : ∀ {ps : List Peer}, x ∈ insertOr p ps → x = p ∨ x ∈ ps
  | [], h => by simp [insertOr] at h; exact Or.inl h
  | e :: es, h => by
    unfold insertOr at h
    by_cases h1 : p.dist < e.dist
    · rw [if_pos h1] at h
      rcases List.mem_cons.mp h with rfl | h'
      · exact Or.inl rfl
      · exact Or.inr h'
    · rw [if_neg h1] at h
      by_cases h2 : p.dist = e.dist
      · rw [if_pos h2] at h; exact Or.inr h
      · rw [if_neg h2] at h
        rcases List.mem_cons.mp h with rfl | h'
        · exact Or.inr List.mem_cons_self
        · rcases mem_insertOr h' with rfl | h''
          · exact Or.inl rfl
          · exact Or.inr (List.mem_cons_of_mem _ h'')

theorem mem_insertOr_of_mem {p x : Peer} : ∀ {ps : List Peer}, x ∈ ps → x ∈ insertOr p ps
  | [], h => by cases h
  | e :: es, h => by
    unfold insertOr
    by_cases h1 : p.dist < e.dist
    · rw [if_pos h1]; exact List.mem_cons_of_mem _ h
    · rw [if_neg h1]
      by_cases h2 : p.dist = e.dist
      · rw [if_pos h2]; exact h
      · rw [if_neg h2]
        rcases List.mem_cons.mp h with rfl | h'
        · exact List.mem_cons_self
        · exact List.mem_cons_of_mem _ (mem_insertOr_of_mem h')

theorem sorted_insertOr {p : Peer} : ∀ {ps : List Peer}, Sorted ps → Sorted (insertOr p ps)
  | [], _ => by simp [insertOr, Sorted]
  | e :: es, h => by
    have hc := List.pairwise_cons.mp h
    unfold insertOr
    by_cases h1 : p.dist < e.dist
    · rw [if_pos h1]
      refine List.pairwise_cons.mpr ⟨?_, h⟩
      intro a ha
      rcases List.mem_cons.mp ha with rfl | ha'
      · exact h1
      · have := hc.1 a ha'; omega
    · rw [if_neg h1]
      by_cases h2 : p.dist = e.dist
      · rw [if_pos h2]; exact h
      · rw [if_neg h2]
        refine List.pairwise_cons.mpr ⟨?_, sorted_insertOr hc.2⟩
        intro a ha
        rcases mem_insertOr ha with rfl | ha'
        · omega
        · exact hc.1 a ha'

theorem countW_insertOr {p : Peer} (hp : p.state.isWaiting = false) :
    ∀ ps : List Peer, countW (insertOr p ps) = countW ps
  | [] => by simp [insertOr, countW, hp]
  | e :: es => by
    unfold insertOr
    by_cases h1 : p.dist < e.dist
    · rw [if_pos h1]; simp [countW, List.countP_cons, hp]
    · rw [if_neg h1]
      by_cases h2 : p.dist = e.dist
      · rw [if_pos h2]
      · rw [if_neg h2]
        have := countW_insertOr hp es
        simp only [countW, List.countP_cons] at this ⊢
        omega

theorem length_insertOr (p : Peer) : ∀ ps : List Peer,
    ps.length ≤ (insertOr p ps).length ∧ (insertOr p ps).length ≤ ps.length + 1
  | [] => by simp [insertOr]
  | e :: es => by
    unfold insertOr
    by_cases h1 : p.dist < e.dist
    · rw [if_pos h1]; simp
    · rw [if_neg h1]
      by_cases h2 : p.dist = e.dist
      · rw [if_pos h2]; simp
      · rw [if_neg h2]
        have := length_insertOr p es
        simp only [List.length_cons]; omega

theorem mem_insertRepl {p x : Peer} : ∀ {ps : List Peer}, x ∈ insertRepl p ps → x = p ∨ x ∈ ps
  | [], h => by simp [insertRepl] at h; exact Or.inl h
  | e :: es, h => by
    unfold insertRepl at h
    by_cases h1 : p.dist < e.dist
    · rw [if_pos h1] at h
      rcases List.mem_cons.mp h with rfl | h'
      · exact Or.inl rfl
      · exact Or.inr h'
    · rw [if_neg h1] at h
      by_cases h2 : p.dist = e.dist
      · rw [if_pos h2] at h
        rcases List.mem_cons.mp h with rfl | h'
        · exact Or.inl rfl
        · exact Or.inr (List.mem_cons_of_mem _ h')
      · rw [if_neg h2] at h
        rcases List.mem_cons.mp h with rfl | h'
        · exact Or.inr List.mem_cons_self
        · rcases mem_insertRepl h' with rfl | h''
          · exact Or.inl rfl
          · exact Or.inr (List.mem_cons_of_mem _ h'')

theorem sorted_insertRepl {p : Peer} : ∀ {ps : List Peer}, Sorted ps → Sorted (insertRepl p ps)
  | [], _ => by simp [insertRepl, Sorted]
  | e :: es, h => by
    have hc := List.pairwise_cons.mp h
    unfold insertRepl
    by_cases h1 : p.dist < e.dist
    · rw [if_pos h1]
      refine List.pairwise_cons.mpr ⟨?_, h⟩
      intro a ha
      rcases List.mem_cons.mp ha with rfl | ha'
      · exact h1
      · have := hc.1 a ha'; omega
    · rw [if_neg h1]
      by_cases h2 : p.dist = e.dist
      · rw [if_pos h2]
        refine List.pairwise_cons.mpr ⟨?_, hc.2⟩
        intro a ha
        have := hc.1 a ha; omega
      · rw [if_neg h2]
        refine List.pairwise_cons.mpr ⟨?_, sorted_insertRepl hc.2⟩
        intro a ha
        rcases mem_insertRepl ha with rfl | ha'
        · omega
        · exact hc.1 a ha'


/-! ### the loop of `next` -/

/-- What the loop of `next` may do to one entry. -/
def NextR (now pto : Nat) (out : LoopOut) (a b : Peer) : Prop :=
  b = a ∨ (a.state = .notContacted ∧ b = { a with state := .waiting (now + pto) } ∧ out = .emit a.key)
    ∨ (∃ t, a.state = .waiting t ∧ t ≤ now ∧ b = { a with state := .unresponsive })

theorem nextLoop_rel (v : Variant) (cfg : Config) (now : Nat) (cap : Bool) :
    ∀ (ps : List Peer) (rc : Option Nat) (nw : Nat),
      Rel2 (NextR now cfg.peerTimeout (nextLoop v cfg now cap ps rc nw).out) ps
        (nextLoop v cfg now cap ps rc nw).peers
  | [], rc, nw => by simp [nextLoop]; exact .nil
  | p :: ps, rc, nw => by
    have hrefl : ∀ o, ∀ l : List Peer, Rel2 (NextR now cfg.peerTimeout o) l l :=
      fun o l => Rel2.refl (fun a => Or.inl rfl) l
    unfold nextLoop
    split
    · -- notContacted
      rename_i hs
      by_cases hc : (!cap) = true
      · rw [if_pos hc]
        exact .cons (Or.inr (Or.inl ⟨hs, rfl, rfl⟩)) (hrefl _ _)
      · rw [if_neg hc]
        exact hrefl _ _
    · -- waiting t
      rename_i t hs
      by_cases ht : now ≥ t
      · rw [if_pos ht]
        exact .cons (Or.inr (Or.inr ⟨t, hs, ht, rfl⟩)) (nextLoop_rel v cfg now cap ps rc (nw - 1))
      · rw [if_neg ht]
        by_cases hc : cap = true
        · rw [if_pos hc]; exact hrefl _ _
        · rw [if_neg hc]
          exact .cons (Or.inl rfl) (nextLoop_rel v cfg now cap ps _ nw)
    · -- succeeded
      split
      · by_cases hcn : counts v p = true
        · rw [if_pos hcn]
          rename_i c
          by_cases hge : c + 1 ≥ cfg.numResults
          · rw [if_pos hge]; exact hrefl _ _
          · rw [if_neg hge]
            exact .cons (Or.inl rfl) (nextLoop_rel v cfg now cap ps _ nw)
        · rw [if_neg hcn]
          exact .cons (Or.inl rfl) (nextLoop_rel v cfg now cap ps _ nw)
      · exact .cons (Or.inl rfl) (nextLoop_rel v cfg now cap ps _ nw)
    · exact .cons (Or.inl rfl) (nextLoop_rel v cfg now cap ps _ nw)
    · exact .cons (Or.inl rfl) (nextLoop_rel v cfg now cap ps _ nw)

def resCount (v : Variant) (ps : List Peer) : Nat := (ps.filterMap (resultKey v)).length

theorem resCount_cons (v : Variant) (p : Peer) (ps : List Peer) :
    resCount v (p :: ps) = (if p.state.isSucceeded && counts v p then 1 else 0) + resCount v ps := by
  unfold resCount
  rw [List.filterMap_cons]
  unfold resultKey
  by_cases h : (p.state.isSucceeded && counts v p) = true
  · simp [h]; omega
  · simp [h]

/-- Facts about how the loop ended. -/
theorem nextLoop_out (v : Variant) (cfg : Config) (now : Nat) (cap : Bool) :
    ∀ (ps : List Peer) (rc : Option Nat) (nw : Nat),
      (∀ k, (nextLoop v cfg now cap ps rc nw).out = .emit k →
          cap = false ∧ ∃ e ∈ ps, e.key = k ∧ e.state = .notContacted ∧
            ({ e with state := .waiting (now + cfg.peerTimeout) } : Peer) ∈ (nextLoop v cfg now cap ps rc nw).peers) ∧
      ((nextLoop v cfg now cap ps rc nw).out = .done →
          ∀ e ∈ (nextLoop v cfg now cap ps rc nw).peers, e.state ≠ .notContacted) ∧
      ((nextLoop v cfg now cap ps rc nw).out = .fin →
          ∃ c, rc = some c ∧ cfg.numResults ≤ c + resCount v (nextLoop v cfg now cap ps rc nw).peers) ∧
      ((nextLoop v cfg now cap ps rc nw).out = .atCap → cap = true)
  | [], rc, nw => by
    simp [nextLoop]
  | p :: ps, rc, nw => by
    -- lifting the facts of the recursive call over an unchanged / expired head
    have lift : ∀ (p' : Peer) (rc' : Option Nat) (nw' : Nat), p'.key = p.key → p'.state ≠ .notContacted →
        (rc' = rc ∨ (∃ c, rc = some c ∧ rc' = some (c + 1) ∧ p'.state.isSucceeded = true ∧ counts v p' = true)) →
        let r := nextLoop v cfg now cap ps rc' nw'
        (∀ k, r.out = .emit k → cap = false ∧ ∃ e ∈ p :: ps, e.key = k ∧ e.state = .notContacted ∧
            ({ e with state := .waiting (now + cfg.peerTimeout) } : Peer) ∈ p' :: r.peers) ∧
        (r.out = .done → ∀ e ∈ p' :: r.peers, e.state ≠ .notContacted) ∧
        (r.out = .fin → ∃ c, rc = some c ∧ cfg.numResults ≤ c + resCount v (p' :: r.peers)) ∧
        (r.out = .atCap → cap = true) := by
      intro p' rc' nw' _ hnc hrc
      have ih := nextLoop_out v cfg now cap ps rc' nw'
      refine ⟨?_, ?_, ?_, ih.2.2.2⟩
      · intro k hk
        obtain ⟨hcap, e, he, h1, h2, h3⟩ := ih.1 k hk
        exact ⟨hcap, e, List.mem_cons_of_mem _ he, h1, h2, List.mem_cons_of_mem _ h3⟩
      · intro hd e he
        rcases List.mem_cons.mp he with rfl | he'
        · exact hnc
        · exact ih.2.1 hd e he'
      · intro hf
        obtain ⟨c, hc, hle⟩ := ih.2.2.1 hf
        rcases hrc with rfl | ⟨c0, h0, h1, hs, hcn⟩
        · refine ⟨c, hc, ?_⟩
          rw [resCount_cons]; omega
        · refine ⟨c0, h0, ?_⟩
          rw [resCount_cons, hs, hcn]
          rw [h1] at hc; cases hc
          simp; omega
    unfold nextLoop
    split
    · rename_i hs
      by_cases hc : (!cap) = true
      · rw [if_pos hc]
        refine ⟨?_, by simp, by simp, by simp⟩
        intro k hk
        simp at hk
        refine ⟨by simpa using hc, p, List.mem_cons_self, hk, hs, List.mem_cons_self⟩
      · rw [if_neg hc]
        refine ⟨by simp, by simp, by simp, ?_⟩
        intro _; simpa using hc
    · rename_i t hs
      by_cases ht : now ≥ t
      · rw [if_pos ht]
        exact lift { p with state := .unresponsive } rc (nw - 1) rfl (by simp) (Or.inl rfl)
      · rw [if_neg ht]
        by_cases hc : cap = true
        · rw [if_pos hc]
          exact ⟨by simp, by simp, by simp, fun _ => hc⟩
        · rw [if_neg hc]
          by_cases hcn : counts v p = true
          · rw [if_pos hcn]
            have ih := nextLoop_out v cfg now cap ps none nw
            refine ⟨?_, ?_, ?_, ih.2.2.2⟩
            · intro k hk
              obtain ⟨hcap, e, he, h1, h2, h3⟩ := ih.1 k hk
              exact ⟨hcap, e, List.mem_cons_of_mem _ he, h1, h2, List.mem_cons_of_mem _ h3⟩
            · intro hd e he
              rcases List.mem_cons.mp he with rfl | he'
              · rw [hs]; simp
              · exact ih.2.1 hd e he'
            · intro hf
              obtain ⟨c, hc', _⟩ := ih.2.2.1 hf
              cases hc'
          · rw [if_neg hcn]
            exact lift p rc nw rfl (by rw [hs]; simp) (Or.inl rfl)
    · rename_i hs
      split
      · rename_i c
        by_cases hcn : counts v p = true
        · rw [if_pos hcn]
          by_cases hge : c + 1 ≥ cfg.numResults
          · rw [if_pos hge]
            refine ⟨by simp, by simp, ?_, by simp⟩
            intro _
            refine ⟨c, rfl, ?_⟩
            rw [resCount_cons, hs, hcn]; simp [PState.isSucceeded]; omega
          · rw [if_neg hge]
            exact lift p (some (c + 1)) nw rfl (by rw [hs]; simp)
              (Or.inr ⟨c, rfl, rfl, by rw [hs]; rfl, hcn⟩)
        · rw [if_neg hcn]
          exact lift p (some c) nw rfl (by rw [hs]; simp) (Or.inl rfl)
      · exact lift p none nw rfl (by rw [hs]; simp) (Or.inl rfl)
    · rename_i hs
      exact lift p rc nw rfl (by rw [hs]; simp) (Or.inl rfl)
    · rename_i hs
      exact lift p rc nw rfl (by rw [hs]; simp) (Or.inl rfl)

theorem nextLoop_count (v : Variant) (cfg : Config) (now : Nat) (cap : Bool) (c : Nat) :
    ∀ (ps : List Peer) (rc : Option Nat) (nw : Nat), nw = c + countW ps →
      (nextLoop v cfg now cap ps rc nw).nw = c + countW (nextLoop v cfg now cap ps rc nw).peers
  | [], rc, nw, h => by simpa [nextLoop, countW] using h
  | p :: ps, rc, nw, h => by
    unfold nextLoop
    split
    · rename_i hs
      by_cases hc : (!cap) = true
      · rw [if_pos hc]
        simp only [countW, List.countP_cons, hs, PState.isWaiting] at h ⊢
        simp at h ⊢; omega
      · rw [if_neg hc]; exact h
    · rename_i t hs
      have hw : countW (p :: ps) = countW ps + 1 := by
        simp [countW, List.countP_cons, hs, PState.isWaiting]
      by_cases ht : now ≥ t
      · rw [if_pos ht]
        have := nextLoop_count v cfg now cap c ps rc (nw - 1) (by omega)
        simp only [countW, List.countP_cons, PState.isWaiting] at this ⊢
        simpa using this
      · rw [if_neg ht]
        by_cases hc : cap = true
        · rw [if_pos hc]; exact h
        · rw [if_neg hc]
          have := nextLoop_count v cfg now cap (c + 1) ps (if counts v p then none else rc) nw (by omega)
          simp only [countW, List.countP_cons, hs, PState.isWaiting] at this ⊢
          simp at this ⊢; omega
    · rename_i hs
      have hw : countW (p :: ps) = countW ps := by
        simp [countW, List.countP_cons, hs, PState.isWaiting]
      have key : ∀ rc', (nextLoop v cfg now cap ps rc' nw).nw
          = c + countW (p :: (nextLoop v cfg now cap ps rc' nw).peers) := by
        intro rc'
        have := nextLoop_count v cfg now cap c ps rc' nw (by omega)
        simp only [countW, List.countP_cons, hs, PState.isWaiting] at this ⊢
        simpa using this
      split
      · by_cases hcn : counts v p = true
        · rw [if_pos hcn]
          rename_i c'
          by_cases hge : c' + 1 ≥ cfg.numResults
          · rw [if_pos hge]; exact h
          · rw [if_neg hge]; exact key _
        · rw [if_neg hcn]; exact key _
      · exact key _
    · rename_i hs
      have hw : countW (p :: ps) = countW ps := by
        simp [countW, List.countP_cons, hs, PState.isWaiting]
      have := nextLoop_count v cfg now cap c ps rc nw (by omega)
      simp only [countW, List.countP_cons, hs, PState.isWaiting] at this ⊢
      simpa using this
    · rename_i hs
      have hw : countW (p :: ps) = countW ps := by
        simp [countW, List.countP_cons, hs, PState.isWaiting]
      have := nextLoop_count v cfg now cap c ps rc nw (by omega)
      simp only [countW, List.countP_cons, hs, PState.isWaiting] at this ⊢
      simpa using this

theorem nextLoop_nw_le (v : Variant) (cfg : Config) (now : Nat) (cap : Bool) :
    ∀ (ps : List Peer) (rc : Option Nat) (nw : Nat),
      (nextLoop v cfg now cap ps rc nw).nw ≤ nw + 1 ∧
      ((∀ k, (nextLoop v cfg now cap ps rc nw).out ≠ .emit k) → (nextLoop v cfg now cap ps rc nw).nw ≤ nw)
  | [], rc, nw => by simp [nextLoop]
  | p :: ps, rc, nw => by
    have lift : ∀ (rc' : Option Nat) (nw' : Nat), nw' ≤ nw →
        let r := nextLoop v cfg now cap ps rc' nw'
        r.nw ≤ nw + 1 ∧ ((∀ k, r.out ≠ .emit k) → r.nw ≤ nw) := by
      intro rc' nw' hle
      have ih := nextLoop_nw_le v cfg now cap ps rc' nw'
      refine ⟨by have := ih.1; omega, fun h => by have := ih.2 h; omega⟩
    unfold nextLoop
    split
    · by_cases hc : (!cap) = true
      · rw [if_pos hc]; simp
      · rw [if_neg hc]; simp
    · rename_i t hs
      by_cases ht : now ≥ t
      · rw [if_pos ht]; exact lift rc (nw - 1) (by omega)
      · rw [if_neg ht]
        by_cases hc : cap = true
        · rw [if_pos hc]; simp
        · rw [if_neg hc]; exact lift _ nw (by omega)
    · split
      · rename_i c
        by_cases hcn : counts v p = true
        · rw [if_pos hcn]
          by_cases hge : c + 1 ≥ cfg.numResults
          · rw [if_pos hge]; simp
          · rw [if_neg hge]; exact lift _ nw (by omega)
        · rw [if_neg hcn]; exact lift _ nw (by omega)
      · exact lift _ nw (by omega)
    · exact lift _ nw (by omega)
    · exact lift _ nw (by omega)

/-! ### incorporate -/

theorem incorporate_spec (t nr nc : Nat) : ∀ (closer : List (Nat × Bool)) (acc : List Peer × Bool),
    Sorted acc.1 →
    Sorted (incorporate t nr nc closer acc).1 ∧
    (∀ x ∈ acc.1, x ∈ (incorporate t nr nc closer acc).1) ∧
    (∀ x ∈ (incorporate t nr nc closer acc).1, x ∈ acc.1 ∨ ∃ km ∈ closer, x = mkPeer t km.1 km.2) ∧
    countW (incorporate t nr nc closer acc).1 = countW acc.1 ∧
    acc.1.length ≤ (incorporate t nr nc closer acc).1.length ∧
    (incorporate t nr nc closer acc).1.length ≤ acc.1.length + closer.length
  | [], acc, hs => by simp [incorporate, hs]
  | km :: rest, acc, hs => by
    unfold incorporate
    have ih := incorporate_spec t nr nc rest
      (insertOr (mkPeer t km.1 km.2) acc.1,
        ((insertOr (mkPeer t km.1 km.2) acc.1).head?.map (·.dist)) == some (km.1 ^^^ t) || decide (nc < nr))
      (sorted_insertOr hs)
    dsimp only at ih ⊢
    obtain ⟨h1, h2, h3, h4, h5, h6⟩ := ih
    refine ⟨h1, ?_, ?_, ?_, ?_, ?_⟩
    · intro x hx; exact h2 x (mem_insertOr_of_mem hx)
    · intro x hx
      rcases h3 x hx with h | ⟨km', hk, rfl⟩
      · rcases mem_insertOr h with rfl | h'
        · exact Or.inr ⟨km, List.mem_cons_self, rfl⟩
        · exact Or.inl h'
      · exact Or.inr ⟨km', List.mem_cons_of_mem _ hk, rfl⟩
    · rw [h4]; exact countW_insertOr (by simp [mkPeer, PState.isWaiting]) _
    · have := (length_insertOr (mkPeer t km.1 km.2) acc.1).1
      omega
    · have := (length_insertOr (mkPeer t km.1 km.2) acc.1).2
      simp only [List.length_cons] at h6 ⊢; omega


/-! ### the ledger invariant -/

/-- The invariant of a query together with its ledger. -/
structure LInv (s : Led) : Prop where
  sorted : Sorted s.q.peers
  distOk : DistOk s.q.target s.q.peers
  wc : s.q.numWaiting = countW s.q.peers
  em : ∀ k ∈ s.emitted, ∃ e ∈ s.q.peers, e.key = k ∧ e.state ≠ .notContacted
  con : ∀ e ∈ s.q.peers, e.state ≠ .notContacted → e.key ∈ s.emitted
  nd : s.emitted.Nodup
  ans : ∀ e ∈ s.q.peers, e.state = .succeeded → e.key ∈ s.answered
  rep : ∀ e ∈ s.q.peers, (e.key, e.pmatch) ∈ s.reported
  fin : s.q.progress = .finished →
    (∀ e ∈ s.q.peers, e.state ≠ .notContacted) ∨ s.q.cfg.numResults ≤ resCount s.q.variant s.q.peers
  bnd : s.q.numWaiting ≤ max s.q.cfg.parallelism s.q.cfg.numResults

theorem isFinished_false {p : Progress} (h : p.isFinished = false) : p ≠ .finished := by
  intro hp; rw [hp] at h; simp [Progress.isFinished] at h

theorem isFinished_true {p : Progress} (h : p.isFinished = true) : p = .finished := by
  cases p <;> simp [Progress.isFinished] at h ⊢

theorem nextR_key {now pto : Nat} {o : LoopOut} {a b : Peer} (h : NextR now pto o a b) :
    b.key = a.key ∧ b.dist = a.dist ∧ b.pmatch = a.pmatch := by
  rcases h with rfl | ⟨_, rfl, _⟩ | ⟨t, _, _, rfl⟩ <;> simp

theorem atCapacity_false {q : Q} (h : atCapacity q = false) :
    q.numWaiting < max q.cfg.parallelism q.cfg.numResults := by
  unfold atCapacity at h
  cases hp : q.progress with
  | iterating n => rw [hp] at h; simp at h; omega
  | stalled => rw [hp] at h; simp at h; omega
  | finished => rw [hp] at h; simp at h

theorem linv_next {s : Led} (h : LInv s) (now : Nat) : LInv (stepL s (.next now)) := by
  by_cases hf : s.q.progress.isFinished = true
  · have e1 : stepL s (.next now) = s := by
      simp [stepL, stepQ, next, hf, emittedOf]
    rw [e1]; exact h
  · have hf' : s.q.progress.isFinished = false := by simpa using hf
    have hnf := isFinished_false hf'
    let L := nextLoop s.q.variant s.q.cfg now (atCapacity s.q) s.q.peers (some 0) s.q.numWaiting
    have hrel : Rel2 (NextR now s.q.cfg.peerTimeout L.out) s.q.peers L.peers := nextLoop_rel _ _ _ _ _ _ _
    have hout := nextLoop_out s.q.variant s.q.cfg now (atCapacity s.q) s.q.peers (some 0) s.q.numWaiting
    have hcnt : L.nw = 0 + countW L.peers :=
      nextLoop_count _ _ _ _ 0 _ _ _ (by rw [h.wc]; omega)
    have hnw : L.nw ≤ s.q.numWaiting + 1 ∧ ((∀ k, L.out ≠ .emit k) → L.nw ≤ s.q.numWaiting) :=
      nextLoop_nw_le s.q.variant s.q.cfg now (atCapacity s.q) s.q.peers (some 0) s.q.numWaiting
    -- facts about the new peer list that do not depend on how the loop ended
    have hsorted : Sorted L.peers := by
      rw [sorted_iff_map, Rel2.map_eq (·.dist) (fun a b hab => (nextR_key hab).2.1) hrel, ← sorted_iff_map]
      exact h.sorted
    have hdist : DistOk s.q.target L.peers := by
      intro b hb
      obtain ⟨a, ha, hab⟩ := hrel.bwd b hb
      rw [(nextR_key hab).1, (nextR_key hab).2.1]; exact h.distOk a ha
    have hem : ∀ k ∈ s.emitted, ∃ e ∈ L.peers, e.key = k ∧ e.state ≠ .notContacted := by
      intro k hk
      obtain ⟨a, ha, hak, hast⟩ := h.em k hk
      obtain ⟨b, hb, hab⟩ := hrel.fwd a ha
      refine ⟨b, hb, by rw [(nextR_key hab).1, hak], ?_⟩
      rcases hab with rfl | ⟨_, rfl, _⟩ | ⟨t, _, _, rfl⟩
      · exact hast
      · simp
      · simp
    have hans : ∀ e ∈ L.peers, e.state = .succeeded → e.key ∈ s.answered := by
      intro b hb hbs
      obtain ⟨a, ha, hab⟩ := hrel.bwd b hb
      rcases hab with rfl | ⟨_, rfl, _⟩ | ⟨t, _, _, rfl⟩
      · exact h.ans _ ha hbs
      · simp at hbs
      · simp at hbs
    have hrep : ∀ e ∈ L.peers, (e.key, e.pmatch) ∈ s.reported := by
      intro b hb
      obtain ⟨a, ha, hab⟩ := hrel.bwd b hb
      rw [(nextR_key hab).1, (nextR_key hab).2.2]; exact h.rep a ha
    have hcon : ∀ e ∈ L.peers, e.state ≠ .notContacted →
        e.key ∈ s.emitted ∨ L.out = .emit e.key := by
      intro b hb hbs
      obtain ⟨a, ha, hab⟩ := hrel.bwd b hb
      rcases hab with rfl | ⟨_, rfl, ho⟩ | ⟨t, hat, _, rfl⟩
      · exact Or.inl (h.con _ ha hbs)
      · exact Or.inr ho
      · exact Or.inl (h.con a ha (by rw [hat]; simp))
    have hwc : L.nw = countW L.peers := by omega
    cases hL : L.out with
    | emit k =>
      have e1 : stepL s (.next now) =
          { q := { s.q with peers := L.peers, numWaiting := L.nw }, emitted := k :: s.emitted,
            answered := s.answered, reported := s.reported } := by
        simp [stepL, stepQ, next, hf', finishNext, L, hL, emittedOf]
      rw [e1]
      obtain ⟨hcap, e0, he0, he0k, he0s, he0m⟩ := hout.1 k hL
      refine ⟨hsorted, hdist, hwc, ?_, ?_, ?_, hans, hrep, ?_, ?_⟩
      · intro k' hk'
        rcases List.mem_cons.mp hk' with rfl | hk''
        · exact ⟨_, he0m, he0k, by simp⟩
        · exact hem k' hk''
      · intro b hb hbs
        rcases hcon b hb hbs with h1 | h1
        · exact List.mem_cons_of_mem _ h1
        · rw [hL] at h1; cases h1; exact List.mem_cons_self
      · refine List.nodup_cons.mpr ⟨?_, h.nd⟩
        intro hk
        obtain ⟨e1, he1, he1k, he1s⟩ := h.em k hk
        have : e0 = e1 := sorted_inj h.sorted he0 he1 (by
          rw [h.distOk e0 he0, h.distOk e1 he1, he0k, he1k])
        rw [← this] at he1s; exact he1s he0s
      · intro hp; exact absurd hp hnf
      · have := atCapacity_false hcap
        have := hnw.1
        show L.nw ≤ max s.q.cfg.parallelism s.q.cfg.numResults
        omega
    | atCap =>
      have e1 : stepL s (.next now) =
          { q := { s.q with peers := L.peers, numWaiting := L.nw }, emitted := s.emitted,
            answered := s.answered, reported := s.reported } := by
        simp [stepL, stepQ, next, hf', finishNext, L, hL, emittedOf]
      rw [e1]
      refine ⟨hsorted, hdist, hwc, hem, ?_, h.nd, hans, hrep, ?_, ?_⟩
      · intro b hb hbs
        rcases hcon b hb hbs with h1 | h1
        · exact h1
        · rw [hL] at h1; cases h1
      · intro hp; exact absurd hp hnf
      · have := hnw.2 (by intro k hk; rw [hL] at hk; cases hk)
        have := h.bnd
        show L.nw ≤ max s.q.cfg.parallelism s.q.cfg.numResults
        omega
    | fin =>
      have e1 : stepL s (.next now) =
          { q := { s.q with peers := L.peers, numWaiting := L.nw, progress := .finished },
            emitted := s.emitted, answered := s.answered, reported := s.reported } := by
        simp [stepL, stepQ, next, hf', finishNext, L, hL, emittedOf]
      rw [e1]
      refine ⟨hsorted, hdist, hwc, hem, ?_, h.nd, hans, hrep, ?_, ?_⟩
      · intro b hb hbs
        rcases hcon b hb hbs with h1 | h1
        · exact h1
        · rw [hL] at h1; cases h1
      · intro _
        obtain ⟨c, hc, hle⟩ := hout.2.2.1 hL
        cases hc
        exact Or.inr (by simpa using hle)
      · have := hnw.2 (by intro k hk; rw [hL] at hk; cases hk)
        have := h.bnd
        show L.nw ≤ max s.q.cfg.parallelism s.q.cfg.numResults
        omega
    | done =>
      have hcon' : ∀ e ∈ L.peers, e.state ≠ .notContacted → e.key ∈ s.emitted := by
        intro b hb hbs
        rcases hcon b hb hbs with h1 | h1
        · exact h1
        · rw [hL] at h1; cases h1
      have hb' : L.nw ≤ max s.q.cfg.parallelism s.q.cfg.numResults := by
        have := hnw.2 (by intro k hk; rw [hL] at hk; cases hk)
        have := h.bnd
        omega
      by_cases hz : L.nw > 0
      · have e1 : stepL s (.next now) =
            { q := { s.q with peers := L.peers, numWaiting := L.nw }, emitted := s.emitted,
              answered := s.answered, reported := s.reported } := by
          simp [stepL, stepQ, next, hf', finishNext, L, hL, emittedOf, hz]
        rw [e1]
        exact ⟨hsorted, hdist, hwc, hem, hcon', h.nd, hans, hrep, fun hp => absurd hp hnf, hb'⟩
      · have e1 : stepL s (.next now) =
            { q := { s.q with peers := L.peers, numWaiting := L.nw, progress := .finished },
              emitted := s.emitted, answered := s.answered, reported := s.reported } := by
          simp [stepL, stepQ, next, hf', finishNext, L, hL, emittedOf, hz]
        rw [e1]
        exact ⟨hsorted, hdist, hwc, hem, hcon', h.nd, hans, hrep,
          fun _ => Or.inl (hout.2.1 hL), hb'⟩


theorem updateProgress_ne_finished (cfg : Config) {p : Progress} (b : Bool) (h : p ≠ .finished) :
    updateProgress cfg p b ≠ .finished := by
  unfold updateProgress
  cases p with
  | iterating n =>
    simp only
    by_cases h1 : (if b = true then 0 else n + 1) ≥ cfg.parallelism
    · rw [if_pos h1]; simp
    · rw [if_neg h1]; simp
  | stalled => cases b <;> simp
  | finished => exact absurd rfl h

/-- Enlarging the `answered` / `reported` ledgers keeps the invariant. -/
theorem LInv.mono {s : Led} (h : LInv s) (a : List Nat) (r : List (Nat × Bool))
    (ha : ∀ x ∈ s.answered, x ∈ a) (hr : ∀ x ∈ s.reported, x ∈ r) :
    LInv { s with answered := a, reported := r } :=
  ⟨h.sorted, h.distOk, h.wc, h.em, h.con, h.nd, fun e he hs => ha _ (h.ans e he hs),
    fun e he => hr _ (h.rep e he), h.fin, h.bnd⟩

theorem modR_succ_key {d n : Nat} {a b : Peer} (h : ModR d (markSucceeded n) a b) :
    b.key = a.key ∧ b.dist = a.dist ∧ b.pmatch = a.pmatch := by
  rcases h with rfl | ⟨_, rfl⟩ <;> simp [markSucceeded]

theorem modR_fail_key {d : Nat} {a b : Peer} (h : ModR d markFailed a b) :
    b.key = a.key ∧ b.dist = a.dist ∧ b.pmatch = a.pmatch := by
  rcases h with rfl | ⟨_, rfl⟩ <;> simp [markFailed]

/-- The effective branch of `on_success`: `q0` is `q` with `num_waiting` already adjusted. -/
theorem linv_finishSuccess {s : Led} (h : LInv s) (p : Nat) (closer : List (Nat × Bool)) (e : Peer)
    (hl : lookup (p ^^^ s.q.target) s.q.peers = some e) (hne : s.q.progress ≠ .finished)
    (nw' : Nat)
    (hst : (∃ t, e.state = .waiting t ∧ nw' = s.q.numWaiting - 1) ∨
           (e.state = .unresponsive ∧ nw' = s.q.numWaiting)) :
    LInv { q := finishSuccess { s.q with numWaiting := nw' } (p ^^^ s.q.target) closer,
           emitted := s.emitted,
           answered := (if p ∈ s.emitted then p :: s.answered else s.answered),
           reported := closer ++ s.reported } := by
  obtain ⟨hemem, hed⟩ := lookup_some hl
  have hekey : e.key = p := xor_cancel (by rw [← h.distOk e hemem]; exact hed)
  have hencs : e.state ≠ .notContacted := by
    rcases hst with ⟨t, ht, _⟩ | ⟨hu, _⟩
    · rw [ht]; simp
    · rw [hu]; simp
  have hpem : p ∈ s.emitted := by rw [← hekey]; exact h.con e hemem hencs
  let d := p ^^^ s.q.target
  let ps1 := modifyAt d (markSucceeded closer.length) s.q.peers
  have hrel : Rel2 (ModR d (markSucceeded closer.length)) s.q.peers ps1 := modifyAt_rel _ _ _
  have hs1 : Sorted ps1 := by
    rw [sorted_iff_map, Rel2.map_eq (·.dist) (fun a b hab => (modR_succ_key hab).2.1) hrel, ← sorted_iff_map]
    exact h.sorted
  have hspec := incorporate_spec s.q.target s.q.cfg.numResults ps1.length closer (ps1, false) hs1
  obtain ⟨i1, i2, i3, i4, _, _⟩ := hspec
  have hc1 : countW ps1 + (if e.state.isWaiting then 1 else 0)
      = countW s.q.peers + (if (markSucceeded closer.length e).state.isWaiting then 1 else 0) :=
    countW_modifyAt (f := markSucceeded closer.length) hl
  have i4' : countW (incorporate s.q.target s.q.cfg.numResults ps1.length closer (ps1, false)).1 = countW ps1 := i4
  have hq : finishSuccess { s.q with numWaiting := nw' } (p ^^^ s.q.target) closer =
      { s.q with numWaiting := nw',
                 peers := (incorporate s.q.target s.q.cfg.numResults ps1.length closer (ps1, false)).1,
                 progress := updateProgress s.q.cfg s.q.progress
                   (incorporate s.q.target s.q.cfg.numResults ps1.length closer (ps1, false)).2 } := rfl
  rw [hq, if_pos hpem]
  refine ⟨i1, ?_, ?_, ?_, ?_, h.nd, ?_, ?_, ?_, ?_⟩
  · -- distOk
    intro x hx
    rcases i3 x hx with hx1 | ⟨km, _, rfl⟩
    · obtain ⟨a, ha, hab⟩ := hrel.bwd x hx1
      rw [(modR_succ_key hab).1, (modR_succ_key hab).2.1]; exact h.distOk a ha
    · rfl
  · -- wc
    show nw' = countW _
    rw [i4']
    have hw := h.wc
    rcases hst with ⟨t, ht, hn⟩ | ⟨hu, hn⟩
    · rw [ht] at hc1; simp [markSucceeded, PState.isWaiting] at hc1
      show nw' = countW ps1
      omega
    · rw [hu] at hc1; simp [markSucceeded, PState.isWaiting] at hc1
      show nw' = countW ps1
      omega
  · -- em
    intro k hk
    obtain ⟨a, ha, hak, has⟩ := h.em k hk
    obtain ⟨b, hb, hab⟩ := hrel.fwd a ha
    refine ⟨b, i2 b hb, by rw [(modR_succ_key hab).1, hak], ?_⟩
    rcases hab with rfl | ⟨_, rfl⟩
    · exact has
    · simp [markSucceeded]
  · -- con
    intro x hx hxs
    rcases i3 x hx with hx1 | ⟨km, _, rfl⟩
    · obtain ⟨a, ha, hab⟩ := hrel.bwd x hx1
      rcases hab with rfl | ⟨had, rfl⟩
      · exact h.con _ ha hxs
      · have : a = e := sorted_inj h.sorted ha hemem (by rw [had, hed])
        show a.key ∈ s.emitted
        rw [this, hekey]; exact hpem
    · simp [mkPeer] at hxs
  · -- ans
    intro x hx hxs
    rcases i3 x hx with hx1 | ⟨km, _, rfl⟩
    · obtain ⟨a, ha, hab⟩ := hrel.bwd x hx1
      rcases hab with rfl | ⟨had, rfl⟩
      · exact List.mem_cons_of_mem _ (h.ans _ ha hxs)
      · have : a = e := sorted_inj h.sorted ha hemem (by rw [had, hed])
        show a.key ∈ p :: s.answered
        rw [this, hekey]; exact List.mem_cons_self
    · simp [mkPeer] at hxs
  · -- rep
    intro x hx
    rcases i3 x hx with hx1 | ⟨km, hkm, rfl⟩
    · obtain ⟨a, ha, hab⟩ := hrel.bwd x hx1
      rw [(modR_succ_key hab).1, (modR_succ_key hab).2.2]
      exact List.mem_append_right _ (h.rep a ha)
    · exact List.mem_append_left _ hkm
  · -- fin
    intro hp
    exact absurd hp (updateProgress_ne_finished _ _ hne)
  · -- bnd
    show nw' ≤ max s.q.cfg.parallelism s.q.cfg.numResults
    have := h.bnd
    rcases hst with ⟨_, _, hn⟩ | ⟨_, hn⟩ <;> omega

theorem linv_success {s : Led} (h : LInv s) (p : Nat) (closer : List (Nat × Bool)) :
    LInv (stepL s (.success p closer)) := by
  have hnoop : LInv (Led.mk s.q s.emitted
      (if p ∈ s.emitted then p :: s.answered else s.answered) (closer ++ s.reported)) := by
    refine h.mono _ _ ?_ (fun x hx => List.mem_append_right _ hx)
    intro x hx
    by_cases hp : p ∈ s.emitted
    · rw [if_pos hp]; exact List.mem_cons_of_mem _ hx
    · rw [if_neg hp]; exact hx
  have hstep : stepL s (.success p closer) = Led.mk (onSuccess s.q p closer) s.emitted
        (if p ∈ s.emitted then p :: s.answered else s.answered) (closer ++ s.reported) := by
    simp [stepL, stepQ, emittedOf]
  rw [hstep]
  unfold onSuccess
  by_cases hf : s.q.progress.isFinished = true
  · rw [if_pos hf]; exact hnoop
  · rw [if_neg hf]
    have hne := isFinished_false (by simpa using hf)
    cases hl : lookup (p ^^^ s.q.target) s.q.peers with
    | none => exact hnoop
    | some e =>
      simp only
      cases hes : e.state with
      | notContacted => exact hnoop
      | failed => exact hnoop
      | succeeded => exact hnoop
      | waiting t =>
        exact linv_finishSuccess h p closer e hl hne _ (Or.inl ⟨t, hes, rfl⟩)
      | unresponsive =>
        exact linv_finishSuccess h p closer e hl hne _ (Or.inr ⟨hes, rfl⟩)

theorem linv_markFailed {s : Led} (h : LInv s) (p : Nat) (e : Peer)
    (hl : lookup (p ^^^ s.q.target) s.q.peers = some e) (nw' : Nat)
    (hst : (∃ t, e.state = .waiting t ∧ nw' = s.q.numWaiting - 1) ∨
           (e.state = .unresponsive ∧ nw' = s.q.numWaiting)) :
    LInv (Led.mk { s.q with numWaiting := nw', peers := modifyAt (p ^^^ s.q.target) markFailed s.q.peers }
      s.emitted s.answered s.reported) := by
  obtain ⟨hemem, hed⟩ := lookup_some hl
  have hencs : e.state ≠ .notContacted := by
    rcases hst with ⟨t, ht, _⟩ | ⟨hu, _⟩
    · rw [ht]; simp
    · rw [hu]; simp
  let ps1 := modifyAt (p ^^^ s.q.target) markFailed s.q.peers
  have hrel : Rel2 (ModR (p ^^^ s.q.target) markFailed) s.q.peers ps1 := modifyAt_rel _ _ _
  have hs1 : Sorted ps1 := by
    rw [sorted_iff_map, Rel2.map_eq (·.dist) (fun a b hab => (modR_fail_key hab).2.1) hrel, ← sorted_iff_map]
    exact h.sorted
  have hc1 : countW ps1 + (if e.state.isWaiting then 1 else 0)
      = countW s.q.peers + (if (markFailed e).state.isWaiting then 1 else 0) :=
    countW_modifyAt (f := markFailed) hl
  refine ⟨hs1, ?_, ?_, ?_, ?_, h.nd, ?_, ?_, ?_, ?_⟩
  · intro x hx
    obtain ⟨a, ha, hab⟩ := hrel.bwd x hx
    rw [(modR_fail_key hab).1, (modR_fail_key hab).2.1]; exact h.distOk a ha
  · show nw' = countW ps1
    have hw := h.wc
    rcases hst with ⟨t, ht, hn⟩ | ⟨hu, hn⟩
    · rw [ht] at hc1; simp [markFailed, PState.isWaiting] at hc1; omega
    · rw [hu] at hc1; simp [markFailed, PState.isWaiting] at hc1; omega
  · intro k hk
    obtain ⟨a, ha, hak, has⟩ := h.em k hk
    obtain ⟨b, hb, hab⟩ := hrel.fwd a ha
    refine ⟨b, hb, by rw [(modR_fail_key hab).1, hak], ?_⟩
    rcases hab with rfl | ⟨_, rfl⟩
    · exact has
    · simp [markFailed]
  · intro x hx hxs
    obtain ⟨a, ha, hab⟩ := hrel.bwd x hx
    rcases hab with rfl | ⟨had, rfl⟩
    · exact h.con _ ha hxs
    · have : a = e := sorted_inj h.sorted ha hemem (by rw [had, hed])
      show a.key ∈ s.emitted
      rw [this]; exact h.con e hemem hencs
  · intro x hx hxs
    obtain ⟨a, ha, hab⟩ := hrel.bwd x hx
    rcases hab with rfl | ⟨had, rfl⟩
    · exact h.ans _ ha hxs
    · simp [markFailed] at hxs
  · intro x hx
    obtain ⟨a, ha, hab⟩ := hrel.bwd x hx
    rw [(modR_fail_key hab).1, (modR_fail_key hab).2.2]
    exact h.rep a ha
  · intro hp
    rcases h.fin hp with h1 | h1
    · left
      intro x hx
      obtain ⟨a, ha, hab⟩ := hrel.bwd x hx
      rcases hab with rfl | ⟨_, rfl⟩
      · exact h1 _ ha
      · simp [markFailed]
    · -- cannot happen (the caller is not finished), but the invariant needs no such hypothesis:
      -- failing a peer that is Waiting / Unresponsive does not touch Succeeded entries
      right
      show s.q.cfg.numResults ≤ resCount s.q.variant ps1
      have : resCount s.q.variant ps1 = resCount s.q.variant s.q.peers := by
        have hgen : ∀ l : List Peer, (∀ a ∈ l, a.dist = p ^^^ s.q.target → a.state.isSucceeded = false) →
            resCount s.q.variant (modifyAt (p ^^^ s.q.target) markFailed l) = resCount s.q.variant l := by
          intro l
          induction l with
          | nil => intro _; rfl
          | cons x xs ih =>
            intro hx
            unfold modifyAt
            by_cases hxd : x.dist = p ^^^ s.q.target
            · rw [if_pos hxd, resCount_cons, resCount_cons, hx x List.mem_cons_self hxd]
              simp [markFailed, PState.isSucceeded]
            · rw [if_neg hxd, resCount_cons, resCount_cons, ih (fun a ha => hx a (List.mem_cons_of_mem _ ha))]
        apply hgen
        intro a ha had
        have : a = e := sorted_inj h.sorted ha hemem (by rw [had, hed])
        rw [this]
        rcases hst with ⟨t, ht, _⟩ | ⟨hu, _⟩
        · rw [ht]; rfl
        · rw [hu]; rfl
      omega
  · show nw' ≤ max s.q.cfg.parallelism s.q.cfg.numResults
    have := h.bnd
    rcases hst with ⟨_, _, hn⟩ | ⟨_, hn⟩ <;> omega

theorem linv_failure {s : Led} (h : LInv s) (p : Nat) : LInv (stepL s (.failure p)) := by
  have hnoop : LInv (Led.mk s.q s.emitted s.answered s.reported) := h
  have hstep : stepL s (.failure p) = Led.mk (onFailure s.q p) s.emitted s.answered s.reported := by
    simp [stepL, stepQ, emittedOf]
  rw [hstep]
  unfold onFailure
  by_cases hf : s.q.progress.isFinished = true
  · rw [if_pos hf]; exact hnoop
  · rw [if_neg hf]
    cases hl : lookup (p ^^^ s.q.target) s.q.peers with
    | none => exact hnoop
    | some e =>
      simp only
      cases hes : e.state with
      | notContacted => exact hnoop
      | failed => exact hnoop
      | succeeded => exact hnoop
      | waiting t => exact linv_markFailed h p e hl _ (Or.inl ⟨t, hes, rfl⟩)
      | unresponsive =>
        simp only
        cases hv : s.q.variant with
        | closest =>
          have := linv_markFailed h p e hl s.q.numWaiting (Or.inr ⟨hes, rfl⟩)
          simp only [hv] at this
          exact this
        | predicate => exact hnoop

theorem linv_step {s : Led} (h : LInv s) (ev : Ev) : LInv (stepL s ev) := by
  cases ev with
  | next now => exact linv_next h now
  | success p closer => exact linv_success h p closer
  | failure p => exact linv_failure h p

theorem linv_run {s : Led} (h : LInv s) (evs : List Ev) : LInv (runL s evs) := by
  induction evs generalizing s with
  | nil => exact h
  | cons ev evs ih => exact ih (linv_step h ev)

/-! ### the initial state -/

theorem foldl_insertRepl_spec (t : Nat) : ∀ (l : List (Nat × Bool)) (acc : List Peer),
    Sorted acc →
    Sorted (l.foldl (fun ps km => insertRepl (mkPeer t km.1 km.2) ps) acc) ∧
    ∀ x ∈ l.foldl (fun ps km => insertRepl (mkPeer t km.1 km.2) ps) acc,
      x ∈ acc ∨ ∃ km ∈ l, x = mkPeer t km.1 km.2
  | [], acc, hs => ⟨hs, fun x hx => Or.inl hx⟩
  | km :: rest, acc, hs => by
    simp only [List.foldl_cons]
    obtain ⟨h1, h2⟩ := foldl_insertRepl_spec t rest _ (sorted_insertRepl (p := mkPeer t km.1 km.2) hs)
    refine ⟨h1, ?_⟩
    intro x hx
    rcases h2 x hx with h | ⟨km', hk, rfl⟩
    · rcases mem_insertRepl h with rfl | h'
      · exact Or.inr ⟨km, List.mem_cons_self, rfl⟩
      · exact Or.inl h'
    · exact Or.inr ⟨km', List.mem_cons_of_mem _ hk, rfl⟩

theorem linv_init (v : Variant) (cfg : Config) (t : Nat) (known : List (Nat × Bool)) :
    LInv (Led.init v cfg t known) := by
  obtain ⟨h1, h2⟩ := foldl_insertRepl_spec t (known.take cfg.numResults) [] (by simp [Sorted])
  have hall : ∀ x ∈ (withConfig v cfg t known).peers, ∃ km ∈ known.take cfg.numResults, x = mkPeer t km.1 km.2 := by
    intro x hx
    rcases h2 x hx with h | h
    · cases h
    · exact h
  have hnc : ∀ x ∈ (withConfig v cfg t known).peers, x.state = .notContacted := by
    intro x hx
    obtain ⟨km, _, rfl⟩ := hall x hx
    rfl
  refine ⟨h1, ?_, ?_, ?_, ?_, List.nodup_nil, ?_, ?_, ?_, ?_⟩
  · intro x hx
    obtain ⟨km, _, rfl⟩ := hall x hx
    rfl
  · show 0 = countW (withConfig v cfg t known).peers
    unfold countW
    symm
    rw [List.countP_eq_zero]
    intro x hx
    rw [hnc x hx]; simp [PState.isWaiting]
  · intro k hk; cases hk
  · intro x hx hxs; exact absurd (hnc x hx) hxs
  · intro x hx hxs; rw [hnc x hx] at hxs; cases hxs
  · intro x hx
    obtain ⟨km, hkm, rfl⟩ := hall x hx
    exact hkm
  · intro hp; cases hp
  · show 0 ≤ _; omega


/-! ### the pool -/

def Pool.ids (p : Pool) : List Nat := p.queries.map (·.id)

structure PoolInv (p : Pool) : Prop where
  nodup : p.ids.Nodup
  lt : ∀ i ∈ p.ids, i < p.nextId

def adds : List PEv → Nat
  | [] => 0
  | .add _ _ _ _ :: evs => adds evs + 1
  | _ :: evs => adds evs

/-- The id counter does not wrap around along the history. -/
def NoWrap (p : Pool) (evs : List PEv) : Prop := p.nextId + adds evs < idModulus

def retId : PoolOut → Option Nat
  | .finished i _ => some i
  | .timeout i _ => some i
  | _ => none

def mentions (r : Nat) : PoolOut → Bool
  | .waitingSome i _ => i == r
  | .finished i _ => i == r
  | .timeout i _ => i == r
  | _ => false

/-- Ids handed back by `poll` (as `Finished` or `Timeout`) along a history. -/
def returned (p : Pool) (evs : List PEv) : List Nat := (outsP p evs).filterMap retId

theorem replaceQ_ids (x : PQ) (qs : List PQ) : (replaceQ x qs).map (·.id) = qs.map (·.id) := by
  unfold replaceQ
  rw [List.map_map]
  apply List.map_congr_left
  intro y _
  by_cases h : y.id = x.id
  · simp [h]
  · simp [h]

theorem find_id {qs : List PQ} {i : Nat} {x : PQ} (h : qs.find? (fun y => y.id == i) = some x) :
    x ∈ qs ∧ x.id = i := by
  refine ⟨List.mem_of_find?_eq_some h, ?_⟩
  have := List.find?_some h
  simpa using this

theorem find_none_id {qs : List PQ} {i : Nat} (h : qs.find? (fun y => y.id == i) = none) :
    i ∉ qs.map (·.id) := by
  intro hi
  obtain ⟨y, hy, hyi⟩ := List.mem_map.mp hi
  have := List.find?_eq_none.mp h y hy
  simp [hyi] at this

theorem find_replaceQ {qs : List PQ} {x x' : PQ} (hx : x ∈ qs) (hid : x'.id = x.id) :
    (replaceQ x' qs).find? (fun y => y.id == x.id) = some x' := by
  induction qs with
  | nil => cases hx
  | cons y ys ih =>
    unfold replaceQ
    simp only [List.map_cons]
    by_cases hy : y.id = x'.id
    · rw [if_pos hy]
      rw [List.find?_cons]
      simp [hid]
    · rw [if_neg hy]
      rw [List.find?_cons]
      have : (y.id == x.id) = false := by simp; rw [← hid]; exact hy
      rw [this]
      rcases List.mem_cons.mp hx with rfl | hx'
      · exact absurd hid.symm hy
      · exact ih hx'

theorem removeQ_ids (i : Nat) (qs : List PQ) : (removeQ i qs).map (·.id) = (qs.map (·.id)).filter (· != i) := by
  unfold removeQ
  induction qs with
  | nil => rfl
  | cons y ys ih =>
    by_cases h : y.id = i
    · simp [List.filter_cons, h, ih]
    · simp [List.filter_cons, h, ih]

/-- Facts about the loop of `poll`. -/
theorem pollLoop_spec (timeout now : Nat) : ∀ (order : List Nat) (qs : List PQ),
    ((pollLoop timeout now order qs).1.map (·.id) = qs.map (·.id)) ∧
    (∀ i, (pollLoop timeout now order qs).2 = .fin i → i ∈ qs.map (·.id)) ∧
    (∀ i k, (pollLoop timeout now order qs).2 = .wait i k → i ∈ qs.map (·.id)) ∧
    (∀ i, (pollLoop timeout now order qs).2 = .tmo i → i ∈ qs.map (·.id))
  | [], qs => by simp [pollLoop]
  | i :: rest, qs => by
    unfold pollLoop
    cases hfind : qs.find? (fun x => x.id == i) with
    | none => exact pollLoop_spec timeout now rest qs
    | some x =>
      obtain ⟨hx, hxi⟩ := find_id hfind
      have himem : i ∈ qs.map (·.id) := List.mem_map.mpr ⟨x, hx, hxi⟩
      simp only
      have hids : (replaceQ { x with q := (next x.q now).1, started := some (x.started.getD now) } qs).map (·.id)
          = qs.map (·.id) := replaceQ_ids _ _
      have ih := pollLoop_spec timeout now rest
        (replaceQ { x with q := (next x.q now).1, started := some (x.started.getD now) } qs)
      rw [hids] at ih
      cases hst : (next x.q now).2 with
      | finished =>
        simp only
        refine ⟨hids, ?_, by simp, by simp⟩
        intro j hj; simp at hj; rw [← hj]; exact himem
      | waitingAtCapacity =>
        simp only
        by_cases hto : now - x.started.getD now ≥ timeout
        · rw [if_pos hto]
          refine ⟨hids, by simp, by simp, ?_⟩
          intro j hj; simp at hj; rw [← hj]; exact himem
        · rw [if_neg hto]; exact ih
      | waiting o =>
        cases o with
        | some k =>
          simp only
          refine ⟨hids, by simp, ?_, by simp⟩
          intro j k' hj; simp at hj; rw [← hj.1]; exact himem
        | none =>
          simp only
          by_cases hto : now - x.started.getD now ≥ timeout
          · rw [if_pos hto]
            refine ⟨hids, by simp, by simp, ?_⟩
            intro j hj; simp at hj; rw [← hj]; exact himem
          · rw [if_neg hto]; exact ih

theorem mem_filter_ne {l : List Nat} {i x : Nat} : x ∈ l.filter (· != i) ↔ x ∈ l ∧ x ≠ i := by
  simp [List.mem_filter]

/-- What one `poll` does to the set of ids, and which ids its return value can mention. -/
theorem poll_spec (p : Pool) (now : Nat) (order : List Nat) :
    (p.poll now order).1.nextId = p.nextId ∧
    (((p.poll now order).1.ids = p.ids ∧ retId (p.poll now order).2 = none ∧
        ∀ r, mentions r (p.poll now order).2 = true → r ∈ p.ids) ∨
     (∃ i, retId (p.poll now order).2 = some i ∧ i ∈ p.ids ∧
        (p.poll now order).1.ids = p.ids.filter (· != i) ∧
        ∀ r, mentions r (p.poll now order).2 = true → r = i)) := by
  have hs := pollLoop_spec p.timeout now order p.queries
  unfold Pool.poll
  dsimp only
  cases hb : (pollLoop p.timeout now order p.queries).2 with
  | none =>
    simp only
    refine ⟨trivial, Or.inl ⟨hs.1, ?_, ?_⟩⟩
    · by_cases he : (pollLoop p.timeout now order p.queries).1.isEmpty = true
      · rw [if_pos he]; rfl
      · rw [if_neg he]; rfl
    · intro r
      by_cases he : (pollLoop p.timeout now order p.queries).1.isEmpty = true
      · rw [if_pos he]; simp [mentions]
      · rw [if_neg he]; simp [mentions]
  | wait i k =>
    simp only
    refine ⟨trivial, Or.inl ⟨hs.1, rfl, ?_⟩⟩
    intro r hr
    simp [mentions] at hr
    rw [← hr]; exact hs.2.2.1 i k hb
  | fin i =>
    simp only
    have hi := hs.2.1 i hb
    cases hfind : (pollLoop p.timeout now order p.queries).1.find? (fun x => x.id == i) with
    | none => exact absurd (hs.1 ▸ hi) (find_none_id hfind)
    | some x =>
      simp only
      refine ⟨trivial, Or.inr ⟨i, rfl, hi, ?_, ?_⟩⟩
      · show (removeQ i _).map (·.id) = _
        rw [removeQ_ids, hs.1]; rfl
      · intro r hr; simp [mentions] at hr; exact hr.symm
  | tmo i =>
    simp only
    have hi := hs.2.2.2 i hb
    cases hfind : (pollLoop p.timeout now order p.queries).1.find? (fun x => x.id == i) with
    | none => exact absurd (hs.1 ▸ hi) (find_none_id hfind)
    | some x =>
      simp only
      refine ⟨trivial, Or.inr ⟨i, rfl, hi, ?_, ?_⟩⟩
      · show (removeQ i _).map (·.id) = _
        rw [removeQ_ids, hs.1]; rfl
      · intro r hr; simp [mentions] at hr; exact hr.symm

theorem onSuccess_ids (p : Pool) (id peer : Nat) (closer : List (Nat × Bool)) :
    (p.onSuccess id peer closer).ids = p.ids ∧ (p.onSuccess id peer closer).nextId = p.nextId := by
  unfold Pool.onSuccess
  cases p.get id with
  | none => exact ⟨rfl, rfl⟩
  | some x => exact ⟨replaceQ_ids _ _, rfl⟩

theorem onFailure_ids (p : Pool) (id peer : Nat) :
    (p.onFailure id peer).ids = p.ids ∧ (p.onFailure id peer).nextId = p.nextId := by
  unfold Pool.onFailure
  cases p.get id with
  | none => exact ⟨rfl, rfl⟩
  | some x => exact ⟨replaceQ_ids _ _, rfl⟩

theorem add_ids (p : Pool) (q : Q) :
    (p.add q).1.ids = p.nextId :: p.ids.filter (· != p.nextId) ∧
    (p.add q).1.nextId = (p.nextId + 1) % idModulus := by
  refine ⟨?_, rfl⟩
  show (_ :: (p.queries.filter _).map (·.id)) = _
  have := removeQ_ids p.nextId p.queries
  unfold removeQ at this
  rw [this]; rfl

/-- One pool event: the invariant, the id counter, the ids, and what the return value mentions. -/
theorem stepP_spec {p : Pool} (h : PoolInv p) (ev : PEv) (hw : NoWrap p [ev]) :
    PoolInv (stepP p ev).1 ∧
    (stepP p ev).1.nextId = p.nextId + adds [ev] ∧
    (∀ i ∈ (stepP p ev).1.ids, i ∈ p.ids ∨ p.nextId ≤ i) ∧
    (∀ o, (stepP p ev).2 = some o →
      (∀ r, mentions r o = true → r ∈ p.ids) ∧
      (∀ r, retId o = some r → r ∈ p.ids ∧ r ∉ (stepP p ev).1.ids)) := by
  cases ev with
  | add v cfg t known =>
    obtain ⟨hids, hn⟩ := add_ids p (withConfig v cfg t known)
    have hw' : p.nextId + 1 < idModulus := by simpa [NoWrap, adds] using hw
    have hn' : (p.add (withConfig v cfg t known)).1.nextId = p.nextId + 1 := by
      rw [hn]; exact Nat.mod_eq_of_lt hw'
    refine ⟨⟨?_, ?_⟩, ?_, ?_, ?_⟩
    · show (p.add (withConfig v cfg t known)).1.ids.Nodup
      rw [hids]
      refine List.nodup_cons.mpr ⟨?_, ?_⟩
      · intro hm; exact (mem_filter_ne.mp hm).2 rfl
      · exact List.Nodup.sublist List.filter_sublist h.nodup
    · intro i hi
      show i < (p.add (withConfig v cfg t known)).1.nextId
      rw [hn']
      have hi' : i ∈ (p.add (withConfig v cfg t known)).1.ids := hi
      rw [hids] at hi'
      rcases List.mem_cons.mp hi' with rfl | hi''
      · omega
      · have := h.lt i (mem_filter_ne.mp hi'').1; omega
    · show (p.add (withConfig v cfg t known)).1.nextId = _
      rw [hn']; simp [adds]
    · intro i hi
      have hi' : i ∈ (p.add (withConfig v cfg t known)).1.ids := hi
      rw [hids] at hi'
      rcases List.mem_cons.mp hi' with rfl | hi''
      · exact Or.inr (Nat.le_refl _)
      · exact Or.inl (mem_filter_ne.mp hi'').1
    · intro o ho; simp [stepP] at ho
  | poll now order =>
    obtain ⟨hn, hcase⟩ := poll_spec p now order
    have hstep : stepP p (.poll now order) = ((p.poll now order).1, some (p.poll now order).2) := rfl
    rw [hstep]
    simp only
    rcases hcase with ⟨hids, hret, hmen⟩ | ⟨i, hret, hi, hids, hmen⟩
    · refine ⟨⟨by rw [hids]; exact h.nodup, ?_⟩, by rw [hn]; simp [adds], ?_, ?_⟩
      · intro j hj; rw [hn]; rw [hids] at hj; exact h.lt j hj
      · intro j hj; rw [hids] at hj; exact Or.inl hj
      · intro o ho
        cases ho
        refine ⟨hmen, ?_⟩
        intro r hr; rw [hret] at hr; cases hr
    · refine ⟨⟨by rw [hids]; exact List.Nodup.sublist List.filter_sublist h.nodup, ?_⟩,
        by rw [hn]; simp [adds], ?_, ?_⟩
      · intro j hj; rw [hn]; rw [hids] at hj; exact h.lt j (mem_filter_ne.mp hj).1
      · intro j hj; rw [hids] at hj; exact Or.inl (mem_filter_ne.mp hj).1
      · intro o ho
        cases ho
        refine ⟨?_, ?_⟩
        · intro r hr; rw [hmen r hr]; exact hi
        · intro r hr
          rw [hret] at hr; cases hr
          refine ⟨hi, ?_⟩
          rw [hids]; intro hm; exact (mem_filter_ne.mp hm).2 rfl
  | success id peer closer =>
    obtain ⟨hids, hn⟩ := onSuccess_ids p id peer closer
    have hstep : stepP p (.success id peer closer) = (p.onSuccess id peer closer, none) := rfl
    rw [hstep]
    simp only
    refine ⟨⟨by rw [hids]; exact h.nodup, ?_⟩, by rw [hn]; simp [adds], ?_, ?_⟩
    · intro j hj; rw [hn]; rw [hids] at hj; exact h.lt j hj
    · intro j hj; rw [hids] at hj; exact Or.inl hj
    · intro o ho; cases ho
  | failure id peer =>
    obtain ⟨hids, hn⟩ := onFailure_ids p id peer
    have hstep : stepP p (.failure id peer) = (p.onFailure id peer, none) := rfl
    rw [hstep]
    simp only
    refine ⟨⟨by rw [hids]; exact h.nodup, ?_⟩, by rw [hn]; simp [adds], ?_, ?_⟩
    · intro j hj; rw [hn]; rw [hids] at hj; exact h.lt j hj
    · intro j hj; rw [hids] at hj; exact Or.inl hj
    · intro o ho; cases ho

theorem adds_cons (ev : PEv) (evs : List PEv) : adds (ev :: evs) = adds [ev] + adds evs := by
  cases ev <;> simp [adds] <;> omega

theorem noWrap_head {p : Pool} {ev : PEv} {evs : List PEv} (h : NoWrap p (ev :: evs)) : NoWrap p [ev] := by
  unfold NoWrap at *; rw [adds_cons] at h
  have : adds [ev] = adds [ev] + adds [] := by simp [adds]
  omega

theorem noWrap_tail {p : Pool} (hp : PoolInv p) {ev : PEv} {evs : List PEv} (h : NoWrap p (ev :: evs)) :
    NoWrap (stepP p ev).1 evs := by
  have := (stepP_spec hp ev (noWrap_head h)).2.1
  unfold NoWrap at *; rw [adds_cons] at h; omega

theorem outsP_cons (p : Pool) (ev : PEv) (evs : List PEv) :
    outsP p (ev :: evs) = (stepP p ev).2.toList ++ outsP (stepP p ev).1 evs := by
  show (match (stepP p ev).2 with | some o => o :: outsP (stepP p ev).1 evs | none => outsP (stepP p ev).1 evs) = _
  cases (stepP p ev).2 <;> rfl

/-- An id that was handed back later must be in the pool now or be created later. -/
theorem returned_mem {p : Pool} (hp : PoolInv p) : ∀ (evs : List PEv), NoWrap p evs →
    ∀ r ∈ returned p evs, r ∈ p.ids ∨ p.nextId ≤ r
  | [], _, r, hr => by simp [returned, outsP] at hr
  | ev :: evs, hw, r, hr => by
    obtain ⟨hp', hn, hids, hout⟩ := stepP_spec hp ev (noWrap_head hw)
    unfold returned at hr
    rw [outsP_cons, List.filterMap_append] at hr
    rcases List.mem_append.mp hr with h1 | h1
    · cases ho : (stepP p ev).2 with
      | none => rw [ho] at h1; simp at h1
      | some o =>
        rw [ho] at h1
        simp at h1
        exact Or.inl ((hout o ho).2 r h1).1
    · rcases returned_mem hp' evs (noWrap_tail hp hw) r h1 with h2 | h2
      · exact hids r h2
      · right; omega

/-- An id that is absent and below the counter stays absent, and no return value mentions it. -/
theorem absent_forever {p : Pool} (hp : PoolInv p) (r : Nat) : ∀ (evs : List PEv), NoWrap p evs →
    r ∉ p.ids → r < p.nextId →
    (∀ o ∈ outsP p evs, mentions r o = false) ∧
    (∀ pre post, evs = pre ++ post → r ∉ (runP p pre).ids)
  | [], _, hr, _ => by
    refine ⟨by simp [outsP], ?_⟩
    intro pre post h
    have : pre = [] := by
      cases pre with
      | nil => rfl
      | cons a as => simp at h
    rw [this]; exact hr
  | ev :: evs, hw, hr, hlt => by
    obtain ⟨hp', hn, hids, hout⟩ := stepP_spec hp ev (noWrap_head hw)
    have hr' : r ∉ (stepP p ev).1.ids := by
      intro hm
      rcases hids r hm with h1 | h1
      · exact hr h1
      · omega
    have hlt' : r < (stepP p ev).1.nextId := by omega
    obtain ⟨ih1, ih2⟩ := absent_forever hp' r evs (noWrap_tail hp hw) hr' hlt'
    refine ⟨?_, ?_⟩
    · intro o ho
      rw [outsP_cons] at ho
      rcases List.mem_append.mp ho with h1 | h1
      · cases hso : (stepP p ev).2 with
        | none => rw [hso] at h1; simp at h1
        | some o' =>
          rw [hso] at h1
          simp at h1
          subst h1
          cases hm : mentions r o with
          | false => rfl
          | true => exact absurd ((hout o hso).1 r hm) hr
      · exact ih1 o h1
    · intro pre post h
      cases pre with
      | nil => exact hr
      | cons a as =>
        simp at h
        obtain ⟨rfl, h'⟩ := h
        exact ih2 as post h'

theorem removeQ_find_none (i : Nat) (qs : List PQ) : (removeQ i qs).find? (fun y => y.id == i) = none := by
  rw [List.find?_eq_none]
  intro y hy
  unfold removeQ at hy
  have := (List.mem_filter.mp hy).2
  simpa using this

/-- Is this query past the pool's timeout at `now` (as `poll` computes it)? -/
def TimedOut (timeout now : Nat) (x : PQ) : Prop := now - x.started.getD now ≥ timeout

theorem timedOut_replace {timeout now : Nat} {x : PQ} (q' : Q) (h : TimedOut timeout now x) :
    TimedOut timeout now { x with q := q', started := some (x.started.getD now) } := h

/-- `poll` that visits query `i` first while `i` is past the timeout: either a request for `i`
is handed out, or `i` is handed back (Finished / Timeout) and is no longer in the pool. -/
theorem poll_timed_out_first (p : Pool) (now i : Nat) (rest : List Nat) (x : PQ)
    (hx : p.get i = some x) (hto : TimedOut p.timeout now x) :
    (∃ k, (p.poll now (i :: rest)).2 = .waitingSome i k) ∨
    ((∃ q, (p.poll now (i :: rest)).2 = .finished i q ∨ (p.poll now (i :: rest)).2 = .timeout i q) ∧
      (p.poll now (i :: rest)).1.get i = none) := by
  have hfind : p.queries.find? (fun y => y.id == i) = some x := hx
  obtain ⟨hxm, hxi⟩ := find_id hfind
  subst hxi
  have hto' : now - x.started.getD now ≥ p.timeout := hto
  have hfind' : ∀ q', (replaceQ { x with q := q', started := some (x.started.getD now) } p.queries).find?
      (fun y => y.id == x.id) = some { x with q := q', started := some (x.started.getD now) } := by
    intro q'
    exact find_replaceQ (x' := { x with q := q', started := some (x.started.getD now) }) hxm rfl
  unfold Pool.poll pollLoop
  rw [hfind]
  dsimp only
  cases hst : (next x.q now).2 with
  | finished =>
    dsimp only
    rw [hfind']
    dsimp only
    exact Or.inr ⟨⟨_, Or.inl rfl⟩, removeQ_find_none _ _⟩
  | waitingAtCapacity =>
    dsimp only
    rw [if_pos hto']
    dsimp only
    rw [hfind']
    dsimp only
    exact Or.inr ⟨⟨_, Or.inr rfl⟩, removeQ_find_none _ _⟩
  | waiting o =>
    cases o with
    | some k => exact Or.inl ⟨k, rfl⟩
    | none =>
      dsimp only
      rw [if_pos hto']
      dsimp only
      rw [hfind']
      dsimp only
      exact Or.inr ⟨⟨_, Or.inr rfl⟩, removeQ_find_none _ _⟩

theorem mem_replaceQ {x' y : PQ} {qs : List PQ} (h : y ∈ replaceQ x' qs) : y = x' ∨ y ∈ qs := by
  unfold replaceQ at h
  obtain ⟨z, hz, rfl⟩ := List.mem_map.mp h
  by_cases hzi : z.id = x'.id
  · rw [if_pos hzi]; exact Or.inl rfl
  · rw [if_neg hzi]; exact Or.inr hz

/-- If every query is past the timeout and the visiting order reaches at least one query of the
pool, the loop of `poll` breaks. -/
theorem pollLoop_breaks (timeout now : Nat) : ∀ (order : List Nat) (qs : List PQ),
    (∀ x ∈ qs, TimedOut timeout now x) → (∃ i ∈ order, i ∈ qs.map (·.id)) →
    (pollLoop timeout now order qs).2 ≠ .none
  | [], qs, _, ⟨i, hi, _⟩ => by cases hi
  | j :: rest, qs, hall, ⟨i, hi, him⟩ => by
    unfold pollLoop
    cases hfind : qs.find? (fun x => x.id == j) with
    | none =>
      dsimp only
      apply pollLoop_breaks timeout now rest qs hall
      rcases List.mem_cons.mp hi with rfl | hi'
      · exact absurd him (find_none_id hfind)
      · exact ⟨i, hi', him⟩
    | some x =>
      obtain ⟨hxm, _⟩ := find_id hfind
      dsimp only
      cases hst : (next x.q now).2 with
      | finished => simp
      | waitingAtCapacity =>
        dsimp only
        rw [if_pos (show now - x.started.getD now ≥ timeout from hall x hxm)]; simp
      | waiting o =>
        cases o with
        | some k => simp
        | none =>
          dsimp only
          rw [if_pos (show now - x.started.getD now ≥ timeout from hall x hxm)]; simp

theorem length_filter_ne_lt {l : List Nat} {i : Nat} (h : i ∈ l) : (l.filter (· != i)).length < l.length := by
  induction l with
  | nil => cases h
  | cons a as ih =>
    by_cases ha : a = i
    · subst ha
      have : ((a :: as).filter (· != a)) = as.filter (· != a) := by simp [List.filter_cons]
      rw [this]
      have := List.length_filter_le (· != a) as
      simp only [List.length_cons]; omega
    · have hi : i ∈ as := by
        rcases List.mem_cons.mp h with rfl | h'
        · exact absurd rfl ha
        · exact h'
      have : ((a :: as).filter (· != i)) = a :: as.filter (· != i) := by simp [List.filter_cons, ha]
      rw [this]
      have := ih hi
      simp only [List.length_cons]; omega

/-- For every visiting order: when all queries are past the timeout, `poll` hands out a request
or hands a query back (and the pool shrinks). -/
theorem poll_all_timed_out (p : Pool) (now : Nat) (order : List Nat)
    (hall : ∀ x ∈ p.queries, TimedOut p.timeout now x) (hord : ∃ i ∈ order, i ∈ p.ids) :
    (∃ i k, (p.poll now order).2 = .waitingSome i k) ∨
    (∃ i, retId (p.poll now order).2 = some i ∧ (p.poll now order).1.ids.length < p.ids.length) := by
  have hbrk := pollLoop_breaks p.timeout now order p.queries hall hord
  obtain ⟨_, hcase⟩ := poll_spec p now order
  rcases hcase with ⟨_, hret, _⟩ | ⟨i, hret, hi, hids, _⟩
  · left
    -- no query was handed back, so the loop broke on a request
    unfold Pool.poll at hret ⊢
    dsimp only at hret ⊢
    cases hb : (pollLoop p.timeout now order p.queries).2 with
    | none => exact absurd hb hbrk
    | wait i k => exact ⟨i, k, by simp only⟩
    | fin i =>
      rw [hb] at hret
      dsimp only at hret
      have hs := pollLoop_spec p.timeout now order p.queries
      cases hfind : (pollLoop p.timeout now order p.queries).1.find? (fun x => x.id == i) with
      | none => exact absurd (hs.1 ▸ hs.2.1 i hb) (find_none_id hfind)
      | some x => rw [hfind] at hret; simp [retId] at hret
    | tmo i =>
      rw [hb] at hret
      dsimp only at hret
      have hs := pollLoop_spec p.timeout now order p.queries
      cases hfind : (pollLoop p.timeout now order p.queries).1.find? (fun x => x.id == i) with
      | none => exact absurd (hs.1 ▸ hs.2.2.2 i hb) (find_none_id hfind)
      | some x => rw [hfind] at hret; simp [retId] at hret
  · right
    exact ⟨i, hret, by rw [hids]; exact length_filter_ne_lt hi⟩


/-! ### configuration, variant and target never change -/

theorem next_const (q : Q) (now : Nat) :
    (next q now).1.cfg = q.cfg ∧ (next q now).1.variant = q.variant ∧ (next q now).1.target = q.target := by
  unfold next
  by_cases hf : q.progress.isFinished = true
  · rw [if_pos hf]; exact ⟨rfl, rfl, rfl⟩
  · rw [if_neg hf]
    unfold finishNext
    cases (nextLoop q.variant q.cfg now (atCapacity q) q.peers (some 0) q.numWaiting).out with
    | emit k => exact ⟨rfl, rfl, rfl⟩
    | atCap => exact ⟨rfl, rfl, rfl⟩
    | fin => exact ⟨rfl, rfl, rfl⟩
    | done =>
      dsimp only
      by_cases hz : (nextLoop q.variant q.cfg now (atCapacity q) q.peers (some 0) q.numWaiting).nw > 0
      · rw [if_pos hz]; exact ⟨rfl, rfl, rfl⟩
      · rw [if_neg hz]; exact ⟨rfl, rfl, rfl⟩

theorem onSuccess_const (q : Q) (p : Nat) (closer : List (Nat × Bool)) :
    (onSuccess q p closer).cfg = q.cfg ∧ (onSuccess q p closer).variant = q.variant ∧
      (onSuccess q p closer).target = q.target := by
  unfold onSuccess
  by_cases hf : q.progress.isFinished = true
  · rw [if_pos hf]; exact ⟨rfl, rfl, rfl⟩
  · rw [if_neg hf]
    cases lookup (p ^^^ q.target) q.peers with
    | none => exact ⟨rfl, rfl, rfl⟩
    | some e =>
      dsimp only
      cases e.state <;> exact ⟨rfl, rfl, rfl⟩

theorem onFailure_const (q : Q) (p : Nat) :
    (onFailure q p).cfg = q.cfg ∧ (onFailure q p).variant = q.variant ∧ (onFailure q p).target = q.target := by
  unfold onFailure
  by_cases hf : q.progress.isFinished = true
  · rw [if_pos hf]; exact ⟨rfl, rfl, rfl⟩
  · rw [if_neg hf]
    cases lookup (p ^^^ q.target) q.peers with
    | none => exact ⟨rfl, rfl, rfl⟩
    | some e =>
      dsimp only
      cases e.state with
      | unresponsive => dsimp only; cases hv : q.variant <;> simp [hv]
      | notContacted => exact ⟨rfl, rfl, rfl⟩
      | waiting t => exact ⟨rfl, rfl, rfl⟩
      | failed => exact ⟨rfl, rfl, rfl⟩
      | succeeded => exact ⟨rfl, rfl, rfl⟩

theorem stepL_const (s : Led) (ev : Ev) :
    (stepL s ev).q.cfg = s.q.cfg ∧ (stepL s ev).q.variant = s.q.variant ∧ (stepL s ev).q.target = s.q.target := by
  cases ev with
  | next now => exact next_const s.q now
  | success p closer => exact onSuccess_const s.q p closer
  | failure p => exact onFailure_const s.q p

theorem runL_const (s : Led) (evs : List Ev) :
    (runL s evs).q.cfg = s.q.cfg ∧ (runL s evs).q.variant = s.q.variant ∧ (runL s evs).q.target = s.q.target := by
  induction evs generalizing s with
  | nil => exact ⟨rfl, rfl, rfl⟩
  | cons ev evs ih =>
    have h1 := ih (stepL s ev)
    have h2 := stepL_const s ev
    exact ⟨h1.1.trans h2.1, h1.2.1.trans h2.2.1, h1.2.2.trans h2.2.2⟩

/-! ### the ledger, read off the history -/

/-- The state of the query after a history. -/
def runQ (q : Q) : List Ev → Q
  | [] => q
  | ev :: evs => runQ (stepQ q ev).1 evs

/-- The requests handed out by `next` along a history, oldest first. -/
def requests (q : Q) : List Ev → List Nat
  | [] => []
  | ev :: evs => (emittedOf (stepQ q ev).2).toList ++ requests (stepQ q ev).1 evs

theorem runL_q (s : Led) (evs : List Ev) : (runL s evs).q = runQ s.q evs := by
  induction evs generalizing s with
  | nil => rfl
  | cons ev evs ih => exact ih (stepL s ev)

theorem runL_emitted (s : Led) (evs : List Ev) :
    (runL s evs).emitted = (requests s.q evs).reverse ++ s.emitted := by
  induction evs generalizing s with
  | nil => simp [runL, requests]
  | cons ev evs ih =>
    show (runL (stepL s ev) evs).emitted = _
    rw [ih (stepL s ev)]
    show (requests (stepQ s.q ev).1 evs).reverse ++ (stepL s ev).emitted = _
    have : (stepL s ev).emitted = (emittedOf (stepQ s.q ev).2).toList.reverse ++ s.emitted := by
      show (match emittedOf (stepQ s.q ev).2 with | some k => k :: s.emitted | none => s.emitted) = _
      cases emittedOf (stepQ s.q ev).2 <;> simp
    rw [this]
    simp [requests, List.reverse_append]

theorem runL_append (s : Led) (a b : List Ev) : runL s (a ++ b) = runL (runL s a) b := by
  induction a generalizing s with
  | nil => rfl
  | cons ev a ih => exact ih (stepL s ev)

/-- A peer in the `emitted` ledger was handed out by a `next` call of the history. -/
theorem emitted_spec (s : Led) : ∀ (evs : List Ev) (k : Nat), k ∈ (runL s evs).emitted →
    k ∈ s.emitted ∨ ∃ pre now post, evs = pre ++ .next now :: post ∧
      (next (runL s pre).q now).2 = .waiting (some k)
  | [], k, h => Or.inl h
  | ev :: evs, k, h => by
    rcases emitted_spec (stepL s ev) evs k h with h1 | ⟨pre, now, post, he, hn⟩
    · -- handed out by this very step, or earlier
      have hstep : (stepL s ev).emitted =
          (match emittedOf (stepQ s.q ev).2 with | some k => k :: s.emitted | none => s.emitted) := rfl
      rw [hstep] at h1
      cases hem : emittedOf (stepQ s.q ev).2 with
      | none => rw [hem] at h1; exact Or.inl h1
      | some k' =>
        rw [hem] at h1
        rcases List.mem_cons.mp h1 with rfl | h2
        · right
          cases ev with
          | next now =>
            refine ⟨[], now, evs, rfl, ?_⟩
            show (next s.q now).2 = _
            have : emittedOf (some (next s.q now).2) = some k := hem
            unfold emittedOf at this
            cases hq : (next s.q now).2 with
            | waiting o =>
              rw [hq] at this
              cases o with
              | some k'' => simp at this; rw [this]
              | none => simp at this
            | waitingAtCapacity => rw [hq] at this; simp at this
            | finished => rw [hq] at this; simp at this
          | success p closer => simp [stepQ, emittedOf] at hem
          | failure p => simp [stepQ, emittedOf] at hem
        · exact Or.inl h2
    · right
      exact ⟨ev :: pre, now, post, by rw [he]; rfl, hn⟩

/-- A peer in the `answered` ledger got an `on_success` call after it had been handed out. -/
theorem answered_spec (s : Led) : ∀ (evs : List Ev) (k : Nat), k ∈ (runL s evs).answered →
    k ∈ s.answered ∨ ∃ pre closer post, evs = pre ++ .success k closer :: post ∧
      k ∈ (runL s pre).emitted
  | [], k, h => Or.inl h
  | ev :: evs, k, h => by
    rcases answered_spec (stepL s ev) evs k h with h1 | ⟨pre, closer, post, he, hn⟩
    · cases ev with
      | next now => exact Or.inl h1
      | failure p => exact Or.inl h1
      | success p closer =>
        have hstep : (stepL s (.success p closer)).answered =
            (if p ∈ s.emitted then p :: s.answered else s.answered) := rfl
        rw [hstep] at h1
        by_cases hp : p ∈ s.emitted
        · rw [if_pos hp] at h1
          rcases List.mem_cons.mp h1 with rfl | h2
          · exact Or.inr ⟨[], closer, evs, rfl, hp⟩
          · exact Or.inl h2
        · rw [if_neg hp] at h1; exact Or.inl h1
    · right
      exact ⟨ev :: pre, closer, post, by rw [he]; rfl, hn⟩

/-- Every `(peer, flag)` in the `reported` ledger was in the initial list or in the `closer_peers`
of an `on_success` call. -/
theorem reported_spec (s : Led) : ∀ (evs : List Ev) (x : Nat × Bool), x ∈ (runL s evs).reported →
    x ∈ s.reported ∨ ∃ pre p closer post, evs = pre ++ .success p closer :: post ∧ x ∈ closer
  | [], x, h => Or.inl h
  | ev :: evs, x, h => by
    rcases reported_spec (stepL s ev) evs x h with h1 | ⟨pre, p, closer, post, he, hn⟩
    · cases ev with
      | next now => exact Or.inl h1
      | failure p => exact Or.inl h1
      | success p closer =>
        have hstep : (stepL s (.success p closer)).reported = closer ++ s.reported := rfl
        rw [hstep] at h1
        rcases List.mem_append.mp h1 with h2 | h2
        · exact Or.inr ⟨[], p, closer, evs, rfl, h2⟩
        · exact Or.inl h2
    · right
      exact ⟨ev :: pre, p, closer, post, by rw [he]; rfl, hn⟩

/-- `next` may hand out a request only in these situations. -/
def MayIssue (q : Q) : Prop :=
  (∃ n, q.progress = .iterating n ∧ q.numWaiting < q.cfg.parallelism) ∨
  (q.progress = .stalled ∧ q.numWaiting < q.cfg.numResults)

theorem mayIssue_of_not_atCapacity {q : Q} (h : atCapacity q = false) : MayIssue q := by
  unfold atCapacity at h
  unfold MayIssue
  cases hp : q.progress with
  | iterating n => rw [hp] at h; simp at h; exact Or.inl ⟨n, rfl, h⟩
  | stalled => rw [hp] at h; simp at h; exact Or.inr ⟨rfl, h⟩
  | finished => rw [hp] at h; simp at h

/-- `next` hands out a request only if the query was not at capacity; the request goes to a peer
that was `NotContacted`. -/
theorem next_emit (q : Q) (now k : Nat) (h : (next q now).2 = .waiting (some k)) :
    atCapacity q = false ∧ ∃ e ∈ q.peers, e.key = k ∧ e.state = .notContacted := by
  unfold next at h
  by_cases hf : q.progress.isFinished = true
  · rw [if_pos hf] at h; simp at h
  · rw [if_neg hf] at h
    have hout := nextLoop_out q.variant q.cfg now (atCapacity q) q.peers (some 0) q.numWaiting
    unfold finishNext at h
    cases hL : (nextLoop q.variant q.cfg now (atCapacity q) q.peers (some 0) q.numWaiting).out with
    | emit k' =>
      rw [hL] at h
      simp at h
      obtain ⟨hc, e, he, hk, hs, _⟩ := hout.1 k' hL
      exact ⟨hc, e, he, by rw [hk, h], hs⟩
    | atCap => rw [hL] at h; simp at h
    | fin => rw [hL] at h; simp at h
    | done =>
      rw [hL] at h
      dsimp only at h
      by_cases hz : (nextLoop q.variant q.cfg now (atCapacity q) q.peers (some 0) q.numWaiting).nw > 0
      · rw [if_pos hz] at h; simp at h
      · rw [if_neg hz] at h; simp at h

/-- `next` reports `Finished` exactly when it leaves the query in progress `Finished`. -/
theorem next_finished (q : Q) (now : Nat) :
    (next q now).2 = .finished ↔ (next q now).1.progress = .finished := by
  unfold next
  by_cases hf : q.progress.isFinished = true
  · rw [if_pos hf]; simp [isFinished_true hf]
  · rw [if_neg hf]
    have hne := isFinished_false (by simpa using hf)
    unfold finishNext
    cases hL : (nextLoop q.variant q.cfg now (atCapacity q) q.peers (some 0) q.numWaiting).out with
    | emit k' => simp [hne]
    | atCap => simp [hne]
    | fin => simp
    | done =>
      dsimp only
      by_cases hz : (nextLoop q.variant q.cfg now (atCapacity q) q.peers (some 0) q.numWaiting).nw > 0
      · rw [if_pos hz]; simp [hne]
      · rw [if_neg hz]; simp

theorem nodup_subset_length_le : ∀ (l u : List Nat), l.Nodup → (∀ x ∈ l, x ∈ u) → l.length ≤ u.length
  | [], _, _, _ => Nat.zero_le _
  | a :: l, u, hnd, hsub => by
    have hc := List.nodup_cons.mp hnd
    have hau : a ∈ u := hsub a List.mem_cons_self
    have ih := nodup_subset_length_le l (u.erase a) hc.2 (by
      intro x hx
      have hxa : x ≠ a := by intro h; rw [h] at hx; exact hc.1 hx
      exact (List.mem_erase_of_ne hxa).mpr (hsub x (List.mem_cons_of_mem _ hx)))
    rw [List.length_erase_of_mem hau] at ih
    have : 0 < u.length := List.length_pos_of_mem hau
    simp only [List.length_cons]; omega

/-! ### histories from the initial state -/

theorem runL_init_q (v : Variant) (cfg : Config) (t : Nat) (known : List (Nat × Bool)) (evs : List Ev) :
    (runL (Led.init v cfg t known) evs).q = runQ (withConfig v cfg t known) evs :=
  runL_q _ _

theorem runL_init_emitted (v : Variant) (cfg : Config) (t : Nat) (known : List (Nat × Bool)) (evs : List Ev) :
    (runL (Led.init v cfg t known) evs).emitted = (requests (withConfig v cfg t known) evs).reverse := by
  have := runL_emitted (Led.init v cfg t known) evs
  rw [this]
  exact List.append_nil _

theorem nodup_of_reverse {l : List Nat} (h : l.reverse.Nodup) : l.Nodup := by
  unfold List.Nodup at *
  rw [List.pairwise_reverse] at h
  exact h.imp (fun hab => Ne.symm hab)

theorem runQ_init_const (v : Variant) (cfg : Config) (t : Nat) (known : List (Nat × Bool)) (evs : List Ev) :
    (runQ (withConfig v cfg t known) evs).cfg = cfg ∧ (runQ (withConfig v cfg t known) evs).variant = v ∧
      (runQ (withConfig v cfg t known) evs).target = t := by
  have h := runL_const (Led.init v cfg t known) evs
  rw [runL_init_q] at h
  exact h

/-- The invariant, for the state reached from the initial state. -/
theorem linv_reach (v : Variant) (cfg : Config) (t : Nat) (known : List (Nat × Bool)) (evs : List Ev) :
    LInv (runL (Led.init v cfg t known) evs) :=
  linv_run (linv_init v cfg t known) evs

/-! ### results -/

theorem runQ_append (q : Q) (a b : List Ev) : runQ q (a ++ b) = runQ (runQ q a) b := by
  induction a generalizing q with
  | nil => rfl
  | cons ev a ih => exact ih (stepQ q ev).1

theorem mem_intoResult {q : Q} {k : Nat} (h : k ∈ intoResult q) :
    ∃ e ∈ q.peers, e.state = .succeeded ∧ counts q.variant e = true ∧ e.key = k := by
  unfold intoResult at h
  have h' := List.mem_of_mem_take h
  obtain ⟨e, he, hr⟩ := List.mem_filterMap.mp h'
  unfold resultKey at hr
  by_cases hc : (e.state.isSucceeded && counts q.variant e) = true
  · rw [if_pos hc] at hr
    cases hr
    have hc' := Bool.and_eq_true_iff.mp hc
    refine ⟨e, he, ?_, hc'.2, rfl⟩
    cases hs : e.state <;> simp [hs, PState.isSucceeded] at hc' ⊢
  · rw [if_neg hc] at hr; cases hr

theorem intoResult_sorted {q : Q} (hs : Sorted q.peers) (hd : DistOk q.target q.peers) :
    (intoResult q).Pairwise (fun a b => a ^^^ q.target < b ^^^ q.target) := by
  unfold intoResult
  apply List.Pairwise.sublist (List.take_sublist _ _)
  have h1 : q.peers.Pairwise (fun a b => a.key ^^^ q.target < b.key ^^^ q.target) := by
    unfold Sorted at hs
    refine List.Pairwise.imp_of_mem ?_ hs
    intro a b ha hb hab
    rw [← hd a ha, ← hd b hb]; exact hab
  refine List.Pairwise.filterMap _ ?_ h1
  intro a a' haa b hb b' hb'
  unfold resultKey at hb hb'
  by_cases hc : (a.state.isSucceeded && counts q.variant a) = true
  · rw [if_pos hc] at hb; cases hb
    by_cases hc' : (a'.state.isSucceeded && counts q.variant a') = true
    · rw [if_pos hc'] at hb'; cases hb'; exact haa
    · rw [if_neg hc'] at hb'; cases hb'
  · rw [if_neg hc] at hb; cases hb

theorem intoResult_length (q : Q) : (intoResult q).length = min q.cfg.numResults (resCount q.variant q.peers) := by
  unfold intoResult resCount
  exact List.length_take


/-! ### the termination measure -/

/-- Σ rank over the candidates. -/
def msum (ps : List Peer) : Nat := (ps.map (fun e => e.state.rank)).sum

/-- The termination measure `Σ rank + 4·(N − known)`: `N` is any bound on the number of
candidates (ids the query will ever be told about); an id not yet known counts 4. -/
def potential (N : Nat) (q : Q) : Nat := msum q.peers + 4 * (N - q.peers.length)

theorem msum_cons (p : Peer) (ps : List Peer) : msum (p :: ps) = p.state.rank + msum ps := by
  simp [msum]

def emitBonus : LoopOut → Nat
  | .emit _ => 1
  | _ => 0

theorem Rel2.length_eq {R : Peer → Peer → Prop} {as bs : List Peer} (h : Rel2 R as bs) :
    bs.length = as.length := by
  induction h with
  | nil => rfl
  | cons _ _ ih => simp [ih]

theorem nextLoop_msum (v : Variant) (cfg : Config) (now : Nat) (cap : Bool) :
    ∀ (ps : List Peer) (rc : Option Nat) (nw : Nat),
      msum (nextLoop v cfg now cap ps rc nw).peers + emitBonus (nextLoop v cfg now cap ps rc nw).out ≤ msum ps
  | [], rc, nw => by simp [nextLoop, msum, emitBonus]
  | p :: ps, rc, nw => by
    have lift : ∀ (p' : Peer) (rc' : Option Nat) (nw' : Nat), p'.state.rank ≤ p.state.rank →
        let r := nextLoop v cfg now cap ps rc' nw'
        msum (p' :: r.peers) + emitBonus r.out ≤ msum (p :: ps) := by
      intro p' rc' nw' hle
      have ih := nextLoop_msum v cfg now cap ps rc' nw'
      simp only [msum_cons]
      omega
    unfold nextLoop
    split
    · rename_i hs
      by_cases hc : (!cap) = true
      · rw [if_pos hc]
        simp only [msum_cons, emitBonus, hs, PState.rank]; omega
      · rw [if_neg hc]; simp [emitBonus]
    · rename_i t hs
      by_cases ht : now ≥ t
      · rw [if_pos ht]
        exact lift { p with state := .unresponsive } rc (nw - 1) (by rw [hs]; simp [PState.rank])
      · rw [if_neg ht]
        by_cases hc : cap = true
        · rw [if_pos hc]; simp [emitBonus]
        · rw [if_neg hc]; exact lift p _ nw (Nat.le_refl _)
    · split
      · rename_i c
        by_cases hcn : counts v p = true
        · rw [if_pos hcn]
          by_cases hge : c + 1 ≥ cfg.numResults
          · rw [if_pos hge]; simp [emitBonus]
          · rw [if_neg hge]; exact lift p _ nw (Nat.le_refl _)
        · rw [if_neg hcn]; exact lift p _ nw (Nat.le_refl _)
      · exact lift p _ nw (Nat.le_refl _)
    · exact lift p _ nw (Nat.le_refl _)
    · exact lift p _ nw (Nat.le_refl _)

theorem msum_modifyAt {d : Nat} {f : Peer → Peer} {ps : List Peer} {e : Peer}
    (h : lookup d ps = some e) :
    msum (modifyAt d f ps) + e.state.rank = msum ps + (f e).state.rank := by
  induction ps with
  | nil => simp [lookup] at h
  | cons x xs ih =>
    unfold lookup at h
    unfold modifyAt
    by_cases hx : x.dist = d
    · rw [if_pos hx] at h; cases h
      rw [if_pos hx]
      simp only [msum_cons]; omega
    · rw [if_neg hx] at h
      rw [if_neg hx]
      have := ih h
      simp only [msum_cons]; omega

theorem msum_insertOr {p : Peer} (hp : p.state = .notContacted) : ∀ ps : List Peer,
    msum (insertOr p ps) + 3 * ps.length = msum ps + 3 * (insertOr p ps).length
  | [] => by simp [insertOr, msum, hp, PState.rank]
  | e :: es => by
    unfold insertOr
    by_cases h1 : p.dist < e.dist
    · rw [if_pos h1]; simp only [msum_cons, List.length_cons, hp, PState.rank]; omega
    · rw [if_neg h1]
      by_cases h2 : p.dist = e.dist
      · rw [if_pos h2]
      · rw [if_neg h2]
        have := msum_insertOr hp es
        simp only [msum_cons, List.length_cons]; omega

theorem msum_incorporate (t nr nc : Nat) : ∀ (closer : List (Nat × Bool)) (acc : List Peer × Bool),
    msum (incorporate t nr nc closer acc).1 + 3 * acc.1.length
      = msum acc.1 + 3 * (incorporate t nr nc closer acc).1.length
  | [], acc => by simp [incorporate]
  | km :: rest, acc => by
    unfold incorporate
    have ih := msum_incorporate t nr nc rest
      (insertOr (mkPeer t km.1 km.2) acc.1,
        ((insertOr (mkPeer t km.1 km.2) acc.1).head?.map (·.dist)) == some (km.1 ^^^ t) || decide (nc < nr))
    have h1 := msum_insertOr (p := mkPeer t km.1 km.2) rfl acc.1
    dsimp only at ih ⊢
    omega

theorem incorporate_length_ge (t nr nc : Nat) : ∀ (closer : List (Nat × Bool)) (acc : List Peer × Bool),
    acc.1.length ≤ (incorporate t nr nc closer acc).1.length
  | [], acc => by simp [incorporate]
  | km :: rest, acc => by
    unfold incorporate
    have ih := incorporate_length_ge t nr nc rest
      (insertOr (mkPeer t km.1 km.2) acc.1,
        ((insertOr (mkPeer t km.1 km.2) acc.1).head?.map (·.dist)) == some (km.1 ^^^ t) || decide (nc < nr))
    have h1 := (length_insertOr (mkPeer t km.1 km.2) acc.1).1
    dsimp only at ih ⊢
    omega

/-- `next` never increases the measure and strictly decreases it whenever it hands out a request. -/
theorem potential_next (N : Nat) (q : Q) (now : Nat) :
    potential N (next q now).1 ≤ potential N q ∧
    (∀ k, (next q now).2 = .waiting (some k) → potential N (next q now).1 < potential N q) := by
  unfold next
  by_cases hf : q.progress.isFinished = true
  · rw [if_pos hf]; exact ⟨Nat.le_refl _, by intro k hk; cases hk⟩
  · rw [if_neg hf]
    have hm := nextLoop_msum q.variant q.cfg now (atCapacity q) q.peers (some 0) q.numWaiting
    have hl := (nextLoop_rel q.variant q.cfg now (atCapacity q) q.peers (some 0) q.numWaiting).length_eq
    unfold finishNext potential
    cases hL : (nextLoop q.variant q.cfg now (atCapacity q) q.peers (some 0) q.numWaiting).out with
    | emit k' =>
      rw [hL] at hm; simp only [emitBonus] at hm
      dsimp only
      rw [hl]
      exact ⟨by omega, fun _ _ => by omega⟩
    | atCap =>
      rw [hL] at hm; simp only [emitBonus] at hm
      dsimp only
      rw [hl]
      exact ⟨by omega, by intro k hk; cases hk⟩
    | fin =>
      rw [hL] at hm; simp only [emitBonus] at hm
      dsimp only
      rw [hl]
      exact ⟨by omega, by intro k hk; cases hk⟩
    | done =>
      rw [hL] at hm; simp only [emitBonus] at hm
      dsimp only
      by_cases hz : (nextLoop q.variant q.cfg now (atCapacity q) q.peers (some 0) q.numWaiting).nw > 0
      · rw [if_pos hz]; dsimp only; rw [hl]
        exact ⟨by omega, by intro k hk; cases hk⟩
      · rw [if_neg hz]; dsimp only; rw [hl]
        exact ⟨by omega, by intro k hk; cases hk⟩

/-- `on_failure` never increases the measure and strictly decreases it whenever it has an effect. -/
theorem potential_failure (N : Nat) (q : Q) (p : Nat) :
    potential N (onFailure q p) ≤ potential N q ∧
    (onFailure q p ≠ q → potential N (onFailure q p) < potential N q) := by
  have hnoop : potential N q ≤ potential N q ∧ (q ≠ q → potential N q < potential N q) :=
    ⟨Nat.le_refl _, fun h => absurd rfl h⟩
  unfold onFailure
  by_cases hf : q.progress.isFinished = true
  · rw [if_pos hf]; exact hnoop
  · rw [if_neg hf]
    cases hl : lookup (p ^^^ q.target) q.peers with
    | none => exact hnoop
    | some e =>
      have hm := msum_modifyAt (f := markFailed) hl
      have hlen := modifyAt_length (p ^^^ q.target) markFailed q.peers
      dsimp only
      cases hes : e.state with
      | notContacted => exact hnoop
      | failed => exact hnoop
      | succeeded => exact hnoop
      | waiting t =>
        dsimp only
        rw [hes] at hm; simp only [markFailed, PState.rank] at hm
        unfold potential
        dsimp only
        rw [hlen]
        exact ⟨by omega, fun _ => by omega⟩
      | unresponsive =>
        dsimp only
        rw [hes] at hm; simp only [markFailed, PState.rank] at hm
        cases hv : q.variant with
        | closest =>
          dsimp only
          unfold potential
          dsimp only
          rw [hlen]
          exact ⟨by omega, fun _ => by omega⟩
        | predicate => exact hnoop

/-- `on_success` never increases the measure and strictly decreases it whenever it has an effect
(`N` bounds the number of candidates after the call: every newly learned id moves 4 units of
budget to a `NotContacted` entry of rank 3). -/
theorem potential_success (N : Nat) (q : Q) (p : Nat) (closer : List (Nat × Bool))
    (hN : (onSuccess q p closer).peers.length ≤ N) :
    potential N (onSuccess q p closer) ≤ potential N q ∧
    (onSuccess q p closer ≠ q → potential N (onSuccess q p closer) < potential N q) := by
  have hnoop : potential N q ≤ potential N q ∧ (q ≠ q → potential N q < potential N q) :=
    ⟨Nat.le_refl _, fun h => absurd rfl h⟩
  have heff : ∀ (nw' : Nat) (e : Peer), lookup (p ^^^ q.target) q.peers = some e → 1 ≤ e.state.rank →
      (finishSuccess { q with numWaiting := nw' } (p ^^^ q.target) closer).peers.length ≤ N →
      potential N (finishSuccess { q with numWaiting := nw' } (p ^^^ q.target) closer) < potential N q := by
    intro nw' e hl hr hN'
    let ps1 := modifyAt (p ^^^ q.target) (markSucceeded closer.length) q.peers
    let r := incorporate q.target q.cfg.numResults ps1.length closer (ps1, false)
    have hm : msum ps1 + e.state.rank = msum q.peers + 0 := msum_modifyAt (f := markSucceeded closer.length) hl
    have hlen : ps1.length = q.peers.length := modifyAt_length _ _ _
    have hi : msum r.1 + 3 * ps1.length = msum ps1 + 3 * r.1.length :=
      msum_incorporate q.target q.cfg.numResults ps1.length closer (ps1, false)
    have hsp : ps1.length ≤ r.1.length :=
      incorporate_length_ge q.target q.cfg.numResults ps1.length closer (ps1, false)
    have hN'' : r.1.length ≤ N := hN'
    show msum r.1 + 4 * (N - r.1.length) < msum q.peers + 4 * (N - q.peers.length)
    omega
  unfold onSuccess at hN ⊢
  by_cases hf : q.progress.isFinished = true
  · rw [if_pos hf]; exact hnoop
  · rw [if_neg hf] at hN ⊢
    cases hl : lookup (p ^^^ q.target) q.peers with
    | none => exact hnoop
    | some e =>
      rw [hl] at hN
      dsimp only at hN ⊢
      cases hes : e.state with
      | notContacted => exact hnoop
      | failed => exact hnoop
      | succeeded => exact hnoop
      | waiting t =>
        rw [hes] at hN
        dsimp only at hN ⊢
        have := heff (q.numWaiting - 1) e hl (by rw [hes]; simp [PState.rank]) hN
        exact ⟨Nat.le_of_lt this, fun _ => this⟩
      | unresponsive =>
        rw [hes] at hN
        dsimp only at hN ⊢
        have := heff q.numWaiting e hl (by rw [hes]; simp [PState.rank]) hN
        exact ⟨Nat.le_of_lt this, fun _ => this⟩


theorem next_peers (q : Q) (now : Nat) (hf : q.progress.isFinished = false) :
    (next q now).1.peers = (nextLoop q.variant q.cfg now (atCapacity q) q.peers (some 0) q.numWaiting).peers := by
  unfold next
  rw [if_neg (by simp [hf])]
  unfold finishNext
  cases (nextLoop q.variant q.cfg now (atCapacity q) q.peers (some 0) q.numWaiting).out with
  | emit k => rfl
  | atCap => rfl
  | fin => rfl
  | done =>
    dsimp only
    by_cases hz : (nextLoop q.variant q.cfg now (atCapacity q) q.peers (some 0) q.numWaiting).nw > 0
    · rw [if_pos hz]
    · rw [if_neg hz]

theorem nextR_rank {now pto : Nat} {o : LoopOut} {a b : Peer} (h : NextR now pto o a b) :
    b.state.rank ≤ a.state.rank := by
  rcases h with rfl | ⟨ha, rfl, _⟩ | ⟨t, ha, _, rfl⟩
  · exact Nat.le_refl _
  · rw [ha]; simp [PState.rank]
  · rw [ha]; simp [PState.rank]

/-- One event never raises the rank of a candidate (NotContacted 3 > Waiting 2 > Unresponsive 1 >
Failed / Succeeded 0), and no candidate is ever dropped. -/
theorem step_rank_le {q : Q} (hs : Sorted q.peers) (ev : Ev) :
    ∀ e ∈ q.peers, ∃ e' ∈ (stepQ q ev).1.peers,
      e'.key = e.key ∧ e'.dist = e.dist ∧ e'.state.rank ≤ e.state.rank := by
  have hsame : ∀ e ∈ q.peers, ∃ e' ∈ q.peers, e'.key = e.key ∧ e'.dist = e.dist ∧ e'.state.rank ≤ e.state.rank :=
    fun e he => ⟨e, he, rfl, rfl, Nat.le_refl _⟩
  cases ev with
  | next now =>
    show ∀ e ∈ q.peers, ∃ e' ∈ (next q now).1.peers, _
    by_cases hf : q.progress.isFinished = true
    · have : (next q now).1 = q := by simp [next, hf]
      rw [this]; exact hsame
    · rw [next_peers q now (by simpa using hf)]
      intro e he
      obtain ⟨b, hb, hab⟩ := (nextLoop_rel q.variant q.cfg now (atCapacity q) q.peers (some 0) q.numWaiting).fwd e he
      exact ⟨b, hb, (nextR_key hab).1, (nextR_key hab).2.1, nextR_rank hab⟩
  | success p closer =>
    show ∀ e ∈ q.peers, ∃ e' ∈ (onSuccess q p closer).peers, _
    have heff : ∀ nw', ∀ e ∈ q.peers, ∃ e' ∈ (finishSuccess { q with numWaiting := nw' } (p ^^^ q.target) closer).peers,
        e'.key = e.key ∧ e'.dist = e.dist ∧ e'.state.rank ≤ e.state.rank := by
      intro nw' e he
      have hrel := modifyAt_rel (p ^^^ q.target) (markSucceeded closer.length) q.peers
      have hs1 : Sorted (modifyAt (p ^^^ q.target) (markSucceeded closer.length) q.peers) := by
        rw [sorted_iff_map, Rel2.map_eq (·.dist) (fun a b hab => (modR_succ_key hab).2.1) hrel, ← sorted_iff_map]
        exact hs
      obtain ⟨b, hb, hab⟩ := hrel.fwd e he
      have hmem := (incorporate_spec q.target q.cfg.numResults
        (modifyAt (p ^^^ q.target) (markSucceeded closer.length) q.peers).length closer
        (modifyAt (p ^^^ q.target) (markSucceeded closer.length) q.peers, false) hs1).2.1 b hb
      refine ⟨b, hmem, (modR_succ_key hab).1, (modR_succ_key hab).2.1, ?_⟩
      rcases hab with rfl | ⟨_, rfl⟩
      · exact Nat.le_refl _
      · simp [markSucceeded, PState.rank]
    unfold onSuccess
    by_cases hf : q.progress.isFinished = true
    · rw [if_pos hf]; exact hsame
    · rw [if_neg hf]
      cases hl : lookup (p ^^^ q.target) q.peers with
      | none => exact hsame
      | some e0 =>
        dsimp only
        cases hes : e0.state with
        | notContacted => exact hsame
        | failed => exact hsame
        | succeeded => exact hsame
        | waiting t => exact heff _
        | unresponsive => exact heff _
  | failure p =>
    show ∀ e ∈ q.peers, ∃ e' ∈ (onFailure q p).peers, _
    have heff : ∀ e ∈ q.peers, ∃ e' ∈ modifyAt (p ^^^ q.target) markFailed q.peers,
        e'.key = e.key ∧ e'.dist = e.dist ∧ e'.state.rank ≤ e.state.rank := by
      intro e he
      obtain ⟨b, hb, hab⟩ := (modifyAt_rel (p ^^^ q.target) markFailed q.peers).fwd e he
      refine ⟨b, hb, (modR_fail_key hab).1, (modR_fail_key hab).2.1, ?_⟩
      rcases hab with rfl | ⟨_, rfl⟩
      · exact Nat.le_refl _
      · simp [markFailed, PState.rank]
    unfold onFailure
    by_cases hf : q.progress.isFinished = true
    · rw [if_pos hf]; exact hsame
    · rw [if_neg hf]
      cases hl : lookup (p ^^^ q.target) q.peers with
      | none => exact hsame
      | some e0 =>
        dsimp only
        cases hes : e0.state with
        | notContacted => exact hsame
        | failed => exact hsame
        | succeeded => exact hsame
        | waiting t => exact heff
        | unresponsive =>
          dsimp only
          cases hv : q.variant with
          | closest => exact heff
          | predicate => exact hsame


/-! ### queries inside the pool are reachable query states -/

/-- `q` is the state of some query after some history of `next` / `on_success` / `on_failure`
calls from its constructor. -/
def Reach (q : Q) : Prop :=
  ∃ v cfg t known evs, q = runQ (withConfig v cfg t known) evs

theorem Reach.step {q : Q} (h : Reach q) (ev : Ev) : Reach (stepQ q ev).1 := by
  obtain ⟨v, cfg, t, known, evs, rfl⟩ := h
  exact ⟨v, cfg, t, known, evs ++ [ev], by rw [runQ_append]; rfl⟩

theorem reach_replaceQ {x' : PQ} {qs : List PQ} (hq : ∀ y ∈ qs, Reach y.q) (hx : Reach x'.q) :
    ∀ y ∈ replaceQ x' qs, Reach y.q := by
  intro y hy
  rcases mem_replaceQ hy with rfl | h
  · exact hx
  · exact hq y h

theorem reach_pollLoop (timeout now : Nat) : ∀ (order : List Nat) (qs : List PQ),
    (∀ y ∈ qs, Reach y.q) → ∀ y ∈ (pollLoop timeout now order qs).1, Reach y.q
  | [], qs, h => h
  | i :: rest, qs, h => by
    unfold pollLoop
    cases hfind : qs.find? (fun x => x.id == i) with
    | none => exact reach_pollLoop timeout now rest qs h
    | some x =>
      obtain ⟨hxm, _⟩ := find_id hfind
      have hx' : Reach (next x.q now).1 := (h x hxm).step (.next now)
      have hq' := reach_replaceQ (x' := { x with q := (next x.q now).1, started := some (x.started.getD now) }) h hx'
      dsimp only
      cases hst : (next x.q now).2 with
      | finished => exact hq'
      | waitingAtCapacity =>
        dsimp only
        by_cases hto : now - x.started.getD now ≥ timeout
        · rw [if_pos hto]; exact hq'
        · rw [if_neg hto]; exact reach_pollLoop timeout now rest _ hq'
      | waiting o =>
        cases o with
        | some k => exact hq'
        | none =>
          dsimp only
          by_cases hto : now - x.started.getD now ≥ timeout
          · rw [if_pos hto]; exact hq'
          · rw [if_neg hto]; exact reach_pollLoop timeout now rest _ hq'

/-- The query carried by a `Finished` / `Timeout` return value. -/
def retQuery : PoolOut → Option Q
  | .finished _ q => some q
  | .timeout _ q => some q
  | _ => none

theorem reach_poll (p : Pool) (now : Nat) (order : List Nat) (h : ∀ y ∈ p.queries, Reach y.q) :
    (∀ y ∈ (p.poll now order).1.queries, Reach y.q) ∧
    (∀ q, retQuery (p.poll now order).2 = some q → Reach q) := by
  have hl := reach_pollLoop p.timeout now order p.queries h
  have hrem : ∀ i, ∀ y ∈ removeQ i (pollLoop p.timeout now order p.queries).1, Reach y.q := by
    intro i y hy
    unfold removeQ at hy
    exact hl y (List.mem_filter.mp hy).1
  unfold Pool.poll
  dsimp only
  cases hb : (pollLoop p.timeout now order p.queries).2 with
  | none =>
    dsimp only
    refine ⟨hl, ?_⟩
    intro q hq
    by_cases he : (pollLoop p.timeout now order p.queries).1.isEmpty = true
    · rw [if_pos he] at hq; cases hq
    · rw [if_neg he] at hq; cases hq
  | wait i k => exact ⟨hl, by intro q hq; cases hq⟩
  | fin i =>
    dsimp only
    cases hfind : (pollLoop p.timeout now order p.queries).1.find? (fun x => x.id == i) with
    | none => exact ⟨hl, by intro q hq; cases hq⟩
    | some x =>
      dsimp only
      refine ⟨hrem i, ?_⟩
      intro q hq
      cases hq
      exact hl x (find_id hfind).1
  | tmo i =>
    dsimp only
    cases hfind : (pollLoop p.timeout now order p.queries).1.find? (fun x => x.id == i) with
    | none => exact ⟨hl, by intro q hq; cases hq⟩
    | some x =>
      dsimp only
      refine ⟨hrem i, ?_⟩
      intro q hq
      cases hq
      exact hl x (find_id hfind).1

theorem reach_stepP {p : Pool} (h : ∀ y ∈ p.queries, Reach y.q) (ev : PEv) :
    (∀ y ∈ (stepP p ev).1.queries, Reach y.q) ∧
    (∀ o q, (stepP p ev).2 = some o → retQuery o = some q → Reach q) := by
  cases ev with
  | add v cfg t known =>
    refine ⟨?_, by intro o q ho; cases ho⟩
    intro y hy
    have hy' : y ∈ (⟨p.nextId, withConfig v cfg t known, none⟩ : PQ) :: p.queries.filter (fun x => x.id != p.nextId) := hy
    rcases List.mem_cons.mp hy' with rfl | h'
    · exact ⟨v, cfg, t, known, [], rfl⟩
    · exact h y (List.mem_filter.mp h').1
  | poll now order =>
    obtain ⟨h1, h2⟩ := reach_poll p now order h
    refine ⟨h1, ?_⟩
    intro o q ho hq
    have : o = (p.poll now order).2 := by
      have : (stepP p (.poll now order)).2 = some (p.poll now order).2 := rfl
      rw [this] at ho; cases ho; rfl
    rw [this] at hq
    exact h2 q hq
  | success id peer closer =>
    refine ⟨?_, by intro o q ho; cases ho⟩
    show ∀ y ∈ (p.onSuccess id peer closer).queries, Reach y.q
    unfold Pool.onSuccess
    cases hg : p.get id with
    | none => exact h
    | some x =>
      dsimp only
      have hxm := (find_id (show p.queries.find? (fun y => y.id == id) = some x from hg)).1
      exact reach_replaceQ h ((h x hxm).step (.success peer closer))
  | failure id peer =>
    refine ⟨?_, by intro o q ho; cases ho⟩
    show ∀ y ∈ (p.onFailure id peer).queries, Reach y.q
    unfold Pool.onFailure
    cases hg : p.get id with
    | none => exact h
    | some x =>
      dsimp only
      have hxm := (find_id (show p.queries.find? (fun y => y.id == id) = some x from hg)).1
      exact reach_replaceQ h ((h x hxm).step (.failure peer))

theorem reach_runP : ∀ (evs : List PEv) (p : Pool), (∀ y ∈ p.queries, Reach y.q) →
    (∀ y ∈ (runP p evs).queries, Reach y.q) ∧
    (∀ o ∈ outsP p evs, ∀ q, retQuery o = some q → Reach q)
  | [], p, h => ⟨h, by intro o ho; cases ho⟩
  | ev :: evs, p, h => by
    obtain ⟨h1, h2⟩ := reach_stepP h ev
    obtain ⟨i1, i2⟩ := reach_runP evs (stepP p ev).1 h1
    refine ⟨i1, ?_⟩
    intro o ho q hq
    rw [outsP_cons] at ho
    rcases List.mem_append.mp ho with h' | h'
    · cases hso : (stepP p ev).2 with
      | none => rw [hso] at h'; simp at h'
      | some o' =>
        rw [hso] at h'
        simp at h'
        subst h'
        exact h2 o q hso hq
    · exact i2 o h' q hq

end Discv5.Query

/-
Ghost ledger for `Model/Lookup.lean`: the peers `next` hands out while the service serves a lookup,
over the whole life of the lookup, are the `requests` of a query history - hence pairwise distinct
(`Query.no_recontact`): the service never asks `send_rpc_query` for the same peer twice in one lookup.
-/
import Discv5Model.Proofs.LookupLemmas
import Discv5Model.Props.C09

namespace Discv5.Lookup

open Discv5.KB
open Discv5.Svc
open Discv5.Svc.Svc
open Discv5.Query (runQ stepQ withConfig Variant runQ_append requests emittedOf)

theorem requests_append (q : Q) (a b : List Query.Ev) :
    requests q (a ++ b) = requests q a ++ requests (runQ q a) b := by
  induction a generalizing q with
  | nil => rfl
  | cons ev a ih =>
    show (emittedOf (stepQ q ev).2).toList ++ requests (stepQ q ev).1 (a ++ b) = _
    rw [ih, ← List.append_assoc]
    rfl

/-- The peers `next` hands out while the service loop serves the lookup (whether or not the request
could then be sent). -/
def pumpPeers (now : Nat) : Nat → Svc → Q → List Nat
  | 0, _, _ => []
  | fuel + 1, s, q =>
    match Query.next q now with
    | (q1, .waiting (some p)) =>
      p :: (if (s.sendRpcQuery p).2.isEmpty then pumpPeers now fuel (s.sendRpcQuery p).1 (Query.onFailure q1 p)
            else pumpPeers now fuel (s.sendRpcQuery p).1 q1)
    | _ => []

/-- `q` is a query history and `sel` is the list of peers `next` handed out along it. -/
def IsLedger (c : LCfg) (q : Q) (sel : List Nat) : Prop :=
  ∃ v n target known evs, q = runQ (withConfig v (qcfg c n) target known) evs ∧
    sel = requests (withConfig v (qcfg c n) target known) evs

theorem IsLedger.nodup {c : LCfg} {q : Q} {sel : List Nat} (h : IsLedger c q sel) : sel.Nodup := by
  obtain ⟨v, n, target, known, evs, _, rfl⟩ := h
  exact Discv5.Query.no_recontact v (qcfg c n) target known evs

theorem IsLedger.history {c : LCfg} {q : Q} {sel : List Nat} (h : IsLedger c q sel) : IsHistory c q := by
  obtain ⟨v, n, target, known, evs, rfl, _⟩ := h
  exact ⟨v, n, target, known, evs, rfl⟩

theorem IsLedger.step {c : LCfg} {q : Q} {sel : List Nat} (h : IsLedger c q sel) (ev : Query.Ev) :
    IsLedger c (stepQ q ev).1 (sel ++ (emittedOf (stepQ q ev).2).toList) := by
  obtain ⟨v, n, target, known, evs, rfl, rfl⟩ := h
  refine ⟨v, n, target, known, evs ++ [ev], by rw [runQ_append]; rfl, ?_⟩
  rw [requests_append]
  simp [requests]

theorem IsLedger.silent {c : LCfg} {q : Q} {sel : List Nat} (h : IsLedger c q sel) (ev : Query.Ev)
    (hs : emittedOf (stepQ q ev).2 = none) : IsLedger c (stepQ q ev).1 sel := by
  have := h.step ev
  rw [hs] at this
  simpa using this

theorem IsLedger.applyEffect {c : LCfg} {q : Q} {sel : List Nat} (h : IsLedger c q sel) (e : QEffect) :
    IsLedger c (applyEffect c q e) sel := by
  cases e with
  | success src kept => exact h.silent (.success src _) rfl
  | failure p => exact h.silent (.failure p) rfl

/-- The peers handed out while the loop runs extend the ledger. -/
theorem pumpLoop_ledger (c : LCfg) (now : Nat) :
    ∀ (fuel : Nat) (s : Svc) (q : Q) (outs : List Out) (sel : List Nat), IsLedger c q sel →
      (∀ q', (pumpLoop now fuel s q outs).2.1 = some q' → IsLedger c q' (sel ++ pumpPeers now fuel s q)) ∧
      (sel ++ pumpPeers now fuel s q).Nodup := by
  intro fuel
  induction fuel with
  | zero =>
    intro s q outs sel h
    refine ⟨?_, by simpa [pumpPeers] using h.nodup⟩
    intro q' hq
    simp only [pumpLoop] at hq
    cases hq
    simpa [pumpPeers] using h
  | succ fuel ih =>
    intro s q outs sel h
    have hn := h.step (.next now)
    unfold pumpLoop pumpPeers
    have hstep : stepQ q (.next now) = ((Query.next q now).1, some (Query.next q now).2) := rfl
    rw [hstep] at hn
    generalize Query.next q now = r at hn
    obtain ⟨q1, st⟩ := r
    simp only at hn
    cases st with
    | waiting op =>
      cases op with
      | none =>
        simp only [emittedOf, Option.toList, List.append_nil] at hn
        refine ⟨?_, by simpa using hn.nodup⟩
        intro q' hq; simp only at hq; cases hq; simpa using hn
      | some p =>
        simp only [emittedOf, Option.toList] at hn
        simp only
        split
        · rename_i he
          have hf := hn.silent (.failure p) rfl
          have := ih (s.sendRpcQuery p).1 (Query.onFailure q1 p) outs (sel ++ [p]) hf
          simp only [List.append_assoc, List.singleton_append] at this
          exact this
        · rename_i he
          have := ih (s.sendRpcQuery p).1 q1 (outs ++ (s.sendRpcQuery p).2) (sel ++ [p]) hn
          simp only [List.append_assoc, List.singleton_append] at this
          exact this
    | waitingAtCapacity =>
      simp only [emittedOf, Option.toList, List.append_nil] at hn
      refine ⟨?_, by simpa using hn.nodup⟩
      intro q' hq; simp only at hq; cases hq; simpa using hn
    | finished =>
      simp only [emittedOf, Option.toList, List.append_nil] at hn
      refine ⟨?_, by simpa using hn.nodup⟩
      intro q' hq; simp only at hq; cases hq

/-! ## The ledger along the steps of the composition -/

/-- The ledger after `pump`. -/
def pumpSel (now : Nat) (k : LSvc) (sel : List Nat) : List Nat :=
  match k.q with
  | none => sel
  | some q => sel ++ pumpPeers now (q.peers.length + 1) k.svc q

/-- The ledger of the running lookup after a step: peers handed out so far (reset when a lookup starts). -/
def stepSel (c : LCfg) (now : Nat) (k : LSvc) (sel : List Nat) : LInput → List Nat
  | .svc o inp =>
    pumpSel now { svc := (k.svc.step o inp).1, q := match k.q, effectOf k.svc inp with
      | some q, some e => some (applyEffect c q e)
      | q, _ => q } sel
  | .lookup target n =>
    if k.q.isSome then sel else
    match (k.svc.startQuery target).query with
    | none => []
    | some qq => pumpSel now { svc := k.svc.startQuery target, q := some (newQ c target n qq) } []

/-- While a lookup runs, the ledger is the `requests` of the history the lookup's state is the end of. -/
def LedInv (c : LCfg) (k : LSvc) (sel : List Nat) : Prop := ∀ q, k.q = some q → IsLedger c q sel

theorem pump_ledger (c : LCfg) (now : Nat) (k : LSvc) (sel : List Nat) (h : LedInv c k sel) :
    LedInv c (pump now k).1 (pumpSel now k sel) ∧ (k.q.isSome = true → (pumpSel now k sel).Nodup) := by
  unfold pump pumpSel LedInv
  cases hq : k.q with
  | none =>
    refine ⟨?_, fun h' => by cases h'⟩
    intro q h'
    simp only at h'
    rw [hq] at h'
    cases h'
  | some q0 =>
    have := pumpLoop_ledger c now (q0.peers.length + 1) k.svc q0 [] sel (h q0 hq)
    exact ⟨this.1, fun _ => this.2⟩

theorem step_ledger (c : LCfg) (now : Nat) (k : LSvc) (sel : List Nat) (i : LInput) (h : LedInv c k sel) :
    LedInv c (k.step c now i).1 (stepSel c now k sel i) := by
  cases i with
  | svc o inp =>
    rw [step_svc]
    refine (pump_ledger c now _ sel ?_).1
    intro q hq
    simp only at hq
    cases hk : k.q with
    | none => rw [hk] at hq; simp at hq
    | some q0 =>
      rw [hk] at hq
      cases he : effectOf k.svc inp with
      | none =>
        rw [he] at hq; simp only at hq
        have e0 : q0 = q := Option.some.inj hq
        rw [← e0]; exact h q0 hk
      | some e =>
        rw [he] at hq; simp only at hq
        have e0 : applyEffect c q0 e = q := Option.some.inj hq
        rw [← e0]; exact (h q0 hk).applyEffect e
  | lookup target n =>
    unfold stepSel
    cases hr : k.q.isSome with
    | true => rw [step_lookup_running c now k target n hr]; simpa using h
    | false =>
      simp only [Bool.false_eq_true, if_false]
      cases hs : (k.svc.startQuery target).query with
      | none =>
        rw [step_lookup_empty c now k target n hr hs]
        intro q hq; cases hq
      | some qq =>
        rw [step_lookup_start c now k target n qq hr hs]
        refine (pump_ledger c now _ [] ?_).1
        intro q hq
        simp only [Option.some.injEq] at hq
        subst hq
        cases n with
        | none => exact ⟨.closest, _, target, _, [], rfl, rfl⟩
        | some m => exact ⟨.predicate, m, target, _, [], rfl, rfl⟩

/-- A history with its ledger. -/
def runSel (c : LCfg) : LSvc → List Nat → List (Nat × LInput) → LSvc × List Nat
  | k, sel, [] => (k, sel)
  | k, sel, (now, i) :: rest => runSel c (k.step c now i).1 (stepSel c now k sel i) rest

theorem runSel_ledger (c : LCfg) (steps : List (Nat × LInput)) :
    ∀ (k : LSvc) (sel : List Nat), LedInv c k sel →
      LedInv c (runSel c k sel steps).1 (runSel c k sel steps).2 := by
  induction steps with
  | nil => intro k sel h; exact h
  | cons s rest ih =>
    intro k sel h
    obtain ⟨now, i⟩ := s
    exact ih _ _ (step_ledger c now k sel i h)

end Discv5.Lookup

/- C16 helper lemmas, part 2: per-bucket invariants in counting form and what every bucket
operation does to them. -/
import Discv5Model.Proofs.IpFilterShapes
namespace Discv5.KB.Ip

def inS (s : Nat) : KV := fun _ v => decide (v.subnet = some s)
def keyIs (k : Nat) : KV := fun k' _ => k' == k
def valIs (v : Val) : KV := fun _ v' => decide (v' = v)
def badKey (keyOf : Val → Nat) : KV := fun k v => k != keyOf v

def UB (b : Bucket Val) : Prop := ∀ k, A (keyIs k) b ≤ 1
def VB (keyOf : Val → Nat) (b : Bucket Val) : Prop := A (badKey keyOf) b = 0
def NB (b : Bucket Val) : Prop := ∀ s, W (inS s) b.nodes ≤ 2
def Mono (b b' : Bucket Val) : Prop := ∀ p, A p b' ≤ A p b
def MonoEx (k : Nat) (v : Val) (b b' : Bucket Val) : Prop := ∀ p : KV, p k v = false → A p b' ≤ A p b

theorem Mono.refl (b : Bucket Val) : Mono b b := fun _ => Nat.le_refl _
theorem Mono.trans {a b c : Bucket Val} (h1 : Mono a b) (h2 : Mono b c) : Mono a c :=
  fun p => Nat.le_trans (h2 p) (h1 p)
theorem Mono.ex {a b : Bucket Val} (h : Mono a b) (k v) : MonoEx k v a b := fun p _ => h p
theorem MonoEx.trans {k v} {a b c : Bucket Val} (h1 : MonoEx k v a b) (h2 : MonoEx k v b c) :
    MonoEx k v a c := fun p hp => Nat.le_trans (h2 p hp) (h1 p hp)
theorem Mono.ub {a b : Bucket Val} (h : Mono a b) (hu : UB a) : UB b :=
  fun k => Nat.le_trans (h _) (hu k)
theorem Mono.vb {keyOf} {a b : Bucket Val} (h : Mono a b) (hv : VB keyOf a) : VB keyOf b :=
  Nat.le_zero.mp (hv ▸ h _)
theorem MonoEx.vb {keyOf k v} {a b : Bucket Val} (h : MonoEx k v a b) (hk : k = keyOf v)
    (hv : VB keyOf a) : VB keyOf b :=
  Nat.le_zero.mp (hv ▸ h (badKey keyOf) (by simp [badKey, hk]))

@[simp] theorem PW_none (p : KV) : PW p none = 0 := rfl
@[simp] theorem PW_some (p : KV) (q) : PW p (some q) = bit (p q.node.key q.node.value) := rfl
theorem PW_le_one (p : KV) (o) : PW p o ≤ 1 := by
  cases o <;> simp [bit]; split <;> omega
theorem bit_le_one (b : Bool) : bit b ≤ 1 := by unfold bit; split <;> omega

/-! ### the filter in counting form -/

theorem subnetCount_map_filter (s : Nat) (v : Val) (l : List (Node Val)) :
    subnetCount s ((l.map (·.value)).filter (· ≠ v)) = W (fun k x => inS s k x && !valIs v k x) l := by
  induction l with
  | nil => rfl
  | cons x l ih =>
    rw [W_cons, ← ih]
    by_cases h1 : x.value = v <;> by_cases h2 : x.value.subnet = some s <;>
      simp [subnetCount, h1, h2, inS, valIs, bit]

theorem subnetCount_values (s : Nat) (l : List (Node Val)) :
    subnetCount s (l.map (·.value)) = W (inS s) l := by
  induction l with
  | nil => rfl
  | cons x l ih =>
    rw [W_cons, ← ih]
    by_cases h2 : x.value.subnet = some s <;> simp [subnetCount, h2, inS, bit]

theorem ipFilter_count (limit : Nat) (hl : 1 ≤ limit) (v : Val) (s : Nat) (hs : v.subnet = some s)
    (l : List (Node Val)) (h : ipFilter limit v (l.map (·.value)) = true) :
    W (fun k x => inS s k x && !valIs v k x) l < limit := by
  unfold ipFilter at h
  rw [hs] at h
  simp only [] at h
  rw [ipCountLoop_spec limit v s _ 0 hl] at h
  rw [subnetCount_map_filter] at h
  simpa using h

/-- adding a fresh value `v` after the filter accepted it keeps the count within `limit` -/
theorem count_after_add (limit : Nat) (hl : 1 ≤ limit) (v : Val) (l : List (Node Val))
    (h : ipFilter limit v (l.map (·.value)) = true) (hfresh : ∀ n ∈ l, n.value ≠ v)
    (hle : ∀ s, W (inS s) l ≤ limit) (k : Nat) (s : Nat) :
    W (inS s) l + bit (inS s k v) ≤ limit := by
  by_cases hs : v.subnet = some s
  · have h1 := ipFilter_count limit hl v s hs l h
    have h2 := W_split (inS s) (valIs v) l
    have h3 : W (fun k x => inS s k x && valIs v k x) l = 0 := by
      rw [W_eq_zero]; intro n hn; simp [valIs, hfresh n hn]
    have := bit_le_one (inS s k v)
    omega
  · have : bit (inS s k v) = 0 := by simp [inS, hs, bit]
    have := hle s
    omega

/-! ### insert -/

theorem insert_A (c : Cfg Val) (now : Nat) (b : Bucket Val) (node : Node Val) (p : KV) :
    A p (b.insert c now node).1 ≤ A p b + bit (p node.key node.value) := by
  rcases insert_shape c now b node with h | ⟨_, ⟨hn, hp⟩ | ⟨⟨k, hn⟩, hp | hp⟩⟩
  · rw [h]; omega
  · unfold A; rw [hn, hp]; simp only [PW_some]; omega
  · unfold A; rw [hn, hp, W_insertAt]; omega
  · unfold A; rw [hn, hp, W_insertAt]; simp only [PW_none]; omega

theorem insert_W (c : Cfg Val) (now : Nat) (b : Bucket Val) (node : Node Val) (p : KV) :
    W p (b.insert c now node).1.nodes ≤ W p b.nodes + bit (p node.key node.value) := by
  rcases insert_shape c now b node with h | ⟨_, ⟨hn, hp⟩ | ⟨⟨k, hn⟩, hp⟩⟩
  · rw [h]; omega
  · rw [hn]; omega
  · rw [hn, W_insertAt]; omega

theorem insert_NB (mi pt now : Nat) (b : Bucket Val) (node : Node Val) (hnb : NB b)
    (hfresh : ∀ n ∈ b.nodes, n.value ≠ node.value) :
    NB (b.insert (ipCfg mi pt) now node).1 := by
  intro s
  rcases insert_shape (ipCfg mi pt) now b node with h | ⟨hf, ⟨hn, hp⟩ | ⟨⟨k, hn⟩, hp⟩⟩
  · rw [h]; exact hnb s
  · rw [hn]; exact hnb s
  · rw [hn, W_insertAt]
    exact count_after_add 2 (by omega) node.value b.nodes hf hfresh hnb node.key s

/-! ### applyPending -/

theorem applyPending_mono (c : Cfg Val) (now tick : Nat) (b : Bucket Val) :
    Mono b (b.applyPending c now tick).1 := by
  intro q
  rcases applyPending_shape c now tick b with h | ⟨hn, hp⟩ | ⟨p, n0, rest, k, hbp, hbn, _, hp, hn⟩ |
    ⟨p, hbp, h⟩
  · rw [h]; omega
  · unfold A; rw [hn, hp]; simp only [PW_none]; omega
  · unfold A; rw [hn, hp, hbp, hbn, W_insertAt, W_cons]; simp only [PW_none, PW_some]; omega
  · rw [h]
    have := insert_A c now { b with pending := none } { p.node with stamp := tick } q
    unfold A at this ⊢
    rw [hbp]; simp only [PW_none, PW_some] at this ⊢; omega

theorem applyPending_NB (mi pt now tick : Nat) (b : Bucket Val) (hnb : NB b)
    (hfresh : ∀ p, b.pending = some p → ∀ n ∈ b.nodes, n.value ≠ p.node.value) :
    NB (b.applyPending (ipCfg mi pt) now tick).1 := by
  rcases applyPending_shape (ipCfg mi pt) now tick b with h | ⟨hn, hp⟩ |
    ⟨p, n0, rest, k, hbp, hbn, hf, hp, hn⟩ | ⟨p, hbp, h⟩
  · rw [h]; exact hnb
  · intro s; rw [hn]; exact hnb s
  · intro s
    rw [hn, W_insertAt]
    have := count_after_add 2 (by omega) p.node.value b.nodes hf (hfresh p hbp) hnb p.node.key s
    rw [hbn, W_cons] at this
    dsimp only at this ⊢
    omega
  · rw [h]
    exact insert_NB mi pt now _ _ hnb (hfresh p hbp)

/-! ### updateStatus -/

theorem updateStatus_mono (c : Cfg Val) (now tick : Nat) (b : Bucket Val) (key : Nat) (conn : Bool)
    (dir : Option Bool) : Mono b (b.updateStatus c now tick key conn dir).1 := by
  intro q
  rcases updateStatus_shape c now tick b key conn dir with h | ⟨p, st', hbp, _, hn, hp⟩ |
    ⟨pos, old, st', fcp', pend', hold, hpend, h⟩
  · rw [h]; omega
  · unfold A; rw [hn, hp, hbp]; simp only [PW_some]; omega
  · rw [h]
    have h1 := insert_A c now ⟨removeAt b.nodes pos, fcp', pend'⟩ { old with st := st', stamp := tick } q
    have h2 := W_removeAt q b.nodes pos old hold
    have h3 : PW q pend' ≤ PW q b.pending := by
      rcases hpend with h | h <;> rw [h] <;> simp
    unfold A at h1 ⊢
    simp only [] at h1
    omega

theorem updateStatus_W (c : Cfg Val) (now tick : Nat) (b : Bucket Val) (key : Nat) (conn : Bool)
    (dir : Option Bool) (q : KV) :
    W q (b.updateStatus c now tick key conn dir).1.nodes ≤ W q b.nodes := by
  rcases updateStatus_shape c now tick b key conn dir with h | ⟨p, st', hbp, _, hn, hp⟩ |
    ⟨pos, old, st', fcp', pend', hold, hpend, h⟩
  · rw [h]; omega
  · rw [hn]; omega
  · rw [h]
    have h1 := insert_W c now ⟨removeAt b.nodes pos, fcp', pend'⟩ { old with st := st', stamp := tick } q
    have h2 := W_removeAt q b.nodes pos old hold
    simp only [] at h1
    omega

theorem updateStatus_NB (c : Cfg Val) (now tick : Nat) (b : Bucket Val) (key : Nat) (conn : Bool)
    (dir : Option Bool) (h : NB b) : NB (b.updateStatus c now tick key conn dir).1 :=
  fun s => Nat.le_trans (updateStatus_W c now tick b key conn dir _) (h s)


theorem VB_iff (keyOf : Val → Nat) (b : Bucket Val) :
    VB keyOf b ↔ (∀ n ∈ b.nodes, n.key = keyOf n.value) ∧
      (∀ p, b.pending = some p → p.node.key = keyOf p.node.value) := by
  unfold VB A
  rw [Nat.add_eq_zero_iff, W_eq_zero]
  constructor
  · rintro ⟨h1, h2⟩
    refine ⟨fun n hn => by simpa [badKey] using h1 n hn, fun p hp => ?_⟩
    rw [hp] at h2
    simpa [badKey, bit] using h2
  · rintro ⟨h1, h2⟩
    refine ⟨fun n hn => by simpa [badKey] using h1 n hn, ?_⟩
    cases hp : b.pending with
    | none => rfl
    | some p => simpa [badKey, bit] using h2 p hp

theorem UB_nodes_fresh (b : Bucket Val) (hu : UB b) (pos : Nat) (x : Node Val)
    (hx : b.nodes[pos]? = some x) : ∀ n ∈ removeAt b.nodes pos, n.key ≠ x.key := by
  have h1 := hu x.key
  have h2 := W_removeAt (keyIs x.key) b.nodes pos x hx
  have h3 : bit (keyIs x.key x.key x.value) = 1 := by simp [keyIs, bit]
  unfold A at h1
  have h4 : W (keyIs x.key) (removeAt b.nodes pos) = 0 := by omega
  rw [W_eq_zero] at h4
  intro n hn
  simpa [keyIs] using h4 n hn

theorem UB_pending_fresh (b : Bucket Val) (hu : UB b) (p : Pending Val) (hp : b.pending = some p) :
    ∀ n ∈ b.nodes, n.key ≠ p.node.key := by
  have h1 := hu p.node.key
  unfold A at h1
  rw [hp] at h1
  have h3 : bit (keyIs p.node.key p.node.key p.node.value) = 1 := by simp [keyIs, bit]
  simp only [PW_some] at h1
  have h4 : W (keyIs p.node.key) b.nodes = 0 := by omega
  rw [W_eq_zero] at h4
  intro n hn
  simpa [keyIs] using h4 n hn

theorem pending_value_fresh (keyOf : Val → Nat) (b : Bucket Val) (hu : UB b) (hv : VB keyOf b) :
    ∀ p, b.pending = some p → ∀ n ∈ b.nodes, n.value ≠ p.node.value := by
  intro p hp n hn heq
  rw [VB_iff] at hv
  have h1 := hv.1 n hn
  have h2 := hv.2 p hp
  exact UB_pending_fresh b hu p hp n hn (by rw [h1, h2, heq])

/-! ### updateValue -/

theorem updateValue_ex (c : Cfg Val) (b : Bucket Val) (key : Nat) (value : Val) :
    MonoEx key value b (b.updateValue c key value).1 := by
  intro q hq
  rcases updateValue_shape c b key value with h | ⟨pos, node, hpos, hnode, hp, hn | ⟨_, hn⟩⟩ |
    ⟨p, hbp, hk, hn, hp⟩
  · rw [h]; omega
  · unfold A; rw [hn, hp]; have := W_removeAt_le q b.nodes pos; omega
  · obtain ⟨x, hx, hxk⟩ := position_some b key pos hpos
    rw [hnode] at hx; cases hx
    unfold A; rw [hn, hp, W_insertAt]; dsimp only
    rw [hxk, hq]
    have := W_removeAt_le q b.nodes pos
    simp [bit]; omega
  · unfold A; rw [hn, hp]; simp only [PW_some]; rw [hk, hq]; simp [bit]

theorem updateValue_key (c : Cfg Val) (b : Bucket Val) (key : Nat) (value : Val) (k : Nat) :
    A (keyIs k) (b.updateValue c key value).1 ≤ A (keyIs k) b := by
  rcases updateValue_shape c b key value with h | ⟨pos, node, hpos, hnode, hp, hn | ⟨_, hn⟩⟩ |
    ⟨p, hbp, hk, hn, hp⟩
  · rw [h]; omega
  · unfold A; rw [hn, hp]; have := W_removeAt_le (keyIs k) b.nodes pos; omega
  · unfold A; rw [hn, hp, W_insertAt]
    have := W_removeAt (keyIs k) b.nodes pos node hnode
    simp only [keyIs] at this ⊢
    omega
  · unfold A; rw [hn, hp, hbp]; simp only [PW_some, keyIs]; omega

theorem updateValue_UB (c : Cfg Val) (b : Bucket Val) (key : Nat) (value : Val) (hu : UB b) :
    UB (b.updateValue c key value).1 :=
  fun k => Nat.le_trans (updateValue_key c b key value k) (hu k)

theorem updateValue_NB (keyOf : Val → Nat) (mi pt : Nat) (b : Bucket Val) (key : Nat) (value : Val)
    (hnb : NB b) (hu : UB b) (hv : VB keyOf b) (hk : key = keyOf value) :
    NB (b.updateValue (ipCfg mi pt) key value).1 := by
  intro s
  rcases updateValue_shape (ipCfg mi pt) b key value with h | ⟨pos, node, hpos, hnode, hp, hn | ⟨hf, hn⟩⟩ |
    ⟨p, hbp, hk, hn, hp⟩
  · rw [h]; exact hnb s
  · rw [hn]; exact Nat.le_trans (W_removeAt_le _ _ _) (hnb s)
  · obtain ⟨x, hx, hxk⟩ := position_some b key pos hpos
    rw [hnode] at hx; cases hx
    rw [hn, W_insertAt]
    have hfresh : ∀ n ∈ removeAt b.nodes pos, n.value ≠ value := by
      intro n hn heq
      have h1 := ((VB_iff keyOf b).mp hv).1 n (mem_removeAt _ _ _ hn)
      exact UB_nodes_fresh b hu pos node hnode n hn (by rw [h1, heq, hxk, hk])
    exact count_after_add 2 (by omega) value (removeAt b.nodes pos) hf hfresh
      (fun s => Nat.le_trans (W_removeAt_le _ _ _) (hnb s)) node.key s
  · rw [hn]; exact hnb s

/-! ### remove -/

theorem remove_mono (c : Cfg Val) (now tick : Nat) (b : Bucket Val) (key : Nat) :
    Mono b (b.remove c now tick key).1 := by
  rcases remove_shape c now tick b key with h | ⟨pos, fcp', hpos, h⟩
  · rw [h]; exact Mono.refl b
  · rw [h]
    refine Mono.trans ?_ (applyPending_mono c now tick _)
    intro q; unfold A; dsimp only
    have := W_removeAt_le q b.nodes pos; omega

theorem remove_NB (keyOf : Val → Nat) (mi pt now tick : Nat) (b : Bucket Val) (key : Nat)
    (hnb : NB b) (hu : UB b) (hv : VB keyOf b) :
    NB (b.remove (ipCfg mi pt) now tick key).1 := by
  rcases remove_shape (ipCfg mi pt) now tick b key with h | ⟨pos, fcp', hpos, h⟩
  · rw [h]; exact hnb
  · rw [h]
    apply applyPending_NB
    · intro s; exact Nat.le_trans (W_removeAt_le _ _ _) (hnb s)
    · intro p hp n hn
      exact pending_value_fresh keyOf b hu hv p hp n (mem_removeAt _ _ _ hn)

end Discv5.KB.Ip

/-
Helper lemmas for the closest-node iteration (`Model/Closest.lean`), used by `Props/C08.lean`:
* closed form of `bucketOrder` (the `ClosestBucketsIter` state machine run to exhaustion),
  which is a permutation of `range 256` ordered by the relation `Before`;
* the XOR-metric ordering lemma: buckets visited earlier hold strictly closer nodes.
-/
import Mathlib.Data.Nat.Bitwise
import Discv5Model.Model.KBucketSpec
namespace Discv5.KB

/-! ### closed form of the bucket order -/

def zin (d i : Nat) : List Nat := (List.range i).reverse.filter (fun j => d.testBit j)
def zout (d i : Nat) : List Nat :=
  (List.range' (i + 1) (256 - (i + 1))).filter (fun j => !d.testBit j)
def ztail (d : Nat) : List Nat := if (d.testBit 0 || d = 0) then zout d 0 else 0 :: zout d 0
def startIdx (d : Nat) : Nat := if d = 0 then 0 else d.log2
def closedOrder (d : Nat) : List Nat := startIdx d :: (zin d (startIdx d) ++ ztail d)

theorem find_range'_some (p : Nat → Bool) : ∀ k a j, (List.range' a k).find? p = some j →
    a ≤ j ∧ j < a + k ∧
      (List.range' a k).filter p = j :: (List.range' (j + 1) (a + k - (j + 1))).filter p := by
  intro k
  induction k with
  | zero => intro a j h; simp at h
  | succ k ih =>
    intro a j h
    rw [List.range'_succ] at h ⊢
    by_cases hp : p a = true
    · rw [List.find?_cons_of_pos hp] at h
      injection h with h
      subst h
      refine ⟨Nat.le_refl _, by omega, ?_⟩
      rw [List.filter_cons_of_pos hp]
      have : a + (k + 1) - (a + 1) = k := by omega
      rw [this]
    · rw [List.find?_cons_of_neg hp] at h
      obtain ⟨h1, h2, h3⟩ := ih (a + 1) j h
      refine ⟨by omega, by omega, ?_⟩
      rw [List.filter_cons_of_neg hp, h3]
      have : a + 1 + k - (j + 1) = a + (k + 1) - (j + 1) := by omega
      rw [this]

theorem find_none_filter (p : α → Bool) (l : List α) (h : l.find? p = none) : l.filter p = [] := by
  rw [List.find?_eq_none] at h
  rw [List.filter_eq_nil_iff]
  exact h

theorem find_revrange_some (p : Nat → Bool) : ∀ i j, (List.range i).reverse.find? p = some j →
    j < i ∧ (List.range i).reverse.filter p = j :: (List.range j).reverse.filter p := by
  intro i
  induction i with
  | zero => intro j h; simp at h
  | succ i ih =>
    intro j h
    rw [List.range_succ, List.reverse_append] at h ⊢
    simp only [List.reverse_cons, List.reverse_nil, List.nil_append, List.cons_append] at h ⊢
    by_cases hp : p i = true
    · rw [List.find?_cons_of_pos hp] at h
      injection h with h
      subst h
      exact ⟨Nat.lt_succ_self _, by rw [List.filter_cons_of_pos hp]⟩
    · rw [List.find?_cons_of_neg hp] at h
      obtain ⟨h1, h2⟩ := ih j h
      exact ⟨by omega, by rw [List.filter_cons_of_neg hp, h2]⟩

theorem cRun_some (d fuel : Nat) (s s' : CState) (i : Nat) (h : cNext d s = (some i, s')) :
    cRun d (fuel + 1) s = i :: cRun d fuel s' := by
  simp only [cRun, h]

theorem cRun_none (d fuel : Nat) (s s' : CState) (h : cNext d s = (none, s')) :
    cRun d (fuel + 1) s = [] := by
  simp only [cRun, h]

theorem cRun_zoomOut (d : Nat) : ∀ fuel i, (zout d i).length + 1 ≤ fuel →
    cRun d fuel (.zoomOut i) = zout d i := by
  intro fuel
  induction fuel with
  | zero => intro i h; omega
  | succ fuel ih =>
    intro i h
    cases hn : nextOut d i with
    | none =>
      rw [cRun_none d fuel _ .done (by simp only [cNext, hn])]
      unfold nextOut at hn
      simp only [numBuckets, Consts.NUM_BUCKETS] at hn
      exact (find_none_filter _ _ hn).symm
    | some j =>
      rw [cRun_some d fuel _ (.zoomOut j) j (by simp only [cNext, hn])]
      unfold nextOut at hn
      simp only [numBuckets, Consts.NUM_BUCKETS] at hn
      obtain ⟨h1, h2, h3⟩ := find_range'_some _ _ _ _ hn
      have e : i + 1 + (256 - (i + 1)) = 256 := by omega
      rw [e] at h3
      have hz : zout d i = j :: zout d j := h3
      rw [hz] at h ⊢
      rw [ih j (by simpa using h)]

theorem cRun_zoomIn (d : Nat) : ∀ fuel i, (zin d i ++ ztail d).length + 1 ≤ fuel →
    cRun d fuel (.zoomIn i) = zin d i ++ ztail d := by
  intro fuel
  induction fuel with
  | zero => intro i h; omega
  | succ fuel ih =>
    intro i h
    cases hn : nextIn d i with
    | some j =>
      rw [cRun_some d fuel _ (.zoomIn j) j (by simp only [cNext, hn])]
      unfold nextIn at hn
      obtain ⟨h1, h2⟩ := find_revrange_some _ _ _ hn
      have hz : zin d i = j :: zin d j := h2
      rw [hz] at h ⊢
      rw [ih j (by simpa using h)]
      rfl
    | none =>
      have hz : zin d i = [] := by
        unfold nextIn at hn
        exact find_none_filter _ _ hn
      rw [hz] at h ⊢
      simp only [List.nil_append] at h ⊢
      by_cases hc : (d.testBit 0 || decide (d = 0)) = true
      · have ht : ztail d = zout d 0 := by unfold ztail; rw [if_pos hc]
        rw [ht] at h ⊢
        rw [← cRun_zoomOut d (fuel + 1) 0 h]
        have e : cNext d (.zoomIn i) = cNext d (.zoomOut 0) := by
          simp only [cNext, hn, if_pos hc]
        simp only [cRun, e]
      · have ht : ztail d = 0 :: zout d 0 := by unfold ztail; rw [if_neg hc]
        rw [ht] at h ⊢
        rw [cRun_some d fuel _ (.zoomOut 0) 0 (by simp only [cNext, hn, if_neg hc])]
        rw [cRun_zoomOut d fuel 0 (by simpa using h)]

theorem bucketOrder_closed (d : Nat) (h : (closedOrder d).length ≤ 256) :
    bucketOrder d = closedOrder d := by
  unfold bucketOrder cInit
  simp only [numBuckets, Consts.NUM_BUCKETS]
  rw [cRun_some _ _ _ (.zoomIn (if d = 0 then 0 else d.log2)) (if d = 0 then 0 else d.log2) rfl]
  unfold closedOrder at h ⊢
  unfold startIdx at h ⊢
  rw [cRun_zoomIn d _ _ (by simp at h ⊢; omega)]


/-! ### the closed form is a permutation of `range 256`, ordered by `Before` -/

/-- `i` is visited before `j` for distance `d`: either the decisive bit is `i` (set in `d`, `j`
below) or it is `j` (clear in `d`, `i` below). -/
def Before (d i j : Nat) : Prop := (j < i ∧ d.testBit i = true) ∨ (i < j ∧ d.testBit j = false)

theorem mem_zin {d i j : Nat} : j ∈ zin d i ↔ j < i ∧ d.testBit j = true := by
  simp [zin]

theorem mem_zout {d i j : Nat} : j ∈ zout d i ↔ i < j ∧ j < 256 ∧ d.testBit j = false := by
  simp only [zout, List.mem_filter, List.mem_range'_1, Bool.not_eq_true']
  constructor
  · rintro ⟨⟨h1, h2⟩, h3⟩
    exact ⟨by omega, by omega, h3⟩
  · rintro ⟨h1, h2, h3⟩
    exact ⟨⟨by omega, by omega⟩, h3⟩

theorem mem_ztail {d j : Nat} :
    j ∈ ztail d ↔ j < 256 ∧ d.testBit j = false ∧ ¬(d = 0 ∧ j = 0) := by
  unfold ztail
  by_cases hc : (d.testBit 0 || decide (d = 0)) = true
  · rw [if_pos hc, mem_zout]
    simp only [Bool.or_eq_true, decide_eq_true_eq] at hc
    constructor
    · rintro ⟨h1, h2, h3⟩
      exact ⟨h2, h3, by omega⟩
    · rintro ⟨h1, h2, h3⟩
      refine ⟨?_, h1, h2⟩
      rcases Nat.eq_zero_or_pos j with hj | hj
      · subst hj
        rcases hc with hc | hc
        · rw [hc] at h2; cases h2
        · exact absurd ⟨hc, rfl⟩ h3
      · exact hj
  · rw [if_neg hc, List.mem_cons, mem_zout]
    simp only [Bool.or_eq_true, decide_eq_true_eq, not_or, Bool.not_eq_true] at hc
    constructor
    · rintro (h | ⟨h1, h2, h3⟩)
      · subst h; exact ⟨by omega, hc.1, fun h => hc.2 h.1⟩
      · exact ⟨h2, h3, by omega⟩
    · rintro ⟨h1, h2, _⟩
      rcases Nat.eq_zero_or_pos j with hj | hj
      · exact Or.inl hj
      · exact Or.inr ⟨hj, h1, h2⟩

theorem zin_pairwise (d i : Nat) : (zin d i).Pairwise (fun a b => b < a) := by
  unfold zin
  apply List.Pairwise.filter
  rw [List.pairwise_reverse]
  exact List.pairwise_lt_range

theorem zout_pairwise (d i : Nat) : (zout d i).Pairwise (fun a b => a < b) := by
  unfold zout
  apply List.Pairwise.filter
  exact List.pairwise_lt_range'

theorem ztail_pairwise (d : Nat) : (ztail d).Pairwise (fun a b => a < b) := by
  unfold ztail
  split
  · exact zout_pairwise d 0
  · rw [List.pairwise_cons]
    exact ⟨fun j hj => (mem_zout.1 hj).1, zout_pairwise d 0⟩

theorem testBit_lt_256 {d j : Nat} (h : d < 2 ^ 256) (hb : d.testBit j = true) : j < 256 := by
  apply Decidable.byContradiction
  intro hj
  have : d < 2 ^ j := Nat.lt_of_lt_of_le h (Nat.pow_le_pow_right (by omega) (by omega))
  rw [Nat.testBit_lt_two_pow this] at hb
  cases hb

theorem testBit_le_log2 {d j : Nat} (hb : d.testBit j = true) : j ≤ d.log2 := by
  apply Decidable.byContradiction
  intro hj
  have hd : d ≠ 0 := by
    intro h; subst h; simp at hb
  have : d < 2 ^ j := (Nat.log2_lt hd).1 (by omega)
  rw [Nat.testBit_lt_two_pow this] at hb
  cases hb

theorem closedOrder_pairwise (d : Nat) : (closedOrder d).Pairwise (Before d) := by
  unfold closedOrder
  rw [List.pairwise_cons, List.pairwise_append]
  refine ⟨?_, ?_, ?_, ?_⟩
  · intro j hj
    rw [List.mem_append, mem_zin, mem_ztail] at hj
    unfold startIdx at hj ⊢
    by_cases hd : d = 0
    · rw [if_pos hd] at hj ⊢
      rcases hj with ⟨h, _⟩ | ⟨h1, h2, h3⟩
      · omega
      · exact Or.inr ⟨by omega, h2⟩
    · rw [if_neg hd] at hj ⊢
      rcases hj with ⟨h, _⟩ | ⟨h1, h2, h3⟩
      · exact Or.inl ⟨h, Nat.testBit_log2 hd⟩
      · have hs := Nat.testBit_log2 hd
        have hne : j ≠ d.log2 := by
          intro e; rw [e, hs] at h2; cases h2
        rcases Nat.lt_or_gt_of_ne hne with h | h
        · exact Or.inl ⟨h, hs⟩
        · exact Or.inr ⟨h, h2⟩
  · apply (zin_pairwise d _).imp_of_mem
    intro a b ha _ hab
    exact Or.inl ⟨hab, (mem_zin.1 ha).2⟩
  · apply (ztail_pairwise d).imp_of_mem
    intro a b _ hb hab
    exact Or.inr ⟨hab, (mem_ztail.1 hb).2.1⟩
  · intro a ha b hb
    have ha := (mem_zin.1 ha).2
    have hb := (mem_ztail.1 hb).2.1
    have hne : a ≠ b := by
      intro e; rw [e, hb] at ha; cases ha
    rcases Nat.lt_or_gt_of_ne hne with h | h
    · exact Or.inr ⟨h, hb⟩
    · exact Or.inl ⟨h, ha⟩

theorem Before.ne {d i j : Nat} (h : Before d i j) : i ≠ j := by
  rcases h with ⟨h, _⟩ | ⟨h, _⟩ <;> omega

theorem closedOrder_nodup (d : Nat) : (closedOrder d).Nodup :=
  (closedOrder_pairwise d).imp Before.ne

theorem mem_closedOrder {d i : Nat} (h : d < 2 ^ 256) : i ∈ closedOrder d ↔ i < 256 := by
  unfold closedOrder
  rw [List.mem_cons, List.mem_append, mem_zin, mem_ztail]
  unfold startIdx
  by_cases hd : d = 0
  · rw [if_pos hd]
    subst hd
    simp only [Nat.zero_testBit, true_and]
    constructor
    · rintro (h | h | h)
      · omega
      · cases h.2
      · exact h.1
    · intro hi
      rcases Nat.eq_zero_or_pos i with h0 | h0
      · exact Or.inl h0
      · exact Or.inr (Or.inr ⟨hi, by omega⟩)
  · rw [if_neg hd]
    constructor
    · rintro (h1 | h1 | h1)
      · rw [h1]; exact (Nat.log2_lt hd).2 h
      · exact testBit_lt_256 h h1.2
      · exact h1.1
    · intro hi
      cases hb : d.testBit i with
      | true =>
        have := testBit_le_log2 hb
        rcases Nat.lt_or_eq_of_le this with h1 | h1
        · exact Or.inr (Or.inl ⟨h1, rfl⟩)
        · exact Or.inl h1
      | false =>
        exact Or.inr (Or.inr ⟨hi, rfl, fun h => hd h.1⟩)

theorem closedOrder_perm (d : Nat) (h : d < 2 ^ 256) : (closedOrder d).Perm (List.range 256) := by
  rw [List.perm_ext_iff_of_nodup (closedOrder_nodup d) List.nodup_range]
  intro i
  rw [mem_closedOrder h, List.mem_range]

theorem bucketOrder_eq_closed (d : Nat) (h : d < 2 ^ 256) : bucketOrder d = closedOrder d :=
  bucketOrder_closed d (Nat.le_of_eq ((closedOrder_perm d h).length_eq.trans List.length_range))


/-! ### XOR metric -/

def Msb (x i : Nat) : Prop := x.testBit i = true ∧ x < 2 ^ (i + 1)

theorem Msb.above {x i j : Nat} (h : Msb x i) (hj : i < j) : x.testBit j = false :=
  Nat.testBit_lt_two_pow (Nat.lt_of_lt_of_le h.2 (Nat.pow_le_pow_right (by omega) (by omega)))

theorem xor_lt_of_before {d i j x y : Nat} (hb : Before d i j) (hx : Msb x i) (hy : Msb y j) :
    x ^^^ d < y ^^^ d := by
  rcases hb with ⟨hji, hd⟩ | ⟨hij, hd⟩
  · apply Nat.lt_of_testBit i
    · simp [Nat.testBit_xor, hx.1, hd]
    · simp [Nat.testBit_xor, hy.above hji, hd]
    · intro k hk
      simp [Nat.testBit_xor, hx.above hk, hy.above (Nat.lt_trans hji hk)]
  · apply Nat.lt_of_testBit j
    · simp [Nat.testBit_xor, hx.above hij, hd]
    · simp [Nat.testBit_xor, hy.1, hd]
    · intro k hk
      simp [Nat.testBit_xor, hy.above hk, hx.above (Nat.lt_trans hij hk)]

theorem msb_of_bucketIndex {l k i : Nat} (h : bucketIndex l k = some i) : Msb (l ^^^ k) i := by
  unfold bucketIndex at h
  simp only [] at h
  by_cases hz : l ^^^ k = 0
  · rw [if_pos hz] at h; cases h
  · rw [if_neg hz] at h
    injection h with h
    subst h
    exact ⟨Nat.testBit_log2 hz, Nat.lt_log2_self⟩

theorem xor_xor_cancel (l a t : Nat) : (l ^^^ a) ^^^ (l ^^^ t) = a ^^^ t := by
  apply Nat.eq_of_testBit_eq
  intro i
  simp only [Nat.testBit_xor]
  cases l.testBit i <;> cases a.testBit i <;> cases t.testBit i <;> rfl

theorem xor_cancel_right {a b t : Nat} (h : a ^^^ t = b ^^^ t) : a = b := by
  have := congrArg (· ^^^ t) h
  simpa [Nat.xor_assoc] using this

end Discv5.KB

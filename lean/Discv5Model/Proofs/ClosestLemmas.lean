/- Helper lemmas for the routing-table model. -/
import Discv5Model.Model.KBucketSpec
namespace Discv5.KB
end Discv5.KB
